import TaskModel.Dedup.Key
import TaskModel.Gen.HashFields
/-!
# C06, key half — which references share an execution

`Props.C06` proves, over the executor LTS, that per dedup key exactly one activation runs
and everybody else waits for it.  This file decides which references get the same key.
With a hash that reaches every part of the compiled task (`HashCfg.full`; that the code's
hash does is `Props.C06.hash_reaches_all`, from the regenerated `Gen.HashFields`):

* `key_full_iff`: two references of a `when_changed` task get the same key **iff** they are
  called with the same set of variable values;
* `whenChanged_exact`: whatever the arrival order, the executions are exactly one per
  distinct set of variable values among the references (`_mem`, `_complete`, `_nodup`);
* `once_exact`, `always_exact`: `once` executes the first reference only, `always` all.
* `partial_hash_misses`: a hash that skips the variables and `env:` (what the code did
  before fix F18) merges two calls whose values differ only in `env:` — the negation,
  with the concrete witness replayed against the implementation by the `wc` harness.
-/
namespace Props.C06Key
open TaskModel.Dedup

theorem compile_congr (nv : Nat) (W : Callee) (σ₁ σ₂ : Asg) (h : norm nv σ₁ = norm nv σ₂) :
    compile nv W σ₁ = compile nv W σ₂ := by
  unfold compile; simp only [h]

/-- **C06 (key adequacy).** Same key ⇔ same set of variable values. -/
theorem key_full_iff (nv : Nat) (W : Callee) (σ₁ σ₂ : Asg) :
    key .full (compile nv W σ₁) = key .full (compile nv W σ₂) ↔ norm nv σ₁ = norm nv σ₂ := by
  constructor
  · intro h
    simp only [key, HashCfg.full, if_true, List.cons.injEq, Option.some.injEq] at h
    exact h.1
  · intro h; rw [compile_congr nv W σ₁ σ₂ h]

/-- and the key determines everything observable about the compiled task -/
theorem key_full_inj (c₁ c₂ : Compiled) (h : key .full c₁ = key .full c₂) : c₁ = c₂ := by
  simp only [key, HashCfg.full, if_true, List.cons.injEq, Option.some.injEq, and_true] at h
  cases c₁; cases c₂; simp_all

theorem wc_mem (h : HashCfg) (nv : Nat) (W : Callee) : ∀ (calls : List Asg) (tbl : List (List (Option Vals))) (c : Compiled),
    c ∈ execs .whenChanged h nv W calls tbl → (∃ σ ∈ calls, c = compile nv W σ) ∧ key h c ∉ tbl := by
  intro calls
  induction calls with
  | nil => intro tbl c hc; simp [execs] at hc
  | cons σ rest ih =>
    intro tbl c hc
    simp only [execs] at hc
    split at hc
    · have := ih tbl c hc
      exact ⟨by obtain ⟨s, hs, he⟩ := this.1; exact ⟨s, List.mem_cons_of_mem _ hs, he⟩, this.2⟩
    · rename_i hnot
      rcases List.mem_cons.mp hc with rfl | hc'
      · exact ⟨⟨σ, List.mem_cons_self, rfl⟩, by simpa using hnot⟩
      · have := ih _ c hc'
        refine ⟨by obtain ⟨s, hs, he⟩ := this.1; exact ⟨s, List.mem_cons_of_mem _ hs, he⟩, ?_⟩
        intro hin; exact this.2 (List.mem_cons_of_mem _ hin)

theorem wc_complete (h : HashCfg) (nv : Nat) (W : Callee) : ∀ (calls : List Asg) (tbl : List (List (Option Vals))) (σ : Asg),
    σ ∈ calls → key h (compile nv W σ) ∈ tbl ∨ ∃ c ∈ execs .whenChanged h nv W calls tbl, key h c = key h (compile nv W σ) := by
  intro calls
  induction calls with
  | nil => intro tbl σ hσ; cases hσ
  | cons τ rest ih =>
    intro tbl σ hσ
    simp only [execs]
    rcases List.mem_cons.mp hσ with rfl | hσ'
    · split
      · rename_i hin; left; simpa using hin
      · right; exact ⟨_, List.mem_cons_self, rfl⟩
    · split
      · exact ih tbl σ hσ'
      · rcases ih (key h (compile nv W τ) :: tbl) σ hσ' with hin | ⟨c, hc, hk⟩
        · rcases List.mem_cons.mp hin with heq | hin'
          · right; exact ⟨_, List.mem_cons_self, heq.symm⟩
          · left; exact hin'
        · right; exact ⟨c, List.mem_cons_of_mem _ hc, hk⟩

theorem wc_nodup (h : HashCfg) (nv : Nat) (W : Callee) : ∀ (calls : List Asg) (tbl : List (List (Option Vals))),
    ((execs .whenChanged h nv W calls tbl).map (key h)).Nodup := by
  intro calls
  induction calls with
  | nil => intro tbl; simp [execs]
  | cons τ rest ih =>
    intro tbl
    simp only [execs]
    split
    · exact ih tbl
    · simp only [List.map_cons, List.nodup_cons]
      refine ⟨?_, ih _⟩
      intro hin
      obtain ⟨c, hc, hk⟩ := List.mem_map.mp hin
      have := (wc_mem h nv W rest _ c hc).2
      exact this (by rw [hk]; exact List.mem_cons_self)

/-- **C06 (when_changed: exactly once per distinct set of variable values).**  For any
arrival order `calls` of the references at the dedup table: every execution belongs to a
reference; every reference's set of values is executed; no set of values is executed twice. -/
theorem whenChanged_exact (nv : Nat) (W : Callee) (calls : List Asg) :
    let ex := execs .whenChanged .full nv W calls []
    (∀ c ∈ ex, ∃ σ ∈ calls, c = compile nv W σ) ∧
    (∀ σ ∈ calls, compile nv W σ ∈ ex) ∧
    (ex.map (·.vars)).Nodup ∧
    (∀ c ∈ ex, ∀ σ, c.vars = norm nv σ → c = compile nv W σ) := by
  refine ⟨fun c hc => (wc_mem .full nv W calls [] c hc).1, ?_, ?_, ?_⟩
  · intro σ hσ
    rcases wc_complete .full nv W calls [] σ hσ with hin | ⟨c, hc, hk⟩
    · cases hin
    · rw [← key_full_inj _ _ hk]; exact hc
  · have := wc_nodup .full nv W calls []
    rw [List.nodup_iff_pairwise_ne] at this ⊢  
    rw [List.pairwise_map] at this ⊢
    refine this.imp_of_mem ?_
    intro a b ha hb hne heq
    apply hne
    obtain ⟨σa, _, rfl⟩ := (wc_mem .full nv W calls [] a ha).1
    obtain ⟨σb, _, rfl⟩ := (wc_mem .full nv W calls [] b hb).1
    exact (key_full_iff nv W σa σb).mpr heq
  · intro c hc σ hv
    obtain ⟨τ, _, rfl⟩ := (wc_mem .full nv W calls [] c hc).1
    exact compile_congr nv W τ σ hv

/-- **C06 (order independence).** Which sets of values get executed does not depend on the
order in which the references reach the table (the interleaving of the callers). -/
theorem whenChanged_order_indep (nv : Nat) (W : Callee) (calls calls' : List Asg) (hp : calls.Perm calls') (c : Compiled) :
    c ∈ execs .whenChanged .full nv W calls [] ↔ c ∈ execs .whenChanged .full nv W calls' [] := by
  have key : ∀ (l l' : List Asg), (∀ σ, σ ∈ l → σ ∈ l') → c ∈ execs .whenChanged .full nv W l [] → c ∈ execs .whenChanged .full nv W l' [] := by
    intro l l' hsub hc
    obtain ⟨σ, hσ, rfl⟩ := (whenChanged_exact nv W l).1 c hc
    exact (whenChanged_exact nv W l').2.1 σ (hsub σ hσ)
  exact ⟨key calls calls' (fun σ h => hp.subset h), key calls' calls (fun σ h => hp.symm.subset h)⟩

theorem once_tbl (h : HashCfg) (nv : Nat) (W : Callee) : ∀ (calls : List Asg) (tbl : List (List (Option Vals))), tbl ≠ [] →
    execs .once h nv W calls tbl = [] := by
  intro calls
  induction calls with
  | nil => intro _ _; rfl
  | cons σ rest ih =>
    intro tbl ht
    simp only [execs]
    have : tbl.isEmpty = false := by cases tbl <;> simp_all
    simp only [this]
    exact ih tbl ht

/-- **C06 (once).** However many references and whatever their variables: one execution,
the first reference's. -/
theorem once_exact (h : HashCfg) (nv : Nat) (W : Callee) (σ : Asg) (rest : List Asg) :
    execs .once h nv W (σ :: rest) [] = [compile nv W σ] := by
  simp only [execs, List.isEmpty_nil, if_true]
  rw [once_tbl h nv W rest [[]] (by simp)]

/-- **C06 (always).** One execution per reference. -/
theorem always_exact (h : HashCfg) (nv : Nat) (W : Callee) : ∀ (calls : List Asg) (tbl : List (List (Option Vals))),
    execs .always h nv W calls tbl = calls.map (compile nv W) := by
  intro calls
  induction calls with
  | nil => intro _; rfl
  | cons σ rest ih => intro tbl; simp only [execs, List.map_cons, ih]

/-- The negation for a hash that does not reach the variables and `env:` (the unrepaired
code: `*ast.Vars` keeps its data in unexported fields): two references whose values differ
— visibly, through `env:` — are merged into one execution. -/
theorem partial_hash_misses :
    let h : HashCfg := ⟨false, true, false, false, true⟩
    let W : Callee := { envVars := [0] }
    let calls : List Asg := [[(0, 1)], [(0, 2)]]
    compile 1 W [(0, 1)] ≠ compile 1 W [(0, 2)] ∧ (execs .whenChanged h 1 W calls []).length = 1 := by decide

/-- non-vacuity: with the full hash the same two references both execute -/
example : (execs .whenChanged .full 1 { envVars := [0] } [[(0, 1)], [(0, 2)], [(0, 1)]] []).length = 2 := by decide

/-! ## Tie to the source: what the code's hash reaches (regenerated every run) -/
open TaskModel.Gen.HashFields in
/-- kind of a field in the regenerated table -/
def kindOf (s f : String) : Option (String × String) :=
  (fields.find? (fun r => r.1 == s && r.2.1 == f)).map (fun r => (r.2.2.1, r.2.2.2))

/-- the field's data takes part in the hash: a plain value, or a `Hashable` type -/
def reached (s f : String) : Bool :=
  match kindOf s f with
  | some (k, _) => k == "value" || k == "hashable"
  | none => false

/-- the field is walked into the struct `t` -/
def walks (s f t : String) : Bool := kindOf s f == some ("struct", t)

def varReached : Bool := reached "ast.Var" "Value" && reached "ast.Var" "Sh" && reached "ast.Var" "Ref"

/-- the `HashCfg` of the code under test -/
def cfgOfGen : HashCfg :=
  { vars := reached "ast.Task" "Vars" && varReached
    cmd := walks "ast.Task" "Cmds" "ast.Cmd" && reached "ast.Cmd" "Cmd" && reached "ast.Cmd" "Task"
    env := reached "ast.Task" "Env" && varReached
    sub := walks "ast.Task" "Cmds" "ast.Cmd" && reached "ast.Cmd" "Vars" && varReached
    dep := walks "ast.Task" "Deps" "ast.Dep" && reached "ast.Dep" "Task" && reached "ast.Dep" "Vars" && varReached }

/-- **Obligation.** The structural hash of the tree under test reaches the resolved
variables, the command texts, `env:` and the variables of sub-calls and dependencies. -/
theorem hash_reaches_all : cfgOfGen = HashCfg.full := by decide

/-- **Obligation.** `GetHash` maps the run modes to the three key functions, `when_changed`
hashes the whole task with no field excluded (`nil` options) and prefixes the task name,
`once` keys on taskfile location and local name, `always` has no key. -/
theorem key_functions :
    TaskModel.Gen.HashFields.runModes.lookup "always" = some "hash.Empty" ∧
    TaskModel.Gen.HashFields.runModes.lookup "once" = some "hash.Name" ∧
    TaskModel.Gen.HashFields.runModes.lookup "when_changed" = some "hash.Hash" ∧
    TaskModel.Gen.HashFields.keyFuncs.lookup "hash.Hash" =
      some ["hashstructure.Hash(‹*ast.Task›, hashstructure.FormatV2, nil)", "fmt.Sprintf(\"%s:%d\", ‹*ast.Task›.Task, ‹uint64›)"] ∧
    TaskModel.Gen.HashFields.keyFuncs.lookup "hash.Name" = some ["fmt.Sprintf(\"%s:%s\", ‹*ast.Task›.Location.Taskfile, ‹*ast.Task›.LocalName())"] ∧
    TaskModel.Gen.HashFields.keyFuncs.lookup "hash.Empty" = some ["return \"\""] ∧
    -- the local name of `once`: the full name minus the namespace PREFIX and one separator (a prefix, not a
    -- character set: the key of a task must not depend on the letters of the namespace it was merged under)
    TaskModel.Gen.HashFields.localName =
      ["‹string› := ‹*ast.Task›.Task", "‹string› = strings.TrimPrefix(‹string›, ‹*ast.Task›.Namespace)",
       "‹string› = strings.TrimPrefix(‹string›, \":\")", "return ‹string›"] := by decide

/-- no field of the compiled task or of a command / dependency is silently dropped: every
field is a value, a walked struct or a `Hashable` (an `opaque` row is a struct whose data
is all unexported — what `*ast.Vars` was before F18) -/
theorem no_opaque_field :
    (TaskModel.Gen.HashFields.fields.filter (fun r =>
      (r.1 == "ast.Task" || r.1 == "ast.Cmd" || r.1 == "ast.Dep" || r.1 == "ast.Var") &&
      (r.2.2.1 == "opaque" || r.2.2.1 == "ignored" || r.2.2.1 == "unexported" || r.2.2.1 == "other"))).map (fun r => (r.1, r.2.1)) = [] := by decide

end Props.C06Key
