import Props.SchedTie
import TaskModel.Sched.WaiterLemmas
import Props.C14
import TaskModel.Sched.MonVal
import TaskModel.Sched.ProgInv
/-!
# C02 — Commands of a task run one at a time, in order; task calls are synchronous

This file carries the *scheduling* half of C02 over the executor model `Sched`
(`replay … = some c` = every trace the model accepts, i.e. all programs, flags,
interleavings, failures and cancellations):

* `C02_seq` — within one execution of a task the commands start one at a time, in
  declaration order, none before the previous one has completely finished (monitor
  `seqMon`, evaluated by the driver on the traces of the real executor as well);
* `C02_call_sync` — a `task:` entry returns only after the called task, all of its
  descendants (dependencies, nested calls, at any depth) and all of its deferred commands
  have finished; `C02_waiter_sync`: if the called task was a deduplicated (`run: once` /
  `when_changed`) waiter, the shared execution it waited for has finished too.

The loop-order and call-variable parts of C02 (`for:` lists, matrices, variables seen by
the callee) live in the `Vars` domain: this file is completed by `Props/C02Vars.lean`.

Which statements say what (audit, session 3).  `C02_callRet_after_exit` restates the guard of `callRet` (the called
activation has exited).  Trace-level — invariants of every reachable configuration, proved by induction over the
accepted log: `C02_seq`, `C02_seq_all` (monitor soundness), `C02_descendants_done`, `C02_call_sync`,
`C02_no_entry_skipped` / `C02_body_complete` (the started entries are exactly the non-deferred entries of the
PROGRAM below the loop position; all of them when the body ran to its end).  `C02_callee_sees_passed`: semantics of
the value monitor (`C02v`), which runs beside the acceptor.
-/
namespace Props.C02
open TaskModel.Sched.S2
open TaskModel.Sched

/-- **C02 (sequencing).** In every run, for every activation (= one execution of a task):
non-deferred commands start in strictly increasing index order, an entry (deferred or
not) starts only when no other entry of the activation is open, every entry is closed by
the end event of its own kind and index, and the activation returns with no entry open. -/
theorem C02_seq (P : Program) (F : Flags) (n : Nat) (tr : List Label) (c : Config)
    (h : replay P F (init n) tr = some c) (a : Nat) :
    (seqMon.run seqMon.init (evsOf a tr)).isSome = true :=
  actMon_accepts seqMon SeqR P F
    (fun c kind t => ⟨{}, rfl, SeqR_fresh P F c kind t⟩)
    (fun o s x ev y eff hR hs => SeqR_local F o s x ev y eff hR hs)
    SeqR_kids n tr c h a

/-- the verdict the driver prints is `true` on every accepted trace -/
theorem C02_seq_all (P : Program) (F : Flags) (n : Nat) (tr : List Label) (c : Config)
    (h : replay P F (init n) tr = some c) : seqMonAll tr = true := by
  unfold seqMonAll
  rw [List.all_eq_true]
  intro a _
  exact C02_seq P F n tr c h a

/-! ## synchronous calls -/

/-- `b` is a descendant of `a`: a dependency activation, a called activation, or one of theirs -/
inductive Descendant (c : Config) : Nat → Nat → Prop
  | kid {a : Nat} {x : Act} {s id : Nat} : c.act? a = some x → (s, id) ∈ x.kids → Descendant c a id
  | trans {a : Nat} {x : Act} {s id b : Nat} :
      c.act? a = some x → (s, id) ∈ x.kids → Descendant c id b → Descendant c a b

/-- the activation has returned and every deferred entry it registered has run, exactly once, in reverse order -/
def Finished (c : Config) (id : Nat) : Prop :=
  ∃ k, c.act? id = some k ∧ k.phase = .done ∧ k.ran = k.regs.reverse

/-- `callRet` — the point where a `task:` command returns to its caller — is accepted only
when the activation recorded for that command has exited; the caller continues with
exactly that activation's result. -/
theorem C02_callRet_after_exit (F : Flags) (c : Config) (a : Nat) (x : Act) (i j : Nat) (d : Bool)
    (y : Act) (eff : Eff) (hp : x.phase = .inCall i d)
    (hs : stepLocal F (obsOf F c a x) x (.callRet j) = some (y, eff)) :
    j = i ∧ y.phase = .callReturned i d ∧
    ∃ id k, x.kids.lookup (slotOfCall x i) = some id ∧ c.act? id = some k ∧ k.phase = .done ∧ y.callRes = k.res := by
  have hL := LStep_of_stepLocal F _ x _ y eff hs
  cases hL with
  | callRet _ d' r hp' hk =>
    rw [hp] at hp'; cases hp'
    obtain ⟨id, h1, h2⟩ := callKidOf_spec c x i d r hp hk
    obtain ⟨k, h3, h4, h5⟩ := (kidDone_some c id r).mp h2
    exact ⟨rfl, rfl, id, k, h1, h3, h4, h5.symm⟩

/-- In every reachable configuration: kids may be running only while their parent waits
for them — all of them in `depsWait`, only the called one in `inCall`. -/
theorem C02_kids_done_unless_waiting (P : Program) (F : Flags) (n : Nat) (tr : List Label) (c : Config)
    (h : replay P F (init n) tr = some c) (a : Nat) (x : Act) (hx : c.act? a = some x)
    (s id : Nat) (hm : (s, id) ∈ x.kids) (hw : ¬ mayRun x s) : Finished c id := by
  have hK := KInv_sound P F n tr c h a x hx
  rcases hK.fin s id hm with h1 | h1
  · obtain ⟨r, hr⟩ := Option.isSome_iff_exists.mp h1
    obtain ⟨k, h2, h3, _⟩ := (kidDone_some c id r).mp hr
    exact ⟨k, h2, h3, Props.C14.C14_all_run P F n tr c h id k h2 (by rw [h3]; rfl)⟩
  · exact absurd h1 hw

/-- **All descendants of a returned activation have returned**, with all their deferred entries run. -/
theorem C02_descendants_done (P : Program) (F : Flags) (n : Nat) (tr : List Label) (c : Config)
    (h : replay P F (init n) tr = some c) (a b : Nat) (x : Act) (hx : c.act? a = some x)
    (hd : x.phase = .done) (hb : Descendant c a b) : Finished c b := by
  revert x
  induction hb with
  | @kid a x' s id hx' hm =>
    intro x hx hd
    have e : x = x' := Option.some.inj (hx.symm.trans hx')
    subst e
    refine C02_kids_done_unless_waiting P F n tr c h a x hx s id hm ?_
    rintro (h1 | ⟨i, d, h1, _⟩) <;> rw [hd] at h1 <;> cases h1
  | @trans a x' s id b hx' hm _ ih =>
    intro x hx hd
    have e : x = x' := Option.some.inj (hx.symm.trans hx')
    subst e
    have hfin : Finished c id := by
      refine C02_kids_done_unless_waiting P F n tr c h a x hx s id hm ?_
      rintro (h1 | ⟨i, d, h1, _⟩) <;> rw [hd] at h1 <;> cases h1
    obtain ⟨k, hk1, hk2, _⟩ := hfin
    exact ih k hk1 hk2

/-- the same for any activation that is not waiting for kids at the moment (e.g. a shared
execution that has finished but not yet exited) -/
theorem C02_descendants_done_quiet (P : Program) (F : Flags) (n : Nat) (tr : List Label) (c : Config)
    (h : replay P F (init n) tr = some c) (a b : Nat) (x : Act) (hx : c.act? a = some x)
    (hq : x.phase ≠ .depsWait ∧ ∀ i d, x.phase ≠ .inCall i d) (hb : Descendant c a b) : Finished c b := by
  have hnr : ∀ s, ¬ mayRun x s := by
    rintro s (h1 | ⟨i, d, h1, _⟩)
    · exact hq.1 h1
    · exact hq.2 i d h1
  cases hb with
  | kid hx' hm =>
    rename_i x' s
    have e : x = x' := Option.some.inj (hx.symm.trans hx')
    subst e
    exact C02_kids_done_unless_waiting P F n tr c h a x hx s b hm (hnr s)
  | trans hx' hm hd =>
    rename_i x' s kid
    have e : x = x' := Option.some.inj (hx.symm.trans hx')
    subst e
    obtain ⟨k, hk1, hk2, _⟩ := C02_kids_done_unless_waiting P F n tr c h a x hx s kid hm (hnr s)
    exact C02_descendants_done P F n tr c h kid b k hk1 hk2 hd

/-- **C02 (calls of a deduplicated task).** If the called activation did not run the task
itself but waited for the shared execution of a `run: once` / `when_changed` task, then —
as soon as it has been woken, in particular when it has returned to its caller — that
execution has finished: its command loop and all its deferred entries are over, all its
descendants have returned, and the waiter took what that execution ended with (`other.err`),
its own result being its own wrapping of it — what it would have returned had it run the
task itself.  (This is the repaired `startExecution`; the unrepaired code wakes waiters on
cancellation.) -/
theorem C02_waiter_sync (P : Program) (F : Flags) (n : Nat) (tr : List Label) (c : Config)
    (h : replay P F (init n) tr = some c) (a : Nat) (x : Act) (hx : c.act? a = some x)
    (k : Nat) (hw : x.waitsFor = some k) (hp : x.phase ≠ .wWaiting ∧ x.phase ≠ .wReleased) :
    ∃ e ex, c.execs.lookup k = some e ∧ c.act? e = some ex ∧ execOver ex.phase = true ∧
      (ex.out = x.out ∧ x.res = wrapFor x.indirect ex.out) ∧ ex.ran = ex.regs.reverse ∧
      ∀ b, Descendant c e b → Finished c b := by
  obtain ⟨_, g⟩ := WInv_sound P F n tr c h a x hx k hw
  obtain ⟨e, ex, h1, h2, h3, h4⟩ := (execResultOf_some c k x.out).mp (g hp.1 hp.2)
  refine ⟨e, ex, h1, h2, h3, ⟨h4, by rw [h4]; exact OutInv_sound P F n tr c h a x hx⟩, ?_, ?_⟩
  · refine Props.C14.C14_all_run P F n tr c h e ex h2 ?_
    revert h3; cases ex.phase <;> simp [execOver, Props.C14.post]
  · intro b hb
    refine C02_descendants_done_quiet P F n tr c h e b ex h2 ?_ hb
    revert h3; cases ex.phase <;> simp [execOver]

/-- **C02 (synchronous calls).** When the caller continues after a `task:` entry (`callRet`),
the callee has returned, the caller continues with the callee's result, every deferred
entry of the callee has run, and every descendant of the callee — its dependencies, its
nested calls, theirs, … — has returned with all of its deferred entries run.  For every
program, nesting depth and interleaving with other tasks. -/
theorem C02_call_sync (P : Program) (F : Flags) (n : Nat) (tr : List Label) (c : Config)
    (h : replay P F (init n) tr = some c) (a : Nat) (x : Act) (_hx : c.act? a = some x)
    (i j : Nat) (d : Bool) (y : Act) (eff : Eff) (hp : x.phase = .inCall i d)
    (hs : stepLocal F (obsOf F c a x) x (.callRet j) = some (y, eff)) :
    ∃ id k, x.kids.lookup (slotOfCall x i) = some id ∧ c.act? id = some k ∧ k.phase = .done ∧
      y.callRes = k.res ∧ k.ran = k.regs.reverse ∧ ∀ b, Descendant c id b → Finished c b := by
  obtain ⟨_, _, id, k, h1, h2, h3, h4⟩ := C02_callRet_after_exit F c a x i j d y eff hp hs
  refine ⟨id, k, h1, h2, h3, h4, ?_, ?_⟩
  · exact Props.C14.C14_all_run P F n tr c h id k h2 (by rw [h3]; rfl)
  · intro b hb
    exact C02_descendants_done P F n tr c h id b k h2 h3 hb

/-- the same, stated on traces: if a trace ending in `callRet` of `a` is accepted, then in
the configuration before that event the callee and all its descendants have finished -/
theorem C02_call_sync_trace (P : Program) (F : Flags) (n : Nat) (tr : List Label) (a j : Nat) (c' : Config)
    (h : replay P F (init n) (tr ++ [⟨a, .callRet j⟩]) = some c') :
    ∃ c x d id, replay P F (init n) tr = some c ∧ c.act? a = some x ∧ x.phase = .inCall j d ∧
      x.kids.lookup (slotOfCall x j) = some id ∧ Finished c id ∧ ∀ b, Descendant c id b → Finished c b := by
  rw [replay_append] at h
  cases hc : replay P F (init n) tr with
  | none => rw [hc] at h; cases h
  | some c =>
    rw [hc] at h
    simp only [Option.bind, replay] at h
    split at h
    · rename_i c1 hs1
      rcases step_cases P F c c1 _ hs1 with ⟨k, t, he, _⟩ | ⟨_, x, y, eff, hx, hl, _⟩
      · cases he
      · simp only at hx hl
        have hL := LStep_of_stepLocal F _ x _ y eff hl
        cases hL with
        | callRet _ d r hp hk =>
          obtain ⟨id, k, h1, h2, h3, _, h5, h6⟩ := C02_call_sync P F n tr c hc a x hx j j d _ _ hp hl
          exact ⟨c, x, d, id, rfl, hx, hp, h1, ⟨k, h2, h3, h5⟩, h6⟩
    · cases h

/-! ## non-vacuity: nested calls, a dependency and a deferred entry inside the callee -/

private def prog : Program :=
  [ { cmds := [.call 1 false, .shell 0 false false] },
    { deps := [3], cmds := [.shell 0 false true, .call 2 false, .shell 0 false false] },
    { cmds := [.shell 0 false false] },
    { cmds := [.shell 0 false false] } ]

/-- task 0 calls task 1, which has dependency 3, a `defer:`, and calls task 2 -/
private def run1 : List Label :=
  [⟨1, .enter (.top 0) 0⟩, ⟨1, .acquire⟩, ⟨1, .depsRelease⟩, ⟨1, .depsReacq⟩, ⟨1, .depsDone .ok⟩, ⟨1, .guardsPassed⟩,
   ⟨1, .callRelease 0 false⟩,
   ⟨2, .enter (.call 1 0 false) 1⟩, ⟨2, .acquire⟩, ⟨2, .depsRelease⟩,
   ⟨3, .enter (.dep 2 0) 3⟩, ⟨3, .acquire⟩, ⟨3, .depsRelease⟩, ⟨3, .depsReacq⟩, ⟨3, .depsDone .ok⟩, ⟨3, .guardsPassed⟩,
   ⟨3, .cmdStart 0 none false⟩, ⟨3, .cmdEnd 0 .ok⟩, ⟨3, .release⟩, ⟨3, .exit⟩,
   ⟨2, .depsReacq⟩, ⟨2, .depsDone .ok⟩, ⟨2, .guardsPassed⟩, ⟨2, .callRelease 1 false⟩,
   ⟨4, .enter (.call 2 1 false) 2⟩, ⟨4, .acquire⟩, ⟨4, .depsRelease⟩, ⟨4, .depsReacq⟩, ⟨4, .depsDone .ok⟩, ⟨4, .guardsPassed⟩,
   ⟨4, .cmdStart 0 none false⟩, ⟨4, .cmdEnd 0 .ok⟩, ⟨4, .release⟩, ⟨4, .exit⟩,
   ⟨2, .callRet 1⟩, ⟨2, .callReacq 1⟩, ⟨2, .cmdStart 2 none false⟩, ⟨2, .cmdEnd 2 .ok⟩,
   ⟨2, .cmdStart 0 none true⟩, ⟨2, .cmdEnd 0 .ok⟩, ⟨2, .release⟩, ⟨2, .exit⟩,
   ⟨1, .callRet 0⟩, ⟨1, .callReacq 0⟩, ⟨1, .cmdStart 1 none false⟩, ⟨1, .cmdEnd 1 .ok⟩, ⟨1, .release⟩, ⟨1, .exit⟩]

-- the run is accepted; all four activations end in `done`, no slot is left taken
example : ((replay prog {} (init 1) run1).map
    (fun c => (c.tokens, [1, 2, 3, 4].map (fun a => (c.act? a).map (·.phase))))) =
    some (0, [some .done, some .done, some .done, some .done]) := by decide
-- the hypotheses of `C02_call_sync_trace` are met by the prefix ending in the outer `callRet`
example : (replay prog {} (init 1) (run1.take 42 ++ [⟨1, .callRet 0⟩])).isSome = true := by decide
-- the caller continuing before the callee has returned is rejected (callee still has its `defer:` to run) …
example : (replay prog {} (init 1) (run1.take 38 ++ [⟨1, .callRet 0⟩])).isNone = true := by decide
-- … also one step before the callee's `exit`
example : (replay prog {} (init 1) (run1.take 41 ++ [⟨1, .callRet 0⟩])).isNone = true := by decide
-- the inner caller continuing before its callee (activation 4) has returned is rejected
example : (replay prog {} (init 1) (run1.take 32 ++ [⟨2, .callRet 1⟩])).isNone = true := by decide
-- starting the next command while the `task:` entry is still open is rejected
example : (replay prog {} (init 1) (run1.take 24 ++ [⟨2, .cmdStart 2 none false⟩])).isNone = true := by decide
-- commands out of declaration order are rejected
example : (replay prog {} (init 1) (run1.take 23 ++ [⟨2, .cmdStart 2 none false⟩])).isNone = true := by decide
-- a call of a `run: once` task that becomes a waiter: woken only after the shared execution is over
private def progO : Program := [ { run := .once, cmds := [.shell 0 false false] }, { cmds := [.call 0 false] } ]
private def runO : List Label :=
  [⟨1, .enter (.top 0) 0⟩, ⟨1, .acquire⟩, ⟨1, .register 5⟩, ⟨1, .depsRelease⟩, ⟨1, .depsReacq⟩, ⟨1, .depsDone .ok⟩,
   ⟨1, .guardsPassed⟩, ⟨1, .cmdStart 0 none false⟩,
   ⟨2, .enter (.top 1) 1⟩, ⟨2, .acquire⟩, ⟨2, .depsRelease⟩, ⟨2, .depsReacq⟩, ⟨2, .depsDone .ok⟩, ⟨2, .guardsPassed⟩,
   ⟨2, .callRelease 0 false⟩,
   ⟨3, .enter (.call 2 0 false) 0⟩, ⟨3, .acquire⟩, ⟨3, .waiter 5⟩, ⟨3, .wRelease⟩,
   ⟨1, .cmdEnd 0 .ok⟩, ⟨1, .execDone⟩,
   ⟨3, .wWake⟩, ⟨3, .wReacq⟩, ⟨3, .release⟩, ⟨3, .exit⟩,
   ⟨2, .callRet 0⟩, ⟨2, .callReacq 0⟩, ⟨2, .release⟩, ⟨2, .exit⟩, ⟨1, .release⟩, ⟨1, .exit⟩]
example : ((replay progO { parallel := true } (init 2) runO).bind (·.act? 3)).map (fun x => (x.waitsFor, x.phase, x.res)) =
    some (some 5, .done, .ok) := by decide
example : (replay progO { parallel := true } (init 2) (runO.take 19 ++ [⟨3, .wWake⟩])).isNone = true := by decide
example : (replay progO { parallel := true } (init 2) (runO.take 20 ++ [⟨3, .wWake⟩])).isNone = true := by decide
-- the monitor accepts every activation of the run, and is not trivially true
example : seqMonAll run1 = true := by decide
example : (seqMon.run seqMon.init (evsOf 2 (run1.take 24 ++ [⟨2, .cmdStart 2 none false⟩]))).isSome = false := by decide

/-! ## the callee sees what the reference passed

`Sched.MonVal`: every reference carries a `Pass` for the variable the generated programs hand around;
`valsOf` runs the acceptor's own `step` and records, at every `enter`, the value the new activation is
called with; the driver compares it with what the activation's commands printed (verdict `C02v`). -/

/-- **C02 (call variables, executor side).** A dependency or `task:` entry that passes a literal hands the
callee exactly that literal; one that passes nothing leaves the variable unset; one that hands on the
referrer's own value hands on what the referrer was called with (the empty string if it was not set). -/
theorem C02_callee_sees_passed (Ps : Passes) (c : Config) (vals : List (Nat × Nat)) (p i : Nat) (d : Bool) (px : Act)
    (hp : c.act? p = some px) :
    (∀ n, cmdPass Ps px.task i = .lit n → expectedVal Ps c vals (.call p i d) = valNum n) ∧
    (cmdPass Ps px.task i = .none → expectedVal Ps c vals (.call p i d) = valUnset) ∧
    (∀ v, cmdPass Ps px.task i = .own → vals.lookup p = some v → v ≠ valUnset → expectedVal Ps c vals (.call p i d) = v) ∧
    (∀ n, depPass Ps px.task i = .lit n → expectedVal Ps c vals (.dep p i) = valNum n) := by
  refine ⟨?_, ?_, ?_, ?_⟩
  · intro n h; simp [expectedVal, hp, h, passVal]
  · intro h; simp [expectedVal, hp, h, passVal]
  · intro v h hv hne; simp [expectedVal, hp, h, passVal, hv, hne]
  · intro n h; simp [expectedVal, hp, h, passVal]

/-- a call given on the command line is handed nothing -/
theorem C02_top_gets_nothing (Ps : Passes) (c : Config) (vals : List (Nat × Nat)) (k : Nat) :
    expectedVal Ps c vals (.top k) = valUnset := rfl

/-! ## no entry is skipped (trace-level, every reachable configuration)

`C02_seq` says the started entries have increasing indices and are closed one by one — it would also hold of
an executor that LEFT OUT an entry.  `S2.ProgInv` ties `started` to the command list. -/

/-- **C02 (no entry skipped, none twice).** In every reachable configuration the non-deferred entries an activation
has started are exactly the non-deferred entries of its task's command list below the position of its loop —
including the entry at that position while it is open and after it failed. -/
theorem C02_no_entry_skipped (P : Program) (F : Flags) (n : Nat) (tr : List Label) (c : Config)
    (h : replay P F (init n) tr = some c) (a : Nat) (x : Act) (hx : c.act? a = some x) :
    x.started = plainBelow x.def_.cmds x.idx ∨
    (x.started = plainBelow x.def_.cmds (x.idx + 1) ∧ isDefAt x.def_.cmds x.idx = false ∧ x.idx < x.def_.cmds.length) :=
  (S2.ProgInv_sound P F n tr c h a x hx).any

/-- **C02 (the whole list).** An activation that passed its guards, is past its command loop and has no failure
recorded has started EVERY non-deferred entry of its task, in order, each once. -/
theorem C02_body_complete (P : Program) (F : Flags) (n : Nat) (tr : List Label) (c : Config)
    (h : replay P F (init n) tr = some c) (a : Nat) (x : Act) (hx : c.act? a = some x)
    (hg : Ev.guardsPassed ∈ evsOf a tr) (hp : S2.postLoop x.phase = true) (ho : x.out = {}) :
    x.started = plainBelow x.def_.cmds x.def_.cmds.length :=
  (S2.loop_complete P F n tr c h a x hx hg hp ho).2.1

/-- non-vacuity of `C02_body_complete` / `C14_all_run_complete` / `C07_all_work_done`: a task with entries
`cmd, defer, cmd` runs to its end — the hypotheses hold of the final configuration and the conclusion names
entries 0 and 2 (started) and 1 (deferred, run) -/
private def progB : Program := [{ cmds := [.shell 0 false false, .shell 0 false true, .shell 0 false false] }]
private def runB : List Label :=
  [⟨1, .enter (.top 0) 0⟩, ⟨1, .acquire⟩, ⟨1, .depsRelease⟩, ⟨1, .depsReacq⟩, ⟨1, .depsDone .ok⟩, ⟨1, .guardsPassed⟩,
   ⟨1, .cmdStart 0 none false⟩, ⟨1, .cmdEnd 0 .ok⟩, ⟨1, .cmdStart 2 none false⟩, ⟨1, .cmdEnd 2 .ok⟩,
   ⟨1, .cmdStart 1 none true⟩, ⟨1, .cmdEnd 1 .ok⟩, ⟨1, .release⟩, ⟨1, .exit⟩]
example : ((replay progB {} (init 1) runB).bind (·.act? 1)).map (fun x => (x.phase, x.out, x.started, x.ran, x.idx)) =
    some (.done, {}, [0, 2], [1], 3) := by decide
example : Ev.guardsPassed ∈ evsOf 1 runB := by decide
example : plainBelow progB.head!.cmds 3 = [0, 2] ∧ (defersBelow progB.head!.cmds 3).reverse = [1] := by decide
-- a log that leaves out entry 0 is rejected
example : (replay progB {} (init 1) (runB.take 6 ++ [⟨1, .cmdStart 2 none false⟩])).isNone = true := by decide

end Props.C02
