import Props.C02
import Props.C02Vars
/-! C02 = executor part (`Props.C02`) + loop order / call variables (`Props.C02Vars`). -/
