import TaskModel.Vars.Lemmas
import TaskModel.Vars.Cli
import TaskModel.Vars.CompileLemmas
import TaskModel.Vars.EnvPipe
import TaskModel.Gen.VarLayers
import TaskModel.Gen.Load
/-!
# C10 — Variable and environment precedence follows the documented order

Theorems about `TaskModel.Vars` for every set of definitions at every site, every kind of
value (literal, template over lower-priority variables, `sh:`, `ref:`) and every shell.
Tie: (1) `Gen.VarLayers` — the order of the loops in `Compiler.getVariables`, the place
where the task directory is resolved, the env merges of `compiledTask` and the guard of
`env.GetFromVars`, regenerated from the source on every run and proved equal to the
documented order here; (2) correspondence domain `vars`: the real `CompiledTask` on
generated definition-site lattices must equal `getVariables (layersOf …)`.
-/
namespace Props.C10
open TaskModel.Vars

/-- **The code consults the sites in the documented order** (lowest priority first: global
env, global vars incl. command-line assignments, vars of the include statement, vars of the
included Taskfile, call vars, task vars; OS environment and special variables before all),
`sh:` of the included Taskfile's and the task's own vars run in the task directory, which is
resolved each time such a variable needs it (over what is known by then, `~` expanded: fix
cd73a37); command env = global env, then task
dotenv (first file wins), then task env; process environment wins unless the experiment. -/
theorem C10_layers :
    TaskModel.Gen.VarLayers.order =
      [("Compiler.TaskfileEnv", "root"), ("Compiler.TaskfileVars", "root"), ("ast.Task.IncludeVars", "root"),
       ("ast.Task.IncludedTaskfileVars", "task"), ("Call.Vars", "root"), ("ast.Task.Vars", "task")] ∧
    TaskModel.Gen.VarLayers.marks =
      ["osEnviron", "special", "loop:Compiler.TaskfileEnv", "loop:Compiler.TaskfileVars", "loop:ast.Task.IncludeVars", "taskDirClosure",
       "loop:ast.Task.IncludedTaskfileVars", "returnIfNoTaskOrCall", "loop:Call.Vars", "loop:ast.Task.Vars"] ∧
    TaskModel.Gen.VarLayers.taskDirPerVariable = true ∧
    TaskModel.Gen.VarLayers.taskDirExpandsLiteral = true ∧
    TaskModel.Gen.VarLayers.envMerges = ["e.Taskfile.Env", "dotenvEnvs", "origTask.Env"] ∧
    TaskModel.Gen.VarLayers.firstDotenvWins = true ∧
    TaskModel.Gen.VarLayers.appendsToOsEnviron = true ∧
    TaskModel.Gen.VarLayers.osEnvGuard = "!experiments.EnvPrecedence.Enabled() : alreadySet=>continue" := by decide

/-- the "variables of the included Taskfile" layer of an included task is made of the
included file's own variables (`Taskfile.Merge` hands `t2.Vars` to `Tasks.Merge`), not of
the including file's merged globals — otherwise a parent global would outrank the include
statement's `vars:` -/
theorem C10_included_layer_is_included_files_vars : TaskModel.Gen.Load.mergePassesIncludedVars = true := by decide

/-- the loop of `getVariables` each model site stands for -/
def siteCodeName : Site → String
  | .taskfileEnv => "Compiler.TaskfileEnv"
  | .taskfileVars => "Compiler.TaskfileVars"
  | .includeVars => "ast.Task.IncludeVars"
  | .includedTaskfileVars => "ast.Task.IncludedTaskfileVars"
  | .callVars => "Call.Vars"
  | .taskVars => "ast.Task.Vars"

/-- **the model's layer order IS the code's loop order, site by site** (names and task-dir
flags of the extracted table; swapping two sites of `docOrder` breaks this) -/
theorem docOrder_matches :
    docOrder.map (fun s => (siteCodeName s, if s.inTaskDir then "task" else "root")) = TaskModel.Gen.VarLayers.order := by decide

/-- **Highest-priority definition wins, evaluated over lower priorities** — for the six sites in
the documented order, the task compiled alone (empty cache).  If the last definition of `m` in
processing order is `d`, at site `s` after the definitions `dpre` of that site, and no higher site
defines `m`, the value every consumer sees is `d` evaluated over exactly what the sites below `s`
and `dpre` resolved (`stateBefore`, then `dpre`), in the directory of that site AT THAT MOMENT: the
root directory, or for the included-Taskfile and task sites the task's `dir:` rendered over
those very variables (`siteDirf`). -/
theorem C10_last_wins (w : World) (cx : Ctx) (base : Env) (defs : Site → Defs) (s : Site)
    (dpre dpost : Defs) (m : Name) (d : VarDef)
    (hs : defs s = dpre ++ (m, d) :: dpost) (hdpost : m ∉ names dpost)
    (hafter : ∀ s' ∈ sitesAfter s, m ∉ names (defs s')) :
    get (getVariables w cx base (layersOf defs) []).env m =
      (evalDef w
        (siteDirf cx s (evalBlock w (siteDirf cx s) dpre (stateBefore w cx base defs s).env (stateBefore w cx base defs s).cache).1)
        (evalBlock w (siteDirf cx s) dpre (stateBefore w cx base defs s).env (stateBefore w cx base defs s).cache).1
        (evalBlock w (siteDirf cx s) dpre (stateBefore w cx base defs s).env (stateBefore w cx base defs s).cache).2 d).1 := by
  rw [layersOf_split defs s]
  simp only [getVariables]
  rw [runLayers_append]
  simp only [runLayers]
  have hpost : ∀ l ∈ (sitesAfter s).map (lay defs), m ∉ names l.defs := by
    intro l hl
    simp only [List.mem_map] at hl
    obtain ⟨s', hs', rfl⟩ := hl
    exact hafter s' hs'
  rw [runLayers_frame _ _ _ _ _ hpost]
  simp only [stepLayer, stateBefore, lay, hs]
  exact evalBlock_last w _ dpre dpost m d _ _ hdpost

/-- a name defined at no site keeps the value of the process environment / special variables -/
theorem C10_undefined (w : World) (cx : Ctx) (base : Env) (c : Cache) (layers : List Layer) (m : Name)
    (h : ∀ l ∈ layers, m ∉ names l.defs) : get (getVariables w cx base layers c).env m = get base m :=
  runLayers_frame w cx layers _ m h

/-- lower-priority sites are irrelevant once a higher one defines the name with a literal:
the documented order, site by site -/
theorem C10_literal_priority (w : World) (cx : Ctx) (base : Env) (defs : Site → Defs) (s : Site)
    (dpre dpost : Defs) (m : Name) (v : Str)
    (hs : defs s = dpre ++ (m, .lit [.text v]) :: dpost) (hdpost : m ∉ names dpost)
    (hafter : ∀ s' ∈ sitesAfter s, m ∉ names (defs s')) :
    get (getVariables w cx base (layersOf defs) []).env m = v := by
  rw [C10_last_wins w cx base defs s dpre dpost m _ hs hdpost hafter]
  simp [evalDef, render]

/-! ## environment seen by commands -/

theorem lookup_dedupKeys (merged : Env) (seen : List Name) (k : Name) :
    (dedupKeys merged seen).lookup k = if k ∈ seen then none else merged.lookup k := by
  induction merged generalizing seen with
  | nil => simp [dedupKeys]
  | cons kv r ih =>
    obtain ⟨k', v⟩ := kv
    simp only [dedupKeys, List.contains_iff_mem]
    by_cases hs : k' ∈ seen
    · simp only [hs, if_true, ih, List.lookup]
      by_cases hk : k = k'
      · subst hk; simp [hs]
      · have : (k == k') = false := by simpa using hk
        simp [this]
    · simp only [hs, if_false, List.lookup]
      by_cases hk : k = k'
      · subst hk
        simp [hs]
      · have : (k == k') = false := by simpa using hk
        simp only [this, ih, List.mem_cons, hk, false_or]

theorem lookup_filter_key (l : Env) (p : Name → Bool) (k : Name) :
    (l.filter (fun kv => p kv.1)).lookup k = if p k then l.lookup k else none := by
  induction l with
  | nil => simp
  | cons kv r ih =>
    obtain ⟨k', v⟩ := kv
    simp only [List.filter_cons]
    by_cases hp : p k' = true
    · simp only [hp, if_true, List.lookup]
      by_cases hk : k = k'
      · subst hk; simp [hp]
      · have : (k == k') = false := by simpa using hk
        simp [this, ih]
    · simp only [hp, Bool.false_eq_true, if_false, ih, List.lookup]
      by_cases hk : k = k'
      · subst hk; simp [hp]
      · have : (k == k') = false := by simpa using hk
        simp [this]

/-- **Process environment wins** (experiment off): a name set in the process environment
keeps that value whatever the Taskfile's env says. -/
theorem C10_env_os_wins (osEnv merged : Env) (k : Name) (v : Str) (h : osEnv.lookup k = some v) :
    (commandEnv osEnv merged false).lookup k = some v := by
  simp only [commandEnv, Bool.false_or, List.lookup_append]
  rw [lookup_filter_key _ (fun k => (osEnv.lookup k).isNone)]
  simp [h]

/-- **Task env over task dotenv over global env** for names the process environment does
not set (or always, with the env-precedence experiment). -/
theorem C10_env_taskfile (osEnv globalEnv dotenv tenv : Env) (k : Name) (prec : Bool)
    (h : prec = true ∨ osEnv.lookup k = none) :
    (commandEnv osEnv (taskEnv globalEnv dotenv tenv) prec).lookup k =
      match tenv.lookup k with
      | some v => some v
      | none => match dotenv.lookup k with
        | some v => some v
        | none => match globalEnv.lookup k with
          | some v => some v
          | none => osEnv.lookup k := by
  simp only [commandEnv, List.lookup_append]
  rw [lookup_filter_key _ (fun k => prec || (osEnv.lookup k).isNone), lookup_dedupKeys]
  have hp : (prec || (osEnv.lookup k).isNone) = true := by
    rcases h with h | h
    · simp [h]
    · simp [h]
  simp only [hp, if_true, List.not_mem_nil, if_false, taskEnv, List.lookup_append]
  cases tenv.lookup k <;> cases dotenv.lookup k <;> cases globalEnv.lookup k <;> simp

private def shE : Shell := fun cmd _ _ => cmd

/-! ## the environment clause over the real pipeline

`taskEnv` / `commandEnv` above take the three maps as given.  In the code a global `env:`
entry is templated TWICE — once as the lowest variable layer (what `{{.E}}` gives), once more
in `compiledTask` over the FINAL variables of the task (what `$E` holds) — and task dotenv /
task env entries take the second pass only (`Vars.EnvPipe`). -/

theorem lookup_all_static (l : Defs) (h : l.all (fun p => isStatic p.2) = true) (k : Name) (d : VarDef)
    (hk : l.lookup k = some d) : isStatic d = true := by
  induction l with
  | nil => simp at hk
  | cons p r ih =>
    obtain ⟨m, e⟩ := p
    simp only [List.all_cons, Bool.and_eq_true] at h
    simp only [List.lookup] at hk
    split at hk
    · cases hk; exact h.1
    · exact ih h.2 hk

theorem litVal_tplOver (final : Env) (d : VarDef) (h : isStatic d = true) :
    litVal (tplOver final d) = valOver final d := by
  cases d with
  | lit ps => simp [tplOver, valOver, litVal, render]
  | refv n => simp [tplOver, valOver, litVal, render]
  | sh ps ov => simp [isStatic] at h

/-- **C10 (environment, real pipeline).** For entries without `sh:`: a command finds under `k` the
task `env:` entry rendered over the task's FINAL variables, else the task dotenv entry, else the
global `env:` entry rendered — a second time — over those final variables, else the process
value; provided the process environment does not set `k`, or the env-precedence experiment is on. -/
theorem C10_env_pipeline (w : World) (final : Env) (genv dotenv tenv : Defs) (dir : Str) (c : Cache) (k : Name)
    (hg : genv.all (fun p => isStatic p.2) = true) (hd : dotenv.all (fun p => isStatic p.2) = true)
    (ht : tenv.all (fun p => isStatic p.2) = true)
    (ng : (names genv).Nodup) (nd : (names dotenv).Nodup) (nt : (names tenv).Nodup)
    (h : w.prec = true ∨ w.osEnv.lookup k = none) :
    commandSees w (compiledEnv w final genv dotenv tenv dir c).1 k =
      match tenv.lookup k with
      | some d => some (valOver final d)
      | none => match dotenv.lookup k with
        | some d => some (valOver final d)
        | none => match genv.lookup k with
          | some d => some (valOver final d)
          | none => w.osEnv.lookup k := by
  have lg := allLit_replaceVarsOver final genv hg
  have ld := allLit_replaceVarsOver final dotenv hd
  have lt := allLit_replaceVarsOver final tenv ht
  have l1 : allLit (mergeDefs [] (replaceVarsOver final genv)) = true := allLit_mergeDefs _ _ rfl lg
  have l2 := allLit_mergeDefs _ _ l1 ld
  have l3 : allLit (mergedEnvDefs final genv dotenv tenv) = true := allLit_mergeDefs _ _ l2 lt
  have n0 : (names ([] : Defs)).Nodup := by simp [names]
  have ng' : (names (replaceVarsOver final genv)).Nodup := by rw [names_replaceVarsOver]; exact ng
  have nd' : (names (replaceVarsOver final dotenv)).Nodup := by rw [names_replaceVarsOver]; exact nd
  have nt' : (names (replaceVarsOver final tenv)).Nodup := by rw [names_replaceVarsOver]; exact nt
  have n1 := nodup_names_mergeDefs _ _ n0 ng'
  have n2 := nodup_names_mergeDefs _ _ n1 nd'
  have hm : (mergedEnvDefs final genv dotenv tenv).lookup k =
      match tenv.lookup k with
      | some d => some (tplOver final d)
      | none => match dotenv.lookup k with
        | some d => some (tplOver final d)
        | none => (genv.lookup k).map (tplOver final) := by
    simp only [mergedEnvDefs]
    rw [lookup_mergeDefs _ _ n2 nt', lookup_mergeDefs _ _ n1 nd', lookup_mergeDefs _ _ n0 ng']
    simp only [lookup_replaceVarsOver]
    cases tenv.lookup k <;> cases dotenv.lookup k <;> cases genv.lookup k <;> simp
  simp only [commandSees, compiledEnv, runEnvSh_allLit w dir _ _ c l3, commandEnv, List.lookup_append]
  rw [lookup_filter_key _ (fun k => w.prec || (w.osEnv.lookup k).isNone), lookup_dedupKeys]
  have hp : (w.prec || (w.osEnv.lookup k).isNone) = true := by
    rcases h with h | h <;> simp [h]
  simp only [hp, if_true, List.not_mem_nil, if_false, lookup_staticOf _ l3, hm]
  cases htk : tenv.lookup k with
  | some d => simp [litVal_tplOver final d (lookup_all_static tenv ht k d htk)]
  | none =>
    cases hdk : dotenv.lookup k with
    | some d => simp [litVal_tplOver final d (lookup_all_static dotenv hd k d hdk)]
    | none =>
      cases hgk : genv.lookup k with
      | some d => simp [litVal_tplOver final d (lookup_all_static genv hg k d hgk)]
      | none => simp

/-- the two passes over a global `env:` entry agree when every name its template refers to has, at the
end, the value it had when the entry was rendered as a variable … -/
theorem C10_env_two_passes_agree (atEntry final : Env) (ps : List Part)
    (h : ∀ n, Part.ref n ∈ ps → get final n = get atEntry n) : render final ps = render atEntry ps := by
  induction ps with
  | nil => rfl
  | cons p r ih =>
    cases p with
    | text t => simp only [render]; rw [ih (fun n hn => h n (List.mem_cons_of_mem _ hn))]
    | ref n => simp only [render]; rw [h n List.mem_cons_self, ih (fun n hn => h n (List.mem_cons_of_mem _ hn))]

/- … and differ otherwise: `env: {E: 'e-{{.V}}'}`, `vars: {V: x}` — `{{.E}}` is `e-` (the variable layer comes
before the global vars), `$E` is `e-x`; a task-level `V` changes `$E` again, not `{{.E}}` -/
example :
    let w : World := ⟨shE, [], false⟩
    let genv : Defs := [(0, .lit [.text [101, 45], .ref 1])]
    let defs : Site → Defs := fun s => match s with
      | .taskfileEnv => genv | .taskfileVars => [(1, .lit [.text [120]])] | .taskVars => [(1, .lit [.text [121]])] | _ => []
    let final := (getVariables w ⟨[], [], []⟩ [] (layersOf defs) []).env
    (get final 0, commandSees w (compiledEnv w final genv [] [] [] []).1 0) = ([101, 45], some [101, 45, 121]) := by decide

/-! ## non-vacuity -/
private def sh0 : Shell := fun cmd dir _ => cmd ++ [64] ++ dir
private def defs0 : Site → List (Name × VarDef)
  | .taskfileVars => [(1, .lit [.text [10]]), (2, .lit [.text [20]])]
  | .includeVars => [(1, .lit [.text [11]])]
  | .callVars => [(2, .lit [.text [21], .ref 1])]
  | .taskVars => [(3, .sh [.text [5], .ref 2] none)]
  | _ => []
example : let e := (getVariables ⟨sh0, [], false⟩ ⟨[1], [], []⟩ [] (layersOf defs0) []).env
    (get e 1, get e 2, get e 3) = ([11], [21, 11], [5, 21, 11, 64, 1]) := by decide

/-! ## `sh:` env entries see the Taskfile's env -/

/-- **C10 (env chain).** An `sh:` env entry that reads `$x` gets the process value of `x` if the
process has one (precedence experiment off), otherwise the value of the env entry `x` when that
entry is a literal (wherever it stands) … -/
theorem C10_env_sh_reads_literal (os : List (Name × Str)) (static : List (Name × Str)) (x : Name) (v : Str)
    (hos : os.lookup x = none) (hx : static.lookup x = some v) : readEnv os static x = v := by
  simp [readEnv, hos, hx]

theorem C10_env_sh_os_wins (os static : List (Name × Str)) (x : Name) (v : Str) (hos : os.lookup x = some v) :
    readEnv os static x = v := by simp [readEnv, hos]

/-- … a global `sh:` entry sees the global entries before it, a task-level one every global entry,
the task's literals and the task's earlier `sh:` entries (non-vacuity on concrete chains) -/
example : envChain [] [(0, .read 1), (1, .lit [118])] [] = [(0, []), (1, [118])] := by decide      -- later global literal: not seen
example : envChain [] [(1, .lit [118]), (0, .read 1)] [] = [(1, [118]), (0, [118])] := by decide
example : envChain [] [(0, .read 9)] [(2, .read 3), (3, .lit [119]), (4, .read 0)] =
    [(0, []), (3, [119]), (2, [119]), (4, [])] := by decide                                       -- later TASK literal: seen
example : envChain [] [(0, .lit [118])] [(1, .read 0), (2, .read 1)] = [(0, [118]), (1, [118]), (2, [118])] := by decide
example : envChain [(0, [111])] [(0, .lit [118])] [(1, .read 0)] = [(0, [118]), (1, [111])] := by decide   -- the process value wins

/-! ## special variables: "available unless overridden"

`Vars.special` is a definition of the model (it used to be harness input); the table of
`getSpecialVars`, the POST layer of `compiledTask`, the `MATCH` binding of `GetTask`, the
command-line layer of `cmd/task` and `Vars.Merge` are pinned by `Gen.VarLayers`. -/

theorem special_table_matches :
    TaskModel.Gen.VarLayers.specialVars =
      [("ALIAS", "Call.Task"), ("ROOT_DIR", "Compiler.Dir"),
       ("ROOT_TASKFILE", "filepathext.SmartJoin(Compiler.Dir, Compiler.Entrypoint)"),
       ("TASK", "ast.Task.Task"), ("TASKFILE", "ast.Task.Location.Taskfile"),
       ("TASKFILE_DIR", "filepath.Dir(ast.Task.Location.Taskfile)"),
       ("TASK_DIR", "filepathext.SmartJoin(Compiler.Dir, ast.Task.Dir)"),
       ("TASK_EXE", "filepath.ToSlash(os.Args[0])"), ("TASK_VERSION", "version.GetVersion()"),
       ("USER_WORKING_DIR", "Compiler.UserWorkingDir")] ∧
    TaskModel.Gen.VarLayers.postLayerKey = "strings.ToUpper(‹checker›.Kind())" ∧
    TaskModel.Gen.VarLayers.postLayerAfterLayers = true ∧
    TaskModel.Gen.VarLayers.matchBoundWhen = "name-or-wildcard-match" ∧
    TaskModel.Gen.VarLayers.cliLayer =
      ["set:CLI_ARGS", "set:CLI_FORCE", "set:CLI_SILENT", "set:CLI_VERBOSE", "set:CLI_OFFLINE", "merge-into:‹executor›.Taskfile.Vars"] ∧
    TaskModel.Gen.VarLayers.mergeSetsInOrder = true := by decide

/-- the model's special variables are exactly the names of that table -/
theorem special_names (tc : TaskCtx) :
    (special tc).map Prod.fst = [nTASK_EXE, nROOT_TASKFILE, nROOT_DIR, nUSER_WORKING_DIR, nTASK_VERSION, nTASK, nTASK_DIR,
      nTASKFILE, nTASKFILE_DIR, nALIAS] := rfl

theorem get_postLayer_other (fp : Option (Name × Str)) (e : Env) (n : Name) (h : ∀ p, fp = some p → p.1 ≠ n) :
    get (postLayer fp e) n = get e n := by
  cases fp with
  | none => rfl
  | some p => exact get_set_other e p.1 n p.2 (fun hn => h p rfl hn.symm)

/-- **available**: a special variable that no site defines (and that is not the task's POST-layer
name) has its special value in every template of the task — whatever the process environment holds -/
theorem C10_special_available (w : World) (home : Str) (cd : CallDesc) (n : Name) (v : Str)
    (hsp : (special cd.tc).lookup n = some v)
    (hundef : ∀ s, n ∉ names (siteDefs w.osEnv cd s)) (hfp : ∀ p, cd.fp = some p → p.1 ≠ n) :
    get (compile w home cd []).vars n = v := by
  simp only [compile]
  rw [get_postLayer_other _ _ _ hfp, C10_undefined]
  · simp [TaskModel.Vars.get, baseEnv, List.lookup_append, hsp]
  · intro l hl
    simp only [layersOf, List.mem_map] at hl
    obtain ⟨s, _, rfl⟩ := hl
    exact hundef s

/-- **unless overridden**: a literal definition at any site — with no higher site defining the name —
wins over the special value (and over everything below) -/
theorem C10_special_overridden (w : World) (home : Str) (cd : CallDesc) (s : Site) (dpre dpost : Defs) (n : Name) (v : Str)
    (hs : siteDefs w.osEnv cd s = dpre ++ (n, .lit [.text v]) :: dpost) (hdpost : n ∉ names dpost)
    (hafter : ∀ s' ∈ sitesAfter s, n ∉ names (siteDefs w.osEnv cd s'))
    (hfp : ∀ p, cd.fp = some p → p.1 ≠ n) :
    get (compile w home cd []).vars n = v := by
  simp only [compile]
  rw [get_postLayer_other _ _ _ hfp]
  exact C10_literal_priority w (ctxOf cd.tc home) _ _ s dpre dpost n v hs hdpost hafter

/-- the clause at full strength: a definition at a site always wins over what Task provides itself -/
def C10_special_unless_overridden_full : Prop :=
  ∀ (w : World) (home : Str) (cd : CallDesc) (s : Site) (dpre dpost : Defs) (n : Name) (v : Str),
    siteDefs w.osEnv cd s = dpre ++ (n, .lit [.text v]) :: dpost → n ∉ names dpost →
    (∀ s' ∈ sitesAfter s, n ∉ names (siteDefs w.osEnv cd s')) →
    get (compile w home cd []).vars n = v

/-- the POST layer wins whatever the sites define: `compiledTask` sets `CHECKSUM` / `TIMESTAMP` after all layers -/
theorem C10_post_layer_wins (w : World) (home : Str) (cd : CallDesc) (n : Name) (v : Str) (h : cd.fp = some (n, v)) :
    get (compile w home cd []).vars n = v := by
  simp [compile, postLayer, h]

private def tc0 : TaskCtx := { rootDir := [47, 114], entrypoint := [], userWorkingDir := [47, 114], taskName := [116], rawDir := [],
                               dirTpl := [], taskfile := [47, 114, 47, 84], alias := [116] }
private def shN : Shell := fun cmd _ _ => cmd

/-- **false of the code as it is** (open finding `C10-fingerprint-vars-override-user-definition`):
`vars: {CHECKSUM: mine}` in a task with sources prints the hash -/
theorem C10_special_unless_overridden_counterexample : ¬ C10_special_unless_overridden_full := by
  intro h
  have := h ⟨shN, [], false⟩ []
    { tc := tc0, genv := [], files := [⟨[], [], []⟩], level := 0, callVars := [],
      taskVars := [(nCHECKSUM, .lit [.text [109]])], fp := some (nCHECKSUM, [76]) }
    .taskVars [] [] nCHECKSUM [109] rfl (by decide) (by decide)
  revert this
  decide

/-- … and true for every name but the task's POST-layer name (`C10_special_overridden`) -/
theorem C10_special_unless_overridden_partial (w : World) (home : Str) (cd : CallDesc) (s : Site) (dpre dpost : Defs) (n : Name) (v : Str)
    (hfp : ∀ p, cd.fp = some p → p.1 ≠ n)
    (hs : siteDefs w.osEnv cd s = dpre ++ (n, .lit [.text v]) :: dpost) (hdpost : n ∉ names dpost)
    (hafter : ∀ s' ∈ sitesAfter s, n ∉ names (siteDefs w.osEnv cd s')) :
    get (compile w home cd []).vars n = v :=
  C10_special_overridden w home cd s dpre dpost n v hs hdpost hafter hfp

/- non-vacuity: TASK and TASK_DIR of a root task with a templated dir (the RAW text is joined: the quirk),
a global that overrides TASK, ALIAS of a call through an alias -/
private def tc1 : TaskCtx := { tc0 with rawDir := [123, 123, 46, 86, 125, 125], dirTpl := [.ref 6], alias := [97] }
private def cd1 : CallDesc := { tc := tc1, genv := [], files := [⟨[], [], [(6, .lit [.text [115]]), (nTASK, .lit [.text [117]])]⟩],
                                level := 0, callVars := [], taskVars := [(1, .sh [.text [75]] none)] }
example : let r := compile ⟨shN, [], false⟩ [] cd1 []
    (get r.vars nTASK, get r.vars nTASK_DIR, get r.vars nALIAS, r.dir) =
      ([117], [47, 114, 47, 123, 123, 46, 86, 125, 125], [97], [47, 114, 47, 115]) := by decide

/-! ## the seventh site: globals of other files, merged into the root's

`Taskfile.Merge` merges the `vars:` of every included file into the root file's globals, in
the canonical merge order of C09, later wins, an overridden name keeps its position.  The
layer `Compiler.TaskfileVars` of EVERY task is that merged map (`globalLayer`).  Which
documented order holds:

* for a task of an INCLUDED file (long-form include) the documented chain holds as written:
  task vars > call vars > variables of the included Taskfile (`includedVarsFor`: the merged
  variables of the outermost included file on its path) > vars of the include statements
  (`includeVarsFor`: inner statement first, outer ones over it) > global vars > environment;
* for a ROOT task the chain is task vars > call vars > global vars > environment, where
  "global vars" are NOT the root file's own `vars:` alone: a same-named global of an included
  file replaces the root's value (`C10_root_task_sees_included_global`) — modelled as what
  the code does (audit B-C10-incl-global), the property names no site for it. -/

theorem C10_root_task_layers (os : Env) (cd : CallDesc) (h : cd.level = 0) :
    siteDefs os cd .includeVars = [] ∧ siteDefs os cd .includedTaskfileVars = [] := by
  simp [siteDefs, includeVarsFor, includedVarsFor, h]

/-- the merged globals of a root file with one included file, by name: the included file's definition wins -/
theorem C10_global_merge_lookup (root inc : FileDesc) (hr : (names root.vars).Nodup) (hi : (names inc.vars).Nodup) (x : Name) :
    (globalLayer [root, inc] []).lookup x =
      match (withDir inc.incDir inc.vars).lookup x with
      | some d => some d
      | none => root.vars.lookup x := by
  simp only [globalLayer, taskfileVars, mergedUp]
  have : mergeDefs (mergeDefs root.vars (withDir inc.incDir inc.vars)) [] = mergeDefs root.vars (withDir inc.incDir inc.vars) := rfl
  rw [this]
  exact lookup_mergeDefs _ _ hr (by rw [names_withDir]; exact hi) x

/-- **A ROOT task sees the included file's value of a same-named global.** -/
theorem C10_root_task_sees_included_global (w : World) (home : Str) (cd : CallDesc) (root inc : FileDesc) (x : Name) (b : Str)
    (hfiles : cd.files = [root, inc]) (hcli : cd.cli = []) (hlevel : cd.level = 0)
    (hr : (names root.vars).Nodup) (hi : (names inc.vars).Nodup)
    (hinc : inc.vars.lookup x = some (.lit [.text b]))
    (hcall : x ∉ names (callLayer cd.callVars cd.wildcards)) (htask : x ∉ names cd.taskVars)
    (hfp : ∀ p, cd.fp = some p → p.1 ≠ x) :
    get (compile w home cd []).vars x = b := by
  have hlk : (globalLayer [root, inc] []).lookup x = some (.lit [.text b]) := by
    rw [C10_global_merge_lookup root inc hr hi x, lookup_withDir_lit _ _ _ _ hinc]
  have hnd : (names (globalLayer [root, inc] [])).Nodup := by
    simp only [globalLayer, taskfileVars, mergedUp]
    exact nodup_names_mergeDefs _ _ (nodup_names_mergeDefs _ _ hr (by rw [names_withDir]; exact hi)) (by simp [names])
  obtain ⟨pre, post, hsplit, hpost⟩ := lookup_split _ x _ hnd hlk
  apply C10_special_overridden w home cd .taskfileVars pre post x b
  · simp only [siteDefs, hfiles, hcli]; exact hsplit
  · exact hpost
  · intro s' hs'
    have hroot := C10_root_task_layers w.osEnv cd hlevel
    simp only [sitesAfter, List.mem_cons, List.mem_nil_iff, or_false] at hs'
    rcases hs' with rfl | rfl | rfl | rfl
    · rw [hroot.1]; simp [names]
    · rw [hroot.2]; simp [names]
    · exact hcall
    · exact htask
  · exact hfp

/- non-vacuity (the audit's reproduction): root `vars: {X: root, R: 'r-{{.X}}'}`, included `vars: {X: from-a}` —
the root task sees `from-a`, also through `R` (the overriding definition keeps the root's position) -/
private def fRoot : FileDesc := ⟨[], [], [(0, .lit [.text [114]]), (1, .lit [.text [114, 45], .ref 0])]⟩
private def fInc : FileDesc := ⟨[47, 114, 47, 97], [], [(0, .lit [.text [97]])]⟩
example : let r := compile ⟨shN, [], false⟩ [] { tc := tc0, genv := [], files := [fRoot, fInc], level := 0, callVars := [], taskVars := [] } []
    (get r.vars 0, get r.vars 1) = ([97], [114, 45, 97]) := by decide

/-! ## the command-line layer ("global vars (including NAME=value command-line assignments)")

`cmd/task` merges the assignments and `CLI_ARGS` / `CLI_*` into the Taskfile's globals AFTER
the declared ones (`Vars.Merge`: override keeps the position, a new name is appended).  The
property puts the assignments INTO the global level; within one level definitions are
evaluated in order, so a declared global that refers to an assigned name sees the assigned
value exactly when that name stands before it in the merged layer — i.e. when the name is
ALSO declared before it.  For `NAME=value` this is the modelled behaviour (same level, order
matters, as for any two globals).  For `CLI_ARGS` / `CLI_*`, which the documentation lists as
special variables ("available unless overridden"), it contradicts the property: they are not
available to declared globals nor to the global `env:` (open finding
`C10-cli-specials-defined-after-globals`, monitor `vars.climon`). -/

/-- where the merged layer puts a declared entry the command line does not assign: the
entries before it are exactly the declared ones before it (with command-line values where
assigned), everything the command line adds comes after it -/
theorem C10_cli_merged_split (dpre dpost cli : Defs) (g : Name) (d : VarDef)
    (hnd : (names (dpre ++ (g, d) :: dpost)).Nodup) (hcli : (names cli).Nodup) (hg : g ∉ names cli) :
    ∃ pre post, taskfileVars (dpre ++ (g, d) :: dpost) cli = pre ++ (g, d) :: post ∧
      names pre = names dpre ∧ g ∉ names post ∧ pre = dpre.map (overrideBy cli) := by
  refine ⟨dpre.map (overrideBy cli), dpost.map (overrideBy cli) ++ cli.filter (fun p => p.1 ∉ names (dpre ++ (g, d) :: dpost)), ?_, ?_, ?_, rfl⟩
  · rw [taskfileVars, mergeDefs_char cli _ hnd hcli]
    simp only [List.map_append, List.map_cons, List.append_assoc, List.cons_append]
    have : overrideBy cli (g, d) = (g, d) := by simp only [overrideBy, lookup_none_of_not_mem cli g hg]
    rw [this]
  · exact names_map_same _ _ (overrideBy_fst cli)
  · simp only [names, List.map_append, List.mem_append, not_or]
    constructor
    · have h1 : List.map Prod.fst (List.map (overrideBy cli) dpost) = List.map Prod.fst dpost :=
        names_map_same dpost _ (overrideBy_fst cli)
      rw [h1]
      simp only [names, List.map_append, List.map_cons] at hnd
      have := (List.nodup_append.mp hnd).2.1
      exact (List.nodup_cons.mp this).1
    · intro hmem
      apply hg
      simp only [List.mem_map] at hmem
      obtain ⟨q, hq, hqg⟩ := hmem
      rw [← hqg]
      exact List.mem_map_of_mem (List.mem_filter.mp hq).1

/-- **C10, command-line layer.**  A declared global `g: '{{.x}}'` where `x` is assigned on the
command line (`x=v`, or one of the `CLI_*` names) gets `v` iff `x` stands before `g` in the
merged layer, i.e. iff `x` is also declared before `g`; otherwise it gets what the lower
layers (process environment, special variables) hold for `x` — nothing, usually. -/
theorem C10_cli_ref_iff (w : World) (dir : Env → Str) (base : Env) (c : Cache) (dpre dpost cli : Defs) (g x : Name) (v : Str)
    (hnd : (names (dpre ++ (g, .lit [.ref x]) :: dpost)).Nodup) (hcli : (names cli).Nodup)
    (hg : g ∉ names cli) (hx : cli.lookup x = some (.lit [.text v])) :
    get (evalBlock w dir (taskfileVars (dpre ++ (g, .lit [.ref x]) :: dpost) cli) base c).1 g =
      if x ∈ names dpre then v else get base x := by
  obtain ⟨pre, post, hsplit, hnames, hgpost, hpre⟩ := C10_cli_merged_split dpre dpost cli g _ hnd hcli hg
  rw [hsplit, evalBlock_last w dir pre post g _ base c hgpost]
  simp only [evalDef, render, List.append_nil]
  have hpnd : (names pre).Nodup := by
    rw [hnames]
    simp only [names, List.map_append] at hnd
    exact (List.nodup_append.mp hnd).1
  split
  · rename_i hmem
    apply evalBlock_lookup_lit w dir pre x v base c hpnd
    rw [hpre]
    exact lookup_map_overrideBy dpre cli x _ hmem hx
  · rename_i hmem
    exact evalBlock_frame w dir pre base c x (by rw [hnames]; exact hmem)

/- non-vacuity: `vars: {Y: '{{.X}}'}` with `task t X=1` — Y sees nothing; with X also declared
before Y it sees 1; declared after Y: nothing (but X itself is 1) -/
private def shC : Shell := fun cmd _ _ => cmd
example : get (evalBlock ⟨shC, [], false⟩ (fun _ => []) (taskfileVars [(1, .lit [.ref 0])] (cliLayer [(0, [.text [49]])] [] {})) [] []).1 1 = [] := by decide
example : get (evalBlock ⟨shC, [], false⟩ (fun _ => []) (taskfileVars [(0, .lit [.text [100]]), (1, .lit [.ref 0])] (cliLayer [(0, [.text [49]])] [] {})) [] []).1 1 = [49] := by decide
example : let e := (evalBlock ⟨shC, [], false⟩ (fun _ => []) (taskfileVars [(1, .lit [.ref 0]), (0, .lit [.text [100]])] (cliLayer [(0, [.text [49]])] [] {})) [] []).1
    (get e 1, get e 0) = ([], [49]) := by decide
-- a global alias of CLI_ARGS is empty; a task-level reference (any later layer) sees it
example : let e := (evalBlock ⟨shC, [], false⟩ (fun _ => []) (taskfileVars [(1, .lit [.ref nCLI_ARGS])] (cliLayer [] [97, 32, 98] {})) [] []).1
    (get e 1, get e nCLI_ARGS) = ([], [97, 32, 98]) := by decide
example : (names (cliLayer [(0, [.text [49]]), (5, []), (0, [.text [50]])] [] {})).Nodup ∧
    (cliLayer [(0, [.text [49]]), (5, []), (0, [.text [50]])] [] {}).lookup 0 = some (.lit [.text [50]]) := by decide

end Props.C10
