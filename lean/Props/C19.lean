import TaskModel.Quote.Words
import TaskModel.Quote.Init
namespace Props.C19
open TaskModel.Quote
end Props.C19
