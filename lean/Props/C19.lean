import TaskModel.Quote.QuoteLemmas
import TaskModel.Quote.ArgsLemmas
import TaskModel.Quote.Args
import TaskModel.Quote.Init
import TaskModel.Quote.Template
import TaskModel.Quote.Wiring
/-!
# C19 — command-line arguments reach their destination verbatim

Property theorems only; helper lemmas live in `TaskModel.Quote.*Lemmas`.

* `quote` transcribes `syntax.Quote(·, LangBash)` (what `args.Get` and the template
  functions `shellQuote` / `q` call), `words` is the shell's word splitting + quote
  removal on the quoted sub-language, `joinQuoted`/`cliArgs` is the text `CLI_ARGS` holds
  (cmd/task after fix F3), `splitVar`/`parse` are `args.Parse`, `initRun` is `task --init`.
* All theorems quantify over **arbitrary byte strings without NUL** — any bytes
  0x01–0xFF, valid UTF-8 or not, any length, any number of arguments.
* The tie to the Go code is the correspondence check (harness/quote.go): domain `quote`
  (in process, exact equality with `syntax.Quote`, `shell.Fields`, `args.Parse`,
  `args.Get`, `templater.Replace`) and domain `cliargs` (the real CLI with an argv
  recording helper; `task --init` on generated trees).
-/
namespace Props.C19
open TaskModel.Quote

/-! ## Quoting round trip -/

/-- **One value** (`{{shellQuote .X}}`, `{{q .X}}`): the quoted text is one shell word
that denotes exactly the value. -/
theorem C19_shellQuote (v : Bytes) (h : NulFree v) :
    ∃ q, quote v = .ok q ∧ words q = some [v] := by
  obtain ⟨q, hq, hne, hgo⟩ := go_quote v h
  refine ⟨q, hq, ?_⟩
  have := hgo false []
  rw [List.append_nil] at this
  rw [words, if_neg hne, this]
  rw [go.eq_def]
  simp [pushAll_some]

/-- A quoted value can be placed in front of further words: it contributes exactly one
word, the value, and leaves the rest of the line alone. -/
theorem C19_shellQuote_embedded (v rest : Bytes) (h : NulFree v) (hr : rest ≠ []) :
    ∃ q, quote v = .ok q ∧ words (q ++ 32 :: rest) = (words rest).map (v :: ·) := by
  obtain ⟨q, hq, hne, hgo⟩ := go_quote v h
  refine ⟨q, hq, ?_⟩
  rw [words, if_neg (by simp), hgo false (32 :: rest), words, if_neg hr]
  rw [go.eq_def]
  simp only [if_true]
  cases go (.top false) rest with
  | none => simp [pushAll_none]
  | some ws => simp [pushAll_some]

/-- The command `REC {{shellQuote .X}} {{q .X}}` of the end-to-end check: two words, both
the value. -/
theorem C19_shellQuote_twice (v : Bytes) (h : NulFree v) :
    ∃ q, quote v = .ok q ∧ words (q ++ 32 :: q) = some [v, v] := by
  obtain ⟨q, hq, hw⟩ := C19_shellQuote v h
  have hne : q ≠ [] := by
    obtain ⟨q', hq', hne', _⟩ := go_quote v h
    rw [hq] at hq'; cases hq'; exact hne'
  obtain ⟨q2, hq2, hw2⟩ := C19_shellQuote_embedded v q h hne
  rw [hq] at hq2; cases hq2
  exact ⟨q, hq, by rw [hw2, hw]; rfl⟩

example : words ([39, 97, 32, 98, 39] ++ 32 :: [39, 97, 32, 98, 39]) = some [[97, 32, 98], [97, 32, 98]] := by decide

/-- **The core of C19.**  For every argument vector of NUL-free byte strings, quoting each
argument the way `args.Get` does and joining with single spaces gives a command-line
fragment that the shell splits back into exactly the same arguments: each forwarded
argument arrives as exactly one argument with exactly the same bytes. -/
theorem C19_roundtrip (args : List Bytes) (h : ∀ a ∈ args, NulFree a) :
    ∃ line, joinQuoted args = .ok line ∧ words line = some args := by
  cases args with
  | nil => exact ⟨[], rfl, rfl⟩
  | cons a rest =>
    obtain ⟨line, hl, hne, hgo⟩ := joinQuoted_go (a :: rest) h (by simp)
    exact ⟨line, hl, by rw [words, if_neg hne, hgo false]⟩

/-- `CLI_ARGS` as `cmd/task` builds it (arguments after `--`, `args.Get` + join): the
shell splits it into exactly the arguments given after `--`. -/
theorem C19_cli_args (argv : List Bytes) (d : Nat) (h : ∀ a ∈ argv.drop d, NulFree a) :
    ∃ line, cliArgs argv (some d) = .ok line ∧ words line = some (argv.drop d) := by
  obtain ⟨qs, hqs, _, hj⟩ := mapM_quote (argv.drop d) h
  obtain ⟨line, hl, hw⟩ := C19_roundtrip (argv.drop d) h
  rw [hj] at hl
  cases hl
  exact ⟨joinSp qs, by simp [cliArgs, argsGet, hqs], hw⟩

-- task Y=2 fwd -- 'a b' '' : CLI_ARGS is `'a b' ''`, read back as the two arguments
example : cliArgs [[89, 61, 50], [102, 119, 100], [97, 32, 98], []] (some 2) = .ok [39, 97, 32, 98, 39, 32, 39, 39] := by decide
example : words [39, 97, 32, 98, 39, 32, 39, 39] = some [[97, 32, 98], []] := by decide

/-- The statement in the form of the task description:
`words (intercalate " " (args.map quote)) = some args`. -/
theorem C19_roundtrip_intercalate (args : List Bytes) (h : ∀ a ∈ args, NulFree a) :
    ∃ qs, args.mapM quote = .ok qs ∧ words ([32].intercalate qs) = some args := by
  obtain ⟨qs, hqs, _, hj⟩ := mapM_quote args h
  obtain ⟨line, hl, hw⟩ := C19_roundtrip args h
  rw [hj] at hl
  cases hl
  exact ⟨qs, hqs, by rw [← joinSp_eq_intercalate]; exact hw⟩

/-- The only strings `quote` rejects are those with a NUL byte (which no operating system
passes in an argument vector). -/
theorem C19_quote_total (s : Bytes) : (∃ off, quote s = .error off) ↔ ∃ b ∈ s, b = 0 :=
  quote_error_iff s

/- non-vacuity: hostile arguments — blanks, quotes of both kinds, `$`, backslash, glob,
control bytes, a hex digit after an escaped byte, invalid UTF-8, a non-printable rune,
the empty string, a keyword — meet the hypothesis and make the round trip. -/
example : (joinQuoted [[97, 32, 98], [105, 116, 39, 115, 34, 36, 92, 42]]).toOption.bind words
    = some [[97, 32, 98], [105, 116, 39, 115, 34, 36, 92, 42]] := by decide
example : (joinQuoted [[1, 102, 0xff, 0xc2, 0xa0], [], [105, 102]]).toOption.bind words
    = some [[1, 102, 0xff, 0xc2, 0xa0], [], [105, 102]] := by decide +kernel
example : joinQuoted [[1, 102, 0xff, 0xc2, 0xa0], [], [105, 102]]
    = .ok [36, 39, 92, 120, 48, 49, 102, 92, 120, 102, 102, 92, 117, 48, 48, 97, 48, 39, 32, 39, 39, 32, 39, 105, 102, 39] := by decide +kernel
example : ∀ a ∈ [[97, 32, 98], [1, 102, 0xff, 0xc2, 0xa0], ([] : Bytes)], NulFree a := by
  unfold NulFree; decide
example : quote [97, 0, 98] = .error 1 := by decide

/-! ## "any variable value": non-string values

`shellQuote` / `q` take any value and quote it the way the template engine prints it (fix
0d1f4ef; before, a YAML number / boolean / list failed with `wrong type for value`).
The printed form is a byte string, so the statement is `C19_shellQuote` applied to it. -/

/-- the values a Taskfile variable can hold that are not strings, and what `{{.X}}` prints for them -/
inductive Scalar where
  | nat (n : Nat) | negNat (n : Nat) | bool (b : Bool) | printed (s : Bytes)    -- `printed`: floats, lists, maps — whatever `fmt.Sprint` gives
deriving Repr

def natDigits : Nat → Nat → Bytes
  | 0, _ => [48]
  | fuel + 1, n => if n < 10 then [(48 + n).toUInt8] else natDigits fuel (n / 10) ++ [(48 + n % 10).toUInt8]

def Scalar.print : Scalar → Bytes
  | .nat n => natDigits n n
  | .negNat n => 45 :: natDigits n n
  | .bool true => [116, 114, 117, 101]
  | .bool false => [102, 97, 108, 115, 101]
  | .printed s => s

/-- **`{{shellQuote .N}}` for a non-string value**: one word, the value as the engine prints it -/
theorem C19_shellQuote_scalar (v : Scalar) (h : NulFree v.print) :
    ∃ q, quote v.print = .ok q ∧ words q = some [v.print] := C19_shellQuote v.print h

example : (Scalar.nat 42).print = [52, 50] ∧ (Scalar.negNat 7).print = [45, 55] ∧ (Scalar.nat 0).print = [48] := by decide
example : NulFree (Scalar.nat 42).print := by unfold NulFree; decide
example : (quote (Scalar.bool true).print).toOption.bind words = some [[116, 114, 117, 101]] := by decide

/-! ## The template passes (DESIGN §8 row 26): full statement, counterexample, partial -/

/-- C19 at full strength for forwarded arguments: whatever the template engine does with
text that contains an action or the literal `<no value>`, the invoked program receives
exactly the arguments. -/
def C19_full : Prop :=
  ∀ (engine : Bytes → Option Bytes) (args : List Bytes), (∀ a ∈ args, NulFree a) →
    ∃ line, joinQuoted args = .ok line ∧ delivered engine line = some args

/-- **False of the code as it is**: `CLI_ARGS` and `NAME=value` values are evaluated as
templates (`Compiler.getVariables`), e.g. the argument `{{.Y}}` with an engine that renders
the action as `why`; and `<no value>` is deleted from every rendered text. -/
theorem C19_full_counterexample : ¬ C19_full := by
  intro h
  -- engine: renders the quoted text '{{.Y}}' as 'why'
  obtain ⟨line, hl, hd⟩ := h (fun _ => some [39, 119, 104, 121, 39]) [[123, 123, 46, 89, 125, 125]] (by
    unfold NulFree; decide)
  have : joinQuoted [[123, 123, 46, 89, 125, 125]] = .ok [39, 123, 123, 46, 89, 125, 125, 39] := by decide
  rw [this] at hl
  cases hl
  revert hd
  decide

/-- **Partial**: when the quoted text is inert for the template engine (contains neither
`{{` nor the literal `<no value>` — decidable), every argument arrives verbatim. -/
theorem C19_partial (engine : Bytes → Option Bytes) (args : List Bytes) (h : ∀ a ∈ args, NulFree a) :
    ∃ line, joinQuoted args = .ok line ∧ (templateInert line = true → delivered engine line = some args) := by
  obtain ⟨line, hl, hw⟩ := C19_roundtrip args h
  refine ⟨line, hl, fun hi => ?_⟩
  simp [delivered, tmplPass, hi, hw]

example : templateInert [39, 97, 32, 36, 72, 79, 77, 69, 39] = true := by decide   -- 'a $HOME'
example : templateInert [39, 123, 123, 46, 89, 125, 125, 39] = false := by decide  -- '{{.Y}}'
example : templateInert [39, 60, 110, 111, 32, 118, 97, 108, 117, 101, 62, 39] = false := by decide  -- '<no value>'

/-! ## NAME=value -/

/-- **Split at the first `=` only**: whatever the value contains (further `=` included). -/
theorem C19_splitVar (n v : Bytes) (h : ∀ b ∈ n, b ≠ 61) : splitVar (n ++ 61 :: v) = (n, v) := by
  induction n with
  | nil => simp [splitVar]
  | cons b n ih =>
    have hb : b ≠ 61 := h b (by simp)
    have := ih (fun x hx => h x (by simp [hx]))
    simp [splitVar, hb, this]

example : splitVar [88, 61, 97, 61, 98, 61] = ([88], [97, 61, 98, 61]) := by decide   -- X=a=b=

/-- **The last assignment wins, verbatim**: if `NAME=value` is the last argument that
assigns `NAME`, the global `NAME` is exactly `value` — wherever it stands among task names
and other assignments, whatever bytes `value` contains. -/
theorem C19_parse_last (pre post : List Bytes) (n v : Bytes) (hn : ∀ b ∈ n, b ≠ 61)
    (hpost : ∀ a ∈ post, hasEq a = true → (splitVar a).1 ≠ n) :
    lookupVar n (parse (pre ++ (n ++ 61 :: v) :: post)).2 = some v := by
  have he : hasEq (n ++ 61 :: v) = true := by simp [hasEq]
  simp only [parse, List.filter_append, List.filter_cons, he, if_true, List.foldl_append, List.foldl_cons]
  rw [lookup_foldl_other]
  · rw [C19_splitVar n v hn]; exact lookup_setVar_same _ _ _
  · intro a ha
    simp only [List.mem_filter] at ha
    exact hpost a ha.1 ha.2

-- t X=1 u X=a=b Y=2 : X is "a=b"
example : lookupVar [88] (parse ([[116], [88, 61, 49], [117]] ++ ([88] ++ 61 :: [97, 61, 98]) :: [[89, 61, 50]])).2 = some [97, 61, 98] := by decide

/-- Task calls are the arguments without `=`, in the order given. -/
theorem C19_parse_calls (argv : List Bytes) :
    (parse argv).1.Sublist argv ∧ ∀ a, a ∈ (parse argv).1 ↔ (a ∈ argv ∧ hasEq a = false) := by
  refine ⟨List.filter_sublist, fun a => ?_⟩
  simp [parse, List.mem_filter]

/-- Arguments before `--` are handed on untouched; only those after it are quoted. -/
theorem C19_get_before (argv : List Bytes) (d : Nat) (h : ∀ a ∈ argv.drop d, NulFree a) :
    ∃ qs, argsGet argv (some d) = .ok (argv.take d, qs) := by
  obtain ⟨qs, hqs, _, _⟩ := mapM_quote (argv.drop d) h
  exact ⟨qs, by simp [argsGet, hqs]⟩

example : parse [[116], [88, 61, 49], [117], [88, 61, 97, 61, 98]] = ([[116], [117]], [([88], [97, 61, 98])]) := by decide

/-! ## `task --init [PATH]` -/

/-- **Never over an existing entry**: where `--init` writes, there was nothing before. -/
theorem C19_init_never_overwrites (fs : FS) (wd : Bytes) (argv : List Bytes) (dash : Option Nat) (p : Bytes)
    (h : initRun fs wd argv dash = .written p) : stat fs p = none := by
  unfold initRun at h
  split at h
  · rename_i positional _ _
    unfold initTaskfile at h
    split at h
    · cases h
    · rename_i hdir
      dsimp only at h
      split at h
      · cases h
      · rename_i hnone
        unfold writeNew at h
        split at h
        · cases h
          simpa using hnone
        · cases h
    · rename_i hnone
      unfold writeNew at h
      split at h
      · cases h; exact hnone
      · cases h
  · cases h

/-- … and every other path is left as it was (a failed `--init` changes nothing). -/
theorem C19_init_frame (fs : FS) (r : InitResult) (q : Bytes)
    (h : ∀ p, r = .written p → clean p ≠ clean q) : stat (initApply fs r) q = stat fs q := by
  cases r with
  | written p =>
    have := h p rfl
    simp [initApply, stat, this]
  | exists_ p => rfl
  | error => rfl

/-- **The path comes from the first positional argument**: further positional arguments
and everything after `--` play no role. -/
theorem C19_init_first_positional (fs : FS) (wd a : Bytes) (rest : List Bytes) :
    initRun fs wd (a :: rest) none = initTaskfile fs (initArgPath fs wd [a]) := by
  simp [initRun, argsGet, initArgPath]

theorem C19_init_after_dash_ignored (fs : FS) (wd : Bytes) (argv : List Bytes) (d : Nat)
    (h : ∀ a ∈ argv.drop d, NulFree a) :
    initRun fs wd argv (some d) = initRun fs wd (argv.take d) none := by
  obtain ⟨qs, hqs⟩ := C19_get_before argv d h
  rw [initRun, hqs]
  simp [initRun, argsGet]

/-- no argument: `Taskfile.yml` in the working directory -/
theorem C19_init_default (fs : FS) (wd : Bytes) (hwd : stat fs wd = some .dir)
    (hfree : stat fs (smartJoin wd defaultTaskfile) = none)
    (hpar : stat fs (dir (smartJoin wd defaultTaskfile)) = some .dir) :
    initRun fs wd [] none = .written (smartJoin wd defaultTaskfile) := by
  simp [initRun, argsGet, initArgPath, initTaskfile, hwd, hfree, writeNew, hpar]

/-- **A directory argument: `Taskfile.yml` inside it** — whatever the argument looks like:
`.`, `sub/.`, `..`, a hidden directory `.config`.  (Before the repairs 8c188ee / 08da1a6
this needed `isExtOnly a = false`, which hid `task --init .` → `./Taskfile.` and
`task --init .config` → `./Taskfile.config`.) -/
theorem C19_init_dir (fs : FS) (wd a : Bytes) (rest : List Bytes)
    (hd : stat fs (smartJoin wd a) = some .dir)
    (hfree : stat fs (smartJoin (smartJoin wd a) defaultTaskfile) = none)
    (hpar : stat fs (dir (smartJoin (smartJoin wd a) defaultTaskfile)) = some .dir) :
    initRun fs wd (a :: rest) none = .written (smartJoin (smartJoin wd a) defaultTaskfile) := by
  simp [initRun, argsGet, initArgPath, initTaskfile, hd, hfree, writeNew, hpar]

/-- the names `.` and `..` (last component of any path) are never "an extension only" -/
theorem C19_dot_names_are_not_extensions (a : Bytes) (h : base a = [46] ∨ base a = dotdot) :
    isExtOnly a = false := by
  rcases h with h | h <;> simp [isExtOnly, h]

/-- the slip of the predicate as first written (`Base p == Ext p`), machine-checked:
`.` and `sub/.` counted as extensions -/
theorem C19_isExtOnly_old_rule_counterexample :
    isExtOnlyOld [46] = true ∧ isExtOnlyOld [115, 117, 98, 47, 46] = true ∧
    isExtOnly [46] = false ∧ isExtOnly [115, 117, 98, 47, 46] = false := by decide

/-- **An extension-only argument** `.ext` / `d/.ext` that does not name an existing
directory: `Taskfile.ext` in that directory, subject to the rules for a file name. -/
theorem C19_init_ext (fs : FS) (wd a : Bytes) (rest : List Bytes) (hext : isExtOnly a = true)
    (hnd : stat fs (smartJoin wd a) ≠ some .dir) :
    initRun fs wd (a :: rest) none =
      initTaskfile fs (smartJoin wd (smartJoin (dir a) (taskfileStem ++ ext a))) := by
  simp [initRun, argsGet, initArgPath, hext, hnd]

/-- a file-name argument: exactly that file (relative to the working directory); the
side condition is needed: `.yaml` means `Taskfile.yaml` (`C19_init_ext`) -/
theorem C19_init_file (fs : FS) (wd a : Bytes) (rest : List Bytes) (hext : isExtOnly a = false)
    (hfree : stat fs (smartJoin wd a) = none)
    (hpar : stat fs (dir (smartJoin wd a)) = some .dir) :
    initRun fs wd (a :: rest) none = .written (smartJoin wd a) := by
  simp [initRun, argsGet, initArgPath, hext, initTaskfile, hfree, writeNew, hpar]

/-- an existing file is refused (exit code 101) -/
theorem C19_init_existing_file (fs : FS) (wd a : Bytes) (rest : List Bytes) (hext : isExtOnly a = false)
    (hf : stat fs (smartJoin wd a) = some .file) :
    initRun fs wd (a :: rest) none = .exists_ (smartJoin wd a) := by
  simp [initRun, argsGet, initArgPath, hext, initTaskfile, hf]

/- non-vacuity on a concrete tree: /w (working directory) with sub/, exist.yml -/
def fs0 : FS := [([47], .dir), ([47, 119], .dir), ([47, 119, 47, 115, 117, 98], .dir),
  ([47, 119, 47, 101, 120, 105, 115, 116, 46, 121, 109, 108], .file)]
-- task --init                → /w/Taskfile.yml
example : initRun fs0 [47, 119] [] none = .written [47, 119, 47, 84, 97, 115, 107, 102, 105, 108, 101, 46, 121, 109, 108] := by decide
-- task --init sub            → /w/sub/Taskfile.yml
example : initRun fs0 [47, 119] [[115, 117, 98]] none =
    .written [47, 119, 47, 115, 117, 98, 47, 84, 97, 115, 107, 102, 105, 108, 101, 46, 121, 109, 108] := by decide
-- task --init sub/new.yml extra  → /w/sub/new.yml
example : initRun fs0 [47, 119] [[115, 117, 98, 47, 110, 101, 119, 46, 121, 109, 108], [120]] none =
    .written [47, 119, 47, 115, 117, 98, 47, 110, 101, 119, 46, 121, 109, 108] := by decide
-- task --init .yaml          → /w/Taskfile.yaml
example : initRun fs0 [47, 119] [[46, 121, 97, 109, 108]] none =
    .written [47, 119, 47, 84, 97, 115, 107, 102, 105, 108, 101, 46, 121, 97, 109, 108] := by decide
-- task --init exist.yml      → refused
example : initRun fs0 [47, 119] [[101, 120, 105, 115, 116, 46, 121, 109, 108]] none =
    .exists_ [47, 119, 47, 101, 120, 105, 115, 116, 46, 121, 109, 108] := by decide
-- task --init .              → /w/Taskfile.yml  (was /w/Taskfile.)
example : initRun fs0 [47, 119] [[46]] none = .written [47, 119, 47, 84, 97, 115, 107, 102, 105, 108, 101, 46, 121, 109, 108] := by decide
-- task --init sub/.          → /w/sub/Taskfile.yml
example : initRun fs0 [47, 119] [[115, 117, 98, 47, 46]] none =
    .written [47, 119, 47, 115, 117, 98, 47, 84, 97, 115, 107, 102, 105, 108, 101, 46, 121, 109, 108] := by decide
-- task --init .hid  (a directory) → /w/.hid/Taskfile.yml  (was /w/Taskfile.hid)
example : initRun (([47, 119, 47, 46, 104, 105, 100], .dir) :: fs0) [47, 119] [[46, 104, 105, 100]] none =
    .written [47, 119, 47, 46, 104, 105, 100, 47, 84, 97, 115, 107, 102, 105, 108, 101, 46, 121, 109, 108] := by decide
-- non-vacuity of C19_init_dir for the names the old hypothesis excluded
example : stat fs0 (smartJoin [47, 119] [46]) = some .dir ∧ isExtOnlyOld [46] = true := by decide
-- task --init missing/x.yml  → error, nothing written
example : initRun fs0 [47, 119] [[109, 47, 120, 46, 121, 109, 108]] none = .error := by decide
-- task --init -- x.yml       → the argument after `--` is not the path
example : initRun fs0 [47, 119] [[120, 46, 121, 109, 108]] (some 0) =
    .written [47, 119, 47, 84, 97, 115, 107, 102, 105, 108, 101, 46, 121, 109, 108] := by decide

end Props.C19
