import TaskModel.Finger.StreamLemmas
import TaskModel.Finger.TsLemmas
import TaskModel.Finger.Facts
/-!
# C05 — change detection and idempotence of fingerprinted tasks

Model: `TaskModel.Finger` (`globs`, `stream`, `lenTable`, `invoke`).  The hashes `H : Hashes` are
parameters: `H.outer` (xxh3-128 of the byte stream) and `H.lens` (xxh3-64 of the length table); the
stored checksum is the two printed one after the other; "same checksum ⇒ same stream and same length
table" is the explicit hypothesis `FpInj` on the two fingerprints involved.  What one glob pattern
matches is an oracle (`Pat.ms`); the COMBINATION is `globs`.

* `C05_globs` — `Globs` = strictly sorted `{p | the last pattern matching p is positive}`.
* `C05_idem` — after a successful run with nothing changed the next run executes nothing.
* `C05_force`, `C05_missing_generates` (both methods since TS1; `C05_missing_generates_timestamp`),
  `C05_status_fails` — each forces a run.
* **`C05_detect_full_inj`** (fix F8B) — FULL detection, a theorem: the byte stream (names and contents
  back to back) TOGETHER WITH the length table (the length of every name and content, 8 bytes each) is
  an injective encoding of the list of (name, content) (`stream_lenTable_inj`: the table gives the
  number of files and where to cut the stream); so for every project with injective names (`NamesInj`:
  every real project since F8) DIFFERENT lists of (path, content) of the matched files ⇒ a different
  stream or a different length table; `C05_detect_full_rerun`: ⇒ (under `FpInj`) the task reruns.
  `C05_undelimited_fixed`, `C05_undelimited_two_files_fixed`: the former counterexamples (file
  `ab`/`c` against `a`/`bc`; a byte moving between a content and the NEXT name), now rebuilt;
  `C05_counterexample_undelimited_historical` / `C05_stream_alone_not_injective`: the stream ALONE —
  all that was hashed before the fix — is the same for both trees.
* `C05_detect_checksum` / `C05_detect_partial` — the single-change classes change the stream itself
  (edit / add / remove), hence (`FpInj`) the fingerprint, hence the task reruns (`C05_detect_rerun`).
  `FpInj_of_HashInj`: `FpInj` follows from the no-collision hypothesis `HashInj` of each of the two
  hashes, the second half of the checksum being printed in a fixed width.
* `C05_detect_move` (F8) — the name hashed with a source is its path relative to the task
  directory (`nameOf`), distinct for distinct matched paths (`NamesInj`): a matched file replaced
  by ANOTHER PATH with the same content — a move to another directory, a rename — changes the
  stream; `C05_dir_move_detected` is the former witness of defect 8, now rebuilt.
  `C05_counterexample_basename_historical`: what the same history did when the name was
  `filepath.Base` (a non-injective name table) — kept as a record, NOT true of the tree any more;
  `C05_detect_full_needs_injective_names`: why `NamesInj` is a hypothesis.
* `C05_ignored_failure_ok` (F8C) — a failure swallowed by `ignore_error` keeps the fingerprint, so
  `C05_idem` applies to such runs; `C05_match_independent` (F8E) — whether a path is a source does not
  depend on other files (`C05_unmatched_field_fixed`: `{a,b}.e` with `b.e` absent).
* Method timestamp detects a source strictly newer than the newest generates / marker
  (`C05_detect_timestamp_partial`) and NOTHING else: `C05_detect_timestamp_full` is false —
  `C05_timestamp_removal_undetected`, `_rename_undetected`, `_old_addition_undetected`,
  `_restored_mtime_undetected` (open finding `C05-timestamp-misses-non-mtime-changes`).
* `C05_mtime` — checksum does not look at mtimes; timestamp does.
* `C05_missing_generates_timestamp_fixed` — the former witness of `C05-timestamp-missing-generates`
  (method timestamp did not notice a deleted `generates` file once its marker existed) is rebuilt.
  `C05_idem_timestamp` needs, since TS2, "the status did not fail before the first run":
  `C05_idem_timestamp_full` is false (`C05_idem_timestamp_status_counterexample`).
-/
namespace Props.C05
open TaskModel.Finger

/-! ## Globs -/

/-- **Globs**: for every pattern list (each pattern = negate bit + what it matches), a path
is in the result iff the LAST pattern matching it is positive ("exclude entries in order");
the result is strictly increasing (sorted, no duplicates). -/
theorem C05_globs (pats : List Pat) :
    (∀ p, p ∈ globs pats ↔ lastFlag pats p = some true) ∧
    (globs pats).Pairwise (· < ·) ∧ (globs pats).Nodup :=
  ⟨mem_globs pats, strictSorted_globs pats, (strictSorted_globs pats).nodup⟩

/-- … and against the file system: a path is a source now iff it exists and the last source
pattern that would match it is positive. -/
theorem C05_globs_now (t : Task) (fs : FS) (p : Path) :
    p ∈ srcsNow t fs ↔ ahas fs p = true ∧ lastFlag t.sources p = some true :=
  mem_srcsNow t fs p

example : globs [⟨false, [3, 1, 2]⟩, ⟨true, [2, 5]⟩, ⟨false, [5]⟩, ⟨true, [7]⟩] = [1, 3, 5] := by decide

/-! ## Idempotence -/

section
variable (cfg : Cfg) (H : Hashes) (pr : Proj)

/-- state after the up-to-date check of a `run` that exits `ok`: the stores are those the
check left (the body does not touch them) -/
theorem run_ok_stores {i : Nat} {t : Task} (ht : pr.tasks[i]? = some t) (e : Env) (s : State)
    (hok : (invoke cfg H pr i .run e s).2.exit = .ok) :
    (invoke cfg H pr i .run e s).1.sums = (isUpToDate H pr t false e.now s).1.sums ∧
    (invoke cfg H pr i .run e s).1.marks = (isUpToDate H pr t false e.now s).1.marks := by
  have hce := run_noerr_of_exit cfg H pr ht e s (by rw [hok]; simp)
  rw [invoke_run cfg H pr ht e s hce] at hok ⊢
  split
  · exact ⟨rfl, rfl⟩
  · rename_i hup
    rw [if_neg hup] at hok
    have := runBody_ok cfg H pr i t e _ hok
    exact ⟨this.1, this.2.1⟩

/-- **Idempotence, method checksum**: after a run that exited `ok`, if the commands left the
source stream as it was, the generates exist and the status (if any) holds, the next run
executes no command (it is skipped). -/
theorem C05_idem_checksum {i : Nat} {t : Task} (ht : pr.tasks[i]? = some t) (hm : t.method = .checksum)
    (hsrc : t.sources.isEmpty = false) (e1 e2 : Env) (hc2 : Plain e2) (s0 : State)
    (hok : (invoke cfg H pr i .run e1 s0).2.exit = .ok)
    (hfp : fpNow H pr t (invoke cfg H pr i .run e1 s0).1.files = fpNow H pr t s0.files)
    (hgen : gensOk t (invoke cfg H pr i .run e1 s0).1.files = true)
    (hst : t.status.isEmpty = true ∨ statusOk t (invoke cfg H pr i .run e1 s0).1.files = true) :
    (invoke cfg H pr i .run e2 (invoke cfg H pr i .run e1 s0).1).2.ran = [] ∧
    (invoke cfg H pr i .run e2 (invoke cfg H pr i .run e1 s0).1).2.skipped = true := by
  have hst1 := (run_ok_stores cfg H pr ht e1 s0 hok).1
  rw [isUpToDate_sources H pr hsrc] at hst1
  simp only [srcCheck, hm] at hst1
  have hstored := sumCheck_stored H pr t s0
  rw [← hst1, ← hfp] at hstored
  generalize (invoke cfg H pr i .run e1 s0).1 = s1 at *
  rw [invoke_run_plain cfg H pr ht e2 hc2]
  have hup : (isUpToDate H pr t false e2.now s1).2 = true := by
    rw [isUpToDate_sources H pr hsrc]
    simp only [srcCheck, hm, sumCheck_result, hgen, hstored]
    rcases hst with h | h <;> simp [h]
  rw [if_pos hup]
  exact ⟨rfl, rfl⟩

/-- state after the up-to-date check of a `--force` run that exits `ok` (F8F: the sources checker runs
for what it records; the body does not touch the stores) -/
theorem force_ok_stores {i : Nat} {t : Task} (ht : pr.tasks[i]? = some t) (e : Env) (hg : e.gset = true) (s : State)
    (hok : (invoke cfg H pr i .force e s).2.exit = .ok) :
    (invoke cfg H pr i .force e s).1.sums = (isUpToDate H pr t false e.now s).1.sums ∧
    (invoke cfg H pr i .force e s).1.marks = (isUpToDate H pr t false e.now s).1.marks := by
  have hfs : forceStart H pr t e s = (isUpToDate H pr t false e.now s).1 := by
    simp [forceStart, checkErr_gset t e s.files hg]
  rw [invoke_force cfg H pr ht, hfs] at hok ⊢
  have := runBody_ok cfg H pr i t e _ hok
  exact ⟨this.1, this.2.1⟩

/-- **Idempotence after `--force`, method checksum** (F8F): a forced run that exited `ok` has recorded
the fingerprint like any other run: if the commands left the source stream as it was, the generates
exist and the status (if any) holds, the next run WITHOUT `--force` executes no command. -/
theorem C05_idem_checksum_after_force {i : Nat} {t : Task} (ht : pr.tasks[i]? = some t) (hm : t.method = .checksum)
    (hsrc : t.sources.isEmpty = false) (e1 e2 : Env) (hg1 : e1.gset = true) (hc2 : Plain e2) (s0 : State)
    (hok : (invoke cfg H pr i .force e1 s0).2.exit = .ok)
    (hfp : fpNow H pr t (invoke cfg H pr i .force e1 s0).1.files = fpNow H pr t s0.files)
    (hgen : gensOk t (invoke cfg H pr i .force e1 s0).1.files = true)
    (hst : t.status.isEmpty = true ∨ statusOk t (invoke cfg H pr i .force e1 s0).1.files = true) :
    (invoke cfg H pr i .run e2 (invoke cfg H pr i .force e1 s0).1).2.ran = [] ∧
    (invoke cfg H pr i .run e2 (invoke cfg H pr i .force e1 s0).1).2.skipped = true := by
  have hst1 := (force_ok_stores cfg H pr ht e1 hg1 s0 hok).1
  rw [isUpToDate_sources H pr hsrc] at hst1
  simp only [srcCheck, hm] at hst1
  have hstored := sumCheck_stored H pr t s0
  rw [← hst1, ← hfp] at hstored
  generalize (invoke cfg H pr i .force e1 s0).1 = s1 at *
  rw [invoke_run_plain cfg H pr ht e2 hc2]
  have hup : (isUpToDate H pr t false e2.now s1).2 = true := by
    rw [isUpToDate_sources H pr hsrc]
    simp only [srcCheck, hm, sumCheck_result, hgen, hstored]
    rcases hst with h | h <;> simp [h]
  rw [if_pos hup]
  exact ⟨rfl, rfl⟩

/-- **Idempotence, method timestamp**, under the side conditions that no source is newer than the
first run (mtime ≤ its clock), that the generates exist afterwards (TS1: a missing one forces a
rerun) and that the `status:` commands (if any) did not fail BEFORE the first run — so that, if the
task ran, it was the timestamp check that asked for it and touched the marker (TS2 touches the
marker only then; see `C05_idem_timestamp_status_counterexample`). -/
theorem C05_idem_timestamp {i : Nat} {t : Task} (ht : pr.tasks[i]? = some t) (hm : t.method = .timestamp)
    (hsrc : t.sources.isEmpty = false) (e1 e2 : Env) (hc1 : Plain e1) (hc2 : Plain e2) (s0 : State)
    (hok : (invoke cfg H pr i .run e1 s0).2.exit = .ok)
    (hold : ∀ p ∈ srcsNow t (invoke cfg H pr i .run e1 s0).1.files,
      mtimeOf (invoke cfg H pr i .run e1 s0).1.files p ≤ e1.now)
    (hgen : gensOk t (invoke cfg H pr i .run e1 s0).1.files = true)
    (hst0 : t.status.isEmpty = true ∨ statusOk t s0.files = true)
    (hst : t.status.isEmpty = true ∨ statusOk t (invoke cfg H pr i .run e1 s0).1.files = true) :
    (invoke cfg H pr i .run e2 (invoke cfg H pr i .run e1 s0).1).2.ran = [] ∧
    (invoke cfg H pr i .run e2 (invoke cfg H pr i .run e1 s0).1).2.skipped = true := by
  have hts : Ts t := ⟨hm, hsrc⟩
  -- the state after the first run is up to date as far as the timestamp check is concerned
  have hup1 : tsUp t (invoke cfg H pr i .run e1 s0).1 = true := by
    rw [invoke_run_plain cfg H pr ht e1 hc1] at hok hold hgen ⊢
    by_cases hup0 : (isUpToDate H pr t false e1.now s0).2 = true
    · -- skipped: the check left the state alone, or created the marker
      rw [if_pos hup0]
      rw [isUpToDate_ts H pr hts]
      exact tsUp_after_check t e1.now s0 (tsUp_of_upToDate H pr hts false e1.now s0 hup0)
    · -- it ran, and the timestamp check had asked for it: the marker is at `e1.now`
      rw [if_neg hup0] at hok hold hgen ⊢
      have hno : tsUp t s0 = false := by
        rw [isUpToDate_ts H pr hts] at hup0
        simp only at hup0
        rcases hst0 with h | h <;> simp [h] at hup0 <;> simp [hup0]
      have hmarks := (runBody_ok cfg H pr i t e1 _ hok).2.1
      have hstored : aget (runBody cfg H pr i t false e1 (isUpToDate H pr t false e1.now s0).1).1.marks (tsKey t) = some e1.now := by
        rw [hmarks, isUpToDate_ts H pr hts]
        exact tsCheck_stored t e1.now s0 (by rw [tsCheck_result]; exact hno)
      generalize (runBody cfg H pr i t false e1 (isUpToDate H pr t false e1.now s0).1).1 = s1 at *
      rw [tsUp_iff]
      have hmem : e1.now ∈ tsGts t s1 := by unfold tsGts; rw [hstored]; simp
      refine ⟨fun h => (by rw [h] at hmem; cases hmem), ?_, hgen⟩
      intro p hp
      exact Nat.le_trans (hold p hp) (le_maxOf _ _ hmem)
  generalize (invoke cfg H pr i .run e1 s0).1 = s1 at *
  rw [invoke_run_plain cfg H pr ht e2 hc2]
  have hup : (isUpToDate H pr t false e2.now s1).2 = true := by
    rw [isUpToDate_ts H pr hts]
    simp only [hup1]
    rcases hst with h | h <;> simp [h]
  rw [if_pos hup]
  exact ⟨rfl, rfl⟩

/-- **C05_idem**, both methods. -/
theorem C05_idem {i : Nat} {t : Task} (ht : pr.tasks[i]? = some t) (hmeth : t.method ≠ .none)
    (hsrc : t.sources.isEmpty = false) (e1 e2 : Env) (hc1 : Plain e1) (hc2 : Plain e2) (s0 : State)
    (hok : (invoke cfg H pr i .run e1 s0).2.exit = .ok)
    (hunch : match t.method with
      | .checksum => fpNow H pr t (invoke cfg H pr i .run e1 s0).1.files = fpNow H pr t s0.files ∧
                     gensOk t (invoke cfg H pr i .run e1 s0).1.files = true
      | .timestamp => (∀ p ∈ srcsNow t (invoke cfg H pr i .run e1 s0).1.files,
                        mtimeOf (invoke cfg H pr i .run e1 s0).1.files p ≤ e1.now) ∧
                      gensOk t (invoke cfg H pr i .run e1 s0).1.files = true ∧
                      (t.status.isEmpty = true ∨ statusOk t s0.files = true)
      | .none => True)
    (hst : t.status.isEmpty = true ∨ statusOk t (invoke cfg H pr i .run e1 s0).1.files = true) :
    (invoke cfg H pr i .run e2 (invoke cfg H pr i .run e1 s0).1).2.ran = [] := by
  cases hm : t.method with
  | checksum =>
    rw [hm] at hunch
    exact (C05_idem_checksum cfg H pr ht hm hsrc e1 e2 hc2 s0 hok hunch.1 hunch.2 hst).1
  | timestamp =>
    rw [hm] at hunch
    exact (C05_idem_timestamp cfg H pr ht hm hsrc e1 e2 hc1 hc2 s0 hok hunch.1 hunch.2.1 hunch.2.2 hst).1
  | none => exact absurd hm hmeth

/-! ## What forces a run -/

/-- the prompt (if any) is answered yes and nothing interferes with the commands (no kill, no
failing command, no sibling whose failure cancels the run, no `generates` entry that cannot be
expanded — `Plain` —, no `task:` call that could fail on its precondition) -/
def Calm (t : Task) (e : Env) : Prop :=
  (t.prompt = false ∨ e.yes = true) ∧ e.killAt = none ∧ e.failAt = none ∧ Plain e ∧ ∀ c ∈ t.cmds, c.need = none

theorem runBody_calm (i : Nat) (t : Task) (e : Env) (s : State) (hc : Calm t e) :
    (runBody cfg H pr i t false e s).2.ran = List.range' 0 t.cmds.length ∧
    (runBody cfg H pr i t false e s).2.exit = .ok ∧ (runBody cfg H pr i t false e s).2.skipped = false := by
  obtain ⟨hp, hk, hf, hpl, hn⟩ := hc
  have hl := cmdLoop_clean e t.ignoreError hk hf hpl.1 t.cmds hn 0 (mkdirTask t s).files []
  unfold runBody
  have hcond : (t.prompt && !false && !e.yes) = false := by
    rcases hp with h | h <;> simp [h]
  simp only [hcond, Bool.false_eq_true, if_false]
  rw [hl.2]
  simp [hl.1]

/-- **--force** runs every command, whatever the fingerprint state says. -/
theorem C05_force {i : Nat} {t : Task} (ht : pr.tasks[i]? = some t) (e : Env) (s : State) (hc : Calm t e) :
    (invoke cfg H pr i .force e s).2.ran = List.range' 0 t.cmds.length ∧
    (invoke cfg H pr i .force e s).2.skipped = false := by
  rw [invoke_force cfg H pr ht]
  exact ⟨(runBody_calm cfg H pr i t e _ hc).1, (runBody_calm cfg H pr i t e _ hc).2.2⟩

/-- a `run` that is not up to date enters the body: not skipped, and (if calm) every command runs -/
theorem run_not_upToDate {i : Nat} {t : Task} (ht : pr.tasks[i]? = some t) (e : Env) (s : State)
    (h : (isUpToDate H pr t false e.now s).2 = false) :
    (invoke cfg H pr i .run e s).2.skipped = false ∧
    (Calm t e → (invoke cfg H pr i .run e s).2.ran = List.range' 0 t.cmds.length) := by
  cases hce : checkErr t e s.files with
  | true =>
    rw [invoke_run_err cfg H pr ht e s hce]
    exact ⟨rfl, fun hc => by rw [checkErr_gset t e s.files hc.2.2.2.1.2] at hce; cases hce⟩
  | false =>
  rw [invoke_run cfg H pr ht e s hce, h]
  simp only [Bool.false_and, Bool.false_eq_true, if_false]
  constructor
  · unfold runBody
    simp only
    split
    · rfl
    · simp only [Bool.false_eq_true, if_false]
      split <;> rfl
  · intro hc
    exact (runBody_calm cfg H pr i t e _ hc).1

/-- **Missing generates** (method checksum, and — since TS1 — method timestamp): some non-negated
`generates` pattern matches nothing ⇒ the task runs. -/
theorem C05_missing_generates {i : Nat} {t : Task} (ht : pr.tasks[i]? = some t) (hm : t.method ≠ .none)
    (hsrc : t.sources.isEmpty = false) (e : Env) (s : State) (hg : gensOk t s.files = false) :
    (invoke cfg H pr i .run e s).2.skipped = false ∧
    (Calm t e → (invoke cfg H pr i .run e s).2.ran = List.range' 0 t.cmds.length) := by
  apply run_not_upToDate cfg H pr ht
  cases hmeth : t.method with
  | checksum =>
    rw [isUpToDate_sources H pr hsrc]
    simp only [srcCheck, hmeth, sumCheck_result, hg]
    cases t.status.isEmpty <;> simp
  | timestamp =>
    rw [isUpToDate_ts H pr ⟨hmeth, hsrc⟩]
    have : tsUp t s = false := by unfold tsUp; simp [hg]
    simp only [this]
    cases t.status.isEmpty <;> simp
  | none => exact absurd hmeth hm

/-- the timestamp half on its own (the open finding `C05-timestamp-missing-generates` before TS1) -/
theorem C05_missing_generates_timestamp {i : Nat} {t : Task} (ht : pr.tasks[i]? = some t) (hm : t.method = .timestamp)
    (hsrc : t.sources.isEmpty = false) (e : Env) (s : State) (hg : gensOk t s.files = false) :
    (invoke cfg H pr i .run e s).2.skipped = false ∧
    (Calm t e → (invoke cfg H pr i .run e s).2.ran = List.range' 0 t.cmds.length) :=
  C05_missing_generates cfg H pr ht (by rw [hm]; simp) hsrc e s hg

/-- **Failing status** ⇒ the task runs (any method, with or without sources). -/
theorem C05_status_fails {i : Nat} {t : Task} (ht : pr.tasks[i]? = some t) (hst : t.status.isEmpty = false)
    (e : Env) (s : State) (hf : statusOk t s.files = false) :
    (invoke cfg H pr i .run e s).2.skipped = false ∧
    (Calm t e → (invoke cfg H pr i .run e s).2.ran = List.range' 0 t.cmds.length) :=
  run_not_upToDate cfg H pr ht e s (isUpToDate_status_fails H pr hst hf false e.now)

/-! ## Detection, method checksum -/

/-- the explicit hypothesis about ONE uninterpreted hash function, for two inputs: no collision -/
def HashInj (H : Bytes → Bytes) (a b : Bytes) : Prop := H a = H b → a = b

/-- the explicit hypothesis about the uninterpreted hashes of the checksum, for the two fingerprints
involved: the printed checksum (outer hash of the stream followed by the hash of the length table)
tells the two (stream, length table) pairs apart — no collision.  (Both halves are printed in a way
that lets them be told apart — the second has a fixed width —, so this follows from `HashInj` of each
hash wherever the first half has one width.) -/
def FpInj (H : Hashes) (s₁ t₁ s₂ t₂ : Bytes) : Prop :=
  H.outer s₁ ++ H.lens t₁ = H.outer s₂ ++ H.lens t₂ → s₁ = s₂ ∧ t₁ = t₂

/-- `FpInj` from the no-collision hypothesis of each hash (`HashInj`), given that the second half of
the printed checksum has one width for both fingerprints (it is printed `%016x`: always 16 digits) -/
theorem FpInj_of_HashInj (H : Hashes) (s₁ t₁ s₂ t₂ : Bytes)
    (hw : (H.lens t₁).length = (H.lens t₂).length)
    (h1 : HashInj H.outer s₁ s₂) (h2 : HashInj H.lens t₁ t₂) : FpInj H s₁ t₁ s₂ t₂ := by
  intro h
  have := List.append_inj' h hw
  exact ⟨h1 this.1, h2 this.2⟩

/-- non-vacuity: two hashes that are injective outright and print the second half in a fixed width
(first half the stream itself, second half the first 16 bytes of the table, zero-padded) — on the
`ab`/`c` against `a`/`bc` tables (16 bytes each) every hypothesis holds -/
example :
    let H : Hashes := ⟨id, fun t => (t ++ List.replicate 16 0).take 16⟩
    let t₁ := be64 2 ++ be64 1
    let t₂ := be64 1 ++ be64 2
    (H.lens t₁).length = (H.lens t₂).length ∧ HashInj H.outer [97, 98, 99] [97, 98, 99] ∧ HashInj H.lens t₁ t₂ ∧
    FpInj H [97, 98, 99] t₁ [97, 98, 99] t₂ := by
  refine ⟨by decide, fun _ => rfl, fun h => absurd h (by decide), ?_⟩
  exact FpInj_of_HashInj _ _ _ _ _ (by decide) (fun _ => rfl) (fun h => absurd h (by decide))

/-- **A changed (stream, length table) pair forces a run** (under `FpInj` for the stored and the
present pair). -/
theorem C05_detect_rerun {i : Nat} {t : Task} (ht : pr.tasks[i]? = some t) (hm : t.method = .checksum)
    (hsrc : t.sources.isEmpty = false) (e : Env) (s : State) (oldS oldT : Bytes)
    (hstored : aget s.sums (sumKey t) = some (H.outer oldS ++ H.lens oldT))
    (hne : stream (nameOf pr t) s.files (srcsNow t s.files) ≠ oldS ∨
           lenTable (nameOf pr t) s.files (srcsNow t s.files) ≠ oldT)
    (hinj : FpInj H (stream (nameOf pr t) s.files (srcsNow t s.files))
      (lenTable (nameOf pr t) s.files (srcsNow t s.files)) oldS oldT) :
    (invoke cfg H pr i .run e s).2.skipped = false ∧
    (Calm t e → (invoke cfg H pr i .run e s).2.ran = List.range' 0 t.cmds.length) := by
  apply run_not_upToDate cfg H pr ht
  rw [isUpToDate_sources H pr hsrc]
  have : ¬ (H.outer oldS ++ H.lens oldT = fpNow H pr t s.files) := by
    intro h
    have := hinj h.symm
    rcases hne with h1 | h1
    · exact h1 this.1
    · exact h1 this.2
  simp only [srcCheck, hm, sumCheck_result, hstored, Option.some.injEq, this]
  cases t.status.isEmpty <;> simp

end

/-- **Edit**: changing the content of one matched file changes the stream. -/
theorem C05_detect_edit (pr : Proj) (t : Task) (fs : FS) (p : Path) (f : File)
    (hp : p ∈ srcsNow t fs) (hne : f.content ≠ contentOf fs p) :
    stream (nameOf pr t) (aset fs p f) (srcsNow t (aset fs p f)) ≠ stream (nameOf pr t) fs (srcsNow t fs) := by
  have hex : ahas fs p = true := ((mem_srcsNow t fs p).mp hp).1
  have hsame : srcsNow t (aset fs p f) = srcsNow t fs := by
    apply strictSorted_ext _ _ (strictSorted_srcsNow t _) (strictSorted_srcsNow t _)
    intro q
    rw [mem_srcsNow, mem_srcsNow, ahas_aset]
    by_cases hq : p = q
    · subst hq; simp [hex]
    · simp [hq]
  rw [hsame]
  apply stream_edit (nameOf pr t) fs (aset fs p f) _ p (strictSorted_srcsNow t fs).nodup hp
  · unfold contentOf; rw [aget_aset_self]; exact hne
  · intro q hq
    exact contentOf_aset_ne fs p q f (fun e => hq e.symm)

/-- **Add**: a new file matched by the sources changes the stream (its base name is not empty). -/
theorem C05_detect_add (pr : Proj) (t : Task) (fs : FS) (q : Path) (f : File)
    (hnew : ahas fs q = false) (hm : lastFlag t.sources q = some true) (hb : nameOf pr t q ≠ []) :
    stream (nameOf pr t) (aset fs q f) (srcsNow t (aset fs q f)) ≠ stream (nameOf pr t) fs (srcsNow t fs) := by
  rw [srcsNow_add t fs q f hnew hm]
  intro heq
  have hl := congrArg List.length heq
  rw [stream_length_insertSorted] at hl
  have hq : q ∉ srcsNow t fs := by rw [mem_srcsNow]; simp [hnew]
  have hc : stream (nameOf pr t) (aset fs q f) (srcsNow t fs) = stream (nameOf pr t) fs (srcsNow t fs) :=
    stream_congr (nameOf pr t) fs _ _ (fun p hp => contentOf_aset_ne fs q p f (fun e => hq (e ▸ hp)))
  rw [hc] at hl
  have : (nameOf pr t q).length ≠ 0 := fun h => hb (List.eq_nil_of_length_eq_zero h)
  omega

/-- **Remove**: deleting a matched file changes the stream. -/
theorem C05_detect_remove (pr : Proj) (t : Task) (fs : FS) (q : Path)
    (hq : q ∈ srcsNow t fs) (hb : nameOf pr t q ≠ []) :
    stream (nameOf pr t) (adel fs q) (srcsNow t (adel fs q)) ≠ stream (nameOf pr t) fs (srcsNow t fs) := by
  rw [srcsNow_remove t fs q hq]
  intro heq
  have hl := congrArg List.length heq
  rw [stream_length_insertSorted] at hl
  have hq' : q ∉ srcsNow t (adel fs q) := by rw [mem_srcsNow, ahas_adel]; simp
  have hc : stream (nameOf pr t) (adel fs q) (srcsNow t (adel fs q)) = stream (nameOf pr t) fs (srcsNow t (adel fs q)) :=
    stream_congr (nameOf pr t) fs _ _ (fun p hp => contentOf_adel_ne fs q p (fun e => hq' (e ▸ hp)))
  rw [hc] at hl
  have : (nameOf pr t q).length ≠ 0 := fun h => hb (List.eq_nil_of_length_eq_zero h)
  omega

/-- **Rename in place**: a file replaced, at the same position of the sorted source list, by one
with the same content and another name changes the stream. -/
theorem C05_detect_rename_in_place (pr : Proj) (t : Task) (fs fs' : FS) (l₁ l₂ : List Path) (p q : Path)
    (h1 : ∀ x ∈ l₁, contentOf fs' x = contentOf fs x) (h2 : ∀ x ∈ l₂, contentOf fs' x = contentOf fs x)
    (hc : contentOf fs' q = contentOf fs p) (hb : nameOf pr t q ≠ nameOf pr t p) :
    stream (nameOf pr t) fs' (l₁ ++ q :: l₂) ≠ stream (nameOf pr t) fs (l₁ ++ p :: l₂) :=
  stream_replace (nameOf pr t) fs fs' l₁ l₂ p q h1 h2 hc hb

/-- **C05_detect_checksum**: edit, addition and removal of a matched file each change the byte
stream fed to the hash. -/
theorem C05_detect_checksum (pr : Proj) (t : Task) (fs : FS) :
    (∀ p f, p ∈ srcsNow t fs → f.content ≠ contentOf fs p →
      stream (nameOf pr t) (aset fs p f) (srcsNow t (aset fs p f)) ≠ stream (nameOf pr t) fs (srcsNow t fs)) ∧
    (∀ q f, ahas fs q = false → lastFlag t.sources q = some true → nameOf pr t q ≠ [] →
      stream (nameOf pr t) (aset fs q f) (srcsNow t (aset fs q f)) ≠ stream (nameOf pr t) fs (srcsNow t fs)) ∧
    (∀ q, q ∈ srcsNow t fs → nameOf pr t q ≠ [] →
      stream (nameOf pr t) (adel fs q) (srcsNow t (adel fs q)) ≠ stream (nameOf pr t) fs (srcsNow t fs)) :=
  ⟨fun p f => C05_detect_edit pr t fs p f, fun q f => C05_detect_add pr t fs q f,
   fun q => C05_detect_remove pr t fs q⟩

/-! ## Moves and renames (F8: the name is the path relative to the task directory) -/

/-- distinct matched paths carry distinct names.  This is what hashing the path relative to the
task directory gives (all matched paths lie below that directory, so `nameOf` only removes a
common prefix of distinct strings); it is what hashing `filepath.Base` did NOT give. -/
def NamesInj (pr : Proj) (t : Task) : Prop :=
  ∀ p q, lastFlag t.sources p = some true → lastFlag t.sources q = some true → p ≠ q →
    nameOf pr t p ≠ nameOf pr t q

/-- **Move / rename detected**: a matched file replaced by a file at ANOTHER matched path with the
same content (the rest of the sorted source list and its contents unchanged) changes the stream
(hence the fingerprint under `HashInj`, hence the task reruns: `C05_detect_rerun`). -/
theorem C05_detect_move (pr : Proj) (t : Task) (fs fs' : FS) (l₁ l₂ : List Path) (p q : Path)
    (hinj : NamesInj pr t) (hpq : p ≠ q)
    (hs : srcsNow t fs = l₁ ++ p :: l₂) (hs' : srcsNow t fs' = l₁ ++ q :: l₂)
    (h1 : ∀ x ∈ l₁, contentOf fs' x = contentOf fs x) (h2 : ∀ x ∈ l₂, contentOf fs' x = contentOf fs x)
    (hc : contentOf fs' q = contentOf fs p) :
    stream (nameOf pr t) fs' (srcsNow t fs') ≠ stream (nameOf pr t) fs (srcsNow t fs) := by
  have hp : lastFlag t.sources p = some true := ((mem_srcsNow t fs p).mp (by rw [hs]; simp)).2
  have hq : lastFlag t.sources q = some true := ((mem_srcsNow t fs' q).mp (by rw [hs']; simp)).2
  rw [hs, hs']
  exact stream_replace (nameOf pr t) fs fs' l₁ l₂ p q h1 h2 hc (hinj q p hq hp (fun e => hpq e.symm))

private theorem not_mem_of_nodup_split {l₁ l₂ : List Path} {p : Path} (h : (l₁ ++ p :: l₂).Nodup) :
    p ∉ l₁ ∧ p ∉ l₂ := by
  induction l₁ with
  | nil => simp only [List.nil_append, List.nodup_cons] at h; exact ⟨by simp, h.1⟩
  | cons a l ih =>
    simp only [List.cons_append, List.nodup_cons, List.mem_append, List.mem_cons] at h
    have := ih h.2
    refine ⟨?_, this.2⟩
    simp only [List.mem_cons]
    intro hc
    rcases hc with hc | hc
    · exact h.1 (Or.inr (Or.inl hc.symm))
    · exact this.1 hc

/-- … for the file operation itself: `mv p q` (content and mtime kept) of a matched file to another
matched path that takes the same place in the sorted list.  (Any place, any number of simultaneous
changes: `C05_detect_full_inj`.) -/
theorem C05_detect_move_op (pr : Proj) (t : Task) (s : State) (l₁ l₂ : List Path) (p q : Path)
    (hinj : NamesInj pr t) (hpq : p ≠ q)
    (hs : srcsNow t s.files = l₁ ++ p :: l₂) (hs' : srcsNow t (applyOp pr (.move p q) s).files = l₁ ++ q :: l₂) :
    stream (nameOf pr t) (applyOp pr (.move p q) s).files (srcsNow t (applyOp pr (.move p q) s).files) ≠
      stream (nameOf pr t) s.files (srcsNow t s.files) := by
  have hnp := not_mem_of_nodup_split (hs ▸ (strictSorted_srcsNow t s.files).nodup)
  have hnq := not_mem_of_nodup_split (hs' ▸ (strictSorted_srcsNow t (applyOp pr (.move p q) s).files).nodup)
  have hex : ahas s.files p = true := ((mem_srcsNow t s.files p).mp (by rw [hs]; simp)).1
  cases hf : aget s.files p with
  | none => simp [ahas, hf] at hex
  | some f =>
    have hfiles : (applyOp pr (.move p q) s).files = aset (adel s.files p) q f := by simp [applyOp, hf]
    rw [hfiles] at hs' ⊢
    have hoth : ∀ x, x ≠ p → x ≠ q → contentOf (aset (adel s.files p) q f) x = contentOf s.files x := by
      intro x hxp hxq
      rw [contentOf_aset_ne _ q x f (fun e => hxq e.symm), contentOf_adel_ne _ p x (fun e => hxp e.symm)]
    apply C05_detect_move pr t s.files _ l₁ l₂ p q hinj hpq hs hs'
    · intro x hx; exact hoth x (fun e => hnp.1 (e ▸ hx)) (fun e => hnq.1 (e ▸ hx))
    · intro x hx; exact hoth x (fun e => hnp.2 (e ▸ hx)) (fun e => hnq.2 (e ▸ hx))
    · unfold contentOf; rw [aget_aset_self, hf]

/- witness: paths 0 = `d/a.e`, 1 = `e/a.e` (same base name `a.e`), sources `**/*.e` -/
private def tMv : Task :=
  { name := [120], label := [], method := .checksum, sources := [⟨false, [0, 1]⟩], generates := [],
    status := [], prompt := false, dir := none, cmds := [⟨[], none, false⟩] }
private def prMv : Proj :=
  { base := [(0, [100, 47, 97, 46, 101]), (1, [101, 47, 97, 46, 101])], dirOf := [], dirLen := [], tasks := [tMv] }
private def sMv : State := { State.empty with files := [(0, ⟨[7], 5⟩)] }
private def env (n : Nat) : Env := ⟨n, true, none, none, false, true, false⟩

/- the same two files below a task directory `sub/` (directory 0, prefix length 4): paths
`sub/d/a.e`, `sub/e/a.e`, names `d/a.e`, `e/a.e` -/
private def tSub : Task := { tMv with dir := some 0 }
private def prSub : Proj :=
  { base := [(0, [115, 117, 98, 47, 100, 47, 97, 46, 101]), (1, [115, 117, 98, 47, 101, 47, 97, 46, 101])],
    dirOf := [(0, 0), (1, 0)], dirLen := [(0, 4)], tasks := [tSub] }

private theorem matched_tMv {p : Path} (h : lastFlag tMv.sources p = some true) : p = 0 ∨ p = 1 := by
  by_cases hm : p ∈ [0, 1]
  · simpa using hm
  · simp [tMv, lastFlag, hm] at h

/-- non-vacuity of `NamesInj`: relative paths of distinct files differ (root task and task with a `dir:`) -/
example : NamesInj prMv tMv ∧ NamesInj prSub tSub ∧ nameOf prSub tSub 0 = [100, 47, 97, 46, 101] := by
  refine ⟨?_, ?_, by decide⟩
  · intro p q hp hq hne
    rcases matched_tMv hp with rfl | rfl <;> rcases matched_tMv hq with rfl | rfl <;>
      first | exact absurd rfl hne | decide
  · intro p q hp hq hne
    rcases matched_tMv hp with rfl | rfl <;> rcases matched_tMv hq with rfl | rfl <;>
      first | exact absurd rfl hne | decide

/-- **the former witness of defect 8, now detected**: run, move the file to the other directory
(same base name, same content, both matched), run again — the stream differs and the second run
executes the command.  (An instance of `C05_detect_move_op` with `l₁ = l₂ = []`.) -/
theorem C05_dir_move_detected :
    let s1 := (invoke Cfg.fixed hId prMv 0 .run (env 10) sMv).1
    let s2 := applyOp prMv (.move 0 1) s1
    (invoke Cfg.fixed hId prMv 0 .run (env 10) sMv).2.ran = [0] ∧
    srcsNow tMv s1.files = [0] ∧ srcsNow tMv s2.files = [1] ∧
    stream (nameOf prMv tMv) s2.files (srcsNow tMv s2.files) ≠ stream (nameOf prMv tMv) s1.files (srcsNow tMv s1.files) ∧
    (invoke Cfg.fixed hId prMv 0 .run (env 20) s2).2.skipped = false ∧
    (invoke Cfg.fixed hId prMv 0 .run (env 20) s2).2.ran = [0] := by decide

/- HISTORICAL name table: `filepath.Base` of the two paths — both `a.e` -/
private def prBase : Proj := { prMv with base := [(0, [97, 46, 101]), (1, [97, 46, 101])] }

/-- **Historical (defect 8, repaired by F8 — NOT a statement about the present tree)**: with a
name table that is not injective on the matched paths, which is what hashing `filepath.Base`
amounted to, the same history is not detected: the second run is skipped although a matched
source was removed and another one added. -/
theorem C05_counterexample_basename_historical :
    ¬ NamesInj prBase tMv ∧
    (let s1 := (invoke Cfg.fixed hId prBase 0 .run (env 10) sMv).1
     let s2 := applyOp prBase (.move 0 1) s1
     (invoke Cfg.fixed hId prBase 0 .run (env 10) sMv).2.ran = [0] ∧
     srcsNow tMv s1.files = [0] ∧ srcsNow tMv s2.files = [1] ∧
     stream (nameOf prBase tMv) s2.files (srcsNow tMv s2.files) = stream (nameOf prBase tMv) s1.files (srcsNow tMv s1.files) ∧
     (invoke Cfg.fixed hId prBase 0 .run (env 20) s2).2.skipped = true) := by
  refine ⟨fun h => h 0 1 (by decide) (by decide) (by decide) (by decide), by decide⟩

/-! ## Full detection (fix F8B): stream and length table together are an injective encoding -/

/-- **C05_detect_full_inj** — the full detection statement, now a THEOREM: for every project whose
matched paths have pairwise distinct names (every real project since F8) and any two trees:
whenever the lists of (path, content) of the matched files differ — ANY edit, addition, removal,
rename or move, or any combination of them, in particular a rename plus an edit that shifts bytes
between a name and the neighbouring content — the stream fed to the outer hash differs, or the
length table fed to the second hash does.  (No hypothesis on the bytes of names or contents.) -/
theorem C05_detect_full_inj (pr : Proj) (t : Task) (hinj : NamesInj pr t) (fs fs' : FS)
    (hne : (srcsNow t fs).map (fun p => (p, contentOf fs p)) ≠ (srcsNow t fs').map (fun p => (p, contentOf fs' p))) :
    stream (nameOf pr t) fs (srcsNow t fs) ≠ stream (nameOf pr t) fs' (srcsNow t fs') ∨
    lenTable (nameOf pr t) fs (srcsNow t fs) ≠ lenTable (nameOf pr t) fs' (srcsNow t fs') := by
  by_cases hs : stream (nameOf pr t) fs (srcsNow t fs) = stream (nameOf pr t) fs' (srcsNow t fs')
  · right
    intro ht
    apply hne
    apply stream_lenTable_inj_paths (nameOf pr t) fs fs' _ _ _ hs ht
    intro p hp q hq hnm
    by_cases hpq : p = q
    · exact hpq
    · exact absurd hnm (hinj p q ((mem_srcsNow t fs p).mp hp).2 ((mem_srcsNow t fs' q).mp hq).2 hpq)
  · exact Or.inl hs

/-- the statement as a proposition over all projects (for the record: `¬ …` held before F8B, when
the length table was not hashed) -/
def C05_detect_full : Prop :=
  ∀ (pr : Proj) (t : Task), NamesInj pr t → ∀ (fs fs' : FS),
    (srcsNow t fs).map (fun p => (p, contentOf fs p)) ≠ (srcsNow t fs').map (fun p => (p, contentOf fs' p)) →
    stream (nameOf pr t) fs (srcsNow t fs) ≠ stream (nameOf pr t) fs' (srcsNow t fs') ∨
    lenTable (nameOf pr t) fs (srcsNow t fs) ≠ lenTable (nameOf pr t) fs' (srcsNow t fs')

theorem C05_detect_full_holds : C05_detect_full :=
  fun pr t hinj fs fs' hne => C05_detect_full_inj pr t hinj fs fs' hne

section
variable (cfg : Cfg) (H : Hashes) (pr : Proj)

/-- **… hence the task reruns** (`C05_detect_rerun` under `FpInj`): the stored checksum is that of
the tree `fs0` (the tree the last recorded check saw), the list of (path, content) of the matched
files is different now ⇒ the run is not skipped, and (if calm) every command runs. -/
theorem C05_detect_full_rerun {i : Nat} {t : Task} (ht : pr.tasks[i]? = some t) (hm : t.method = .checksum)
    (hsrc : t.sources.isEmpty = false) (hnames : NamesInj pr t) (e : Env) (s : State) (fs0 : FS)
    (hstored : aget s.sums (sumKey t) = some (fpNow H pr t fs0))
    (hne : (srcsNow t s.files).map (fun p => (p, contentOf s.files p)) ≠ (srcsNow t fs0).map (fun p => (p, contentOf fs0 p)))
    (hinj : FpInj H (stream (nameOf pr t) s.files (srcsNow t s.files)) (lenTable (nameOf pr t) s.files (srcsNow t s.files))
      (stream (nameOf pr t) fs0 (srcsNow t fs0)) (lenTable (nameOf pr t) fs0 (srcsNow t fs0))) :
    (invoke cfg H pr i .run e s).2.skipped = false ∧
    (Calm t e → (invoke cfg H pr i .run e s).2.ran = List.range' 0 t.cmds.length) :=
  C05_detect_rerun cfg H pr ht hm hsrc e s _ _ hstored (C05_detect_full_inj pr t hnames s.files fs0 hne) hinj

end

/- names `ab`/`a`, contents `c`/`bc`: the rename plus edit that moves the byte `b` from the name into
the content -/
private def prUd : Proj := { base := [(0, [97, 98]), (1, [97])], dirOf := [], dirLen := [], tasks := [tMv] }
private def fsUd1 : FS := [(0, ⟨[99], 5⟩)]
private def fsUd2 : FS := [(1, ⟨[98, 99], 5⟩)]

private theorem namesInj_prUd : NamesInj prUd tMv := by
  intro p q hp hq hne
  rcases matched_tMv hp with rfl | rfl <;> rcases matched_tMv hq with rfl | rfl <;>
    first | exact absurd rfl hne | decide

/-- **HISTORICAL (repaired by fix F8B — the SECOND conjunct is what the tree does now)**: the
`name ++ content` stream alone — all that was hashed before the fix — lets a rename plus an edit
collide: file `ab` with content `c` and file `a` with content `bc` give the same bytes, also for
injective names; the length tables differ. -/
theorem C05_counterexample_undelimited_historical :
    (srcsNow tMv fsUd1).map (fun p => (p, contentOf fsUd1 p)) ≠ (srcsNow tMv fsUd2).map (fun p => (p, contentOf fsUd2 p)) ∧
    stream (nameOf prUd tMv) fsUd1 (srcsNow tMv fsUd1) = stream (nameOf prUd tMv) fsUd2 (srcsNow tMv fsUd2) ∧
    lenTable (nameOf prUd tMv) fsUd1 (srcsNow tMv fsUd1) ≠ lenTable (nameOf prUd tMv) fsUd2 (srcsNow tMv fsUd2) := by
  decide

/-- the statement about the stream ALONE stays false (which is why the length table is needed) -/
theorem C05_stream_alone_not_injective :
    ¬ (∀ (pr : Proj) (t : Task), NamesInj pr t → ∀ (fs fs' : FS),
        (srcsNow t fs).map (fun p => (p, contentOf fs p)) ≠ (srcsNow t fs').map (fun p => (p, contentOf fs' p)) →
        stream (nameOf pr t) fs (srcsNow t fs) ≠ stream (nameOf pr t) fs' (srcsNow t fs')) := by
  intro h
  exact h prUd tMv namesInj_prUd fsUd1 fsUd2 C05_counterexample_undelimited_historical.1
    C05_counterexample_undelimited_historical.2.1

/-- **the former counterexample, now detected**: the history "run, replace `ab`/`c` by `a`/`bc`,
run" executes the command again (an instance of `C05_detect_full_rerun`) -/
theorem C05_undelimited_fixed :
    let s1 := (invoke Cfg.fixed hId prUd 0 .run (env 10) { State.empty with files := fsUd1 }).1
    let s2 := applyOp prUd (.write 1 [98, 99] 15) (applyOp prUd (.delete 0) s1)
    (invoke Cfg.fixed hId prUd 0 .run (env 10) { State.empty with files := fsUd1 }).2.ran = [0] ∧
    stream (nameOf prUd tMv) s2.files (srcsNow tMv s2.files) = stream (nameOf prUd tMv) s1.files (srcsNow tMv s1.files) ∧
    (invoke Cfg.fixed hId prUd 0 .run (env 20) s2).2.skipped = false ∧
    (invoke Cfg.fixed hId prUd 0 .run (env 20) s2).2.ran = [0] := by decide

/-- the boundary can also lie between the content of one file and the NAME of the next: two files
`a`/`x`, `b`/`y` against the single file `a` with content `xby` — one byte string, two length tables -/
theorem C05_undelimited_two_files_fixed :
    let pr : Proj := { base := [(0, [97]), (1, [98])], dirOf := [], dirLen := [], tasks := [tMv] }
    let fs1 : FS := [(0, ⟨[120], 5⟩), (1, ⟨[121], 5⟩)]
    let fs2 : FS := [(0, ⟨[120, 98, 121], 5⟩)]
    stream (nameOf pr tMv) fs1 (srcsNow tMv fs1) = stream (nameOf pr tMv) fs2 (srcsNow tMv fs2) ∧
    lenTable (nameOf pr tMv) fs1 (srcsNow tMv fs1) ≠ lenTable (nameOf pr tMv) fs2 (srcsNow tMv fs2) ∧
    fpNow hId pr tMv fs1 ≠ fpNow hId pr tMv fs2 := by decide

/-- why `NamesInj` is a hypothesis: over a name table that is NOT injective on the matched paths (no
real project since F8 — the `filepath.Base` table of defect 8) the statement fails -/
theorem C05_detect_full_needs_injective_names :
    ¬ (∀ (pr : Proj) (t : Task) (fs fs' : FS),
        (srcsNow t fs).map (fun p => (p, contentOf fs p)) ≠ (srcsNow t fs').map (fun p => (p, contentOf fs' p)) →
        stream (nameOf pr t) fs (srcsNow t fs) ≠ stream (nameOf pr t) fs' (srcsNow t fs') ∨
        lenTable (nameOf pr t) fs (srcsNow t fs) ≠ lenTable (nameOf pr t) fs' (srcsNow t fs')) := by
  intro h
  have := h prBase tMv [(0, ⟨[7], 5⟩)] [(1, ⟨[7], 5⟩)] (by decide)
  revert this
  decide

/-- non-vacuity of `C05_detect_full_rerun`: the stored checksum is that of the tree `ab`/`c`, the
tree now is `a`/`bc` — every hypothesis holds (with `hId`) and the run is indeed not skipped -/
example :
    let s0 : State := { State.empty with files := fsUd1 }
    let s1 := (invoke Cfg.fixed hId prUd 0 .run (env 10) s0).1
    let s2 := applyOp prUd (.write 1 [98, 99] 15) (applyOp prUd (.delete 0) s1)
    NamesInj prUd tMv ∧
    aget s2.sums (sumKey tMv) = some (fpNow hId prUd tMv fsUd1) ∧ s2.files = [(1, ⟨[98, 99], 15⟩)] ∧
    (srcsNow tMv s2.files).map (fun p => (p, contentOf s2.files p)) ≠ (srcsNow tMv fsUd1).map (fun p => (p, contentOf fsUd1 p)) ∧
    FpInj hId (stream (nameOf prUd tMv) s2.files (srcsNow tMv s2.files)) (lenTable (nameOf prUd tMv) s2.files (srcsNow tMv s2.files))
      (stream (nameOf prUd tMv) fsUd1 (srcsNow tMv fsUd1)) (lenTable (nameOf prUd tMv) fsUd1 (srcsNow tMv fsUd1)) ∧
    (invoke Cfg.fixed hId prUd 0 .run (env 20) s2).2.skipped = false := by
  refine ⟨namesInj_prUd, by decide, by decide, by decide, ?_, by decide⟩
  intro h
  exact absurd h (by decide)

/-- **Single changes** (edit of one file, one file added, one file removed) change the STREAM itself
when no matched path has an empty name; with `C05_detect_rerun` this gives a rerun under `FpInj`.
Moves and renames: `C05_detect_move`; everything at once, without the condition on names:
`C05_detect_full_inj`. -/
theorem C05_detect_partial (pr : Proj) (t : Task) (fs : FS)
    (hbase : ∀ q, lastFlag t.sources q = some true → nameOf pr t q ≠ []) :
    (∀ p f, p ∈ srcsNow t fs → f.content ≠ contentOf fs p →
      stream (nameOf pr t) (aset fs p f) (srcsNow t (aset fs p f)) ≠ stream (nameOf pr t) fs (srcsNow t fs)) ∧
    (∀ q f, ahas fs q = false → lastFlag t.sources q = some true →
      stream (nameOf pr t) (aset fs q f) (srcsNow t (aset fs q f)) ≠ stream (nameOf pr t) fs (srcsNow t fs)) ∧
    (∀ q, q ∈ srcsNow t fs →
      stream (nameOf pr t) (adel fs q) (srcsNow t (adel fs q)) ≠ stream (nameOf pr t) fs (srcsNow t fs)) :=
  ⟨fun p f => C05_detect_edit pr t fs p f, fun q f h1 h2 => C05_detect_add pr t fs q f h1 h2 (hbase q h2),
   fun q h => C05_detect_remove pr t fs q h (hbase q ((mem_srcsNow t fs q).mp h).2)⟩

/-- non-vacuity of the detection hypotheses: an edit, an add and a remove on a concrete tree, and
every matched path has a non-empty name -/
example : (0 : Path) ∈ srcsNow tMv sMv.files ∧ ahas sMv.files 1 = false ∧ lastFlag tMv.sources 1 = some true ∧
    nameOf prMv tMv 1 ≠ [] ∧ (∀ q, lastFlag tMv.sources q = some true → nameOf prMv tMv q ≠ []) := by
  refine ⟨by decide, by decide, by decide, by decide, ?_⟩
  intro q hq
  rcases matched_tMv hq with rfl | rfl <;> decide

/-! ## mtimes -/

/-- change every mtime arbitrarily -/
def retime (g : Path → Nat → Nat) (fs : FS) : FS := fs.map (fun kv => (kv.1, { kv.2 with mtime := g kv.1 kv.2.mtime }))

theorem aget_retime (g : Path → Nat → Nat) (fs : FS) (p : Path) :
    aget (retime g fs) p = (aget fs p).map (fun f => { f with mtime := g p f.mtime }) := by
  induction fs with
  | nil => rfl
  | cons kv fs ih =>
    obtain ⟨k, f⟩ := kv
    simp only [retime, List.map_cons, aget] at ih ⊢
    by_cases hk : k = p
    · subst hk; simp
    · simp [hk, ih]

theorem ahas_retime (g : Path → Nat → Nat) (fs : FS) : ahas (retime g fs) = ahas fs := by
  funext p
  unfold ahas
  rw [aget_retime]
  cases aget fs p <;> rfl

theorem contentOf_retime (g : Path → Nat → Nat) (fs : FS) (p : Path) : contentOf (retime g fs) p = contentOf fs p := by
  unfold contentOf
  rw [aget_retime]
  cases aget fs p <;> rfl

/-- **C05_mtime (checksum)**: the verdict of the checksum check, what it stores, and the
status/generates tests do not depend on any modification time. -/
theorem C05_mtime_checksum (H : Hashes) (pr : Proj) (t : Task) (hm : t.method = .checksum)
    (g : Path → Nat → Nat) (dry : Bool) (now : Nat) (s : State) :
    (isUpToDate H pr t dry now { s with files := retime g s.files }).2 = (isUpToDate H pr t dry now s).2 ∧
    (isUpToDate H pr t dry now { s with files := retime g s.files }).1.sums = (isUpToDate H pr t dry now s).1.sums := by
  have hsrc : srcsNow t (retime g s.files) = srcsNow t s.files := by
    unfold srcsNow nowPats; rw [ahas_retime]
  have hfp : fpNow H pr t (retime g s.files) = fpNow H pr t s.files := by
    unfold fpNow
    rw [hsrc, stream_congr (nameOf pr t) s.files _ _ (fun p _ => contentOf_retime g s.files p),
      lenTable_congr (nameOf pr t) s.files _ _ (fun p _ => contentOf_retime g s.files p)]
  have hgen : gensOk t (retime g s.files) = gensOk t s.files := by
    unfold gensOk; rw [ahas_retime]
  have hst : statusOk t (retime g s.files) = statusOk t s.files := by
    unfold statusOk; rw [ahas_retime]
  unfold isUpToDate srcCheck sumCheck
  simp only [hm, hfp, hgen, hst]
  cases t.sources.isEmpty <;> cases t.status.isEmpty <;> cases dry <;>
    (by_cases h : aget s.sums (sumKey t) = some (fpNow H pr t s.files) <;> simp [h])

/- timestamp: one source, marker present -/
private def tTs : Task := { tMv with method := .timestamp, sources := [⟨false, [0]⟩] }
private def prTs : Proj := { prMv with tasks := [tTs] }

/-- **C05_mtime (timestamp)**: the same tree with only a newer mtime on the source is rebuilt,
while method checksum on that tree is still skipped. -/
theorem C05_mtime_timestamp :
    let s1 := (invoke Cfg.fixed hId prTs 0 .run (env 10) sMv).1
    let s1c := (invoke Cfg.fixed hId prMv 0 .run (env 10) sMv).1
    (invoke Cfg.fixed hId prTs 0 .run (env 20) s1).2.skipped = true ∧
    (invoke Cfg.fixed hId prTs 0 .run (env 20) (applyOp prTs (.touch 0 15) s1)).2.ran = [0] ∧
    (invoke Cfg.fixed hId prMv 0 .run (env 20) (applyOp prMv (.touch 0 15) s1c)).2.skipped = true := by decide

/-- a source strictly newer than every generate and the marker makes the timestamp check fail -/
theorem C05_timestamp_newer_reruns (t : Task) (dry : Bool) (now : Nat) (s : State) (p : Path)
    (hp : p ∈ srcsNow t s.files) (hnew : ∀ m ∈ tsGts t s, m < mtimeOf s.files p) (hpos : 0 < mtimeOf s.files p) :
    (tsCheck t dry now s).2 = false := by
  rw [tsCheck_result]
  exact tsUp_false_of_newer t s p hp hnew hpos

/-! ### what method timestamp does NOT detect (open finding `C05-timestamp-misses-non-mtime-changes`) -/

/- two sources (paths 0, 1), method timestamp, marker from a first run at 10 -/
private def tTs2 : Task := { tMv with method := .timestamp }
private def prTs2 : Proj := { prMv with tasks := [tTs2] }
private def sTs2 : State := { State.empty with files := [(0, ⟨[7], 5⟩), (1, ⟨[8], 6⟩)] }

/-- the detection clause of C05 for method timestamp, as the property states it: after a successful
run, ANY change of the list of (path, content) of the matched files makes the next run execute -/
def C05_detect_timestamp_full : Prop :=
  ∀ (pr : Proj) (i : Nat) (t : Task), pr.tasks[i]? = some t → t.method = .timestamp → ∀ (s s' : State) (e : Env),
    (invoke Cfg.fixed hId pr i .run e s).2.exit = .ok → s'.marks = (invoke Cfg.fixed hId pr i .run e s).1.marks →
    (srcsNow t s'.files).map (fun p => (p, contentOf s'.files p)) ≠
      (srcsNow t (invoke Cfg.fixed hId pr i .run e s).1.files).map (fun p => (p, contentOf (invoke Cfg.fixed hId pr i .run e s).1.files p)) →
    ∀ e', (invoke Cfg.fixed hId pr i .run e' s').2.skipped = false

/-- **REMOVAL** of a source is not noticed: the remaining files are as old as before -/
theorem C05_timestamp_removal_undetected :
    let s1 := (invoke Cfg.fixed hId prTs2 0 .run (env 10) sTs2).1
    (invoke Cfg.fixed hId prTs2 0 .run (env 10) sTs2).2.ran = [0] ∧ srcsNow tTs2 s1.files = [0, 1] ∧
    srcsNow tTs2 (applyOp prTs2 (.delete 1) s1).files = [0] ∧
    (invoke Cfg.fixed hId prTs2 0 .run (env 20) (applyOp prTs2 (.delete 1) s1)).2.skipped = true := by decide

/-- a **RENAME** (`mv`: content and mtime kept) is not noticed -/
theorem C05_timestamp_rename_undetected :
    let s0 : State := { State.empty with files := [(0, ⟨[7], 5⟩)] }
    let s1 := (invoke Cfg.fixed hId prTs2 0 .run (env 10) s0).1
    srcsNow tTs2 s1.files = [0] ∧ srcsNow tTs2 (applyOp prTs2 (.move 0 1) s1).files = [1] ∧
    (invoke Cfg.fixed hId prTs2 0 .run (env 20) (applyOp prTs2 (.move 0 1) s1)).2.skipped = true := by decide

/-- an **ADDITION with an old mtime** (a file copied in with its timestamps, unpacked from an archive) is
not noticed -/
theorem C05_timestamp_old_addition_undetected :
    let s0 : State := { State.empty with files := [(0, ⟨[7], 5⟩)] }
    let s1 := (invoke Cfg.fixed hId prTs2 0 .run (env 10) s0).1
    srcsNow tTs2 (applyOp prTs2 (.write 1 [9] 3) s1).files = [0, 1] ∧
    (invoke Cfg.fixed hId prTs2 0 .run (env 20) (applyOp prTs2 (.write 1 [9] 3) s1)).2.skipped = true := by decide

/-- an **EDIT with the mtime restored** is not noticed -/
theorem C05_timestamp_restored_mtime_undetected :
    let s1 := (invoke Cfg.fixed hId prTs2 0 .run (env 10) sTs2).1
    contentOf (applyOp prTs2 (.write 0 [9, 9] 5) s1).files 0 ≠ contentOf s1.files 0 ∧
    (invoke Cfg.fixed hId prTs2 0 .run (env 20) (applyOp prTs2 (.write 0 [9, 9] 5) s1)).2.skipped = true := by decide

theorem C05_detect_timestamp_full_false : ¬ C05_detect_timestamp_full := by
  intro h
  have := h prTs2 0 tTs2 rfl rfl sTs2 (applyOp prTs2 (.delete 1) (invoke Cfg.fixed hId prTs2 0 .run (env 10) sTs2).1) (env 10)
    (by decide) (by decide) (by decide) (env 20)
  revert this
  decide

/-- **Partial (what method timestamp DOES detect)**: a matched source that is strictly newer than the
newest existing `generates` file and the marker makes the check fail — hence, for a calm run, every
command runs (`C05_timestamp_newer_reruns` is the check-level statement). -/
theorem C05_detect_timestamp_partial (cfg : Cfg) (H : Hashes) (pr : Proj) {i : Nat} {t : Task} (ht : pr.tasks[i]? = some t)
    (hts : Ts t) (e : Env) (s : State) (p : Path) (hp : p ∈ srcsNow t s.files)
    (hnew : ∀ m ∈ tsGts t s, m < mtimeOf s.files p) (hpos : 0 < mtimeOf s.files p) :
    (invoke cfg H pr i .run e s).2.skipped = false ∧
    (Calm t e → (invoke cfg H pr i .run e s).2.ran = List.range' 0 t.cmds.length) := by
  apply run_not_upToDate cfg H pr ht
  rw [isUpToDate_ts H pr hts]
  have : tsUp t s = false := tsUp_false_of_newer t s p hp hnew hpos
  simp only [this]
  cases t.status.isEmpty <;> simp

/-- non-vacuity of `C05_detect_timestamp_partial`: after the run at 10 a source written with mtime 15 -/
example :
    let s1 := applyOp prTs2 (.write 0 [9] 15) (invoke Cfg.fixed hId prTs2 0 .run (env 10) sTs2).1
    Ts tTs2 ∧ (0 : Path) ∈ srcsNow tTs2 s1.files ∧ (∀ m ∈ tsGts tTs2 s1, m < mtimeOf s1.files 0) ∧
    (invoke Cfg.fixed hId prTs2 0 .run (env 20) s1).2.ran = [0] := by
  refine ⟨⟨rfl, rfl⟩, by decide, by decide, by decide⟩

/-- **the former witness of `C05-timestamp-missing-generates`, now rebuilt** (TS1): run, delete the
generates file, run again — the second run is not skipped and executes the command (an instance of
`C05_missing_generates`; the marker exists, so before TS1 it alone supplied the time). -/
theorem C05_missing_generates_timestamp_fixed :
    let t : Task := { tTs with generates := [⟨false, [2]⟩], cmds := [⟨[(2, [9])], none, false⟩] }
    let pr : Proj := { prTs with tasks := [t] }
    let s1 := (invoke Cfg.fixed hId pr 0 .run (env 10) sMv).1
    let s2 := applyOp pr (.delete 2) s1
    ahas s1.files 2 = true ∧ aget s2.marks (tsKey t) = some 10 ∧ gensOk t s2.files = false ∧
    (invoke Cfg.fixed hId pr 0 .run (env 20) s2).2.skipped = false ∧
    (invoke Cfg.fixed hId pr 0 .run (env 20) s2).2.ran = [0] := by decide

/-- **Idempotence, method timestamp, full statement** (no condition on the status before the first
run) — what `C05_idem_timestamp` was before TS2 -/
def C05_idem_timestamp_full : Prop :=
  ∀ (cfg : Cfg) (H : Hashes) (pr : Proj) (i : Nat) (t : Task), pr.tasks[i]? = some t → t.method = .timestamp →
    t.sources.isEmpty = false → ∀ (e1 e2 : Env) (s0 : State),
    (invoke cfg H pr i .run e1 s0).2.exit = .ok →
    (∀ p ∈ srcsNow t (invoke cfg H pr i .run e1 s0).1.files, mtimeOf (invoke cfg H pr i .run e1 s0).1.files p ≤ e1.now) →
    gensOk t (invoke cfg H pr i .run e1 s0).1.files = true →
    (t.status.isEmpty = true ∨ statusOk t (invoke cfg H pr i .run e1 s0).1.files = true) →
    (invoke cfg H pr i .run e2 (invoke cfg H pr i .run e1 s0).1).2.ran = []

/- sources `[0]`, `status: test -f 1`; the single command rewrites the source and creates the status file -/
private def tSt : Task := { tTs with status := [1], cmds := [⟨[(0, [9]), (1, [1])], none, false⟩] }
private def prSt : Proj := { prTs with tasks := [tSt] }
private def sSt : State := { State.empty with files := [(0, ⟨[7], 5⟩)], marks := [(tsKey tSt, 8)] }

/-- **Counterexample to the full statement (a consequence of TS2)**: the marker (8) is newer than
the source (5) but the status command fails, so the task runs (at 10) — and because the TIMESTAMP
check said "up to date" the marker is not touched.  The command rewrites the source (mtime 10, not
newer than the run): the next run finds a source newer than the marker and runs again.  (The run
after that is skipped.  The unpatched checker touched the marker on every check.) -/
theorem C05_idem_timestamp_status_counterexample :
    let r1 := invoke Cfg.fixed hId prSt 0 .run (env 10) sSt
    tsUp tSt sSt = true ∧ statusOk tSt sSt.files = false ∧ r1.2.exit = .ok ∧ r1.2.ran = [0] ∧
    aget r1.1.marks (tsKey tSt) = some 8 ∧
    (∀ p ∈ srcsNow tSt r1.1.files, mtimeOf r1.1.files p ≤ 10) ∧ gensOk tSt r1.1.files = true ∧
    statusOk tSt r1.1.files = true ∧
    (invoke Cfg.fixed hId prSt 0 .run (env 20) r1.1).2.ran = [0] ∧
    (invoke Cfg.fixed hId prSt 0 .run (env 30) (invoke Cfg.fixed hId prSt 0 .run (env 20) r1.1).1).2.skipped = true := by
  decide

theorem C05_idem_timestamp_full_false : ¬ C05_idem_timestamp_full := by
  intro h
  have hc := C05_idem_timestamp_status_counterexample
  have := h Cfg.fixed hId prSt 0 tSt rfl rfl rfl (env 10) (env 20) sSt hc.2.2.1 hc.2.2.2.2.2.1 hc.2.2.2.2.2.2.1
    (Or.inr hc.2.2.2.2.2.2.2.1)
  rw [hc.2.2.2.2.2.2.2.2.1] at this
  cases this

/-! ## Ignored failures (F8C) and patterns with an unmatched field (F8E) -/

section
variable (cfg : Cfg) (H : Hashes) (pr : Proj)

/-- **a failure swallowed by the task's `ignore_error` is no failure of the task**: whichever command
fails, every command starts, the run exits `ok`, and (F8C) the stores are what the up-to-date check
left — the fingerprint is NOT removed.  With `C05_idem` the next run is skipped, like after any
successful run; the same holds for `ignore_error` on the failing command (`cmdLoop`, `Cmd.ignorable`). -/
theorem C05_ignored_failure_ok (i : Nat) (t : Task) (e : Env) (s : State) (hign : t.ignoreError = true)
    (hp : t.prompt = false ∨ e.yes = true) (hk : e.killAt = none) (hcan : e.cancelled = false)
    (hn : ∀ c ∈ t.cmds, c.need = none) :
    (runBody cfg H pr i t false e s).2.exit = .ok ∧
    (runBody cfg H pr i t false e s).2.ran = List.range' 0 t.cmds.length ∧
    (runBody cfg H pr i t false e s).1.sums = s.sums ∧ (runBody cfg H pr i t false e s).1.marks = s.marks := by
  have hl := cmdLoop_ignore_all e hk hcan t.cmds hn 0 (mkdirTask t s).files []
  have hcond : (t.prompt && !false && !e.yes) = false := by
    rcases hp with h | h <;> simp [h]
  have hx : (runBody cfg H pr i t false e s).2.exit = .ok ∧
      (runBody cfg H pr i t false e s).2.ran = List.range' 0 t.cmds.length := by
    unfold runBody
    simp only [hcond, Bool.false_eq_true, if_false, hign]
    rw [hl.2]
    simp [hl.1]
  have hst := runBody_ok cfg H pr i t e s hx.1
  exact ⟨hx.1, hx.2, hst.1, hst.2.1⟩

end

/- sources `[0]`; two commands, the first fails -/
private def tIg : Task := { tMv with sources := [⟨false, [0]⟩], cmds := [⟨[], none, false⟩, ⟨[], none, false⟩], ignoreError := true }
private def prIg : Proj := { prMv with tasks := [tIg] }

/-- the former witness of D-C05-ignore-error, now idempotent: the first command fails, the failure is
ignored, the run exits ok with both commands started — and the next run is SKIPPED (task-level and
command-level `ignore_error` alike; non-vacuity of `C05_ignored_failure_ok` and of `C05_idem` for a
run whose only failure was ignored) -/
theorem C05_ignored_failure_fixed :
    let e1 : Env := { env 10 with failAt := some 0 }
    let r1 := invoke Cfg.fixed hId prIg 0 .run e1 sMv
    r1.2.exit = .ok ∧ r1.2.ran = [0, 1] ∧ r1.1.sums ≠ [] ∧
    (invoke Cfg.fixed hId prIg 0 .run (env 20) r1.1).2.skipped = true ∧
    (let tc : Task := { tIg with ignoreError := false, cmds := [⟨[], none, true⟩, ⟨[], none, false⟩] }
     let prc : Proj := { prMv with tasks := [tc] }
     let rc := invoke Cfg.fixed hId prc 0 .run e1 sMv
     rc.2.exit = .ok ∧ rc.2.ran = [0, 1] ∧ (invoke Cfg.fixed hId prc 0 .run (env 20) rc.1).2.skipped = true) := by
  decide

/-- **HISTORICAL (before F8C — NOT the tree any more)**: the clean-up of a failed run (`onError`) was
applied although the failure was ignored: from THAT state the next run is not skipped — the task ran
on every invocation -/
theorem C05_ignored_failure_old_rule :
    let e1 : Env := { env 10 with failAt := some 0 }
    let r1 := invoke Cfg.fixed hId prIg 0 .run e1 sMv
    (invoke Cfg.fixed hId prIg 0 .run (env 20) (onError tIg r1.1)).2.skipped = false ∧
    (invoke Cfg.fixed hId prIg 0 .run (env 20) (onError tIg r1.1)).2.ran = [0, 1] := by decide

/-- **whether a path is a source does not depend on other files** (what F8E makes true of the code:
a field of the expanded pattern that cannot be stat'ed — `b.e` of `{a,b}.e`, a dangling link — is
skipped, it does not take the pattern with it): two trees that agree on whether `p` exists agree on
whether `p` is a source. -/
theorem C05_match_independent (t : Task) (fs fs' : FS) (p : Path) (h : ahas fs' p = ahas fs p) :
    p ∈ srcsNow t fs' ↔ p ∈ srcsNow t fs := by
  rw [mem_srcsNow, mem_srcsNow, h]

/-- the former witness of D-C05-glob-drop: the pattern matches paths 0 and 1 (`{a,b}.e`), only 0
exists: it IS a source, and editing it makes the next run execute the command -/
theorem C05_unmatched_field_fixed :
    let s1 := (invoke Cfg.fixed hId prMv 0 .run (env 10) sMv).1
    srcsNow tMv sMv.files = [0] ∧ (invoke Cfg.fixed hId prMv 0 .run (env 20) s1).2.skipped = true ∧
    (invoke Cfg.fixed hId prMv 0 .run (env 20) (applyOp prMv (.write 0 [8] 15) s1)).2.ran = [0] := by decide

/-- the former witness of D-C05-force, now idempotent (both methods): `--force`, then a plain run —
skipped; **HISTORICAL** (`runBody` started from the state before the check — the tree before F8F): from
THAT state the plain run executes the command again -/
theorem C05_force_then_run_fixed :
    let r1 := invoke Cfg.fixed hId prMv 0 .force (env 10) sMv
    r1.2.exit = .ok ∧ r1.2.ran = [0] ∧ (invoke Cfg.fixed hId prMv 0 .run (env 20) r1.1).2.skipped = true ∧
    (let rt := invoke Cfg.fixed hId prTs 0 .force (env 10) sMv
     rt.2.ran = [0] ∧ (invoke Cfg.fixed hId prTs 0 .run (env 20) rt.1).2.skipped = true) ∧
    (invoke Cfg.fixed hId prMv 0 .run (env 20) (runBody Cfg.fixed hId prMv 0 tMv false (env 10) sMv).1).2.ran = [0] := by
  decide

/-! ## non-vacuity of the idempotence and forcing theorems -/

example :
    let r1 := invoke Cfg.fixed hId prMv 0 .run (env 10) sMv
    r1.2.exit = .ok ∧ r1.2.ran = [0] ∧ fpNow hId prMv tMv r1.1.files = fpNow hId prMv tMv sMv.files ∧
    gensOk tMv r1.1.files = true ∧ (invoke Cfg.fixed hId prMv 0 .run (env 20) r1.1).2.ran = [] := by decide

example : Calm tMv (env 3) := ⟨Or.inl rfl, rfl, rfl, ⟨rfl, rfl⟩, by decide⟩

/-- non-vacuity of `C05_idem_timestamp`: a first run that executes (marker at 10, generates written)
and one with a `status:` that holds before and after; `C05_missing_generates` for method timestamp:
`gensOk` is false on a state where the marker alone would vouch -/
example :
    let t : Task := { tTs with generates := [⟨false, [2]⟩], cmds := [⟨[(2, [9])], none, false⟩] }
    let pr : Proj := { prTs with tasks := [t] }
    let r1 := invoke Cfg.fixed hId pr 0 .run (env 10) sMv
    r1.2.exit = .ok ∧ r1.2.ran = [0] ∧ (∀ p ∈ srcsNow t r1.1.files, mtimeOf r1.1.files p ≤ 10) ∧
    gensOk t r1.1.files = true ∧ (t.status.isEmpty = true ∨ statusOk t sMv.files = true) ∧
    (invoke Cfg.fixed hId pr 0 .run (env 20) r1.1).2.ran = [] ∧
    gensOk t (applyOp pr (.delete 2) r1.1).files = false ∧ t.method ≠ .none := by decide

end Props.C05
