import TaskModel.Finger.StreamLemmas
import TaskModel.Finger.Facts
/-!
# C05 — change detection and idempotence of fingerprinted tasks

Model: `TaskModel.Finger` (`globs`, `stream`, `invoke`).  The hash `H` is a parameter;
"same hash ⇒ same stream" is the explicit hypothesis `HashInj` on the two streams involved.
What one glob pattern matches is an oracle (`Pat.ms`); the COMBINATION is `globs`.

* `C05_globs` — `Globs` = strictly sorted `{p | the last pattern matching p is positive}`.
* `C05_idem` — after a successful run with nothing changed the next run executes nothing.
* `C05_force`, `C05_missing_generates`, `C05_status_fails` — each forces a run.
* `C05_detect_checksum` — edit / add / remove / rename-in-place of a matched file changes
  the byte stream, hence (`HashInj`) the fingerprint, hence the task reruns (`C05_detect_rerun`).
* `C05_mtime` — checksum does not look at mtimes; timestamp does.
* `C05_counterexample` (defect 8) — moving a file to another directory (same base name, same
  content, both matched) is NOT detected; `C05_counterexample_undelimited`: a rename plus an
  edit can collide because name and content are hashed without a delimiter;
  `C05_missing_generates_timestamp_counterexample` — method timestamp does not notice a
  deleted `generates` file once its marker exists (new finding).
  `C05_detect_partial` is the detection theorem for the single-change classes that do hold.
-/
namespace Props.C05
open TaskModel.Finger

/-! ## Globs -/

/-- **Globs**: for every pattern list (each pattern = negate bit + what it matches), a path
is in the result iff the LAST pattern matching it is positive ("exclude entries in order");
the result is strictly increasing (sorted, no duplicates). -/
theorem C05_globs (pats : List Pat) :
    (∀ p, p ∈ globs pats ↔ lastFlag pats p = some true) ∧
    (globs pats).Pairwise (· < ·) ∧ (globs pats).Nodup :=
  ⟨mem_globs pats, strictSorted_globs pats, (strictSorted_globs pats).nodup⟩

/-- … and against the file system: a path is a source now iff it exists and the last source
pattern that would match it is positive. -/
theorem C05_globs_now (t : Task) (fs : FS) (p : Path) :
    p ∈ srcsNow t fs ↔ ahas fs p = true ∧ lastFlag t.sources p = some true :=
  mem_srcsNow t fs p

example : globs [⟨false, [3, 1, 2]⟩, ⟨true, [2, 5]⟩, ⟨false, [5]⟩, ⟨true, [7]⟩] = [1, 3, 5] := by decide

/-! ## Idempotence -/

section
variable (cfg : Cfg) (H : Bytes → Bytes) (pr : Proj)

/-- state after the up-to-date check of a `run` that exits `ok`: the stores are those the
check left (the body does not touch them) -/
theorem run_ok_stores {i : Nat} {t : Task} (ht : pr.tasks[i]? = some t) (e : Env) (s : State)
    (hok : (invoke cfg H pr i .run e s).2.exit = .ok) :
    (invoke cfg H pr i .run e s).1.sums = (isUpToDate H pr t false e.now s).1.sums ∧
    (invoke cfg H pr i .run e s).1.marks = (isUpToDate H pr t false e.now s).1.marks := by
  rw [invoke_run cfg H pr ht] at hok ⊢
  split
  · exact ⟨rfl, rfl⟩
  · rename_i hup
    rw [if_neg hup] at hok
    have := runBody_ok cfg H pr i t e _ hok
    exact ⟨this.1, this.2.1⟩

/-- **Idempotence, method checksum**: after a run that exited `ok`, if the commands left the
source stream as it was, the generates exist and the status (if any) holds, the next run
executes no command (it is skipped). -/
theorem C05_idem_checksum {i : Nat} {t : Task} (ht : pr.tasks[i]? = some t) (hm : t.method = .checksum)
    (hsrc : t.sources.isEmpty = false) (e1 e2 : Env) (s0 : State)
    (hok : (invoke cfg H pr i .run e1 s0).2.exit = .ok)
    (hfp : fpNow H pr t (invoke cfg H pr i .run e1 s0).1.files = fpNow H pr t s0.files)
    (hgen : gensOk t (invoke cfg H pr i .run e1 s0).1.files = true)
    (hst : t.status.isEmpty = true ∨ statusOk t (invoke cfg H pr i .run e1 s0).1.files = true) :
    (invoke cfg H pr i .run e2 (invoke cfg H pr i .run e1 s0).1).2.ran = [] ∧
    (invoke cfg H pr i .run e2 (invoke cfg H pr i .run e1 s0).1).2.skipped = true := by
  have hst1 := (run_ok_stores cfg H pr ht e1 s0 hok).1
  rw [isUpToDate_sources H pr hsrc] at hst1
  simp only [srcCheck, hm] at hst1
  have hstored := sumCheck_stored H pr t s0
  rw [← hst1, ← hfp] at hstored
  generalize (invoke cfg H pr i .run e1 s0).1 = s1 at *
  rw [invoke_run cfg H pr ht]
  have hup : (isUpToDate H pr t false e2.now s1).2 = true := by
    rw [isUpToDate_sources H pr hsrc]
    simp only [srcCheck, hm, sumCheck_result, hgen, hstored]
    rcases hst with h | h <;> simp [h]
  rw [if_pos hup]
  exact ⟨rfl, rfl⟩

/-- **Idempotence, method timestamp**, under the side condition that no source is newer than
the first run (mtime ≤ its clock). -/
theorem C05_idem_timestamp {i : Nat} {t : Task} (ht : pr.tasks[i]? = some t) (hm : t.method = .timestamp)
    (hsrc : t.sources.isEmpty = false) (e1 e2 : Env) (s0 : State)
    (hok : (invoke cfg H pr i .run e1 s0).2.exit = .ok)
    (hold : ∀ p ∈ srcsNow t (invoke cfg H pr i .run e1 s0).1.files,
      mtimeOf (invoke cfg H pr i .run e1 s0).1.files p ≤ e1.now)
    (hst : t.status.isEmpty = true ∨ statusOk t (invoke cfg H pr i .run e1 s0).1.files = true) :
    (invoke cfg H pr i .run e2 (invoke cfg H pr i .run e1 s0).1).2.ran = [] ∧
    (invoke cfg H pr i .run e2 (invoke cfg H pr i .run e1 s0).1).2.skipped = true := by
  have hst1 := (run_ok_stores cfg H pr ht e1 s0 hok).2
  rw [isUpToDate_sources H pr hsrc] at hst1
  simp only [srcCheck, hm] at hst1
  have hstored := tsCheck_stored t e1.now s0
  rw [← hst1] at hstored
  generalize (invoke cfg H pr i .run e1 s0).1 = s1 at *
  rw [invoke_run cfg H pr ht]
  have hts : (tsCheck t false e2.now s1).2 = true := by
    unfold tsCheck
    simp only [hstored, Bool.false_eq_true, if_false]
    rw [if_neg (by simp)]
    simp only [Bool.not_eq_true', List.any_eq_false, decide_eq_true_eq]
    intro p hp
    have h1 := hold p hp
    have h2 : e1.now ≤ maxOf (List.map (mtimeOf s1.files) (globs (nowPats t.generates s1.files)) ++ [e1.now]) :=
      le_maxOf _ _ (by simp)
    omega
  have hup : (isUpToDate H pr t false e2.now s1).2 = true := by
    rw [isUpToDate_sources H pr hsrc]
    simp only [srcCheck, hm, hts]
    rcases hst with h | h <;> simp [h]
  rw [if_pos hup]
  exact ⟨rfl, rfl⟩

/-- **C05_idem**, both methods. -/
theorem C05_idem {i : Nat} {t : Task} (ht : pr.tasks[i]? = some t) (hmeth : t.method ≠ .none)
    (hsrc : t.sources.isEmpty = false) (e1 e2 : Env) (s0 : State)
    (hok : (invoke cfg H pr i .run e1 s0).2.exit = .ok)
    (hunch : match t.method with
      | .checksum => fpNow H pr t (invoke cfg H pr i .run e1 s0).1.files = fpNow H pr t s0.files ∧
                     gensOk t (invoke cfg H pr i .run e1 s0).1.files = true
      | .timestamp => ∀ p ∈ srcsNow t (invoke cfg H pr i .run e1 s0).1.files,
                        mtimeOf (invoke cfg H pr i .run e1 s0).1.files p ≤ e1.now
      | .none => True)
    (hst : t.status.isEmpty = true ∨ statusOk t (invoke cfg H pr i .run e1 s0).1.files = true) :
    (invoke cfg H pr i .run e2 (invoke cfg H pr i .run e1 s0).1).2.ran = [] := by
  cases hm : t.method with
  | checksum =>
    rw [hm] at hunch
    exact (C05_idem_checksum cfg H pr ht hm hsrc e1 e2 s0 hok hunch.1 hunch.2 hst).1
  | timestamp =>
    rw [hm] at hunch
    exact (C05_idem_timestamp cfg H pr ht hm hsrc e1 e2 s0 hok hunch hst).1
  | none => exact absurd hm hmeth

/-! ## What forces a run -/

/-- the prompt (if any) is answered yes and nothing interferes with the commands -/
def Calm (t : Task) (e : Env) : Prop := (t.prompt = false ∨ e.yes = true) ∧ e.killAt = none ∧ e.failAt = none

theorem runBody_calm (i : Nat) (t : Task) (e : Env) (s : State) (hc : Calm t e) :
    (runBody cfg H pr i t false e s).2.ran = List.range' 0 t.cmds.length ∧
    (runBody cfg H pr i t false e s).2.exit = .ok ∧ (runBody cfg H pr i t false e s).2.skipped = false := by
  obtain ⟨hp, hk, hf⟩ := hc
  have hl := cmdLoop_clean e hk hf t.cmds 0 (mkdirTask t s).files []
  unfold runBody
  have hcond : (t.prompt && !false && !e.yes) = false := by
    rcases hp with h | h <;> simp [h]
  simp only [hcond, Bool.false_eq_true, if_false]
  rw [hl.2]
  simp [hl.1]

/-- **--force** runs every command, whatever the fingerprint state says. -/
theorem C05_force {i : Nat} {t : Task} (ht : pr.tasks[i]? = some t) (e : Env) (s : State) (hc : Calm t e) :
    (invoke cfg H pr i .force e s).2.ran = List.range' 0 t.cmds.length ∧
    (invoke cfg H pr i .force e s).2.skipped = false := by
  rw [invoke_force cfg H pr ht]
  exact ⟨(runBody_calm cfg H pr i t e s hc).1, (runBody_calm cfg H pr i t e s hc).2.2⟩

/-- a `run` that is not up to date enters the body: not skipped, and (if calm) every command runs -/
theorem run_not_upToDate {i : Nat} {t : Task} (ht : pr.tasks[i]? = some t) (e : Env) (s : State)
    (h : (isUpToDate H pr t false e.now s).2 = false) :
    (invoke cfg H pr i .run e s).2.skipped = false ∧
    (Calm t e → (invoke cfg H pr i .run e s).2.ran = List.range' 0 t.cmds.length) := by
  rw [invoke_run cfg H pr ht, h]
  simp only [Bool.false_eq_true, if_false]
  constructor
  · unfold runBody
    simp only
    split
    · rfl
    · simp only [Bool.false_eq_true, if_false]
      split <;> rfl
  · intro hc
    exact (runBody_calm cfg H pr i t e _ hc).1

/-- **Missing generates** (method checksum): some non-negated `generates` pattern matches
nothing ⇒ the task runs. -/
theorem C05_missing_generates {i : Nat} {t : Task} (ht : pr.tasks[i]? = some t) (hm : t.method = .checksum)
    (hsrc : t.sources.isEmpty = false) (e : Env) (s : State) (hg : gensOk t s.files = false) :
    (invoke cfg H pr i .run e s).2.skipped = false ∧
    (Calm t e → (invoke cfg H pr i .run e s).2.ran = List.range' 0 t.cmds.length) := by
  apply run_not_upToDate cfg H pr ht
  rw [isUpToDate_sources H pr hsrc]
  simp only [srcCheck, hm, sumCheck_result, hg]
  cases t.status.isEmpty <;> simp

/-- **Failing status** ⇒ the task runs (any method, with or without sources). -/
theorem C05_status_fails {i : Nat} {t : Task} (ht : pr.tasks[i]? = some t) (hst : t.status.isEmpty = false)
    (e : Env) (s : State) (hf : statusOk t s.files = false) :
    (invoke cfg H pr i .run e s).2.skipped = false ∧
    (Calm t e → (invoke cfg H pr i .run e s).2.ran = List.range' 0 t.cmds.length) :=
  run_not_upToDate cfg H pr ht e s (isUpToDate_status_fails H pr hst hf false e.now)

/-! ## Detection, method checksum -/

/-- the explicit hypothesis about the uninterpreted hash, for the two streams involved -/
def HashInj (H : Bytes → Bytes) (a b : Bytes) : Prop := H a = H b → a = b

/-- **A changed stream forces a run** (under `HashInj` for the stored and the present stream). -/
theorem C05_detect_rerun {i : Nat} {t : Task} (ht : pr.tasks[i]? = some t) (hm : t.method = .checksum)
    (hsrc : t.sources.isEmpty = false) (e : Env) (s : State) (old : Bytes)
    (hstored : aget s.sums (sumKey t) = some (H old))
    (hne : stream pr s.files (srcsNow t s.files) ≠ old)
    (hinj : HashInj H (stream pr s.files (srcsNow t s.files)) old) :
    (invoke cfg H pr i .run e s).2.skipped = false ∧
    (Calm t e → (invoke cfg H pr i .run e s).2.ran = List.range' 0 t.cmds.length) := by
  apply run_not_upToDate cfg H pr ht
  rw [isUpToDate_sources H pr hsrc]
  have : ¬ (H old = fpNow H pr t s.files) := fun h => hne (hinj h.symm)
  simp only [srcCheck, hm, sumCheck_result, hstored, Option.some.injEq, this]
  cases t.status.isEmpty <;> simp

end

/-- **Edit**: changing the content of one matched file changes the stream. -/
theorem C05_detect_edit (pr : Proj) (t : Task) (fs : FS) (p : Path) (f : File)
    (hp : p ∈ srcsNow t fs) (hne : f.content ≠ contentOf fs p) :
    stream pr (aset fs p f) (srcsNow t (aset fs p f)) ≠ stream pr fs (srcsNow t fs) := by
  have hex : ahas fs p = true := ((mem_srcsNow t fs p).mp hp).1
  have hsame : srcsNow t (aset fs p f) = srcsNow t fs := by
    apply strictSorted_ext _ _ (strictSorted_srcsNow t _) (strictSorted_srcsNow t _)
    intro q
    rw [mem_srcsNow, mem_srcsNow, ahas_aset]
    by_cases hq : p = q
    · subst hq; simp [hex]
    · simp [hq]
  rw [hsame]
  apply stream_edit pr fs (aset fs p f) _ p (strictSorted_srcsNow t fs).nodup hp
  · unfold contentOf; rw [aget_aset_self]; exact hne
  · intro q hq
    exact contentOf_aset_ne fs p q f (fun e => hq e.symm)

/-- **Add**: a new file matched by the sources changes the stream (its base name is not empty). -/
theorem C05_detect_add (pr : Proj) (t : Task) (fs : FS) (q : Path) (f : File)
    (hnew : ahas fs q = false) (hm : lastFlag t.sources q = some true) (hb : baseOf pr q ≠ []) :
    stream pr (aset fs q f) (srcsNow t (aset fs q f)) ≠ stream pr fs (srcsNow t fs) := by
  rw [srcsNow_add t fs q f hnew hm]
  intro heq
  have hl := congrArg List.length heq
  rw [stream_length_insertSorted] at hl
  have hq : q ∉ srcsNow t fs := by rw [mem_srcsNow]; simp [hnew]
  have hc : stream pr (aset fs q f) (srcsNow t fs) = stream pr fs (srcsNow t fs) :=
    stream_congr pr fs _ _ (fun p hp => contentOf_aset_ne fs q p f (fun e => hq (e ▸ hp)))
  rw [hc] at hl
  have : (baseOf pr q).length ≠ 0 := fun h => hb (List.eq_nil_of_length_eq_zero h)
  omega

/-- **Remove**: deleting a matched file changes the stream. -/
theorem C05_detect_remove (pr : Proj) (t : Task) (fs : FS) (q : Path)
    (hq : q ∈ srcsNow t fs) (hb : baseOf pr q ≠ []) :
    stream pr (adel fs q) (srcsNow t (adel fs q)) ≠ stream pr fs (srcsNow t fs) := by
  rw [srcsNow_remove t fs q hq]
  intro heq
  have hl := congrArg List.length heq
  rw [stream_length_insertSorted] at hl
  have hq' : q ∉ srcsNow t (adel fs q) := by rw [mem_srcsNow, ahas_adel]; simp
  have hc : stream pr (adel fs q) (srcsNow t (adel fs q)) = stream pr fs (srcsNow t (adel fs q)) :=
    stream_congr pr fs _ _ (fun p hp => contentOf_adel_ne fs q p (fun e => hq' (e ▸ hp)))
  rw [hc] at hl
  have : (baseOf pr q).length ≠ 0 := fun h => hb (List.eq_nil_of_length_eq_zero h)
  omega

/-- **Rename in place**: a file replaced, at the same position of the sorted source list, by one
with the same content and another base name changes the stream. -/
theorem C05_detect_rename_in_place (pr : Proj) (fs fs' : FS) (l₁ l₂ : List Path) (p q : Path)
    (h1 : ∀ x ∈ l₁, contentOf fs' x = contentOf fs x) (h2 : ∀ x ∈ l₂, contentOf fs' x = contentOf fs x)
    (hc : contentOf fs' q = contentOf fs p) (hb : baseOf pr q ≠ baseOf pr p) :
    stream pr fs' (l₁ ++ q :: l₂) ≠ stream pr fs (l₁ ++ p :: l₂) :=
  stream_replace pr fs fs' l₁ l₂ p q h1 h2 hc hb

/-- **C05_detect_checksum**: edit, addition and removal of a matched file each change the byte
stream fed to the hash. -/
theorem C05_detect_checksum (pr : Proj) (t : Task) (fs : FS) :
    (∀ p f, p ∈ srcsNow t fs → f.content ≠ contentOf fs p →
      stream pr (aset fs p f) (srcsNow t (aset fs p f)) ≠ stream pr fs (srcsNow t fs)) ∧
    (∀ q f, ahas fs q = false → lastFlag t.sources q = some true → baseOf pr q ≠ [] →
      stream pr (aset fs q f) (srcsNow t (aset fs q f)) ≠ stream pr fs (srcsNow t fs)) ∧
    (∀ q, q ∈ srcsNow t fs → baseOf pr q ≠ [] →
      stream pr (adel fs q) (srcsNow t (adel fs q)) ≠ stream pr fs (srcsNow t fs)) :=
  ⟨fun p f => C05_detect_edit pr t fs p f, fun q f => C05_detect_add pr t fs q f,
   fun q => C05_detect_remove pr t fs q⟩

/-! ## Full detection is false: directory moves, undelimited stream -/

/-- the full statement: whenever the set of (path, content) of the matched files differs, the
stream differs -/
def C05_detect_full : Prop :=
  ∀ (pr : Proj) (t : Task) (fs fs' : FS),
    (srcsNow t fs).map (fun p => (p, contentOf fs p)) ≠ (srcsNow t fs').map (fun p => (p, contentOf fs' p)) →
    stream pr fs (srcsNow t fs) ≠ stream pr fs' (srcsNow t fs')

/- witness: paths 0 = `d/a.e`, 1 = `e/a.e` (same base name `a.e`), sources `**/*.e` -/
private def tMv : Task :=
  { name := [120], label := [], method := .checksum, sources := [⟨false, [0, 1]⟩], generates := [],
    status := [], prompt := false, dir := none, cmds := [⟨[]⟩] }
private def prMv : Proj := { base := [(0, [97, 46, 101]), (1, [97, 46, 101])], dirOf := [], tasks := [tMv] }
private def sMv : State := { State.empty with files := [(0, ⟨[7], 5⟩)] }
private def env (n : Nat) : Env := ⟨n, true, none, none⟩

/-- **Counterexample (defect 8)**: run, move the file to the other directory, run again — the
second run is skipped although a matched source was removed and another one added. -/
theorem C05_counterexample :
    let s1 := (invoke Cfg.fixed id prMv 0 .run (env 10) sMv).1
    let s2 := applyOp prMv (.move 0 1) s1
    (invoke Cfg.fixed id prMv 0 .run (env 10) sMv).2.ran = [0] ∧
    srcsNow tMv s1.files = [0] ∧ srcsNow tMv s2.files = [1] ∧
    stream prMv s2.files (srcsNow tMv s2.files) = stream prMv s1.files (srcsNow tMv s1.files) ∧
    (invoke Cfg.fixed id prMv 0 .run (env 20) s2).2.skipped = true := by decide

theorem C05_detect_full_false : ¬ C05_detect_full := by
  intro h
  exact h prMv tMv [(0, ⟨[7], 5⟩)] [(1, ⟨[7], 5⟩)] (by decide) (by decide)

/- base names `ab`/`a`, contents `c`/`bc`: name and content are hashed back to back -/
private def prUd : Proj := { base := [(0, [97, 98]), (1, [97])], dirOf := [], tasks := [tMv] }

/-- the un-delimited `base ++ content` stream lets a rename plus an edit collide -/
theorem C05_counterexample_undelimited :
    stream prUd [(0, ⟨[99], 5⟩)] (srcsNow tMv [(0, ⟨[99], 5⟩)]) =
    stream prUd [(1, ⟨[98, 99], 5⟩)] (srcsNow tMv [(1, ⟨[98, 99], 5⟩)]) := by decide

/-- **Partial**: single changes (edit of one file, one file added, one file removed) are detected;
with `C05_detect_rerun` this gives a rerun under `HashInj`. -/
theorem C05_detect_partial (pr : Proj) (t : Task) (fs : FS) (hbase : ∀ q, baseOf pr q ≠ []) :
    (∀ p f, p ∈ srcsNow t fs → f.content ≠ contentOf fs p →
      stream pr (aset fs p f) (srcsNow t (aset fs p f)) ≠ stream pr fs (srcsNow t fs)) ∧
    (∀ q f, ahas fs q = false → lastFlag t.sources q = some true →
      stream pr (aset fs q f) (srcsNow t (aset fs q f)) ≠ stream pr fs (srcsNow t fs)) ∧
    (∀ q, q ∈ srcsNow t fs →
      stream pr (adel fs q) (srcsNow t (adel fs q)) ≠ stream pr fs (srcsNow t fs)) :=
  ⟨fun p f => C05_detect_edit pr t fs p f, fun q f h1 h2 => C05_detect_add pr t fs q f h1 h2 (hbase q),
   fun q h => C05_detect_remove pr t fs q h (hbase q)⟩

/-- non-vacuity of the detection hypotheses: an edit, an add and a remove on a concrete tree -/
example : (0 : Path) ∈ srcsNow tMv sMv.files ∧ ahas sMv.files 1 = false ∧ lastFlag tMv.sources 1 = some true ∧
    baseOf prMv 1 ≠ [] := by decide

/-! ## mtimes -/

/-- change every mtime arbitrarily -/
def retime (g : Path → Nat → Nat) (fs : FS) : FS := fs.map (fun kv => (kv.1, { kv.2 with mtime := g kv.1 kv.2.mtime }))

theorem aget_retime (g : Path → Nat → Nat) (fs : FS) (p : Path) :
    aget (retime g fs) p = (aget fs p).map (fun f => { f with mtime := g p f.mtime }) := by
  induction fs with
  | nil => rfl
  | cons kv fs ih =>
    obtain ⟨k, f⟩ := kv
    simp only [retime, List.map_cons, aget] at ih ⊢
    by_cases hk : k = p
    · subst hk; simp
    · simp [hk, ih]

theorem ahas_retime (g : Path → Nat → Nat) (fs : FS) : ahas (retime g fs) = ahas fs := by
  funext p
  unfold ahas
  rw [aget_retime]
  cases aget fs p <;> rfl

theorem contentOf_retime (g : Path → Nat → Nat) (fs : FS) (p : Path) : contentOf (retime g fs) p = contentOf fs p := by
  unfold contentOf
  rw [aget_retime]
  cases aget fs p <;> rfl

/-- **C05_mtime (checksum)**: the verdict of the checksum check, what it stores, and the
status/generates tests do not depend on any modification time. -/
theorem C05_mtime_checksum (H : Bytes → Bytes) (pr : Proj) (t : Task) (hm : t.method = .checksum)
    (g : Path → Nat → Nat) (dry : Bool) (now : Nat) (s : State) :
    (isUpToDate H pr t dry now { s with files := retime g s.files }).2 = (isUpToDate H pr t dry now s).2 ∧
    (isUpToDate H pr t dry now { s with files := retime g s.files }).1.sums = (isUpToDate H pr t dry now s).1.sums := by
  have hsrc : srcsNow t (retime g s.files) = srcsNow t s.files := by
    unfold srcsNow nowPats; rw [ahas_retime]
  have hfp : fpNow H pr t (retime g s.files) = fpNow H pr t s.files := by
    unfold fpNow
    rw [hsrc, stream_congr pr s.files _ _ (fun p _ => contentOf_retime g s.files p)]
  have hgen : gensOk t (retime g s.files) = gensOk t s.files := by
    unfold gensOk; rw [ahas_retime]
  have hst : statusOk t (retime g s.files) = statusOk t s.files := by
    unfold statusOk; rw [ahas_retime]
  unfold isUpToDate srcCheck sumCheck
  simp only [hm, hfp, hgen, hst]
  cases t.sources.isEmpty <;> cases t.status.isEmpty <;> cases dry <;>
    (by_cases h : aget s.sums (sumKey t) = some (fpNow H pr t s.files) <;> simp [h])

/- timestamp: one source, marker present -/
private def tTs : Task := { tMv with method := .timestamp, sources := [⟨false, [0]⟩] }
private def prTs : Proj := { prMv with tasks := [tTs] }

/-- **C05_mtime (timestamp)**: the same tree with only a newer mtime on the source is rebuilt,
while method checksum on that tree is still skipped. -/
theorem C05_mtime_timestamp :
    let s1 := (invoke Cfg.fixed id prTs 0 .run (env 10) sMv).1
    let s1c := (invoke Cfg.fixed id prMv 0 .run (env 10) sMv).1
    (invoke Cfg.fixed id prTs 0 .run (env 20) s1).2.skipped = true ∧
    (invoke Cfg.fixed id prTs 0 .run (env 20) (applyOp prTs (.touch 0 15) s1)).2.ran = [0] ∧
    (invoke Cfg.fixed id prMv 0 .run (env 20) (applyOp prMv (.touch 0 15) s1c)).2.skipped = true := by decide

/-- a source strictly newer than every generate and the marker makes the timestamp check fail -/
theorem C05_timestamp_newer_reruns (t : Task) (dry : Bool) (now : Nat) (s : State) (p : Path)
    (hp : p ∈ srcsNow t s.files) (hnew : ∀ m ∈ tsGts t s, m < mtimeOf s.files p) (hpos : 0 < mtimeOf s.files p) :
    (tsCheck t dry now s).2 = false := by
  rw [tsCheck_result]
  have : (srcsNow t s.files).any (fun p => decide (maxOf (tsGts t s) < mtimeOf s.files p)) = true := by
    rw [List.any_eq_true]
    exact ⟨p, hp, decide_eq_true (foldl_max_lt (tsGts t s) 0 _ hpos hnew)⟩
  simp [this]

/-- **Counterexample (new finding)**: method timestamp does not notice a deleted `generates`
file once the marker exists — the run after the deletion is skipped. -/
theorem C05_missing_generates_timestamp_counterexample :
    let t : Task := { tTs with generates := [⟨false, [2]⟩], cmds := [⟨[(2, [9])]⟩] }
    let pr : Proj := { prTs with tasks := [t] }
    let s1 := (invoke Cfg.fixed id pr 0 .run (env 10) sMv).1
    let s2 := applyOp pr (.delete 2) s1
    ahas s1.files 2 = true ∧ gensOk t s2.files = false ∧
    (invoke Cfg.fixed id pr 0 .run (env 20) s2).2.skipped = true := by decide

/-! ## non-vacuity of the idempotence and forcing theorems -/

example :
    let r1 := invoke Cfg.fixed id prMv 0 .run (env 10) sMv
    r1.2.exit = .ok ∧ r1.2.ran = [0] ∧ fpNow id prMv tMv r1.1.files = fpNow id prMv tMv sMv.files ∧
    gensOk tMv r1.1.files = true ∧ (invoke Cfg.fixed id prMv 0 .run (env 20) r1.1).2.ran = [] := by decide

example : Calm tMv (env 3) := ⟨Or.inl rfl, rfl, rfl⟩

end Props.C05
