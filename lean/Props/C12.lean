import TaskModel.Finger.MachineLemmas
import TaskModel.Finger.Facts
import TaskModel.Finger.WriteSites
/-!
# C12 — query and dry-run modes have no side effects

`--dry`, `--status`, `--list-all --json`, `--list-all`, `--summary` never run a task's
commands and never change the project tree or the fingerprint state under `.task`;
consequently `H;R;K ≈ H;K` for every history `H`, read-only invocation `R` and
continuation `K`.

The model (`TaskModel.Finger.invoke`) is parameterised by `Cfg`, the three places where the
snapshot as found did something else (`ToEditorOutput` ran the checkers with `e.Dry`,
`RunTask` called `mkdir` also when dry, `statusOnError` removed the fingerprint also when dry —
reachable through a `task:` call whose precondition fails, `C12_dry_failing_call`).  The property demands `Cfg.fixed`; that the tree
under test is wired like `Cfg.fixed` is the content of `Facts.dryWiring_calls_ok` /
`Facts.dryWiring_guards_ok` (regenerated from the source on every run) and of
`wiring_is_fixed` below.  For `Cfg.found` the statement is false
(`C12_found_listjson_counterexample`, `C12_found_dry_mkdir_counterexample`).
Limits: `status:` commands and `sh:` variables do run in these modes by design; they are
modelled as pure tests (`test -f`).
-/
namespace Props.C12
open TaskModel.Finger

/-- the property, for a given wiring -/
def C12_full (cfg : Cfg) : Prop :=
  ∀ (H : Hashes) (pr : Proj) (i : Nat) (m : Mode) (e : Env) (s : State),
    m.readOnly = true →
      (invoke cfg H pr i m e s).1 = s ∧ (invoke cfg H pr i m e s).2.ran = []

/-- **C12 in full** for the wiring the property demands (and the patched tree has). -/
theorem C12_full_fixed : C12_full Cfg.fixed := by
  intro H pr i m e s hm
  exact invoke_readOnly Cfg.fixed H pr rfl rfl rfl i m e s hm

/-- **Continuation equivalence** `H;R;K ≈ H;K`: inserting a read-only invocation anywhere in a
history changes neither the final state nor any other step's observation. -/
theorem C12_continuation (H : Hashes) (pr : Proj) (h k : List Step) (i : Nat) (m : Mode) (e : Env)
    (s : State) (hm : m.readOnly = true) :
    let withR := runHist Cfg.fixed H pr (h ++ Step.inv i m e :: k) s
    let without := runHist Cfg.fixed H pr (h ++ k) s
    let sh := (runHist Cfg.fixed H pr h s).1
    withR.1 = without.1 ∧
    without.2 = (runHist Cfg.fixed H pr h s).2 ++ (runHist Cfg.fixed H pr k sh).2 ∧
    withR.2 = (runHist Cfg.fixed H pr h s).2 ++ some (invoke Cfg.fixed H pr i m e sh).2 :: (runHist Cfg.fixed H pr k sh).2 := by
  have hro := (invoke_readOnly Cfg.fixed H pr rfl rfl rfl i m e (runHist Cfg.fixed H pr h s).1 hm).1
  simp [runHist_append, runHist, step, hro]

/-- **the marker of method timestamp** (as patched by TS1–TS3: created when absent, touched when
the task is going to run, REMOVED by `OnError`): the read-only modes never create, touch or remove
it — nor any checksum —, whatever the environment does (declined prompt, failing command). -/
theorem C12_marker_untouched (H : Hashes) (pr : Proj) (i : Nat) (m : Mode) (e : Env) (s : State)
    (hm : m.readOnly = true) :
    (invoke Cfg.fixed H pr i m e s).1.marks = s.marks ∧ (invoke Cfg.fixed H pr i m e s).1.sums = s.sums := by
  rw [(C12_full_fixed H pr i m e s hm).1]
  exact ⟨rfl, rfl⟩

/-- … because the dry body never reaches `OnError`: for every task, environment and state the dry
body leaves the state alone and runs nothing — where the non-dry body would call `onError` (prompt
declined, command failing) and ALSO where the dry body itself fails: a `task:` call whose
precondition does not hold (`Cmd.blocked`), the one thing that fails although nothing is executed.
It then reports `failed`, as the real `--dry` does, and that is all. -/
theorem C12_dry_body_no_onError (H : Hashes) (pr : Proj) (i : Nat) (t : Task) (e : Env) (s : State) :
    (runBody Cfg.fixed H pr i t true e s).1 = s ∧ (runBody Cfg.fixed H pr i t true e s).2.ran = [] ∧
    (runBody Cfg.fixed H pr i t true e s).2.exit = if t.cmds.any (fun c => c.blocked s.files) then .failed else .ok :=
  ⟨(runBody_dry Cfg.fixed H pr rfl rfl i t e s).1, (runBody_dry Cfg.fixed H pr rfl rfl i t e s).2,
   runBody_dry_exit Cfg.fixed H pr rfl rfl i t e s⟩

/-- **a failing call under `--dry`** (TS4): the invocation exits `failed` — and changes nothing. -/
theorem C12_dry_failing_call (H : Hashes) (pr : Proj) {i : Nat} {t : Task} (ht : pr.tasks[i]? = some t)
    (e : Env) (s : State) (hce : checkErr t e s.files = false) (hno : (isUpToDate H pr t true e.now s).2 = false)
    (hb : t.cmds.any (fun c => c.blocked s.files) = true) :
    (invoke Cfg.fixed H pr i .dry e s).1 = s ∧ (invoke Cfg.fixed H pr i .dry e s).2.exit = .failed ∧
    (invoke Cfg.fixed H pr i .dry e s).2.ran = [] := by
  refine ⟨(C12_full_fixed H pr i .dry e s rfl).1, ?_, (C12_full_fixed H pr i .dry e s rfl).2⟩
  simp only [invoke, ht, hce, hno, Bool.false_eq_true, if_false, isUpToDate_dry]
  rw [runBody_dry_exit Cfg.fixed H pr rfl rfl i t e s, if_pos hb]

/-- `checker.OnError` is unreachable in dry mode WHATEVER the call site of `statusOnError` (TS4): its
only call — `OnError` on the value returned by `fingerprint.NewSourcesChecker`, whatever the local
that holds it is called — sits under `!(e.Dry)` in the regenerated guard table.  (The two call sites of
`statusOnError` itself — declined prompt, failed command — need no guard of their own any more.) -/
theorem onError_unreachable_when_dry :
    TaskModel.Gen.DryWiring.guards.filter (fun g => g.1 == "Executor.statusOnError:(fingerprint.NewSourcesChecker).OnError") =
      [("Executor.statusOnError:(fingerprint.NewSourcesChecker).OnError", "!(e.Dry)")] := by
  decide

/-- the dry wiring read off the regenerated tables -/
def cfgOfTables : Cfg :=
  { listDry := TaskModel.Gen.DryWiring.calls.any (fun c => c.1 == "Executor.ToEditorOutput:fingerprint.WithDry" && c.2 == "true"),
    dryMkdir := !TaskModel.Gen.DryWiring.guards.any (fun c => c.1 == "Executor.RunTask:e.mkdir" && c.2 == "!e.Dry"),
    dryOnError := !TaskModel.Gen.DryWiring.guards.any (fun c => c.1 == "Executor.statusOnError:(fingerprint.NewSourcesChecker).OnError" && c.2 == "!(e.Dry)") }

/-- the tree under test is wired as the property demands -/
theorem wiring_is_fixed : cfgOfTables = Cfg.fixed := by
  unfold cfgOfTables
  rw [Facts.dryWiring_calls_ok]
  decide

/-! ## The tree as found (`ee97f41`) violates the property in all three places -/

private def tX : Task :=
  { name := [120], label := [], method := .checksum, sources := [⟨false, [0]⟩], generates := [],
    status := [], prompt := false, dir := none, cmds := [⟨[], none, false⟩] }
private def tD : Task := { tX with dir := some 0, sources := [] }
private def prX : Proj := { base := [(0, [97])], dirOf := [], dirLen := [], tasks := [tX] }
private def prD : Proj := { base := [], dirOf := [], dirLen := [(0, 2)], tasks := [tD] }
private def s1 : State := { State.empty with files := [(0, ⟨[1], 5⟩)] }
private def env (n : Nat) : Env := ⟨n, false, none, none, false, true, false⟩

/-- defect 6 (F7): `--list --json` with non-dry checkers writes a checksum, and the next
normal run skips a task that never ran. -/
theorem C12_found_listjson_counterexample :
    let r := invoke Cfg.found hId prX 0 .listJson (env 10) s1
    r.1 ≠ s1 ∧ (invoke Cfg.found hId prX 0 .run (env 20) r.1).2.skipped = true ∧
      (invoke Cfg.found hId prX 0 .run (env 20) s1).2.skipped = false := by decide

/-- defect 16 (F11): `--dry` creates the missing `dir:`. -/
theorem C12_found_dry_mkdir_counterexample :
    (invoke Cfg.found hId prD 0 .dry (env 10) State.empty).1 ≠ State.empty := by decide

/- a task with a stored checksum whose second command is a `task:` call with precondition `test -f 1` -/
private def tC : Task := { tX with cmds := [⟨[], none, false⟩, ⟨[], some 1, false⟩] }
private def prC : Proj := { prX with base := [(0, [97]), (1, [98])], tasks := [tC] }
private def sC : State :=   -- after a successful run with file 1 present: file 1 removed, source edited
  applyOp prC (.write 0 [2] 7) (applyOp prC (.delete 1)
    (invoke Cfg.fixed hId prC 0 .run ⟨10, true, none, none, false, true, false⟩ { State.empty with files := [(0, ⟨[1], 5⟩), (1, ⟨[], 5⟩)] }).1)

/-- (TS4) the rule before the fix, in isolation (`dryOnError := true`, the other two as repaired): the
task ran once (checksum stored), the precondition's file is removed and a source edited; `--dry`
follows the call, the call fails, `statusOnError` DELETES the checksum although the run is dry.
With `Cfg.fixed` the same invocation reports `failed` and leaves the checksum where it was. -/
theorem C12_dry_onError_counterexample :
    sC.sums ≠ [] ∧
    (invoke { Cfg.fixed with dryOnError := true } hId prC 0 .dry (env 20) sC).1.sums = [] ∧
    (invoke { Cfg.fixed with dryOnError := true } hId prC 0 .dry (env 20) sC).2.exit = .failed ∧
    (invoke Cfg.fixed hId prC 0 .dry (env 20) sC).1 = sC ∧ (invoke Cfg.fixed hId prC 0 .dry (env 20) sC).2.exit = .failed ∧
    (isUpToDate hId prC tC true 20 sC).2 = false ∧ tC.cmds.any (fun c => c.blocked sC.files) = true := by decide

theorem C12_full_found_false : ¬ C12_full Cfg.found := by
  intro h
  exact C12_found_dry_mkdir_counterexample (h hId prD 0 .dry (env 10) State.empty rfl).1

/-- non-vacuity: on the same witnesses the repaired wiring leaves the state alone, and the
read-only modes are exercised on a state where a normal run would do something. -/
example : (invoke Cfg.fixed hId prX 0 .listJson (env 10) s1).1 = s1 ∧
    (invoke Cfg.fixed hId prD 0 .dry (env 10) State.empty).1 = State.empty ∧
    (invoke Cfg.fixed hId prX 0 .run (env 10) s1).1 ≠ s1 ∧
    (invoke Cfg.fixed hId prX 0 .run (env 10) s1).2.ran = [0] := by decide

/- method timestamp: a marker older than the source (3 < 5) -/
private def tT : Task := { tX with method := .timestamp }
private def prT : Proj := { prX with tasks := [tT] }
private def s3 : State := { s1 with marks := [(tsKey tT, 3)] }
private def envF (n : Nat) : Env := ⟨n, true, some 0, none, false, true, false⟩

/-- non-vacuity for the marker: a normal run CREATES it (no marker), TOUCHES it (stale marker) and —
when the command fails — REMOVES it; `--dry` (also with the failing command), `--status`,
`--list --json`, `--list`, `--summary` leave it exactly as it was -/
example :
    (invoke Cfg.fixed hId prT 0 .run (env 10) s1).1.marks = [(tsKey tT, 10)] ∧
    (invoke Cfg.fixed hId prT 0 .run ⟨10, true, none, none, false, true, false⟩ s3).1.marks = [(tsKey tT, 10)] ∧
    (invoke Cfg.fixed hId prT 0 .run (envF 10) s3).1.marks = [] ∧
    (invoke Cfg.fixed hId prT 0 .dry (env 10) s1).1 = s1 ∧
    (invoke Cfg.fixed hId prT 0 .dry (envF 10) s3).1 = s3 ∧ (invoke Cfg.fixed hId prT 0 .dry (envF 10) s3).2.ran = [] ∧
    (invoke Cfg.fixed hId prT 0 .status (envF 10) s3).1 = s3 ∧ (invoke Cfg.fixed hId prT 0 .listJson (envF 10) s3).1 = s3 ∧
    (invoke Cfg.fixed hId prT 0 .list (envF 10) s3).1 = s3 ∧ (invoke Cfg.fixed hId prT 0 .summary (envF 10) s3).1 = s3 := by
  decide

/-! ## Every writer of the module is accounted for

`Gen.WriteSites` lists every `os` call of the module that creates, changes or removes something in the file system;
each is dry-guarded in its own function, dry-guarded at every call site of its function, part of a non-query action,
or the remote-Taskfile cache (`TaskModel.Finger.WS`).  This is what makes the model's writers ALL the writers. -/

theorem write_sites_reviewed : TaskModel.Gen.WriteSites.sites.all TaskModel.Finger.WS.siteOk = true := by decide

/-- the table is the real one -/
theorem write_sites_nonempty : TaskModel.Gen.WriteSites.sites.length ≥ 12 := by decide

/-- non-vacuity: an unguarded writer, a writer in a new place, and a guarded function called once without the guard are rejected -/
example :
    TaskModel.Finger.WS.siteOk ("internal/fingerprint:ChecksumChecker.IsUpToDate", "os.WriteFile", ["‹string› != ‹string›"], []) = false ∧
    TaskModel.Finger.WS.siteOk ("internal/summary:PrintTask", "os.WriteFile", [], []) = false ∧
    TaskModel.Finger.WS.siteOk ("task:Executor.mkdir", "os.MkdirAll", [], [("task:Executor.RunTask", ["!‹*task.Executor›.Dry"]), ("task:Executor.Status", [])]) = false := by decide

end Props.C12
