import TaskModel.Decode.Sites
import TaskModel.Decode.Outcome
/-!
# C16 — No input makes Task crash (partial by scope)

What is proved: every panic-capable expression of Task's own code on the load / merge /
list / compile / resolve path — the table `Gen.PanicSites`, regenerated from the current
source with type information on every run — is discharged by a recorded reason, and the
two non-obvious reasons (yaml mapping children come in pairs; the snippet bounds) are
lemmas.  A new unchecked index, slice, type assertion, Must* call or panic breaks
`all_panic_sites_discharged`.  Termination: the models of load/merge (`TaskModel.Load`,
C08/C09) and of the executor (`Props.C07.C07_terminates_all`) are total functions /
bounded.  What is not proved: yaml.v3, chroma, go-task/template and mvdan/sh themselves
never panic ("every byte sequence" reaches Task only through them).  Tie: correspondence
domain `decode` feeds node-shape-grammar documents, mutated real Taskfiles and unusual
line terminators to Setup / ListTasks / FastCompiledTask / GetTask under `recover()` and
a wall-clock bound; any panic or time-out is a violation with the document as replay.
-/
namespace Props.C16
open TaskModel.Decode

/-- **Every panic-capable site is accounted for.** -/
theorem all_panic_sites_discharged : TaskModel.Gen.PanicSites.sites.all isDischarged = true := by decide

/-- the table is the real one, not an empty list -/
theorem sites_nonempty : TaskModel.Gen.PanicSites.sites.length ≥ 40 := by decide

theorem C16_yaml_pairs (n i : Nat) (hn : n % 2 = 0) (hi : i % 2 = 0) (h : i < n) : i + 1 < n := mapping_pairs_in_range n i hn hi h

/-- a panic or a time-out is never an acceptable outcome; success and diagnosed errors are -/
theorem C16_outcomes : acceptable .panic = false ∧ acceptable .timeout = false ∧ acceptable .ok = true ∧ ∀ c, acceptable (.error c) = true :=
  ⟨rfl, rfl, rfl, fun _ => rfl⟩

end Props.C16
