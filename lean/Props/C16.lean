import TaskModel.Decode.Sites
import TaskModel.Decode.Outcome
/-!
# C16 — No input makes Task crash (partial by scope)

What is proved: every panic-capable expression of Task's own code on the load / merge /
list / compile / resolve path — the table `Gen.PanicSites`, regenerated from the current
source with type information on every run — is discharged by a recorded reason, and the
two non-obvious reasons (yaml mapping children come in pairs; the snippet bounds) are
lemmas.  A new unchecked index, slice, type assertion, Must* call, panic, or a loop that reads a field
through the element of a list of pointers without a nil guard (a null YAML list entry is a nil element) breaks
`all_panic_sites_discharged`; `compiled_lists_nil_free` pins which lists of the compiled task cannot hold one.  Termination: the models of load/merge (`TaskModel.Load`,
C08/C09) and of the executor (`Props.C07.C07_terminates_all`) are total functions /
bounded.  What is not proved: yaml.v3, chroma, go-task/template and mvdan/sh themselves
never panic ("every byte sequence" reaches Task only through them).  Tie: correspondence
domain `decode` feeds node-shape-grammar documents, mutated real Taskfiles and unusual
line terminators to Setup / ListTasks / FastCompiledTask / GetTask and — for the grammar's documents —
Run --dry, Run --dry --force --yes, Run --summary and Status of every task, under `recover()` and
a wall-clock bound; any panic or time-out is a violation with the document as replay.
-/
namespace Props.C16
open TaskModel.Decode

set_option maxRecDepth 4096 in
/-- **Every panic-capable site is accounted for.** -/
theorem all_panic_sites_discharged : TaskModel.Gen.PanicSites.sites.all isDischarged = true := by decide

/-- **The lists of the compiled task hold no nil element**, except the reviewed pass-through fields: every list-of-
pointers field `compiledTask` fills is filtered (nil entries skipped) or produced by `ReplaceGlobs`; `Platforms` is
handed over as it is and every loop over it guards (no `nilelem` site remains for it in `Gen.PanicSites`). -/
theorem compiled_lists_nil_free : compiledListsOk TaskModel.Gen.PanicSites.compiledLists = true := by decide

/-- the five list fields are all there (the fact is about the real function) -/
theorem compiled_lists_present :
    ["Cmds", "Deps", "Preconditions", "Sources", "Generates", "Platforms"].all
      (fun f => TaskModel.Gen.PanicSites.compiledLists.any (fun r => r.1 == f)) = true := by decide

/-- non-vacuity: a field passed through that is not reviewed, or a filtered field that loses its filter, is rejected -/
example : compiledListsOk [("Cmds", "pass")] = false ∧ compiledListsOk [("Deps", "call:append"), ("Deps", "call:make")] = false ∧
    compiledListsOk [("Platforms", "pass"), ("Cmds", "call:append"), ("Cmds", "filtered-nil")] = true := by decide

/-- the table is the real one, not an empty list -/
theorem sites_nonempty : TaskModel.Gen.PanicSites.sites.length ≥ 40 := by decide

theorem C16_yaml_pairs (n i : Nat) (hn : n % 2 = 0) (hi : i % 2 = 0) (h : i < n) : i + 1 < n := mapping_pairs_in_range n i hn hi h

/-- a panic or a time-out is never an acceptable outcome; success and diagnosed errors are -/
theorem C16_outcomes : acceptable .panic = false ∧ acceptable .timeout = false ∧ acceptable .ok = true ∧ ∀ c, acceptable (.error c) = true :=
  ⟨rfl, rfl, rfl, fun _ => rfl⟩

end Props.C16
