import TaskModel.Decode.Sites
import TaskModel.Decode.Outcome
/-!
# C16 — No input makes Task crash (partial by scope)

What is proved: every panic-capable expression of Task's own code on the load / merge /
list / compile / resolve path — the table `Gen.PanicSites`, regenerated from the current
source with type information on every run — is discharged by a recorded reason, and the
two non-obvious reasons (yaml mapping children come in pairs; the snippet bounds) are
lemmas.  A new unchecked index, slice, type assertion, Must* call, panic, or a loop that reads a field
through the element of a list of pointers without a nil guard (a null YAML list entry is a nil element) breaks
`all_panic_sites_discharged`; `compiled_lists_nil_free` pins which lists of the compiled task cannot hold one.  Termination: the models of load/merge (`TaskModel.Load`,
C08/C09) and of the executor (`Props.C07.C07_terminates_all`) are total functions /
bounded.  What is not proved: yaml.v3, chroma, go-task/template and mvdan/sh themselves
never panic ("every byte sequence" reaches Task only through them).  Tie: correspondence
domain `decode` feeds node-shape-grammar documents, mutated real Taskfiles and unusual
line terminators to Setup / ListTasks / FastCompiledTask / GetTask and — for the grammar's documents —
Run --dry, Run --dry --force --yes, Run --summary and Status of every task, under `recover()` and
a wall-clock bound; any panic or time-out is a violation with the document as replay.
-/
namespace Props.C16
open TaskModel.Decode

set_option maxRecDepth 8192 in
/-- **Every panic-capable site is accounted for** — by occurrence: a second expression of the same shape in the same
function is a site of its own, covered only if the recorded reason was extended to it. -/
theorem all_panic_sites_discharged : TaskModel.Gen.PanicSites.sites.all isDischarged = true := by decide

/-- non-vacuity: a further occurrence of a discharged shape is NOT discharged -/
example : isDischarged ("task:Executor.GetTask", "index", "‹[]*task.MatchingTask›[0]", 1) = true ∧
    isDischarged ("task:Executor.GetTask", "index", "‹[]*task.MatchingTask›[0]", 2) = false ∧
    isDischarged ("internal/fingerprint:Globs", "nilelem", "range ‹[]*ast.Glob›: ‹*ast.Glob›.Glob", 0) = false := by decide

/-- **The `compiled` reasons are facts, not comments**: every function whose loop over a list of a task is discharged by
"the task is the compiled one" gets that task, at every call site of the module (through at most three levels of
parameters), from `CompiledTask` / `FastCompiledTask` / `compiledTask` / `GetTaskList` — or the calling function is dead
code.  False of the tree before fix O8-3 for `fingerprint.Globs` (watch mode handed it the task from `GetTask`). -/
theorem compiled_reasons_checked : compiledConsumers.all (flowsOk 4) = true := by decide

theorem compiled_consumers_present : compiledConsumers.length ≥ 7 := by decide

/-- non-vacuity: the call that crashed (`Globs(dir, t.Sources)` with `t` from `GetTask`) would not pass, nor would a
consumer nobody calls with a compiled task -/
example : flowsOkIn [("internal/fingerprint:Globs", "task:Executor.watchTasks", "call", "task:Executor.GetTask"),
                     ("internal/fingerprint:Globs", "task:Executor.registerWatchedDirs", "call", "task:Executor.CompiledTask")]
            4 "internal/fingerprint:Globs" = false ∧
    flowsOkIn [] 4 "internal/summary:printTaskCommands" = false ∧
    flowsOkIn [("f", "g", "param", ""), ("g", "h", "call", "task:Executor.CompiledTask")] 4 "f" = true ∧
    flowsOkIn [("f", "g", "param", ""), ("g", "h", "other", "x")] 4 "f" = false := by decide

/-- **Every recursive function of the module has a recorded bound** (visited set, call counter, structural recursion
on a finite value, or a static cycle that cannot be taken): `Gen.PanicSites.recursive` is the regenerated list of the
functions on a cycle of the static call graph — a new one, or one whose name changed, breaks this.  (Loops are covered
by the total Lean models of load / merge and by `C07_terminates_all`.) -/
theorem all_recursion_bounded : TaskModel.Gen.PanicSites.recursive.all isBounded = true := by decide

theorem recursion_table_nonempty : TaskModel.Gen.PanicSites.recursive.length ≥ 10 := by decide

example : isBounded ("task:Executor.registerWatchedDirs·registerTaskDirs", "") = true ∧ isBounded ("task:someNewRecursion", "") = false := by decide

/-- **The lists of the compiled task hold no nil element**, except the reviewed pass-through fields: every list-of-
pointers field `compiledTask` fills is filtered (nil entries skipped) or produced by `ReplaceGlobs`; `Platforms` is
handed over as it is and every loop over it guards (no `nilelem` site remains for it in `Gen.PanicSites`). -/
theorem compiled_lists_nil_free : compiledListsOk TaskModel.Gen.PanicSites.compiledLists = true := by decide

/-- the five list fields are all there (the fact is about the real function) -/
theorem compiled_lists_present :
    ["Cmds", "Deps", "Preconditions", "Sources", "Generates", "Platforms"].all
      (fun f => TaskModel.Gen.PanicSites.compiledLists.any (fun r => r.1 == f)) = true := by decide

/-- non-vacuity: a field passed through that is not reviewed, or a filtered field that loses its filter, is rejected -/
example : compiledListsOk [("Cmds", "pass")] = false ∧ compiledListsOk [("Deps", "call:append"), ("Deps", "call:make")] = false ∧
    compiledListsOk [("Platforms", "pass"), ("Cmds", "call:append"), ("Cmds", "filtered-nil")] = true := by decide

/-- the table is the real one, not an empty list -/
theorem sites_nonempty : TaskModel.Gen.PanicSites.sites.length ≥ 40 := by decide

theorem C16_yaml_pairs (n i : Nat) (hn : n % 2 = 0) (hi : i % 2 = 0) (h : i < n) : i + 1 < n := mapping_pairs_in_range n i hn hi h

/-- a panic or a time-out is never an acceptable outcome; success is; an error is acceptable exactly when its code is a
DOCUMENTED one: a constant of errors/errors.go (`Gen.Codes.consts`) other than `CodeOk` -/
theorem C16_outcomes : acceptable .panic = false ∧ acceptable .timeout = false ∧ acceptable .ok = true ∧
    ∀ c, acceptable (.error c) = (c != 0 && TaskModel.Gen.Codes.consts.any (fun k => k.2 == c)) :=
  ⟨rfl, rfl, rfl, fun _ => rfl⟩

/-- non-vacuity: 102 (decode error), 200 (no such task), 1 (unknown) are documented; 2 (what the Go runtime exits with
after a panic), 137 (killed) and 0 (an "error" reported as success) are not -/
example : acceptable (.error 102) = true ∧ acceptable (.error 200) = true ∧ acceptable (.error 1) = true ∧
    acceptable (.error 2) = false ∧ acceptable (.error 137) = false ∧ acceptable (.error 0) = false := by decide

/-- every error type of the errors package carries a documented code -/
theorem error_types_documented :
    TaskModel.Gen.Codes.errorCodes.all (fun e => acceptable (.error e.2)) = true := by decide

end Props.C16
