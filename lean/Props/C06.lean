import Props.C06Key
import Props.SchedTie
import TaskModel.Sched.MonC06
import Props.C01
import TaskModel.Sched.MonVal
/-!
# C06 — run: once / when_changed / always execute the right number of times

What the executor model decides, for every accepted trace (all programs, flags,
interleavings): the deduplication table is write-once; per dedup key exactly one
activation (the one that `register`ed it) runs dependencies and commands, every other
activation that meets the key becomes a waiter, starts no command, returns only after the
registered execution has finished and returns that execution's result (success or
failure); a `run: always` task never touches the table: one body per reference.

*Which* key a reference gets is decided in `Props.C06Key` (imported here): keys are opaque
numbers in `Sched.Model` (the real executor logs the hash string `GetHash` computed);
`C06Key.key_full_iff` / `whenChanged_exact` prove that under a hash reaching the whole
compiled task two references share a key exactly when they are called with the same set of
variable values (including values that only reach `env:` or a sub-call's `vars:`), and
`C06Key.hash_reaches_all` ties that hypothesis to `hash.go` / `internal/hash` /
`taskfile/ast` through the regenerated `Gen.HashFields`.

Which statements say what (audit, session 3).  `C06_exec_only_by_register` restates the guards of `register` /
`waiter`.  Trace-level: `C06_once_key(_trace)`, `C06_one_body_per_key`, `C06_at_most_one_body`, `C06_always`,
`C06_waiters_observe_outcome`.  WHICH key a reference gets is not constrained by the acceptor at all:
`C06_key_discipline` / `C06_key_owner` give the meaning of the monitor `keyMon` (verdict `C06k`) evaluated on every
log, and `Props.C06Key` proves the shape of the key function.
-/
namespace Props.C06
open TaskModel.Sched

/-- **C06 (write-once table, trace form).** A dedup key is registered at most once in any
accepted trace. -/
theorem C06_once_key_trace (P : Program) (F : Flags) (n : Nat) (tr : List Label) (c : Config)
    (h : replay P F (init n) tr = some c) : regOnce tr [] = true :=
  regOnce_sound P F n tr c h

/-- **C06 (write-once table, state form).** In any reachable configuration at most one
activation carries a given key: the one `execs` binds it to. -/
theorem C06_once_key (P : Program) (F : Flags) (n : Nat) (tr : List Label) (c : Config)
    (h : replay P F (init n) tr = some c) (a b : Nat) (x y : Act) (k : Nat)
    (hx : c.act? a = some x) (hy : c.act? b = some y) (hkx : x.key = some k) (hky : y.key = some k) :
    a = b ∧ c.execs.lookup k = some a := by
  have hD := DedupInv_reachable P F n tr c h
  have h1 := hD.execs.owner a x k hx hkx
  have h2 := hD.execs.owner b y k hy hky
  rw [h1] at h2
  exact ⟨Option.some.inj h2, h1⟩

/-- `register k` is refused while `k` is registered, and it is the only way into `exec` -/
theorem C06_exec_only_by_register (F : Flags) (o : Obs) (x : Act) (ev : Ev) (y : Act) (eff : Eff)
    (h : stepLocal F o x ev = some (y, eff)) :
    (y.phase = .exec → ∃ k, ev = .register k) ∧
    (∀ k, ev = .register k → o.registered k = false ∧ x.def_.run ≠ .always ∧ y.key = some k ∧ eff = .reg k) ∧
    (∀ k, ev = .waiter k → o.registered k = true ∧ x.def_.run ≠ .always ∧ y.waitsFor = some k) := by
  refine ⟨?_, ?_, ?_⟩
  · exact stepLocal_exec F o x ev y eff h
  · intro k hev
    rcases stepLocal_key F o x ev y eff h with ⟨_, _, hne⟩ | ⟨k', hev', h1, h2, h3, h4, _⟩
    · exact absurd hev (hne k)
    · rw [hev] at hev'; cases hev'
      exact ⟨h3, h4, h2, h1⟩
  · intro k hev
    rcases stepLocal_waitsFor F o x ev y eff h with ⟨_, hne⟩ | ⟨k', hev', h1, h2, h3, _⟩
    · exact absurd hev (hne k)
    · rw [hev] at hev'; cases hev'
      exact ⟨h2, h3, h1⟩

/-- **C06 (one body per key).** In every reachable configuration, for an activation of a
deduplicated task (`run: once` / `when_changed`):
* unless it is the registered execution of a key (`key = some k`), it has started no
  command and is in none of the phases in which dependencies or commands run;
* a waiter (`waitsFor = some k`) is never a registered execution and never starts a command.
With `C06_once_key`: per key exactly one activation can run a body. -/
theorem C06_one_body_per_key (P : Program) (F : Flags) (n : Nat) (tr : List Label) (c : Config)
    (h : replay P F (init n) tr = some c) (a : Nat) (x : Act) (hx : c.act? a = some x)
    (hrun : x.def_.run ≠ .always) :
    (x.key = none → x.started = [] ∧ idlePhase x.phase = true) ∧
    (∀ k, x.waitsFor = some k → x.key = none ∧ x.started = [] ∧ waiterPhase x.phase = true) := by
  have hK := (DedupInv_reachable P F n tr c h).key a x hx
  refine ⟨hK.dedup hrun, ?_⟩
  intro k hk
  obtain ⟨h1, h2, h3, _⟩ := hK.waiter k hk
  exact ⟨h2, h3, h1⟩

/-- two activations that met the same key (registered it or waited on it) and have both
started a command are the same activation -/
theorem C06_at_most_one_body (P : Program) (F : Flags) (n : Nat) (tr : List Label) (c : Config)
    (h : replay P F (init n) tr = some c) (a b : Nat) (x y : Act) (k : Nat)
    (hx : c.act? a = some x) (hy : c.act? b = some y)
    (hkx : x.key = some k ∨ x.waitsFor = some k) (hky : y.key = some k ∨ y.waitsFor = some k)
    (hsx : x.started ≠ []) (hsy : y.started ≠ []) : a = b := by
  have hD := DedupInv_reachable P F n tr c h
  have kx : x.key = some k := by
    rcases hkx with h1 | h1
    · exact h1
    · exact absurd ((hD.key a x hx).waiter k h1).2.2.1 hsx
  have ky : y.key = some k := by
    rcases hky with h1 | h1
    · exact h1
    · exact absurd ((hD.key b y hy).waiter k h1).2.2.1 hsy
  exact (C06_once_key P F n tr c h a b x y k hx hy kx ky).1

/-- **C06 (`run: always`).** An activation of a `run: always` task never registers and
never waits: every reference runs its own body (`depsRelease` directly from `acquired`). -/
theorem C06_always (P : Program) (F : Flags) (n : Nat) (tr : List Label) (c : Config)
    (h : replay P F (init n) tr = some c) (a : Nat) (x : Act) (hx : c.act? a = some x)
    (hrun : x.def_.run = .always) : x.key = none ∧ x.waitsFor = none := by
  have hK := (DedupInv_reachable P F n tr c h).key a x hx
  constructor
  · cases hk : x.key with
    | none => rfl
    | some k => exact absurd hrun (hK.keyed k hk).1
  · cases hk : x.waitsFor with
    | none => rfl
    | some k => exact absurd hrun (hK.waiter k hk).2.2.2

/-- **C06 (waiters observe the outcome).** Every waiter that has returned from waiting
carries the outcome of the one real execution of its key — success or failure, the bare
error that execution ended with, which the waiter wraps according to its own call exactly
as the executing activation wraps it according to its call — and that execution had finished
(`execDone`) when the waiter woke. -/
theorem C06_waiters_observe_outcome (P : Program) (F : Flags) (n : Nat) (tr : List Label) (c : Config)
    (h : replay P F (init n) tr = some c) (w : Nat) (wx : Act) (k : Nat) (hw : c.act? w = some wx)
    (hk : wx.waitsFor = some k) (hp : wokenPhase wx.phase = true) :
    ∃ e ex, c.execs.lookup k = some e ∧ c.act? e = some ex ∧ ex.key = some k ∧
      exFin ex.phase = true ∧ wx.out = ex.out ∧ wx.res = wrapFor wx.indirect ex.out ∧
      ex.res = wrapFor ex.indirect ex.out :=
  Props.C01.C01_shared P F n tr c h w wx k hw hk hp

/-- … in particular a waiter fails exactly when the one real execution failed, and a waiter
called the same way as the executing activation returns the same error -/
theorem C06_waiters_same_verdict (P : Program) (F : Flags) (n : Nat) (tr : List Label) (c : Config)
    (h : replay P F (init n) tr = some c) (w : Nat) (wx : Act) (k : Nat) (hw : c.act? w = some wx)
    (hk : wx.waitsFor = some k) (hp : wokenPhase wx.phase = true) :
    ∃ e ex, c.execs.lookup k = some e ∧ c.act? e = some ex ∧
      wx.res.isOk = ex.res.isOk ∧ (wx.indirect = ex.indirect → wx.res = ex.res) := by
  obtain ⟨e, ex, h1, h2, _, _, _, h3, h4⟩ := C06_waiters_observe_outcome P F n tr c h w wx k hw hk hp
  have hsh := (S2.Shape_sound P F n tr c h e ex h2).out
  refine ⟨e, ex, h1, h2, ?_, ?_⟩
  · rw [h3, h4, S2.wrapFor_isOk _ _ hsh, S2.wrapFor_isOk _ _ hsh]
  · intro hi; rw [h3, h4, hi]

/-- … and the waking itself is only accepted then (trace form: `wakeAfterDone`) -/
theorem C06_wake_after_done (P : Program) (F : Flags) (n : Nat) (tr : List Label) (c : Config)
    (h : replay P F (init n) tr = some c) : wakeAfterDone tr [] [] [] = true :=
  wakeAfterDone_sound P F n tr c h

/-! ## non-vacuity -/

/-- task 0 calls task 1 (`run: once`) twice, then task 2 (`run: always`) twice -/
private def prog : Program :=
  [{ cmds := [.call 1 false, .call 1 false, .call 2 false, .call 2 false] },
   { run := .once, cmds := [.shell 0 false false] },
   { cmds := [.shell 0 false false] }]

private def hd : List Label := [⟨1, .enter (.top 0) 0⟩, ⟨1, .acquire⟩, ⟨1, .depsRelease⟩, ⟨1, .depsReacq⟩,
   ⟨1, .depsDone .ok⟩, ⟨1, .guardsPassed⟩]

private def bodyOf (a : Nat) : List Label :=
  [⟨a, .depsRelease⟩, ⟨a, .depsReacq⟩, ⟨a, .depsDone .ok⟩, ⟨a, .guardsPassed⟩,
   ⟨a, .cmdStart 0 none false⟩, ⟨a, .cmdEnd 0 .ok⟩]

private def run1 : List Label :=
  hd ++
  -- first reference of the `once` task: registers key 5, runs
  [⟨1, .callRelease 0 false⟩, ⟨2, .enter (.call 1 0 false) 1⟩, ⟨2, .acquire⟩, ⟨2, .register 5⟩] ++ bodyOf 2 ++
  [⟨2, .execDone⟩, ⟨2, .release⟩, ⟨2, .exit⟩, ⟨1, .callRet 0⟩, ⟨1, .callReacq 0⟩] ++
  -- second reference: waiter, no body
  [⟨1, .callRelease 1 false⟩, ⟨3, .enter (.call 1 1 false) 1⟩, ⟨3, .acquire⟩, ⟨3, .waiter 5⟩, ⟨3, .wRelease⟩,
   ⟨3, .wWake⟩, ⟨3, .wReacq⟩, ⟨3, .release⟩, ⟨3, .exit⟩, ⟨1, .callRet 1⟩, ⟨1, .callReacq 1⟩] ++
  -- the `always` task: one body per reference
  [⟨1, .callRelease 2 false⟩, ⟨4, .enter (.call 1 2 false) 2⟩, ⟨4, .acquire⟩] ++ bodyOf 4 ++
  [⟨4, .release⟩, ⟨4, .exit⟩, ⟨1, .callRet 2⟩, ⟨1, .callReacq 2⟩] ++
  [⟨1, .callRelease 3 false⟩, ⟨5, .enter (.call 1 3 false) 2⟩, ⟨5, .acquire⟩] ++ bodyOf 5 ++
  [⟨5, .release⟩, ⟨5, .exit⟩, ⟨1, .callRet 3⟩, ⟨1, .callReacq 3⟩, ⟨1, .release⟩, ⟨1, .exit⟩]

private def summary (c : Config) : List (Option (Phase × Res × List Nat)) :=
  [1, 2, 3, 4, 5].map (fun a => (c.act? a).map (fun x => (x.phase, x.res, x.started)))
private def keys (c : Config) : List (Option (Option Nat × Option Nat)) :=
  [1, 2, 3, 4, 5].map (fun a => (c.act? a).map (fun x => (x.key, x.waitsFor)))

example : (replay prog {} (init 1) run1).map summary =
    some [some (.done, .ok, [0, 1, 2, 3]),
          some (.done, .ok, [0]),      -- the one real execution
          some (.done, .ok, []),       -- the waiter: no command
          some (.done, .ok, [0]),      -- `always`: a body per reference
          some (.done, .ok, [0])] := by decide
example : (replay prog {} (init 1) run1).map keys =
    some [some (none, none), some (some 5, none), some (none, some 5), some (none, none), some (none, none)] := by decide
example : (replay prog {} (init 1) run1).map (·.execs) = some [(5, 2)] := by decide
example : regOnce run1 [] = true := by decide
-- the second reference cannot register the key again, nor run the body without registering
example : (replay prog {} (init 1) (run1.take 24 ++ [⟨3, .register 5⟩])).isNone = true := by decide
example : (replay prog {} (init 1) (run1.take 24 ++ [⟨3, .depsRelease⟩])).isNone = true := by decide
example : (replay prog {} (init 1) (run1.take 24 ++ [⟨3, .waiter 5⟩])).isSome = true := by decide
-- the first reference cannot be a waiter (nothing registered yet)
example : (replay prog {} (init 1) (run1.take 9 ++ [⟨2, .waiter 5⟩])).isNone = true := by decide
-- a `run: always` task cannot register
example : (replay prog {} (init 1) (run1.take 35 ++ [⟨4, .register 6⟩])).isNone = true := by decide
example : (replay prog {} (init 1) (run1.take 35 ++ [⟨4, .depsRelease⟩])).isSome = true := by decide
-- the monitor flags a second registration
example : regOnce (run1.take 24 ++ [⟨3, .register 5⟩]) [] = false := by decide

/-! ## which key a reference gets (executor side)

The acceptor treats keys as opaque: `register k` needs `k` fresh, `waiter k` needs it registered — an
executor that handed every reference a FRESH key (every reference executes) or that gave two different
tasks ONE key (one of them never executes) would still be accepted by it.  What C06 says about the keys
is the monitor `keyMon` (`Sched.MonVal`, driver verdict `C06k`), evaluated on every log: the owner of a
key is the task (`run: once`) or the task and the value it is called with (`run: when_changed`;
`valsOf`), and keys and owners correspond one to one.  (`Props.C06Key` proves that the key FUNCTION of
the code has this shape; `keyMon` checks that the executor uses it that way.) -/

/-- **C06 (key discipline, what `C06k = 1` means).** Every activation that registered, waited for or was
refused a key belongs to a deduplicated task, and two such events name the same key EXACTLY when they are
by the same `run: once` task, or by the same `run: when_changed` task called with the same value. -/
theorem C06_key_discipline (Ps : Passes) (P : Program) (F : Flags) (n : Nat) (tr : List Label)
    (h : keyMon Ps P F n tr = true) :
    ∀ x ∈ keyEvents P (taskTable tr) (valsOf Ps P F (init n) tr []) tr,
      x.2.isSome = true ∧
      ∀ y ∈ keyEvents P (taskTable tr) (valsOf Ps P F (init n) tr []) tr, (x.1 = y.1 ↔ x.2 = y.2) :=
  (keysConsistent_iff _).mp h

/-- the owner of a key: one per `run: once` task whatever it is called with, one per value for
`run: when_changed`, none for `run: always` -/
theorem C06_key_owner (P : Program) (t : Nat) (d : TaskDef) (hd : P[t]? = some d) (v w : Nat) :
    (d.run = .once → keyOwner P t v = keyOwner P t w ∧ (keyOwner P t v).isSome = true) ∧
    (d.run = .whenChanged → (keyOwner P t v = keyOwner P t w ↔ v = w) ∧ (keyOwner P t v).isSome = true) ∧
    (d.run = .always → keyOwner P t v = none) := by
  refine ⟨?_, ?_, ?_⟩ <;> intro hr <;> simp [keyOwner, hd, hr]

/-- two different tasks never own the same key -/
theorem C06_key_owner_task (P : Program) (t t' v v' : Nat) (o : Nat × Nat)
    (h : keyOwner P t v = some o) (h' : keyOwner P t' v' = some o) : t = t' := by
  have key : ∀ (t v : Nat) (o : Nat × Nat), keyOwner P t v = some o → o.1 = t := by
    intro t v o h
    unfold keyOwner at h
    cases hd : P[t]? with
    | none => rw [hd] at h; cases h
    | some d =>
      rw [hd] at h
      simp only at h
      cases hr : d.run <;> rw [hr] at h <;> simp at h <;> (rw [← h])
  rw [← key t v o h, ← key t' v' o h']

/-- non-vacuity, and why the monitor is needed: task 1 (`run: once`) is referenced twice by task 0.  The log in
which the second reference waits on the first one's key passes; a log in which the second reference is handed
a fresh key and executes again is ACCEPTED by the acceptor — and fails `keyMon`. -/
private def progK : Program :=
  [{ cmds := [.call 1 false, .call 1 false] }, { run := .once, cmds := [.shell 0 false false] }]
private def passK : Passes := [{ cmds := [.none, .none] }, { cmds := [.none] }]
private def body (a k : Nat) : List Label :=
  [⟨a, .acquire⟩, ⟨a, .register k⟩, ⟨a, .depsRelease⟩, ⟨a, .depsReacq⟩, ⟨a, .depsDone .ok⟩, ⟨a, .guardsPassed⟩,
   ⟨a, .cmdStart 0 none false⟩, ⟨a, .cmdEnd 0 .ok⟩, ⟨a, .execDone⟩, ⟨a, .release⟩, ⟨a, .exit⟩]
private def headK : List Label :=
  [⟨1, .enter (.top 0) 0⟩, ⟨1, .acquire⟩, ⟨1, .depsRelease⟩, ⟨1, .depsReacq⟩, ⟨1, .depsDone .ok⟩, ⟨1, .guardsPassed⟩,
   ⟨1, .callRelease 0 false⟩, ⟨2, .enter (.call 1 0 false) 1⟩] ++ body 2 7 ++
  [⟨1, .callRet 0⟩, ⟨1, .callReacq 0⟩, ⟨1, .callRelease 1 false⟩, ⟨3, .enter (.call 1 1 false) 1⟩]
private def tailK : List Label := [⟨1, .callRet 1⟩, ⟨1, .callReacq 1⟩, ⟨1, .release⟩, ⟨1, .exit⟩]
private def runShared : List Label :=
  headK ++ [⟨3, .acquire⟩, ⟨3, .waiter 7⟩, ⟨3, .wRelease⟩, ⟨3, .wWake⟩, ⟨3, .wReacq⟩, ⟨3, .release⟩, ⟨3, .exit⟩] ++ tailK
private def runFresh : List Label := headK ++ body 3 8 ++ tailK
example : (replay progK {} (init 1) runShared).isSome = true ∧ keyMon passK progK {} 1 runShared = true := by decide
example : (replay progK {} (init 1) runFresh).isSome = true ∧ keyMon passK progK {} 1 runFresh = false := by decide

end Props.C06
