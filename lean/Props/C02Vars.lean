import TaskModel.Vars.Lemmas
import TaskModel.Vars.CompileLemmas
import TaskModel.Quote.Template
/-!
# C02 (loops and call variables) — completes `Props/C02.lean`

`for:` entries are expanded at compile time into consecutive `cmds` entries (which the
executor then runs in order, `Props.C02`).  Here: the expansion order.  A list is taken as
is; a matrix is expanded by `product` in row-major order, first key slowest; variables
passed in a call are the ones the callee sees (instance of C10's last-write-wins).
Tie: correspondence domain `vars` compares `CompiledTask(...).Cmds` of generated loops
with `product`.
-/
namespace Props.C02Vars
open TaskModel.Vars

theorem productFold_spec (rows : List (Name × List Str)) (acc : List (List (Name × Str))) :
    productFold rows acc = acc.flatMap (fun comb => (productSpec rows).map (fun t => comb ++ t)) := by
  induction rows generalizing acc with
  | nil => simp [productFold, productSpec]
  | cons r rows ih =>
    obtain ⟨k, items⟩ := r
    simp only [productFold, productSpec]
    rw [ih]
    simp only [List.flatMap_assoc, List.map_flatMap, List.flatMap_map, List.map_map]
    congr 1
    funext comb
    congr 1
    funext it
    congr 1
    funext t
    simp

/-- **Matrix order.** `product` enumerates the cartesian product of the rows in row-major
order — the first key varies slowest, every row's items in their declared order. -/
theorem C02_matrix_order (rows : List (Name × List Str)) (h : rows ≠ []) : product rows = productSpec rows := by
  simp only [product, h, if_false]
  rw [productFold_spec]
  simp

theorem C02_matrix_empty : product [] = [] := rfl

/-- number of loop entries = product of the row lengths -/
theorem productSpec_length (rows : List (Name × List Str)) :
    (productSpec rows).length = (rows.map (fun r => r.2.length)).foldr (· * ·) 1 := by
  induction rows with
  | nil => rfl
  | cons r rows ih =>
    obtain ⟨k, items⟩ := r
    simp only [productSpec, List.map_cons, List.foldr_cons, ← ih]
    induction items with
    | nil => simp
    | cons it its ih2 => simp [List.flatMap_cons, ih2, Nat.succ_mul, Nat.add_comm]

/-- **Call variables.** A variable passed in the call and not redefined by the callee's own
`vars:` is what the callee sees, whatever the lower-priority sites define: the call's definition
evaluated (in the root directory) over exactly what the four layers below the call layer and the
call's earlier definitions resolved — no existential state (the task compiled alone). -/
theorem C02_call_vars (w : World) (cx : Ctx) (base : Env)
    (defs : Site → List (Name × VarDef)) (pre post : List (Name × VarDef)) (m : Name) (d : VarDef)
    (hcall : defs .callVars = pre ++ (m, d) :: post) (hpost : m ∉ names post)
    (htask : m ∉ names (defs .taskVars)) :
    get (getVariables w cx base (layersOf defs) []).env m =
      (evalDef w cx.rootDir
        (evalBlock w (fun _ => cx.rootDir) pre (stateBefore w cx base defs .callVars).env (stateBefore w cx base defs .callVars).cache).1
        (evalBlock w (fun _ => cx.rootDir) pre (stateBefore w cx base defs .callVars).env (stateBefore w cx base defs .callVars).cache).2 d).1 := by
  have hl := layersOf_split defs .callVars
  simp only [getVariables]
  rw [hl, runLayers_append]
  simp only [runLayers, sitesAfter, List.map_cons, List.map_nil, lay]
  rw [stepLayer_frame _ _ _ _ _ htask]
  simp only [stepLayer, hcall, siteDirf_root cx .callVars rfl, stateBefore]
  exact evalBlock_last w _ pre post m d _ _ hpost

/-- a literal passed in the call is what the callee sees -/
theorem C02_call_vars_literal (w : World) (cx : Ctx) (base : Env)
    (defs : Site → List (Name × VarDef)) (pre post : List (Name × VarDef)) (m : Name) (v : Str)
    (hcall : defs .callVars = pre ++ (m, .lit [.text v]) :: post) (hpost : m ∉ names post)
    (htask : m ∉ names (defs .taskVars)) :
    get (getVariables w cx base (layersOf defs) []).env m = v := by
  rw [C02_call_vars w cx base defs pre post m _ hcall hpost htask]
  simp [evalDef, render]

example : product [(0, [[1], [2]]), (1, [[7], [8]])] =
    [[(0, [1]), (1, [7])], [(0, [1]), (1, [8])], [(0, [2]), (1, [7])], [(0, [2]), (1, [8])]] := by decide

/-- **C02 (loop variable).** Every iteration sees its OWN element under the loop variable,
whatever variable of that name exists already; every other name is seen as the task sees it. -/
theorem C02_loop_var_own_element (lv : Name) (vars : List (Name × Str)) (items : List Str) (refs : List Name) :
    loopRender lv vars items refs =
      items.map (fun it => refs.map (fun x => if x = lv then some it else vars.lookup x)) := by
  unfold loopRender lookupExtra
  congr 1
  funext it
  congr 1
  funext x
  by_cases h : x = lv
  · subst h; simp [List.lookup]
  · have hb : (x == lv) = false := by simpa using h
    simp [List.lookup, h, hb]

/-- one execution per element, in list order -/
theorem C02_loop_one_per_element (lv : Name) (vars : List (Name × Str)) (items : List Str) (refs : List Name) :
    (loopRender lv vars items refs).length = items.length := by simp [loopRender]

/-- **a loop over a map variable pairs every key with ITS value**: whatever order `es` the map hands its entries out in
(any permutation of the map `m`), the iterations are exactly the entries of the map — each (KEY, ITEM) pair is an entry,
every entry occurs, none twice when the keys are distinct.  (The order is the documented variation; the pairing is not.) -/
theorem C02_map_loop_pairs (m es : List (Str × Str)) (hp : es.Perm m) :
    (∀ p, p ∈ mapLoop es ↔ p ∈ m) ∧ (mapLoop es).length = m.length ∧ ((m.map (·.1)).Nodup → ((mapLoop es).map (·.1)).Nodup) :=
  ⟨fun _ => hp.mem_iff, hp.length_eq, fun hn => (hp.map _).nodup_iff.mpr hn⟩

example : mapLoop [([98], [50]), ([97], [49])] = [([98], [50]), ([97], [49])] ∧
    [([98], [50]), ([97], [49])].Perm [([97], [49]), ([98], [50])] := by
  refine ⟨rfl, ?_⟩; exact List.Perm.swap _ _ _

/-- non-vacuity: a task variable named like the loop variable does not hide the elements -/
example : loopRender 7 [(7, [115]), (8, [120])] [[97], [98]] [7, 8] =
    [[some [97], some [120]], [some [98], some [120]]] := by decide

/-! ## "Variables passed in a call are the ones the callee sees" — the VALUE, byte for byte

The theorems above are about the layers (which definition wins).  The value itself takes one
more pass through the template engine: the callee's `getVariables` templates every call
variable like any other definition.  A value that came out of an `sh:` command in the caller
(the one place where text is not templated), or that is handed to `Call.Vars` through the API,
is EVALUATED when it contains a template action, and loses the literal `<no value>` — the
root of the two open C19 findings, recorded for C02 as `C02-call-values-templated-again`
(domain `callvals`).  `Quote.Template`: the engine's behaviour on non-inert text is a parameter. -/

open TaskModel.Quote in
/-- what the callee holds for a call variable whose value is the text `v` -/
def calleeSees (engine : Bytes → Option Bytes) (v : Bytes) : Option Bytes := tmplPass engine v

open TaskModel.Quote in
def C02_call_values_verbatim_full : Prop := ∀ (engine : Bytes → Option Bytes) (v : Bytes), calleeSees engine v = some v

open TaskModel.Quote in
/-- **false of the code as it is**: the value `{{.Y}}` with an engine that renders the action as `why` -/
theorem C02_call_values_counterexample : ¬ C02_call_values_verbatim_full := by
  intro h
  have := h (fun _ => some [119, 104, 121]) [123, 123, 46, 89, 125, 125]
  revert this
  decide

open TaskModel.Quote in
/-- **partial**: a value without `{{` and without the literal `<no value>` is what the callee sees -/
theorem C02_call_values_partial (engine : Bytes → Option Bytes) (v : Bytes) (h : templateInert v = true) :
    calleeSees engine v = some v := by
  simp [calleeSees, tmplPass, h]

open TaskModel.Quote in
example : templateInert [105, 116, 39, 115, 32, 34, 36, 72, 79, 77, 69, 34] = true := by decide    -- it's "$HOME"

end Props.C02Vars
