import Props.SchedTie
import TaskModel.Sched.MonC07
import TaskModel.Sched.CallLemmas
import TaskModel.Sched.ProgressLemmas
import TaskModel.Sched.DeadlockLemmas
import TaskModel.Sched.TermInv
import TaskModel.Sched.LiveMain
import TaskModel.Sched.LiveFinal
import TaskModel.Sched.LiveAll
import TaskModel.Sched.OldRule
import TaskModel.Sched.TermAll
import TaskModel.Gen.Codes
import TaskModel.Sched.MonVal
import Props.C02
/-!
# C07 — Bounded concurrency, no deadlock, guaranteed termination

Statements are about every trace the executor model accepts (`replay … = some c`): all
programs, flags, interleavings.  Tie: the `sched` correspondence replays the event log of
the real executor through the same `replay`; `boundOk` is also evaluated directly on the
implementation's event log (`monitorVerdicts`).

Which statements say what (audit, session 3).  Single-step statements that restate a guard of the acceptor:
`C07_work_conserving_dep`, `C07_work_conserving_acquire`, `C07_acquire_waits_for_slot`, `C07_cycle_error`,
`C07_cycle_error_dedup`, `C07_wait_or_refuse` — their assurance about the real executor is the acceptance of its
logs (and the barrier probe for work conservation).  Trace-level: `C07_bound`, `C07_tokens_are_holders`,
`C07_cycle_bound`, `C07_wait_acyclic`, `C07_waitsFor_exact`, `C07_no_deadlock`, `C07_completes`,
`C07_terminates_all`, `C07_ends`, `C07_no_204_if_refs_lt_max`, `C07_all_work_done`.
-/
namespace Props.C07
open TaskModel.Sched.S7
open TaskModel.Sched

/-! ## the bound -/

/-- **C07 (bound).** With `--concurrency N` the number of slots in use never exceeds `N`,
in any reachable configuration of any program under any interleaving. -/
theorem C07_bound_tokens (P : Program) (F : Flags) (N : Nat) (hcap : F.cap = some N)
    (n : Nat) (tr : List Label) (c : Config) (h : replay P F (init n) tr = some c) : c.tokens ≤ N :=
  replay_inv P F (fun c => c.tokens ≤ N)
    (fun c l c' hle hs => (tokens_step P F N hcap c l c' hle hs).1) (init n) tr c (Nat.zero_le _) h

/-- **C07 (bound, on the raw event log).** Every trace the model accepts passes the raw
monitor `boundOk` that `monitorVerdicts` evaluates on the implementation's log. -/
theorem C07_bound_raw (P : Program) (F : Flags) (N : Nat) (hcap : F.cap = some N)
    (n : Nat) (tr : List Label) (c : Config) (h : replay P F (init n) tr = some c) : boundOk N tr 0 = true :=
  boundOk_replay P F N hcap tr (init n) c (Nat.zero_le _) h

/-! ## who holds the slots -/

/-- **C07 (a slot is held exactly between taking and giving it back).** In every
reachable configuration an activation's `holds` flag is `holdPhase` of its phase: set by
`acquire`/`wReacq`/`depsReacq`/`callReacq`, cleared by `wRelease`/`depsRelease`/
`callRelease`/`release`.  In particular a shell command — deferred or not — runs only
while its activation holds a slot. -/
theorem C07_holds_while_running (P : Program) (F : Flags) (n : Nat) (tr : List Label) (c : Config)
    (h : replay P F (init n) tr = some c) (a : Nat) (x : Act) (hx : c.act? a = some x) :
    x.holds = holdPhase x.phase ∧ (∀ i d, x.phase = .inShell i d → x.holds = true) := by
  have hg : HoldsInv x := localInv_sound HoldsInv P F (holdsInv_fresh P F)
    (fun o x ev y eff hg hs => (stepLocal_holds F o x ev y eff hg hs).1) (fun _ _ hg => hg) n tr c h a x hx
  refine ⟨hg, ?_⟩
  intro i d hp
  rw [hg, hp]; rfl

/-- **C07 (the slots in use are the activations that hold one).** After every accepted
trace the slot counter equals the number of distinct activations whose `holds` flag is
set (the activations are the ids of the `enter` events, which are distinct). -/
theorem C07_tokens_are_holders (P : Program) (F : Flags) (n : Nat) (tr : List Label) (c : Config)
    (h : replay P F (init n) tr = some c) :
    (actIds tr).Nodup ∧ (∀ a, a ∈ actIds tr ↔ (c.act? a).isSome = true) ∧
    c.tokens = holders c (actIds tr) := by
  have := replay_inv_tr P F TokInv (tokInv_step P F) n
    ⟨idsInv_init n, by intro a x hx; simp [init, Config.act?] at hx, rfl⟩ tr c h
  exact ⟨this.1.1, this.1.2, this.2.2⟩

/-- **C07 (at most N tasks execute commands at any instant).** The number of activations
inside a shell command never exceeds the number of slots in use, hence never `N`. -/
theorem C07_bound (P : Program) (F : Flags) (N : Nat) (hcap : F.cap = some N)
    (n : Nat) (tr : List Label) (c : Config) (h : replay P F (init n) tr = some c) :
    shells c (actIds tr) ≤ c.tokens ∧ c.tokens ≤ N := by
  refine ⟨?_, C07_bound_tokens P F N hcap n tr c h⟩
  rw [(C07_tokens_are_holders P F n tr c h).2.2]
  unfold shells holders cnt
  apply List.countP_mono_left
  intro a _ ha
  unfold actB at ha ⊢
  cases hx : c.act? a with
  | none => rw [hx] at ha; cases ha
  | some x =>
    rw [hx] at ha; simp only at ha ⊢
    unfold inShellB at ha
    split at ha
    · rename_i i d hp; exact (C07_holds_while_running P F n tr c h a x hx).2 i d hp
    · cases ha

/-- **C07 (on the raw events of one activation).** In every accepted trace each
activation takes and gives back slots alternately, and starts / ends shell commands only
while it holds one: the executable monitor `holdMon` accepts. -/
theorem C07_cmd_while_holding (P : Program) (F : Flags) (n : Nat) (tr : List Label) (c : Config)
    (h : replay P F (init n) tr = some c) (a : Nat) :
    (holdMon.run holdMon.init (evsOf a tr)).isSome = true :=
  actMon_accepts holdMon holdR P F (holdR_fresh P F)
    (fun o s x ev y eff hR hs => holdR_local F o s x ev y eff hR hs) (fun _ _ _ h => h) n tr c h a

/-! ## independent dependencies start without waiting for one another -/

/-- **C07 (work conservation, dependencies).** A dependency activation may enter as soon
as its parent waits for its dependencies (`depsWait`, slot given back) and that dependency
has not been started yet — whatever the sibling dependencies are doing and however many
slots are in use. -/
theorem C07_work_conserving_dep (P : Program) (F : Flags) (c : Config) (p : Nat) (px : Act) (j t a : Nat)
    (hp : c.act? p = some px) (hph : px.phase = .depsWait)
    (hslot : px.kids.lookup (slotOfDep j) = none) (hdep : px.def_.deps[j]? = some t)
    (ha : c.act? a = none) :
    enterCheck F c a (.dep p j) t = some (.act p { px with kids := (slotOfDep j, a) :: px.kids }) ∧
    (step P F c ⟨a, .enter (.dep p j) t⟩).isSome = true := by
  have h1 : enterCheck F c a (.dep p j) t = some (.act p { px with kids := (slotOfDep j, a) :: px.kids }) := by
    simp [enterCheck, hp, hph, hslot, hdep]
  refine ⟨h1, ?_⟩
  simp [step, enterAct, ha, h1]

/-- **C07 (work conservation, slots).** An activation that has passed the checks of
`RunTask` takes a slot as soon as one is free. -/
theorem C07_work_conserving_acquire (P : Program) (F : Flags) (c : Config) (a : Nat) (x : Act)
    (hx : c.act? a = some x) (hph : x.phase = .entered) (hfree : capFree F c = true) :
    step P F c ⟨a, .acquire⟩ =
      some (({ c with tokens := c.tokens + 1 }).set a { x with phase := .acquired, holds := true }) := by
  simp [step, hx, stepLocal, hph, obsOf, hfree, applyEff]

/-- the only thing `acquire` waits for is a free slot -/
theorem C07_acquire_waits_for_slot (F : Flags) (o : Obs) (x : Act) (hph : x.phase = .entered) :
    (stepLocal F o x .acquire).isSome = o.capFree := by
  simp only [stepLocal, hph]; cases o.capFree <;> rfl

/-! ## cyclic references end with an error -/

/-- the limit and the comparison are those of the tree under test -/
theorem max_calls_ok : TaskModel.Gen.Codes.maximumTaskCall = 1000 ∧ TaskModel.Gen.Codes.maxCallCompare = ">=" ∧
    ({} : Flags).maxCalls = TaskModel.Gen.Codes.maximumTaskCall ∧
    TaskModel.Gen.Codes.errorCodes.lookup "TaskCalledTooManyTimesError" = some 204 ∧
    TaskModel.Gen.Codes.errorCodes.lookup "TaskRunError" = some 201 := by decide

/-- **C07 (call counter).** The counter of task `t` is the number of its `enter` events
(0 if a check that precedes the counter fails), in every reachable configuration. -/
theorem C07_call_count (P : Program) (F : Flags) (n : Nat) (tr : List Label) (c : Config)
    (h : replay P F (init n) tr = some c) (t : Nat) :
    c.callCount t = (if bumps P t then enters t tr else 0) ∧ c.callCount t ≤ enters t tr := by
  have := (callInv_reach P F t n tr c h).2.2.2.1
  refine ⟨this, ?_⟩
  rw [this]; split <;> omega

/-- **C07 (cycles are cut).** In every accepted trace fewer than `maxCalls` activations of
any one task ever take a slot (they are distinct activations, each of which took its first
slot once): unbounded recursion through `deps:` or `task:` is impossible.  Every further
activation of the task is born in phase `early`. -/
theorem C07_cycle_bound (P : Program) (F : Flags) (n : Nat) (tr : List Label) (c : Config)
    (h : replay P F (init n) tr = some c) (t : Nat) :
    (acquirers tr).Nodup ∧ cnt (isTask t) c (acquirers tr) ≤ F.maxCalls - 1 := by
  obtain ⟨_, hnd, _, _, _, hle⟩ := callInv_reach P F t n tr c h
  exact ⟨hnd, by omega⟩

/-- **C07 (the error).** The activation that brings the counter to the limit is born with
the result "called too many times" (204): it takes no slot, starts nothing, and can only
return (`stepLocal_early`). -/
theorem C07_cycle_error (P : Program) (F : Flags) (c : Config) (kind : Kind) (t : Nat)
    (hb : bumps P t = true) (hl : c.callCount t + 1 ≥ F.maxCalls) :
    (freshAct P F c kind t).phase = .early ∧ (freshAct P F c kind t).res = .typed 204 ∧
    (freshAct P F c kind t).started = [] ∧ (freshAct P F c kind t).holds = false ∧
    (∀ o ev y eff, stepLocal F o (freshAct P F c kind t) ev = some (y, eff) →
      ev = .exit ∧ eff = .none ∧ y.phase = .done ∧ y.res = .typed 204) := by
  obtain ⟨h1, h2⟩ := freshAct_limit P F c kind t hb hl
  obtain ⟨_, _, _, _, hs, _, hh, _⟩ := freshAct_fields P F c kind t
  refine ⟨h1, h2, hs, hh, ?_⟩
  intro o ev y eff hst
  obtain ⟨e1, e2, e3⟩ := stepLocal_early F o _ ev y eff h1 hst
  exact ⟨e1, e2, by rw [e3], by rw [e3]; exact h2⟩

/-- … and the caller that reached it through a `task:` command fails with it: unwrapped
if the caller was itself called by a task, wrapped in a task-run error (201) if the caller
was named on the command line -/
theorem C07_cycle_error_wrapped (x : Act) (c : Cmd) :
    (x.afterCmd c (.typed 204)).res = (if x.indirect then .typed 204 else .run (.typed 204)) := by
  cases c <;> simp [Act.afterCmd, Act.fail]

/-- **C07 (the error, cycles through deduplicated tasks).** A reference that comes back to a
`run: once` / `when_changed` task whose execution is still under way — registered, and waiting
(directly or through other executions) for the execution the referring call is part of — is
not made to wait: the only label `startExecution` accepts for that key is `waitCycle`
(`C07_wait_or_refuse`), and the activation stops with "called too many times" (204), unmarked,
having started nothing, still holding its slot (which it gives back with `release`). -/
theorem C07_cycle_error_dedup (F : Flags) (o : Obs) (x : Act) (k : Nat) (y : Act) (eff : Eff)
    (h : stepLocal F o x (.waitCycle k) = some (y, eff)) :
    (x.phase = .acquired ∧ x.def_.run ≠ .always ∧ o.registered k = true ∧ o.cyc k = true) ∧
    y.phase = .finished ∧ y.res = .typed 204 ∧ y.out = ⟨.typed 204, false⟩ ∧ eff = .none ∧
    y.started = x.started ∧ y.holds = x.holds := by
  have hL := S2.LStep_of_stepLocal F o x _ y eff h
  cases hL with
  | waitCycle k hp hr hk hcyc => exact ⟨⟨hp, hr, hk, hcyc⟩, rfl, rfl, rfl, rfl, rfl, rfl⟩

/-- `startExecution` on a registered key: the call waits (`waiter`) exactly when the registered
execution does not wait for the caller's own, and is refused (`waitCycle`) exactly when it does -/
theorem C07_wait_or_refuse (F : Flags) (o : Obs) (x : Act) (k : Nat) (hp : x.phase = .acquired)
    (hr : x.def_.run ≠ .always) (hk : o.registered k = true) :
    (stepLocal F o x (.waiter k)).isSome = !o.cyc k ∧ (stepLocal F o x (.waitCycle k)).isSome = o.cyc k ∧
    (stepLocal F o x (.register k)).isSome = false := by
  cases hc : o.cyc k <;> simp [stepLocal, hp, hr, hk, hc]

/-! ## deadlock freedom and termination

Proved for EVERY program (after the fix of `C07-once-cycle-deadlocks`: a wait that would close a
cycle of executions waiting for one another is refused): the wait-for relation between unfinished
executions is acyclic in every reachable configuration (`C07_wait_acyclic`), the check the
executor makes is exact (`C07_waitsFor_exact`), no reachable configuration deadlocks
(`C07_no_deadlock`), a quiescent configuration is final (`C07_completes`), every accepted trace is
bounded (`C07_terminates_all`); no phase is a dead end, what each blocking phase waits for.
`C07_old_rule_deadlock` keeps the machine-checked hang of the rule as it was before the fix. -/

/-- the static references (`deps:` and `task:` commands) are acyclic: some rank decreases
along every reference -/
def Acyclic (P : Program) : Prop := ∃ rank : Nat → Nat, RankOk P rank

/-- **C07 (the invariant behind the fix).** In every reachable configuration the wait-for
relation between registered executions (`Config.waits`: `p → k` when `k` was registered from
within `p` or a call that is part of `p` waits for `k`), restricted to executions that have not
finished, is acyclic: some rank decreases along every edge, so no execution reaches itself
through one or more edges. -/
theorem C07_wait_acyclic (P : Program) (F : Flags) (n : Nat) (tr : List Label) (c : Config)
    (h : replay P F (init n) tr = some c) :
    (∃ rk : Nat → Nat, ∀ s t, WEdge c s t → rk t < rk s) ∧ (∀ k s l, ¬ WPath c k (s :: l) k) := by
  obtain ⟨rk, hrk⟩ := (wInv_reach P F n tr c h).rank
  exact ⟨⟨rk, hrk⟩, fun k s l => no_cycle_of_rank c rk hrk k s l⟩

/-- **C07 (the check is exact).** In a reachable configuration `execWaitsFor k p` — the model of
`other.waitsFor(parent)`, a search bounded by the number of registered executions — holds iff `p`
is reachable from `k` through executions that have not finished. -/
theorem C07_waitsFor_exact (P : Program) (F : Flags) (n : Nat) (tr : List Label) (c : Config)
    (h : replay P F (init n) tr = some c) (k p : Nat) :
    c.execWaitsFor k p = true ↔ ∃ l, WPath c k l p := by
  have hw := wInv_reach P F n tr c h
  obtain ⟨rk, hrk⟩ := hw.rank
  exact ⟨reaches_sound c _ k p, fun ⟨l, hl⟩ => execWaitsFor_complete c rk hrk (fun s t e => (hw.reg s t e).1) k p l hl⟩

/-- **C07 (bookkeeping of the relation).** In a reachable configuration: an edge joins registered
executions; an activation that is the registered execution of key `k` / that waits for `k`, and is
itself part of execution `p`, has the edge `p → k` recorded; and an activation that has not returned
is part of an execution that has not finished (so none of these edges is a dead one). -/
theorem C07_wait_edges (P : Program) (F : Flags) (n : Nat) (tr : List Label) (c : Config)
    (h : replay P F (init n) tr = some c) :
    (∀ s t, (s, t) ∈ c.waits → (c.execs.lookup s).isSome = true ∧ (c.execs.lookup t).isSome = true) ∧
    (∀ a x k p, c.act? a = some x → (x.key = some k ∨ x.waitsFor = some k) → x.par = some p → (p, k) ∈ c.waits) ∧
    (∀ a x p, c.act? a = some x → x.phase ≠ .done → x.par = some p → execFinished c p = false) := by
  have hw := wInv_reach P F n tr c h
  refine ⟨hw.reg, ?_, ?_⟩
  · intro a x k p hx hk hp
    rcases hk with e | e
    · exact hw.keyEdge a x k p hx e hp
    · exact hw.waitEdge a x k p hx e hp
  · intro a x p hx hnd hp
    exact par_unfinished P F n tr c h (pos a (actIds tr) + 1) a x p (Nat.lt_succ_self _) hx hnd hp

/-- **C07 (no deadlock).** For every program — cyclic or not, through deduplicated tasks or not —
with at least one slot (or no limit), every reachable configuration in which some activation has
not returned accepts a next label: the executor never deadlocks on its concurrency slots, on
deduplicated tasks, on dependencies or on nested calls, under any interleaving.  (An activation
that cannot move waits for a slot — then a slot is free or a holder can move — or for an
activation that is strictly smaller in the lexicographic measure `(rank of the execution it works
for, creation order reversed)`, the rank being the one of `C07_wait_acyclic`.) -/
theorem C07_no_deadlock (P : Program) (F : Flags) (n : Nat) (tr : List Label) (c : Config)
    (hcap : F.cap ≠ some 0) (h : replay P F (init n) tr = some c)
    (hlive : ∃ a x, c.act? a = some x ∧ x.phase ≠ .done) : ∃ l, (step P F c l).isSome = true := by
  obtain ⟨a, x, hx, hnd⟩ := hlive
  exact no_deadlock_all P F n tr c hcap h a x hx hnd

/-- **C07 (the invocation stops only when all required work is done).** A reachable
configuration in which no label is accepted is final: every activation has returned, every slot
has been given back, and every call given to `Run` has been executed — unless `Run` is sequential
and an earlier call failed, which is when `Run` returns that error at once. -/
theorem C07_completes (P : Program) (F : Flags) (n : Nat) (tr : List Label) (c : Config)
    (hcap : F.cap ≠ some 0) (h : replay P F (init n) tr = some c)
    (hq : ∀ l, step P F c l = none) :
    (∀ a x, c.act? a = some x → x.phase = .done) ∧ c.tokens = 0 ∧
    (∀ k, k < n → (c.tops.lookup k).isSome = true ∨
      (F.parallel = false ∧ ∃ k' id r, k' < k ∧ c.tops.lookup k' = some id ∧ kidDone c id = some r ∧
        r.isOk = false)) :=
  quiescent_final_all P F n tr c hcap h hq

/-- **C07 (termination).** For every acyclic program, all flags and every number of calls
given to `Run` there is a bound on the length of ALL accepted traces: no interleaving runs
forever.  (The bound is `n * topCost`: each call costs at most the sum over its activation
tree of the local steps of each activation; the potential `pot` decreases with every label.) -/
theorem C07_terminates (P : Program) (F : Flags) (n : Nat) (hac : Acyclic P) :
    ∃ bound, ∀ (tr : List Label) (c : Config), replay P F (init n) tr = some c → tr.length ≤ bound := by
  obtain ⟨rank, hr⟩ := hac
  exact ⟨n * topCost P rank, fun tr c h => trace_bounded P F rank hr n tr c h⟩

/-- **C07 (termination, all programs).** Cyclic or not: every program, all flags, every
number of calls given to `Run` — all accepted traces are bounded (by
`2 n + Σ_t (maxCalls − 1) · unitCost t`): the call counter lets fewer than `maxCalls`
activations of each task past `enter`, each of which costs a bounded number of labels.  So a
reference cycle neither hangs (`C07_no_deadlock`) nor runs forever nor creates unboundedly many
activations: it ends; the activations that hit the limit return 204 (`C07_cycle_error`), as do
those whose wait would have closed a cycle through a deduplicated task
(`C07_cycle_error_dedup`). -/
theorem C07_terminates_all (P : Program) (F : Flags) (n : Nat) :
    ∃ bound, ∀ (tr : List Label) (c : Config), replay P F (init n) tr = some c → tr.length ≤ bound :=
  ⟨_, fun tr c h => trace_bounded_all P F n tr c h⟩

/-- … hence every run can be completed and every complete run is final: from any reachable
configuration, as long as an activation has not returned some label is accepted, and no sequence
of accepted labels is longer than the bound -/
theorem C07_ends (P : Program) (F : Flags) (n : Nat) (hcap : F.cap ≠ some 0) :
    ∃ bound, ∀ (tr : List Label) (c : Config), replay P F (init n) tr = some c →
      tr.length ≤ bound ∧ ((∃ a x, c.act? a = some x ∧ x.phase ≠ .done) → ∃ l, (step P F c l).isSome = true) := by
  obtain ⟨b, hb⟩ := C07_terminates_all P F n
  exact ⟨b, fun tr c h => ⟨hb tr c h, C07_no_deadlock P F n tr c hcap h⟩⟩

/-- every activation takes boundedly many steps, in any program (cyclic or not): each local
step decreases `rem` -/
theorem C07_local_steps_bounded (F : Flags) (o : Obs) (x : Act) (ev : Ev) (y : Act) (eff : Eff)
    (h : stepLocal F o x ev = some (y, eff)) : rem y < rem x := stepLocal_rem F o x ev y eff h

/-- **C07 (no phase is a dead end).** Every activation of every reachable configuration is
well-formed and, unless it has returned, has an event (`someEv`) that is accepted as soon as
what it waits for has arrived (`freeObs`: a free slot, the dependencies / callee / registered
execution returned). -/
theorem C07_no_dead_end (P : Program) (F : Flags) (n : Nat) (tr : List Label) (c : Config)
    (h : replay P F (init n) tr = some c) (a : Nat) (x : Act) (hx : c.act? a = some x)
    (hnd : x.phase ≠ .done) : WF x ∧ (stepLocal F freeObs x (someEv F x)).isSome = true := by
  have hw : WF x := localInv_sound WF P F (WF_fresh P F) (fun o x ev y eff => WF_local F o x ev y eff)
    (fun x k hw => ⟨hw.rest, hw.stack, hw.defers, hw.running⟩) n tr c h a x hx
  exact ⟨hw, someEv_enabled F x hw hnd⟩

/-- **C07 (what blocks).** An activation that has not returned and is not in one of the
waiting phases (`entered`/`wWoken`/`callReturned`: a slot; `wReleased`: the registered
execution; `depsWait`: the dependencies and a slot; `inCall`: the callee) can move whatever
the other activations do (`acquired`: `acquired_enabled`; `depsJoined`: `depsDone`). -/
theorem C07_only_waits_block (P : Program) (F : Flags) (n : Nat) (tr : List Label) (c : Config)
    (h : replay P F (init n) tr = some c) (a : Nat) (x : Act) (hx : c.act? a = some x)
    (hnd : x.phase ≠ .done) (hn : waitsOn x.phase = .nothing) (h1 : x.phase ≠ .acquired)
    (h2 : x.phase ≠ .depsJoined) : (step P F c ⟨a, someEv F x⟩).isSome = true := by
  have hw := (C07_no_dead_end P F n tr c h a x hx hnd).1
  have hen := nonblocking_enabled F (obsOf F c a x) x hw hnd hn h1 h2
  have hne : ∀ k t, someEv F x ≠ .enter k t := by
    intro k t e
    have := hen; rw [e] at this; simp [stepLocal] at this
  cases hs : stepLocal F (obsOf F c a x) x (someEv F x) with
  | none => rw [hs] at hen; cases hen
  | some p =>
    obtain ⟨y, eff⟩ := p
    unfold step
    split
    · rename_i k t he; exact absurd he (hne k t)
    · simp [hx, hs]

/-! ## non-vacuity -/

/-- a task with two independent dependencies, one slot -/
private def fan : Program :=
  [{ deps := [1, 2] }, { cmds := [.shell 0 false false] }, { cmds := [.shell 0 false false] }]
private def one : Flags := { cap := some 1 }

private def fanRun : List Label :=
  [⟨1, .enter (.top 0) 0⟩, ⟨1, .acquire⟩, ⟨1, .depsRelease⟩,
   ⟨2, .enter (.dep 1 0) 1⟩, ⟨3, .enter (.dep 1 1) 2⟩,          -- both dependencies start at once
   ⟨2, .acquire⟩, ⟨2, .depsRelease⟩, ⟨2, .depsReacq⟩, ⟨2, .depsDone .ok⟩, ⟨2, .guardsPassed⟩,
   ⟨2, .cmdStart 0 none false⟩]

theorem fan_acyclic : Acyclic fan := by
  refine ⟨fun t => if t = 0 then 1 else 0, ?_⟩
  intro t d h
  match t with
  | 0 => simp [fan] at h; subst h; simp
  | 1 => simp [fan] at h; subst h; simp
  | 2 => simp [fan] at h; subst h; simp
  | t + 3 => simp [fan] at h

-- the run is accepted; one slot in use, held by the activation inside its shell command
example : ((replay fan one (init 1) fanRun).map (fun c => (c.tokens, holders c (actIds fanRun), shells c (actIds fanRun))))
    = some (1, 1, 1) := by decide
-- the hypotheses of `C07_no_deadlock` / `C07_completes` (at least one slot) and of `C07_terminates` are met by this run
example : one.cap ≠ some 0 ∧ Acyclic fan := ⟨by decide, fan_acyclic⟩
-- the second dependency cannot take a slot while the first one runs its command …
example : (replay fan one (init 1) (fanRun ++ [⟨3, .acquire⟩])).isNone = true := by decide
-- … the raw monitor rejects such a log, and accepts the real one
example : boundOk 1 (fanRun ++ [⟨3, .acquire⟩]) 0 = false := by decide
example : boundOk 1 fanRun 0 = true := by decide
-- … but it can with two slots
example : (replay fan { cap := some 2 } (init 1) (fanRun ++ [⟨3, .acquire⟩])).isSome = true := by decide
-- a command started without a slot is rejected by `holdMon`
example : (holdMon.run holdMon.init [.enter (.top 0) 0, .cmdStart 0 none false]).isNone = true := by decide

/-- two dependencies on the same `run: once` task: one executes, the other waits for it -/
private def shared : Program := [{ deps := [1, 1] }, { run := .once, cmds := [.shell 0 false false] }]
private def two : Flags := { cap := some 2 }

private def sharedRun : List Label :=
  [⟨1, .enter (.top 0) 0⟩, ⟨1, .acquire⟩, ⟨1, .depsRelease⟩, ⟨2, .enter (.dep 1 0) 1⟩, ⟨3, .enter (.dep 1 1) 1⟩,
   ⟨2, .acquire⟩, ⟨2, .register 7⟩, ⟨3, .acquire⟩, ⟨3, .waiter 7⟩, ⟨3, .wRelease⟩,
   ⟨2, .depsRelease⟩, ⟨2, .depsReacq⟩, ⟨2, .depsDone .ok⟩, ⟨2, .guardsPassed⟩,
   ⟨2, .cmdStart 0 none false⟩, ⟨2, .cmdEnd 0 .ok⟩, ⟨2, .execDone⟩, ⟨3, .wWake⟩, ⟨3, .wReacq⟩,
   ⟨2, .release⟩, ⟨2, .exit⟩, ⟨3, .release⟩, ⟨3, .exit⟩,
   ⟨1, .depsReacq⟩, ⟨1, .depsDone .ok⟩, ⟨1, .guardsPassed⟩, ⟨1, .release⟩, ⟨1, .exit⟩]

theorem shared_acyclic : Acyclic shared := by
  refine ⟨fun t => if t = 0 then 1 else 0, ?_⟩
  intro t d h
  match t with
  | 0 => simp [shared] at h; subst h; simp
  | 1 => simp [shared] at h; subst h; simp
  | t + 2 => simp [shared] at h

-- a complete run with a deduplicated task: accepted, meets the hypothesis of `C07_no_deadlock` /
-- `C07_completes`, ends in a configuration that accepts no label (`deadlocked_sound`), all slots free;
-- the waiter is outside every execution, so it records no wait-for edge
example : two.cap ≠ some 0 ∧ Acyclic shared := ⟨by decide, shared_acyclic⟩
example : ((replay shared two (init 1) sharedRun).map (fun c => c.waits)) = some [] := by decide
example : ((replay shared two (init 1) sharedRun).map (fun c => (deadlocked c, c.tokens, boundOk 2 sharedRun 0)))
    = some (true, 0, true) := by decide
-- half-way through, the waiter is blocked (`wWake` rejected) but the execution can move
example : (replay shared two (init 1) (sharedRun.take 10 ++ [⟨3, .wWake⟩])).isNone = true := by decide

/-- a task that depends on itself; limit 3 instead of 1000 -/
private def selfDep : Program := [{ deps := [0] }]
private def lim3 : Flags := { maxCalls := 3 }

private def selfDepRun : List Label :=
  [⟨1, .enter (.top 0) 0⟩, ⟨1, .acquire⟩, ⟨1, .depsRelease⟩,
   ⟨2, .enter (.dep 1 0) 0⟩, ⟨2, .acquire⟩, ⟨2, .depsRelease⟩,
   ⟨3, .enter (.dep 2 0) 0⟩, ⟨3, .exit⟩,                           -- third call: 204, nothing runs
   ⟨2, .depsReacq⟩, ⟨2, .depsDone (.typed 204)⟩, ⟨2, .release⟩, ⟨2, .exit⟩,
   ⟨1, .depsReacq⟩, ⟨1, .depsDone (.typed 204)⟩, ⟨1, .release⟩, ⟨1, .exit⟩]

example : ((replay selfDep lim3 (init 1) selfDepRun).map
    (fun c => (c.tokens, c.callCount 0, (c.act? 3).map (·.res), (c.act? 1).map (fun x => (x.res, x.phase)))))
    = some (0, 3, some (.typed 204), some (.typed 204, .done)) := by decide
-- the third activation cannot take a slot
example : (replay selfDep lim3 (init 1) (selfDepRun.take 7 ++ [⟨3, .acquire⟩])).isNone = true := by decide

/-- a task that calls itself through a `task:` command -/
private def selfCall : Program := [{ cmds := [.call 0 false] }]

private def selfCallRun : List Label :=
  [⟨1, .enter (.top 0) 0⟩, ⟨1, .acquire⟩, ⟨1, .depsRelease⟩, ⟨1, .depsReacq⟩, ⟨1, .depsDone .ok⟩, ⟨1, .guardsPassed⟩,
   ⟨1, .callRelease 0 false⟩,
   ⟨2, .enter (.call 1 0 false) 0⟩, ⟨2, .acquire⟩, ⟨2, .depsRelease⟩, ⟨2, .depsReacq⟩, ⟨2, .depsDone .ok⟩,
   ⟨2, .guardsPassed⟩, ⟨2, .callRelease 0 false⟩,
   ⟨3, .enter (.call 2 0 false) 0⟩, ⟨3, .exit⟩,
   ⟨2, .callRet 0⟩, ⟨2, .callReacq 0⟩, ⟨2, .release⟩, ⟨2, .exit⟩,
   ⟨1, .callRet 0⟩, ⟨1, .callReacq 0⟩, ⟨1, .release⟩, ⟨1, .exit⟩]

-- the callee fails with 204, the task named on the command line with 201 wrapping it
example : ((replay selfCall lim3 (init 1) selfCallRun).map
    (fun c => (c.tokens, (c.act? 2).map (·.res), (c.act? 1).map (fun x => (x.res, x.phase)))))
    = some (0, some (.typed 204), some (.run (.typed 204), .done)) := by decide

/-! ### reference cycles through deduplicated tasks end with 204 -/

/-- a task that runs once and depends on itself -/
def onceDep : Program := [{ run := .once, deps := [0] }]
/-- … or calls itself -/
def onceCall : Program := [{ run := .once, cmds := [.call 0 false] }]

/-- up to the point where the inner reference has taken its slot -/
def onceDepPrefix : List Label :=
  [⟨1, .enter (.top 0) 0⟩, ⟨1, .acquire⟩, ⟨1, .register 0⟩, ⟨1, .depsRelease⟩,
   ⟨2, .enter (.dep 1 0) 0⟩, ⟨2, .acquire⟩]

def onceDepRun : List Label :=
  onceDepPrefix ++ [⟨2, .waitCycle 0⟩, ⟨2, .release⟩, ⟨2, .exit⟩,
   ⟨1, .depsReacq⟩, ⟨1, .depsDone (.typed 204)⟩, ⟨1, .execDone⟩, ⟨1, .release⟩, ⟨1, .exit⟩]

-- the inner reference is part of the execution it finds registered: waiting is refused …
example : (replay onceDep {} (init 1) (onceDepPrefix ++ [⟨2, .waiter 0⟩])).isNone = true := by decide
example : ((replay onceDep {} (init 1) onceDepPrefix).map (fun c => ((c.act? 2).map (·.par), c.execWaitsFor 0 0)))
    = some (some (some 0), true) := by decide
-- … and the run ends: the dependency returns 204, so does the task named on the command line
example : ((replay onceDep {} (init 1) onceDepRun).map
    (fun c => (c.tokens, (c.act? 2).map (·.res), (c.act? 1).map (fun x => (x.res, x.phase)), deadlocked c)))
    = some (0, some (.typed 204), some (.typed 204, .done), true) := by decide

def onceCallRun : List Label :=
  [⟨1, .enter (.top 0) 0⟩, ⟨1, .acquire⟩, ⟨1, .register 0⟩, ⟨1, .depsRelease⟩, ⟨1, .depsReacq⟩, ⟨1, .depsDone .ok⟩,
   ⟨1, .guardsPassed⟩, ⟨1, .callRelease 0 false⟩,
   ⟨2, .enter (.call 1 0 false) 0⟩, ⟨2, .acquire⟩, ⟨2, .waitCycle 0⟩, ⟨2, .release⟩, ⟨2, .exit⟩,
   ⟨1, .callRet 0⟩, ⟨1, .callReacq 0⟩, ⟨1, .execDone⟩, ⟨1, .release⟩, ⟨1, .exit⟩]

-- through a `task:` command: the callee returns 204, the task named on the command line 201 wrapping it
example : ((replay onceCall {} (init 1) onceCallRun).map
    (fun c => (c.tokens, (c.act? 2).map (·.res), (c.act? 1).map (fun x => (x.res, x.phase)))))
    = some (0, some (.typed 204), some (.run (.typed 204), .done)) := by decide

/-- two `run: once` tasks that depend on each other, both named on the command line, `--parallel` -/
private def mutualOnce : Program := [{ run := .once, deps := [1] }, { run := .once, deps := [0] }]
private def par : Flags := { parallel := true }

private def mutualPrefix : List Label :=
  [⟨1, .enter (.top 0) 0⟩, ⟨2, .enter (.top 1) 1⟩, ⟨1, .acquire⟩, ⟨1, .register 0⟩, ⟨2, .acquire⟩, ⟨2, .register 1⟩,
   ⟨1, .depsRelease⟩, ⟨2, .depsRelease⟩,
   ⟨3, .enter (.dep 1 0) 1⟩, ⟨3, .acquire⟩, ⟨3, .waiter 1⟩, ⟨3, .wRelease⟩,     -- execution 0 waits for execution 1
   ⟨4, .enter (.dep 2 0) 0⟩, ⟨4, .acquire⟩]

private def mutualRun : List Label :=
  mutualPrefix ++ [⟨4, .waitCycle 0⟩, ⟨4, .release⟩, ⟨4, .exit⟩,                   -- … so 1 may not wait for 0
   ⟨2, .depsReacq⟩, ⟨2, .depsDone (.typed 204)⟩, ⟨2, .execDone⟩, ⟨3, .wWake⟩, ⟨3, .wReacq⟩, ⟨3, .release⟩, ⟨3, .exit⟩,
   ⟨2, .release⟩, ⟨2, .exit⟩, ⟨1, .depsReacq⟩, ⟨1, .depsDone (.typed 204)⟩, ⟨1, .execDone⟩, ⟨1, .release⟩, ⟨1, .exit⟩]

-- the first wait is recorded as an edge; the wait that would close the cycle is refused, the other event rejected
example : ((replay mutualOnce par (init 2) mutualPrefix).map (fun c => (c.waits, c.execWaitsFor 0 1, c.execWaitsFor 1 0)))
    = some ([(0, 1)], true, false) := by decide
example : (replay mutualOnce par (init 2) (mutualPrefix ++ [⟨4, .waiter 0⟩])).isNone = true := by decide
example : (replay mutualOnce par (init 2) (mutualPrefix.take 10 ++ [⟨3, .waitCycle 1⟩])).isNone = true := by decide
-- both calls end with 204
example : ((replay mutualOnce par (init 2) mutualRun).map
    (fun c => (c.tokens, (c.act? 1).map (fun x => (x.res, x.phase)), (c.act? 2).map (fun x => (x.res, x.phase)), deadlocked c)))
    = some (0, some (.typed 204, .done), some (.typed 204, .done), true) := by decide

/-- a `run: once` task whose `defer:` calls it again -/
private def deferSelf : Program := [{ run := .once, cmds := [.call 0 true, .shell 0 false false] }]

private def deferSelfRun : List Label :=
  [⟨1, .enter (.top 0) 0⟩, ⟨1, .acquire⟩, ⟨1, .register 0⟩, ⟨1, .depsRelease⟩, ⟨1, .depsReacq⟩, ⟨1, .depsDone .ok⟩,
   ⟨1, .guardsPassed⟩, ⟨1, .cmdStart 1 none false⟩, ⟨1, .cmdEnd 1 .ok⟩, ⟨1, .callRelease 0 true⟩,
   ⟨2, .enter (.call 1 0 true) 0⟩, ⟨2, .acquire⟩, ⟨2, .waitCycle 0⟩, ⟨2, .release⟩, ⟨2, .exit⟩,
   ⟨1, .callRet 0⟩, ⟨1, .callReacq 0⟩, ⟨1, .execDone⟩, ⟨1, .release⟩, ⟨1, .exit⟩]

-- the deferred call knows the execution it is part of (`runDeferred` keeps the context's values): it is
-- refused with 204, which a `defer:` discards — the task itself succeeds
example : ((replay deferSelf {} (init 1) deferSelfRun).map
    (fun c => (c.tokens, (c.act? 2).map (fun x => (x.par, x.res)), (c.act? 1).map (fun x => (x.res, x.phase)))))
    = some (0, some (some 0, .typed 204), some (.ok, .done)) := by decide
example : (replay deferSelf {} (init 1) (deferSelfRun.take 12 ++ [⟨2, .waiter 0⟩])).isNone = true := by decide

/-! ### the rule before the fix — a fact about the OLD rule (`S7.stepOld`), not about the model -/

/-- the log the unpatched executor wrote before it hung: the inner reference waits for the execution it is part of -/
def onceDepHang : List Label := onceDepPrefix ++ [⟨2, .waiter 0⟩, ⟨2, .wRelease⟩]

/-- **The OLD rule deadlocks (finding `C07-once-cycle-deadlocks`, fixed).**  Under the rule of
`startExecution` as it was before the fix — a call that finds its key registered waits, whoever
registered it (`S7.stepOld`: the same transition function with the wait-for check switched off) —
a `run: once` task that depends on itself reaches a configuration in which the registered execution
waits for its dependency (`depsWait`) and that dependency, a waiter on the very same execution,
waits for it (`wReleased`): all slots free, no label at all accepted, the call counter nowhere near
its limit.  The model — the rule as it is now — rejects that log at the `waiter` event
(`C07_no_deadlock` has no exception any more). -/
theorem C07_old_rule_deadlock :
    (∃ c, replayOld onceDep {} (init 1) onceDepHang = some c ∧
      (c.tokens = 0 ∧ c.callCount 0 = 2 ∧
       (c.act? 1).map (·.phase) = some .depsWait ∧ (c.act? 2).map (·.phase) = some .wReleased) ∧
      ∀ l, stepOld onceDep {} c l = none) ∧
    replay onceDep {} (init 1) onceDepHang = none := by
  refine ⟨?_, by decide⟩
  cases hr : replayOld onceDep {} (init 1) onceDepHang with
  | none => exact absurd hr (by decide)
  | some c =>
    have h1 : (replayOld onceDep {} (init 1) onceDepHang).map deadlocked = some true := by decide
    have h2 : (replayOld onceDep {} (init 1) onceDepHang).map (fun c => (c.tokens, c.callCount 0,
        (c.act? 1).map (·.phase), (c.act? 2).map (·.phase))) = some (0, 2, some .depsWait, some .wReleased) := by
      decide
    rw [hr] at h1 h2
    simp only [Option.map_some, Option.some.injEq, Prod.mk.injEq] at h1 h2
    exact ⟨c, rfl, ⟨h2.1, h2.2.1, h2.2.2.1, h2.2.2.2⟩, deadlocked_sound_old onceDep {} c h1⟩

/-! ## the call limit and ACYCLIC programs (open finding `C07-call-limit-hits-acyclic-graphs`)

`MaximumTaskCall` is a per-task count of calls within one invocation, not a recursion depth.  It cuts
every cycle (`C07_cycle_bound`, `C07_cycle_error`) — and it also cuts acyclic programs that refer to one
task often enough: a binary tree of `task:` entries of depth 10, a `for:` loop over 1000 items, a
`run: once` task with 1000 dependents.  The model mirrors the code (`earlyResult`), so the statement
"an acyclic program never ends a call with 204" is FALSE of it; what holds is the partial statement
below: no activation of a task is refused while the task has been referred to fewer than `maxCalls`
times.  The driver evaluates `callLimitMon` on every log (verdict `C07a`). -/

/-- the full statement: in an accepted run of an acyclic program no activation is born with the
"called too many times" error -/
def C07_acyclic_no_204 : Prop :=
  ∀ (P : Program) (F : Flags) (n : Nat) (tr : List Label) (c : Config),
    acyclic P = true → replay P F (init n) tr = some c → limitHits P F (init n) tr = false

/-- two tasks, no cycle: task 0 calls task 1 twice; with a limit of 2 the second call is refused -/
private def progA : Program := [{ cmds := [.call 1 false, .call 1 false] }, { cmds := [.shell 0 false false] }]
private def runA : List Label :=
  [⟨1, .enter (.top 0) 0⟩, ⟨1, .acquire⟩, ⟨1, .depsRelease⟩, ⟨1, .depsReacq⟩, ⟨1, .depsDone .ok⟩, ⟨1, .guardsPassed⟩,
   ⟨1, .callRelease 0 false⟩, ⟨2, .enter (.call 1 0 false) 1⟩, ⟨2, .acquire⟩, ⟨2, .depsRelease⟩, ⟨2, .depsReacq⟩,
   ⟨2, .depsDone .ok⟩, ⟨2, .guardsPassed⟩, ⟨2, .cmdStart 0 none false⟩, ⟨2, .cmdEnd 0 .ok⟩, ⟨2, .release⟩, ⟨2, .exit⟩,
   ⟨1, .callRet 0⟩, ⟨1, .callReacq 0⟩, ⟨1, .callRelease 1 false⟩, ⟨3, .enter (.call 1 1 false) 1⟩, ⟨3, .exit⟩,
   ⟨1, .callRet 1⟩, ⟨1, .callReacq 1⟩, ⟨1, .release⟩, ⟨1, .exit⟩]

/-- **C07 (counterexample).** The full statement is false: an acyclic program, an accepted complete run,
and an activation refused by the call limit (the mechanism does not depend on the value of the limit;
the witness `findings/C07-call-limit-hits-acyclic-graphs.json` shows it with the real 1000). -/
theorem C07_acyclic_no_204_counterexample : ¬ C07_acyclic_no_204 := by
  intro h
  have h1 : acyclic progA = true := by decide
  have h2 : (replay progA { maxCalls := 2 } (init 1) runA).isSome = true := by decide
  obtain ⟨c, hc⟩ := Option.isSome_iff_exists.mp h2
  have h3 := h progA { maxCalls := 2 } 1 runA c h1 hc
  have h4 : limitHits progA { maxCalls := 2 } (init 1) runA = true := by decide
  rw [h4] at h3; cases h3

/-- the refused call returns 204 to its caller, which fails: the invocation ends with 201 wrapping it -/
example : ((replay progA { maxCalls := 2 } (init 1) runA).bind (·.act? 1)).map (·.res) = some (.run (.typed 204)) := by decide
example : callLimitMon progA { maxCalls := 2 } 1 runA = false := by decide

/-- **C07 (partial: no refusal below the limit).** In every accepted run, an activation of task `t` created
when `t` has been referred to fewer than `maxCalls - 1` times so far is NOT born with the call-limit error —
for every program, cyclic or not.  (With `C07_cycle_error`: the limit is hit exactly by the `maxCalls`-th
reference.) -/
theorem C07_no_204_if_refs_lt_max (P : Program) (F : Flags) (n : Nat) (tr : List Label) (c : Config)
    (h : replay P F (init n) tr = some c) (t : Nat) (hlt : enters t tr + 1 < F.maxCalls) :
    limitHit P F c t = false := by
  have hcc := (callInv_reach P F t n tr c h).2.2.2.1
  have hle : c.callCount t ≤ enters t tr := by rw [hcc]; split <;> omega
  unfold limitHit earlyResult
  cases hd : P[t]? with
  | none => simp
  | some d =>
    simp only
    repeat' split
    all_goals first
      | rfl
      | (simp; done)
      | (exfalso; omega)

/-- a run with fewer than `maxCalls` activations altogether never hits the limit: `callLimitMon` can only fail
on runs at least that long -/
example : callLimitMon progA { maxCalls := 1000 } 1 runA = true := by decide

/-! ## all the work is done (trace-level)

What "the invocation terminates" leaves open: that a returned activation has actually DONE its work.  For an
activation that has returned (`done`), passed its guards and recorded no failure: every non-deferred entry of its
command list was started (`C02_body_complete`), every deferred entry ran, last one first
(`C14_all_run_complete`), it holds no slot, and every activation below it — dependencies, called tasks, their
descendants — has returned with all its deferred entries run (`C02_descendants_done`). -/

theorem C07_all_work_done (P : Program) (F : Flags) (n : Nat) (tr : List Label) (c : Config)
    (h : replay P F (init n) tr = some c) (a : Nat) (x : Act) (hx : c.act? a = some x)
    (hd : x.phase = .done) (hg : Ev.guardsPassed ∈ evsOf a tr) (ho : x.out = {}) :
    x.started = plainBelow x.def_.cmds x.def_.cmds.length ∧
    x.ran = (defersBelow x.def_.cmds x.def_.cmds.length).reverse ∧
    x.holds = false ∧
    (∀ b, Props.C02.Descendant c a b → Props.C02.Finished c b) := by
  refine ⟨Props.C02.C02_body_complete P F n tr c h a x hx hg (by rw [hd]; rfl) ho,
    Props.C14.C14_all_run_complete P F n tr c h a x hx hg (by rw [hd]; rfl) ho, ?_,
    fun b hb => Props.C02.C02_descendants_done P F n tr c h a b x hx hd hb⟩
  rw [(C07_holds_while_running P F n tr c h a x hx).1, hd]; rfl

end Props.C07
