import Props.SchedTie
import TaskModel.Sched.MonC07
import TaskModel.Sched.CallLemmas
import TaskModel.Sched.ProgressLemmas
import TaskModel.Sched.DeadlockLemmas
import TaskModel.Sched.TermInv
import TaskModel.Sched.LiveMain
import TaskModel.Sched.LiveFinal
import TaskModel.Sched.TermAll
import TaskModel.Gen.Codes
/-!
# C07 — Bounded concurrency, no deadlock, guaranteed termination

Statements are about every trace the executor model accepts (`replay … = some c`): all
programs, flags, interleavings.  Tie: the `sched` correspondence replays the event log of
the real executor through the same `replay`; `boundOk` is also evaluated directly on the
implementation's event log (`monitorVerdicts`).
-/
namespace Props.C07
open TaskModel.Sched.S7
open TaskModel.Sched

/-! ## the bound -/

/-- **C07 (bound).** With `--concurrency N` the number of slots in use never exceeds `N`,
in any reachable configuration of any program under any interleaving. -/
theorem C07_bound_tokens (P : Program) (F : Flags) (N : Nat) (hcap : F.cap = some N)
    (n : Nat) (tr : List Label) (c : Config) (h : replay P F (init n) tr = some c) : c.tokens ≤ N :=
  replay_inv P F (fun c => c.tokens ≤ N)
    (fun c l c' hle hs => (tokens_step P F N hcap c l c' hle hs).1) (init n) tr c (Nat.zero_le _) h

/-- **C07 (bound, on the raw event log).** Every trace the model accepts passes the raw
monitor `boundOk` that `monitorVerdicts` evaluates on the implementation's log. -/
theorem C07_bound_raw (P : Program) (F : Flags) (N : Nat) (hcap : F.cap = some N)
    (n : Nat) (tr : List Label) (c : Config) (h : replay P F (init n) tr = some c) : boundOk N tr 0 = true :=
  boundOk_replay P F N hcap tr (init n) c (Nat.zero_le _) h

/-! ## who holds the slots -/

/-- **C07 (a slot is held exactly between taking and giving it back).** In every
reachable configuration an activation's `holds` flag is `holdPhase` of its phase: set by
`acquire`/`wReacq`/`depsReacq`/`callReacq`, cleared by `wRelease`/`depsRelease`/
`callRelease`/`release`.  In particular a shell command — deferred or not — runs only
while its activation holds a slot. -/
theorem C07_holds_while_running (P : Program) (F : Flags) (n : Nat) (tr : List Label) (c : Config)
    (h : replay P F (init n) tr = some c) (a : Nat) (x : Act) (hx : c.act? a = some x) :
    x.holds = holdPhase x.phase ∧ (∀ i d, x.phase = .inShell i d → x.holds = true) := by
  have hg : HoldsInv x := localInv_sound HoldsInv P F (holdsInv_fresh P F)
    (fun o x ev y eff hg hs => (stepLocal_holds F o x ev y eff hg hs).1) (fun _ _ hg => hg) n tr c h a x hx
  refine ⟨hg, ?_⟩
  intro i d hp
  rw [hg, hp]; rfl

/-- **C07 (the slots in use are the activations that hold one).** After every accepted
trace the slot counter equals the number of distinct activations whose `holds` flag is
set (the activations are the ids of the `enter` events, which are distinct). -/
theorem C07_tokens_are_holders (P : Program) (F : Flags) (n : Nat) (tr : List Label) (c : Config)
    (h : replay P F (init n) tr = some c) :
    (actIds tr).Nodup ∧ (∀ a, a ∈ actIds tr ↔ (c.act? a).isSome = true) ∧
    c.tokens = holders c (actIds tr) := by
  have := replay_inv_tr P F TokInv (tokInv_step P F) n
    ⟨idsInv_init n, by intro a x hx; simp [init, Config.act?] at hx, rfl⟩ tr c h
  exact ⟨this.1.1, this.1.2, this.2.2⟩

/-- **C07 (at most N tasks execute commands at any instant).** The number of activations
inside a shell command never exceeds the number of slots in use, hence never `N`. -/
theorem C07_bound (P : Program) (F : Flags) (N : Nat) (hcap : F.cap = some N)
    (n : Nat) (tr : List Label) (c : Config) (h : replay P F (init n) tr = some c) :
    shells c (actIds tr) ≤ c.tokens ∧ c.tokens ≤ N := by
  refine ⟨?_, C07_bound_tokens P F N hcap n tr c h⟩
  rw [(C07_tokens_are_holders P F n tr c h).2.2]
  unfold shells holders cnt
  apply List.countP_mono_left
  intro a _ ha
  unfold actB at ha ⊢
  cases hx : c.act? a with
  | none => rw [hx] at ha; cases ha
  | some x =>
    rw [hx] at ha; simp only at ha ⊢
    unfold inShellB at ha
    split at ha
    · rename_i i d hp; exact (C07_holds_while_running P F n tr c h a x hx).2 i d hp
    · cases ha

/-- **C07 (on the raw events of one activation).** In every accepted trace each
activation takes and gives back slots alternately, and starts / ends shell commands only
while it holds one: the executable monitor `holdMon` accepts. -/
theorem C07_cmd_while_holding (P : Program) (F : Flags) (n : Nat) (tr : List Label) (c : Config)
    (h : replay P F (init n) tr = some c) (a : Nat) :
    (holdMon.run holdMon.init (evsOf a tr)).isSome = true :=
  actMon_accepts holdMon holdR P F (holdR_fresh P F)
    (fun o s x ev y eff hR hs => holdR_local F o s x ev y eff hR hs) (fun _ _ _ h => h) n tr c h a

/-! ## independent dependencies start without waiting for one another -/

/-- **C07 (work conservation, dependencies).** A dependency activation may enter as soon
as its parent waits for its dependencies (`depsWait`, slot given back) and that dependency
has not been started yet — whatever the sibling dependencies are doing and however many
slots are in use. -/
theorem C07_work_conserving_dep (P : Program) (F : Flags) (c : Config) (p : Nat) (px : Act) (j t a : Nat)
    (hp : c.act? p = some px) (hph : px.phase = .depsWait)
    (hslot : px.kids.lookup (slotOfDep j) = none) (hdep : px.def_.deps[j]? = some t)
    (ha : c.act? a = none) :
    enterCheck F c a (.dep p j) t = some (.act p { px with kids := (slotOfDep j, a) :: px.kids }) ∧
    (step P F c ⟨a, .enter (.dep p j) t⟩).isSome = true := by
  have h1 : enterCheck F c a (.dep p j) t = some (.act p { px with kids := (slotOfDep j, a) :: px.kids }) := by
    simp [enterCheck, hp, hph, hslot, hdep]
  refine ⟨h1, ?_⟩
  simp [step, enterAct, ha, h1]

/-- **C07 (work conservation, slots).** An activation that has passed the checks of
`RunTask` takes a slot as soon as one is free. -/
theorem C07_work_conserving_acquire (P : Program) (F : Flags) (c : Config) (a : Nat) (x : Act)
    (hx : c.act? a = some x) (hph : x.phase = .entered) (hfree : capFree F c = true) :
    step P F c ⟨a, .acquire⟩ =
      some (({ c with tokens := c.tokens + 1 }).set a { x with phase := .acquired, holds := true }) := by
  simp [step, hx, stepLocal, hph, obsOf, hfree, applyEff]

/-- the only thing `acquire` waits for is a free slot -/
theorem C07_acquire_waits_for_slot (F : Flags) (o : Obs) (x : Act) (hph : x.phase = .entered) :
    (stepLocal F o x .acquire).isSome = o.capFree := by
  simp only [stepLocal, hph]; cases o.capFree <;> rfl

/-! ## cyclic references end with an error -/

/-- the limit and the comparison are those of the tree under test -/
theorem max_calls_ok : TaskModel.Gen.Codes.maximumTaskCall = 1000 ∧ TaskModel.Gen.Codes.maxCallCompare = ">=" ∧
    ({} : Flags).maxCalls = TaskModel.Gen.Codes.maximumTaskCall ∧
    TaskModel.Gen.Codes.errorCodes.lookup "TaskCalledTooManyTimesError" = some 204 ∧
    TaskModel.Gen.Codes.errorCodes.lookup "TaskRunError" = some 201 := by decide

/-- **C07 (call counter).** The counter of task `t` is the number of its `enter` events
(0 if a check that precedes the counter fails), in every reachable configuration. -/
theorem C07_call_count (P : Program) (F : Flags) (n : Nat) (tr : List Label) (c : Config)
    (h : replay P F (init n) tr = some c) (t : Nat) :
    c.callCount t = (if bumps P t then enters t tr else 0) ∧ c.callCount t ≤ enters t tr := by
  have := (callInv_reach P F t n tr c h).2.2.2.1
  refine ⟨this, ?_⟩
  rw [this]; split <;> omega

/-- **C07 (cycles are cut).** In every accepted trace fewer than `maxCalls` activations of
any one task ever take a slot (they are distinct activations, each of which took its first
slot once): unbounded recursion through `deps:` or `task:` is impossible.  Every further
activation of the task is born in phase `early`. -/
theorem C07_cycle_bound (P : Program) (F : Flags) (n : Nat) (tr : List Label) (c : Config)
    (h : replay P F (init n) tr = some c) (t : Nat) :
    (acquirers tr).Nodup ∧ cnt (isTask t) c (acquirers tr) ≤ F.maxCalls - 1 := by
  obtain ⟨_, hnd, _, _, _, hle⟩ := callInv_reach P F t n tr c h
  exact ⟨hnd, by omega⟩

/-- **C07 (the error).** The activation that brings the counter to the limit is born with
the result "called too many times" (204): it takes no slot, starts nothing, and can only
return (`stepLocal_early`). -/
theorem C07_cycle_error (P : Program) (F : Flags) (c : Config) (kind : Kind) (t : Nat)
    (hb : bumps P t = true) (hl : c.callCount t + 1 ≥ F.maxCalls) :
    (freshAct P F c kind t).phase = .early ∧ (freshAct P F c kind t).res = .typed 204 ∧
    (freshAct P F c kind t).started = [] ∧ (freshAct P F c kind t).holds = false ∧
    (∀ o ev y eff, stepLocal F o (freshAct P F c kind t) ev = some (y, eff) →
      ev = .exit ∧ eff = .none ∧ y.phase = .done ∧ y.res = .typed 204) := by
  obtain ⟨h1, h2⟩ := freshAct_limit P F c kind t hb hl
  obtain ⟨_, _, _, _, hs, _, hh, _⟩ := freshAct_fields P F c kind t
  refine ⟨h1, h2, hs, hh, ?_⟩
  intro o ev y eff hst
  obtain ⟨e1, e2, e3⟩ := stepLocal_early F o _ ev y eff h1 hst
  exact ⟨e1, e2, by rw [e3], by rw [e3]; exact h2⟩

/-- … and the caller that reached it through a `task:` command fails with it: unwrapped
if the caller was itself called by a task, wrapped in a task-run error (201) if the caller
was named on the command line -/
theorem C07_cycle_error_wrapped (x : Act) (c : Cmd) :
    (x.afterCmd c (.typed 204)).res = (if x.indirect then .typed 204 else .run (.typed 204)) := by
  cases c <;> simp [Act.afterCmd, Act.fail]

/-! ## deadlock freedom and termination

Proved: deadlock freedom (`C07_no_deadlock`) for programs without a reference cycle through
a deduplicated task, termination for all programs (`C07_terminates_all`; `C07_terminates`
with a bound independent of the call limit for acyclic ones), what a quiescent configuration
looks like (`C07_completes`), no phase is a dead end, what each blocking phase waits for,
and the machine-checked deadlock of a cycle through a `run: once` task. -/

/-- the static references (`deps:` and `task:` commands) are acyclic: some rank decreases
along every reference -/
def Acyclic (P : Program) : Prop := ∃ rank : Nat → Nat, RankOk P rank

/-- no reference cycle goes through a deduplicated (`run: once` / `when_changed`) task: some
rank never increases along a reference and decreases along every reference from or to such a
task.  Acyclic programs and programs with only `run: always` tasks (cyclic or not) qualify. -/
def NoDedupCycle (P : Program) : Prop := ∃ rank : Nat → Nat, SemiRankOk P rank

theorem noDedupCycle_of_acyclic (P : Program) (h : Acyclic P) : NoDedupCycle P := by
  obtain ⟨rank, hr⟩ := h
  exact ⟨rank, semiRank_of_rank P rank hr⟩

theorem noDedupCycle_of_always (P : Program) (h : ∀ (t : Nat) (d : TaskDef), P[t]? = some d → d.run = .always) :
    NoDedupCycle P := ⟨fun _ => 0, semiRank_of_always P h⟩

/-- **C07 (no deadlock).** For every program without a reference cycle through a
deduplicated task — in particular every acyclic program, and every program of `run: always`
tasks however cyclic — with at least one slot (or no limit) and dedup keys that identify the
task (`KeysByTask`: in the code the key is a hash of the task and its variables; the model
accepts any key, so the assumption is needed), every reachable configuration in which some
activation has not returned accepts a next label: the executor never deadlocks on its
concurrency slots, on deduplicated tasks, on dependencies or on nested calls, under any
interleaving.  (An activation that cannot move waits for a slot — then a slot is free or a
holder can move — or for an activation that is strictly smaller in the lexicographic
measure `(2 * rank task + [is a dedup waiter], creation order reversed)`.)
`C07_once_cycle_deadlock` shows the hypothesis on cycles cannot be dropped. -/
theorem C07_no_deadlock (P : Program) (F : Flags) (n : Nat) (tr : List Label) (c : Config)
    (hac : NoDedupCycle P) (hcap : F.cap ≠ some 0) (hk : KeysByTask tr) (h : replay P F (init n) tr = some c)
    (hlive : ∃ a x, c.act? a = some x ∧ x.phase ≠ .done) : ∃ l, (step P F c l).isSome = true := by
  obtain ⟨rank, hr⟩ := hac
  obtain ⟨a, x, hx, hnd⟩ := hlive
  exact no_deadlock P F rank hr n tr c hcap hk h a x hx hnd

/-- **C07 (the invocation stops only when all required work is done).** Under the
hypotheses of `C07_no_deadlock`, a reachable configuration in which no label is accepted is
final: every activation has returned, every slot has been given back, and every call given
to `Run` has been executed — unless `Run` is sequential and an earlier call failed, which
is when `Run` returns that error at once. -/
theorem C07_completes (P : Program) (F : Flags) (n : Nat) (tr : List Label) (c : Config)
    (hac : NoDedupCycle P) (hcap : F.cap ≠ some 0) (hk : KeysByTask tr) (h : replay P F (init n) tr = some c)
    (hq : ∀ l, step P F c l = none) :
    (∀ a x, c.act? a = some x → x.phase = .done) ∧ c.tokens = 0 ∧
    (∀ k, k < n → (c.tops.lookup k).isSome = true ∨
      (F.parallel = false ∧ ∃ k' id r, k' < k ∧ c.tops.lookup k' = some id ∧ kidDone c id = some r ∧
        r.isOk = false)) := by
  obtain ⟨rank, hr⟩ := hac
  exact quiescent_final P F rank hr n tr c hcap hk h hq

/-- **C07 (termination).** For every acyclic program, all flags and every number of calls
given to `Run` there is a bound on the length of ALL accepted traces: no interleaving runs
forever.  (The bound is `n * topCost`: each call costs at most the sum over its activation
tree of the local steps of each activation; the potential `pot` decreases with every label.) -/
theorem C07_terminates (P : Program) (F : Flags) (n : Nat) (hac : Acyclic P) :
    ∃ bound, ∀ (tr : List Label) (c : Config), replay P F (init n) tr = some c → tr.length ≤ bound := by
  obtain ⟨rank, hr⟩ := hac
  exact ⟨n * topCost P rank, fun tr c h => trace_bounded P F rank hr n tr c h⟩

/-- **C07 (termination, all programs).** Cyclic or not: every program, all flags, every
number of calls given to `Run` — all accepted traces are bounded (by
`2 n + Σ_t (maxCalls − 1) · unitCost t`): the call counter lets fewer than `maxCalls`
activations of each task past `enter`, each of which costs a bounded number of labels.  So a
cycle through `run: always` tasks neither hangs (`C07_no_deadlock` via
`noDedupCycle_of_always`) nor runs forever nor creates unboundedly many activations: it ends,
and the activations that hit the limit return 204 (`C07_cycle_error`). -/
theorem C07_terminates_all (P : Program) (F : Flags) (n : Nat) :
    ∃ bound, ∀ (tr : List Label) (c : Config), replay P F (init n) tr = some c → tr.length ≤ bound :=
  ⟨_, fun tr c h => trace_bounded_all P F n tr c h⟩

/-- every activation takes boundedly many steps, in any program (cyclic or not): each local
step decreases `rem` -/
theorem C07_local_steps_bounded (F : Flags) (o : Obs) (x : Act) (ev : Ev) (y : Act) (eff : Eff)
    (h : stepLocal F o x ev = some (y, eff)) : rem y < rem x := stepLocal_rem F o x ev y eff h

/-- **C07 (no phase is a dead end).** Every activation of every reachable configuration is
well-formed and, unless it has returned, has an event (`someEv`) that is accepted as soon as
what it waits for has arrived (`freeObs`: a free slot, the dependencies / callee / registered
execution returned). -/
theorem C07_no_dead_end (P : Program) (F : Flags) (n : Nat) (tr : List Label) (c : Config)
    (h : replay P F (init n) tr = some c) (a : Nat) (x : Act) (hx : c.act? a = some x)
    (hnd : x.phase ≠ .done) : WF x ∧ (stepLocal F freeObs x (someEv F x)).isSome = true := by
  have hw : WF x := localInv_sound WF P F (WF_fresh P F) (fun o x ev y eff => WF_local F o x ev y eff)
    (fun x k hw => ⟨hw.rest, hw.stack, hw.defers, hw.running⟩) n tr c h a x hx
  exact ⟨hw, someEv_enabled F x hw hnd⟩

/-- **C07 (what blocks).** An activation that has not returned and is not in one of the
waiting phases (`entered`/`wWoken`/`callReturned`: a slot; `wReleased`: the registered
execution; `depsWait`: the dependencies and a slot; `inCall`: the callee) can move whatever
the other activations do (`acquired`: `acquired_enabled`; `depsJoined`: `depsDone`). -/
theorem C07_only_waits_block (P : Program) (F : Flags) (n : Nat) (tr : List Label) (c : Config)
    (h : replay P F (init n) tr = some c) (a : Nat) (x : Act) (hx : c.act? a = some x)
    (hnd : x.phase ≠ .done) (hn : waitsOn x.phase = .nothing) (h1 : x.phase ≠ .acquired)
    (h2 : x.phase ≠ .depsJoined) : (step P F c ⟨a, someEv F x⟩).isSome = true := by
  have hw := (C07_no_dead_end P F n tr c h a x hx hnd).1
  have hen := nonblocking_enabled F (obsOf F c a x) x hw hnd hn h1 h2
  have hne : ∀ k t, someEv F x ≠ .enter k t := by
    intro k t e
    have := hen; rw [e] at this; simp [stepLocal] at this
  cases hs : stepLocal F (obsOf F c a x) x (someEv F x) with
  | none => rw [hs] at hen; cases hen
  | some p =>
    obtain ⟨y, eff⟩ := p
    unfold step
    split
    · rename_i k t he; exact absurd he (hne k t)
    · simp [hx, hs]

/-- a task that runs once and depends on itself -/
def onceDep : Program := [{ run := .once, deps := [0] }]
/-- … or calls itself -/
def onceCall : Program := [{ run := .once, cmds := [.call 0 false] }]

def onceDepRun : List Label :=
  [⟨1, .enter (.top 0) 0⟩, ⟨1, .acquire⟩, ⟨1, .register 0⟩, ⟨1, .depsRelease⟩,
   ⟨2, .enter (.dep 1 0) 0⟩, ⟨2, .acquire⟩, ⟨2, .waiter 0⟩, ⟨2, .wRelease⟩]

def onceCallRun : List Label :=
  [⟨1, .enter (.top 0) 0⟩, ⟨1, .acquire⟩, ⟨1, .register 0⟩, ⟨1, .depsRelease⟩, ⟨1, .depsReacq⟩, ⟨1, .depsDone .ok⟩,
   ⟨1, .guardsPassed⟩, ⟨1, .callRelease 0 false⟩,
   ⟨2, .enter (.call 1 0 false) 0⟩, ⟨2, .acquire⟩, ⟨2, .waiter 0⟩, ⟨2, .wRelease⟩]

/-- **C07 counterexample (cycle through a `run: once` task, via `deps:`).** The executor
reaches a configuration in which the registered execution waits for its dependency
(`depsWait`) and that dependency — a deduplicated waiter on the very same execution —
waits for it (`wReleased`): all slots are free, no activation can move, no new activation
can enter: no label at all is accepted, under any `--concurrency`.  The call counter never
gets near its limit: the cycle ends in a hang, not in error 204. -/
theorem C07_once_cycle_deadlock :
    ∃ c, replay onceDep {} (init 1) onceDepRun = some c ∧
      (c.tokens = 0 ∧ c.callCount 0 = 2 ∧
       (c.act? 1).map (·.phase) = some .depsWait ∧ (c.act? 2).map (·.phase) = some .wReleased) ∧
      ∀ l, step onceDep {} c l = none := by
  cases hr : replay onceDep {} (init 1) onceDepRun with
  | none => exact absurd hr (by decide)
  | some c =>
    have h1 : (replay onceDep {} (init 1) onceDepRun).map deadlocked = some true := by decide
    have h2 : (replay onceDep {} (init 1) onceDepRun).map (fun c => (c.tokens, c.callCount 0,
        (c.act? 1).map (·.phase), (c.act? 2).map (·.phase))) = some (0, 2, some .depsWait, some .wReleased) := by
      decide
    rw [hr] at h1 h2
    simp only [Option.map_some, Option.some.injEq, Prod.mk.injEq] at h1 h2
    exact ⟨c, rfl, ⟨h2.1, h2.2.1, h2.2.2.1, h2.2.2.2⟩, deadlocked_sound onceDep {} c h1⟩

/-- the same through a `task:` command: the caller waits for its callee (`inCall`), the
callee waits for the caller's execution -/
theorem C07_once_cycle_deadlock_call :
    ∃ c, replay onceCall {} (init 1) onceCallRun = some c ∧
      (c.tokens = 0 ∧ (c.act? 1).map (·.phase) = some (.inCall 0 false) ∧
       (c.act? 2).map (·.phase) = some .wReleased) ∧
      ∀ l, step onceCall {} c l = none := by
  cases hr : replay onceCall {} (init 1) onceCallRun with
  | none => exact absurd hr (by decide)
  | some c =>
    have h1 : (replay onceCall {} (init 1) onceCallRun).map deadlocked = some true := by decide
    have h2 : (replay onceCall {} (init 1) onceCallRun).map (fun c => (c.tokens,
        (c.act? 1).map (·.phase), (c.act? 2).map (·.phase))) = some (0, some (.inCall 0 false), some .wReleased) := by
      decide
    rw [hr] at h1 h2
    simp only [Option.map_some, Option.some.injEq, Prod.mk.injEq] at h1 h2
    exact ⟨c, rfl, ⟨h2.1, h2.2.1, h2.2.2⟩, deadlocked_sound onceCall {} c h1⟩

/-- hence deadlock freedom cannot be extended to cyclic programs: "cyclic task references
end with an error rather than hanging" is FALSE for cycles through `run: once` (and
`run: when_changed`) tasks -/
theorem C07_cyclic_counterexample :
    ¬ (∀ (P : Program) (F : Flags) (n : Nat) (tr : List Label) (c : Config),
        F.cap ≠ some 0 → KeysByTask tr → replay P F (init n) tr = some c →
        (∃ a x, c.act? a = some x ∧ x.phase ≠ .done) → ∃ l, (step P F c l).isSome = true) := by
  intro hall
  obtain ⟨c, hr, ⟨_, _, h1, _⟩, hstuck⟩ := C07_once_cycle_deadlock
  have hk : KeysByTask onceDepRun := by
    refine ⟨fun _ => 0, ?_⟩
    intro l hl k _ kind t he
    have : ∀ l ∈ onceDepRun, (match enterOf l.act onceDepRun with | some (_, t) => t == 0 | none => true) = true := by
      decide
    have h0 := this l hl
    rw [he] at h0
    exact (beq_iff_eq.mp h0).symm
  cases hx : c.act? 1 with
  | none => rw [hx] at h1; cases h1
  | some x =>
    rw [hx] at h1
    simp only [Option.map_some, Option.some.injEq] at h1
    obtain ⟨l, hl⟩ := hall onceDep {} 1 onceDepRun c (by decide) hk hr ⟨1, x, hx, by rw [h1]; decide⟩
    rw [hstuck l] at hl
    cases hl

/-! ## non-vacuity -/

/-- a task with two independent dependencies, one slot -/
private def fan : Program :=
  [{ deps := [1, 2] }, { cmds := [.shell 0 false false] }, { cmds := [.shell 0 false false] }]
private def one : Flags := { cap := some 1 }

private def fanRun : List Label :=
  [⟨1, .enter (.top 0) 0⟩, ⟨1, .acquire⟩, ⟨1, .depsRelease⟩,
   ⟨2, .enter (.dep 1 0) 1⟩, ⟨3, .enter (.dep 1 1) 2⟩,          -- both dependencies start at once
   ⟨2, .acquire⟩, ⟨2, .depsRelease⟩, ⟨2, .depsReacq⟩, ⟨2, .depsDone .ok⟩, ⟨2, .guardsPassed⟩,
   ⟨2, .cmdStart 0 none false⟩]

theorem fan_acyclic : Acyclic fan := by
  refine ⟨fun t => if t = 0 then 1 else 0, ?_⟩
  intro t d h
  match t with
  | 0 => simp [fan] at h; subst h; simp
  | 1 => simp [fan] at h; subst h; simp
  | 2 => simp [fan] at h; subst h; simp
  | t + 3 => simp [fan] at h

/-- a decidable sufficient condition for `KeysByTask`: every dedup event is by an activation of task `t0` -/
theorem keysByTask_of_const (tr : List Label) (t0 : Nat)
    (h : tr.all (fun l => match l.ev with
      | .register _ | .waiter _ => (match enterOf l.act tr with | some (_, t) => t == t0 | none => true)
      | _ => true) = true) : KeysByTask tr := by
  refine ⟨fun _ => t0, ?_⟩
  intro l hl k hk kind t he
  have := List.all_eq_true.mp h l hl
  rcases hk with e | e <;> rw [e] at this <;> simp only [he] at this <;> exact (beq_iff_eq.mp this).symm

-- the run is accepted; one slot in use, held by the activation inside its shell command
example : ((replay fan one (init 1) fanRun).map (fun c => (c.tokens, holders c (actIds fanRun), shells c (actIds fanRun))))
    = some (1, 1, 1) := by decide
-- the hypotheses of `C07_no_deadlock` / `C07_completes` are met by this run
example : NoDedupCycle fan ∧ one.cap ≠ some 0 ∧ KeysByTask fanRun :=
  ⟨noDedupCycle_of_acyclic fan fan_acyclic, by decide, keysByTask_of_const fanRun 0 (by decide)⟩
-- the second dependency cannot take a slot while the first one runs its command …
example : (replay fan one (init 1) (fanRun ++ [⟨3, .acquire⟩])).isNone = true := by decide
-- … the raw monitor rejects such a log, and accepts the real one
example : boundOk 1 (fanRun ++ [⟨3, .acquire⟩]) 0 = false := by decide
example : boundOk 1 fanRun 0 = true := by decide
-- … but it can with two slots
example : (replay fan { cap := some 2 } (init 1) (fanRun ++ [⟨3, .acquire⟩])).isSome = true := by decide
-- a command started without a slot is rejected by `holdMon`
example : (holdMon.run holdMon.init [.enter (.top 0) 0, .cmdStart 0 none false]).isNone = true := by decide

/-- two dependencies on the same `run: once` task: one executes, the other waits for it -/
private def shared : Program := [{ deps := [1, 1] }, { run := .once, cmds := [.shell 0 false false] }]
private def two : Flags := { cap := some 2 }

private def sharedRun : List Label :=
  [⟨1, .enter (.top 0) 0⟩, ⟨1, .acquire⟩, ⟨1, .depsRelease⟩, ⟨2, .enter (.dep 1 0) 1⟩, ⟨3, .enter (.dep 1 1) 1⟩,
   ⟨2, .acquire⟩, ⟨2, .register 7⟩, ⟨3, .acquire⟩, ⟨3, .waiter 7⟩, ⟨3, .wRelease⟩,
   ⟨2, .depsRelease⟩, ⟨2, .depsReacq⟩, ⟨2, .depsDone .ok⟩, ⟨2, .guardsPassed⟩,
   ⟨2, .cmdStart 0 none false⟩, ⟨2, .cmdEnd 0 .ok⟩, ⟨2, .execDone⟩, ⟨3, .wWake⟩, ⟨3, .wReacq⟩,
   ⟨2, .release⟩, ⟨2, .exit⟩, ⟨3, .release⟩, ⟨3, .exit⟩,
   ⟨1, .depsReacq⟩, ⟨1, .depsDone .ok⟩, ⟨1, .guardsPassed⟩, ⟨1, .release⟩, ⟨1, .exit⟩]

theorem shared_acyclic : Acyclic shared := by
  refine ⟨fun t => if t = 0 then 1 else 0, ?_⟩
  intro t d h
  match t with
  | 0 => simp [shared] at h; subst h; simp
  | 1 => simp [shared] at h; subst h; simp
  | t + 2 => simp [shared] at h

-- a complete run with a deduplicated task: accepted, meets the hypotheses of `C07_no_deadlock` /
-- `C07_completes`, ends in a configuration that accepts no label (`deadlocked_sound`), all slots free
example : NoDedupCycle shared ∧ two.cap ≠ some 0 ∧ KeysByTask sharedRun :=
  ⟨noDedupCycle_of_acyclic shared shared_acyclic, by decide, keysByTask_of_const sharedRun 1 (by decide)⟩
example : ((replay shared two (init 1) sharedRun).map (fun c => (deadlocked c, c.tokens, boundOk 2 sharedRun 0)))
    = some (true, 0, true) := by decide
-- half-way through, the waiter is blocked (`wWake` rejected) but the execution can move
example : (replay shared two (init 1) (sharedRun.take 10 ++ [⟨3, .wWake⟩])).isNone = true := by decide

/-- a task that depends on itself; limit 3 instead of 1000 -/
private def selfDep : Program := [{ deps := [0] }]
private def lim3 : Flags := { maxCalls := 3 }

private def selfDepRun : List Label :=
  [⟨1, .enter (.top 0) 0⟩, ⟨1, .acquire⟩, ⟨1, .depsRelease⟩,
   ⟨2, .enter (.dep 1 0) 0⟩, ⟨2, .acquire⟩, ⟨2, .depsRelease⟩,
   ⟨3, .enter (.dep 2 0) 0⟩, ⟨3, .exit⟩,                           -- third call: 204, nothing runs
   ⟨2, .depsReacq⟩, ⟨2, .depsDone (.typed 204)⟩, ⟨2, .release⟩, ⟨2, .exit⟩,
   ⟨1, .depsReacq⟩, ⟨1, .depsDone (.typed 204)⟩, ⟨1, .release⟩, ⟨1, .exit⟩]

example : ((replay selfDep lim3 (init 1) selfDepRun).map
    (fun c => (c.tokens, c.callCount 0, (c.act? 3).map (·.res), (c.act? 1).map (fun x => (x.res, x.phase)))))
    = some (0, 3, some (.typed 204), some (.typed 204, .done)) := by decide
-- a cyclic program of `run: always` tasks meets the hypothesis of `C07_no_deadlock`
example : NoDedupCycle selfDep := noDedupCycle_of_always selfDep (by
  intro t d h
  match t with
  | 0 => simp [selfDep] at h; subst h; rfl
  | t + 1 => simp [selfDep] at h)
-- the third activation cannot take a slot
example : (replay selfDep lim3 (init 1) (selfDepRun.take 7 ++ [⟨3, .acquire⟩])).isNone = true := by decide

/-- a task that calls itself through a `task:` command -/
private def selfCall : Program := [{ cmds := [.call 0 false] }]

private def selfCallRun : List Label :=
  [⟨1, .enter (.top 0) 0⟩, ⟨1, .acquire⟩, ⟨1, .depsRelease⟩, ⟨1, .depsReacq⟩, ⟨1, .depsDone .ok⟩, ⟨1, .guardsPassed⟩,
   ⟨1, .callRelease 0 false⟩,
   ⟨2, .enter (.call 1 0 false) 0⟩, ⟨2, .acquire⟩, ⟨2, .depsRelease⟩, ⟨2, .depsReacq⟩, ⟨2, .depsDone .ok⟩,
   ⟨2, .guardsPassed⟩, ⟨2, .callRelease 0 false⟩,
   ⟨3, .enter (.call 2 0 false) 0⟩, ⟨3, .exit⟩,
   ⟨2, .callRet 0⟩, ⟨2, .callReacq 0⟩, ⟨2, .release⟩, ⟨2, .exit⟩,
   ⟨1, .callRet 0⟩, ⟨1, .callReacq 0⟩, ⟨1, .release⟩, ⟨1, .exit⟩]

-- the callee fails with 204, the task named on the command line with 201 wrapping it
example : ((replay selfCall lim3 (init 1) selfCallRun).map
    (fun c => (c.tokens, (c.act? 2).map (·.res), (c.act? 1).map (fun x => (x.res, x.phase)))))
    = some (0, some (.typed 204), some (.run (.typed 204), .done)) := by decide

end Props.C07
