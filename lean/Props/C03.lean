import Props.SchedTie
import TaskModel.Sched.TraceLemmas
import TaskModel.Sched.OutLemmas
import TaskModel.Gen.Codes
import TaskModel.Sched.MonC13
import Props.C02
/-!
# C03 — Fail-stop: a failing command stops all downstream work and sets the exit status

Statements over every trace the executor model accepts (`replay … = some c`): all
programs, positions of failing commands, placements of `ignore_error`, interleavings.

* `C03_no_later_cmd` — fail-stop inside a task (monitor `failStopMonP`, also evaluated by
  the driver on the traces of the real executor); `C03_body_never_resumed`.
* `C03_propagates_*`, `deps_ok_before_body`, `C03_no_later_cmd_caller`, `C03_no_cmd_dependent` —
  callers and dependents fail too and start nothing further (local, state and trace forms).
* `C03_ignore_exact_*` — `ignore_error` suppresses exactly what it says.
* `exitCode`, `codes_ok` — the process exit status as `main` derives it, tied to the
  generated table `Gen.Codes` (a renumbered code or a reordered type switch breaks the build);
  `C03_invocation_result_single`: `Run`'s error for `task t` is the top activation's result.
* `C03_status_own / _callee / _dep` — one-level statements: a non-ignored exit status `n` of an
  own command, of a directly called task, of a direct dependency gives the directly called
  task the result `TaskRunError{exit n}`, i.e. exit code 201, or `n` with `--exit-code`;
  `C03_status_chain`: the same through any number of intermediate levels (as a statement
  about the functions `afterCmd` / `stopDeps` each level applies).
  `C03_status_full` (every reachable configuration, every top-level activation — executor of
  the task or dedup waiter of an execution somebody else started): the result is never a bare
  exit status (which `main` would turn into exit code 1), never a doubly wrapped
  `TaskRunError`, and for an execution that ended with a failing command or a dependency's
  exit status it is `TaskRunError{bare error}`: 201, or the status with `--exit-code`.
  `C03_waiter_as_executor`: a waiter's result is what it would have returned had it executed
  the task itself (same outcome, wrapped by its own `indirect` flag; `C03_as_if_*`).
  `C03_no_double_wrap` (every activation).  `C03_statusMon_sound`: the raw monitor the driver
  prints as `C03s` holds on every accepted run.

How the status travels: the execution of a task ends with an `Outcome` — the bare error and
whether it is of the wrappable kind (`Act.out`; `C03_outcome_cmd`, `C03_outcome_deps`); every
activation that takes this outcome — the one that executed the task and every waiter of a
`run: once` / `when_changed` execution — returns `wrapFor (its own indirect) outcome`
(`S2.OutInv_sound`).  This is `RunTask` after the fix of `C03-dedup-waiter-status`; before it
the executing activation wrapped the error by its own call mode and the waiters received that
wrapped error: `oldWaiterRes`, `C03_old_rule_counterexample` (history).

What the "wherever the failing command sits" statement over *traces* needs beyond
`C03_status_chain`: the side conditions that (i) no task on the path is `ignore_error` (a
caller's task-level `ignore_error` suppresses an exit status coming back from a `task:` entry
too) and (ii) the failing dependency is the one whose error the errgroup kept (`depsDone r`
may report any failing member; siblings see a cancelled context and may fail with `ctx`
instead).  Dedup waiters are no longer an exception.

Which statements say what (audit, session 3).  `C03_propagates_cmd`, `_call_step`, `_deps_step`, `C03_ignore_exact_*`,
`C03_status_own / _callee / _dep / _chain`, `C03_outcome_*` are statements about the FUNCTIONS the acceptor applies
between two labels (`afterCmd`, `stopDeps`, `wrapFor`): they say what the model computes, level by level; that the real
executor computes the same is the acceptance of its logs.  Trace-level (every reachable configuration / every accepted
log): `C03_no_later_cmd(_all)`, `C03_no_later_cmd_caller`, `C03_no_cmd_dependent`, `C03_result_after_cmd_failure`,
`C03_callRes_is_callee_result`, `C03_status_full`, `C03_waiter_as_executor`, `C03_no_double_wrap`,
`C03_statusMon_sound`.  Not proved: one trace-level statement for a failure at ANY depth below a top-level call
(`C03_status_chain` is the function-level form; the trace form needs the side conditions listed above).
-/
namespace Props.C03
open TaskModel.Sched.S2
open TaskModel.Sched

/-! ## fail-stop inside the task -/

/-- **C03 (no later command).** In every run, for every activation: once a non-deferred
command has ended with a failure that neither the command's nor the task's
`ignore_error` covers, no further non-deferred command of that activation starts
(deferred entries still run: C14). -/
theorem C03_no_later_cmd (P : Program) (F : Flags) (n : Nat) (tr : List Label) (c : Config)
    (h : replay P F (init n) tr = some c) (a : Nat) :
    ((failStopMonP P).run (failStopMonP P).init (evsOf a tr)).isSome = true :=
  actMon_accepts (failStopMonP P) FailR P F
    (fun c kind t => ⟨((P[t]?).getD {}, false), rfl, FailR_fresh P F c kind t⟩)
    (fun o s x ev y eff hR hs => FailR_local P F o s x ev y eff hR hs)
    FailR_kids n tr c h a

theorem C03_no_later_cmd_all (P : Program) (F : Flags) (n : Nat) (tr : List Label) (c : Config)
    (h : replay P F (init n) tr = some c) : failStopMonAll P tr = true := by
  unfold failStopMonAll
  rw [List.all_eq_true]
  intro a _
  exact C03_no_later_cmd P F n tr c h a

/-- the state-based form: an activation that has left its command loop (deferred part or
later) never starts a non-deferred command again, and its result and the list of commands
it started are final -/
theorem C03_body_never_resumed (F : Flags) (o : Obs) (x : Act) (ev : Ev) (y : Act) (eff : Eff)
    (hs : stepLocal F o x ev = some (y, eff)) (hl : lateP x.phase = true) :
    lateP y.phase = true ∧ y.res = x.res ∧ y.started = x.started ∧
    (∀ i seen, ev ≠ .cmdStart i seen false) ∧ (∀ i, ev ≠ .callRelease i false) := by
  obtain ⟨h1, h2, h3⟩ := lateP_step F o x ev y eff hs hl
  obtain ⟨h4, h5⟩ := lateP_no_start F o x ev y eff hs hl
  exact ⟨h1, h2, h3, h4, h5⟩

/-! ## callers and dependents fail too -/

/-- the error a task returns for the failure `r` of one of its commands: wrapped in
`TaskRunError` iff the task was called directly -/
def wrap (indirect : Bool) (r : Res) : Res := if indirect then r else .run r

/-- **(a) own command.** A shell command ending with a failure that is not ignored: the
activation leaves its command loop with that failure as result; nothing starts. -/
theorem C03_propagates_cmd (F : Flags) (o : Obs) (x : Act) (i : Nat) (r : Res) (y : Act) (eff : Eff) (cmd : Cmd)
    (tl : List Cmd) (hp : x.phase = .inShell i false) (hr : x.rest = cmd :: tl)
    (hs : stepLocal F o x (.cmdEnd i r) = some (y, eff))
    (hok : r.isOk = false) (hi : ¬ Ignored x.def_ cmd r) :
    lateP y.phase = true ∧ y.res = wrap x.indirect r ∧ y.started = x.started := by
  have hL := LStep_of_stepLocal F o x _ y eff hs
  cases hL with
  | cmdEndBody _ _ cmd' tl' hp' hr' hc' hs' =>
    rw [hr] at hr'; cases hr'
    obtain ⟨h1, h2, h3, _⟩ := afterCmd_stop x cmd r hok hi
    refine ⟨?_, h2, h3⟩
    rcases h1 with h | h <;> rw [h] <;> rfl
  | cmdEndDefer _ _ _ hp' _ _ => rw [hp] at hp'; cases hp'

/-- **(a) `task:` command.** When the caller takes its slot back after a `task:` entry whose
callee failed (and the caller's `ignore_error` does not cover that failure), the caller
leaves its command loop with the callee's failure as result. -/
theorem C03_propagates_call_step (F : Flags) (o : Obs) (x : Act) (i j : Nat) (y : Act) (eff : Eff) (cmd : Cmd)
    (tl : List Cmd) (hp : x.phase = .callReturned i false) (hr : x.rest = cmd :: tl)
    (hs : stepLocal F o x (.callReacq j) = some (y, eff))
    (hok : x.callRes.isOk = false) (hi : ¬ Ignored x.def_ cmd x.callRes) :
    lateP y.phase = true ∧ y.res = wrap x.indirect x.callRes ∧ y.started = x.started := by
  have hL := LStep_of_stepLocal F o x _ y eff hs
  cases hL with
  | callReacqBody _ cmd' tl' hp' hc' hr' =>
    rw [hr] at hr'; cases hr'
    obtain ⟨h1, h2, h3, _⟩ := afterCmd_stop { x with holds := true } cmd x.callRes hok hi
    refine ⟨?_, h2, h3⟩
    rcases h1 with h | h <;> rw [h] <;> rfl
  | callReacqDefer _ hp' _ => rw [hp] at hp'; cases hp'

/-- … and the result the caller continues with *is* the callee's: in every reachable
configuration an activation that has been handed back a `task:` entry holds the result of
the (finished) activation recorded for that entry. -/
theorem C03_callRes_is_callee_result (P : Program) (F : Flags) (n : Nat) (tr : List Label) (c : Config)
    (h : replay P F (init n) tr = some c) (a : Nat) (x : Act) (hx : c.act? a = some x)
    (i : Nat) (d : Bool) (hp : x.phase = .callReturned i d) :
    ∃ id k, x.kids.lookup (slotOfCall x i) = some id ∧ c.act? id = some k ∧ k.phase = .done ∧ k.res = x.callRes := by
  obtain ⟨id, h1, h2⟩ := (KInv_sound P F n tr c h a x hx).callRes i d hp
  obtain ⟨k, h3, h4, h5⟩ := (kidDone_some c id _).mp h2
  exact ⟨id, k, h1, h3, h4, h5⟩

/-- **(b) dependencies.** `depsDone r` with `r` a failure: the task stops before its guards
and its command loop (`Act.stopDeps`): no command has started or will start, the result is a failure. -/
theorem C03_propagates_deps_step (F : Flags) (o : Obs) (x : Act) (r : Res) (y : Act) (eff : Eff)
    (hs : stepLocal F o x (.depsDone r) = some (y, eff)) (hok : r.isOk = false) :
    y = x.stopDeps r ∧ y.phase = .finished ∧ lateP y.phase = true ∧
    y.res.isOk = false ∧ y.started = x.started ∧ y.regs = x.regs := by
  have hL := LStep_of_stepLocal F o x _ y eff hs
  cases hL with
  | depsDoneOk _ rs hp hd hr ha => rw [hok] at hr; cases hr
  | depsDoneFail _ rs hp hd hr hm =>
    refine ⟨rfl, rfl, rfl, ?_, rfl, rfl⟩
    simp only [Act.stopDeps, depErr_isOk]; exact hok

/-- **(c) `deps_ok_before_body`.** In every reachable configuration an activation that is in
its guards or command loop, or has ever started a command or registered a `defer:`, has
all its dependency activations finished *successfully*. -/
theorem deps_ok_before_body (P : Program) (F : Flags) (n : Nat) (tr : List Label) (c : Config)
    (h : replay P F (init n) tr = some c) (a : Nat) (x : Act) (hx : c.act? a = some x)
    (hb : bodyPhase x.phase = true ∨ x.started ≠ [] ∨ x.regs ≠ []) (j : Nat) (hj : j < x.def_.deps.length) :
    ∃ id k, x.kids.lookup (slotOfDep j) = some id ∧ c.act? id = some k ∧ k.phase = .done ∧ k.res.isOk = true := by
  have hp : depsPassed x := by
    rcases hb with h1 | h1 | h1
    · exact .inl h1
    · exact .inr (.inl h1)
    · exact .inr (.inr (.inl h1))
  obtain ⟨id, r, h1, h2, h3⟩ := (KInv_sound P F n tr c h a x hx).depsOk hp j hj
  obtain ⟨k, h4, h5, h6⟩ := (kidDone_some c id r).mp h2
  exact ⟨id, k, h1, h4, h5, by rw [h6]; exact h3⟩

/-- **(c) a failed dependency fails the dependent.** In every reachable configuration: if
some dependency activation of `x` has a failure as its result, then `x` has started no
command, registered no `defer:`, is not in its guards or command loop, and — once it has
left `depsJoined` — its own result is a failure.  Under every interleaving. -/
theorem C03_propagates_deps (P : Program) (F : Flags) (n : Nat) (tr : List Label) (c : Config)
    (h : replay P F (init n) tr = some c) (a : Nat) (x : Act) (hx : c.act? a = some x)
    (j id : Nat) (k : Act) (hj : j < x.def_.deps.length) (hl : x.kids.lookup (slotOfDep j) = some id)
    (hk : c.act? id = some k) (hf : k.res.isOk = false) :
    x.started = [] ∧ x.regs = [] ∧ bodyPhase x.phase = false ∧ (lateP x.phase = true → x.res.isOk = false) := by
  have hK := KInv_sound P F n tr c h a x hx
  have hnp : ¬ depsPassed x := by
    intro hp
    obtain ⟨id', r, h1, h2, h3⟩ := hK.depsOk hp j hj
    rw [hl] at h1; cases h1
    obtain ⟨k', h4, _, h6⟩ := (kidDone_some c id r).mp h2
    rw [hk] at h4; cases h4
    rw [h6, h3] at hf; cases hf
  refine ⟨?_, ?_, ?_, ?_⟩
  · cases hs : x.started with
    | nil => rfl
    | cons _ _ => exact absurd (.inr (.inl (by rw [hs]; simp))) hnp
  · cases hs : x.regs with
    | nil => rfl
    | cons _ _ => exact absurd (.inr (.inr (.inl (by rw [hs]; simp)))) hnp
  · cases hs : bodyPhase x.phase with
    | false => rfl
    | true => exact absurd (.inl hs) hnp
  · intro hlate
    cases hs : x.res.isOk with
    | false => rfl
    | true =>
      exact absurd (.inr (.inr (.inr ⟨hs, hlate, slotOfDep j, id, mem_of_lookup _ _ _ hl, hj⟩))) hnp

/-! ### the same on traces: nothing starts after the failure, whatever happens later -/

/-- **callers (trace form).** If the callee of a non-deferred `task:` entry of `a` returned a
failure that the caller's `ignore_error` does not cover, then in *every* accepted
continuation `tr2` after the caller has taken its slot back (`callReacq`): no event of `a`
starts a non-deferred command, and `a` ends up with the callee's failure as its result
(wrapped iff `a` was called directly) and with the list of started commands it had. -/
theorem C03_no_later_cmd_caller (P : Program) (F : Flags) (n : Nat) (tr1 tr2 : List Label) (a i : Nat)
    (c : Config) (h : replay P F (init n) (tr1 ++ ⟨a, .callReacq i⟩ :: tr2) = some c) :
    ∃ c1 x, replay P F (init n) tr1 = some c1 ∧ c1.act? a = some x ∧
      ∀ cmd tl, x.phase = .callReturned i false → x.rest = cmd :: tl →
        x.callRes.isOk = false → ¬ Ignored x.def_ cmd x.callRes →
        (∃ id k, x.kids.lookup (slotOfCall x i) = some id ∧ c1.act? id = some k ∧ k.phase = .done ∧
          k.res = x.callRes) ∧
        (∀ ev, ev ∈ evsOf a tr2 → isNDStart ev = false) ∧
        ∃ y, c.act? a = some y ∧ lateP y.phase = true ∧ y.res = wrap x.indirect x.callRes ∧
          y.started = x.started := by
  obtain ⟨c1, c2, h1, hs, h2⟩ := replay_split P F (init n) c tr1 tr2 _ h
  obtain ⟨x, y, eff, hx, hl, hy⟩ := step_local_of P F c1 c2 a _ (fun _ _ e => by cases e) hs
  refine ⟨c1, x, h1, hx, ?_⟩
  intro cmd tl hp hr hok hi
  obtain ⟨g1, g2, g3⟩ := C03_propagates_call_step F _ x i i y eff cmd tl hp hr hl hok hi
  obtain ⟨⟨y', k1, k2, k3, k4⟩, k5⟩ := lateP_forever P F a tr2 c2 c y h2 hy g1
  exact ⟨C03_callRes_is_callee_result P F n tr1 c1 h1 a x hx i false hp, k5, y', k1, k2, k3.trans g2, k4.trans g3⟩

/-- **dependents (trace form).** If the dependency group of `a` failed (`depsDone r`, `r ≠ ok`),
then no event of `a` — before or after, in every accepted continuation — starts a command,
and `a` ends up with a failure as its result. -/
theorem C03_no_cmd_dependent (P : Program) (F : Flags) (n : Nat) (tr1 tr2 : List Label) (a : Nat) (r : Res)
    (c : Config) (h : replay P F (init n) (tr1 ++ ⟨a, .depsDone r⟩ :: tr2) = some c) (hok : r.isOk = false) :
    (∀ ev, ev ∈ evsOf a tr1 → isNDStart ev = false) ∧ (∀ ev, ev ∈ evsOf a tr2 → isNDStart ev = false) ∧
    ∃ y, c.act? a = some y ∧ y.res.isOk = false ∧ y.started = [] := by
  obtain ⟨c1, c2, h1, hs, h2⟩ := replay_split P F (init n) c tr1 tr2 _ h
  obtain ⟨x, y, eff, hx, hl, hy⟩ := step_local_of P F c1 c2 a _ (fun _ _ e => by cases e) hs
  obtain ⟨_, _, g3, g4, g5, _⟩ := C03_propagates_deps_step F _ x r y eff hl hok
  have hpre : preBodyP x.phase = true := by
    have hL := LStep_of_stepLocal F _ x _ y eff hl
    cases hL with
    | depsDoneOk _ rs hp _ _ _ => rw [hp]; rfl
    | depsDoneFail _ rs hp _ _ _ => rw [hp]; rfl
  have hst := preBody_started P F n tr1 c1 h1 a x hx hpre
  obtain ⟨⟨y', k1, _, k3, k4⟩, k5⟩ := lateP_forever P F a tr2 c2 c y h2 hy g3
  refine ⟨?_, k5, y', k1, by rw [k3]; exact g4, by rw [k4, g5]; exact hst⟩
  apply ndStarts_nil
  rw [← started_is_history P F n tr1 c1 h1 a x hx]; exact hst

/-- **own command (trace form)**, the state-based companion of `C03_no_later_cmd`: after a
non-ignored failure of its own command the activation keeps that failure as its result. -/
theorem C03_result_after_cmd_failure (P : Program) (F : Flags) (n : Nat) (tr1 tr2 : List Label) (a i : Nat) (r : Res)
    (c : Config) (h : replay P F (init n) (tr1 ++ ⟨a, .cmdEnd i r⟩ :: tr2) = some c) :
    ∃ c1 x, replay P F (init n) tr1 = some c1 ∧ c1.act? a = some x ∧
      ∀ cmd tl, x.phase = .inShell i false → x.rest = cmd :: tl → r.isOk = false → ¬ Ignored x.def_ cmd r →
        (∀ ev, ev ∈ evsOf a tr2 → isNDStart ev = false) ∧
        ∃ y, c.act? a = some y ∧ lateP y.phase = true ∧ y.res = wrap x.indirect r ∧ y.started = x.started := by
  obtain ⟨c1, c2, h1, hs, h2⟩ := replay_split P F (init n) c tr1 tr2 _ h
  obtain ⟨x, y, eff, hx, hl, hy⟩ := step_local_of P F c1 c2 a _ (fun _ _ e => by cases e) hs
  refine ⟨c1, x, h1, hx, ?_⟩
  intro cmd tl hp hr hok hi
  obtain ⟨g1, g2, g3⟩ := C03_propagates_cmd F _ x i r y eff cmd tl hp hr hl hok hi
  obtain ⟨⟨y', k1, k2, k3, k4⟩, k5⟩ := lateP_forever P F a tr2 c2 c y h2 hy g1
  exact ⟨k5, y', k1, k2, k3.trans g2, k4.trans g3⟩

/-! ## `ignore_error` suppresses exactly what it says -/

/-- **command-level `ignore_error`** turns exactly an exit status of that shell command into
success: the loop goes on as after a successful command, result and `EXIT_CODE` untouched. -/
theorem C03_ignore_exact_cmd (x : Act) (k n : Nat) (d : Bool) :
    x.afterCmd (.shell k true d) (.exit n) = x.next x.rest.tail (x.idx + 1) ∧
    x.afterCmd (.shell k true d) (.exit n) = x.afterCmd (.shell k true d) .ok ∧
    (x.afterCmd (.shell k true d) (.exit n)).res = x.res ∧
    (x.afterCmd (.shell k true d) (.exit n)).exitCode = x.exitCode := by
  refine ⟨rfl, rfl, ?_, ?_⟩
  · exact (next_more x _ _).2.1
  · exact (next_stack x _ _).2.2.2.2.2.1

/-- … it does nothing for errors that are not exit statuses (cancelled context, …) -/
theorem C03_ignore_exact_cmd_other (x : Act) (k : Nat) (d : Bool) (r : Res) (h : ∀ n, r ≠ .exit n) :
    x.afterCmd (.shell k true d) r = x.afterCmd (.shell k false d) r := by
  cases r <;> first | rfl | exact absurd rfl (h _)

/-- … and it does not exist for `task:` entries: a failing callee is handled exactly like a
failing shell command without `ignore_error` -/
theorem C03_ignore_exact_call (x : Act) (t k : Nat) (d d' : Bool) (r : Res) :
    x.afterCmd (.call t d) r = x.afterCmd (.shell k false d') r := by
  cases r <;> rfl

/-- **task-level `ignore_error`** continues after an exit status of any of the task's own
entries, with result and `EXIT_CODE` untouched … -/
theorem C03_ignore_exact_task (x : Act) (c : Cmd) (n : Nat) (h : x.def_.ignoreError = true) :
    x.afterCmd c (.exit n) = x.next x.rest.tail (x.idx + 1) ∧
    (x.afterCmd c (.exit n)).res = x.res ∧ (x.afterCmd c (.exit n)).exitCode = x.exitCode := by
  have e := afterCmd_continue x c (.exit n) (.inr ⟨n, rfl, .inl h⟩)
  rw [e]
  exact ⟨rfl, (next_more x _ _).2.1, (next_stack x _ _).2.2.2.2.2.1⟩

/-- … but not after other errors: those stop the task whatever `ignore_error` says -/
theorem C03_ignore_exact_task_other (x : Act) (c : Cmd) (r : Res) (hok : r.isOk = false) (h : ∀ n, r ≠ .exit n) :
    lateP (x.afterCmd c r).phase = true ∧ (x.afterCmd c r).res = wrap x.indirect r := by
  have hi : ¬ Ignored x.def_ c r := by rintro ⟨n, rfl, _⟩; exact h n rfl
  obtain ⟨h1, h2, _⟩ := afterCmd_stop x c r hok hi
  refine ⟨?_, h2⟩
  rcases h1 with h | h <;> rw [h] <;> rfl

/-- **exactly:** without either `ignore_error`, the exit status stops the task -/
theorem C03_not_ignored_stops (x : Act) (c : Cmd) (n : Nat) (h1 : x.def_.ignoreError = false)
    (h2 : ∀ k d, c ≠ .shell k true d) :
    lateP (x.afterCmd c (.exit n)).phase = true ∧ (x.afterCmd c (.exit n)).res = wrap x.indirect (.exit n) ∧
    (x.afterCmd c (.exit n)).exitCode = n % 256 := by
  have hi : ¬ Ignored x.def_ c (.exit n) := by
    rintro ⟨m, _, h | ⟨k, d, rfl⟩⟩
    · rw [h1] at h; cases h
    · exact h2 k d rfl
  obtain ⟨h3, h4, _⟩ := afterCmd_stop x c (.exit n) rfl hi
  refine ⟨?_, h4, ?_⟩
  · rcases h3 with h | h <;> rw [h] <;> rfl
  · exact Props.C14.C14_exit_code_recorded x c n (fun ⟨k, d, e⟩ => h2 k d e) h1

/-- **an ignored failure does not affect a later one:** after an ignored (or successful)
command `c₁`, a failure of a later command `c₂` that is not ignored gives the task the same
result as if `c₁` had succeeded — the failure `r₂`, wrapped as usual. -/
theorem C03_ignore_exact_later (x : Act) (c1 c2 : Cmd) (r1 r2 : Res)
    (h1 : r1 = .ok ∨ Ignored x.def_ c1 r1) (hok : r2.isOk = false) (h2 : ¬ Ignored x.def_ c2 r2) :
    ((x.afterCmd c1 r1).afterCmd c2 r2).res = wrap x.indirect r2 ∧
    (x.afterCmd c1 r1) = x.afterCmd c1 .ok := by
  have e := afterCmd_continue x c1 r1 h1
  have e' := afterCmd_continue x c1 .ok (.inl rfl)
  obtain ⟨_, f2, _, _, f5⟩ := next_frame x x.rest.tail (x.idx + 1)
  refine ⟨?_, by rw [e, e']⟩
  rw [e]
  have h2' : ¬ Ignored (x.next x.rest.tail (x.idx + 1)).def_ c2 r2 := by rw [f2]; exact h2
  rw [(afterCmd_stop _ c2 r2 hok h2').2.1, f5]; rfl

/-! ## the process exit status -/

/-- `main` in cmd/task/task.go: a `TaskRunError` exits with the command's own status when
`--exit-code` is given and the wrapped error is an exit status, with its code (201)
otherwise; any other `TaskError` with its code; anything else with 1; success with 0. -/
def exitCode : Res → Bool → Nat
  | .ok, _ => 0
  | .run (.exit n), true => n
  | .run _, _ => 201
  | .typed c, _ => c
  | _, _ => 1

/-- the numbers and the order of the type switch used by `exitCode` are those of the tree
under test (regenerated on every run by `extract/`) -/
theorem codes_ok :
    TaskModel.Gen.Codes.errorCodes.lookup "TaskRunError" = some 201 ∧
    TaskModel.Gen.Codes.consts.lookup "CodeUnknown" = some 1 ∧
    TaskModel.Gen.Codes.consts.lookup "CodeOk" = some 0 ∧
    TaskModel.Gen.Codes.errorCodes.lookup "TaskNotFoundError" = some 200 ∧
    TaskModel.Gen.Codes.errorCodes.lookup "TaskInternalError" = some 202 ∧
    TaskModel.Gen.Codes.errorCodes.lookup "TaskCalledTooManyTimesError" = some 204 ∧
    TaskModel.Gen.Codes.errorCodes.lookup "TaskCancelledByUserError" = some 205 ∧
    TaskModel.Gen.Codes.errorCodes.lookup "TaskCancelledNoTerminalError" = some 205 ∧
    TaskModel.Gen.Codes.errorCodes.lookup "TaskMissingRequiredVarsError" = some 206 ∧
    TaskModel.Gen.Codes.errorCodes.lookup "TaskNotAllowedVarsError" = some 207 ∧
    TaskModel.Gen.Codes.taskExitCodeIsCommandStatus = true ∧
    TaskModel.Gen.Codes.mainDispatch =
      [("*errors.TaskRunError | ok && flags.ExitCode", "err.TaskExitCode()"),
       ("errors.TaskError | ok", "err.Code()"),
       ("fallthrough", "errors.CodeUnknown"),
       ("fallthrough", "errors.CodeOk")] := by
  decide

theorem exitCode_ok (b : Bool) : exitCode .ok b = 0 := rfl
theorem exitCode_run_exit (n : Nat) : exitCode (.run (.exit n)) false = 201 ∧ exitCode (.run (.exit n)) true = n :=
  ⟨rfl, rfl⟩
theorem exitCode_bare_exit (n : Nat) (b : Bool) : exitCode (.exit n) b = 1 := by cases b <;> rfl
/-- a failure never exits 0 (for exit statuses 1..255 and the error codes of `Gen.Codes`) -/
theorem exitCode_failure_nonzero (r : Res) (b : Bool) (h : r.isOk = false)
    (hn : ∀ n, r = .run (.exit n) → n ≠ 0) (hc : ∀ c, r = .typed c → c ≠ 0) : exitCode r b ≠ 0 := by
  cases r with
  | ok => cases h
  | exit n => cases b <;> simp [exitCode]
  | ctx => cases b <;> simp [exitCode]
  | generic => cases b <;> simp [exitCode]
  | typed c => cases b <;> simpa [exitCode] using hc c rfl
  | run e =>
    cases e with
    | exit n => cases b <;> simp [exitCode]; exact hn n rfl
    | _ => cases b <;> simp [exitCode]

/-! ## the status of the invocation -/

/-- in every reachable configuration "called directly" (`Indirect = false`, the error gets
wrapped) is the same as "top-level call given to `Run`" -/
theorem C03_top_is_direct (P : Program) (F : Flags) (n : Nat) (tr : List Label) (c : Config)
    (h : replay P F (init n) tr = some c) (a : Nat) (x : Act) (hx : c.act? a = some x) :
    x.indirect = false ↔ ∃ k, x.kind = .top k := by
  have := (StatusInv_sound P F n tr c h a x hx).2.1
  rw [this]
  cases x.kind <;> simp

/-- **own command.** A non-ignored exit status `n` of a command of a directly called task:
result `TaskRunError{exit n}`, exit code 201, or `n` with `--exit-code`. -/
theorem C03_status_own (x : Act) (c : Cmd) (n : Nat) (hd : x.indirect = false)
    (h1 : x.def_.ignoreError = false) (h2 : ∀ k d, c ≠ .shell k true d) :
    (x.afterCmd c (.exit n)).res = .run (.exit n) ∧
    exitCode (x.afterCmd c (.exit n)).res false = 201 ∧ exitCode (x.afterCmd c (.exit n)).res true = n := by
  have := (C03_not_ignored_stops x c n h1 h2).2.1
  rw [hd] at this
  rw [this]; exact ⟨rfl, rfl, rfl⟩

/-- **directly called task.** A non-ignored exit status `n` of a command of a task `k` called
through a `task:` entry (`k` is not called directly: its error stays bare) makes the directly
called caller `x` fail with `TaskRunError{exit n}`: exit code 201, or `n` with `--exit-code`. -/
theorem C03_status_callee (k x : Act) (c : Cmd) (n t : Nat)
    (hk : k.indirect = true) (hk1 : k.def_.ignoreError = false) (hk2 : ∀ j d, c ≠ .shell j true d)
    (hx : x.indirect = false) (hx1 : x.def_.ignoreError = false) :
    (k.afterCmd c (.exit n)).res = .exit n ∧
    (x.afterCmd (.call t false) (k.afterCmd c (.exit n)).res).res = .run (.exit n) ∧
    exitCode (x.afterCmd (.call t false) (k.afterCmd c (.exit n)).res).res false = 201 ∧
    exitCode (x.afterCmd (.call t false) (k.afterCmd c (.exit n)).res).res true = n := by
  have e1 := (C03_not_ignored_stops k c n hk1 hk2).2.1
  rw [hk] at e1
  have e1' : (k.afterCmd c (.exit n)).res = .exit n := e1
  rw [e1']
  have e2 := (C03_status_own x (.call t false) n hx hx1 (fun _ _ h => by cases h))
  exact ⟨rfl, e2⟩

/-- **direct dependency.** When the dependency group of a directly called task reports the
exit status `n` of a failing dependency, the task fails with `TaskRunError{exit n}`. -/
theorem C03_status_dep (F : Flags) (o : Obs) (x : Act) (n : Nat) (y : Act) (eff : Eff) (hd : x.indirect = false)
    (hs : stepLocal F o x (.depsDone (.exit n)) = some (y, eff)) :
    y.res = .run (.exit n) ∧ exitCode y.res false = 201 ∧ exitCode y.res true = n := by
  obtain ⟨e, _⟩ := C03_propagates_deps_step F o x (.exit n) y eff hs rfl
  rw [e]
  simp only [Act.stopDeps, depErr, hd]
  exact ⟨rfl, rfl, rfl⟩

/-- one level of the way an error travels up: through a non-deferred `task:` entry of `x`
(`x.afterCmd`), or through the dependency group of `x` (`depsDone`, `Act.stopDeps`) -/
inductive Level
  | call (x : Act) (t : Nat)
  | dep (x : Act)

def Level.act : Level → Act
  | .call x _ => x
  | .dep x => x

/-- the result of the activation at this level when the level below returned `r` -/
def Level.res : Level → Res → Res
  | .call x t, r => (x.afterCmd (.call t false) r).res
  | .dep x, r => (x.stopDeps r).res

/-- the error of a failing command travelling up through the levels, innermost first -/
def passUp : List Level → Res → Res
  | [], r => r
  | l :: ls, r => passUp ls (l.res r)

theorem Level.res_exit (l : Level) (n : Nat) (hi : l.act.def_.ignoreError = false) :
    l.res (.exit n) = wrap l.act.indirect (.exit n) := by
  cases l with
  | call x t => exact (C03_not_ignored_stops x (.call t false) n hi (fun _ _ h => by cases h)).2.1
  | dep x =>
    simp only [Level.res, Act.stopDeps, depErr, wrap, Level.act]
    by_cases h : x.indirect = true <;> simp [h]

/-- **any depth.** An exit status `n` passes unchanged through any number of levels of
`task:` entries and dependency groups of tasks that are not called directly and are not
`ignore_error` … -/
theorem C03_status_passes_up (ls : List Level) (n : Nat)
    (h : ∀ l, l ∈ ls → l.act.indirect = true ∧ l.act.def_.ignoreError = false) :
    passUp ls (.exit n) = .exit n := by
  induction ls with
  | nil => rfl
  | cons l ls ih =>
    have hl := h l List.mem_cons_self
    simp only [passUp, Level.res_exit l n hl.2, hl.1, wrap, if_true]
    exact ih (fun l' hm => h l' (List.mem_cons_of_mem _ hm))

/-- … and the directly called task at the top turns it into `TaskRunError{exit n}`: exit code
201, or `n` with `--exit-code`, wherever below it the failing command sits.  (Model link: each
level's input *is* the lower activation's result — `C03_callRes_is_callee_result` for calls,
`depsDone r` with `r` among the dependency results for dependency groups; side conditions:
see the file header.) -/
theorem C03_status_chain (ls : List Level) (top : Level) (n : Nat)
    (h : ∀ l, l ∈ ls → l.act.indirect = true ∧ l.act.def_.ignoreError = false)
    (ht : top.act.indirect = false ∧ top.act.def_.ignoreError = false) :
    passUp (ls ++ [top]) (.exit n) = .run (.exit n) ∧
    exitCode (passUp (ls ++ [top]) (.exit n)) false = 201 ∧
    exitCode (passUp (ls ++ [top]) (.exit n)) true = n := by
  have e : passUp (ls ++ [top]) (.exit n) = .run (.exit n) := by
    have happ : ∀ (ls : List Level) (r : Res), passUp (ls ++ [top]) r = top.res (passUp ls r) := by
      intro ls
      induction ls with
      | nil => intro r; rfl
      | cons l ls ih => intro r; exact ih (l.res r)
    rw [happ, C03_status_passes_up ls n h, Level.res_exit top n ht.2, ht.1]; rfl
  rw [e]; exact ⟨rfl, rfl, rfl⟩

/-! ### what the execution of a task ends with, and what each caller makes of it -/

theorem exitCode_run_false (e : Res) : exitCode (.run e) false = 201 := by cases e <;> rfl

/-- **own command / `task:` entry.** A failure that is not ignored ends the execution with
the *bare* failure, marked as wrappable — whoever called the task, however. -/
theorem C03_outcome_cmd (x : Act) (c : Cmd) (r : Res) (hok : r.isOk = false) (hi : ¬ Ignored x.def_ c r) :
    (x.afterCmd c r).out = ⟨r, true⟩ := by
  cases r with
  | ok => cases hok
  | exit n =>
    have h1 : x.def_.ignoreError = false := by
      cases h : x.def_.ignoreError with
      | false => rfl
      | true => exact absurd ⟨n, rfl, .inl h⟩ hi
    cases c with
    | shell k ie d =>
      cases ie with
      | true => exact absurd ⟨n, rfl, .inr ⟨k, d, rfl⟩⟩ hi
      | false => simp only [Act.afterCmd, h1, Bool.false_eq_true, if_false]; rfl
    | call t d => simp only [Act.afterCmd, h1, Bool.false_eq_true, if_false]; rfl
  | ctx => cases c with
    | shell k ie d => cases ie <;> rfl
    | call t d => rfl
  | typed n => cases c with
    | shell k ie d => cases ie <;> rfl
    | call t d => rfl
  | run e => cases c with
    | shell k ie d => cases ie <;> rfl
    | call t d => rfl
  | generic => cases c with
    | shell k ie d => cases ie <;> rfl
    | call t d => rfl

/-- **dependencies.** An exit status reported by the dependency group ends the execution with
that status, marked; any other error of the group unmarked (it is returned as it is). -/
theorem C03_outcome_deps (x : Act) (n : Nat) (r : Res) (h : ∀ m, r ≠ .exit m) :
    (x.stopDeps (.exit n)).out = ⟨.exit n, true⟩ ∧ (x.stopDeps r).out = ⟨r, false⟩ := by
  refine ⟨rfl, ?_⟩
  cases r <;> first | rfl | exact absurd rfl (h _)

/-- wrapping the outcome of an execution by a flag `b` is exactly what the executing
activation would have returned had it been called that way (`b = true`: through `deps:` /
`task:`, `b = false`: directly) -/
theorem C03_as_if_fail (z : Act) (r : Res) (b : Bool) :
    wrapFor b (z.fail r).out = (({ z with indirect := b } : Act).fail r).res := rfl
theorem C03_as_if_stopDeps (z : Act) (r : Res) (b : Bool) :
    wrapFor b (z.stopDeps r).out = (({ z with indirect := b } : Act).stopDeps r).res :=
  (depErr_eq_wrapFor b r).symm
theorem C03_as_if_stop (z : Act) (r : Res) (b : Bool) :
    wrapFor b (z.stop r).out = (({ z with indirect := b } : Act).stop r).res := rfl

/-- **every activation returns its own wrapping of the outcome it took** (its own
execution's, or — a dedup waiter — the shared execution's) -/
theorem C03_result_is_own_wrapping (P : Program) (F : Flags) (n : Nat) (tr : List Label) (c : Config)
    (h : replay P F (init n) tr = some c) (a : Nat) (x : Act) (hx : c.act? a = some x) :
    x.res = wrapFor x.indirect x.out ∧ ShapeOut x.out :=
  ⟨OutInv_sound P F n tr c h a x hx, (Shape_sound P F n tr c h a x hx).out⟩

/-- **C03 (no double wrapping).** In every run no activation returns a `TaskRunError` inside a
`TaskRunError`, and an activation that was not called directly returns no `TaskRunError` at all. -/
theorem C03_no_double_wrap (P : Program) (F : Flags) (n : Nat) (tr : List Label) (c : Config)
    (h : replay P F (init n) tr = some c) (a : Nat) (x : Act) (hx : c.act? a = some x) :
    (∀ q, x.res ≠ .run (.run q)) ∧ (x.indirect = true → ∀ q, x.res ≠ .run q) := by
  obtain ⟨hr, hsh⟩ := C03_result_is_own_wrapping P F n tr c h a x hx
  refine ⟨fun q => by rw [hr]; exact wrapFor_not_double _ _ hsh q, ?_⟩
  intro hi q
  rw [hr, hi, wrapFor_indirect]; exact hsh.bare q

/-- **C03 (status), at full strength.** In every run, for every top-level activation — whether
it executed the task itself or became a waiter of an execution some other call (a dependency,
a `task:` entry, another name on the command line) had started:
* its result is never a bare exit status — `main` never maps a command's exit status to the
  generic exit code 1;
* it is never a doubly wrapped `TaskRunError` (which would exit 201 even with `--exit-code`);
* if the execution it took its outcome from ended with a failing command or with a
  dependency's exit status, the result is `TaskRunError{that bare error}`: exit code 201, or the
  command's own status with `--exit-code`;
* otherwise (success, cancelled context, failed precondition, declined prompt: C13) it is the
  unwrapped outcome. -/
theorem C03_status_full (P : Program) (F : Flags) (n : Nat) (tr : List Label) (c : Config)
    (h : replay P F (init n) tr = some c) (a : Nat) (x : Act) (hx : c.act? a = some x)
    (ht : ∃ k, x.kind = .top k) :
    (∀ m, x.res ≠ .exit m) ∧ (∀ q, x.res ≠ .run (.run q)) ∧
    (x.out.wrappable = true → x.res = .run x.out.err ∧ exitCode x.res false = 201 ∧
      ∀ m, x.out.err = .exit m → exitCode x.res true = m) ∧
    (x.out.wrappable = false → x.res = x.out.err) := by
  have hd := (C03_top_is_direct P F n tr c h a x hx).mpr ht
  obtain ⟨hr, hsh⟩ := C03_result_is_own_wrapping P F n tr c h a x hx
  rw [hd] at hr
  refine ⟨fun m => by rw [hr]; exact wrapFor_direct_ne_exit _ hsh m,
    (C03_no_double_wrap P F n tr c h a x hx).1, ?_, ?_⟩
  · intro hw
    have e : x.res = .run x.out.err := by rw [hr, wrapFor_direct, if_pos hw]
    refine ⟨e, by rw [e]; exact exitCode_run_false _, ?_⟩
    intro m hm; rw [e, hm]; rfl
  · intro hw
    rw [hr, wrapFor_direct, hw]; rfl

/-- the part of `C03_status_full` that held before the fix too (kept under its old name) -/
theorem C03_status_partial (P : Program) (F : Flags) (n : Nat) (tr : List Label) (c : Config)
    (h : replay P F (init n) tr = some c) (a : Nat) (x : Act) (hx : c.act? a = some x)
    (ht : ∃ k, x.kind = .top k) : ∀ m, x.res ≠ .exit m :=
  (C03_status_full P F n tr c h a x hx ht).1

/-- **C03 (a waiter is served like an executor).** An activation that found the execution of
its `run: once` / `when_changed` key already registered and has been woken took the outcome
of that (finished) execution; its result is that outcome wrapped by its *own* call mode — by
`C03_as_if_*` what it would have returned had it executed the task itself — while the
executing activation's result is the same outcome wrapped by *its* call mode.  Both succeed or
both fail; called the same way they return the same error. -/
theorem C03_waiter_as_executor (P : Program) (F : Flags) (n : Nat) (tr : List Label) (c : Config)
    (h : replay P F (init n) tr = some c) (a : Nat) (x : Act) (hx : c.act? a = some x)
    (k : Nat) (hw : x.waitsFor = some k) (hp : x.phase ≠ .wWaiting ∧ x.phase ≠ .wReleased) :
    ∃ e ex, c.execs.lookup k = some e ∧ c.act? e = some ex ∧ execOver ex.phase = true ∧
      x.res = wrapFor x.indirect ex.out ∧ ex.res = wrapFor ex.indirect ex.out ∧
      (x.indirect = ex.indirect → x.res = ex.res) ∧ x.res.isOk = ex.res.isOk := by
  obtain ⟨e, ex, h1, h2, h3, ⟨_, h4⟩, _, _⟩ := Props.C02.C02_waiter_sync P F n tr c h a x hx k hw hp
  obtain ⟨h5, hsh⟩ := C03_result_is_own_wrapping P F n tr c h e ex h2
  refine ⟨e, ex, h1, h2, h3, h4, h5, ?_, ?_⟩
  · intro hi; rw [h4, h5, hi]
  · rw [h4, h5, wrapFor_isOk _ _ hsh, wrapFor_isOk _ _ hsh]

/-- **a top-level waiter of a failed shared execution**: whoever started the execution — a
dependency of another task, a `task:` entry — if its command failed with status `m`, the call
given on the command line that waited for it ends with `TaskRunError{exit m}`: 201, or `m`
with `--exit-code`. -/
theorem C03_status_top_waiter (P : Program) (F : Flags) (n : Nat) (tr : List Label) (c : Config)
    (h : replay P F (init n) tr = some c) (a : Nat) (x : Act) (hx : c.act? a = some x)
    (ht : ∃ k, x.kind = .top k) (k : Nat) (hw : x.waitsFor = some k)
    (hp : x.phase ≠ .wWaiting ∧ x.phase ≠ .wReleased) :
    ∃ e ex, c.execs.lookup k = some e ∧ c.act? e = some ex ∧
      ∀ m, ex.out = ⟨.exit m, true⟩ →
        x.res = .run (.exit m) ∧ exitCode x.res false = 201 ∧ exitCode x.res true = m := by
  obtain ⟨e, ex, h1, h2, _, h4, _⟩ := C03_waiter_as_executor P F n tr c h a x hx k hw hp
  refine ⟨e, ex, h1, h2, ?_⟩
  intro m hm
  have hd := (C03_top_is_direct P F n tr c h a x hx).mpr ht
  have e' : x.res = .run (.exit m) := by rw [h4, hd, hm]; rfl
  rw [e']; exact ⟨rfl, rfl, rfl⟩

/-- **the invocation's status is the named task's.** For `task t` (one task on the command
line): a complete run that passes `finalCheck` — the check the correspondence harness applies
to the error `Run` really returned — returned exactly the result of the top-level activation
of `t`; `main` exits with `exitCode` of it. -/
theorem C03_invocation_result_single (P : Program) (F : Flags) (t : Nat) (c : Config) (result : Res)
    (hpre : precheck P [t] = none) (h : finalCheck P F [t] c result = none) :
    ∃ id, c.tops.lookup 0 = some id ∧ kidDone c id = some result := by
  unfold finalCheck at h
  rw [hpre] at h
  simp only [List.length_singleton] at h
  split at h
  · cases h
  · split at h
    · cases h
    · cases hpar : F.parallel with
      | true =>
        simp only [hpar, if_true] at h
        cases hp : parResults c 1 0 with
        | none => simp [hp] at h
        | some rs =>
          obtain ⟨id, r, h1, h2, rfl⟩ := parResults_one c rs hp
          simp only [hp, List.all_cons, List.all_nil, Bool.and_true, List.contains_cons, List.contains_nil,
            Bool.or_false] at h
          refine ⟨id, h1, ?_⟩
          rw [h2]
          cases hok : result.isOk with
          | true =>
            simp only [hok, if_true] at h
            split at h
            · rename_i hr; rw [isOk_eq_ok _ hok, isOk_eq_ok _ hr]
            · cases h
          | false =>
            simp only [hok, Bool.false_eq_true, if_false] at h
            split at h
            · rename_i hr
              have : result = r := by simpa using hr
              rw [this]
            · cases h
      | false =>
        simp only [hpar, Bool.false_eq_true, if_false] at h
        cases hq : seqResult c 1 0 with
        | none => simp [hq] at h
        | some r' =>
          simp only [hq] at h
          split at h
          · rename_i he; subst he; exact seqResult_one c _ hq
          · cases h

/-- **the raw status monitor is sound.** On every run the model accepts (events replayed,
final check passed for the error `Run` really returned) the verdict `C03s` the driver prints is
`1`: `Run`'s error is no bare exit status and no doubly wrapped `TaskRunError`, and no
dependency group reported a `TaskRunError`.  Any number of calls, sequential or `--parallel`. -/
theorem C03_statusMon_sound (P : Program) (F : Flags) (calls : List Nat) (tr : List Label) (c : Config)
    (result : Res) (h : replay P F (init calls.length) tr = some c)
    (hf : finalCheck P F calls c result = none) : statusMon tr result = true := by
  unfold statusMon
  rw [Bool.and_eq_true]
  constructor
  · rcases finalCheck_result P F calls c result hf with e | ⟨k, e⟩ | ⟨k, id, hl, hk⟩
    · rw [e]; rfl
    · rw [e]; rfl
    · obtain ⟨x, hx, hkind⟩ := (Reach_sound P F _ tr c h).tops k id hl
      obtain ⟨x', hx', _, hres⟩ := (kidDone_some c id result).mp hk
      rw [hx] at hx'; cases hx'
      obtain ⟨g1, g2, _⟩ := C03_status_full P F _ tr c h id x hx ⟨k, hkind⟩
      rw [hres] at g1 g2
      cases result with
      | exit m => exact absurd rfl (g1 m)
      | run q =>
        cases q with
        | run q' => exact absurd rfl (g2 q')
        | _ => rfl
      | _ => rfl
  · rw [List.all_eq_true]
    intro l hl
    obtain ⟨tr1, tr2, e⟩ := List.append_of_mem hl
    subst e
    obtain ⟨c1, c2, h1, hs, _⟩ := replay_split P F _ c tr1 tr2 l h
    obtain ⟨a, ev⟩ := l
    cases ev with
    | depsDone r =>
      cases r with
      | run q => exact absurd rfl (step_depsDone_bare P F c1 c2 a _ (Reach_sound P F _ tr1 c1 h1) hs q)
      | _ => rfl
    | _ => rfl

/-! ### history: the rule before the fix of `C03-dedup-waiter-status` -/

/-- (old rule, not used by the model) the executing activation wrapped the failure by its own
call mode and every waiter received that wrapped error as it was -/
def oldWaiterRes (execIndirect : Bool) (o : Outcome) : Res := wrapFor execIndirect o

/-- under the old rule a top-level waiter of an execution that ran as a dependency returned
the bare status (exit code 1 with and without `--exit-code`), and the direct caller of an
indirect waiter of a top-level execution wrapped a `TaskRunError` again (201 even with
`--exit-code`); under the rule the model mirrors now both end with `TaskRunError{exit 7}` -/
theorem C03_old_rule_counterexample :
    oldWaiterRes true ⟨.exit 7, true⟩ = .exit 7 ∧
    exitCode (oldWaiterRes true ⟨.exit 7, true⟩) false = 1 ∧ exitCode (oldWaiterRes true ⟨.exit 7, true⟩) true = 1 ∧
    wrap false (oldWaiterRes false ⟨.exit 7, true⟩) = .run (.run (.exit 7)) ∧
    exitCode (wrap false (oldWaiterRes false ⟨.exit 7, true⟩)) true = 201 ∧
    wrapFor false ⟨.exit 7, true⟩ = .run (.exit 7) ∧ wrap false (wrapFor true ⟨.exit 7, true⟩) = .run (.exit 7) := by
  decide

/-! ### non-vacuity: the two dedup shapes -/

/-- `task --parallel b a` with `b: {deps: [a]}`, `a: {run: once, cmds: [exit 7]}`: the execution
of `a` is started as the dependency of `b` (activation 2); the top-level call of `a`
(activation 3) becomes its waiter -/
private def progW : Program := [ { run := .once, cmds := [.shell 7 false false] }, { deps := [0] } ]

private def runW : List Label :=
  [⟨1, .enter (.top 0) 1⟩, ⟨1, .acquire⟩, ⟨1, .depsRelease⟩,
   ⟨2, .enter (.dep 1 0) 0⟩, ⟨2, .acquire⟩, ⟨2, .register 5⟩, ⟨2, .depsRelease⟩, ⟨2, .depsReacq⟩, ⟨2, .depsDone .ok⟩,
   ⟨2, .guardsPassed⟩, ⟨2, .cmdStart 0 none false⟩, ⟨2, .cmdEnd 0 (.exit 7)⟩, ⟨2, .execDone⟩, ⟨2, .release⟩, ⟨2, .exit⟩,
   ⟨3, .enter (.top 1) 0⟩, ⟨3, .acquire⟩, ⟨3, .waiter 5⟩, ⟨3, .wRelease⟩, ⟨3, .wWake⟩, ⟨3, .wReacq⟩, ⟨3, .release⟩, ⟨3, .exit⟩,
   ⟨1, .depsReacq⟩, ⟨1, .depsDone (.exit 7)⟩, ⟨1, .release⟩, ⟨1, .exit⟩]

-- the top-level waiter (hypotheses of `C03_status_top_waiter`: kind `top`, `waitsFor`, woken) ends with
-- `TaskRunError{exit 7}`: 201, or 7 with `--exit-code` — like the top-level call of `b`
example : ((replay progW { parallel := true } (init 2) runW).bind (·.act? 3)).map
    (fun x => (x.kind, x.waitsFor, x.out, x.res, exitCode x.res false, exitCode x.res true)) =
    some (.top 1, some 5, ⟨.exit 7, true⟩, .run (.exit 7), 201, 7) := by decide
example : ((replay progW { parallel := true } (init 2) runW).bind (·.act? 1)).map
    (fun x => (x.kind, x.res, exitCode x.res false, exitCode x.res true)) =
    some (.top 0, .run (.exit 7), 201, 7) := by decide
-- the executing activation was called as a dependency: it returns the bare status, its outcome is marked
example : ((replay progW { parallel := true } (init 2) runW).bind (·.act? 2)).map
    (fun x => (x.kind, x.indirect, x.key, x.out, x.res)) =
    some (.dep 1 0, true, some 5, ⟨.exit 7, true⟩, .exit 7) := by decide
-- the run is complete and either top-level result is accepted as `Run`'s error; the raw monitor holds
example : (replay progW { parallel := true } (init 2) runW).map
    (fun c => (finalCheck progW { parallel := true } [1, 0] c (.run (.exit 7))).isNone) = some true := by decide
example : statusMon runW (.run (.exit 7)) = true := by decide
-- what the unpatched executor returned for this run is rejected by the final check and by the raw monitor
example : (replay progW { parallel := true } (init 2) runW).map
    (fun c => (finalCheck progW {} [0] c (.exit 7)).isNone) = some false := by decide
example : statusMon runW (.exit 7) = false := by decide

/-- the reverse: `task --parallel a c` with `c: {cmds: [{task: a}]}`; the execution of `a` is the
top-level call (activation 1), the call of `a` inside `c` (activation 3) waits for it and
returns the bare status, which `c` wraps once -/
private def progD : Program := [ { run := .once, cmds := [.shell 7 false false] }, { cmds := [.call 0 false] } ]

private def runD : List Label :=
  [⟨1, .enter (.top 0) 0⟩, ⟨1, .acquire⟩, ⟨1, .register 5⟩, ⟨1, .depsRelease⟩, ⟨1, .depsReacq⟩, ⟨1, .depsDone .ok⟩,
   ⟨1, .guardsPassed⟩, ⟨1, .cmdStart 0 none false⟩,
   ⟨2, .enter (.top 1) 1⟩, ⟨2, .acquire⟩, ⟨2, .depsRelease⟩, ⟨2, .depsReacq⟩, ⟨2, .depsDone .ok⟩, ⟨2, .guardsPassed⟩,
   ⟨2, .callRelease 0 false⟩,
   ⟨3, .enter (.call 2 0 false) 0⟩, ⟨3, .acquire⟩, ⟨3, .waiter 5⟩, ⟨3, .wRelease⟩,
   ⟨1, .cmdEnd 0 (.exit 7)⟩, ⟨1, .execDone⟩,
   ⟨3, .wWake⟩, ⟨3, .wReacq⟩, ⟨3, .release⟩, ⟨3, .exit⟩,
   ⟨2, .callRet 0⟩, ⟨2, .callReacq 0⟩, ⟨2, .release⟩, ⟨2, .exit⟩, ⟨1, .release⟩, ⟨1, .exit⟩]

-- the indirect waiter (hypotheses of `C03_waiter_as_executor`) returns the bare status although the execution it
-- waited for returned `TaskRunError{exit 7}` to its own (direct) caller
example : ((replay progD { parallel := true } (init 2) runD).bind (·.act? 3)).map
    (fun x => (x.kind, x.indirect, x.waitsFor, x.out, x.res)) =
    some (.call 2 0 false, true, some 5, ⟨.exit 7, true⟩, .exit 7) := by decide
example : ((replay progD { parallel := true } (init 2) runD).bind (·.act? 1)).map
    (fun x => (x.kind, x.indirect, x.key, x.out, x.res)) =
    some (.top 0, false, some 5, ⟨.exit 7, true⟩, .run (.exit 7)) := by decide
-- … so its caller wraps once: 201, or 7 with `--exit-code`
example : ((replay progD { parallel := true } (init 2) runD).bind (·.act? 2)).map
    (fun x => (x.kind, x.res, exitCode x.res false, exitCode x.res true)) =
    some (.top 1, .run (.exit 7), 201, 7) := by decide
example : (replay progD { parallel := true } (init 2) runD).map
    (fun c => (finalCheck progD { parallel := true } [0, 1] c (.run (.exit 7))).isNone) = some true := by decide
example : statusMon runD (.run (.exit 7)) = true := by decide
example : statusMon runD (.run (.run (.exit 7))) = false := by decide
-- the waiter is woken only after the shared execution has finished (repaired behaviour)
example : (replay progD { parallel := true } (init 2) (runD.take 19 ++ [⟨3, .wWake⟩])).isNone = true := by decide

/-- the same with the waiter reached through `deps:`: `task --parallel a c`, `c: {deps: [a]}` — the
dependency group of `c` reports the bare status (a `TaskRunError` there is what the raw
monitor's second half rejects) -/
private def progE : Program := [ { run := .once, cmds := [.shell 7 false false] }, { deps := [0] } ]

private def runE : List Label :=
  [⟨1, .enter (.top 0) 0⟩, ⟨1, .acquire⟩, ⟨1, .register 5⟩, ⟨1, .depsRelease⟩, ⟨1, .depsReacq⟩, ⟨1, .depsDone .ok⟩,
   ⟨1, .guardsPassed⟩, ⟨1, .cmdStart 0 none false⟩,
   ⟨2, .enter (.top 1) 1⟩, ⟨2, .acquire⟩, ⟨2, .depsRelease⟩,
   ⟨3, .enter (.dep 2 0) 0⟩, ⟨3, .acquire⟩, ⟨3, .waiter 5⟩, ⟨3, .wRelease⟩,
   ⟨1, .cmdEnd 0 (.exit 7)⟩, ⟨1, .execDone⟩,
   ⟨3, .wWake⟩, ⟨3, .wReacq⟩, ⟨3, .release⟩, ⟨3, .exit⟩,
   ⟨2, .depsReacq⟩, ⟨2, .depsDone (.exit 7)⟩, ⟨2, .release⟩, ⟨2, .exit⟩, ⟨1, .release⟩, ⟨1, .exit⟩]

example : (replay progE { parallel := true } (init 2) runE).map (fun c => [1, 2, 3].map (fun a => (c.act? a).map (·.res))) =
    some [some (.run (.exit 7)), some (.run (.exit 7)), some (.exit 7)] := by decide
-- the old executor's log of this run (`depsDone` of `c` reports the `TaskRunError`) is rejected at that event
example : (replay progE { parallel := true } (init 2) (runE.take 22 ++ [⟨2, .depsDone (.run (.exit 7))⟩])).isNone = true := by decide
example : statusMon (runE.take 22 ++ [⟨2, .depsDone (.run (.exit 7))⟩]) (.run (.exit 7)) = false := by decide

/-! ## non-vacuity: a failure in a called task -/

private def progF : Program :=
  [ { cmds := [.call 1 false, .shell 0 false false] },
    { cmds := [.shell 3 false false, .shell 0 false false] } ]

private def runF : List Label :=
  [⟨1, .enter (.top 0) 0⟩, ⟨1, .acquire⟩, ⟨1, .depsRelease⟩, ⟨1, .depsReacq⟩, ⟨1, .depsDone .ok⟩, ⟨1, .guardsPassed⟩,
   ⟨1, .callRelease 0 false⟩,
   ⟨2, .enter (.call 1 0 false) 1⟩, ⟨2, .acquire⟩, ⟨2, .depsRelease⟩, ⟨2, .depsReacq⟩, ⟨2, .depsDone .ok⟩,
   ⟨2, .guardsPassed⟩, ⟨2, .cmdStart 0 none false⟩, ⟨2, .cmdEnd 0 (.exit 3)⟩, ⟨2, .release⟩, ⟨2, .exit⟩,
   ⟨1, .callRet 0⟩, ⟨1, .callReacq 0⟩, ⟨1, .release⟩, ⟨1, .exit⟩]

-- accepted; callee returns the bare status, the directly called task wraps it: 201, or 3 with --exit-code
example : ((replay progF {} (init 1) runF).map (fun c => [1, 2].map (fun a => (c.act? a).map (fun x => (x.phase, x.res, x.started))))) =
    some [some (.done, .run (.exit 3), [0]), some (.done, .exit 3, [0])] := by decide
example : exitCode (.run (.exit 3)) false = 201 ∧ exitCode (.run (.exit 3)) true = 3 := by decide
-- the callee starting its next command after the failure is rejected …
example : (replay progF {} (init 1) (runF.take 15 ++ [⟨2, .cmdStart 1 none false⟩])).isNone = true := by decide
-- … and so is the caller starting its next command after the callee failed
example : (replay progF {} (init 1) (runF.take 19 ++ [⟨1, .cmdStart 1 none false⟩])).isNone = true := by decide
-- the hypotheses of `C03_no_later_cmd_caller` are met at the caller's `callReacq` (event 18 of the run)
example : ((replay progF {} (init 1) (runF.take 18)).bind (·.act? 1)).map
    (fun x => (x.phase, x.callRes, x.rest.head?, x.def_.ignoreError)) =
    some (.callReturned 0 false, .exit 3, some (.call 1 false), false) := by decide
-- the monitor accepts the run and rejects the continuation on the raw events
example : failStopMonAll progF runF = true := by decide
example : failStopMonAll progF (runF.take 15 ++ [⟨2, .cmdStart 1 none false⟩]) = false := by decide
-- with `ignore_error` on the command the same continuation is accepted
private def progI : Program :=
  [ { cmds := [.call 1 false, .shell 0 false false] },
    { cmds := [.shell 3 true false, .shell 0 false false] } ]
example : (replay progI {} (init 1) (runF.take 15 ++ [⟨2, .cmdStart 1 none false⟩, ⟨2, .cmdEnd 1 .ok⟩])).isSome = true := by decide
example : failStopMonAll progI (runF.take 15 ++ [⟨2, .cmdStart 1 none false⟩, ⟨2, .cmdEnd 1 .ok⟩]) = true := by decide
-- a failing dependency: the dependent stops without starting anything (hypotheses of `C03_propagates_deps`)
example : ((replay progW { parallel := true } (init 2) runW).bind (·.act? 1)).map
    (fun x => (x.phase, x.started, x.res, x.kids)) = some (.done, [], .run (.exit 7), [(0, 2)]) := by decide
example : (replay progW { parallel := true } (init 2) (runW.take 24 ++ [⟨1, .depsDone .ok⟩])).isNone = true := by decide

/-! ## a task that does not compile

A template error in a task-level field (`label:`, `env:`, `dir:` …) is reported by `CompiledTask`,
which `RunTask` calls after the platform and required-variable checks and before everything else
(`SchedTie.runTask_skeleton`).  It is not a command's exit status, but it is a failure of the task:
nothing of the task may run and every caller must see a failure (`C03_propagates_*` apply to the
result `generic` like to any other failure).  Whether the task compiles is program data
(`TaskDef.compileOk`), like the guard outcomes. -/

/-- **C03 (a task whose compilation fails, fails before any of its commands).** An activation of a
task that is admitted by `platforms:`, has its required variables and does not compile is born
with a plain error as its result, has started nothing, and all it can do is return that error. -/
theorem C03_compile_error_before_cmds (P : Program) (F : Flags) (c : Config) (kind : Kind) (t : Nat) (d : TaskDef)
    (hd : P[t]? = some d) (hp : d.platformOk = true) (hr : d.requiresOk = true) (hc : d.compileOk = false) :
    (freshAct P F c kind t).phase = .early ∧ (freshAct P F c kind t).res = .generic ∧
    (freshAct P F c kind t).res.isOk = false ∧ (freshAct P F c kind t).started = [] ∧
    (∀ o ev y eff, stepLocal F o (freshAct P F c kind t) ev = some (y, eff) →
      ev = .exit ∧ y.phase = .done ∧ y.res = .generic ∧ y.started = []) := by
  have hdef : (freshAct P F c kind t).def_ = d := by
    rw [(freshAct_fields P F c kind t).2.2.2.2.2.2.2.2.2.2.2.2.1, hd]; rfl
  have he : S7.earlyRes d = some .generic := by simp [S7.earlyRes, hp, hr, hc]
  obtain ⟨h1, h2⟩ := S7.freshAct_earlyRes P F c kind t .generic (by rw [hdef]; exact he)
  have hs := (freshAct_fields P F c kind t).2.2.2.2.1
  refine ⟨h1, h2, by rw [h2]; rfl, hs, ?_⟩
  intro o ev y eff hst
  obtain ⟨e1, _, e3⟩ := S7.stepLocal_early F o _ ev y eff h1 hst
  exact ⟨e1, by rw [e3], by rw [e3]; exact h2, by rw [e3]; exact hs⟩

/-- non-vacuity: task 1 does not compile; its caller (a `task:` entry of task 0) fails with 201 wrapping
the error and does not start its next command -/
def progCE : Program :=
  [ { cmds := [.call 1 false, .shell 0 false false] }, { compileOk := false, cmds := [.shell 0 false false] } ]
def runCE : List Label :=
  [⟨1, .enter (.top 0) 0⟩, ⟨1, .acquire⟩, ⟨1, .depsRelease⟩, ⟨1, .depsReacq⟩, ⟨1, .depsDone .ok⟩, ⟨1, .guardsPassed⟩,
   ⟨1, .callRelease 0 false⟩, ⟨2, .enter (.call 1 0 false) 1⟩, ⟨2, .exit⟩, ⟨1, .callRet 0⟩, ⟨1, .callReacq 0⟩,
   ⟨1, .release⟩, ⟨1, .exit⟩]
example : ((replay progCE {} (init 1) runCE).map (fun c => [1, 2].map (fun a => (c.act? a).map (fun x => (x.phase, x.res, x.started))))) =
    some [some (.done, .run .generic, [0]), some (.done, .generic, [])] := by decide
example : (replay progCE {} (init 1) (runCE.take 9 ++ [⟨2, .acquire⟩])).isNone = true := by decide
example : (replay progCE {} (init 1) (runCE.take 11 ++ [⟨1, .cmdStart 1 none false⟩])).isNone = true := by decide

end Props.C03
