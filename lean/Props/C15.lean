import TaskModel.Resolve.GlobLemmas
import TaskModel.Resolve.Table
import TaskModel.Resolve.Suggest
import TaskModel.Resolve.OfLoad
import TaskModel.Load.OrderLemmas
import TaskModel.Gen.ResolveOrder
/-!
# C15 — Task name resolution: exact name, then wildcard, then unique alias

Property theorems only; helper lemmas live in `TaskModel.Resolve.GlobLemmas`.
The matcher is the literal one (only `*` special).  The tie to `/repo` is the
correspondence check `resolve` (harness/resolve.go): `ast.Task.WildcardMatch` and
`Executor.GetTask` are run on generated names/patterns/aliases over an alphabet
with regexp metacharacters and compared with `wildcardMatch` / `resolve`; `loadresolve`
does the same over the merged tables of generated include trees.  The regenerated half:
`Gen.ResolveOrder` (lookup order of `GetTask` / `FindMatchingTasks`, the regular
expression `WildcardMatch` builds), pinned by `resolve_order_in_source` below.
-/
namespace Props.C15
open TaskModel.Resolve

/-- A decomposition of `s` along the segments of a pattern: one value per `*`, and the
segments and values spell `s`.  The values are ARBITRARY strings (any character, the
newline included: only `*` is special). -/
def Decomp (rest : List Str) (seg0 : Str) (ws : List Str) (s : Str) : Prop :=
  ws.length = rest.length ∧ s = seg0 ++ spellRest rest ws

/-- **Soundness of `.MATCH`**: whatever the matcher returns spells the requested name
exactly — pattern segments literally, wildcard values in between, one per `*`. -/
theorem C15_match_sound (seg0 : Str) (rest : List Str) (s : Str) (ws : List Str)
    (h : matchSegs (seg0 :: rest) s = some ws) : Decomp rest seg0 ws s := by
  simp only [matchSegs] at h
  split at h
  · rename_i hp
    obtain ⟨t, rfl⟩ := (isPrefix_iff _ _).mp hp
    rw [drop_of_prefix] at h
    obtain ⟨h1, h2⟩ := matchRest_sound _ _ _ h
    exact ⟨h1, by rw [h2]⟩
  · cases h

/-- **Completeness**: every name that can be spelled from the pattern matches — for ALL
strings as wildcard values (since the `(?s)` fix; before it a value containing a newline
never matched: `C15_old_rule_newline_counterexample`). -/
theorem C15_match_complete (seg0 : Str) (rest ws : List Str) (hl : ws.length = rest.length) :
    (matchSegs (seg0 :: rest) (seg0 ++ spellRest rest ws)).isSome = true := by
  simp only [matchSegs]
  rw [if_pos ((isPrefix_iff _ _).mpr ⟨_, rfl⟩), drop_of_prefix]
  exact matchRest_complete rest ws hl

/-- soundness and completeness together: the names a pattern matches are EXACTLY the names
it spells -/
theorem C15_match_iff (seg0 : Str) (rest : List Str) (s : Str) :
    (matchSegs (seg0 :: rest) s).isSome = true ↔ ∃ ws, Decomp rest seg0 ws s := by
  constructor
  · intro h
    obtain ⟨ws, hws⟩ := Option.isSome_iff_exists.mp h
    exact ⟨ws, C15_match_sound _ _ _ _ hws⟩
  · rintro ⟨ws, hl, rfl⟩
    exact C15_match_complete _ _ _ hl

/-- **Greedy, every group**: among all ways of spelling the name from the pattern, the
matcher returns the one whose first wildcard value is longest; among those, the one whose
second value is longest; and so on (`lexLenLe ws' ws`: at the first position where the
lengths differ, the returned value is the longer one) — leftmost-longest, as Go's regexp
does for `(.*)`. -/
theorem C15_match_greedy (seg0 : Str) (rest : List Str) (s : Str) (ws : List Str)
    (h : matchSegs (seg0 :: rest) s = some ws) (ws' : List Str) (hd : Decomp rest seg0 ws' s) :
    lexLenLe ws' ws := by
  simp only [matchSegs] at h
  split at h
  · obtain ⟨hl, hs⟩ := hd
    subst hs
    rw [drop_of_prefix] at h
    exact matchRest_greedy_all _ _ _ h ws' hl rfl
  · cases h

/-- the first-group corollary in the form of earlier versions -/
theorem C15_match_greedy_first (seg0 seg : Str) (more : List Str) (w : Str) (ws : List Str)
    (hl : ws.length = more.length) :
    ∃ w' ws', matchSegs (seg0 :: seg :: more) (seg0 ++ spellRest (seg :: more) (w :: ws))
        = some (w' :: ws') ∧ w.length ≤ w'.length := by
  simp only [matchSegs]
  rw [if_pos ((isPrefix_iff _ _).mpr ⟨_, rfl⟩), drop_of_prefix]
  exact matchRest_greedy seg more w ws hl

/-- non-vacuity: `s*-*` on `sa-b-c`: the other decomposition `[a, b-c]` is below the returned
`[a-b, c]`; a value with a newline is matched like any other -/
example : wildcardMatch ['s','*','-','*'] ['s','a','-','b','-','c'] = some [['a','-','b'],['c']]
    ∧ lexLenLe [['a'],['b','-','c']] [['a','-','b'],['c']] := by
  refine ⟨by decide, ?_⟩; simp [lexLenLe]
example : wildcardMatch ['x','-','*'] ['x','-','a','\n','b'] = some [['a','\n','b']] := by decide

/-! ### Historical: the rule before the `(?s)` fix — `.` did not match a newline -/

/-- length of the longest prefix without a newline (what one `(.*)` could take at most) -/
def nlFree : Str → Nat
  | [] => 0
  | c :: cs => if c = '\n' then 0 else nlFree cs + 1

def matchRestOld : List Str → Str → Option (List Str)
  | [], s => if s = [] then some [] else none
  | seg :: more, s => tryK seg (matchRestOld more) s (nlFree s)

def wildcardMatchOld (pat name : Str) : Option (List Str) :=
  match splitOn '*' pat with
  | [] => none
  | seg0 :: rest => if isPrefix seg0 name then matchRestOld rest (name.drop seg0.length) else none

/-- the old rule: the task `x-*` did not answer to the name `x-a⏎b` although the name is
spelled by the pattern (completeness was false for values with a newline) -/
theorem C15_old_rule_newline_counterexample :
    wildcardMatchOld ['x','-','*'] ['x','-','a','\n','b'] = none
    ∧ Decomp [[]] ['x','-'] [['a','\n','b']] ['x','-','a','\n','b'] := by
  refine ⟨by decide, by simp [Decomp, spellRest]⟩

/-- **Every character other than `*` is literal**: a pattern without `*` matches exactly
itself. -/
theorem C15_literal (pat s : Str) :
    (matchSegs [pat] s).isSome = true ↔ s = pat := by
  simp only [matchSegs]
  constructor
  · intro h
    split at h
    · rename_i hp
      obtain ⟨t, rfl⟩ := (isPrefix_iff _ _).mp hp
      rw [drop_of_prefix] at h
      simp only [matchRest] at h
      split at h
      · subst_vars; simp
      · cases h
    · cases h
  · rintro rfl
    rw [if_pos ((isPrefix_iff _ _).mpr ⟨[], by simp⟩)]
    simp [matchRest]

/-! ## Order of resolution -/

theorem findExact_spec (req : Str) (tbl : List Entry) (b : Nat) :
    match findExact req tbl b with
    | some i => ∃ k, i = b + k ∧ (∃ e, tbl[k]? = some e ∧ e.name = req) ∧
        ∀ j, j < k → ∀ e, tbl[j]? = some e → e.name ≠ req
    | none => ∀ e ∈ tbl, e.name ≠ req := by
  induction tbl generalizing b with
  | nil => simp [findExact]
  | cons e es ih =>
    simp only [findExact]
    split
    · rename_i i hi
      split at hi
      · rename_i he
        cases hi
        exact ⟨0, rfl, ⟨e, rfl, he⟩, by intro j hj; omega⟩
      · rename_i he
        have := ih (b+1)
        rw [hi] at this
        obtain ⟨k, rfl, ⟨e', he', hn⟩, hmin⟩ := this
        refine ⟨k+1, by omega, ⟨e', by simpa using he', hn⟩, ?_⟩
        intro j hj e'' hj'
        cases j with
        | zero => simp at hj'; subst hj'; exact he
        | succ j => exact hmin j (by omega) e'' (by simpa using hj')
    · rename_i hi
      split at hi
      · cases hi
      · rename_i he
        have := ih (b+1)
        rw [hi] at this
        intro x hx
        simp only [List.mem_cons] at hx
        rcases hx with rfl | hx
        · exact he
        · exact this x hx

/-- **Exact name wins**: if an entry is named exactly `req`, it is the one resolved (the
first such), with no wildcard values, whatever patterns or aliases also match. -/
theorem C15_exact_wins (tbl : List Entry) (req : Str) (h : ∃ e ∈ tbl, e.name = req) :
    ∃ i e, resolve tbl req = .found i [] ∧ tbl[i]? = some e ∧ e.name = req ∧
      ∀ j, j < i → ∀ e', tbl[j]? = some e' → e'.name ≠ req := by
  have := findExact_spec req tbl 0
  unfold resolve
  split at this
  · rename_i i hi
    obtain ⟨k, rfl, ⟨e, he, hn⟩, hmin⟩ := this
    rw [hi]
    exact ⟨0 + k, e, rfl, by simpa using he, hn, by simpa using hmin⟩
  · obtain ⟨e, he, hn⟩ := h
    exact absurd hn (this e he)

theorem findWild_spec (req : Str) (tbl : List Entry) (b : Nat) :
    match findWild req tbl b with
    | some (i, ws) => ∃ k, i = b + k ∧ (∃ e, tbl[k]? = some e ∧ wildcardMatch e.name req = some ws) ∧
        ∀ j, j < k → ∀ e, tbl[j]? = some e → wildcardMatch e.name req = none
    | none => ∀ e ∈ tbl, wildcardMatch e.name req = none := by
  induction tbl generalizing b with
  | nil => simp [findWild]
  | cons e es ih =>
    simp only [findWild]
    cases hm : wildcardMatch e.name req with
    | some ws =>
      exact ⟨0, rfl, ⟨e, rfl, hm⟩, by intro j hj; omega⟩
    | none =>
      have := ih (b+1)
      simp only
      split
      · rename_i i ws hi
        rw [hi] at this
        obtain ⟨k, rfl, ⟨e', he', hn⟩, hmin⟩ := this
        refine ⟨k+1, by omega, ⟨e', by simpa using he', hn⟩, ?_⟩
        intro j hj e'' hj'
        cases j with
        | zero => simp at hj'; subst hj'; exact hm
        | succ j => exact hmin j (by omega) e'' (by simpa using hj')
      · rename_i hi
        rw [hi] at this
        intro x hx
        simp only [List.mem_cons] at hx
        rcases hx with rfl | hx
        · exact hm
        · exact this x hx

/-- **Then the first wildcard in table order** (parent file first is the table order):
with no exact match, the task resolved is the first whose pattern matches and `.MATCH`
is exactly what the matcher returned for it. -/
theorem C15_first_wildcard (tbl : List Entry) (req : Str)
    (hne : ∀ e ∈ tbl, e.name ≠ req) (i : Nat) (e : Entry) (ws : List Str)
    (hi : tbl[i]? = some e) (hm : wildcardMatch e.name req = some ws)
    (hfirst : ∀ j, j < i → ∀ e', tbl[j]? = some e' → wildcardMatch e'.name req = none) :
    resolve tbl req = .found i ws := by
  have hx := findExact_spec req tbl 0
  have hw := findWild_spec req tbl 0
  unfold resolve
  split at hx
  · rename_i i' _
    obtain ⟨k, _, ⟨e', he', hn⟩, _⟩ := hx
    exact absurd hn (hne e' (List.mem_of_getElem? he'))
  · rename_i hx'
    rw [hx']
    split at hw
    · rename_i i' ws' hw'
      obtain ⟨k, rfl, ⟨e', he', hm'⟩, hmin⟩ := hw
      simp only [hw']
      have hki : k = i := by
        rcases Nat.lt_trichotomy k i with h | h | h
        · have := hfirst k h e' he'; rw [this] at hm'; cases hm'
        · exact h
        · have := hmin i h e hi; rw [this] at hm; cases hm
      subst hki
      rw [hi] at he'; cases he'
      rw [hm] at hm'; cases hm'
      simp
    · have := hw e (List.mem_of_getElem? hi)
      rw [this] at hm; cases hm

/-- **Parent file first.**  If the names `own` (the tasks of the including file, in file order)
are a prefix of the table's names — what every merge guarantees (`load_root_prefix`) — then a
request without exact match that one of them matches as a pattern resolves to the FIRST such
own task, with its wildcard values, whatever patterns the tasks merged in from included
files (they come later in the table) would match. -/
theorem C15_parent_first (tbl : List Entry) (own : List Str) (hpre : own <+: tbl.map (·.name)) (req : Str)
    (hne : ∀ e ∈ tbl, e.name ≠ req) (i : Nat) (p : Str) (ws : List Str)
    (hi : own[i]? = some p) (hm : wildcardMatch p req = some ws)
    (hfirst : ∀ j, j < i → ∀ p', own[j]? = some p' → wildcardMatch p' req = none) :
    ∃ e, tbl[i]? = some e ∧ e.name = p ∧ resolve tbl req = .found i ws := by
  obtain ⟨rest, hrest⟩ := hpre
  have hlook : ∀ (k : Nat) (q : Str), own[k]? = some q → ∃ e : Entry, tbl[k]? = some e ∧ e.name = q := by
    intro k q hk
    have hlt : k < own.length := by
      rcases Nat.lt_or_ge k own.length with h | h
      · exact h
      · rw [List.getElem?_eq_none h] at hk; cases hk
    have h1 : (tbl.map (·.name))[k]? = some q := by
      rw [← hrest, List.getElem?_append_left hlt]; exact hk
    rw [List.getElem?_map] at h1
    cases he : tbl[k]? with
    | none => rw [he] at h1; cases h1
    | some e => rw [he] at h1; simp only [Option.map_some, Option.some.injEq] at h1; exact ⟨e, rfl, h1⟩
  have hown : ∀ (k : Nat) (e : Entry), k < own.length → tbl[k]? = some e → own[k]? = some e.name := by
    intro k e hk he
    have h1 : (tbl.map (·.name))[k]? = some e.name := by rw [List.getElem?_map, he]; rfl
    rw [← hrest, List.getElem?_append_left hk] at h1
    exact h1
  obtain ⟨e, he, hn⟩ := hlook i p hi
  have hilt : i < own.length := by
    rcases Nat.lt_or_ge i own.length with h | h
    · exact h
    · rw [List.getElem?_eq_none h] at hi; cases hi
  refine ⟨e, he, hn, C15_first_wildcard tbl req hne i e ws he (by rw [hn]; exact hm) ?_⟩
  intro j hj e' he'
  exact hfirst j hj e'.name (hown j e' (by omega) he')

/-- … and the loaded table has that shape: the task names of the root file of the file map
are a prefix, in file order, of the names of the resolution table `ofLoad tf` the driver
(and `Executor.GetTask`) resolves over — for every include graph and every order of merging. -/
theorem C15_parent_first_load (fm : TaskModel.Load.FileMap) (root : Nat) (tf : TaskModel.Load.Taskfile)
    (h : TaskModel.Load.load fm root = .ok tf) :
    ∃ f, TaskModel.Load.Store.get root fm = some f ∧
      f.tasks.names.map toStr <+: (ofLoad tf).map (·.name) := by
  obtain ⟨f, hf, hp⟩ := TaskModel.Load.load_root_prefix fm root tf h
  refine ⟨f, hf, ?_⟩
  rw [ofLoad_names]
  obtain ⟨r, hr⟩ := hp
  exact ⟨r.map toStr, by rw [← hr, List.map_append]⟩

theorem findAliases_mem (req : Str) (tbl : List Entry) (b i : Nat) :
    i ∈ findAliases req tbl b ↔ ∃ k e, i = b + k ∧ tbl[k]? = some e ∧ req ∈ e.aliases := by
  induction tbl generalizing b with
  | nil => simp [findAliases]
  | cons e es ih =>
    simp only [findAliases]
    constructor
    · intro h
      split at h
      · rename_i hr
        simp only [List.mem_cons] at h
        rcases h with rfl | h
        · exact ⟨0, e, rfl, rfl, hr⟩
        · obtain ⟨k, e', rfl, hk, hr'⟩ := (ih (b+1)).mp h
          exact ⟨k+1, e', by omega, by simpa using hk, hr'⟩
      · obtain ⟨k, e', rfl, hk, hr'⟩ := (ih (b+1)).mp h
        exact ⟨k+1, e', by omega, by simpa using hk, hr'⟩
    · rintro ⟨k, e', rfl, hk, hr⟩
      cases k with
      | zero =>
        simp at hk; subst hk
        simp [hr]
      | succ k =>
        have : b + (k+1) ∈ findAliases req es (b+1) :=
          (ih (b+1)).mpr ⟨k, e', by omega, by simpa using hk, hr⟩
        split
        · exact List.mem_cons_of_mem _ this
        · exact this

/-- **Then aliases; ambiguity is an error, never a silent choice**: with no exact and no
wildcard match the outcome is decided by the set of tasks carrying the alias — none ⇒
200, exactly one ⇒ that task, two or more ⇒ 203 naming them all. -/
theorem C15_alias (tbl : List Entry) (req : Str)
    (hne : ∀ e ∈ tbl, e.name ≠ req) (hnw : ∀ e ∈ tbl, wildcardMatch e.name req = none) :
    (findAliases req tbl 0 = [] → resolve tbl req = .notFound) ∧
    (∀ i, findAliases req tbl 0 = [i] → resolve tbl req = .found i []) ∧
    (∀ i j r, findAliases req tbl 0 = i :: j :: r → resolve tbl req = .conflict (i :: j :: r)) := by
  have hx := findExact_spec req tbl 0
  have hw := findWild_spec req tbl 0
  have hx' : findExact req tbl 0 = none := by
    split at hx
    · obtain ⟨k, _, ⟨e', he', hn⟩, _⟩ := hx
      exact absurd hn (hne e' (List.mem_of_getElem? he'))
    · assumption
  have hw' : findWild req tbl 0 = none := by
    split at hw
    · obtain ⟨k, _, ⟨e', he', hm⟩, _⟩ := hw
      rw [hnw e' (List.mem_of_getElem? he')] at hm; cases hm
    · assumption
  unfold resolve
  rw [hx', hw']
  refine ⟨fun h => by rw [h], fun i h => by rw [h], fun i j r h => by rw [h]⟩

/-- unknown names resolve to nothing: error 200 and no task index to run -/
theorem C15_unknown (tbl : List Entry) (req : Str)
    (hne : ∀ e ∈ tbl, e.name ≠ req) (hnw : ∀ e ∈ tbl, wildcardMatch e.name req = none)
    (hna : ∀ e ∈ tbl, req ∉ e.aliases) : resolve tbl req = .notFound ∧ (resolve tbl req).code = 200 := by
  have h0 : findAliases req tbl 0 = [] := by
    cases h : findAliases req tbl 0 with
    | nil => rfl
    | cons i r =>
      have : i ∈ findAliases req tbl 0 := by rw [h]; exact List.mem_cons_self
      obtain ⟨k, e, _, hk, hr⟩ := (findAliases_mem req tbl 0 i).mp this
      exact absurd hr (hna e (List.mem_of_getElem? hk))
  have := (C15_alias tbl req hne hnw).1 h0
  exact ⟨this, by rw [this]; rfl⟩

/-! ## Unknown ⇒ 200 and NOTHING runs (`Executor.Run`) -/

/-- **an unknown name among the requests**: if every request before it resolves and it
resolves to nothing, the invocation is refused with code 200 — `runCheck` yields no list of
tasks to run, whatever comes after it and whatever the earlier requests were. -/
theorem C15_unknown_nothing_runs (tbl : List Entry) (pre post : List Str) (r : Str)
    (hpre : ∀ x ∈ pre, ∃ i ws, resolve tbl x = .found i ws) (hr : resolve tbl r = .notFound) :
    runCheck tbl (pre ++ r :: post) = .refused 200 := by
  induction pre with
  | nil => simp [runCheck, hr, Resolution.code]
  | cons x xs ih =>
    obtain ⟨i, ws, hx⟩ := hpre x List.mem_cons_self
    have := ih (fun y hy => hpre y (List.mem_cons_of_mem _ hy))
    simp only [List.cons_append, runCheck, hx, this]

/-- the same for an ambiguous alias: 203, nothing runs -/
theorem C15_conflict_nothing_runs (tbl : List Entry) (pre post : List Str) (r : Str) (is : List Nat)
    (hpre : ∀ x ∈ pre, ∃ i ws, resolve tbl x = .found i ws) (hr : resolve tbl r = .conflict is) :
    runCheck tbl (pre ++ r :: post) = .refused 203 := by
  induction pre with
  | nil => simp [runCheck, hr, Resolution.code]
  | cons x xs ih =>
    obtain ⟨i, ws, hx⟩ := hpre x List.mem_cons_self
    have := ih (fun y hy => hpre y (List.mem_cons_of_mem _ hy))
    simp only [List.cons_append, runCheck, hx, this]

/-- conversely, tasks run only when EVERY request resolved, and then exactly the resolved
tasks, one per request, in request order -/
theorem C15_run_only_resolved (tbl : List Entry) (reqs : List Str) (is : List Nat)
    (h : runCheck tbl reqs = .ran is) :
    is.length = reqs.length ∧ ∀ (k : Nat) (r : Str), reqs[k]? = some r → ∃ (i : Nat) (ws : List Str), is[k]? = some i ∧ resolve tbl r = .found i ws := by
  induction reqs generalizing is with
  | nil => simp only [runCheck] at h; cases h; simp
  | cons x xs ih =>
    simp only [runCheck] at h
    split at h
    · rename_i i ws hx
      split at h
      · rename_i is' hrest
        cases h
        obtain ⟨h1, h2⟩ := ih is' hrest
        refine ⟨by simp [h1], ?_⟩
        intro k r hk
        cases k with
        | zero => simp at hk; subst hk; exact ⟨i, ws, by simp, hx⟩
        | succ k => simpa using h2 k r (by simpa using hk)
      · cases h
    · cases h

/-! ## Suggestions: the error names the closest existing task name when there is one

The oracle `Suggest.classify` (edit distances; `EditDist.lev_le_iff`: `lev a b ≤ k` iff `b` is
reachable from `a` by at most `k` elementary edits) says what is demanded of
`TaskNotFoundError.DidYouMean`; `Suggest.meets` is the verdict the correspondence domain
`suggest` evaluates on the suggestion the real executor gave after a real `Setup`. -/

open TaskModel.Resolve.Suggest TaskModel.Resolve.EditDist in
/-- **the closest name is suggested**: when exactly one name or alias `w` of the table is
within two edits of the request (class `must`), a suggestion that meets the oracle IS `w`
— a trained word, within two edits, and the only such word. -/
theorem C15_suggestion_closest (words : List Name) (req w : Name) (dym : Option Name)
    (hc : classify words req = .must w) (hm : meets (classify words req) dym = true) :
    dym = some w ∧ w ∈ words ∧ EditLe 2 req w ∧ ∀ w' ∈ words, EditLe 2 req w' → w' = w := by
  rw [hc] at hm
  simp only [meets, beq_iff_eq] at hm
  exact ⟨hm, classify_must words req w hc⟩

open TaskModel.Resolve.Suggest TaskModel.Resolve.EditDist in
/-- several names within two edits: there IS a suggestion and it is one of them -/
theorem C15_suggestion_one_of_the_close (words : List Name) (req : Name) (ws : List Name) (dym : Option Name)
    (hc : classify words req = .oneOf ws) (hm : meets (classify words req) dym = true) :
    ∃ d, dym = some d ∧ d ∈ words ∧ EditLe 2 req d := by
  rw [hc] at hm
  cases dym with
  | none => simp [meets] at hm
  | some d =>
    simp only [meets, List.contains_eq_mem, decide_eq_true_eq] at hm
    exact ⟨d, rfl, ((classify_oneOf words req ws hc).2 d).mp hm⟩

open TaskModel.Resolve.Suggest TaskModel.Resolve.EditDist in
/-- **no suggestion when nothing is close**: no name within three edits (class `none`), or a
request more than two characters longer than every name (class `skip`: the lookup is not
even made) — a suggestion that meets the oracle is absent. -/
theorem C15_no_suggestion_when_far (words : List Name) (req : Name) (dym : Option Name)
    (hc : classify words req = .none ∨ classify words req = .skip)
    (hm : meets (classify words req) dym = true) :
    dym = Option.none ∧ ((∀ w ∈ words, ¬ EditLe 3 req w) ∨ (∀ w ∈ words, w.length + 2 < req.length)) := by
  rcases hc with hc | hc
  · rw [hc] at hm
    exact ⟨by simpa [meets] using hm, Or.inl (classify_none words req hc)⟩
  · rw [hc] at hm
    exact ⟨by simpa [meets] using hm, Or.inr (classify_skip words req hc)⟩

/-- non-vacuity: names `build`, `test`; `buld` must be answered with `build`, `qqqqqq` with nothing -/
example : Suggest.classify [[98,117,105,108,100], [116,101,115,116]] [98,117,108,100] = .must [98,117,105,108,100]
    ∧ Suggest.classify [[98,117,105,108,100], [116,101,115,116]] [113,113,113,113,113,113] = .none := by decide

/-! ## Non-vacuity: concrete tables meeting the hypotheses -/

private def tbl : List Entry :=
  [ ⟨['b','u','i','l','d'], [['b']]⟩,
    ⟨['s','*','-','*'], []⟩,
    ⟨['s','t','*'], [['b']]⟩,
    ⟨['a','.','b'], []⟩ ]

example : resolve tbl ['b','u','i','l','d'] = .found 0 [] := by decide
example : resolve tbl ['s','t','-','x'] = .found 1 [['t'],['x']] := by decide
example : resolve tbl ['s','t','x'] = .found 2 [['x']] := by decide
example : resolve tbl ['b'] = .conflict [0, 2] := by decide
example : resolve tbl ['a','X','b'] = .notFound := by decide   -- '.' is literal
example : wildcardMatch ['s','*','-','*'] ['s','a','-','b','-','c'] = some [['a','-','b'],['c']] := by decide
/-- parent first: root file `[s*-*, x]` merged with an included `n:st*`-like later entry `st*`:
`st-x` goes to the root's pattern (index 1 of `tbl`), not to the later `st*` -/
example : ∃ e, tbl[1]? = some e ∧ e.name = ['s','*','-','*'] ∧ resolve tbl ['s','t','-','x'] = .found 1 [['t'],['x']] :=
  C15_parent_first tbl [['b','u','i','l','d'], ['s','*','-','*']] ⟨[['s','t','*'], ['a','.','b']], by decide⟩
    ['s','t','-','x'] (by decide) 1 _ _ (by decide) (by decide) (by decide)

/-- `task build nosuch stx`: refused with 200, nothing runs (not even `build`); `task build stx` runs 0 then 2 -/
example : runCheck tbl [['b','u','i','l','d'], ['n','o'], ['s','t','x']] = .refused 200 := by decide
example : runCheck tbl [['b','u','i','l','d'], ['s','t','x']] = .ran [0, 2] := by decide
example : runCheck tbl [['b','u','i','l','d'], ['b']] = .refused 203 := by decide

/-! ## Tie to the source (regenerated every run) -/

/-- **Obligation.** `GetTask` asks `FindMatchingTasks` first and takes its FIRST element;
only when that list is empty does it scan the aliases (in table order, `Values(nil)`), more
than one aliased task is the conflict error, none the not-found error.
`FindMatchingTasks` tries the exact name (`Tasks.Get`) and returns at once on a hit, then
ranges over the table in its own order (`All(nil)`: no sorter) collecting `WildcardMatch`es.
`WildcardMatch` anchors the quoted name with `*` (and only `*`) turned into a capture group
(under the flag `s`: the dot of `(.*)` matches the newline too) and demands as many groups as the
name has stars.  This is the order `Resolve.resolve`
implements (`findExact`, `findWild`, `findAliases`). -/
theorem resolve_order_in_source :
    TaskModel.Gen.ResolveOrder.getTask =
      ["call:FindMatchingTasks", "if:len>0", "set:MATCH", "index:0", "return", "index:0", "range:Values(nil)",
       "if:slices.Contains:Aliases", "if:len>1", "return:nil", "err:TaskNameConflictError", "if:len==0",
       "call:SpellCheck", "return:nil", "err:TaskNotFoundError", "return"] ∧
    TaskModel.Gen.ResolveOrder.findMatchingTasks =
      ["return:nil", "call:Tasks.Get", "return", "range:All(nil)", "call:WildcardMatch", "return"] ∧
    TaskModel.Gen.ResolveOrder.wildcardRegexp =
      "fmt.Sprintf(\"(?s)^%s$\", strings.ReplaceAll(regexp.QuoteMeta(‹name›), `\\*`, \"(.*)\"))" ∧
    TaskModel.Gen.ResolveOrder.wildcardMatch = ["if:len==0", "return", "if:len!=wildcardCount", "return", "return"] := by
  decide

/-- **Obligation.** `setupFuzzyModel` returns early only when NO Taskfile is loaded, sets the
threshold to 1 (every word counts), feeds the model every key of the merged task table and
every alias of every task (`Tasks.All(nil)`: the whole table), trains it once, and records the
longest word; `Setup` calls it after `readTaskfile` (so before any task can run); `GetTask`
asks the model (`SpellCheck`) on the not-found path. -/
theorem suggestions_in_source :
    TaskModel.Gen.ResolveOrder.fuzzyTrain =
      ["guard:Taskfile==nil:return", "call:SetThreshold(1)", "range:Tasks.All(nil)",
       "  ‹words› = append(‹words›, ‹key›)", "  ‹words› = slices.Concat(‹words›, ‹value›.Aliases)",
       "call:Train(‹words›)", "range:‹words›", "  e.fuzzyModelMaxLen = max(e.fuzzyModelMaxLen, len(‹value›))"]
    ∧ (TaskModel.Gen.ResolveOrder.setupSteps.dropWhile (· ≠ "readTaskfile")).contains "setupFuzzyModel" = true
    ∧ TaskModel.Gen.ResolveOrder.getTask.contains "call:SpellCheck" = true := by decide

/-- **Obligation.** In `Executor.Run`, the block that handles a request `GetTask` could not
resolve calls `ListTasks` (the list of available tasks, a help for the user) and returns
the error of `GetTask` — on every path; in particular it never returns the error of
`ListTasks` in its place (before the fix it did: another task with a malformed dotenv file
made `task nosuch` exit 1 without "does not exist"). -/
theorem run_unknown_in_source :
    TaskModel.Gen.ResolveOrder.runUnknown = ["call:ListTasks", "return:error-of-GetTask"] := by decide

end Props.C15
