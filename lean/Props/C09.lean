import TaskModel.Load.MergeInvariant
import TaskModel.Load.SortLemmas
import TaskModel.Load.VarsLemmas
import TaskModel.Load.Siblings
import TaskModel.Load.NormalizeLemmas
import TaskModel.Load.Sites
import TaskModel.Load.ReaderLemmas
import TaskModel.Gen.Load
import TaskModel.Vars.Dotenv
/-!
# C09 — loading a Taskfile tree is deterministic

`Graph.merge σ ε` is `TaskfileGraph.Merge` for the topological order `σ` and the per-edge
include order `ε` that an invocation happens to use.  Before F14 both were left to the
runtime (`graph.TopologicalSort` iterates Go maps; the reader appended edge data in
goroutine-completion order), and the full statement below is false.  After F14 the order
is canonical (`canonicalOrder` = `graph.StableTopologicalSort` by vertex key, edge data in
declaration order, parents of a file visited in key order): theorem `C09`.
The tie to the source: `Gen.NondetSites` / `Gen.Load` (regenerated every run) and the
correspondence check `load` (every tree loaded 20/100 times in one process, all dumps
equal to each other and to `load`).
-/
namespace Props.C09
open TaskModel.Load TaskModel.Gen

/-- `ε` only reorders the include statements of each edge -/
def EpsPerm (ε : Edge → List Include) : Prop := ∀ e, (ε e).Perm e.incs

/-- **Full statement**: whatever topological order and per-edge order an invocation uses,
the merged Taskfile — task table (set AND order), aliases, global variables and
environment — is the same. -/
def C09_full : Prop :=
  ∀ (g : Graph) (σ₁ σ₂ : List Nat) (ε₁ ε₂ : Edge → List Include),
    IsTopo g σ₁ → IsTopo g σ₂ → σ₁.head? = σ₂.head? → EpsPerm ε₁ → EpsPerm ε₂ →
    g.merge σ₁ ε₁ = g.merge σ₂ ε₂

section Counterexamples

def mkTask (name : Name) (loc : Nat) : Task :=
  { name := name, cmds := [⟨[], loc⟩], deps := [], aliases := [], internal := false, dir := Dir.unset, attrs := [],
    vars := [], ns := [], loc := loc, incVars := [], incTfVars := [] }

def mkInc (ns : Name) (file : Nat) : Include :=
  { ns := ns, file := file, dir := ⟨true, []⟩, optional := false, internal := false, flatten := false,
    advanced := false, aliases := [], excludes := [], vars := [] }

def mkFile (vars : Vars) (tasks : Table) : Taskfile :=
  { version := 3, dotenv := false, fdir := [], vars := vars, env := [], tasks := tasks, includes := [] }

/-- root 0 includes `a` → 1 and `b` → 2; both define the variable `1` -/
def gSiblings : Graph :=
  { verts := [(0, mkFile [] []), (1, mkFile [(1, ⟨11, Dir.unset⟩)] [mkTask [120] 1]),
              (2, mkFile [(1, ⟨22, Dir.unset⟩)] [mkTask [121] 2])],
    edges := [⟨0, 1, [mkInc [97] 1]⟩, ⟨0, 2, [mkInc [98] 2]⟩] }

def outcome : Except Err Taskfile → Option (List Name × List (Nat × Nat))
  | .ok tf => some (tf.tasks.names, tf.vars.map (fun kv => (kv.1, kv.2.val)))
  | .error _ => none

/-- **row 13**: two topological orders of the same graph give different winners for the
global variable (11 vs 22) and a different task order. -/
theorem C09_sigma_counterexample :
    outcome (gSiblings.merge [0, 1, 2] canonicalEps) = some ([[98, 58, 121], [97, 58, 120]], [(1, 11)]) ∧
    outcome (gSiblings.merge [0, 2, 1] canonicalEps) = some ([[97, 58, 120], [98, 58, 121]], [(1, 22)]) := by decide

/-- root 0 includes the same file 1 twice, as `m` and as `n` -/
def gTwice : Graph :=
  { verts := [(0, mkFile [] []), (1, mkFile [] [mkTask [120] 1])],
    edges := [⟨0, 1, [mkInc [109] 1, mkInc [110] 1]⟩] }

/-- **row 13b**: the same graph and the same topological order, the two include
statements of the edge taken in the other order: the task order differs. -/
theorem C09_eps_counterexample :
    outcome (gTwice.merge [0, 1] canonicalEps) = some ([[109, 58, 120], [110, 58, 120]], []) ∧
    outcome (gTwice.merge [0, 1] (fun e => e.incs.reverse)) = some ([[110, 58, 120], [109, 58, 120]], []) := by decide

theorem C09_full_false : ¬ C09_full := by
  intro h
  have h1 : IsTopo gSiblings [0, 1, 2] := isTopoB_sound _ _ (by decide)
  have h2 : IsTopo gSiblings [0, 2, 1] := isTopoB_sound _ _ (by decide)
  have := h gSiblings [0, 1, 2] [0, 2, 1] canonicalEps canonicalEps h1 h2 rfl
    (fun _ => List.Perm.refl _) (fun _ => List.Perm.refl _)
  have hc := C09_sigma_counterexample
  rw [this] at hc
  exact absurd (hc.1.symm.trans hc.2) (by decide)

end Counterexamples

/-! ## After F14: the schedule is canonical -/

/-- **C09** (canonical schedule).  The merge the fixed implementation performs is a
function of the *set* of Taskfiles read and of the *set* of edges with their include
statements in declaration order: whatever order Go's maps enumerate vertices, edges and
predecessors in (any permutation), the merged Taskfile — task table with its order,
aliases, global variables and environment, or the error — is the same. -/
theorem C09 (g₁ g₂ : Graph) (root : Nat) (hv : g₁.verts.Perm g₂.verts) (he : g₁.edges.Perm g₂.edges)
    (hkv : (g₁.verts.map (·.1)).Nodup) (hke : (g₁.edges.map (fun e => (e.src, e.dst))).Nodup) :
    g₁.mergeCanonical root = g₂.mergeCanonical root := by
  simp only [Graph.mergeCanonical, normalize_perm g₁ g₂ hv he hkv hke]

/-- the order actually used is a topological one, so every theorem about `Graph.merge σ ε`
for topological `σ` (C08) applies to it -/
theorem C09_canonical_is_topological (g : Graph) (root : Nat) (tf : Taskfile) (h : g.mergeCanonical root = .ok tf) :
    IsTopo g.normalize (canonicalOrder g.normalize) ∧ (canonicalOrder g.normalize).head? = some root := by
  simp only [Graph.mergeCanonical] at h
  split at h
  · rename_i hc
    simp only [Bool.and_eq_true, beq_iff_eq] at hc
    exact ⟨isTopoB_sound _ _ hc.1, hc.2⟩
  · cases h

/-- on the graphs of the counterexamples the canonical schedule picks one outcome -/
example : outcome (gSiblings.mergeCanonical 0) = some ([[98, 58, 121], [97, 58, 120]], [(1, 11)]) := by decide
example : outcome (gTwice.mergeCanonical 0) = some ([[109, 58, 120], [110, 58, 120]], []) := by decide
/-- … and the same one when vertices and edges are enumerated in another order -/
example : outcome (Graph.mergeCanonical ⟨gSiblings.verts.reverse, gSiblings.edges.reverse⟩ 0)
    = outcome (gSiblings.mergeCanonical 0) := by decide

/-! ## Arbitrary orders: what survives without the fix -/

/-- **C09_partial.**  The includes of one parent (`cs`: included Taskfile and include
statement, children already merged) taken in ANY order — any topological order of the
siblings and any order of the include statements on the edges: if the variable names and
the environment names defined by different children are pairwise disjoint, then either
every order fails or every order succeeds, and all results are equivalent (`TfEquiv`):
same global variables and environment as lookup functions (including the `Dir` stamped on
them), same task table up to order (names, commands, dependencies, attributes, dir,
internal, namespace, include vars; not the aliases added by the default-task shortcut and
not the `IncludedTaskfileVars` snapshot, which record what was merged before). -/
theorem C09_partial (p : Taskfile) (cs₁ cs₂ : List (Taskfile × Include)) (hp : cs₁.Perm cs₂)
    (hd : cs₁.Pairwise Disj) (r₁ : Taskfile) (h : mergeAll p cs₁ = .ok r₁) :
    ∃ r₂, mergeAll p cs₂ = .ok r₂ ∧ TfEquiv r₁ r₂ :=
  mergeAll_perm hp hd p p r₁ (TfEquiv.refl p) h

/-- … and failure is order-independent too -/
theorem C09_partial_error (p : Taskfile) (cs₁ cs₂ : List (Taskfile × Include)) (hp : cs₁.Perm cs₂)
    (hd : cs₁.Pairwise Disj) (e : Err) (h : mergeAll p cs₁ = .error e) : ∃ e', mergeAll p cs₂ = .error e' := by
  cases h2 : mergeAll p cs₂ with
  | error e' => exact ⟨e', rfl⟩
  | ok r₂ =>
    have hd₂ := (hp.pairwise_iff (fun {a b} (h : Disj a b) => h.symm)).mp hd
    obtain ⟨r₁, hr₁, _⟩ := mergeAll_perm hp.symm hd₂ p p r₂ (TfEquiv.refl p) h2
    rw [h] at hr₁; cases hr₁

/-- `mergeAll` is what `Graph.merge` does to the children of the root of `gSiblings`:
the order `[0, 1, 2]` merges file 2, then file 1 -/
example : outcome (gSiblings.merge [0, 1, 2] canonicalEps)
    = outcome (mergeAll (mkFile [] []) [(mkFile [(1, ⟨22, Dir.unset⟩)] [mkTask [121] 2], mkInc [98] 2),
                                        (mkFile [(1, ⟨11, Dir.unset⟩)] [mkTask [120] 1], mkInc [97] 1)]) := by decide

/-- non-vacuity: two siblings with different variable names satisfy the hypothesis, both
orders succeed, the variable lookups agree and the task tables are permutations -/
def sibA : Taskfile × Include := (mkFile [(1, ⟨11, Dir.unset⟩)] [mkTask [120] 1], mkInc [97] 1)
def sibB : Taskfile × Include := (mkFile [(2, ⟨22, Dir.unset⟩)] [mkTask [121] 2], mkInc [98] 2)

example : [sibA, sibB].Pairwise Disj := by
  refine List.Pairwise.cons ?_ (List.Pairwise.cons (by simp) List.Pairwise.nil)
  intro b hb
  simp only [List.mem_singleton] at hb
  subst hb
  constructor <;> decide

example : outcome (mergeAll (mkFile [] []) [sibA, sibB]) = some ([[97, 58, 120], [98, 58, 121]], [(1, 11), (2, 22)]) ∧
    outcome (mergeAll (mkFile [] []) [sibB, sibA]) = some ([[98, 58, 121], [97, 58, 120]], [(2, 22), (1, 11)]) := by decide

/-- The same statement for arbitrary include graphs and arbitrary topological orders.
NOT proved: it needs the commutation of merges into different parents and the congruence
of `TfEquiv` through further levels; `C09_partial` is its generating step (one parent,
any permutation of its includes). -/
def C09_partial_graph : Prop :=
  ∀ (g : Graph) (σ₁ σ₂ : List Nat) (ε₁ ε₂ : Edge → List Include),
    IsTopo g σ₁ → IsTopo g σ₂ → σ₁.head? = σ₂.head? → EpsPerm ε₁ → EpsPerm ε₂ →
    g.verts.Pairwise (fun a b => (∀ k, k ∈ a.2.vars.keys → k ∉ b.2.vars.keys) ∧ (∀ k, k ∈ a.2.env.keys → k ∉ b.2.env.keys)) →
    ∀ r₁, g.merge σ₁ ε₁ = .ok r₁ → ∃ r₂, g.merge σ₂ ε₂ = .ok r₂ ∧ TfEquiv r₁ r₂

/-! ## Generated facts -/

/-- **every site whose iteration order the language does not fix is classified, and no
order-sensitive site iterates unsorted** (`Gen.NondetSites` is regenerated from the tree
under test on every run; before F14 this fails on `graph.TopologicalSort` and on the
range over the predecessor map). -/
theorem all_sites_classified : NondetSites.sites.all siteOk = true := by decide

/-- **the walk in the source** (`Gen.Load.firstErrorWalk`, regenerated): `Reader.firstError`
marks the file seen, returns the error of reading it, then goes through its includes IN THE
ORDER THEY ARE DECLARED: the error of resolving the include; nothing for an optional include
that was not found; an include cycle if the file included is the file itself or on the
stack; nothing for a file already seen; otherwise the first error of the file included — the
rules of `Load.walk` / `Load.walkIncs`, one for one. -/
theorem first_error_walk_in_source :
    Load.firstErrorWalk =
      ["‹p2›[‹p0›] = true", "‹0› := r.results[‹p0›]", "if ‹0› == nil", "  return nil", "if ‹0›.err != nil", "  return ‹0›.err",
       "range ‹0›.includes", "  if ‹1›.err != nil", "    return ‹1›.err", "  if ‹1›.location == \"\"", "    continue",
       "  if slices.Contains(‹p1›, ‹1›.location) || ‹1›.location == ‹p0›",
       "    return errors.TaskfileCycleError{Source: ‹p0›, Destination: ‹1›.location}", "  if ‹p2›[‹1›.location]", "    continue",
       "  if ‹2› := r.firstError(‹1›.location, append(‹p1›, ‹p0›), ‹p2›); ‹2› != nil", "    return ‹2›", "return nil"]
    ∧ readErrorIsCanonical = true := by decide

/-- **which error is reported does not depend on the schedule.**  Whatever error the
concurrent read came up with first in time (`inTime`: any function of the schedule), what
`Reader.Read` returns — the graph when every file reads, else the error found by the walk
`firstError` over the recorded results — is the outcome of reading the files one after the
other in declaration order (`readGraph`), error included. -/
theorem C09_read_error_schedule_indep (fm : FileMap) (root : Nat) (inTime : Err → Err) :
    (match readGraph fm root with
     | .ok g => Except.ok g
     | .error e => Except.error ((firstError fm root).getD (inTime e))) = readGraph fm root := by
  have h := firstError_eq fm root
  cases hr : readGraph fm root with
  | ok g => rfl
  | error e => rw [hr] at h; simp [h]

/-- the rule before the fix: the error first in time was returned as it was.  Root including
a missing file and a file without `version:` — the two completion orders give two different
errors (exit 1 vs 107), the walk gives the first in declaration order -/
theorem C09_old_rule_multierr_counterexample :
    let fm : FileMap := [(0, ⟨3, false, [], [], [], [], [⟨[97], 7, [], false, false, false, false, [], [], []⟩,
                              ⟨[98], 1, [], false, false, false, false, [], [], []⟩], {}, 0⟩),
                         (1, ⟨0, false, [], [], [], [], [], {}, 0⟩)]
    firstError fm 0 = some .missing ∧
    -- what the two goroutines report, each on its own:
    firstError [(1, ⟨0, false, [], [], [], [], [], {}, 0⟩)] 1 = some .versionCheck := by decide

/-- the reader attaches the include statements to an edge after `g.Wait()`, in declaration
order, not from the goroutines in completion order -/
theorem edges_in_declaration_order : Load.edgesAddedInGoroutines = false ∧ Load.edgesAddedAfterWait = true := by decide

/-- permutation-invariance lemma shared by the benign sites: distinct keys set into a map
that is consulted by key -/
theorem benign_sites_lemma {l₁ l₂ : List (Nat × Var)} (hp : l₁.Perm l₂) (hk : (l₁.map (·.1)).Nodup) (m : Vars) :
    VEq (Vars.setAll l₁ m) (Vars.setAll l₂ m) := Vars.setAll_perm hp hk m

/-! ## Values of a global dotenv file

`godotenv.Read` returns a map; the templated values of the entries (`B={{.A}}x`) must not depend on the order in
which the map hands them out. -/

open TaskModel.Vars in
/-- **Dotenv values are deterministic**: for every file (distinct keys), every starting environment and any two
enumerations of its entries, the templated values are the same — the variables templates read (`dotenvChain`) and the
environment commands get (`dotenvEnv`). -/
theorem C09_dotenv_order_indep (base : Env) (es es' : List DEntry) (hp : es.Perm es')
    (hn : (es.map (·.1)).Nodup) : dotenvChain base es = dotenvChain base es' ∧ dotenvEnv base es = dotenvEnv base es' :=
  ⟨dotenvChain_perm base hp hn, dotenvEnv_perm base hp hn⟩

open TaskModel.Vars in
/-- non-vacuity: A=1, B={{.A}}x, C={{.B}}y handed out as C, A, B — the values are 1, 1x, 1xy -/
example : (dotenvChain [] [(2, [.ref 1, .text [121]]), (0, [.text [49]]), (1, [.ref 0, .text [120]])]).lookup 2 = some [49, 120, 121] ∧
    ([(2, [Part.ref 1, .text [121]]), (0, [.text [49]]), (1, [.ref 0, .text [120]])].map (·.1)).Nodup := by decide

open TaskModel.Vars in
/-- **the rule before 6952eb7 (history)**: templating in the order the map hands the entries out gives
different values for two enumerations of the same file (1xy vs xy for the third entry) -/
theorem C09_dotenv_old_rule_counterexample :
    (dotenvChainAsRead [] [(0, [.text [49]]), (1, [.ref 0, .text [120]]), (2, [.ref 1, .text [121]])]).lookup 2 ≠
    (dotenvChainAsRead [] [(1, [.ref 0, .text [120]]), (0, [.text [49]]), (2, [.ref 1, .text [121]])]).lookup 2 := by decide

/-- the two dotenv loops iterate in key order in the source (both sites are order-sensitive) -/
theorem dotenv_sites_sorted :
    (NondetSites.sites.filter (fun s => s.1 == "taskfile.Dotenv" || (s.1 == "task.Executor.compiledTask" && s.2.2 == "sortedkeys"))).map (·.2.2)
      = ["sortedkeys", "sortedkeys"] := by decide

end Props.C09
