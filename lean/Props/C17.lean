import TaskModel.Output.Lemmas
import TaskModel.Gen.Output
/-!
# C17 — Grouped and prefixed output is never torn, lost or duplicated

Theorems about the writer state machines of `TaskModel.Output` for every byte string,
every chunking into writes, and every interleaving of the writers' atomic sink blocks.
Tie: correspondence domain `output` drives the real `internal/output` writers (through
`verifhook/export`) with the same chunkings, single-threaded and concurrently, and
compares the exact sequence of sink writes; generated facts `Gen.Output` pin the
mutex region of `prefixWriter.writeLine` and the single sink write of `groupWriter.close`.
-/
namespace Props.C17
open TaskModel.Output

/-- buffer invariant of the prefixed writer: the buffered remainder has no newline -/
theorem write_buff_noNl (w : PW) (p : Bytes) (h : nl ∉ w.buff) : nl ∉ (w.write p).1.buff := by
  simp only [PW.write]
  exact (takeLines_spec (w.buff ++ p) [] (by simp)).1

/-- **Chunking invariance + exactness (prefixed).** Whatever way a command's output is
split into writes, the lines emitted (including the final partial line, newline-
terminated at close) are exactly the lines of the whole byte string. -/
theorem C17_prefixed_lines (w : PW) (chunks : List Bytes) (h : nl ∉ w.buff) :
    w.run chunks = linesOf (w.buff ++ chunks.flatten) := by
  induction chunks generalizing w with
  | nil =>
    simp only [PW.run, PW.close, List.flatten_nil, List.append_nil, linesOf]
    rw [show takeLines w.buff [] = takeLines [] (w.buff.reverse ++ []) by
      simpa using takeLines_prefix w.buff [] [] h]
    simp [takeLines]
  | cons p ps ih =>
    simp only [PW.run]
    have hb := write_buff_noNl w p h
    rw [ih (w.write p).1 hb]
    simp only [PW.write, linesOf, List.flatten_cons]
    rw [← List.append_assoc, takeLines_append (w.buff ++ p) ps.flatten [] (by simp)]
    simp only
    split <;> simp_all

theorem C17_prefixed (pre : Bytes) (chunks : List Bytes) :
    ({ prefix_ := pre } : PW).run chunks = linesOf chunks.flatten := by
  simpa using C17_prefixed_lines { prefix_ := pre } chunks (by simp)

/-- **No byte lost or duplicated, lines whole.** The emitted lines concatenate to the
input (plus the one newline that terminates a final partial line), each emitted line
ends with a newline and contains no other newline. -/
theorem C17_prefixed_bytes (bs : Bytes) :
    (∀ l ∈ linesOf bs, ∃ body, l = body ++ [nl] ∧ nl ∉ body) ∧
    ((linesOf bs).flatten = bs ∨ (linesOf bs).flatten = bs ++ [nl]) := by
  obtain ⟨h1, h2, h3⟩ := takeLines_spec bs [] (by simp)
  simp only [List.reverse_nil, List.nil_append] at h2
  simp only [linesOf]
  split
  · rename_i hr
    rw [hr, List.append_nil] at h2
    exact ⟨h3, .inl h2⟩
  · refine ⟨?_, .inr ?_⟩
    · intro l hl
      simp only [List.mem_append, List.mem_singleton] at hl
      rcases hl with hl | rfl
      · exact h3 l hl
      · exact ⟨_, rfl, h1⟩
    · simp only [List.flatten_append, List.flatten_cons, List.flatten_nil, List.append_nil]
      rw [← List.append_assoc, h2]

/-- every emitted sink block carries the task's prefix: `[prefix] line` -/
theorem C17_prefix_carried (pre line : Bytes) : ∃ rest, lineBlock pre line = [91] ++ pre ++ rest ∧ rest = [93, 32] ++ line :=
  ⟨_, by simp [lineBlock], rfl⟩

/-! ## group -/

theorem foldl_write_buff (g : GW) (chunks : List Bytes) :
    (chunks.foldl GW.write g).buff = g.buff ++ chunks.flatten ∧
    (chunks.foldl GW.write g).begin_ = g.begin_ ∧ (chunks.foldl GW.write g).end_ = g.end_ ∧
    (chunks.foldl GW.write g).errorOnly = g.errorOnly := by
  induction chunks generalizing g with
  | nil => simp
  | cons p ps ih =>
    simp only [List.foldl_cons, List.flatten_cons]
    obtain ⟨a, b, c, d⟩ := ih (g.write p)
    exact ⟨by rw [a]; simp [GW.write], by rw [b]; rfl, by rw [c]; rfl, by rw [d]; rfl⟩

/-- **Group content.** The block is `begin ++ bytes ++ end`, written iff the command wrote
something and (not `error_only`, or the command failed) — for every chunking. -/
theorem C17_group_content (b e : Bytes) (eo : Bool) (chunks : List Bytes) (failed : Bool) :
    ({ begin_ := b, end_ := e, errorOnly := eo } : GW).run chunks failed =
      if (eo && !failed) || chunks.flatten = [] then [] else [b ++ chunks.flatten ++ e] := by
  obtain ⟨h1, h2, h3, h4⟩ := foldl_write_buff { begin_ := b, end_ := e, errorOnly := eo } chunks
  simp only [GW.run, GW.close, h1, h2, h3, h4, List.nil_append]
  by_cases hq : (eo && !failed) = true
  · simp [hq]
  · simp only [hq, Bool.false_eq_true, if_false, Bool.false_or]
    by_cases hz : chunks.flatten = []
    · simp [hz]
    · simp [hz]

/-- **Group contiguity.** A command contributes at most ONE sink write, so no other
command's output can land inside its block, in any interleaving. -/
theorem C17_group_one_write (g : GW) (chunks : List Bytes) (failed : Bool) : (g.run chunks failed).length ≤ 1 := by
  simp only [GW.run, GW.close]
  split
  · simp
  · split <;> simp

/-- `error_only`: the block appears iff the command failed (and wrote something) -/
theorem C17_group_error_only (b e : Bytes) (chunks : List Bytes) (failed : Bool) (h : chunks.flatten ≠ []) :
    (({ begin_ := b, end_ := e, errorOnly := true } : GW).run chunks failed ≠ []) ↔ failed = true := by
  rw [C17_group_content]
  cases failed <;> simp [h]

/-! ## interleavings of atomic blocks -/

/-- every block of the sink is one of the writers' blocks, whole -/
theorem shuffle_mem {α : Type} (seqs : List (List α)) (out : List α) (h : Shuffle seqs out) :
    ∀ x ∈ out, ∃ s ∈ seqs, x ∈ s := by
  induction h with
  | done seqs _ => intro x hx; cases hx
  | step pre x s post out _ ih =>
    intro y hy
    simp only [List.mem_cons] at hy
    rcases hy with rfl | hy
    · exact ⟨y :: s, by simp, by simp⟩
    · obtain ⟨t, ht, hyt⟩ := ih y hy
      simp only [List.mem_append, List.mem_singleton] at ht
      rcases ht with (ht | rfl) | ht
      · exact ⟨t, by simp [ht], hyt⟩
      · exact ⟨x :: t, by simp, by simp [hyt]⟩
      · exact ⟨t, by simp [ht], hyt⟩

/-- nothing is lost or duplicated by interleaving: the sink has exactly as many blocks
as the writers emitted -/
theorem shuffle_length {α : Type} (seqs : List (List α)) (out : List α) (h : Shuffle seqs out) :
    out.length = (seqs.map List.length).sum := by
  induction h with
  | done seqs hs =>
    induction seqs with
    | nil => rfl
    | cons s ss ih =>
      have := hs s (by simp)
      subst this
      simpa using ih (fun t ht => hs t (by simp [ht]))
  | step pre x s post out _ ih =>
    simp only [List.length_cons, ih, List.map_append, List.sum_append, List.map_cons, List.map_nil,
      List.sum_cons, List.sum_nil]
    omega

/-- filtering an interleaving gives an interleaving of the filtered sequences -/
theorem shuffle_filter {α : Type} (p : α → Bool) (seqs : List (List α)) (out : List α) (h : Shuffle seqs out) :
    Shuffle (seqs.map (fun s => s.filter p)) (out.filter p) := by
  induction h with
  | done seqs hs =>
    apply Shuffle.done
    intro s hs'
    simp only [List.mem_map] at hs'
    obtain ⟨t, ht, rfl⟩ := hs'
    rw [hs t ht]; rfl
  | step pre x s post out _ ih =>
    simp only [List.map_append, List.map_cons, List.map_nil] at ih ⊢
    by_cases hp : p x = true
    · simp only [List.filter_cons, hp, if_true]
      exact Shuffle.step _ x _ _ _ ih
    · simp only [List.filter_cons, hp, Bool.false_eq_true, if_false]
      exact ih

/-- an interleaving in which only one sequence is non-empty is that sequence -/
theorem shuffle_single {α : Type} (seqs : List (List α)) (out : List α) (h : Shuffle seqs out) :
    (seqs.filter (fun s => !s.isEmpty) = [] → out = []) ∧
    (∀ t, seqs.filter (fun s => !s.isEmpty) = [t] → out = t) := by
  induction h with
  | done seqs hs => 
    refine ⟨fun _ => rfl, ?_⟩
    intro t ht
    have : t ∈ seqs.filter (fun s => !s.isEmpty) := by rw [ht]; simp
    simp only [List.mem_filter] at this
    have := hs t this.1
    subst this
    simp at *
  | step pre x s post out _ ih =>
    refine ⟨?_, ?_⟩
    · intro h0
      simp [List.filter_append] at h0
    · intro t ht
      simp only [List.filter_append, List.filter_cons, List.isEmpty_cons, Bool.not_false, if_true,
        List.filter_nil] at ht
      have hlen := congrArg List.length ht
      simp only [List.length_append, List.length_cons, List.length_nil] at hlen
      have hpre : (pre.filter (fun s => !s.isEmpty)) = [] := List.eq_nil_of_length_eq_zero (by omega)
      have hpost : (post.filter (fun s => !s.isEmpty)) = [] := List.eq_nil_of_length_eq_zero (by omega)
      rw [hpre, hpost] at ht
      simp only [List.nil_append, List.append_nil, List.cons.injEq, and_true] at ht
      subst ht
      congr 1
      cases s with
      | nil =>
        apply ih.1
        simp [List.filter_append, hpre, hpost]
      | cons y ys =>
        apply ih.2
        simp [List.filter_append, hpre, hpost]

/-- **Per-writer order is preserved, nothing lost or duplicated**: if every block is
tagged with its writer (sequence `k` carries tag `k` only), the blocks of writer `i`
appear in the sink exactly as writer `i` emitted them, in order. -/
theorem C17_interleave_project {β : Type} (pre post : List (List (Nat × β))) (s : List (Nat × β))
    (out : List (Nat × β)) (i : Nat) (h : Shuffle (pre ++ [s] ++ post) out)
    (hs : ∀ b ∈ s, b.1 = i) (ho : ∀ t ∈ pre ++ post, ∀ b ∈ t, b.1 ≠ i) :
    out.filter (fun b => b.1 = i) = s := by
  have hf := shuffle_filter (fun b => decide (b.1 = i)) _ _ h
  have hsf : s.filter (fun b => decide (b.1 = i)) = s := by
    apply List.filter_eq_self.mpr; intro b hb; simpa using hs b hb
  have hof : ∀ t ∈ pre ++ post, t.filter (fun b => decide (b.1 = i)) = [] := by
    intro t ht; apply List.filter_eq_nil_iff.mpr; intro b hb; simpa using ho t ht b hb
  obtain ⟨h0, h1⟩ := shuffle_single _ _ hf
  simp only [List.map_append, List.map_cons, List.map_nil, hsf] at h0 h1
  have hpre : (pre.map (fun s => s.filter (fun b => decide (b.1 = i)))).filter (fun s => !s.isEmpty) = [] := by
    apply List.filter_eq_nil_iff.mpr
    intro t ht
    simp only [List.mem_map] at ht
    obtain ⟨u, hu, rfl⟩ := ht
    rw [hof u (by simp [hu])]; simp
  have hpost : (post.map (fun s => s.filter (fun b => decide (b.1 = i)))).filter (fun s => !s.isEmpty) = [] := by
    apply List.filter_eq_nil_iff.mpr
    intro t ht
    simp only [List.mem_map] at ht
    obtain ⟨u, hu, rfl⟩ := ht
    rw [hof u (by simp [hu])]; simp
  cases s with
  | nil =>
    apply h0
    simp [List.filter_append, hpre, hpost]
  | cons y ys =>
    apply h1
    simp [List.filter_append, hpre, hpost]

/-! ## facts regenerated from the source on every run -/

/-- the model's atomicity assumptions, as found in the current source: `writeLine` takes
the `Prefixed` mutex (released by a deferred `Unlock`) before its four sink writes;
`groupWriter.close` performs exactly one sink write; `Write` methods never touch the
sink directly; `Write` flushes complete lines only, `close` flushes the rest. -/
theorem output_facts_ok :
    TaskModel.Gen.Output.writeLineSkeleton = ["deferUnlock", "lock", "write", "write", "write", "write"] ∧
    TaskModel.Gen.Output.groupCloseSkeleton = ["write"] ∧
    TaskModel.Gen.Output.groupWriteSkeleton = [] ∧
    TaskModel.Gen.Output.prefixWriteSkeleton = [] ∧
    TaskModel.Gen.Output.prefixWriteCalls = ["pw.writeOutputLines(false)"] ∧
    TaskModel.Gen.Output.prefixCloseCalls = ["pw.writeOutputLines(true)"] ∧
    -- stdout and stderr of one command go through ONE writer object (the model's single `PW` / `GW`)
    TaskModel.Gen.Output.prefixedWrapWriters = "same" ∧ TaskModel.Gen.Output.groupWrapWriters = "same" := by decide

/-! ## non-vacuity -/
example : ({ prefix_ := [112] } : PW).run [[97, 98], [10, 99], [100, 10, 101]] = [[97, 98, 10], [99, 100, 10], [101, 10]] := by decide
example : linesOf [97, 98, 10, 99, 100, 10, 101] = [[97, 98, 10], [99, 100, 10], [101, 10]] := by decide
example : ({ begin_ := [60], end_ := [62], errorOnly := true } : GW).run [[97], [98]] true = [[60, 97, 98, 62]] := by decide
example : ({ begin_ := [60], end_ := [62], errorOnly := true } : GW).run [[97], [98]] false = [] := by decide

end Props.C17
