import TaskModel.Output.Lemmas
import TaskModel.Output.AcceptLemmas
import TaskModel.Output.AcceptComplete
import TaskModel.Gen.Output
/-!
# C17 — Grouped and prefixed output is never torn, lost or duplicated

Theorems about the writer state machines of `TaskModel.Output` for every byte string,
every chunking into writes, every interleaving of the chunks of the several producers of ONE
command (stdout / stderr of a pipeline's stages, background jobs), and every interleaving of the
writers' sink writes — composed down to the bytes of the shared stream (`C17_compose_*`).
The acceptors the driver runs are sound for `Shuffle` (`C17_accepts_sound`, exact:
`C17_accepts_complete`; `C17_acceptsPW_sound`, `C17_acceptsGW_sound`).
Tie: correspondence domain `output` drives the real `internal/output` writers (through
`verifhook/export`) with the same chunkings, single-threaded, with several producer goroutines on
one writer, and concurrently with raw (interleaved-style) writers in between, and compares the
exact sequence of sink writes; domain `outputexec` runs the real Executor (group / prefixed,
parallel deps, failing / ignored / cancelled commands, templated prefix / begin / end, blocks
larger than a pipe) into one recording sink.  Generated facts `Gen.Output` pin: `Write` and
`close` of both writers hold the writer's own mutex; `writeLine` and `groupWriter.close` perform
exactly ONE sink write; `runCommand` wraps once per command and calls the closer once, after the
command, with the command's error.
Assumption (C-C17-own-stderr): Task's own log lines go to file descriptor 2 and command output to
file descriptor 1; when both are the same terminal or pipe (`2>&1`), the kernel orders whole
`write` calls of the two descriptors but may split one larger than the pipe capacity — outside
the model (one sink object whose `Write` is atomic).
-/
namespace Props.C17
open TaskModel.Output

/-- buffer invariant of the prefixed writer: the buffered remainder has no newline -/
theorem write_buff_noNl (w : PW) (p : Bytes) (_h : nl ∉ w.buff) : nl ∉ (w.write p).1.buff := by
  simp only [PW.write]
  exact (takeLines_spec (w.buff ++ p) [] (by simp)).1

/-- **Chunking invariance + exactness (prefixed).** Whatever way a command's output is
split into writes, the lines emitted (including the final partial line, newline-
terminated at close) are exactly the lines of the whole byte string. -/
theorem C17_prefixed_lines (w : PW) (chunks : List Bytes) (h : nl ∉ w.buff) :
    w.run chunks = linesOf (w.buff ++ chunks.flatten) := by
  induction chunks generalizing w with
  | nil =>
    simp only [PW.run, PW.close, List.flatten_nil, List.append_nil, linesOf]
    rw [show takeLines w.buff [] = takeLines [] (w.buff.reverse ++ []) by
      simpa using takeLines_prefix w.buff [] [] h]
    simp [takeLines]
  | cons p ps ih =>
    simp only [PW.run]
    have hb := write_buff_noNl w p h
    rw [ih (w.write p).1 hb]
    simp only [PW.write, linesOf, List.flatten_cons]
    rw [← List.append_assoc, takeLines_append (w.buff ++ p) ps.flatten [] (by simp)]
    simp only
    split <;> simp_all

theorem C17_prefixed (pre : Bytes) (chunks : List Bytes) :
    ({ prefix_ := pre } : PW).run chunks = linesOf chunks.flatten := by
  simpa using C17_prefixed_lines { prefix_ := pre } chunks (by simp)

/-- **No byte lost or duplicated, lines whole.** Every emitted line ends with a newline and contains no
other; the emitted lines concatenate to the input exactly when the input is empty or ends with a newline,
and to the input plus ONE newline (terminating the final partial line at close) otherwise. -/
theorem C17_prefixed_bytes (bs : Bytes) :
    (∀ l ∈ linesOf bs, ∃ body, l = body ++ [nl] ∧ nl ∉ body) ∧
    (linesOf bs).flatten = if bs = [] ∨ bs.getLast? = some nl then bs else bs ++ [nl] := by
  obtain ⟨h1, h2, h3⟩ := takeLines_spec bs [] (by simp)
  simp only [List.reverse_nil, List.nil_append] at h2
  simp only [linesOf]
  split
  · rename_i hr
    rw [hr, List.append_nil] at h2
    refine ⟨h3, ?_⟩
    have hc : bs = [] ∨ bs.getLast? = some nl := by
      rcases List.eq_nil_or_concat (takeLines bs []).1 with hl | ⟨init, l, hl⟩
      · left; rw [← h2, hl]; rfl
      · right
        obtain ⟨body, hb, _⟩ := h3 l (by rw [hl]; simp)
        rw [← h2, hl, hb]
        simp [← List.append_assoc]
    rw [if_pos hc, h2]
  · rename_i hr
    refine ⟨?_, ?_⟩
    · intro l hl
      simp only [List.mem_append, List.mem_singleton] at hl
      rcases hl with hl | rfl
      · exact h3 l hl
      · exact ⟨_, rfl, h1⟩
    · have hc : ¬ (bs = [] ∨ bs.getLast? = some nl) := by
        rintro (hb | hb)
        · subst hb; exact hr rfl
        · rw [← h2, List.getLast?_append] at hb
          cases hg : (takeLines bs []).2.getLast? with
          | none => exact hr (List.getLast?_eq_none_iff.mp hg)
          | some x =>
            rw [hg] at hb
            simp only [Option.some_or, Option.some.injEq] at hb
            exact h1 (hb ▸ List.mem_of_getLast? hg)
      rw [if_neg hc]
      simp only [List.flatten_append, List.flatten_cons, List.flatten_nil, List.append_nil]
      rw [← List.append_assoc, h2]

example : (linesOf [97, 10, 98]).flatten = [97, 10, 98, 10] ∧ (linesOf [97, 10]).flatten = [97, 10] ∧ (linesOf []).flatten = [] := by decide

/-! ## group -/

/-- **Group content.** The block is `begin ++ bytes ++ end`, written iff the command wrote
something and (not `error_only`, or the command failed) — for every chunking. -/
theorem C17_group_content (b e : Bytes) (eo : Bool) (chunks : List Bytes) (failed : Bool) :
    ({ begin_ := b, end_ := e, errorOnly := eo } : GW).run chunks failed =
      if (eo && !failed) || chunks.flatten = [] then [] else [b ++ chunks.flatten ++ e] := by
  rw [GW.run_eq]
  simp

/-- **Group contiguity.** A command contributes at most ONE sink write, so no other
command's output can land inside its block, in any interleaving. -/
theorem C17_group_one_write (g : GW) (chunks : List Bytes) (failed : Bool) : (g.run chunks failed).length ≤ 1 := by
  simp only [GW.run, GW.close]
  split
  · simp
  · split <;> simp

/-- `error_only`: the block appears iff the command failed (and wrote something) -/
theorem C17_group_error_only (b e : Bytes) (chunks : List Bytes) (failed : Bool) (h : chunks.flatten ≠ []) :
    (({ begin_ := b, end_ := e, errorOnly := true } : GW).run chunks failed ≠ []) ↔ failed = true := by
  rw [C17_group_content]
  cases failed <;> simp [h]

/-! ## interleavings of atomic blocks -/

/-- every block of the sink is one of the writers' blocks, whole -/
theorem shuffle_mem {α : Type} (seqs : List (List α)) (out : List α) (h : Shuffle seqs out) :
    ∀ x ∈ out, ∃ s ∈ seqs, x ∈ s := by
  induction h with
  | done seqs _ => intro x hx; cases hx
  | step pre x s post out _ ih =>
    intro y hy
    simp only [List.mem_cons] at hy
    rcases hy with rfl | hy
    · exact ⟨y :: s, by simp, by simp⟩
    · obtain ⟨t, ht, hyt⟩ := ih y hy
      simp only [List.mem_append, List.mem_singleton] at ht
      rcases ht with (ht | rfl) | ht
      · exact ⟨t, by simp [ht], hyt⟩
      · exact ⟨x :: t, by simp, by simp [hyt]⟩
      · exact ⟨t, by simp [ht], hyt⟩

/-- nothing is lost or duplicated by interleaving: the sink has exactly as many blocks
as the writers emitted -/
theorem shuffle_length {α : Type} (seqs : List (List α)) (out : List α) (h : Shuffle seqs out) :
    out.length = (seqs.map List.length).sum := by
  induction h with
  | done seqs hs =>
    induction seqs with
    | nil => rfl
    | cons s ss ih =>
      have := hs s (by simp)
      subst this
      simpa using ih (fun t ht => hs t (by simp [ht]))
  | step pre x s post out _ ih =>
    simp only [List.length_cons, ih, List.map_append, List.sum_append, List.map_cons, List.map_nil,
      List.sum_cons, List.sum_nil]
    omega

/-- filtering an interleaving gives an interleaving of the filtered sequences -/
theorem shuffle_filter {α : Type} (p : α → Bool) (seqs : List (List α)) (out : List α) (h : Shuffle seqs out) :
    Shuffle (seqs.map (fun s => s.filter p)) (out.filter p) := by
  induction h with
  | done seqs hs =>
    apply Shuffle.done
    intro s hs'
    simp only [List.mem_map] at hs'
    obtain ⟨t, ht, rfl⟩ := hs'
    rw [hs t ht]; rfl
  | step pre x s post out _ ih =>
    simp only [List.map_append, List.map_cons, List.map_nil] at ih ⊢
    by_cases hp : p x = true
    · simp only [List.filter_cons, hp, if_true]
      exact Shuffle.step _ x _ _ _ ih
    · simp only [List.filter_cons, hp, Bool.false_eq_true, if_false]
      exact ih

/-- an interleaving in which only one sequence is non-empty is that sequence -/
theorem shuffle_single {α : Type} (seqs : List (List α)) (out : List α) (h : Shuffle seqs out) :
    (seqs.filter (fun s => !s.isEmpty) = [] → out = []) ∧
    (∀ t, seqs.filter (fun s => !s.isEmpty) = [t] → out = t) := by
  induction h with
  | done seqs hs => 
    refine ⟨fun _ => rfl, ?_⟩
    intro t ht
    have : t ∈ seqs.filter (fun s => !s.isEmpty) := by rw [ht]; simp
    simp only [List.mem_filter] at this
    have := hs t this.1
    subst this
    simp at *
  | step pre x s post out _ ih =>
    refine ⟨?_, ?_⟩
    · intro h0
      simp [List.filter_append] at h0
    · intro t ht
      simp only [List.filter_append, List.filter_cons, List.isEmpty_cons, Bool.not_false, if_true,
        List.filter_nil] at ht
      have hlen := congrArg List.length ht
      simp only [List.length_append, List.length_cons, List.length_nil] at hlen
      have hpre : (pre.filter (fun s => !s.isEmpty)) = [] := List.eq_nil_of_length_eq_zero (by omega)
      have hpost : (post.filter (fun s => !s.isEmpty)) = [] := List.eq_nil_of_length_eq_zero (by omega)
      rw [hpre, hpost] at ht
      simp only [List.nil_append, List.append_nil, List.cons.injEq, and_true] at ht
      subst ht
      congr 1
      cases s with
      | nil =>
        apply ih.1
        simp [List.filter_append, hpre, hpost]
      | cons y ys =>
        apply ih.2
        simp [List.filter_append, hpre, hpost]

/-- **Per-writer order is preserved, nothing lost or duplicated**: if every block is
tagged with its writer (sequence `k` carries tag `k` only), the blocks of writer `i`
appear in the sink exactly as writer `i` emitted them, in order. -/
theorem C17_interleave_project {β : Type} (pre post : List (List (Nat × β))) (s : List (Nat × β))
    (out : List (Nat × β)) (i : Nat) (h : Shuffle (pre ++ [s] ++ post) out)
    (hs : ∀ b ∈ s, b.1 = i) (ho : ∀ t ∈ pre ++ post, ∀ b ∈ t, b.1 ≠ i) :
    out.filter (fun b => b.1 = i) = s := by
  have hf := shuffle_filter (fun b => decide (b.1 = i)) _ _ h
  have hsf : s.filter (fun b => decide (b.1 = i)) = s := by
    apply List.filter_eq_self.mpr; intro b hb; simpa using hs b hb
  have hof : ∀ t ∈ pre ++ post, t.filter (fun b => decide (b.1 = i)) = [] := by
    intro t ht; apply List.filter_eq_nil_iff.mpr; intro b hb; simpa using ho t ht b hb
  obtain ⟨h0, h1⟩ := shuffle_single _ _ hf
  simp only [List.map_append, List.map_cons, List.map_nil, hsf] at h0 h1
  have hpre : (pre.map (fun s => s.filter (fun b => decide (b.1 = i)))).filter (fun s => !s.isEmpty) = [] := by
    apply List.filter_eq_nil_iff.mpr
    intro t ht
    simp only [List.mem_map] at ht
    obtain ⟨u, hu, rfl⟩ := ht
    rw [hof u (by simp [hu])]; simp
  have hpost : (post.map (fun s => s.filter (fun b => decide (b.1 = i)))).filter (fun s => !s.isEmpty) = [] := by
    apply List.filter_eq_nil_iff.mpr
    intro t ht
    simp only [List.mem_map] at ht
    obtain ⟨u, hu, rfl⟩ := ht
    rw [hof u (by simp [hu])]; simp
  cases s with
  | nil =>
    apply h0
    simp [List.filter_append, hpre, hpost]
  | cons y ys =>
    apply h1
    simp [List.filter_append, hpre, hpost]

/-! ## tagged sequences: the projection of an interleaving to one of them -/

theorem tag_filter_ne (k i : Nat) (s : List Bytes) (h : k ≠ i) :
    (s.map (fun b => (k, b))).filter (fun b => decide (b.1 = i)) = [] := by
  induction s with
  | nil => rfl
  | cons x xs ih => simp [h, ih]

theorem tag_filter_eq (k : Nat) (s : List Bytes) :
    (s.map (fun b => (k, b))).filter (fun b => decide (b.1 = k)) = s.map (fun b => (k, b)) := by
  induction s with
  | nil => rfl
  | cons x xs ih => simp [ih]

theorem tagFrom_filter_lt (k i : Nat) (seqs : List (List Bytes)) (h : i < k) :
    ((tagFrom k seqs).map (fun s => s.filter (fun b => decide (b.1 = i)))).filter (fun s => !s.isEmpty) = [] := by
  induction seqs generalizing k with
  | nil => rfl
  | cons s rest ih =>
    simp only [tagFrom, List.map_cons]
    rw [tag_filter_ne k i s (by omega)]
    simp only [List.filter_cons, List.isEmpty_nil, Bool.not_true, Bool.false_eq_true, if_false]
    exact ih (k + 1) (by omega)

theorem tagFrom_filter_at (k j : Nat) (seqs : List (List Bytes)) (c : List Bytes) (h : seqs[j]? = some c) :
    ((tagFrom k seqs).map (fun s => s.filter (fun b => decide (b.1 = k + j)))).filter (fun s => !s.isEmpty) =
      if c = [] then [] else [c.map (fun b => (k + j, b))] := by
  induction seqs generalizing k j with
  | nil => simp at h
  | cons s rest ih =>
    cases j with
    | zero =>
      simp only [List.getElem?_cons_zero, Option.some.injEq] at h
      subst h
      simp only [tagFrom, List.map_cons, Nat.add_zero]
      rw [tag_filter_eq k s]
      simp only [List.filter_cons]
      rw [tagFrom_filter_lt (k + 1) k rest (by omega)]
      cases s <;> simp
    | succ j =>
      simp only [List.getElem?_cons_succ] at h
      simp only [tagFrom, List.map_cons]
      rw [tag_filter_ne k (k + (j + 1)) s (by omega)]
      simp only [List.filter_cons, List.isEmpty_nil, Bool.not_true, Bool.false_eq_true, if_false]
      have := ih (k + 1) j h
      rw [show k + 1 + j = k + (j + 1) by omega] at this
      exact this

/-- **Projection.** In ANY interleaving of tagged sequences, the elements tagged `i` are exactly sequence `i`, in
its order: nothing of it is lost, duplicated or reordered, whatever the others do. -/
theorem C17_project (seqs : List (List Bytes)) (out : List (Nat × Bytes)) (h : Shuffle (tagFrom 0 seqs) out)
    (i : Nat) (c : List Bytes) (hi : seqs[i]? = some c) :
    (out.filter (fun b => decide (b.1 = i))).map Prod.snd = c := by
  have hf := shuffle_filter (fun b => decide (b.1 = i)) _ _ h
  obtain ⟨h0, h1⟩ := shuffle_single _ _ hf
  have := tagFrom_filter_at 0 i seqs c hi
  simp only [Nat.zero_add] at this
  by_cases hc : c = []
  · rw [if_pos hc] at this
    rw [h0 this, hc]; rfl
  · rw [if_neg hc] at this
    rw [h1 _ this]
    simp [List.map_map, Function.comp_def]

example : tagFrom 0 [[[1], [2]], [[3]]] = [[(0, [1]), (0, [2])], [(1, [3])]] := by decide

/-! ## several producers on one writer (stdout and stderr of a pipeline's stages, background jobs)

`Write` and `close` hold the writer's mutex (`output_facts_ok`), so the producers' chunks reach the writer one
at a time, in SOME interleaving `s` of their chunk sequences. -/

/-- **Prefixed, several producers.** For EVERY interleaving of the producers' chunk sequences the emitted lines
are exactly the lines of the interleaved byte stream (whole relative to that stream, none lost or duplicated),
the stream consists of exactly the producers' chunks, and each producer's chunks are in it in its own order. -/
theorem C17_multi_producer_prefixed (pre : Bytes) (prods : List (List Bytes)) (ts : List (Nat × Bytes))
    (h : Shuffle (tagFrom 0 prods) ts) :
    ({ prefix_ := pre } : PW).run (ts.map Prod.snd) = linesOf (ts.map Prod.snd).flatten ∧
    (ts.map Prod.snd).length = (prods.map List.length).sum ∧
    ∀ i c, prods[i]? = some c → (ts.filter (fun b => decide (b.1 = i))).map Prod.snd = c := by
  refine ⟨C17_prefixed pre _, ?_, fun i c hi => C17_project prods ts h i c hi⟩
  have := shuffle_length _ _ (shuffle_map Prod.snd _ _ h)
  rw [tagFrom_untag] at this
  simpa using this

/-- **Group, several producers.** For every interleaving the one block is `begin ++ stream ++ end`. -/
theorem C17_multi_producer_group (b e : Bytes) (eo failed : Bool) (prods : List (List Bytes)) (ts : List (Nat × Bytes))
    (h : Shuffle (tagFrom 0 prods) ts) :
    ({ begin_ := b, end_ := e, errorOnly := eo } : GW).run (ts.map Prod.snd) failed =
      (if (eo && !failed) || (ts.map Prod.snd).flatten = [] then [] else [b ++ (ts.map Prod.snd).flatten ++ e]) ∧
    ∀ i c, prods[i]? = some c → (ts.filter (fun b => decide (b.1 = i))).map Prod.snd = c :=
  ⟨C17_group_content b e eo _ failed, fun i c hi => C17_project prods ts h i c hi⟩

/-- non-vacuity: two producers whose chunks alternate; the line is that of the interleaved stream -/
example : Shuffle (tagFrom 0 [[[97], [10]], [[98, 10]]]) [(0, [97]), (1, [98, 10]), (0, [10])] :=
  interleaves_sound _ _ (by decide)
example : ({ prefix_ := [112] } : PW).run [[97], [98, 10], [10]] = [[97, 98, 10], [10]] := by decide

/-- what the driver accepts for a writer with several producers is what the writer emits for SOME interleaving -/
theorem C17_acceptsPW_sound (pre : Bytes) (prods : List (List Bytes)) (sink : List Bytes)
    (h : acceptsPW pre (chunkCount prods + 1) { prefix_ := pre } prods sink = true) :
    ∃ s, Shuffle prods s ∧ sink = (linesOf s.flatten).map (lineBlock pre) := by
  obtain ⟨s, hs, he⟩ := acceptsPW_sound pre _ _ prods sink h
  exact ⟨s, hs, by rw [he, C17_prefixed]⟩

theorem C17_acceptsGW_sound (b e : Bytes) (eo failed : Bool) (prods : List (List Bytes)) (sink : List Bytes)
    (h : acceptsGW { begin_ := b, end_ := e, errorOnly := eo } prods failed sink = true) :
    ∃ s, Shuffle prods s ∧ sink = if (eo && !failed) || s.flatten = [] then [] else [b ++ s.flatten ++ e] := by
  obtain ⟨s, hs, he⟩ := acceptsGW_sound _ prods failed sink h
  exact ⟨s, hs, by rw [he, C17_group_content]⟩

/-- … and the group acceptor rejects nothing the writer can emit: for EVERY interleaving `s` of the producers' chunk
sequences the writer's output is accepted — with `C17_acceptsGW_sound` it is exact (for `acceptsPW` soundness only) -/
theorem C17_acceptsGW_complete (b e : Bytes) (eo failed : Bool) (prods : List (List Bytes)) (s : List Bytes) (h : Shuffle prods s) :
    acceptsGW { begin_ := b, end_ := e, errorOnly := eo } prods failed
      (if (eo && !failed) || s.flatten = [] then [] else [b ++ s.flatten ++ e]) = true := by
  have := acceptsGW_complete { begin_ := b, end_ := e, errorOnly := eo } prods failed s h
  rwa [C17_group_content] at this

example : acceptsPW [112] 4 { prefix_ := [112] } [[[97], [10]], [[98, 10]]] [[91, 112, 93, 32, 97, 98, 10], [91, 112, 93, 32, 10]] = true := by decide
example : acceptsPW [112] 4 { prefix_ := [112] } [[[97], [10]], [[98, 10]]] [[91, 112, 93, 32, 97, 10]] = false := by decide
example : acceptsGW { begin_ := [60], end_ := [62] } [[[97], [99]], [[98]]] false [[60, 97, 98, 99, 62]] = true := by decide
example : acceptsGW { begin_ := [60], end_ := [62] } [[[97], [99]], [[98]]] false [[60, 99, 98, 97, 62]] = false := by decide

/-! ## composition down to the bytes of the shared stream -/

/-- **Composition.** Writers `ws` (any mix of prefixed, group and raw ones — a raw writer is a task with
`interactive: true` or Task's own log lines), each with its input, write to one sink whose `Write` is atomic:
`out` is ANY interleaving of their write sequences.  Then the writes of writer `i` found in the sink are exactly
the writes the model prescribes for it, in order. -/
theorem C17_compose_project (ws : List Writer) (out : List (Nat × Bytes))
    (h : Shuffle (tagFrom 0 (ws.map Writer.blocks)) out) (i : Nat) (w : Writer) (hi : ws[i]? = some w) :
    (out.filter (fun b => decide (b.1 = i))).map Prod.snd = w.blocks :=
  C17_project _ out h i w.blocks (by simp [hi])

/-- prefixed writer `i`: its sink writes are `[prefix] line` for exactly the lines of its input, whatever its
chunking (`chunks` may itself be any interleaving of several producers' chunks: `C17_multi_producer_prefixed`) -/
theorem C17_compose_prefixed (ws : List Writer) (out : List (Nat × Bytes))
    (h : Shuffle (tagFrom 0 (ws.map Writer.blocks)) out) (i : Nat) (pre : Bytes) (chunks : List Bytes)
    (hi : ws[i]? = some (.p pre chunks)) :
    (out.filter (fun b => decide (b.1 = i))).map Prod.snd = (linesOf chunks.flatten).map (lineBlock pre) := by
  rw [C17_compose_project ws out h i _ hi]
  simp [Writer.blocks, C17_prefixed]

theorem filter_singleton_split {α : Type} (p : α → Bool) (l : List α) (x : α) (h : l.filter p = [x]) :
    ∃ a c, l = a ++ x :: c ∧ (∀ y ∈ a ++ c, p y = false) := by
  obtain ⟨a, c, hl, ha, _, hc⟩ := List.filter_eq_cons_iff.mp h
  refine ⟨a, c, hl, ?_⟩
  intro y hy
  rcases List.mem_append.mp hy with hy | hy
  · simpa using ha y hy
  · simpa using (List.filter_eq_nil_iff.mp hc) y hy

/-- **Group block: contiguous, exactly once, in the byte stream.** If command `i` wrote something (and the block is
due: not `error_only`, or the command failed), the sink — as a sequence of writes AND as a sequence of bytes — is
`before ++ (begin ++ bytes ++ end) ++ after`, where neither `before` nor `after` contains a write of command `i`:
nothing of another command lies inside the block, and nothing of command `i` lies outside it. -/
theorem C17_compose_group (ws : List Writer) (out : List (Nat × Bytes))
    (h : Shuffle (tagFrom 0 (ws.map Writer.blocks)) out) (i : Nat) (b e : Bytes) (eo failed : Bool) (chunks : List Bytes)
    (hi : ws[i]? = some (.g b e eo failed chunks)) (hdue : (eo && !failed) = false) (hne : chunks.flatten ≠ []) :
    ∃ before after, out = before ++ (i, b ++ chunks.flatten ++ e) :: after ∧
      (∀ x ∈ before ++ after, x.1 ≠ i) ∧
      (out.map Prod.snd).flatten =
        (before.map Prod.snd).flatten ++ (b ++ chunks.flatten ++ e) ++ (after.map Prod.snd).flatten := by
  have hp := C17_compose_project ws out h i _ hi
  simp only [Writer.blocks, C17_group_content, hdue, Bool.false_or, hne, decide_false, Bool.false_eq_true, if_false] at hp
  -- the filtered list has one element, whose tag is i
  have hlen : (out.filter (fun x => decide (x.1 = i))).length = 1 := by
    have := congrArg List.length hp; simpa using this
  obtain ⟨x, hx⟩ := List.length_eq_one_iff.mp hlen
  have hx2 : x.2 = b ++ chunks.flatten ++ e := by rw [hx] at hp; simpa using hp
  have hx1 : x.1 = i := by
    have : x ∈ out.filter (fun x => decide (x.1 = i)) := by rw [hx]; simp
    simpa using (List.mem_filter.mp this).2
  obtain ⟨before, after, hl, hno⟩ := filter_singleton_split _ out x hx
  have hxe : x = (i, b ++ chunks.flatten ++ e) := by cases x; simp_all
  refine ⟨before, after, by rw [hl, hxe], ?_, ?_⟩
  · intro y hy; simpa using hno y hy
  · rw [hl, hxe]; simp

/-- a group block that is not due (`error_only` and the command succeeded) or is empty leaves no trace -/
theorem C17_compose_group_silent (ws : List Writer) (out : List (Nat × Bytes))
    (h : Shuffle (tagFrom 0 (ws.map Writer.blocks)) out) (i : Nat) (b e : Bytes) (eo failed : Bool) (chunks : List Bytes)
    (hi : ws[i]? = some (.g b e eo failed chunks)) (hs : (eo && !failed) = true ∨ chunks.flatten = []) :
    ∀ x ∈ out, x.1 ≠ i := by
  have hp := C17_compose_project ws out h i _ hi
  have hb : (Writer.g b e eo failed chunks).blocks = [] := by
    simp only [Writer.blocks, C17_group_content]
    rcases hs with hs | hs <;> simp [hs]
  rw [hb] at hp
  intro x hx hxi
  have : x ∈ out.filter (fun x => decide (x.1 = i)) := List.mem_filter.mpr ⟨hx, by simpa using hxi⟩
  have hnil : out.filter (fun x => decide (x.1 = i)) = [] := by simpa using hp
  rw [hnil] at this; cases this

/-- non-vacuity: a prefixed writer, a group writer and a raw writer; the raw write lands between the two lines of
the prefixed writer, never inside one, and the group block is whole -/
example : accepts [.p [112] [[97, 10, 98], [10]], .g [60] [62] false false [[120], [121]], .r [[82]]]
    [[91, 112, 93, 32, 97, 10], [82], [60, 120, 121, 62], [91, 112, 93, 32, 98, 10]] = true := by decide
example : accepts [.p [112] [[97, 10, 98], [10]], .r [[82]]]
    [[91, 112, 93, 32, 97], [82], [10], [91, 112, 93, 32, 98, 10]] = false := by decide

/-- **The driver's acceptor is sound and exact**: it accepts the recorded sink writes iff they are the image of an
interleaving of the writers' (tagged) write sequences — to which `C17_compose_*` apply. -/
theorem C17_accepts_sound (ws : List Writer) (sink : List Bytes) (h : accepts ws sink = true) :
    ∃ out, Shuffle (tagFrom 0 (ws.map Writer.blocks)) out ∧ out.map Prod.snd = sink := accepts_sound ws sink h

theorem C17_accepts_complete (ws : List Writer) (out : List (Nat × Bytes))
    (h : Shuffle (tagFrom 0 (ws.map Writer.blocks)) out) : accepts ws (out.map Prod.snd) = true := accepts_complete ws out h

/-! ## threads: the commands of one task write one after the other (Executor-level stream) -/

/-- one task activation = a sequence of writers used one after the other (Task's log line of a command — a raw
write —, then the command's wrapped writer, closed before the next command starts); activations running in
parallel interleave their writes.  The writes of activation `i` found in the sink are exactly its commands'
writes, command after command, each command's writes whole and complete. -/
theorem C17_thread_project (ts : List (List Writer)) (out : List (Nat × Bytes))
    (h : Shuffle (tagFrom 0 (ts.map threadBlocks)) out) (i : Nat) (t : List Writer) (hi : ts[i]? = some t) :
    (out.filter (fun b => decide (b.1 = i))).map Prod.snd = (t.map Writer.blocks).flatten :=
  C17_project _ out h i (threadBlocks t) (by simp [hi])

theorem C17_acceptsThreads_sound (ts : List (List Writer)) (sink : List Bytes) (h : acceptsThreads ts sink = true) :
    ∃ out, Shuffle (tagFrom 0 (ts.map threadBlocks)) out ∧ out.map Prod.snd = sink := acceptsThreads_sound ts sink h

example : acceptsThreads [[.r [[116, 10]], .g [60] [62] true true [[120]]], [.r [[117, 10]], .g [] [] true false [[121]]]]
    [[117, 10], [116, 10], [60, 120, 62]] = true := by decide

/-! ## facts regenerated from the source on every run -/

/-- the model's atomicity assumptions, as found in the current source:
* `Write` and `close` of BOTH writers take the writer's own mutex as their first statement and release it by a
  deferred `Unlock` (fix O8-1); that mutex is a field of the writer object; the buffers are touched only by those
  methods and by `writeOutputLines`, which only `Write` / `close` call — so a writer's `write` / `close` are atomic
  steps whatever the number of producers;
* `writeLine` performs exactly ONE sink write (fix O8-2; four before), inside the `Prefixed` mutex (which protects the
  colour table; it is not what keeps a line whole any more), not in a loop; only `writeOutputLines` calls it;
  `groupWriter.close` performs exactly one sink write; `Write` methods never touch the sink;
* `Write` flushes complete lines only, `close` flushes the rest;
* stdout and stderr of one command go through ONE writer object (the model's single `PW` / `GW`);
* `runCommand` wraps the streams once, runs the command, and calls the closer exactly once, unconditionally (not in a
  `defer`, loop or branch), after the command, with the command's error (`failed` = that error is non-nil: also for
  an `ignore_error` command — the check for it comes later — and for a cancelled one). -/
theorem output_facts_ok :
    TaskModel.Gen.Output.prefixWriteSkeleton = ["lock", "deferUnlock"] ∧
    TaskModel.Gen.Output.prefixCloseSkeleton = ["lock", "deferUnlock"] ∧
    TaskModel.Gen.Output.groupWriteSkeleton = ["lock", "deferUnlock"] ∧
    TaskModel.Gen.Output.groupCloseSkeleton = ["lock", "deferUnlock", "write"] ∧
    TaskModel.Gen.Output.writerMutexFields = ["groupWriter.mutex:sync.Mutex", "prefixWriter.mutex:sync.Mutex"] ∧
    TaskModel.Gen.Output.buffUsers = ["groupWriter.Write", "groupWriter.close", "prefixWriter.Write", "prefixWriter.writeOutputLines"] ∧
    TaskModel.Gen.Output.writeOutputLinesCallers = ["prefixWriter.Write", "prefixWriter.close"] ∧
    TaskModel.Gen.Output.writeLineCallers = ["prefixWriter.writeOutputLines"] ∧
    TaskModel.Gen.Output.writeLineSkeleton = ["deferUnlock", "lock", "write"] ∧
    TaskModel.Gen.Output.prefixWriteCalls = ["writeOutputLines(false)"] ∧
    TaskModel.Gen.Output.prefixCloseCalls = ["writeOutputLines(true)"] ∧
    TaskModel.Gen.Output.prefixedWrapWriters = "same" ∧ TaskModel.Gen.Output.groupWrapWriters = "same" ∧
    TaskModel.Gen.Output.runCommandSkeleton = ["wrap", "run", "close(runErr)"] := by decide

/-! ## non-vacuity -/
example : ({ prefix_ := [112] } : PW).run [[97, 98], [10, 99], [100, 10, 101]] = [[97, 98, 10], [99, 100, 10], [101, 10]] := by decide
example : linesOf [97, 98, 10, 99, 100, 10, 101] = [[97, 98, 10], [99, 100, 10], [101, 10]] := by decide
example : ({ begin_ := [60], end_ := [62], errorOnly := true } : GW).run [[97], [98]] true = [[60, 97, 98, 62]] := by decide
example : ({ begin_ := [60], end_ := [62], errorOnly := true } : GW).run [[97], [98]] false = [] := by decide

end Props.C17
