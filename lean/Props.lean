import Props.C15
import Props.C08
import Props.C09
