import Props.C15
import Props.C07
import Props.C13
