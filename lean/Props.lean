import Props.C15
import Props.C01
import Props.C06
