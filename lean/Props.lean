import Props.C15
import Props.C12
