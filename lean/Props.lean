import Props.C15
