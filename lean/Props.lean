import Props.C15
import Props.C14
import Props.C02
import Props.C03
