import Props.C15
import Props.C12
import Props.C05
import Props.C04
