import Props.C15
import Props.C14
import Props.C17
import Props.C20
import Props.C19
import Props.C01
import Props.C06
