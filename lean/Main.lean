import Driver.Resolve
import Driver.Sched
import Driver.Output
import Driver.Vars
import Driver.Decode
import Driver.Remote
import Driver.Quote
import Driver.Load
import Driver.Finger
import Driver.Wc
/-! Line protocol: `<op> <tok>*` in, one line out (`bad-op` for anything not understood). -/
open Driver

def dispatch (line : String) : String :=
  match (line.splitOn " ").filter (· ≠ "") with
  | [] => "bad-op"
  | ["race.ok"] => "ok"     -- race workloads have no functional answer: the race detector is the oracle
  | op :: args =>
    let r :=
      if op.startsWith "resolve." then Driver.Resolve.handle op args
      else if op.startsWith "sched." then Driver.Sched.handle op args
      else if op.startsWith "output." then Driver.Output.handle op args
      else if op.startsWith "vars." then Driver.Vars.handle op args
      else if op.startsWith "decode." then Driver.Decode.handle op args
      else if op.startsWith "remote." then Driver.Remote.handle op args
      else if op.startsWith "quote." then Driver.Quote.handle op args
      else if op.startsWith "load." then Driver.Load.handle op args
      else if op.startsWith "finger." then Driver.Finger.handle op args
      else if op.startsWith "wc." then Driver.Wc.handle op args
      else none
    r.getD "bad-op"

partial def loop (hin hout : IO.FS.Stream) : IO Unit := do
  let line ← hin.getLine
  if line.isEmpty then return ()
  hout.putStrLn (dispatch (String.ofList (line.toList.filter (fun c => c != '\n' && c != '\r'))))
  loop hin hout

def main : IO Unit := do
  let hin ← IO.getStdin
  let hout ← IO.getStdout
  loop hin hout
  hout.flush
