import Driver.Resolve
import Driver.Finger
/-! Line protocol: `<op> <tok>*` in, one line out (`bad-op` for anything not understood). -/
open Driver

def dispatch (line : String) : String :=
  match (line.splitOn " ").filter (· ≠ "") with
  | [] => "bad-op"
  | op :: args =>
    let r :=
      if op.startsWith "resolve." then Driver.Resolve.handle op args
      else if op.startsWith "finger." then Driver.Finger.handle op args
      else none
    r.getD "bad-op"

partial def loop (hin hout : IO.FS.Stream) : IO Unit := do
  let line ← hin.getLine
  if line.isEmpty then return ()
  hout.putStrLn (dispatch (line.dropRightWhile (fun c => c == '\n' || c == '\r')))
  loop hin hout

def main : IO Unit := do
  let hin ← IO.getStdin
  let hout ← IO.getStdout
  loop hin hout
  hout.flush
