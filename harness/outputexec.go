package main

import (
	"context"
	"fmt"
	"os"
	"path/filepath"
	"strconv"
	"strings"
	"time"

	task "github.com/go-task/task/v3"
)

// Executor-level stream of C17: the real Executor (Setup + Run) with `output: prefixed` / `output: group`, the
// dependencies of `default` running in parallel, stdout AND stderr of the Executor being ONE recording sink (so
// Task's own `task: [name] cmd` lines are raw writes among the wrapped ones).  Compared with the model's acceptor
// `acceptsThreads`: every task activation is a thread (log line, then the command's writer, command after command),
// the threads interleave.  What this ties, beyond the writers themselves: runCommand wraps per command and closes
// the wrapper once, after the command, with the command's error (also for `ignore_error` and for a command killed
// by the cancellation that follows a sibling's failure), the prefix / begin / end templates are rendered with the
// task's variables, `interactive: true` bypasses the wrapper.
func init() {
	domains["outputexec"] = domain{runOutputExec,
		"Taskfiles with output: prefixed | group (begin / end templates, error_only), a default task with 2–4 dependencies run in parallel and " +
			"own commands afterwards; commands are sequences of printf statements to stdout / stderr (chunks known to the harness), some looping to " +
			"blocks of more than 64 KiB, some failing with ignore_error, the last own command possibly failing, templated prefix:, silent tasks, an " +
			"interactive task under prefixed; a cancellation scenario (a dependency blocked in sleep is killed when its sibling fails). The Executor's " +
			"stdout and stderr are one recording sink; the recorded writes must be an interleaving of the threads' writes the model prescribes. " +
			"non-trivial = every case (at least two parallel activations); distinct by Taskfile text"}
}

type oxStmt struct {
	Text   string `json:"text"`
	Err    bool   `json:"err,omitempty"`    // to stderr
	Repeat int    `json:"repeat,omitempty"` // >1: a shell loop printing Text that many times
}

type oxCmd struct {
	Stmts       []oxStmt `json:"stmts"`
	Exit        int      `json:"exit,omitempty"` // ≠0: the command ends with `exit N`
	IgnoreError bool     `json:"ignore_error,omitempty"`
	Silent      bool     `json:"silent,omitempty"`
	// cancellation scenario: "victim" = after its statements the command creates the file `started` and sleeps (it is
	// killed); "killer" = the command first waits for `started`
	Role string `json:"role,omitempty"`
}

type oxTask struct {
	Name        string  `json:"name"`
	Prefix      string  `json:"prefix,omitempty"` // template; "" = the task's name
	V           string  `json:"v,omitempty"`      // task variable V
	Interactive bool    `json:"interactive,omitempty"`
	Silent      bool    `json:"silent,omitempty"`
	Cmds        []oxCmd `json:"cmds"`
}

type oxCase struct {
	Style     string   `json:"style"` // prefixed | group
	Begin     string   `json:"begin,omitempty"`
	End       string   `json:"end,omitempty"`
	ErrorOnly bool     `json:"error_only,omitempty"`
	Deps      []oxTask `json:"deps"`
	Own       []oxCmd  `json:"own"`
	Cancel    bool     `json:"cancel,omitempty"` // a dependency fails while another is blocked: the own commands never run
}

func shq(s string) string { return "'" + strings.ReplaceAll(s, "'", `'\''`) + "'" }

func (c oxCmd) shell() string {
	var parts []string
	if c.Role == "killer" {
		parts = append(parts, "while [ ! -e started ]; do sleep 0.02; done")
	}
	for _, st := range c.Stmts {
		p := "printf '%s' " + shq(st.Text)
		if st.Err {
			p += " >&2"
		}
		if st.Repeat > 1 {
			p = fmt.Sprintf("i=0; while [ $i -lt %d ]; do %s; i=$((i+1)); done", st.Repeat, p)
		}
		parts = append(parts, p)
	}
	if c.Role == "victim" {
		parts = append(parts, "touch started", "sleep 8", "printf '%s' 'NEVER\n'")
	}
	if c.Exit != 0 {
		parts = append(parts, fmt.Sprintf("exit %d", c.Exit))
	}
	if len(parts) == 0 {
		return "true"
	}
	return strings.Join(parts, "; ")
}

func (c oxCmd) chunks() []string {
	var out []string
	for _, st := range c.Stmts {
		n := st.Repeat
		if n < 1 {
			n = 1
		}
		for i := 0; i < n; i++ {
			out = append(out, st.Text)
		}
	}
	return out
}

func (c oxCmd) failed() bool { return c.Exit != 0 || c.Role == "victim" }

func (d oxCase) taskfile() string {
	var b strings.Builder
	b.WriteString("version: '3'\n")
	if d.Style == "group" {
		b.WriteString("output:\n  group:\n")
		if d.Begin != "" {
			fmt.Fprintf(&b, "    begin: %s\n", strconv.Quote(d.Begin))
		}
		if d.End != "" {
			fmt.Fprintf(&b, "    end: %s\n", strconv.Quote(d.End))
		}
		fmt.Fprintf(&b, "    error_only: %v\n", d.ErrorOnly)
	} else {
		b.WriteString("output: prefixed\n")
	}
	cmds := func(cs []oxCmd) {
		if len(cs) == 0 {
			return
		}
		b.WriteString("    cmds:\n")
		for _, c := range cs {
			fmt.Fprintf(&b, "      - cmd: %s\n", strconv.Quote(c.shell()))
			if c.IgnoreError {
				b.WriteString("        ignore_error: true\n")
			}
			if c.Silent {
				b.WriteString("        silent: true\n")
			}
		}
	}
	b.WriteString("tasks:\n  default:\n    deps: [")
	for i, t := range d.Deps {
		if i > 0 {
			b.WriteString(", ")
		}
		b.WriteString(t.Name)
	}
	b.WriteString("]\n")
	cmds(d.Own)
	for _, t := range d.Deps {
		fmt.Fprintf(&b, "  %s:\n", t.Name)
		if t.Prefix != "" {
			fmt.Fprintf(&b, "    prefix: %s\n", strconv.Quote(t.Prefix))
		}
		if t.V != "" {
			fmt.Fprintf(&b, "    vars: {V: %s}\n", strconv.Quote(t.V))
		}
		if t.Interactive {
			b.WriteString("    interactive: true\n")
		}
		if t.Silent {
			b.WriteString("    silent: true\n")
		}
		cmds(t.Cmds)
	}
	return b.String()
}

// render: the two template forms the generator uses
func oxRender(tmpl, taskName, v string) string {
	return strings.ReplaceAll(strings.ReplaceAll(tmpl, "{{.TASK}}", taskName), "{{.V}}", v)
}

// thread tokens of one activation: `t <j> writer^j`
func (d oxCase) thread(name, prefixT, v string, interactive, silent bool, cs []oxCmd) string {
	var ws []string
	for _, c := range cs {
		if !silent && !c.Silent {
			ws = append(ws, "r 1 "+hx(fmt.Sprintf("task: [%s] %s\n", name, c.shell())))
		}
		ch := chunkTokens(c.chunks())
		switch {
		case interactive:
			ws = append(ws, "r "+ch)
		case d.Style == "prefixed":
			p := name
			if prefixT != "" {
				p = oxRender(prefixT, name, v)
			}
			ws = append(ws, "p "+hx(p)+" "+ch)
		default:
			ws = append(ws, fmt.Sprintf("g %s %s %s %s %s", hx(nlIf(oxRender(d.Begin, name, v))), hx(nlIf(oxRender(d.End, name, v))), b2s(d.ErrorOnly), b2s(c.failed()), ch))
		}
	}
	return fmt.Sprintf("t %d %s", len(ws), strings.Join(ws, " "))
}

var oxNo int

func evalOutputExec(d oxCase) (cl string, il string) {
	oxNo++
	base := os.Getenv("VERIF_SCRATCH")
	if base == "" {
		base = os.TempDir()
	}
	dir := filepath.Join(base, fmt.Sprintf("ox%d-%d", os.Getpid(), oxNo))
	os.MkdirAll(dir, 0o755)
	defer os.RemoveAll(dir)
	os.WriteFile(filepath.Join(dir, "Taskfile.yml"), []byte(d.taskfile()), 0o644)

	var threads []string
	for _, t := range d.Deps {
		threads = append(threads, d.thread(t.Name, t.Prefix, t.V, t.Interactive, t.Silent, t.Cmds))
	}
	if !d.Cancel {
		// own commands stop at the first one that fails without ignore_error
		own := d.Own
		for i, c := range own {
			if c.Exit != 0 && !c.IgnoreError {
				own = own[:i+1]
				break
			}
		}
		threads = append(threads, d.thread("default", "", "", false, false, own))
	}
	head := fmt.Sprintf("output.exec %d %s ", len(threads), strings.Join(threads, " "))

	sink := &recSink{}
	res := make(chan string, 1)
	go func() {
		defer func() {
			if r := recover(); r != nil {
				res <- "panic"
			}
		}()
		e := task.NewExecutor(task.WithDir(dir), task.WithStdout(sink), task.WithStderr(sink), task.WithStdin(strings.NewReader("")),
			task.WithColor(false), task.WithVersionCheck(false),
			task.WithTempDir(task.TempDir{Remote: filepath.Join(dir, ".task"), Fingerprint: filepath.Join(dir, ".task")}))
		if err := e.Setup(); err != nil {
			res <- "setup-error " + hx(err.Error())
			return
		}
		ctx, cancel := context.WithTimeout(context.Background(), 30*time.Second)
		defer cancel()
		e.Run(ctx, &task.Call{Task: "default"})
		res <- "accept"
	}()
	select {
	case il = <-res:
	case <-time.After(40 * time.Second):
		il = "timeout"
	}
	sink.mu.Lock()
	defer sink.mu.Unlock()
	return head + sinkTokens(sink), il
}

func (c *Ctx) oxText(j int) string {
	// task-specific letters, so that the writes of different activations stay distinguishable
	var sb strings.Builder
	for l := 1 + c.Rng.Intn(3); l > 0; l-- {
		sb.WriteString(strings.Repeat(string(rune('a'+2*j+c.Rng.Intn(2))), 1+c.Rng.Intn(4)))
		switch c.Rng.Intn(5) {
		case 0:
		case 1:
			sb.WriteString(" [x] ")
		default:
			sb.WriteString("\n")
		}
	}
	return sb.String()
}

func (c *Ctx) oxCmd(j int) oxCmd {
	var cmd oxCmd
	for n := c.Rng.Intn(4); n > 0; n-- {
		cmd.Stmts = append(cmd.Stmts, oxStmt{Text: c.oxText(j), Err: c.Rng.Intn(3) == 0})
	}
	if c.Rng.Intn(14) == 0 {
		// more than 64 KiB (a pipe's capacity), more than any bufio default
		line := strings.Repeat(string(rune('a'+2*j)), 60+c.Rng.Intn(30)) + "\n"
		cmd.Stmts = append(cmd.Stmts, oxStmt{Text: line, Repeat: 66000/len(line) + 1 + c.Rng.Intn(200)})
		c.Hit("block>64KiB")
	}
	if c.Rng.Intn(5) == 0 {
		cmd.Exit = 1 + c.Rng.Intn(3)
		cmd.IgnoreError = true
		c.Hit("ignore_error")
	}
	cmd.Silent = c.Rng.Intn(6) == 0
	return cmd
}

func runOutputExec(c *Ctx) {
	if c.Replay(func(raw []byte) (string, string) {
		var d oxCase
		mustJSON(raw, &d)
		return evalOutputExec(d)
	}) {
		return
	}
	emit := func(d oxCase) {
		cl, il := evalOutputExec(d)
		c.Hit("style:" + d.Style)
		if d.Cancel {
			c.Hit("cancelled-command")
		}
		if d.Style == "group" && d.ErrorOnly {
			c.Hit("group:error_only")
		}
		c.Distinct(d.taskfile())
		c.Emit(cl, il, d)
	}
	// corpus: a raw (interactive) task among prefixed ones; a cancelled command under error_only
	emit(oxCase{Style: "prefixed", Deps: []oxTask{
		{Name: "a", Interactive: true, Cmds: []oxCmd{{Stmts: []oxStmt{{Text: "RAW\n", Repeat: 300}}}}},
		{Name: "b", Prefix: "p-{{.TASK}}-{{.V}}", V: "7", Cmds: []oxCmd{{Stmts: []oxStmt{{Text: "line\n", Repeat: 300}}}}}},
		Own: []oxCmd{{Stmts: []oxStmt{{Text: "own\n"}}}}})
	emit(oxCase{Style: "group", Begin: "::group::{{.TASK}}", End: "::end::{{.TASK}}", ErrorOnly: true, Cancel: true, Deps: []oxTask{
		{Name: "a", Cmds: []oxCmd{{Stmts: []oxStmt{{Text: "a1\n"}}, Role: "victim"}}},
		{Name: "b", Cmds: []oxCmd{{Stmts: []oxStmt{{Text: "b1\n"}}, Role: "killer", Exit: 3}}}}})
	n := c.Pick(220, 2500)
	for i := 0; i < n; i++ {
		d := oxCase{Style: []string{"prefixed", "group"}[c.Rng.Intn(2)]}
		if d.Style == "group" {
			if c.Rng.Intn(3) > 0 {
				d.Begin = []string{"::group::{{.TASK}}", "BEGIN {{.TASK}} {{.V}}", "B"}[c.Rng.Intn(3)]
			}
			if c.Rng.Intn(3) > 0 {
				d.End = []string{"::end::{{.TASK}}", "E"}[c.Rng.Intn(2)]
			}
			d.ErrorOnly = c.Rng.Intn(3) == 0
		}
		k := 2 + c.Rng.Intn(3)
		for j := 0; j < k; j++ {
			t := oxTask{Name: fmt.Sprintf("t%d", j)}
			if c.Rng.Intn(3) == 0 {
				t.Prefix = []string{"p-{{.TASK}}", "{{.V}}:{{.TASK}}", "fixed" + fmt.Sprint(j)}[c.Rng.Intn(3)]
				c.Hit("templated-prefix")
			}
			t.V = []string{"", "v" + fmt.Sprint(j), "x y"}[c.Rng.Intn(3)]
			t.Silent = c.Rng.Intn(7) == 0
			for m := 1 + c.Rng.Intn(3); m > 0; m-- {
				t.Cmds = append(t.Cmds, c.oxCmd(j))
			}
			ws := d.Style == "group" && d.Begin == ""
			if ws {
				// keep group blocks of different activations distinguishable: every command starts with a marker
				for ci := range t.Cmds {
					t.Cmds[ci].Stmts = append([]oxStmt{{Text: fmt.Sprintf("<%d.%d>", j, ci)}}, t.Cmds[ci].Stmts...)
				}
			}
			d.Deps = append(d.Deps, t)
		}
		if d.Style == "prefixed" && c.Rng.Intn(3) == 0 {
			// an interactive task: its commands write to the stream directly (upper-case content)
			j := c.Rng.Intn(k)
			d.Deps[j].Interactive = true
			for ci := range d.Deps[j].Cmds {
				for si := range d.Deps[j].Cmds[ci].Stmts {
					d.Deps[j].Cmds[ci].Stmts[si].Text = strings.ToUpper(d.Deps[j].Cmds[ci].Stmts[si].Text)
				}
			}
			c.Hit("interactive-among-prefixed")
		}
		if c.Rng.Intn(8) == 0 {
			// cancellation: dependency 0 is blocked when dependency 1 fails; the others have finished by then
			// (dependency 1 waits for the victim only, so give the others nothing that takes long)
			d.Cancel = true
			d.Deps = d.Deps[:2]
			d.Deps[0].Cmds = d.Deps[0].Cmds[:1]
			d.Deps[0].Cmds[0].Role = "victim"
			d.Deps[0].Cmds[0].Exit, d.Deps[0].Cmds[0].IgnoreError = 0, false
			d.Deps[1].Cmds = d.Deps[1].Cmds[:1]
			d.Deps[1].Cmds[0].Role = "killer"
			d.Deps[1].Cmds[0].Exit, d.Deps[1].Cmds[0].IgnoreError = 3, false
		}
		for m := c.Rng.Intn(3); m > 0; m-- {
			d.Own = append(d.Own, c.oxCmd(5))
		}
		if len(d.Own) > 0 && c.Rng.Intn(4) == 0 {
			// the last own command fails for good: Run returns the error, the block must still be there
			d.Own[len(d.Own)-1].Exit, d.Own[len(d.Own)-1].IgnoreError = 4, false
			c.Hit("own-command-fails")
		}
		emit(d)
	}
}
