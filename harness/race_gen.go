package main

import (
	"fmt"
	"math/rand"
	"sort"
	"strings"
)

// The workload generator.  A workload is a Taskfile tree composed from features; every
// feature adds tasks / vars / includes / files and registers ENTRIES: calls (task + vars)
// of which at least two touch the same shared structure of the executor.  The arrangement
// then makes all entries of all chosen features run concurrently.

type raceEntry struct {
	Task    string
	Vars    map[string]string
	MayFail bool // the activation may end with an error
	NoTop   bool // cannot be named on the command line (Run validates top-level names sequentially / internal task)
	Silent  bool // call it with silent: true where the arrangement allows
}

type raceTF struct {
	head     []string // top-level lines (output:, method:, run:, silent:, set:, shopt:)
	dotenv   []string
	env      []string // "NAME: value"
	vars     []string
	includes []string // rendered blocks
	tasks    []string // rendered blocks
	names    []string
}

func yq(s string) string { return "'" + strings.ReplaceAll(s, "'", "''") + "'" }

func indent(s string, n int) string {
	pad := strings.Repeat(" ", n)
	ls := strings.Split(s, "\n")
	for i := range ls {
		ls[i] = pad + ls[i]
	}
	return strings.Join(ls, "\n")
}

func (t *raceTF) task(name string, lines ...string) {
	var b strings.Builder
	fmt.Fprintf(&b, "  %s:\n", yq(name))
	for _, l := range lines {
		if l == "" {
			continue
		}
		b.WriteString(indent(l, 4))
		b.WriteString("\n")
	}
	t.tasks = append(t.tasks, b.String())
	t.names = append(t.names, name)
}

func (t *raceTF) include(ns string, lines ...string) {
	var b strings.Builder
	fmt.Fprintf(&b, "  %s:\n", ns)
	for _, l := range lines {
		b.WriteString(indent(l, 4))
		b.WriteString("\n")
	}
	t.includes = append(t.includes, b.String())
}

func (t *raceTF) render() string {
	var b strings.Builder
	b.WriteString("version: '3'\n")
	for _, h := range t.head {
		b.WriteString(h)
		b.WriteString("\n")
	}
	if len(t.dotenv) > 0 {
		b.WriteString("dotenv: [" + strings.Join(t.dotenv, ", ") + "]\n")
	}
	sect := func(name string, items []string) {
		if len(items) == 0 {
			return
		}
		b.WriteString(name + ":\n")
		for _, it := range items {
			b.WriteString(indent(it, 2))
			b.WriteString("\n")
		}
	}
	sect("env", t.env)
	sect("vars", t.vars)
	if len(t.includes) > 0 {
		b.WriteString("includes:\n")
		for _, it := range t.includes {
			b.WriteString(it)
		}
	}
	b.WriteString("tasks:\n")
	for _, it := range t.tasks {
		b.WriteString(it)
	}
	if len(t.tasks) == 0 {
		b.WriteString("  {}\n")
	}
	return b.String()
}

type raceGen struct {
	r          *rand.Rand
	files      map[string]string
	root       *raceTF
	entries    []raceEntry
	feats      []string
	opts       raceOpts
	noGlobalSh bool // nothing evaluates a sh: variable while the executor is still single-threaded
	emptyVars     bool // call sites without variables are written with an explicit `vars: {}`
	usedEmptyVars bool
	outMode    string
}

func (g *raceGen) feat(name string) { g.feats = append(g.feats, name) }
func (g *raceGen) p(pr float64) bool { return g.r.Float64() < pr }
func (g *raceGen) pick(xs ...string) string { return xs[g.r.Intn(len(xs))] }

func (g *raceGen) entry(task string, kv ...string) *raceEntry {
	e := raceEntry{Task: task}
	if len(kv) > 0 {
		e.Vars = map[string]string{}
		for i := 0; i+1 < len(kv); i += 2 {
			e.Vars[kv[i]] = kv[i+1]
		}
	}
	g.entries = append(g.entries, e)
	return &g.entries[len(g.entries)-1]
}

// callItem renders an entry as a dep / cmd item in flow style.
func (g *raceGen) callItem(e raceEntry, extra string) string {
	s := "{task: " + yq(e.Task)
	if len(e.Vars) == 0 && g.emptyVars && g.r.Intn(3) > 0 {
		// an explicitly empty, non-nil variable map on the call site
		s += ", vars: {}"
		g.usedEmptyVars = true
	}
	if len(e.Vars) > 0 {
		ks := make([]string, 0, len(e.Vars))
		for k := range e.Vars {
			ks = append(ks, k)
		}
		sort.Strings(ks)
		var vs []string
		for _, k := range ks {
			vs = append(vs, k+": "+yq(e.Vars[k]))
		}
		s += ", vars: {" + strings.Join(vs, ", ") + "}"
	}
	if e.Silent {
		s += ", silent: true"
	}
	return s + extra + "}"
}

func flowList(items []string) string { return "[" + strings.Join(items, ", ") + "]" }

// ---------------------------------------------------------------- features

// unknown task names reached by >= 2 concurrent activations
func (g *raceGen) featUnknown() {
	r := g.r
	known := []string{}
	for _, n := range g.root.names {
		if !strings.Contains(n, "*") && len(n) <= 10 {
			known = append(known, n)
		}
	}
	g.root.task("unk-build", "desc: 'build {{.V}}'", "cmds: ['echo unk-build']")
	g.root.task("unk-test", "aliases: [unk-t]", "cmds: ['echo unk-test']")
	known = append(known, "unk-build", "unk-test", "unk-t")
	exists := map[string]bool{}
	for _, n := range g.root.names {
		exists[n] = true
	}
	exists["unk-t"] = true
	kind := g.pick("plain", "nearmiss", "long", "mixed")
	g.feat("unknown-" + kind)
	mk := func(i int) string {
		k := kind
		if k == "mixed" {
			k = []string{"plain", "nearmiss", "long"}[i%3]
		}
		for {
			var n string
			switch k {
			case "plain":
				n = fmt.Sprintf("nope-%d", r.Intn(50))
			case "long":
				n = strings.Repeat(g.pick("x", "unk-build", "ab:"), 1) + strings.Repeat(g.pick("y", "-z", "build"), 60+r.Intn(200))
			default:
				src := []byte(known[r.Intn(len(known))])
				j := r.Intn(len(src))
				switch r.Intn(4) {
				case 0:
					src = append(src[:j], src[j+1:]...)
				case 1:
					if j+1 < len(src) {
						src[j], src[j+1] = src[j+1], src[j]
					} else {
						src = append(src, 'x')
					}
				case 2:
					src[j] = "qzkw"[r.Intn(4)]
				default:
					src = append(src, "sdx"[r.Intn(3)])
				}
				n = string(src)
			}
			if n == "" || exists[n] || strings.HasPrefix(n, "wcb-") || strings.Contains(n, "-wx-") || strings.ContainsAny(n, "*'") {
				continue
			}
			return n
		}
	}
	k := 2 + r.Intn(3)
	names := make([]string, k)
	for i := range names {
		names[i] = mk(i)
	}
	if g.p(0.35) {
		for i := range names {
			names[i] = names[0] // the same unknown name from every caller
		}
	}
	switch variant := r.Intn(4); variant {
	case 0: // several parallel parents, each with one unknown dep
		g.feat("unknown-parents")
		for i, n := range names {
			p := fmt.Sprintf("unk-p%d", i)
			g.root.task(p, "deps: ["+yq(n)+"]", "cmds: ['echo never']")
			e := g.entry(p)
			e.MayFail = true
		}
	case 1: // parents calling an unknown task from a cmd with ignore_error
		g.feat("unknown-cmdcall")
		for i, n := range names {
			p := fmt.Sprintf("unk-c%d", i)
			g.root.task(p, "ignore_error: true", "cmds: ['echo before', {task: "+yq(n)+", ignore_error: true}, 'echo after']")
			e := g.entry(p)
			e.MayFail = true
		}
	case 2: // for-deps over a list of templated names
		g.feat("unknown-fordeps")
		base := make([]string, k)
		for i := range base {
			base[i] = yq(known[r.Intn(len(known))])
		}
		suffix := g.pick("-nope", "x", strings.Repeat("-long", 80))
		g.root.vars = append(g.root.vars, "UNK_LIST: "+flowList(base))
		g.root.task("unk-f", "deps:", "  - for: {var: UNK_LIST}", "    task: '{{.ITEM}}"+suffix+"{{.V}}'", "cmds: ['echo never']")
		for i := 0; i < 1+r.Intn(2); i++ {
			e := g.entry("unk-f", "V", fmt.Sprint(i))
			e.MayFail = true
		}
	default: // one parent with all unknown deps and a real one
		g.feat("unknown-siblings")
		items := []string{"unk-build"}
		for _, n := range names {
			items = append(items, yq(n))
		}
		r.Shuffle(len(items), func(i, j int) { items[i], items[j] = items[j], items[i] })
		g.root.task("unk-s", "deps: "+flowList(items), "cmds: ['echo never']")
		e := g.entry("unk-s")
		e.MayFail = true
		if g.p(0.5) {
			g.root.task("unk-s2", "deps: "+flowList(items), "cmds: ['echo never']")
			e := g.entry("unk-s2")
			e.MayFail = true
		}
	}
}

// fingerprinted tasks executed concurrently
func (g *raceGen) featFinger() {
	r := g.r
	g.feat("finger")
	g.files["src/a.txt"] = "a\n"
	g.files["src/b.txt"] = "b\n"
	g.files["src/skip.tmp"] = "t\n"
	g.files["src/deep/c.txt"] = "c\n"
	g.files["out/"] = ""
	if g.p(0.4) {
		m := g.pick("checksum", "timestamp", "none")
		g.root.head = append(g.root.head, "method: "+m)
		g.feat("finger-global-method-" + m)
	}
	src := "sources: ['src/*.txt', {exclude: 'src/b.txt'}]"
	if g.p(0.4) {
		src = "sources: ['src/**/*.txt', 'src/*.tmp', {exclude: 'src/*.tmp'}]"
	}
	meth := func() string {
		switch r.Intn(4) {
		case 0:
			return "method: checksum"
		case 1:
			return "method: timestamp"
		}
		return ""
	}
	g.root.task("fp-cs", meth(), src, "generates: ['out/cs-{{.V}}.txt']",
		"cmds: ['printf \"%s\" {{.V}} > out/cs-{{.V}}.txt', 'echo {{.CHECKSUM}}{{.TIMESTAMP}}']")
	g.root.task("fp-ts", "desc: 'ts {{.TIMESTAMP}}'", "method: timestamp", src, "generates: ['out/ts.txt']", "cmds: ['printf x > out/ts.txt', 'echo {{.TIMESTAMP}}']")
	g.root.task("fp-st", "status: ['test -f out/st-{{.V}}.txt']", "cmds: ['printf x > out/st-{{.V}}.txt']")
	g.root.task("fp-stsrc", src, "status: ['test -f out/sts.txt']", "cmds: ['printf x > out/sts.txt']")
	dir := g.pick("fresh/d", "fresh/{{.V}}", "out/new")
	g.root.task("fp-dir-a", "dir: "+yq(dir), "sources: ['*.txt']", meth(), "cmds: ['printf a > a-{{.V}}.txt']")
	g.root.task("fp-dir-b", "dir: "+yq(dir), "cmds: ['printf b > b-{{.V}}.txt']")
	g.root.task("fp-twice", "cmds: [{task: fp-cs, vars: {V: '{{.V}}'}}, {task: fp-cs, vars: {V: '{{.V}}'}}, {task: fp-st, vars: {V: '{{.V}}'}}, {task: fp-st, vars: {V: '{{.V}}'}}]")
	switch r.Intn(4) {
	case 0:
		g.feat("finger-same-task")
		g.entry("fp-cs", "V", "1")
		g.entry("fp-cs", "V", "2")
		g.entry("fp-cs", "V", "1")
		g.entry("fp-ts")
		g.entry("fp-ts")
	case 1:
		g.feat("finger-mkdir")
		g.entry("fp-dir-a", "V", "1")
		g.entry("fp-dir-a", "V", "2")
		g.entry("fp-dir-b", "V", "1")
		g.entry("fp-dir-b", "V", "1")
	case 2:
		g.feat("finger-status")
		g.entry("fp-st", "V", "1")
		g.entry("fp-st", "V", "1")
		g.entry("fp-stsrc")
		g.entry("fp-stsrc")
		g.entry("fp-twice", "V", "3")
	default:
		g.feat("finger-mixed")
		g.entry("fp-twice", "V", "1")
		g.entry("fp-twice", "V", "1")
		g.entry("fp-cs", "V", "1")
		g.entry("fp-dir-a", "V", "1")
		g.entry("fp-dir-b", "V", "2")
		g.entry("fp-ts")
	}
}

// preconditions, requires, platforms
func (g *raceGen) featGuards() {
	g.feat("guards")
	g.root.task("gd-pre", "preconditions:", "  - sh: 'test \"{{.V}}\" = 1'", "    msg: 'V must be 1, got {{.V}}'", "  - 'test -d .'", "cmds: ['echo pre {{.V}}']")
	g.root.task("gd-req", "requires:", "  vars: [V, {name: W, enum: [a, b]}]", "cmds: ['echo req {{.V}} {{.W}}']")
	g.root.task("gd-plat", "platforms: "+g.pick("[linux]", "[windows]", "[linux/amd64, darwin]", "[windows, linux]"),
		"cmds: [{cmd: 'echo w', platforms: [windows]}, {cmd: 'echo l {{.V}}', platforms: [linux]}, {cmd: 'echo arch', platforms: [linux/amd64, linux/arm64]}]")
	g.root.task("gd-noplat", "platforms: [windows/arm64]", "cmds: ['echo never']")
	switch g.r.Intn(3) {
	case 0:
		g.feat("guards-precond")
		g.entry("gd-pre", "V", "1")
		g.entry("gd-pre", "V", "1")
		g.entry("gd-pre", "V", "2").MayFail = true
		g.entry("gd-pre", "V", "3").MayFail = true
	case 1:
		g.feat("guards-requires")
		g.entry("gd-req", "V", "1", "W", "a")
		g.entry("gd-req", "V", "2", "W", "b")
		g.entry("gd-req", "V", "1", "W", "zz").MayFail = true
		g.entry("gd-req", "W", "a").MayFail = true
		g.entry("gd-req").MayFail = true
	default:
		g.feat("guards-platforms")
		g.entry("gd-plat", "V", "1")
		g.entry("gd-plat", "V", "2")
		g.entry("gd-noplat")
		g.entry("gd-noplat")
		g.entry("gd-pre", "V", "1")
		g.entry("gd-req", "V", "1", "W", "b")
	}
}

// sh: variables
func (g *raceGen) featShVars() {
	g.feat("shvars")
	g.files["shdir/"] = ""
	if !g.noGlobalSh {
		g.feat("shvars-global")
		g.root.vars = append(g.root.vars, "SH_G: {sh: 'echo g'}", "SH_G2: {sh: 'echo {{.SH_G}}-2'}", "SH_SAME: {sh: 'echo same'}")
	} else {
		g.feat("shvars-first-use")
		g.root.vars = append(g.root.vars, "SH_G: static-g", "SH_G2: static-g2")
	}
	g.root.task("sh-t", "vars:", "  T1: {sh: 'echo t1-{{.V}}'}", "  T2: {sh: 'echo same'}", "  T3: {sh: 'echo same'}", "  T4: {sh: 'echo {{.T1}}-dep-{{.SH_G}}'}",
		"cmds: ['echo {{.SH_G}} {{.SH_G2}} {{.T1}} {{.T2}} {{.T3}} {{.T4}}']")
	g.root.task("sh-u", "desc: 'u {{.U1}}'", "vars:", "  U1: {sh: 'echo same'}", "  U2: {sh: 'printf \"a\\nb\\n\"'}", "cmds: ['echo \"{{.U1}} {{.U2}}\"']")
	g.root.task("sh-d", "dir: shdir", "vars:", "  D1: {sh: 'echo same'}", "  D2: {sh: 'pwd'}", "cmds: ['echo {{.D1}} {{.D2}}']")
	g.root.task("sh-fail", "vars:", "  F1: {sh: 'exit 4'}", "cmds: ['echo {{.F1}}']")
	g.entry("sh-t", "V", "1")
	g.entry("sh-t", "V", "2")
	g.entry("sh-u")
	g.entry("sh-d")
	if g.p(0.5) {
		g.entry("sh-t", "V", "1")
		g.entry("sh-d")
	}
	if g.p(0.2) {
		g.feat("shvars-failing")
		g.entry("sh-fail").MayFail = true
		g.entry("sh-fail").MayFail = true
	}
}

// dotenv + env
func (g *raceGen) featDotenv() {
	g.feat("dotenv")
	g.files[".env"] = "DE_A=1\nDE_B=two\n"
	g.files["cfg/dev.env"] = "DE_C=dev\nDE_A=shadowed\n"
	g.files["task.env"] = "TE_FILE=from-file\nDE_B=task\n"
	if !g.noGlobalSh {
		g.feat("dotenv-global")
		g.root.vars = append(g.root.vars, "DE_NAME: dev")
		g.root.dotenv = append(g.root.dotenv, "'.env'", "'cfg/{{.DE_NAME}}.env'", "'missing.env'")
		g.root.env = append(g.root.env, "GE_A: ga", "GE_SH: {sh: 'echo ge'}", "GE_T: '{{.DE_NAME}}-env'")
	} else {
		g.root.env = append(g.root.env, "GE_A: ga", "GE_T: static")
	}
	g.root.task("de-t", "dotenv: ['task.env', 'cfg/dev.env']", "env:", "  TE_A: '{{.V}}'", "  TE_SH: {sh: 'echo te-{{.V}}'}", "  TE_SAME: {sh: 'echo same'}",
		"cmds: ['echo $DE_A $DE_B $DE_C $TE_A $TE_SH $TE_FILE $GE_A $GE_SH $GE_T']")
	g.root.task("de-u", "env: {TE_A: 'u', TE_SH: {sh: 'echo te-1'}}", "cmds: ['echo $TE_A $TE_SH $GE_SH']")
	g.entry("de-t", "V", "1")
	g.entry("de-t", "V", "2")
	g.entry("de-u")
	if g.p(0.5) {
		g.entry("de-t", "V", "1")
	}
}

// wildcard tasks and aliases
func (g *raceGen) featWildcard() {
	g.feat("wildcard")
	g.root.task("wcb-*", "desc: 'wildcard {{.MATCH}}'", "vars: {M0: '{{index .MATCH 0}}'}", "cmds: ['echo wcb {{.M0}} {{.MATCH}} {{.V}}']")
	g.root.task("*-wx-*", "cmds: ['echo wx {{index .MATCH 0}}/{{index .MATCH 1}} {{.V}}']")
	g.root.task("al-t", "aliases: [al-a, al-b]", "cmds: ['echo alias {{.ALIAS}} {{.TASK}} {{.V}}']")
	g.entry("wcb-one", "V", "1")
	g.entry("wcb-two", "V", "2")
	g.entry("l-wx-r")
	g.entry("p-wx-q", "V", "3")
	if g.p(0.6) {
		g.feat("alias")
		g.entry("al-t", "V", "1")
		g.entry("al-a", "V", "2")
		g.entry("al-b")
	}
	if g.p(0.4) {
		g.entry("wcb-one", "V", "1")
		g.entry("wcb-wx-both")
	}
}

// label / prefix templates, partial lines, stderr
func (g *raceGen) featLabels() {
	g.feat("labels")
	same := g.p(0.5)
	pa, pb := "pfx-{{.V}}", "pfx-b-{{.V}}"
	if same {
		g.feat("labels-same-prefix")
		pa, pb = "shared-pfx", "shared-pfx"
	}
	body := "cmds: ['printf abc; printf \"def\\n\"; printf \"err {{.V}}\\n\" >&2; printf tail', 'printf \"l1\\nl2\\nl3\"', 'printf \"only-err\" >&2']"
	g.root.task("lb-a", "label: 'lbl-{{.V}}-{{.TASK}}'", "prefix: "+yq(pa), body)
	g.root.task("lb-b", "label: 'lbl-b'", "prefix: "+yq(pb), body)
	g.root.task("lb-c", "desc: 'plain {{.V}}'", body)
	g.entry("lb-a", "V", "1")
	g.entry("lb-a", "V", "2")
	g.entry("lb-b", "V", "1")
	g.entry("lb-c", "V", "1")
	if g.p(0.5) {
		g.entry("lb-a", "V", "1")
		g.entry("lb-c", "V", "2")
	}
}

// deferred commands and deferred task calls
func (g *raceGen) featDefers() {
	g.feat("defers")
	g.root.task("df-helper", "desc: helper", "cmds: ['echo helper {{.V}} {{.FROM}}']")
	d1 := "{defer: 'printf \"d1 {{.V}} code={{.EXIT_CODE}}\\n\"'}"
	d2 := "{defer: {task: df-helper, vars: {V: '{{.V}}', FROM: 'defer-{{.V}}'}}}"
	d3 := "{defer: 'echo d3 {{if .EXIT_CODE}}failed {{.EXIT_CODE}}{{else}}fine{{end}}'}"
	g.root.task("df-ok", "cmds: ["+d1+", 'echo body {{.V}}', "+d2+", "+d3+"]")
	g.root.task("df-fail", "cmds: ["+d1+", "+d2+", 'echo body {{.V}}', "+d3+", 'exit 3', 'echo never']")
	g.root.task("df-only", "cmds: ["+d3+"]")
	g.entry("df-ok", "V", "1")
	g.entry("df-ok", "V", "2")
	if g.p(0.5) {
		g.feat("defers-failing")
		g.entry("df-fail", "V", "1").MayFail = true
		g.entry("df-fail", "V", "2").MayFail = true
	}
	if g.p(0.5) {
		g.entry("df-only")
		g.entry("df-only")
		g.entry("df-ok", "V", "1")
	}
}

// run: once / when_changed, cycles
func (g *raceGen) featRunOnce() {
	g.feat("runonce")
	if g.p(0.25) {
		m := g.pick("once", "when_changed")
		g.root.head = append(g.root.head, "run: "+m)
		g.feat("runonce-global-" + m)
	}
	slow := ""
	if g.p(0.3) {
		slow = ", 'sleep 0.01'"
	}
	g.root.task("ro-shared", "desc: 'shared {{.TASK}}'", "run: once", "cmds: ['echo shared'"+slow+"]")
	g.root.task("ro-wc", "run: when_changed", "cmds: ['echo wc {{.V}}']")
	g.root.task("ro-fail", "run: once", "cmds: ['echo failing', 'exit 2']")
	g.root.task("ro-user", "deps: [ro-shared, {task: ro-wc, vars: {V: '{{.V}}'}}]", "cmds: ['echo user {{.V}}', {task: ro-shared}, {task: ro-wc, vars: {V: '{{.V}}'}}]")
	g.root.task("ro-fuser", "deps: [ro-fail, ro-shared]", "cmds: ['echo never']")
	g.entry("ro-user", "V", "1")
	g.entry("ro-user", "V", "2")
	g.entry("ro-user", "V", "1")
	g.entry("ro-shared")
	if g.p(0.4) {
		g.feat("runonce-failing")
		g.entry("ro-fuser").MayFail = true
		g.entry("ro-fuser").MayFail = true
		g.entry("ro-fail").MayFail = true
	}
	if g.p(0.4) {
		g.feat("runonce-cycle")
		if g.p(0.5) {
			g.root.task("ro-ca", "run: once", "deps: [ro-cb]", "cmds: ['echo ca']")
			g.root.task("ro-cb", "run: once", "deps: [ro-shared, ro-ca]", "cmds: ['echo cb']")
		} else {
			g.root.task("ro-ca", "run: once", "cmds: ['echo ca', {task: ro-cb}]")
			g.root.task("ro-cb", "run: when_changed", "deps: [ro-cc]", "cmds: ['echo cb']")
			g.root.task("ro-cc", "run: once", "cmds: [{task: ro-ca}]")
		}
		g.entry("ro-ca").MayFail = true
		g.entry("ro-cb").MayFail = true
	}
}

// included Taskfiles
func (g *raceGen) featIncludes() {
	g.feat("includes")
	// the variables of an included Taskfile are merged into the global ones
	ivsh, nsh := "IV_SH: {sh: 'echo ivsh'}", "NSH: {sh: 'echo nsh'}"
	if g.noGlobalSh {
		ivsh, nsh = "IV_SH: static", "NSH: static-n"
	} else {
		g.feat("includes-sh-vars")
	}
	g.files["inc/Taskfile.yml"] = "version: '3'\nvars:\n  " + ivsh + "\n  IV_LOCAL: local-{{.IV}}\n" +
		"includes:\n  nested:\n    taskfile: ./nested/Taskfile.yml\n    vars: {NV: 'n-{{.IV}}'}\n" +
		"tasks:\n  default:\n    cmds: ['echo inc default {{.IV}}']\n" +
		"  it:\n    aliases: [i]\n    vars: {TV: {sh: 'echo tv'}}\n    deps: [helper]\n    cmds: ['echo it {{.IV_SH}} {{.IV}} {{.IV_LOCAL}} {{.TV}} {{.V}}', {task: 'nested:nt', vars: {V: '{{.V}}'}}]\n" +
		"  it2:\n    cmds: ['echo it2 {{.IV_SH}} {{.IV}}', {task: it, vars: {V: 'from-it2'}}]\n" +
		"  helper:\n    internal: true\n    cmds: ['echo helper {{.IV}}']\n"
	g.files["inc/nested/Taskfile.yml"] = "version: '3'\nvars:\n  " + nsh + "\ntasks:\n  nt:\n    cmds: ['echo nt {{.NV}} {{.NSH}} {{.V}}']\n"
	g.files["flat/Taskfile.yml"] = "version: '3'\nvars: {FLV: flat}\ntasks:\n  fl-t:\n    cmds: ['echo flat {{.FLV}} {{.V}}']\n  fl-hidden:\n    cmds: ['echo hidden']\n"
	g.files["intl.yml"] = "version: '3'\ntasks:\n  helper:\n    cmds: ['echo internal helper {{.V}}']\n"
	g.root.include("inc", "taskfile: ./inc/Taskfile.yml", "dir: ./inc", "vars: {IV: iv1}", "aliases: [i1]")
	g.root.include("inc2", "taskfile: ./inc/Taskfile.yml", "vars: {IV: iv2}")
	g.root.include("flat", "taskfile: ./flat", "flatten: true", "excludes: [fl-hidden]")
	g.root.include("intl", "taskfile: ./intl.yml", "internal: true")
	g.root.include("opt", "taskfile: ./missing.yml", "optional: true")
	g.root.task("use-intl", "deps: [{task: 'intl:helper', vars: {V: 'dep-{{.V}}'}}]", "cmds: [{task: 'intl:helper', vars: {V: 'cmd-{{.V}}'}}, {task: 'inc:it2'}]")
	g.root.names = append(g.root.names, "inc:it", "inc:it2", "inc2:it", "fl-t", "inc:nested:nt")
	g.entry("inc:it", "V", "1")
	g.entry("i1:it", "V", "2")
	g.entry("inc2:it", "V", "1")
	g.entry("inc2:i")
	switch g.r.Intn(3) {
	case 0:
		g.entry("inc:nested:nt", "V", "1")
		g.entry("inc2:nested:nt", "V", "2")
		g.entry("inc")
	case 1:
		g.entry("fl-t", "V", "1")
		g.entry("fl-t", "V", "2")
		g.entry("use-intl", "V", "1")
		g.entry("use-intl", "V", "2")
	default:
		g.entry("inc:it2")
		g.entry("inc2:it2")
		g.entry("use-intl", "V", "1")
		g.entry("intl:helper").NoTop = true
	}
}

// for-loops
func (g *raceGen) featFor() {
	g.feat("forloops")
	g.files["src/a.txt"] = "a\n"
	g.files["src/b.txt"] = "b\n"
	g.root.vars = append(g.root.vars, "FL_LIST: [x, y, z]", "FL_STR: 'p,q,r'", "FL_WORDS: 'u v w'", "FL_MAP: {map: {k1: v1, k2: v2}}")
	g.root.task("fo-leaf", "desc: 'leaf {{.X}} {{.FL_LIST}}'", "cmds: ['echo leaf {{.X}}']")
	g.root.task("fo-matrix", "cmds:", "  - for:", "      matrix:", "        A: {ref: .FL_LIST}", "        B: [1, 2]", "    cmd: 'echo {{.ITEM.A}}{{.ITEM.B}} {{.V}}'")
	g.root.task("fo-cmds", "sources: ['src/*.txt']", "cmds:",
		"  - {for: {var: FL_LIST}, cmd: 'echo {{.ITEM}} {{.V}}'}",
		"  - {for: {var: FL_STR, split: ',', as: PART}, cmd: 'echo {{.PART}}'}",
		"  - {for: {var: FL_WORDS}, task: fo-leaf, vars: {X: '{{.ITEM}}-{{.V}}'}}",
		"  - {for: {var: FL_MAP}, cmd: 'echo {{.KEY}}={{.ITEM}}'}",
		"  - {for: sources, cmd: 'echo src {{.ITEM}}'}",
		"  - {for: [1, 2, 3], cmd: 'echo n{{.ITEM}}'}")
	g.root.task("fo-deps", "deps:", "  - for: {var: FL_LIST}", "    task: fo-leaf", "    vars: {X: '{{.ITEM}}-{{.V}}'}",
		"  - for:", "      matrix:", "        A: {ref: .FL_LIST}", "        B: [1, 2]", "    task: fo-leaf", "    vars: {X: 'm{{.ITEM.A}}{{.ITEM.B}}'}", "cmds: ['echo fordeps {{.V}}']")
	g.entry("fo-matrix", "V", "0")
	g.entry("fo-matrix", "V", "1")
	g.entry("fo-matrix", "V", "0")
	switch g.r.Intn(3) {
	case 0:
		g.feat("for-cmds")
		g.entry("fo-cmds", "V", "1")
		g.entry("fo-cmds", "V", "2")
	case 1:
		g.feat("for-deps")
		g.entry("fo-deps", "V", "1")
		g.entry("fo-deps", "V", "2")
	default:
		g.feat("for-cmds")
		g.feat("for-deps")
		g.entry("fo-cmds", "V", "1")
		g.entry("fo-deps", "V", "1")
		g.entry("fo-matrix", "V", "2")
	}
}

// task / cmd level flags: ignore_error, set / shopt, silent, interactive
func (g *raceGen) featFlags() {
	g.feat("flags")
	if g.p(0.3) {
		// several options, NOT in alphabetical order: whoever sorts the joined list must sort a copy
		g.root.head = append(g.root.head, "set: [pipefail, allexport]", "shopt: [nullglob, globstar]")
		g.feat("flags-global-set")
	}
	if g.p(0.2) {
		g.root.head = append(g.root.head, "silent: true")
		g.feat("flags-global-silent")
	}
	inter := g.pick("interactive: true", "interactive: false", "")
	g.root.task("fg-leaf", "silent: true", "cmds: ['echo leaf {{.V}}']")
	g.root.task("fg-t", "set: [errexit, nounset]", "shopt: [nullglob]", inter, "ignore_error: true",
		"cmds: [{cmd: 'exit 1', ignore_error: true}, {cmd: 'echo nomatch-*', shopt: [nullglob, globstar], set: [noglob], silent: true}, 'false', {task: fg-leaf, vars: {V: '{{.V}}'}, silent: true}, 'echo done {{.V}}']")
	g.root.task("fg-s", "silent: true", inter, "cmds: ['echo quiet {{.V}}', {cmd: 'false', ignore_error: true}, 'exit 5']")
	g.entry("fg-t", "V", "1")
	g.entry("fg-t", "V", "2").Silent = true
	if g.p(0.5) {
		g.feat("flags-failing")
		g.entry("fg-s", "V", "1").MayFail = true
		g.entry("fg-s", "V", "2").MayFail = true
	}
	g.entry("fg-leaf", "V", "3").Silent = true
}

// call sites with an explicitly empty `vars: {}` (dep, for-dep, cmd call, deferred call), wildcard callees,
// the parent reached several times concurrently
func (g *raceGen) featEmptyVars() {
	g.feat("empty-call-vars")
	g.root.task("evw-*", "cmds: ['echo evw {{index .MATCH 0}} {{.V}}']")
	g.root.task("ev-leaf", "vars: {L: {sh: 'echo same'}}", "cmds: ['echo ev-leaf {{.L}}']")
	g.root.task("ev-parent", "deps:", "  - {task: evw-dep, vars: {}}", "  - {task: ev-leaf, vars: {}}",
		"  - for: [a, b, c]", "    task: 'evw-{{.ITEM}}'", "    vars: {}",
		"  - for: {var: EV_LIST}", "    task: ev-leaf", "    vars: {}",
		"cmds:", "  - {task: evw-cmd, vars: {}}", "  - {for: [p, q], task: 'evw-{{.ITEM}}', vars: {}}", "  - {defer: {task: evw-deferred, vars: {}}}", "  - 'echo ev-parent {{.V}}'")
	g.root.vars = append(g.root.vars, "EV_LIST: [m, n]")
	g.root.task("ev-twice", "deps: [{task: ev-parent, vars: {}}, {task: ev-parent, vars: {}}]")
	g.entry("ev-parent")
	g.entry("ev-parent", "V", "1")
	g.entry("ev-parent")
	if g.p(0.5) {
		g.entry("ev-twice")
		g.entry("evw-top")
	}
}

var raceFeatures = []struct {
	name string
	fn   func(*raceGen)
}{
	{"finger", (*raceGen).featFinger}, {"guards", (*raceGen).featGuards}, {"shvars", (*raceGen).featShVars}, {"dotenv", (*raceGen).featDotenv},
	{"wildcard", (*raceGen).featWildcard}, {"labels", (*raceGen).featLabels}, {"defers", (*raceGen).featDefers}, {"runonce", (*raceGen).featRunOnce},
	{"includes", (*raceGen).featIncludes}, {"forloops", (*raceGen).featFor}, {"flags", (*raceGen).featFlags}, {"emptyvars", (*raceGen).featEmptyVars}, {"unknown", (*raceGen).featUnknown},
}

// ---------------------------------------------------------------- output mode and options

func (g *raceGen) chooseOutput() {
	r := g.r
	mode := g.pick("", "interleaved", "prefixed", "group", "group", "prefixed")
	g.outMode = mode
	g.feat("out-" + map[string]string{"": "default"}[mode] + mode)
	begin, end := "::group::{{.TASK}} {{.ALIAS}}", "::endgroup::"
	errOnly := mode == "group" && g.p(0.3)
	if errOnly {
		g.feat("out-group-error-only")
	}
	if mode == "" {
		return
	}
	if r.Intn(3) == 0 { // given as an option (flag) instead of in the Taskfile
		g.feat("out-by-flag")
		g.opts.Output = mode
		if mode == "group" {
			if g.p(0.7) {
				g.opts.GroupBegin, g.opts.GroupEnd = begin, end
			}
			g.opts.GroupErrorOnly = errOnly
		}
		return
	}
	switch mode {
	case "group":
		if g.p(0.8) {
			h := "output:\n  group:\n    begin: " + yq(begin) + "\n    end: " + yq(end)
			if errOnly {
				h += "\n    error_only: true"
			}
			g.root.head = append(g.root.head, h)
		} else {
			g.root.head = append(g.root.head, "output: group")
		}
	default:
		g.root.head = append(g.root.head, "output: "+mode)
	}
}

func (g *raceGen) chooseOptions() {
	o := &g.opts
	if g.p(0.08) {
		o.Dry = true
		g.feat("opt-dry")
	}
	switch g.r.Intn(10) {
	case 0:
		o.Force = true
		g.feat("opt-force")
	case 1:
		o.ForceAll = true
		g.feat("opt-force-all")
	}
	if g.p(0.12) {
		o.Silent = true
		g.feat("opt-silent")
	}
	if g.p(0.35) {
		o.Verbose = true
		g.feat("opt-verbose")
	}
	o.SplitStderr = g.p(0.3)
}

// ---------------------------------------------------------------- arrangement

func (g *raceGen) arrange() (string, []raceCall) {
	r := g.r
	es := append([]raceEntry(nil), g.entries...)
	r.Shuffle(len(es), func(i, j int) { es[i], es[j] = es[j], es[i] })
	if len(es) > 14 {
		es = es[:14]
	}
	// tolerant wrappers: an entry that may fail is called from a parent that ignores exit-status failures
	if g.p(0.5) {
		g.feat("tolerant-parents")
		for i, e := range es {
			if e.MayFail && g.p(0.7) {
				w := fmt.Sprintf("tol-%d", i)
				g.root.task(w, "ignore_error: true", "cmds: ["+g.callItem(e, ", ignore_error: true")+"]")
				es[i] = raceEntry{Task: w, MayFail: true}
			}
		}
	}
	top := func(e raceEntry, i int) raceCall {
		if e.NoTop {
			w := fmt.Sprintf("top-w%d", i)
			g.root.task(w, "deps: ["+g.callItem(e, "")+"]")
			return raceCall{Task: w}
		}
		return raceCall{Task: e.Task, Vars: e.Vars}
	}
	items := func(xs []raceEntry) []string {
		out := make([]string, len(xs))
		for i, e := range xs {
			out[i] = g.callItem(e, "")
		}
		return out
	}
	rot := func(k int) []raceEntry {
		out := make([]raceEntry, 0, len(es))
		for i := range es {
			out = append(out, es[(i+k*3)%len(es)])
		}
		return out
	}
	arr := g.pick("deps", "parallel", "parents-deps", "parents-calls", "fordeps", "mixed")
	var calls []raceCall
	switch arr {
	case "deps":
		g.root.task("top", "deps: "+flowList(items(es)), "cmds: ['echo top {{.TOPV}}']")
		calls = []raceCall{{Task: "top", Vars: map[string]string{"TOPV": "tv"}}}
	case "parallel":
		g.opts.Parallel = true
		for i, e := range es {
			calls = append(calls, top(e, i))
		}
	case "parents-deps":
		k := 2 + r.Intn(2)
		var ps []string
		for i := 0; i < k; i++ {
			p := fmt.Sprintf("par-%d", i)
			g.root.task(p, "deps: "+flowList(items(rot(i))), "cmds: ['echo "+p+"']")
			ps = append(ps, p)
		}
		if g.p(0.5) {
			g.opts.Parallel = true
			for _, p := range ps {
				calls = append(calls, raceCall{Task: p})
			}
		} else {
			g.root.task("top", "deps: "+flowList(ps))
			calls = []raceCall{{Task: "top"}}
		}
	case "parents-calls":
		k := 2 + r.Intn(3)
		var ps []string
		for i := 0; i < k; i++ {
			p := fmt.Sprintf("par-%d", i)
			ie := ""
			if g.p(0.6) {
				ie = "ignore_error: true"
			}
			g.root.task(p, ie, "cmds: "+flowList(items(rot(i))))
			ps = append(ps, p)
		}
		if g.p(0.5) {
			g.opts.Parallel = true
			for _, p := range ps {
				calls = append(calls, raceCall{Task: p})
			}
		} else {
			g.root.task("top", "deps: "+flowList(ps))
			calls = []raceCall{{Task: "top"}}
		}
	case "fordeps":
		seen := map[string]bool{}
		var names []string
		for _, e := range es {
			if !seen[e.Task] {
				seen[e.Task] = true
				names = append(names, yq(e.Task))
			}
		}
		g.root.task("top", "deps:", "  - for:", "      matrix:", "        T: "+flowList(names), "        V: ['1', '2']", "    task: '{{.ITEM.T}}'",
			"    vars: {V: '{{.ITEM.V}}', W: a}", "cmds: ['echo top']")
		calls = []raceCall{{Task: "top"}}
	default: // mixed: deps + sequential calls in one parent, a second parallel target doing the same in another order
		h := len(es) / 2
		g.root.task("top", "deps: "+flowList(items(es[:h])), "ignore_error: true", "cmds: "+flowList(items(es[h:])))
		g.root.task("top2", "deps: "+flowList(items(es[h:])), "ignore_error: true", "cmds: "+flowList(items(es[:h])))
		g.opts.Parallel = true
		calls = []raceCall{{Task: "top", Vars: map[string]string{"TOPV": "1"}}, {Task: "top2"}}
	}
	if g.p(0.03) {
		// an unknown name on the command line: Run refuses it before anything starts, after listing
		// (= compiling concurrently) every task that has a description
		g.feat("top-level-unknown")
		calls = append(calls, raceCall{Task: "zz-no-such-target"})
	}
	return arr, calls
}

// genRaceWorkload composes one workload from a private PRNG.
func genRaceWorkload(r *rand.Rand, id string) raceWorkload {
	g := &raceGen{r: r, files: map[string]string{}, root: &raceTF{}}
	g.noGlobalSh = g.p(0.45)
	g.emptyVars = g.p(0.4)
	// 2-5 features, `unknown` (which needs the names of the others) last
	nf := 2 + r.Intn(4)
	last := len(raceFeatures) - 1
	perm := r.Perm(last)
	chosen := map[int]bool{}
	for _, i := range perm[:nf] {
		chosen[i] = true
	}
	chosen[last] = g.p(0.33)
	for i, f := range raceFeatures {
		if chosen[i] {
			f.fn(g)
		}
	}
	g.chooseOutput()
	g.chooseOptions()
	arr, calls := g.arrange()
	if g.usedEmptyVars {
		g.feat("empty-call-vars-arrangement")
	}
	g.files["Taskfile.yml"] = g.root.render()
	procs := []int{1, 2, 4, 16}[r.Intn(4)]
	capN := []int{0, 0, 1, 2, len(g.entries) + 2}[r.Intn(5)]
	g.opts.Concurrency = capN
	jit := []int64{0, 50, 300, 2000}[r.Intn(4)]
	sort.Strings(g.feats)
	return raceWorkload{ID: id, Files: g.files, Calls: calls, Opts: g.opts, Procs: procs, JitterSeed: r.Int63n(1 << 40), JitterUs: jit,
		Features: g.feats, Arrangement: arr}
}
