package main

import (
	"encoding/json"
	"fmt"
	"os"
	"strings"
)

// The six fixed shapes of the first version of this domain (matrix refs from parallel deps,
// dynamic variables, dedup, for-loops over deps, includes, a failing dep) x three output
// modes.  They live on as corpus/C18/race.jsonl, which `harness race-corpus` regenerates.

func raceLegacyTaskfile(shape, output string, n int) (root, sub string) {
	var b strings.Builder
	b.WriteString("version: '3'\n")
	switch output {
	case "prefixed":
		b.WriteString("output: prefixed\n")
	case "group":
		b.WriteString("output:\n  group:\n    begin: '::b {{.TASK}}'\n    end: '::e'\n")
	}
	b.WriteString("vars:\n  LIST: {map: {a: 1}}\n  ITEMS: [x, y, z]\n  DYN: {sh: 'echo dyn'}\nincludes:\n  inc:\n    taskfile: ./sub/Taskfile.yml\n    dir: ./sub\n    vars: {IV: iv}\ntasks:\n")
	deps := func(name string, n int) string {
		var s []string
		for i := 0; i < n; i++ {
			s = append(s, fmt.Sprintf("{task: %s, vars: {I: '%d'}}", name, i%2))
		}
		return "[" + strings.Join(s, ", ") + "]"
	}
	fmt.Fprintf(&b, "  top:\n    deps: %s\n    cmds: ['echo top']\n", deps(shape, n))
	b.WriteString("  matrix:\n    cmds:\n      - for:\n          matrix:\n            A: {ref: .ITEMS}\n            B: [1, 2]\n        cmd: 'echo {{.ITEM.A}}{{.ITEM.B}} {{.I}}'\n")
	b.WriteString("  dyn:\n    vars:\n      D2: {sh: 'echo d2-{{.I}}'}\n      D3: {sh: 'echo same'}\n    cmds: ['echo {{.DYN}} {{.D2}} {{.D3}}', 'printf \"a\\nb\\n\"; printf c']\n")
	b.WriteString("  shared:\n    run: once\n    cmds: ['echo shared']\n")
	b.WriteString("  wc:\n    run: when_changed\n    cmds: ['echo wc {{.I}}']\n")
	b.WriteString("  dedup:\n    deps: [shared, {task: wc, vars: {I: '{{.I}}'}}]\n    cmds: ['echo dedup {{.I}}', {defer: 'echo deferred {{.I}}'}, {task: shared}]\n")
	b.WriteString("  fordeps:\n    deps:\n      - for: {var: ITEMS}\n        task: leaf\n        vars: {X: '{{.ITEM}}'}\n    cmds: ['echo fordeps']\n")
	b.WriteString("  leaf:\n    cmds: ['echo leaf {{.X}}']\n")
	b.WriteString("  incl:\n    deps: [{task: 'inc:it', vars: {I: '{{.I}}'}}, 'inc:it2']\n    cmds: ['echo incl']\n")
	b.WriteString("  failing:\n    deps: [leaf, bad, dyn]\n    ignore_error: true\n    cmds: ['echo after']\n  bad:\n    cmds: ['exit 3']\n")
	sub = "version: '3'\nvars:\n  SV: {sh: 'echo sv'}\ntasks:\n  it:\n    vars: {TV: {sh: 'echo tv'}}\n    cmds: ['echo it {{.SV}} {{.IV}} {{.TV}} {{.I}}']\n  it2:\n    cmds: ['echo it2 {{.SV}}']\n"
	return b.String(), sub
}

func raceLegacyWorkloads() []raceWorkload {
	var out []raceWorkload
	for i, shape := range []string{"matrix", "dyn", "dedup", "fordeps", "incl", "failing"} {
		for j, o := range []string{"", "prefixed", "group"} {
			root, sub := raceLegacyTaskfile(shape, o, 3+(i+j)%4)
			wl := raceWorkload{ID: "legacy-" + shape + "-" + map[string]string{"": "interleaved"}[o] + o, Via: "inproc",
				Files:       map[string]string{"Taskfile.yml": root, "sub/Taskfile.yml": sub},
				Calls:       []raceCall{{Task: "top"}},
				Opts:        raceOpts{Concurrency: []int{0, 2, 0}[(i+j)%3], Parallel: (i+2*j)%3 == 0},
				Procs:       []int{4, 16, 2, 1}[(i+j)%4],
				JitterSeed:  int64(100*i + j),
				JitterUs:    []int64{0, 50, 300}[j],
				Features:    []string{"legacy-" + shape},
				Arrangement: "deps",
			}
			if wl.Opts.Parallel {
				wl.Calls = append(wl.Calls, raceCall{Task: shape}, raceCall{Task: "top"})
				wl.Arrangement = "parallel"
			}
			out = append(out, wl)
		}
	}
	return out
}

func raceCorpusMain() {
	for _, wl := range raceLegacyWorkloads() {
		b, _ := json.Marshal(wl)
		fmt.Fprintln(os.Stdout, string(b))
	}
}
