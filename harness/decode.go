package main

import (
	"bufio"
	"bytes"
	"context"
	"encoding/json"
	"fmt"
	"io"
	"os/exec"
	"os"
	"path/filepath"
	"sort"
	"strings"
	"sync"
	"syscall"
	"time"

	task "github.com/go-task/task/v3"
	"github.com/go-task/task/v3/args"
	"github.com/go-task/task/v3/errors"
)

func init() {
	domains["decode"] = domain{runDecode,
		"(a) node-shape grammar: every YAML node shape (scalars of every tag, null, empty map/seq, nested maps/seqs, anchors/aliases, merge keys, " +
			"complex keys, bad templates) at every position of the Taskfile schema (top level, includes, vars, tasks, every task / cmd / dep / for / " +
			"requires / precondition / platform / output field); (b) real Taskfiles from /repo/testdata mutated: line terminators replaced by CR, " +
			"CRLF, NEL, LS, PS, random byte flips, truncation, duplicated lines; (c) task names and requests with regexp metacharacters. Each document " +
			"goes through Setup, ListTasks, ListTaskNames, FastCompiledTask of every task, GetTask of odd names, and then (documents of the grammar, not the mutated real ones) Run --dry, Run --dry --force --yes, " +
			"Run --summary and Status of every task, all under recover() and a time bound. " +
			"non-trivial = any document other than the unmodified corpus file; distinct by document bytes"}
}

type decodeCase struct {
	Kind string `json:"kind"`
	Doc  string `json:"doc"`  // hex of the root Taskfile bytes
	Inc  string `json:"inc"`  // hex of ./inc.yml ("" = absent)
	Req  string `json:"req"`  // extra requested task name
	Note string `json:"note"` // how it was built
	// in-process run stage with command-line variable assignments (`task t A=… B=…`)
	Assign []string `json:"assign,omitempty"`
	// Stage "cli": the real binary is run with Args in a directory holding the documents (+ .taskrc.yml = RC, extra Files,
	// extra environment Env); Stage "watch": `task -v --watch Args…` for a few seconds, Touch is appended to meanwhile
	Stage string            `json:"stage,omitempty"`
	Args  []string          `json:"args,omitempty"`
	Env   []string          `json:"env,omitempty"`
	RC    string            `json:"rc,omitempty"` // hex of .taskrc.yml ("" = absent)
	Files map[string]string `json:"files,omitempty"`
	Touch string            `json:"touch,omitempty"`
	// watch stage: the requested task has sources in an existing directory, so the watcher must get to watch it
	ExpectWatch bool `json:"expect_watch,omitempty"`
}

var decodeNo int

func decClassifyErr(err error) string {
	if err == nil {
		return "ok"
	}
	var te errors.TaskError
	if errors.As(err, &te) {
		return fmt.Sprintf("err %d", te.Code())
	}
	return "err 1"
}

func evalDecodeInProc(d decodeCase) string {
	decodeNo++
	base := os.Getenv("VERIF_SCRATCH")
	if base == "" {
		base = os.TempDir()
	}
	dir := filepath.Join(base, fmt.Sprintf("dec%d-%d", os.Getpid(), decodeNo))
	os.MkdirAll(dir, 0o755)
	defer os.RemoveAll(dir)
	doc, _ := unhex(d.Doc)
	os.WriteFile(filepath.Join(dir, "Taskfile.yml"), doc, 0o644)
	if d.Inc != "" {
		inc, _ := unhex(d.Inc)
		os.WriteFile(filepath.Join(dir, "inc.yml"), inc, 0o644)
		// files that exist but cannot be loaded, with names that sort BEFORE Taskfile.yml (the merge walks the
		// files in sorted order: a vertex left behind by a failed load must not be taken for the root)
		os.WriteFile(filepath.Join(dir, "Abad.yml"), []byte("version: '3'\ntasks: [\n"), 0o644)
		os.WriteFile(filepath.Join(dir, "Anover.yml"), []byte("tasks: {it: {cmds: [echo]}}\n"), 0o644)
		os.WriteFile(filepath.Join(dir, "Acyc.yml"), []byte("version: '3'\nincludes: {back: ./Taskfile.yml}\ntasks: {it: {cmds: [echo]}}\n"), 0o644)
		os.WriteFile(filepath.Join(dir, "Amiss.yml"), []byte("version: '3'\nincludes: {gone: ./nowhere.yml}\ntasks: {it: {cmds: [echo]}}\n"), 0o644)
	}
	res := make(chan string, 1)
	go func() {
		defer func() {
			if r := recover(); r != nil {
				res <- "panic " + hx(fmt.Sprint(r))
			}
		}()
		e := task.NewExecutor(task.WithDir(dir), task.WithStdout(io.Discard), task.WithStderr(io.Discard), task.WithSilent(true),
			task.WithTimeout(500*time.Millisecond), task.WithOffline(true),
			task.WithTempDir(task.TempDir{Remote: filepath.Join(dir, ".task"), Fingerprint: filepath.Join(dir, ".task")}))
		if err := e.Setup(); err != nil {
			_ = err.Error() // rendering the error (snippet!) is part of the path
			res <- decClassifyErr(err)
			return
		}
		out := "ok"
		if _, err := e.ListTasks(task.ListOptions{ListAllTasks: true}); err != nil {
			_ = err.Error()
			out = decClassifyErr(err)
		}
		e.ListTaskNames(true)
		// `--list-all --json` (ToEditorOutput: locations, aliases, and — unless --no-status — the up-to-date check of every task)
		for _, lo := range []task.ListOptions{{ListAllTasks: true, FormatTaskListAsJSON: true, NoStatus: true}, {ListAllTasks: true, FormatTaskListAsJSON: true}} {
			if _, err := e.ListTasks(lo); err != nil {
				_ = err.Error()
			}
		}
		var names []string
		for k := range e.Taskfile.Tasks.Keys(nil) {
			names = append(names, k)
		}
		sort.Strings(names)
		for _, n := range names {
			if _, err := e.FastCompiledTask(&task.Call{Task: n}); err != nil {
				_ = err.Error()
			}
		}
		for _, r := range []string{d.Req, "a(", "x[", "*", "", ":", "a:b:c", "\\", "t"} {
			if _, err := e.GetTask(&task.Call{Task: r}); err != nil {
				_ = err.Error()
			}
		}
		// run stages: the guards of RunTask / runCommand (platforms, requires, preconditions, prompts, the
		// command loop with its per-command platforms, defers, for-loops) only see the decoded values when
		// a task is RUN.  Dry mode keeps commands from executing (`sh:` variables, preconditions and status
		// commands do run; the shape grammar only writes harmless ones there, so documents mutated from real
		// Taskfiles are left out); --summary and --status are further readers of the same values.
		if d.Kind != "mutated" {
			mk := func(extra ...task.ExecutorOption) *task.Executor {
				opts := append([]task.ExecutorOption{task.WithDir(dir), task.WithStdout(io.Discard), task.WithStderr(io.Discard),
					task.WithStdin(strings.NewReader("")), task.WithSilent(true), task.WithTimeout(500 * time.Millisecond), task.WithOffline(true),
					task.WithTempDir(task.TempDir{Remote: filepath.Join(dir, ".task"), Fingerprint: filepath.Join(dir, ".task")})}, extra...)
				x := task.NewExecutor(opts...)
				if x.Setup() != nil {
					return nil
				}
				return x
			}
			reqs := append([]string{}, names...)
			if !containsString(reqs, d.Req) {
				reqs = append(reqs, d.Req)
			}
			stages := []string{"dry", "dry-force", "summary", "status", "vars"}
			if !strings.Contains(string(doc), "watch") && !strings.Contains(string(doc), "prompt") {
				// the grammar's commands are harmless (echo, names of programs that do not exist, `exit`): run them for real
				stages = append(stages, "run")
			}
			for _, stage := range stages {
				var x *task.Executor
				switch stage {
				case "run":
					x = mk()
				case "vars":
					x = mk(task.WithDry(true))
				case "dry":
					x = mk(task.WithDry(true))
				case "dry-force":
					x = mk(task.WithDry(true), task.WithForceAll(true), task.WithAssumeYes(true))
				case "summary":
					x = mk(task.WithSummary(true))
				case "status":
					x = mk(task.WithDry(true))
				}
				if x == nil {
					break
				}
				for _, n := range reqs {
					ctx, cancel := context.WithTimeout(context.Background(), 800*time.Millisecond)
					var err error
					switch stage {
					case "status":
						err = x.Status(ctx, &task.Call{Task: n})
					case "vars":
						// what cmd/task does with `task NAME A=… B=…`
						as := d.Assign
						if len(as) == 0 {
							as = []string{"A={{.B}}", "B={{", "=x", "C=", "D=a=b", "CLI_ARGS=z"}
						}
						calls, globals := args.Parse(append([]string{n}, as...)...)
						x.Taskfile.Vars.Merge(globals, nil)
						err = x.Run(ctx, calls...)
					default:
						err = x.Run(ctx, &task.Call{Task: n})
					}
					cancel()
					if err != nil {
						_ = err.Error()
					}
				}
			}
		}
		res <- out
	}()
	var cls string
	select {
	case cls = <-res:
	case <-time.After(decodeBound):
		cls = "timeout"
	}
	return cls
}

// bound of one document (all stages); a document with many tasks runs each of them four times
const decodeBound = 12 * time.Second

// A panic in a goroutine Task itself starts (errgroup in GetTaskList, reader goroutines) cannot be
// recovered here: it kills the process.  So documents are evaluated in a worker process (this
// binary started as `harness decode-worker`), one JSON case per line in, one class per line out;
// when the worker dies on a case, that case's outcome is `panic` with the tail of its stderr.
type decWorker struct {
	cmd    *exec.Cmd
	in     io.WriteCloser
	out    *bufio.Reader
	stderr *bytes.Buffer
}

var theWorker *decWorker

func startWorker() *decWorker {
	self, _ := os.Executable()
	// address-space cap: an input that makes the code under test allocate without bound kills the worker
	// (reported as a crash) instead of the machine
	cmd := exec.Command("sh", "-c", `ulimit -v 6291456 2>/dev/null; exec "$0" decode-worker`, self)
	cmd.Env = os.Environ()
	in, _ := cmd.StdinPipe()
	outp, _ := cmd.StdoutPipe()
	var eb bytes.Buffer
	cmd.Stderr = &eb
	if err := cmd.Start(); err != nil {
		panic(err)
	}
	return &decWorker{cmd, in, bufio.NewReaderSize(outp, 1<<20), &eb}
}

// ---- the real binary ----

type limitedBuf struct {
	mu sync.Mutex
	b  bytes.Buffer
}

func (l *limitedBuf) Write(p []byte) (int, error) {
	l.mu.Lock()
	defer l.mu.Unlock()
	if l.b.Len() < 1<<20 {
		l.b.Write(p)
	}
	return len(p), nil
}

func (l *limitedBuf) String() string {
	l.mu.Lock()
	defer l.mu.Unlock()
	return l.b.String()
}

var cliDecNo int
var cliDecMu sync.Mutex

func evalDecodeCLI(d decodeCase) (string, string) {
	bin := os.Getenv("VERIF_TASK_BIN")
	base := os.Getenv("VERIF_SCRATCH")
	if bin == "" || base == "" {
		panic("decode: VERIF_TASK_BIN and VERIF_SCRATCH must be set for the cli / watch stages")
	}
	cliDecMu.Lock()
	cliDecNo++
	dir := filepath.Join(base, fmt.Sprintf("deccli%d-%d", os.Getpid(), cliDecNo))
	cliDecMu.Unlock()
	os.MkdirAll(filepath.Join(dir, "home"), 0o755)
	defer os.RemoveAll(dir)
	if d.Doc != "" {
		doc, _ := unhex(d.Doc)
		os.WriteFile(filepath.Join(dir, "Taskfile.yml"), doc, 0o644)
	}
	if d.Inc != "" {
		inc, _ := unhex(d.Inc)
		os.WriteFile(filepath.Join(dir, "inc.yml"), inc, 0o644)
	}
	if d.RC != "" {
		rc, _ := unhex(d.RC)
		os.WriteFile(filepath.Join(dir, ".taskrc.yml"), rc, 0o644)
	}
	for n, c := range d.Files {
		os.MkdirAll(filepath.Dir(filepath.Join(dir, n)), 0o755)
		os.WriteFile(filepath.Join(dir, n), []byte(c), 0o644)
	}
	argv := d.Args
	limit := 15 * time.Second
	if d.Stage == "watch" {
		argv = append([]string{"-v", "--watch"}, d.Args...)
		limit = 4500 * time.Millisecond
	}
	ctx, cancel := context.WithTimeout(context.Background(), limit)
	defer cancel()
	// address-space cap, as for the worker
	cmd := exec.CommandContext(ctx, "sh", append([]string{"-c", `ulimit -v 6291456 2>/dev/null; exec "$0" "$@"`, bin}, argv...)...)
	cmd.Dir = dir
	cmd.Env = append([]string{"PATH=" + os.Getenv("PATH"), "HOME=" + filepath.Join(dir, "home"), "NO_COLOR=1"}, d.Env...)
	var so, se limitedBuf
	cmd.Stdout, cmd.Stderr = &so, &se
	cmd.SysProcAttr = &syscall.SysProcAttr{Setpgid: true}
	cmd.Cancel = func() error { return syscall.Kill(-cmd.Process.Pid, syscall.SIGKILL) }
	cmd.WaitDelay = 2 * time.Second
	if err := cmd.Start(); err != nil {
		return "decode.outcome err 1", "accept"
	}
	watched := false
	if d.Stage == "watch" {
		// wait for the watcher to register a directory, then touch the file, then let it react
		deadline := time.Now().Add(3 * time.Second)
		for time.Now().Before(deadline) {
			if strings.Contains(so.String()+se.String(), "watching new dir") {
				watched = true
				break
			}
			if strings.Contains(se.String(), "panic:") {
				break
			}
			time.Sleep(50 * time.Millisecond)
		}
		if d.Touch != "" {
			time.Sleep(200 * time.Millisecond)
			if f, err := os.OpenFile(filepath.Join(dir, d.Touch), os.O_APPEND|os.O_CREATE|os.O_WRONLY, 0o644); err == nil {
				f.WriteString("x\n")
				f.Close()
			}
			time.Sleep(900 * time.Millisecond)
		}
		if !strings.Contains(se.String(), "panic:") {
			syscall.Kill(-cmd.Process.Pid, syscall.SIGKILL)
		}
	}
	err := cmd.Wait()
	errText := se.String()
	if strings.Contains(errText, "panic:") || strings.Contains(errText, "fatal error:") || strings.Contains(errText, "[signal SIG") {
		msg := errText
		if i := strings.Index(msg, "goroutine "); i > 0 {
			msg = msg[:min(len(msg), i+700)]
		}
		return "decode.outcome panic " + hx(msg[:min(len(msg), 1500)]), "accept"
	}
	if d.Stage == "watch" {
		if d.ExpectWatch && !watched {
			return "decode.outcome timeout", "accept" // the watcher never got to watch the directory of the sources
		}
		return "decode.outcome ok", "accept"
	}
	if ctx.Err() != nil {
		return "decode.outcome timeout", "accept"
	}
	if err == nil {
		return "decode.outcome ok", "accept"
	}
	if ee, ok := err.(*exec.ExitError); ok && ee.ExitCode() >= 0 {
		return fmt.Sprintf("decode.outcome err %d", ee.ExitCode()), "accept"
	}
	return "decode.outcome panic " + hx("killed: "+err.Error()+" "+errText[:min(len(errText), 600)]), "accept"
}

func evalDecode(d decodeCase) (string, string) {
	if d.Stage == "cli" || d.Stage == "watch" {
		return evalDecodeCLI(d)
	}
	if theWorker == nil {
		theWorker = startWorker()
	}
	b, _ := json.Marshal(d)
	fmt.Fprintf(theWorker.in, "%s\n", b)
	line, err := theWorker.out.ReadString('\n')
	if err != nil {
		theWorker.cmd.Wait()
		msg := theWorker.stderr.String()
		if i := strings.Index(msg, "goroutine "); i > 0 {
			// keep the panic message and the first frames
			msg = msg[:min(len(msg), i+700)]
		}
		theWorker = nil
		return "decode.outcome panic " + hx(msg), "accept"
	}
	return "decode.outcome " + strings.TrimSpace(line), "accept"
}

func decodeWorkerMain() {
	sc := bufio.NewScanner(os.Stdin)
	sc.Buffer(make([]byte, 1<<20), 1<<24)
	w := bufio.NewWriter(os.Stdout)
	for sc.Scan() {
		var d decodeCase
		if err := json.Unmarshal(sc.Bytes(), &d); err != nil {
			fmt.Fprintln(w, "err 1")
		} else {
			fmt.Fprintln(w, evalDecodeInProc(d))
		}
		w.Flush()
	}
}

func containsString(xs []string, s string) bool {
	for _, x := range xs {
		if x == s {
			return true
		}
	}
	return false
}

func unhex(s string) ([]byte, error) {
	if s == "-" || s == "" {
		return nil, nil
	}
	out := make([]byte, len(s)/2)
	_, err := fmt.Sscanf(s, "%x", &out)
	return out, err
}

var decShapes = []string{
	"''", "x", "1", "-3", "1.5", "true", "null", "~", "", "{}", "[]", "{a: b}", "{sh: echo hi}", "{sh: }", "{sh: {a: b}}", "{ref: .X}", "{ref: }",
	"{map: {a: 1}}", "{map: }", "[a, b]", "[1, 2]", "[{a: b}]", "[[a]]", "[null]", "[a, ~, b]", "[[~]]", "{map: {names: [a, null]}}", "{a: [~]}", "[{}]", "{a: [1, 2]}", "{a: {b: {c: d}}}", "&anc x", "*undefined",
	"{<<: {a: b}, c: d}", "{<<: [a]}", "!!binary aGk=", "!!str 5", "!!int x", "\"a\\nb\"", "\"{{.X}}\"", "\"{{\"", "\"{{.X | nosuchfunc}}\"", "\"{{template \\\"x\\\"}}\"",
	"{? [a, b] : c}", ".inf", ".nan", "2024-01-01", "0x10", "0o7", "|\n      multi\n      line", ">-\n      folded", "{task: x}", "{cmd: echo, task: x}",
	"{for: {var: X}, cmd: echo}", "{for: [a, b], task: '{{.ITEM}}'}", "{for: {matrix: {}}, cmd: x}", "{for: {matrix: {A: 1}}, cmd: x}", "{for: {matrix: {A: {ref: .N}}}, cmd: x}",
	"{for: sources, cmd: x}", "{for: {var: X, matrix: {}}, cmd: x}", "{for: {var: X, matrix: }, cmd: x}", "{for: {var: X, matrix: {A: }}, cmd: x}", "{for: {var: X, split: ''}, cmd: x}", "{defer: }", "{defer: {task: }}", "{defer: [a]}", "{name: A, enum: []}", "{name: , enum: [a]}",
	"{sh: 'false', msg: 5}", "windows/amd64", "/", "linux/", "a/b/c", "{os: x}", "{taskfile: ./inc.yml}", "{taskfile: }", "{taskfile: ./inc.yml, vars: {A: {}}}",
	"{taskfile: ./inc.yml, aliases: x}", "{taskfile: ./inc.yml, excludes: [default]}", "{taskfile: ./inc.yml, excludes: [it, default], aliases: [y]}",
	"{taskfile: ./inc.yml, flatten: true, excludes: [default]}", "{taskfile: ./inc.yml, internal: true, dir: ./nowhere}", "[default]", "[it]", "{taskfile: ./inc.yml, excludes: {a: b}}", "{taskfile: ./inc.yml, flatten: yes, optional: 3}", "{taskfile: ./missing.yml, optional: true}",
	"{taskfile: ./Abad.yml, optional: true}", "{taskfile: ./Anover.yml, optional: true}", "{taskfile: ./Acyc.yml, optional: true}", "{taskfile: ./Amiss.yml, optional: true}",
	"{taskfile: ./Abad.yml}", "./Amiss.yml", "{taskfile: ./Acyc.yml, flatten: true, optional: true}",
	"https://example.invalid/r.git", "https://example.invalid/r.git//Taskfile.yml?ref=main", "git@example.invalid:r.git", "http://127.0.0.1:9/Taskfile.yml", "file:///", "://", "{group: {begin: x}}", "{group: }", "prefixed", "nosuch",
}

var decPositions = []string{
	"version: %s\ntasks: {t: {cmds: [echo]}}\n",
	"version: '3'\nvars: %s\ntasks: {t: {cmds: [echo]}}\n",
	"version: '3'\nvars:\n  A: %s\ntasks: {t: {cmds: ['echo {{.A}}']}}\n",
	"version: '3'\nenv: %s\ntasks: {t: {cmds: [echo]}}\n",
	"version: '3'\nenv:\n  A: %s\ntasks: {t: {cmds: [echo]}}\n",
	"version: '3'\nincludes: %s\ntasks: {t: {cmds: [echo]}}\n",
	"version: '3'\nincludes:\n  x: %s\ntasks: {t: {cmds: [echo]}}\n",
	"version: '3'\nincludes:\n  x:\n    taskfile: ./inc.yml\n    vars: %s\ntasks: {t: {cmds: [echo]}}\n",
	"version: '3'\nincludes:\n  x:\n    taskfile: ./inc.yml\n    dir: %s\n",
	"version: '3'\nincludes:\n  x:\n    taskfile: ./inc.yml\n    aliases: %s\n",
	"version: '3'\nincludes:\n  x:\n    taskfile: ./inc.yml\n    excludes: %s\n",
	"version: '3'\noutput: %s\ntasks: {t: {cmds: [echo]}}\n",
	"version: '3'\nmethod: %s\ntasks: {t: {cmds: [echo]}}\n",
	"version: '3'\nrun: %s\ntasks: {t: {cmds: [echo]}}\n",
	"version: '3'\nset: %s\ntasks: {t: {cmds: [echo]}}\n",
	"version: '3'\ndotenv: %s\ntasks: {t: {cmds: [echo]}}\n",
	"version: '3'\nsilent: %s\ninterval: %s\ntasks: {t: {cmds: [echo]}}\n",
	"version: '3'\ntasks: %s\n",
	"version: '3'\ntasks:\n  t: %s\n",
	"version: '3'\ntasks:\n  %s: {cmds: [echo]}\n",
	"version: '3'\ntasks:\n  t:\n    cmds: %s\n",
	"version: '3'\ntasks:\n  t:\n    cmds:\n      - %s\n",
	"version: '3'\ntasks:\n  t:\n    cmd: %s\n",
	"version: '3'\ntasks:\n  t:\n    deps: %s\n",
	"version: '3'\ntasks:\n  t:\n    deps:\n      - %s\n",
	"version: '3'\ntasks:\n  t:\n    cmds:\n      - cmd: echo\n        vars: %s\n",
	"version: '3'\ntasks:\n  t:\n    cmds:\n      - task: u\n        vars: %s\n  u: {cmds: [echo]}\n",
	"version: '3'\ntasks:\n  t:\n    cmds:\n      - cmd: echo\n        for: %s\n",
	"version: '3'\ntasks:\n  t:\n    cmds:\n      - cmd: echo\n        for:\n          matrix: %s\n",
	"version: '3'\ntasks:\n  t:\n    cmds:\n      - cmd: echo\n        platforms: %s\n",
	"version: '3'\ntasks:\n  t:\n    cmds:\n      - cmd: echo\n        set: %s\n        shopt: %s\n",
	"version: '3'\ntasks:\n  t:\n    label: %s\n    desc: %s\n    summary: %s\n",
	"version: '3'\ntasks:\n  t:\n    prompt: %s\n",
	"version: '3'\ntasks:\n  t:\n    aliases: %s\n",
	"version: '3'\ntasks:\n  t:\n    sources: %s\n    generates: %s\n",
	"version: '3'\ntasks:\n  t:\n    sources:\n      - %s\n",
	"version: '3'\ntasks:\n  t:\n    status: %s\n",
	"version: '3'\ntasks:\n  t:\n    preconditions: %s\n",
	"version: '3'\ntasks:\n  t:\n    preconditions:\n      - %s\n",
	"version: '3'\ntasks:\n  t:\n    dir: %s\n",
	"version: '3'\ntasks:\n  t:\n    vars: %s\n",
	"version: '3'\ntasks:\n  t:\n    vars:\n      A: %s\n    cmds: ['echo {{.A}}']\n",
	"version: '3'\ntasks:\n  t:\n    env: %s\n",
	"version: '3'\ntasks:\n  t:\n    dotenv: %s\n",
	"version: '3'\ntasks:\n  t:\n    silent: %s\n    interactive: %s\n    internal: %s\n    ignore_error: %s\n    watch: %s\n",
	"version: '3'\ntasks:\n  t:\n    method: %s\n    prefix: %s\n    run: %s\n",
	"version: '3'\ntasks:\n  t:\n    platforms: %s\n",
	"version: '3'\ntasks:\n  t:\n    platforms:\n      - %s\n",
	"version: '3'\ntasks:\n  t:\n    requires: %s\n",
	"version: '3'\ntasks:\n  t:\n    requires:\n      vars: %s\n",
	"version: '3'\ntasks:\n  t:\n    requires:\n      vars:\n        - %s\n",
	"version: '3'\ntasks:\n  t:\n    set: %s\n    shopt: %s\n",
	"%s\n",
}

const decInc = "version: '3'\nvars: {IV: 1}\ntasks:\n  it: {cmds: [echo]}\n  default: {cmds: [echo]}\n"

func corpusFiles() []string {
	repo := os.Getenv("VERIF_REPO")
	if repo == "" {
		repo = "/repo"
	}
	var out []string
	filepath.Walk(filepath.Join(repo, "testdata"), func(p string, info os.FileInfo, err error) error {
		if err == nil && !info.IsDir() && (strings.HasSuffix(p, "Taskfile.yml") || strings.HasSuffix(p, "Taskfile.yaml")) && info.Size() < 6000 {
			out = append(out, p)
		}
		return nil
	})
	sort.Strings(out)
	return out
}

func (c *Ctx) mutateDoc(b []byte) ([]byte, string) {
	r := c.Rng
	s := string(b)
	switch r.Intn(9) {
	case 0:
		return []byte(strings.ReplaceAll(s, "\n", "\r")), "lf->cr"
	case 1:
		return []byte(strings.ReplaceAll(s, "\n", "\r\n")), "lf->crlf"
	case 2:
		return []byte(strings.ReplaceAll(s, "\n", "\u0085")), "lf->nel"
	case 3:
		return []byte(strings.ReplaceAll(s, "\n", "\u2028")), "lf->ls"
	case 4:
		// break one line so that a decode error is reported inside a file with other terminators
		t := strings.Replace(s, "cmds:", "cmds: {", 1)
		return []byte(strings.ReplaceAll(t, "\n", []string{"\r", "\u2029", "\r\n"}[r.Intn(3)])), "broken+terminators"
	case 5:
		bb := append([]byte(nil), b...)
		for k := 0; k < 1+r.Intn(4) && len(bb) > 0; k++ {
			bb[r.Intn(len(bb))] = byte(r.Intn(256))
		}
		return bb, "byteflip"
	case 6:
		if len(b) > 2 {
			return b[:r.Intn(len(b))], "truncate"
		}
		return b, "same"
	case 7:
		ls := strings.Split(s, "\n")
		i := r.Intn(len(ls))
		ls = append(ls[:i+1], ls[i:]...)
		return []byte(strings.Join(ls, "\n")), "dupline"
	default:
		i := r.Intn(len(s) + 1)
		ins := []string{"\t", "{", "}", "[", ": ", "- ", "*x", "&x ", "<<: ", "\x00", "\xff", "!!", "? "}[r.Intn(13)]
		return []byte(s[:i] + ins + s[i:]), "insert"
	}
}

func runDecode(c *Ctx) {
	if c.Replay(func(raw []byte) (string, string) {
		var d decodeCase
		mustJSON(raw, &d)
		return evalDecode(d)
	}) {
		return
	}
	spent := map[string]time.Duration{}
	defer func() {
		if os.Getenv("VERIF_DECODE_TIMES") != "" {
			fmt.Fprintln(os.Stderr, "decode: time per kind:", spent)
		}
	}()
	emit := func(d decodeCase) {
		t0 := time.Now()
		cl, il := evalDecode(d)
		spent[d.Kind] += time.Since(t0)
		c.Hit("kind:" + d.Kind)
		c.Hit("outcome:" + strings.SplitN(strings.TrimPrefix(cl, "decode.outcome "), " ", 2)[0])
		if d.Note != "same" {
			c.Distinct(d.Doc + "|" + d.Req)
		}
		c.Emit(cl, il, d)
	}
	// regression corpus: the four crashes of the pinned tree
	emit(decodeCase{Kind: "corpus", Doc: hx("version: '3'\nvars: {A: {}}\ntasks: {t: {cmds: [echo]}}\n"), Note: "empty map variable"})
	emit(decodeCase{Kind: "corpus", Doc: hx("version: '3'\nincludes: {x: https://example.invalid/r.git}\ntasks: {t: {cmds: [echo]}}\n"), Note: "git url without //"})
	emit(decodeCase{Kind: "corpus", Doc: hx("version: '3'\rtasks:\r  t:\r    cmds: {\r"), Note: "decode error in CR file"})
	emit(decodeCase{Kind: "corpus", Doc: hx("version: '3'\ntasks:\n  'a(': {cmds: [echo]}\n  'x*': {cmds: [echo]}\n"), Req: "a(", Note: "regexp metachar name"})
	emit(decodeCase{Kind: "corpus", Doc: hx("version: '3'\ntasks:\n  t:\n    sources:\n      - \n"), Note: "nil glob entry"})
	emit(decodeCase{Kind: "corpus", Doc: hx("version: '3'\ntasks:\n  t:\n    requires: {vars: [A, ~]}\n    cmds: [echo]\n"), Note: "nil requires entry (crashed when the task was run)"})
	emit(decodeCase{Kind: "corpus", Doc: hx("version: '3'\ntasks:\n  t:\n    platforms: [~]\n    cmds: [echo]\n  u:\n    cmds:\n      - cmd: echo\n        platforms: [~]\n"), Note: "nil platform entry at task and command level (crashed when the task was run)"})
	emit(decodeCase{Kind: "corpus", Doc: hx("version: '3'\ntasks:\n  t:\n    vars: {X: {sh: 'test ! -e flag && touch flag && echo {{now.UnixNano}}'}}\n    cmds: [{defer: 'echo d2'}, {defer: 'echo d1'}, 'echo body']\n"), Note: "sh: variable that succeeds when the task is compiled and fails when runDeferred evaluates the variables again (its text changes, so the cache does not hold it): crashed with a nil variable set"})
	emit(decodeCase{Kind: "corpus", Doc: hx("version: '3'\nvars: {X: [a, b]}\ntasks:\n  t:\n    cmds:\n      - for: {var: X, matrix: {}}\n        cmd: echo {{.ITEM}}\n"), Note: "for with a variable AND an empty matrix: the matrix's map stays nil (crashed in deepcopy.OrderedMap)"})
	emit(decodeCase{Kind: "corpus", Doc: hx("version: '3'\nvars:\n  A: 2024-01-01\ntasks: {t: {cmds: ['echo {{.A}}']}}\n"), Note: "timestamp variable"})
	emit(decodeCase{Kind: "corpus", Doc: hx("version: '3'\ntasks: {build: {cmds: [echo]}}\n"), Req: strings.Repeat("a", 2500), Note: "very long unknown task name (did-you-mean lookup is cubic in the length)"})
	emit(decodeCase{Kind: "corpus", Doc: hx("version: '3'\ntasks: {build: {aliases: [b], cmds: [echo]}}\n"), Req: strings.Repeat("build", 400), Note: "very long unknown task name made of a known one"})
	// wildcard task names asked for with a name in which the fixed prefix and suffix overlap
	emit(decodeCase{Kind: "corpus", Doc: hx("version: '3'\ntasks:\n  'deploy-*-prod': {cmds: [echo]}\n  'a*a': {cmds: [echo]}\n"), Req: "deploy-prod", Note: "wildcard prefix/suffix overlap"})
	emit(decodeCase{Kind: "corpus", Doc: hx("version: '3'\ntasks:\n  'deploy-*-prod': {cmds: [echo]}\n  'a*a': {cmds: [echo]}\n"), Req: "a", Note: "wildcard prefix/suffix overlap (single letter)"})
	emit(decodeCase{Kind: "corpus", Doc: hx("version: '3'\ntasks:\n  '*-x-*': {cmds: [echo]}\n  'x*': {cmds: [echo]}\n  '*x': {cmds: [echo]}\n"), Req: "x", Note: "wildcards at both ends"})
	// (a) shapes × positions
	total := len(decShapes) * len(decPositions)
	n := total // the whole product in both tiers (a few seconds): a sampled quick tier kept missing the one pair that mattered
	for k := 0; k < n; k++ {
		var pi, si int
		if n == total {
			pi, si = k/len(decShapes), k%len(decShapes)
		} else {
			pi, si = c.Rng.Intn(len(decPositions)), c.Rng.Intn(len(decShapes))
		}
		pos := decPositions[pi]
		args := make([]any, strings.Count(pos, "%s"))
		for i := range args {
			args[i] = decShapes[si]
			if i > 0 {
				args[i] = decShapes[c.Rng.Intn(len(decShapes))]
			}
		}
		doc := fmt.Sprintf(pos, args...)
		emit(decodeCase{Kind: "shape", Doc: hx(doc), Inc: hx(decInc), Note: fmt.Sprintf("pos %d shape %d", pi, si)})
	}
	// (a') include positions × include-shaped values: always exhaustive (a random draw of the whole
	// product reaches these pairs too rarely in the quick tier)
	if n != total {
		for pi, pos := range decPositions {
			if !strings.Contains(pos, "includes") {
				continue
			}
			for si, sh := range decShapes {
				if !strings.Contains(sh, "taskfile") && !strings.Contains(sh, "default") {
					continue
				}
				args := make([]any, strings.Count(pos, "%s"))
				for i := range args {
					args[i] = sh
				}
				emit(decodeCase{Kind: "shape", Doc: hx(fmt.Sprintf(pos, args...)), Inc: hx(decInc), Note: fmt.Sprintf("pos %d shape %d (include pair)", pi, si)})
			}
		}
	}
	// (a'') the same shapes at every position INSIDE the included file (the root only includes it and calls its task):
	// decoding, merging (namespacing, include vars, excludes) and running see the values through the include path.
	// Quick tier: every fifth pair, rotated by the seed; thorough: all.
	incRoot := "version: '3'\nincludes: {x: ./inc.yml}\ntasks: {r: {cmds: [{task: 'x:t'}]}, default: {deps: ['x:t']}}\n"
	for k := 0; k < total; k++ {
		if !c.Thorough() && (k+int(c.Seed))%5 != 0 {
			continue
		}
		pi, si := k/len(decShapes), k%len(decShapes)
		pos := decPositions[pi]
		args := make([]any, strings.Count(pos, "%s"))
		for i := range args {
			args[i] = decShapes[si]
			if i > 0 {
				args[i] = decShapes[c.Rng.Intn(len(decShapes))]
			}
		}
		c.Hit("shape-inside-include")
		emit(decodeCase{Kind: "incshape", Doc: hx(incRoot), Inc: hx(fmt.Sprintf(pos, args...)), Req: "x:t", Note: fmt.Sprintf("inc pos %d shape %d", pi, si)})
	}
	// (d) very long names, aliases and keys DEFINED in the document (1000 … 10000 characters; a plain YAML key may have
	// at most 1024, longer ones are written as explicit `? key` entries, aliases and values have no limit)
	long := func(ch string, n int) string { return strings.Repeat(ch, n) }
	for _, n := range []int{1000, 1020, 2500, 6000, 10000} {
		key := func(k string) string { // a mapping key of any length
			if len(k) <= 1000 {
				return k
			}
			return "? " + k + "\n  "
		}
		emit(decodeCase{Kind: "long", Doc: hx("version: '3'\ntasks:\n  build: {aliases: [" + long("n", n) + "], cmds: [echo]}\n"), Req: "buidl", Note: fmt.Sprintf("alias of %d characters", n)})
		emit(decodeCase{Kind: "long", Doc: hx("version: '3'\ntasks:\n  " + key(long("t", n)) + ": {cmds: [echo]}\n  build: {cmds: [echo]}\n"), Req: long("t", n-1) + "x", Note: fmt.Sprintf("task name of %d characters, asked for with a name one edit away", n)})
		emit(decodeCase{Kind: "long", Doc: hx("version: '3'\nvars:\n  " + key(long("V", n)) + ": 1\ntasks:\n  build: {vars: {" + long("W", min(n, 1000)) + ": 2}, env: {" + long("E", min(n, 1000)) + ": 3}, cmds: [echo]}\n"), Req: "build", Note: fmt.Sprintf("variable keys of %d characters", n)})
		emit(decodeCase{Kind: "long", Doc: hx("version: '3'\nincludes:\n  " + key(long("i", n)) + ": ./inc.yml\ntasks:\n  build: {cmds: [echo]}\n"), Inc: hx(decInc), Req: long("i", n) + ":it", Note: fmt.Sprintf("include key (namespace) of %d characters", n)})
		emit(decodeCase{Kind: "long", Doc: hx("version: '3'\ntasks:\n  'w-*': {cmds: ['echo {{index .MATCH 0}}']}\n"), Req: "w-" + long("m", n), Assign: []string{"A=" + long("a", n), long("K", n) + "=v"}, Note: fmt.Sprintf("wildcard match and assignments of %d characters", n)})
		c.Hit("long-names")
	}
	// (e) + (f): the real binary.  Evaluated eight at a time (each is a process of its own).
	var cli []decodeCase
	tf := "version: '3'\nvars: {G: g}\ntasks:\n  t: {desc: d, cmds: ['echo {{.A}} {{.G}}']}\n  default: {cmds: [{task: t}]}\n"
	rcs := []string{"", "experiments: {REMOTE_TASKFILES: 1}\n", "experiments: {GENTLE_FORCE: 1, ENV_PRECEDENCE: 1}\n", "experiments: [a]\n", "experiments: {X: y}\n", "experiments: ~\n",
		"version: x\n", "version: [1]\n", "version: 3.0.0\nexperiments: {MAP_VARIABLES: 2}\n", "- a\n", "{\n", "experiments: {GENTLE_FORCE: 99999999999999999999}\n",
		"\xff\xfe", "experiments:\n  ? [a]\n  : 1\n", "experiments: {" + long("K", 5000) + ": 1}\n", "experiments: &a {b: *a}\n", "\r\r\r", "experiments: {REMOTE_TASKFILES: 1.5}\n"}
	argSets := [][]string{{"--list-all"}, {"t"}, {"--list", "--json"}, {"--list-all", "--json", "--no-status"}, {"--summary", "t"}, {"--status", "t"}, {"--dry", "--force", "t"}}
	for i, rc := range rcs {
		cli = append(cli, decodeCase{Kind: "cli", Stage: "cli", Doc: hx(tf), RC: hx(rc), Args: argSets[i%len(argSets)], Note: ".taskrc.yml shape"})
	}
	envs := [][]string{{"TASK_TEMP_DIR=~"}, {"TASK_TEMP_DIR=~nouser/x"}, {"TASK_TEMP_DIR=/dev/null/x"}, {"TASK_TEMP_DIR=rel/dir"}, {"TASK_TEMP_DIR=$(echo)"}, {"TASK_TEMP_DIR=~/\"x"},
		{"TASK_TEMP_DIR={{.X}}"}, {"TASK_REMOTE_DIR=~nouser"}, {"TASK_REMOTE_DIR=/dev/null/y"}, {"TASK_X_REMOTE_TASKFILES=x"}, {"TASK_X_REMOTE_TASKFILES=-1"},
		{"TASK_X_REMOTE_TASKFILES=99999999999999999999"}, {"TASK_X_ENV_PRECEDENCE=1", "TASK_X_GENTLE_FORCE=1"}, {"TASK_X_MAP_VARIABLES=2"}, {"TASK_X_NOSUCH=1"},
		{"TASK_COLOR_RESET=1;2", "FORCE_COLOR=1"}, {"TASK_COLOR_GREEN=a,b,c", "FORCE_COLOR=1"}, {"TASK_COLOR_GREEN=1,2,3", "FORCE_COLOR=1"}, {"TASK_COLOR_RED=999999999999999999999", "FORCE_COLOR=1"},
		{"TASK_COLOR_BLUE=;;", "FORCE_COLOR=1"}, {"TASK_OFFLINE=maybe"}, {"TASK_OFFLINE=1", "TASK_X_REMOTE_TASKFILES=1"}, {"TASK_TEMP_DIR=" + long("d", 5000)}}
	for i, ev := range envs {
		cli = append(cli, decodeCase{Kind: "cli", Stage: "cli", Doc: hx(tf), Env: ev, Args: argSets[(i+1)%len(argSets)], Note: "TASK_* environment value"})
	}
	assigns := [][]string{{"t", "A={{"}, {"t", "A={{.B}}", "B={{.A}}"}, {"t", "=x"}, {"t", "A="}, {"t", "A=a=b=c"}, {"A=1"}, {"t", "A={{.G | nosuchfunc}}"}, {"t", "A=" + long("a", 100000)},
		{"t", long("K", 3000) + "=v"}, {"t", "A=\xff\xfe"}, {"t", "--", "{{", "}}"}, {"t", "CLI_ARGS=1", "TASK=2", "ROOT_DIR=3"}, {"nosuch" + long("x", 3000)}, {"", "A=1"}, {":", "*"}, {"t", "G={{.G}}{{.G}}"},
		{"--output", "group", "--output-group-begin", "{{", "t"}, {"--output", "nosuch", "t"}, {"--output", "prefixed", "--output-group-begin", "x", "t"}, {"--sort", "nosuch", "--list-all"},
		{"--taskfile", "/dev/null", "t"}, {"--dir", "/nonexistent/dir", "t"}, {"--taskfile", ".", "t"}, {"--list", "--list-all"}, {"--json"}, {"--no-status", "--list"}, {"--global", "--dir", "x"}, {"--completion", "nosuch"}, {"--experiments"}, {"--concurrency", "-1", "t"}}
	for _, a := range assigns {
		cli = append(cli, decodeCase{Kind: "cli", Stage: "cli", Doc: hx(tf), Args: a, Note: "command-line assignments / values of string-valued flags"})
	}
	// a few grammar documents through the binary's listing and run paths
	for k := 0; k < c.Pick(40, 400); k++ {
		pos := decPositions[c.Rng.Intn(len(decPositions))]
		as := make([]any, strings.Count(pos, "%s"))
		for i := range as {
			as[i] = decShapes[c.Rng.Intn(len(decShapes))]
		}
		cli = append(cli, decodeCase{Kind: "cli", Stage: "cli", Doc: hx(fmt.Sprintf(pos, as...)), Inc: hx(decInc), Args: argSets[c.Rng.Intn(len(argSets))], Note: "grammar document through the binary"})
	}
	// watch mode
	wt := func(doc string, expect bool, note string, args ...string) {
		cli = append(cli, decodeCase{Kind: "watch", Stage: "watch", Doc: hx(doc), Args: args, Files: map[string]string{"a.txt": "a\n", "src/b.txt": "b\n"}, Touch: "a.txt", ExpectWatch: expect, Note: note})
	}
	wt("version: '3'\ntasks:\n  t:\n    sources: [~, '*.txt']\n    cmds: [echo run]\n", true, "nil entry in sources under --watch (the file event handler hands the RAW task to Globs)", "t")
	wt("version: '3'\ntasks:\n  t:\n    sources: ['*.txt', ~]\n    generates: [~]\n    deps: [~]\n    cmds: [~, echo run]\n", true, "nil entries everywhere under --watch", "t")
	wt("version: '3'\ntasks:\n  a:\n    sources: ['*.txt']\n    status: ['true']\n    cmds: [{task: b}]\n  b:\n    cmds: [{task: a}]\n", true, "cyclic call graph under --watch (status ends it at run time)", "a")
	wt("version: '3'\ntasks:\n  a:\n    sources: ['*.txt']\n    status: ['true']\n    deps: [b]\n  b:\n    status: ['true']\n    deps: [a]\n", true, "cyclic dependency graph under --watch", "a")
	wt("version: '3'\ntasks:\n  a:\n    sources: ['*.txt']\n    status: ['true']\n    cmds: [{task: a, vars: {X: '{{.X}}x'}}]\n", false, "cycle that changes a variable on every round under --watch (must end with 'called too many times', not spin)", "a")
	wt("version: '3'\ntasks:\n  a:\n    sources: ['src/*.txt']\n    cmds: [{task: b, vars: {D: src}}, {task: b, vars: {D: .}}]\n  b:\n    sources: ['{{.D}}/*.txt']\n    cmds: [echo b]\n", true, "one task called twice with different variables under --watch", "a")
	wt("version: '3'\ntasks:\n  t:\n    watch: true\n    sources: ['*.txt']\n    cmds: [echo run]\n", true, "task with watch: true", "t")
	wt("version: '3'\ninterval: 1ms\ntasks:\n  t:\n    sources: ['{{', '*.txt']\n    cmds: [echo run]\n", false, "bad template in sources under --watch", "t")
	res := make([][2]string, len(cli))
	sem := make(chan struct{}, 8)
	var wg sync.WaitGroup
	for i := range cli {
		i := i
		wg.Add(1)
		sem <- struct{}{}
		go func() {
			defer wg.Done()
			defer func() { <-sem }()
			cl, il := evalDecodeCLI(cli[i])
			res[i] = [2]string{cl, il}
		}()
	}
	wg.Wait()
	for i, d := range cli {
		c.Hit("kind:" + d.Kind)
		c.Hit("outcome:" + strings.SplitN(strings.TrimPrefix(res[i][0], "decode.outcome "), " ", 2)[0])
		c.Distinct(d.Doc + "|" + d.RC + "|" + strings.Join(d.Args, " ") + "|" + strings.Join(d.Env, " "))
		c.Emit(res[i][0], res[i][1], d)
	}
	// (b) mutated real Taskfiles
	files := corpusFiles()
	m := c.Pick(500, 6000)
	for k := 0; k < m && len(files) > 0; k++ {
		f := files[c.Rng.Intn(len(files))]
		b, err := os.ReadFile(f)
		if err != nil {
			continue
		}
		mb, note := c.mutateDoc(b)
		emit(decodeCase{Kind: "mutated", Doc: hx(string(mb)), Inc: hx(decInc), Note: note + " " + filepath.Base(filepath.Dir(f))})
	}
	// (c) names
	for k := 0; k < c.Pick(150, 1500); k++ {
		name := c.resWord(5, true)
		req := c.mutate(c.instantiate(name))
		doc := fmt.Sprintf("version: '3'\ntasks:\n  %s: {cmds: [echo], aliases: [%s]}\n", varsYamlQ(name), varsYamlQ(c.resWord(3, false)))
		emit(decodeCase{Kind: "names", Doc: hx(doc), Req: req, Note: "metachar names"})
	}
}
