package main

// Stream `vars.envpipe` of the domain `vars` (C10, environment clause over the real pipeline).
//
// A global `env:` entry is templated twice: once as the lowest variable layer (what {{.E}} gives), once more in
// compiledTask over the task's FINAL variables (what a command finds in $E); task dotenv / task env entries take the
// second pass only; `sh:` entries run in the task's directory with the environment of that moment.  Without the
// env-precedence experiment a case is compiled in process; WITH it (TASK_X_ENV_PRECEDENCE=1, read by the command-line front
// end at start-up) it is run through the real CLI binary ($VERIF_TASK_BIN; skipped when the check has none: C11 / C02).
// Compared per name: `{{.N}}` (the task's variable) and `$N` (the environment its commands get).

import (
	"bytes"
	"context"
	"fmt"
	"io"
	"os"
	"os/exec"
	"path/filepath"
	"strings"
	"time"

	task "github.com/go-task/task/v3"
	"github.com/go-task/task/v3/verifhook/export"
)

var vePool = []string{"EA", "EB", "EC", "VA", "VB", "VC"}

func veID(n string) int {
	for i, x := range vePool {
		if x == n {
			return i
		}
	}
	return -1
}

type vEnvPipe struct {
	Prec    bool        `json:"prec"` // env-precedence experiment on
	Os      [][2]string `json:"os"`
	Dir     string      `json:"dir"` // the task's dir: as written ("" | sub | {{.VC}})
	Genv    []vDef      `json:"genv"`
	Gvars   []vDef      `json:"gvars"`
	Dotenv  [][2]string `json:"dotenv"` // the task's dotenv file
	Tenv    []vDef      `json:"tenv"`
	Tvars   []vDef      `json:"tvars"`
	WorkDir string      `json:"work_dir,omitempty"` // filled in by the parent for the worker
}

func vePartsTok(tpl string) string {
	var parts []string
	last := 0
	for _, m := range reRef.FindAllStringSubmatchIndex(tpl, -1) {
		if m[0] > last {
			parts = append(parts, "t"+hx(tpl[last:m[0]]))
		}
		parts = append(parts, fmt.Sprintf("r%d", veID(tpl[m[2]:m[3]])))
		last = m[1]
	}
	if last < len(tpl) {
		parts = append(parts, "t"+hx(tpl[last:]))
	}
	return strings.TrimSpace(fmt.Sprintf("%d %s", len(parts), strings.Join(parts, " ")))
}

func veBlock(defs []vDef) string {
	var out []string
	for _, d := range defs {
		id := veID(d.Name)
		switch d.Kind {
		case "ref":
			out = append(out, fmt.Sprintf("%d r 1 r%d", id, veID(d.Text)))
		case "sh":
			out = append(out, fmt.Sprintf("%d s %s", id, vePartsTok(d.Text)))
		case "envsh":
			out = append(out, fmt.Sprintf("%d s 1 t%s", id, hx(fmt.Sprintf("$%d", veID(d.Text)))))
		default:
			out = append(out, fmt.Sprintf("%d l %s", id, vePartsTok(d.Text)))
		}
	}
	return strings.TrimSpace(fmt.Sprintf("%d %s", len(defs), strings.Join(out, " ")))
}

// evalEnvPipeInProc: writes the files, compiles the task, answers `<var>/<env|none>`* dir=<Dir>
func evalEnvPipeInProc(d vEnvPipe) string {
	dir := d.WorkDir
	os.MkdirAll(filepath.Join(dir, "sub"), 0o755)
	defer os.RemoveAll(dir)
	var y strings.Builder
	y.WriteString("version: '3'\nsilent: true\n")
	renderDefs(&y, "", "env", d.Genv)
	renderDefs(&y, "", "vars", d.Gvars)
	y.WriteString("tasks:\n  t:\n")
	if d.Dir != "" {
		fmt.Fprintf(&y, "    dir: %s\n", varsYamlQ(d.Dir))
	}
	renderDefs(&y, "    ", "vars", d.Tvars)
	renderDefs(&y, "    ", "env", d.Tenv)
	if len(d.Dotenv) > 0 {
		y.WriteString("    dotenv: ['.envp']\n")
	}
	y.WriteString("    cmds: ['true']\n")
	os.WriteFile(filepath.Join(dir, "Taskfile.yml"), []byte(y.String()), 0o644)
	for _, where := range []string{".", "sub"} {
		var b strings.Builder
		for _, kv := range d.Dotenv {
			fmt.Fprintf(&b, "%s=%s\n", kv[0], kv[1])
		}
		os.WriteFile(filepath.Join(dir, where, ".envp"), []byte(b.String()), 0o644)
	}
	for _, n := range vePool {
		os.Unsetenv(n)
	}
	for _, kv := range d.Os {
		os.Setenv(kv[0], kv[1])
	}
	defer func() {
		for _, kv := range d.Os {
			os.Unsetenv(kv[0])
		}
	}()
	e := task.NewExecutor(task.WithDir(dir), task.WithStdout(io.Discard), task.WithStderr(io.Discard), task.WithSilent(true),
		task.WithTempDir(task.TempDir{Remote: filepath.Join(dir, ".task"), Fingerprint: filepath.Join(dir, ".task")}))
	if err := e.Setup(); err != nil {
		return "setup-error " + hx(err.Error())
	}
	t, err := e.CompiledTask(&task.Call{Task: "t"})
	if err != nil {
		return "error " + hx(err.Error())
	}
	environ := export.EnvGet(t)
	var out []string
	for _, n := range vePool {
		v, _ := t.Vars.Get(n)
		sv := ""
		if v.Value != nil {
			sv = fmt.Sprint(v.Value)
		}
		ev := "none"
		for _, kv := range environ { // the last entry wins
			if strings.HasPrefix(kv, n+"=") {
				ev = hx(kv[len(n)+1:])
			}
		}
		out = append(out, hx(sv)+"/"+ev)
	}
	return strings.Join(out, " ") + " dir=" + hx(t.Dir)
}

// evalEnvPipeCLI: the same case through the real CLI binary with TASK_X_ENV_PRECEDENCE=1 (the experiment is read by the
// command-line front end at start-up; a library user cannot switch it on).  The task's command prints, per name,
// `N=<$N or <none>>|<{{.N}}>`.
func evalEnvPipeCLI(d vEnvPipe, bin string) string {
	dir := d.WorkDir
	os.MkdirAll(filepath.Join(dir, "sub"), 0o755)
	os.MkdirAll(filepath.Join(dir, "home"), 0o755)
	defer os.RemoveAll(dir)
	var y strings.Builder
	y.WriteString("version: '3'\nsilent: true\n")
	renderDefs(&y, "", "env", d.Genv)
	renderDefs(&y, "", "vars", d.Gvars)
	y.WriteString("tasks:\n  t:\n")
	if d.Dir != "" {
		fmt.Fprintf(&y, "    dir: %s\n", varsYamlQ(d.Dir))
	}
	renderDefs(&y, "    ", "vars", d.Tvars)
	renderDefs(&y, "    ", "env", d.Tenv)
	if len(d.Dotenv) > 0 {
		y.WriteString("    dotenv: ['.envp']\n")
	}
	y.WriteString("    cmds:\n")
	for _, n := range vePool {
		fmt.Fprintf(&y, "      - %s\n", varsYamlQ(fmt.Sprintf(`printf '%%s\n' "%s=${%s-<none>}|{{.%s}}"`, n, n, n)))
	}
	y.WriteString("      - 'printf \"%s\\n\" \"PWD=$PWD\"'\n")
	os.WriteFile(filepath.Join(dir, "Taskfile.yml"), []byte(y.String()), 0o644)
	for _, where := range []string{".", "sub"} {
		var b strings.Builder
		for _, kv := range d.Dotenv {
			fmt.Fprintf(&b, "%s=%s\n", kv[0], kv[1])
		}
		os.WriteFile(filepath.Join(dir, where, ".envp"), []byte(b.String()), 0o644)
	}
	ctx, cancel := context.WithTimeout(context.Background(), 20*time.Second)
	defer cancel()
	cmd := exec.CommandContext(ctx, bin, "t")
	cmd.Dir = dir
	cmd.Env = []string{"PATH=" + os.Getenv("PATH"), "HOME=" + filepath.Join(dir, "home"), "NO_COLOR=1"}
	if d.Prec {
		cmd.Env = append(cmd.Env, "TASK_X_ENV_PRECEDENCE=1")
	}
	for _, kv := range d.Os {
		cmd.Env = append(cmd.Env, kv[0]+"="+kv[1])
	}
	var stdout, stderr bytes.Buffer
	cmd.Stdout, cmd.Stderr = &stdout, &stderr
	err := cmd.Run()
	if ctx.Err() != nil {
		return "timeout"
	}
	if err != nil {
		return "error " + hx(firstLine(stderr.String()))
	}
	got := map[string]string{}
	for _, ln := range strings.Split(strings.TrimRight(stdout.String(), "\n"), "\n") {
		if i := strings.Index(ln, "="); i >= 0 {
			got[ln[:i]] = ln[i+1:]
		}
	}
	var out []string
	for _, n := range vePool {
		p := strings.SplitN(got[n], "|", 2)
		if len(p) != 2 {
			return "bad-output " + hx(firstLine(stdout.String()))
		}
		ev := hx(p[0])
		if p[0] == "<none>" {
			ev = "none"
		}
		out = append(out, hx(p[1])+"/"+ev)
	}
	return strings.Join(out, " ") + " dir=" + hx(got["PWD"])
}

var veSeq int

func evalEnvPipe(d vEnvPipe) (string, string) {
	base := os.Getenv("VERIF_SCRATCH")
	if base == "" {
		base = os.TempDir()
	}
	veSeq++
	d.WorkDir = filepath.Join(base, fmt.Sprintf("ve%d-%d", os.Getpid(), veSeq))
	var osTok []string
	for _, kv := range d.Os {
		osTok = append(osTok, fmt.Sprintf("%d %s", veID(kv[0]), hx(kv[1])))
	}
	var dot []string
	for _, kv := range d.Dotenv {
		dot = append(dot, fmt.Sprintf("%d l 1 t%s", veID(kv[0]), hx(kv[1])))
	}
	var q []string
	for i := range vePool {
		q = append(q, fmt.Sprint(i))
	}
	home := os.Getenv("HOME")
	if d.Prec {
		home = filepath.Join(d.WorkDir, "home")
	}
	cl := fmt.Sprintf("vars.envpipe %s %s %s %s %d %s %s %s %d %s %s %s %d %s", b2s(d.Prec), hx(home), hx(d.WorkDir), vePartsTok(d.Dir), len(d.Os), strings.Join(osTok, " "),
		veBlock(d.Genv), veBlock(d.Gvars), len(d.Dotenv), strings.Join(dot, " "), veBlock(d.Tenv), veBlock(d.Tvars), len(q), strings.Join(q, " "))
	cl = strings.Join(strings.Fields(cl), " ")
	if d.Prec {
		bin := os.Getenv("VERIF_TASK_BIN")
		if bin == "" {
			return cl, "skipped-no-cli" // the experiment needs the command-line front end; the model line is not compared (see emit)
		}
		return cl, evalEnvPipeCLI(d, bin)
	}
	return cl, evalEnvPipeInProc(d)
}

func (c *Ctx) genEnvPipe() vEnvPipe {
	r := c.Rng
	d := vEnvPipe{Prec: r.Intn(2) == 0}
	envNames, varNames := []string{"EA", "EB", "EC"}, []string{"VA", "VB", "VC"}
	mk := func(name, tag string, allowRef bool) vDef {
		allowSh := true
		x := vDef{Name: name, Kind: "lit", Text: tag}
		switch k := r.Intn(10); {
		case k < 3:
		case k < 6:
			x.Text = tag + "-{{." + vePool[r.Intn(len(vePool))] + "}}"
		case k < 7 && allowRef:
			// (an ENV entry given by `ref:` that resolves to nothing is not exported at all — values are strings in the model —
			// so refs are generated for variables only)
			x.Kind, x.Text = "ref", vePool[r.Intn(len(vePool))]
		case k < 9 && allowSh:
			x.Kind, x.Text = "sh", fmt.Sprintf("K%d", r.Intn(2)) // prints K<i>@<directory>
			if r.Intn(3) == 0 {
				x.Text += "{{." + varNames[r.Intn(3)] + "}}"
			}
		case allowSh:
			x.Kind, x.Text = "envsh", vePool[r.Intn(len(vePool))] // prints what $NAME holds
		}
		return x
	}
	for _, n := range vePool {
		if r.Intn(5) == 0 {
			d.Os = append(d.Os, [2]string{n, "os" + strings.ToLower(n)})
		}
	}
	for i, n := range envNames {
		if r.Intn(3) > 0 {
			d.Genv = append(d.Genv, mk(n, fmt.Sprintf("ge%d", i), false))
		}
	}
	for i, n := range varNames {
		if r.Intn(2) == 0 {
			d.Gvars = append(d.Gvars, mk(n, fmt.Sprintf("gv%d", i), true))
		}
	}
	r.Shuffle(len(d.Gvars), func(i, j int) { d.Gvars[i], d.Gvars[j] = d.Gvars[j], d.Gvars[i] })
	for i, n := range varNames {
		if r.Intn(3) == 0 {
			d.Tvars = append(d.Tvars, mk(n, fmt.Sprintf("tv%d", i), true))
		}
	}
	for i, n := range vePool {
		if r.Intn(4) == 0 {
			d.Tenv = append(d.Tenv, mk(n, fmt.Sprintf("te%d", i), false))
		}
		if r.Intn(5) == 0 {
			d.Dotenv = append(d.Dotenv, [2]string{n, fmt.Sprintf("de%d", i)})
		}
	}
	switch r.Intn(4) {
	case 0:
		d.Dir = "sub"
	case 1:
		// a templated dir over a GLOBAL (a task-level VC would move the compiled Dir away from where `sh:` ran: C11's dir clause)
		d.Dir = "{{.VC}}"
		d.Gvars = uniqDefs(append([]vDef{{"VC", "lit", "sub"}}, d.Gvars...))
		var tv []vDef
		for _, x := range d.Tvars {
			if x.Name != "VC" {
				tv = append(tv, x)
			}
		}
		d.Tvars = tv
	}
	return d
}

// ---------------------------------------------------------------- stream vars.fshist (C11: the file system)
//
// Tasks whose `sh:` variables read files (`cat f.txt`, in the task's directory; a global reads g.txt in the root) and whose
// commands REWRITE those files, run as one sequence through the real executor.  The model (`Vars.World`: histories of
// compilations and command effects over a world state) mirrors the code: the dynamic-variable cache serves what an
// earlier compilation read.  The property's monitor (`vars.fsmon`): every call must see what it would see ALONE in the
// world as it is when the call starts — the current content of the files; a stale cached value is tagged.

type vFsTask struct {
	Dir    string      `json:"dir"`    // "" | sub
	Reads  string      `json:"reads"`  // file name read by `V: {sh: cat <file>}`
	Writes [][2]string `json:"writes"` // commands after the echo: file name (in the task's dir; "g.txt" = the root's), new content
}

type vFsHist struct {
	Global bool        `json:"global"` // root `vars: {G: {sh: cat g.txt}}`
	Files  [][3]string `json:"files"`  // initial files: dir ("" | sub), name, content
	Tasks  []vFsTask   `json:"tasks"`
	Seq    []int       `json:"seq"`
}

func evalFsHist(d vFsHist) []varsLine {
	base := os.Getenv("VERIF_SCRATCH")
	if base == "" {
		base = os.TempDir()
	}
	veSeq++
	dir := filepath.Join(base, fmt.Sprintf("vf%d-%d", os.Getpid(), veSeq))
	os.MkdirAll(filepath.Join(dir, "sub"), 0o755)
	defer os.RemoveAll(dir)
	abs := func(tdir, name string) string {
		if name == "g.txt" {
			return filepath.Join(dir, name)
		}
		return filepath.Join(dir, tdir, name)
	}
	world := map[string]string{}
	var filesTok []string
	for _, f := range d.Files {
		p := abs(f[0], f[1])
		os.WriteFile(p, []byte(f[2]), 0o644)
		world[p] = f[2]
		filesTok = append(filesTok, hx(p)+" "+hx(f[2]))
	}
	var y strings.Builder
	y.WriteString("version: '3'\nsilent: true\n")
	if d.Global {
		y.WriteString("vars:\n  G: {sh: cat g.txt}\n")
	}
	y.WriteString("tasks:\n")
	for i, t := range d.Tasks {
		fmt.Fprintf(&y, "  t%d:\n", i)
		if t.Dir != "" {
			fmt.Fprintf(&y, "    dir: %s\n", t.Dir)
		}
		fmt.Fprintf(&y, "    vars:\n      V: {sh: cat %s}\n    cmds:\n      - %s\n", t.Reads, varsYamlQ(fmt.Sprintf("echo 'R:t%d:{{.V}}|{{.G}}'", i)))
		for _, w := range t.Writes {
			tgt := w[0]
			if w[0] == "g.txt" {
				tgt = filepath.Join(dir, "g.txt")
			}
			fmt.Fprintf(&y, "      - %s\n", varsYamlQ(fmt.Sprintf("printf '%%s' '%s' > '%s'", w[1], tgt)))
		}
	}
	os.WriteFile(filepath.Join(dir, "Taskfile.yml"), []byte(y.String()), 0o644)
	var callsTok []string
	var calls []*task.Call
	type want struct{ v, g, cachedV, cachedG string }
	var wants []want
	firstRead := map[string]string{} // cache key (dir, file) → what the first compilation read
	for _, ti := range d.Seq {
		t := d.Tasks[ti]
		var ws []string
		for _, w := range t.Writes {
			ws = append(ws, hx(abs(t.Dir, w[0]))+" "+hx(w[1]))
		}
		callsTok = append(callsTok, strings.TrimSpace(fmt.Sprintf("%s %s %d %s", hx(t.Dir), hx(t.Reads), len(t.Writes), strings.Join(ws, " "))))
		calls = append(calls, &task.Call{Task: fmt.Sprintf("t%d", ti)})
		// the world as the generator knows it: what the call would read alone, what the cache holds
		pv, pg := abs(t.Dir, t.Reads), abs("", "g.txt")
		kv := filepath.Join(dir, t.Dir) + "\x00" + t.Reads
		if _, ok := firstRead[kv]; !ok {
			firstRead[kv] = world[pv]
		}
		if _, ok := firstRead["G"]; !ok {
			firstRead["G"] = world[pg]
		}
		w := want{v: world[pv], cachedV: firstRead[kv], cachedG: firstRead["G"]}
		if d.Global {
			w.g = world[pg]
		}
		wants = append(wants, w)
		for _, wr := range t.Writes {
			world[abs(t.Dir, wr[0])] = wr[1]
		}
	}
	cl := fmt.Sprintf("vars.fshist %s %s %d %s %d %s", hx(dir), b2s(d.Global), len(d.Files), strings.Join(filesTok, " "), len(d.Seq), strings.Join(callsTok, " "))
	cl = strings.Join(strings.Fields(cl), " ")
	var buf strings.Builder
	e := task.NewExecutor(task.WithDir(dir), task.WithStdout(&buf), task.WithStderr(io.Discard), task.WithSilent(true),
		task.WithTempDir(task.TempDir{Remote: filepath.Join(dir, ".task"), Fingerprint: filepath.Join(dir, ".task")}))
	if err := e.Setup(); err != nil {
		return []varsLine{{cl, "setup-error " + hx(err.Error())}}
	}
	rerr := e.Run(context.Background(), calls...)
	var got [][2]string
	for _, ln := range strings.Split(strings.TrimRight(buf.String(), "\n"), "\n") {
		if p := strings.SplitN(ln, ":", 3); len(p) == 3 && p[0] == "R" {
			vg := strings.SplitN(p[2], "|", 2)
			if len(vg) == 2 {
				got = append(got, [2]string{vg[0], vg[1]})
			}
		}
	}
	if rerr != nil || len(got) != len(d.Seq) {
		msg := ""
		if rerr != nil {
			msg = rerr.Error()
		}
		return []varsLine{{cl, fmt.Sprintf("error %d %s", len(got), hx(msg))}}
	}
	var vals []string
	for _, g := range got {
		vals = append(vals, hx(g[0])+"/"+hx(g[1]))
	}
	lines := []varsLine{{cl, strings.Join(vals, " ")}}
	if os.Getenv("VERIF_VARS_FSMON") != "0" {
		for i, w := range wants {
			il := hx(got[i][0]) + "/" + hx(got[i][1])
			stale := (got[i][0] != w.v && got[i][0] == w.cachedV) || (d.Global && got[i][1] != w.g && got[i][1] == w.cachedG)
			ok := (got[i][0] == w.v || got[i][0] == w.cachedV) && (!d.Global || got[i][1] == w.g || got[i][1] == w.cachedG)
			if stale && ok {
				il += " stale-cache"
			}
			lines = append(lines, varsLine{fmt.Sprintf("vars.fsmon %d %s/%s", i, hx(w.v), hx(w.g)), il})
		}
	}
	return lines
}

func (c *Ctx) genFsHist() vFsHist {
	r := c.Rng
	d := vFsHist{Global: r.Intn(2) == 0}
	names := []string{"f0.txt", "f1.txt"}
	for _, dd := range []string{"", "sub"} {
		for i, n := range names {
			d.Files = append(d.Files, [3]string{dd, n, fmt.Sprintf("i%d%s", i, dd)})
		}
	}
	d.Files = append(d.Files, [3]string{"", "g.txt", "ig"})
	nt := 2 + r.Intn(3)
	k := 0
	for i := 0; i < nt; i++ {
		t := vFsTask{Reads: names[r.Intn(2)]}
		if r.Intn(3) == 0 {
			t.Dir = "sub"
		}
		for j := r.Intn(3); j > 0; j-- {
			tgt := names[r.Intn(2)]
			if d.Global && r.Intn(3) == 0 {
				tgt = "g.txt"
			}
			t.Writes = append(t.Writes, [2]string{tgt, fmt.Sprintf("w%d", k)})
			k++
		}
		d.Tasks = append(d.Tasks, t)
	}
	for i := 2 + r.Intn(4); i > 0; i-- {
		d.Seq = append(d.Seq, r.Intn(nt))
	}
	return d
}
