package main

import (
	"fmt"
	"strings"

	task "github.com/go-task/task/v3"
	"github.com/go-task/task/v3/errors"
	"github.com/go-task/task/v3/taskfile/ast"
)

func init() {
	domains["resolve"] = domain{runResolve,
		"names/patterns/aliases drawn from an alphabet with ':' '.' '*' '-' and regexp metacharacters, " +
			"requests derived from table entries (instantiated patterns, mutated names, aliases) and random; " +
			"non-trivial = request resolved through a wildcard, an alias, a conflict, or a near-miss " +
			"(differs from a table name by one metacharacter-sensitive edit); distinct by (table, request)"}
}

var resAlphabet = []string{"a", "b", "c", ":", ".", "-", "(", ")", "[", "]", "+", "?", "|", "\\", "^", "$", "{", "}", "é", "\n", " "}

func (c *Ctx) resWord(maxLen int, stars bool) string {
	n := 1 + c.Rng.Intn(maxLen)
	var sb strings.Builder
	for i := 0; i < n; i++ {
		r := c.Rng.Intn(100)
		switch {
		case stars && r < 18:
			sb.WriteString("*")
		case r < 70:
			sb.WriteString(resAlphabet[c.Rng.Intn(3)])
		default:
			sb.WriteString(resAlphabet[c.Rng.Intn(len(resAlphabet))])
		}
	}
	return sb.String()
}

func implMatch(pat, name string) (out string) {
	defer func() {
		if r := recover(); r != nil {
			out = "panic"
		}
	}()
	t := &ast.Task{Task: pat}
	ok, ws := t.WildcardMatch(name)
	if !ok {
		return "none"
	}
	if len(ws) == 0 {
		return "some"
	}
	return "some " + hxs(ws)
}

type resEntry struct {
	Name    string
	Aliases []string
}

func implGet(tbl []resEntry, req string) (out string) {
	defer func() {
		if r := recover(); r != nil {
			out = "panic"
		}
	}()
	tasks := ast.NewTasks()
	idx := map[string]int{}
	for i, e := range tbl {
		tasks.Set(e.Name, &ast.Task{Task: e.Name, Aliases: e.Aliases})
		idx[e.Name] = i
	}
	e := task.NewExecutor()
	e.Taskfile = &ast.Taskfile{Tasks: tasks}
	call := &task.Call{Task: req}
	t, err := e.GetTask(call)
	if err != nil {
		var nf *errors.TaskNotFoundError
		var cf *errors.TaskNameConflictError
		switch {
		case errors.As(err, &nf):
			if nf.Code() != 200 {
				return fmt.Sprintf("badcode %d", nf.Code())
			}
			return "notfound"
		case errors.As(err, &cf):
			if cf.Code() != 203 {
				return fmt.Sprintf("badcode %d", cf.Code())
			}
			parts := []string{"conflict"}
			for _, n := range cf.TaskNames {
				parts = append(parts, fmt.Sprint(idx[n]))
			}
			return strings.Join(parts, " ")
		default:
			return "othererr"
		}
	}
	parts := []string{"found", fmt.Sprint(idx[t.Task])}
	if call.Vars != nil {
		if v, ok := call.Vars.Get("MATCH"); ok {
			if ws, ok := v.Value.([]string); ok {
				for _, w := range ws {
					parts = append(parts, hx(w))
				}
			}
		}
	}
	return strings.Join(parts, " ")
}

func (c *Ctx) instantiate(pat string) string {
	var sb strings.Builder
	for _, ch := range pat {
		if ch == '*' {
			sb.WriteString(c.resWord(3, false))
		} else {
			sb.WriteRune(ch)
		}
	}
	return sb.String()
}

func (c *Ctx) mutate(s string) string {
	rs := []rune(s)
	if len(rs) == 0 {
		return "a"
	}
	i := c.Rng.Intn(len(rs))
	switch c.Rng.Intn(3) {
	case 0:
		rs[i] = []rune(resAlphabet[c.Rng.Intn(len(resAlphabet))])[0]
	case 1:
		rs = append(rs[:i], rs[i+1:]...)
	default:
		rs = append(rs[:i], append([]rune(resAlphabet[c.Rng.Intn(len(resAlphabet))]), rs[i:]...)...)
	}
	return string(rs)
}

type resCase struct {
	Kind  string     `json:"kind"`
	Pat   string     `json:"pat,omitempty"`
	Name  string     `json:"name,omitempty"`
	Table []resEntry `json:"table,omitempty"`
	Req   string     `json:"req,omitempty"`
}

func evalResolve(d resCase) (string, string) {
	if d.Kind == "match" {
		return "resolve.match " + hx(d.Pat) + " " + hx(d.Name), implMatch(d.Pat, d.Name)
	}
	var sb strings.Builder
	fmt.Fprintf(&sb, "resolve.get %d", len(d.Table))
	for _, e := range d.Table {
		fmt.Fprintf(&sb, " %s %d", hx(e.Name), len(e.Aliases))
		for _, a := range e.Aliases {
			sb.WriteString(" " + hx(a))
		}
	}
	sb.WriteString(" " + hx(d.Req))
	return sb.String(), implGet(d.Table, d.Req)
}

func runResolve(c *Ctx) {
	if c.Replay(func(raw []byte) (string, string) {
		var d resCase
		mustJSON(raw, &d)
		return evalResolve(d)
	}) {
		return
	}
	// fixed regression corpus first (minimised past disagreements / witnesses)
	corpus := [][2]string{{"a.b", "aXb"}, {"a.b", "a.b"}, {"a(", "a("}, {"a+", "aa"}, {"x*y", "x\ny"}, {"*", ""}, {"**", "ab"},
		{"a*b*", "axxbybz"}, {"x-*", "x-a\nb"}, {"*", "\n"}, {"a*b*c", "a\nb\n\nbc"}, {"s*-*", "sa-b-c"}, {"[a]", "a"}, {"a|b", "a"}, {"a\\", "a\\"}, {"^a$", "a"}, {"a{2}", "aa"}, {"é*", "éé"}}
	for _, pn := range corpus {
		d := resCase{Kind: "match", Pat: pn[0], Name: pn[1]}
		cl, il := evalResolve(d)
		c.Emit(cl, il, d)
		c.Hit("corpus")
	}
	nMatch := c.Pick(4000, 60000)
	for i := 0; i < nMatch; i++ {
		pat := c.resWord(6, true)
		var name string
		switch c.Rng.Intn(5) {
		case 4:
			// wildcard values with a newline inside: only '*' is special, '(.*)' must take them
			var sb strings.Builder
			for _, ch := range pat {
				if ch == '*' {
					w := []rune(c.resWord(3, false))
					at := c.Rng.Intn(len(w) + 1)
					sb.WriteString(string(w[:at]) + "\n" + string(w[at:]))
				} else {
					sb.WriteRune(ch)
				}
			}
			name = sb.String()
			c.Hit("match:newline-in-value")
		case 0:
			name = c.resWord(8, false)
			c.Hit("match:random-name")
		case 1:
			name = c.instantiate(pat)
			c.Hit("match:instantiated")
		case 2:
			name = c.mutate(c.instantiate(pat))
			c.Hit("match:mutated")
		default:
			name = c.instantiate(strings.ReplaceAll(pat, ".", "*"))
			c.Hit("match:dot-as-any")
		}
		d := resCase{Kind: "match", Pat: pat, Name: name}
		cl, im := evalResolve(d)
		if strings.Contains(name, "\n") && strings.HasPrefix(im, "some") {
			c.Hit("match:matched-name-with-newline")
		}
		if strings.HasPrefix(im, "some ") {
			c.Hit("match:with-groups")
			c.Distinct("m|" + pat + "|" + name)
		}
		c.Emit(cl, im, d)
	}
	nGet := c.Pick(2500, 40000)
	for i := 0; i < nGet; i++ {
		k := 1 + c.Rng.Intn(6)
		seen := map[string]bool{}
		var tbl []resEntry
		var pool []string
		for len(tbl) < k {
			n := c.resWord(5, c.Rng.Intn(2) == 0)
			if seen[n] {
				continue
			}
			seen[n] = true
			al := []string{}
			for j := c.Rng.Intn(3); j > 0; j-- {
				var a string
				if len(pool) > 0 && c.Rng.Intn(3) == 0 {
					a = pool[c.Rng.Intn(len(pool))] // shared alias → conflicts
				} else {
					a = c.resWord(3, false)
				}
				al = append(al, a)
				pool = append(pool, a)
			}
			tbl = append(tbl, resEntry{n, al})
		}
		var req string
		switch c.Rng.Intn(5) {
		case 0:
			req = tbl[c.Rng.Intn(k)].Name
		case 1:
			req = c.instantiate(tbl[c.Rng.Intn(k)].Name)
		case 2:
			if len(pool) > 0 {
				req = pool[c.Rng.Intn(len(pool))]
			} else {
				req = c.resWord(4, false)
			}
		case 3:
			req = c.mutate(c.instantiate(tbl[c.Rng.Intn(k)].Name))
		default:
			req = c.resWord(5, false)
		}
		d := resCase{Kind: "get", Table: tbl, Req: req}
		cl, im := evalResolve(d)
		kind := strings.SplitN(im, " ", 2)[0]
		c.Hit("get:" + kind)
		if kind == "conflict" || (kind == "found" && !seen[req]) {
			c.Distinct(fmt.Sprintf("g|%v|%s", tbl, req))
		}
		c.Emit(cl, im, d)
	}
}
