package main

import (
	"fmt"
	"io"
	"os"
	"path/filepath"
	"sort"
	"strings"

	task "github.com/go-task/task/v3"
)

// Domain `dotenvchain` (C09, C10): a root Taskfile with `dotenv: ['.env']` whose entries refer to each other
// through templates (B={{.A}}x).  godotenv hands the entries out as a Go map; the values every command sees
// must be those of the model (entries added in key order, each templated over the ones before it) on EVERY
// load, so each file is loaded several times by fresh executors.
func init() {
	domains["dotenvchain"] = domain{runDotenvChain,
		"generated .env files of 2..6 entries (names from a pool whose byte order differs from the order in the file), values = text with " +
			"0..2 template references to entries of the same file (earlier, later, itself); each file is loaded by 5 (quick) / 12 (thorough) " +
			"fresh executors and the environment of the compiled task is compared with the model each time. non-trivial = a file in which some " +
			"entry refers to another entry; distinct by file text"}
}

type dcEntry struct {
	Name  string   `json:"name"`
	Parts []string `json:"parts"` // "t:<text>" | "r:<NAME>"
}

type dcCase struct {
	Entries []dcEntry `json:"entries"` // in the order of the file
	Load    int       `json:"load"`
}

var dcNo int

func evalDotenvChain(d dcCase) (string, string) {
	dcNo++
	base := os.Getenv("VERIF_SCRATCH")
	if base == "" {
		base = os.TempDir()
	}
	dir := filepath.Join(base, fmt.Sprintf("dc%d-%d", os.Getpid(), dcNo))
	os.MkdirAll(dir, 0o755)
	defer os.RemoveAll(dir)
	names := make([]string, 0, len(d.Entries))
	for _, e := range d.Entries {
		names = append(names, e.Name)
	}
	sort.Strings(names) // Go's string order is the byte order the code sorts by
	rank := map[string]int{}
	for i, n := range names {
		rank[n] = i
	}
	var env, cl strings.Builder
	fmt.Fprintf(&cl, "vars.dotenvchain %d", len(d.Entries))
	for _, e := range d.Entries {
		fmt.Fprintf(&env, "%s=", e.Name)
		fmt.Fprintf(&cl, " %d %d", rank[e.Name], len(e.Parts))
		for _, p := range e.Parts {
			if strings.HasPrefix(p, "r:") {
				fmt.Fprintf(&env, "{{.%s}}", p[2:])
				fmt.Fprintf(&cl, " r%d", rank[p[2:]])
			} else {
				env.WriteString(p[2:])
				fmt.Fprintf(&cl, " t%s", hx(p[2:]))
			}
		}
		env.WriteString("\n")
	}
	os.WriteFile(filepath.Join(dir, ".env"), []byte(env.String()), 0o644)
	os.WriteFile(filepath.Join(dir, "Taskfile.yml"), []byte("version: '3'\ndotenv: ['.env']\ntasks:\n  t:\n    cmds: ['true']\n"), 0o644)
	e := task.NewExecutor(task.WithDir(dir), task.WithStdout(io.Discard), task.WithStderr(io.Discard), task.WithSilent(true),
		task.WithTempDir(task.TempDir{Remote: filepath.Join(dir, ".task"), Fingerprint: filepath.Join(dir, ".task")}))
	if err := e.Setup(); err != nil {
		return cl.String(), "setup-error " + hx(err.Error())
	}
	ct, err := e.CompiledTask(&task.Call{Task: "t"})
	if err != nil {
		return cl.String(), "error " + hx(err.Error())
	}
	var parts []string
	for _, n := range names {
		val, vv := "?", "?"
		if v, ok := ct.Env.Get(n); ok {
			val = hx(fmt.Sprint(v.Value))
		}
		if v, ok := ct.Vars.Get(n); ok {
			vv = hx(fmt.Sprint(v.Value))
		}
		parts = append(parts, fmt.Sprintf("%d=%s/%s", rank[n], vv, val))
	}
	return cl.String(), strings.Join(parts, " ")
}

func runDotenvChain(c *Ctx) {
	if c.Replay(func(raw []byte) (string, string) {
		var d dcCase
		mustJSON(raw, &d)
		return evalDotenvChain(d)
	}) {
		return
	}
	loads := c.Pick(5, 12)
	emit := func(es []dcEntry) {
		chained := false
		var key strings.Builder
		for _, e := range es {
			key.WriteString(e.Name + "=" + strings.Join(e.Parts, "|") + ";")
			for _, p := range e.Parts {
				if strings.HasPrefix(p, "r:") && p[2:] != e.Name {
					chained = true
				}
			}
		}
		for l := 0; l < loads; l++ {
			d := dcCase{Entries: es, Load: l}
			cl, il := evalDotenvChain(d)
			c.Emit(cl, il, d)
		}
		c.Hit(fmt.Sprintf("entries:%d", len(es)))
		if chained {
			c.Hit("chained")
			c.Distinct(key.String())
		}
	}
	// corpus: the file a reviewer reported (values differed from run to run before 6952eb7), in two file orders
	emit([]dcEntry{{"A", []string{"t:1"}}, {"B", []string{"r:A", "t:x"}}, {"C", []string{"r:B", "t:y"}}, {"D", []string{"r:C", "t:z"}}})
	emit([]dcEntry{{"D", []string{"r:C", "t:z"}}, {"B", []string{"r:A", "t:x"}}, {"A", []string{"t:1"}}, {"C", []string{"r:B", "t:y"}}})
	pool := []string{"DZA", "DZB", "DZa", "DZ_C", "DZD1", "DZD", "DZE", "DZ0"}
	n := c.Pick(60, 500)
	for i := 0; i < n; i++ {
		r := c.Rng
		k := 2 + r.Intn(5)
		perm := r.Perm(len(pool))[:k]
		var es []dcEntry
		for _, pi := range perm {
			e := dcEntry{Name: pool[pi]}
			for j := r.Intn(3) + 1; j > 0; j-- {
				if r.Intn(2) == 0 {
					e.Parts = append(e.Parts, "r:"+pool[perm[r.Intn(k)]])
				} else {
					e.Parts = append(e.Parts, "t:"+string(rune('a'+r.Intn(26)))+fmt.Sprint(r.Intn(10)))
				}
			}
			es = append(es, e)
		}
		emit(es)
	}
}
