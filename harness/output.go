package main

import (
	"errors"
	"fmt"
	"io"
	"runtime"
	"strings"
	"sync"

	"github.com/go-task/task/v3/taskfile/ast"
	"github.com/go-task/task/v3/verifhook/export"
)

func init() {
	domains["output"] = domain{runOutput,
		"byte strings over {a,b,newline,CR,space,'[',']','%'} cut into random chunks (empty chunks, partial lines, no trailing newline, empty output) " +
			"written through the real prefixed / group writers into a sink that records every Write; single-writer cases compare the exact sink " +
			"blocks, concurrent cases (2–4 writers in goroutines, distinct prefixes / begin markers, or one shared prefix with writer-specific line content) must be an interleaving of the writers' atomic " +
			"blocks. non-trivial = more than one chunk and at least one line split across chunks, or a concurrent case; distinct by content+chunking"}
}

type recSink struct {
	mu     sync.Mutex
	writes [][]byte
	yield  bool
}

func (s *recSink) Write(p []byte) (int, error) {
	if s.yield {
		runtime.Gosched()
	}
	s.mu.Lock()
	s.writes = append(s.writes, append([]byte(nil), p...))
	s.mu.Unlock()
	if s.yield {
		runtime.Gosched()
	}
	return len(p), nil
}

type outWriter struct {
	Kind      string   `json:"kind"` // p | g
	Prefix    string   `json:"prefix,omitempty"`
	Begin     string   `json:"begin,omitempty"`
	End       string   `json:"end,omitempty"`
	ErrorOnly bool     `json:"error_only,omitempty"`
	Failed    bool     `json:"failed,omitempty"`
	Chunks    []string `json:"chunks"`
	// Err[i]: chunk i is written to the command's STDERR writer (second result of WrapWriter) instead of
	// its stdout writer.  Both streams of one command share one line buffer / one group buffer, so the
	// model does not look at the tag: every byte written to either stream must come out.
	Err []bool `json:"err,omitempty"`
}

type outCase struct {
	Writers []outWriter `json:"writers"`
}

func nlIf(s string) string {
	if s == "" {
		return ""
	}
	return s + "\n"
}

func (w outWriter) tokens() string {
	var b strings.Builder
	if w.Kind == "p" {
		fmt.Fprintf(&b, "%s %d", hx(w.Prefix), len(w.Chunks))
	} else {
		fmt.Fprintf(&b, "%s %s %s %s %d", hx(nlIf(w.Begin)), hx(nlIf(w.End)), b2s(w.ErrorOnly), b2s(w.Failed), len(w.Chunks))
	}
	for _, c := range w.Chunks {
		b.WriteString(" " + hx(c))
	}
	return b.String()
}

type outPair struct{ out, err io.Writer }

func wrap(w outWriter, sink io.Writer, pfx *export.OutputPrefixed) (outPair, export.OutputCloseFunc) {
	cache := &export.TemplaterCache{Vars: ast.NewVars()}
	if w.Kind == "p" {
		o, e, cl := pfx.WrapWriter(sink, sink, w.Prefix, cache)
		return outPair{o, e}, cl
	}
	g := export.OutputGroup{Begin: w.Begin, End: w.End, ErrorOnly: w.ErrorOnly}
	o, e, cl := g.WrapWriter(sink, sink, "", cache)
	return outPair{o, e}, cl
}

func drive(w outWriter, pair outPair, cl export.OutputCloseFunc, yield bool) {
	for i, c := range w.Chunks {
		out := pair.out
		if i < len(w.Err) && w.Err[i] {
			out = pair.err
		}
		out.Write([]byte(c))
		if yield {
			runtime.Gosched()
		}
	}
	var err error
	if w.Failed {
		err = errors.New("exit status 1")
	}
	cl(err)
}

func evalOutput(d outCase) (cl string, il string) {
	defer func() {
		if r := recover(); r != nil {
			il = "panic"
		}
	}()
	sink := &recSink{}
	logger := &export.Logger{Stdout: sink, Stderr: sink, Color: false}
	pfx := export.OutputNewPrefixed(logger)
	if len(d.Writers) == 1 {
		w := d.Writers[0]
		out, closer := wrap(w, sink, pfx)
		drive(w, out, closer, false)
		if w.Kind == "p" {
			// canonical form: one block per emitted line = concatenation of the (non-empty) writes "[", prefix, "] ", line
			var blocks []string
			cur := ""
			for _, wr := range sink.writes {
				if string(wr) == "[" && cur != "" && strings.HasSuffix(cur, "\n") {
					blocks = append(blocks, cur)
					cur = ""
				}
				cur += string(wr)
			}
			if cur != "" {
				blocks = append(blocks, cur)
			}
			parts := []string{fmt.Sprint(len(blocks))}
			for _, b := range blocks {
				parts = append(parts, hx(b))
			}
			return "output.prefixed " + w.tokens(), strings.Join(parts, " ")
		}
		parts := []string{}
		n := 0
		for _, wr := range sink.writes {
			if len(wr) == 0 {
				continue
			}
			n++
			parts = append(parts, hx(string(wr)))
		}
		return "output.group " + w.tokens(), strings.TrimSpace(fmt.Sprint(n) + " " + strings.Join(parts, " "))
	}
	sink.yield = true
	var wg sync.WaitGroup
	for _, w := range d.Writers {
		w := w
		out, closer := wrap(w, sink, pfx)
		wg.Add(1)
		go func() { defer wg.Done(); drive(w, out, closer, true) }()
	}
	wg.Wait()
	var b strings.Builder
	fmt.Fprintf(&b, "output.concurrent %d", len(d.Writers))
	for _, w := range d.Writers {
		fmt.Fprintf(&b, " %s %s", w.Kind, w.tokens())
	}
	fmt.Fprintf(&b, " S %d", len(sink.writes))
	for _, wr := range sink.writes {
		b.WriteString(" " + hx(string(wr)))
	}
	return b.String(), "accept"
}

var outAlpha = []string{"a", "b", "a", "b", "\n", "\n", "\r", " ", "[", "]", "%", "é"}

func (c *Ctx) outBytes(max int) string {
	n := c.Rng.Intn(max + 1)
	var sb strings.Builder
	for i := 0; i < n; i++ {
		sb.WriteString(outAlpha[c.Rng.Intn(len(outAlpha))])
	}
	return sb.String()
}

func (c *Ctx) chunk(s string) []string {
	if c.Rng.Intn(6) == 0 {
		return []string{s}
	}
	var out []string
	for len(s) > 0 {
		k := 1 + c.Rng.Intn(4)
		if k > len(s) {
			k = len(s)
		}
		out = append(out, s[:k])
		s = s[k:]
		if c.Rng.Intn(8) == 0 {
			out = append(out, "")
		}
	}
	if out == nil {
		out = []string{}
	}
	return out
}

func (c *Ctx) genWriter(i int, kind string) outWriter {
	w := outWriter{Kind: kind, Chunks: c.chunk(c.outBytes(14))}
	if c.Rng.Intn(12) == 0 {
		// a big block (more than any buffered writer's default 4 KiB): it must still reach the shared
		// stream as the writes the model prescribes (one per group block, one per prefixed line)
		line := strings.Repeat(string(rune('a'+c.Rng.Intn(26))), 700+c.Rng.Intn(900))
		for k := 3 + c.Rng.Intn(8); k > 0; k-- {
			w.Chunks = append(w.Chunks, line+"\n")
		}
		c.Hit("big-block")
	}
	if c.Rng.Intn(2) == 0 {
		w.Err = make([]bool, len(w.Chunks))
		for i := range w.Err {
			w.Err[i] = c.Rng.Intn(3) == 0
		}
		c.Hit("stderr-chunks")
	}
	if kind == "p" {
		w.Prefix = fmt.Sprintf("t%d%s", i, []string{"", "", ":x", " y", "%d"}[c.Rng.Intn(5)])
	} else {
		if c.Rng.Intn(3) > 0 {
			w.Begin = fmt.Sprintf("::group::%d", i)
		}
		if c.Rng.Intn(3) > 0 {
			w.End = fmt.Sprintf("::end::%d", i)
		}
		w.ErrorOnly = c.Rng.Intn(3) == 0
		w.Failed = c.Rng.Intn(2) == 0
	}
	return w
}

func runOutput(c *Ctx) {
	if c.Replay(func(raw []byte) (string, string) {
		var d outCase
		mustJSON(raw, &d)
		return evalOutput(d)
	}) {
		return
	}
	emit := func(d outCase) {
		cl, il := evalOutput(d)
		nontriv := len(d.Writers) > 1
		for _, w := range d.Writers {
			c.Hit("writer:" + w.Kind)
			if len(w.Chunks) > 1 {
				joined := strings.Join(w.Chunks, "")
				if strings.Contains(joined, "\n") {
					nontriv = true
				}
			}
			if len(w.Chunks) == 0 || strings.Join(w.Chunks, "") == "" {
				c.Hit("empty-output")
			}
			if w.Kind == "g" && w.Begin != "" {
				c.Hit("group:begin")
			}
			if w.Kind == "g" && w.ErrorOnly {
				c.Hit("group:error_only")
			}
		}
		if len(d.Writers) > 1 {
			c.Hit("concurrent")
		}
		if nontriv {
			c.Distinct(cl)
		}
		c.Emit(cl, il, d)
	}
	// corpus
	emit(outCase{[]outWriter{{Kind: "p", Prefix: "t", Chunks: []string{"ab", "\nc", "d\ne"}}}})
	emit(outCase{[]outWriter{{Kind: "g", Begin: "B", End: "E", Chunks: []string{"a", "b\n"}}}})
	emit(outCase{[]outWriter{{Kind: "g", Begin: "B", End: "E", ErrorOnly: true, Chunks: []string{"x"}}}})
	n := c.Pick(3000, 40000)
	for i := 0; i < n; i++ {
		kind := []string{"p", "g"}[c.Rng.Intn(2)]
		emit(outCase{[]outWriter{c.genWriter(0, kind)}})
	}
	m := c.Pick(1500, 20000)
	for i := 0; i < m; i++ {
		k := 2 + c.Rng.Intn(3)
		var ws []outWriter
		// one output style per run, as in a Taskfile (the style is global)
		kind := []string{"p", "g"}[c.Rng.Intn(2)]
		// prefixed: a third of the runs give every writer the SAME prefix (two tasks with one `prefix:`, or one task
		// running twice in parallel): each command still has its own line buffer, so no line of one may be completed,
		// flushed or cut by another.  Their lines are non-empty and use writer-specific letters, so that the blocks of
		// different writers stay distinguishable for the acceptor.
		samePrefix := kind == "p" && c.Rng.Intn(3) == 0
		for j := 0; j < k; j++ {
			w := c.genWriter(j, kind)
			if samePrefix {
				var sb strings.Builder
				for l := 1 + c.Rng.Intn(4); l > 0; l-- {
					sb.WriteString(strings.Repeat(string(rune('a'+2*j+c.Rng.Intn(2))), 1+c.Rng.Intn(5)))
					if l > 1 || c.Rng.Intn(2) == 0 {
						sb.WriteString("\n")
					}
				}
				w = outWriter{Kind: "p", Prefix: "same", Chunks: c.chunk(sb.String())}
				if c.Rng.Intn(2) == 0 {
					w.Err = make([]bool, len(w.Chunks))
					for i := range w.Err {
						w.Err[i] = c.Rng.Intn(3) == 0
					}
				}
				c.Hit("same-prefix")
			}
			if kind == "g" && w.Begin == "" {
				// keep group blocks of different writers distinguishable
				w.Chunks = append([]string{fmt.Sprintf("<%d>", j)}, w.Chunks...)
			}
			ws = append(ws, w)
		}
		emit(outCase{ws})
	}
}
