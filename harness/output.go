package main

import (
	"errors"
	"fmt"
	"io"
	"runtime"
	"strings"
	"sync"

	"github.com/go-task/task/v3/taskfile/ast"
	"github.com/go-task/task/v3/verifhook/export"
)

func init() {
	domains["output"] = domain{runOutput,
		"byte strings over {a,b,newline,CR,space,'[',']','%'} cut into random chunks (empty chunks, partial lines, no trailing newline, empty output) " +
			"written through the real prefixed / group writers into a sink that records every Write; single-writer cases compare the exact sink " +
			"writes (one per prefixed line, one per group block); multi-producer cases: 2–4 goroutines write their own chunk sequences (producer-specific " +
			"letters, shared newlines) to the stdout / stderr writers of ONE wrapped writer, the sink must be what the writer emits for some interleaving " +
			"of the chunk sequences; concurrent cases (2–4 writers in goroutines, distinct prefixes / begin markers, or one shared prefix with " +
			"writer-specific line content; with prefixed writers, raw writers — a task with interactive: true, Task's own log lines — in between) must be an " +
			"interleaving of the writers' writes. non-trivial = more than one chunk and at least one line split across chunks, or a multi-producer / concurrent case; distinct by content+chunking"}
}

type recSink struct {
	mu     sync.Mutex
	writes [][]byte
	yield  bool
}

func (s *recSink) Write(p []byte) (int, error) {
	if s.yield {
		runtime.Gosched()
	}
	s.mu.Lock()
	s.writes = append(s.writes, append([]byte(nil), p...))
	s.mu.Unlock()
	if s.yield {
		runtime.Gosched()
	}
	return len(p), nil
}

type outWriter struct {
	Kind      string   `json:"kind"` // p | g
	Prefix    string   `json:"prefix,omitempty"`
	Begin     string   `json:"begin,omitempty"`
	End       string   `json:"end,omitempty"`
	ErrorOnly bool     `json:"error_only,omitempty"`
	Failed    bool     `json:"failed,omitempty"`
	Chunks    []string `json:"chunks"`
	// Err[i]: chunk i is written to the command's STDERR writer (second result of WrapWriter) instead of
	// its stdout writer.  Both streams of one command share one line buffer / one group buffer, so the
	// model does not look at the tag: every byte written to either stream must come out.
	Err []bool `json:"err,omitempty"`
	// Prods: the chunk sequences of FURTHER producers of the same command (the stages of a pipeline, a stage's stderr,
	// background jobs): each is written from its own goroutine, concurrently with `Chunks`, producer j to the stdout
	// writer when j is even and to the stderr writer when it is odd.  The closer is called when all are done.
	Prods [][]string `json:"prods,omitempty"`
}

type outCase struct {
	Writers []outWriter `json:"writers"`
}

func nlIf(s string) string {
	if s == "" {
		return ""
	}
	return s + "\n"
}

func chunkTokens(cs []string) string {
	var b strings.Builder
	fmt.Fprintf(&b, "%d", len(cs))
	for _, c := range cs {
		b.WriteString(" " + hx(c))
	}
	return b.String()
}

func (w outWriter) head() string {
	switch w.Kind {
	case "p":
		return hx(w.Prefix)
	case "g":
		return fmt.Sprintf("%s %s %s %s", hx(nlIf(w.Begin)), hx(nlIf(w.End)), b2s(w.ErrorOnly), b2s(w.Failed))
	}
	return ""
}

func (w outWriter) tokens() string {
	return strings.TrimSpace(w.head() + " " + chunkTokens(w.Chunks))
}

// multiTokens: `<head> <k> {<n> <chunk>*}^k` — all producers of the one writer
func (w outWriter) multiTokens() string {
	var b strings.Builder
	fmt.Fprintf(&b, "%s %d %s", w.head(), 1+len(w.Prods), chunkTokens(w.Chunks))
	for _, p := range w.Prods {
		b.WriteString(" " + chunkTokens(p))
	}
	return b.String()
}

type outPair struct{ out, err io.Writer }

func wrap(w outWriter, sink io.Writer, pfx *export.OutputPrefixed) (outPair, export.OutputCloseFunc) {
	cache := &export.TemplaterCache{Vars: ast.NewVars()}
	if w.Kind == "r" {
		// what runCommand uses for a task with `interactive: true`; Task's own log lines reach the stream the same way
		o, e, cl := export.OutputInterleaved{}.WrapWriter(sink, sink, w.Prefix, cache)
		return outPair{o, e}, cl
	}
	if w.Kind == "p" {
		o, e, cl := pfx.WrapWriter(sink, sink, w.Prefix, cache)
		return outPair{o, e}, cl
	}
	g := export.OutputGroup{Begin: w.Begin, End: w.End, ErrorOnly: w.ErrorOnly}
	o, e, cl := g.WrapWriter(sink, sink, "", cache)
	return outPair{o, e}, cl
}

func drive(w outWriter, pair outPair, cl export.OutputCloseFunc, yield bool) (panicked bool) {
	var pmu sync.Mutex
	var wg sync.WaitGroup
	for j, cs := range w.Prods {
		j, cs := j, cs
		wg.Add(1)
		go func() {
			defer wg.Done()
			defer func() {
				if r := recover(); r != nil {
					pmu.Lock()
					panicked = true
					pmu.Unlock()
				}
			}()
			out := pair.out
			if (j+1)%2 == 1 {
				out = pair.err
			}
			for _, c := range cs {
				out.Write([]byte(c))
				if len(c)%2 == 0 && len(cs) < 100 {
					runtime.Gosched()
				}
			}
		}()
	}
	for i, c := range w.Chunks {
		out := pair.out
		if i < len(w.Err) && w.Err[i] {
			out = pair.err
		}
		out.Write([]byte(c))
		if yield || (len(w.Prods) > 0 && len(c)%2 == 1 && len(w.Chunks) < 100) {
			runtime.Gosched()
		}
	}
	wg.Wait()
	var err error
	if w.Failed {
		err = errors.New("exit status 1")
	}
	cl(err)
	return panicked
}

func sinkTokens(sink *recSink) string {
	var b strings.Builder
	fmt.Fprintf(&b, "S %d", len(sink.writes))
	for _, wr := range sink.writes {
		b.WriteString(" " + hx(string(wr)))
	}
	return b.String()
}

func evalOutput(d outCase) (cl string, il string) {
	defer func() {
		if r := recover(); r != nil {
			il = "panic"
		}
	}()
	sink := &recSink{}
	logger := &export.Logger{Stdout: sink, Stderr: sink, Color: false}
	pfx := export.OutputNewPrefixed(logger)
	if len(d.Writers) == 1 && len(d.Writers[0].Prods) > 0 {
		// several producers, one writer
		w := d.Writers[0]
		out, closer := wrap(w, sink, pfx)
		if drive(w, out, closer, false) {
			return "output.multi " + w.Kind + " " + w.multiTokens() + " S 0", "panic"
		}
		return "output.multi " + w.Kind + " " + w.multiTokens() + " " + sinkTokens(sink), "accept"
	}
	if len(d.Writers) == 1 {
		w := d.Writers[0]
		out, closer := wrap(w, sink, pfx)
		drive(w, out, closer, false)
		// the exact sink writes (empty ones aside): ONE per prefixed line, ONE per group block
		parts := []string{}
		n := 0
		for _, wr := range sink.writes {
			if len(wr) == 0 {
				continue
			}
			n++
			parts = append(parts, hx(string(wr)))
		}
		op := "output.group "
		if w.Kind == "p" {
			op = "output.prefixed "
		}
		return op + w.tokens(), strings.TrimSpace(fmt.Sprint(n) + " " + strings.Join(parts, " "))
	}
	sink.yield = true
	var wg sync.WaitGroup
	for _, w := range d.Writers {
		w := w
		out, closer := wrap(w, sink, pfx)
		wg.Add(1)
		go func() { defer wg.Done(); drive(w, out, closer, true) }()
	}
	wg.Wait()
	var b strings.Builder
	fmt.Fprintf(&b, "output.concurrent %d", len(d.Writers))
	for _, w := range d.Writers {
		fmt.Fprintf(&b, " %s %s", w.Kind, w.tokens())
	}
	b.WriteString(" " + sinkTokens(sink))
	return b.String(), "accept"
}

var outAlpha = []string{"a", "b", "a", "b", "\n", "\n", "\r", " ", "[", "]", "%", "é"}

func (c *Ctx) outBytes(max int) string {
	n := c.Rng.Intn(max + 1)
	var sb strings.Builder
	for i := 0; i < n; i++ {
		sb.WriteString(outAlpha[c.Rng.Intn(len(outAlpha))])
	}
	return sb.String()
}

func (c *Ctx) chunk(s string) []string {
	if c.Rng.Intn(6) == 0 {
		return []string{s}
	}
	var out []string
	for len(s) > 0 {
		k := 1 + c.Rng.Intn(4)
		if k > len(s) {
			k = len(s)
		}
		out = append(out, s[:k])
		s = s[k:]
		if c.Rng.Intn(8) == 0 {
			out = append(out, "")
		}
	}
	if out == nil {
		out = []string{}
	}
	return out
}

func (c *Ctx) genWriter(i int, kind string) outWriter {
	w := outWriter{Kind: kind, Chunks: c.chunk(c.outBytes(14))}
	if c.Rng.Intn(12) == 0 {
		// a big block (more than any buffered writer's default 4 KiB): it must still reach the shared
		// stream as the writes the model prescribes (one per group block, one per prefixed line)
		line := strings.Repeat(string(rune('a'+c.Rng.Intn(26))), 700+c.Rng.Intn(900))
		for k := 3 + c.Rng.Intn(8); k > 0; k-- {
			w.Chunks = append(w.Chunks, line+"\n")
		}
		c.Hit("big-block")
	}
	if c.Rng.Intn(2) == 0 {
		w.Err = make([]bool, len(w.Chunks))
		for i := range w.Err {
			w.Err[i] = c.Rng.Intn(3) == 0
		}
		c.Hit("stderr-chunks")
	}
	if kind == "p" {
		w.Prefix = fmt.Sprintf("t%d%s", i, []string{"", "", ":x", " y", "%d"}[c.Rng.Intn(5)])
	} else {
		if c.Rng.Intn(3) > 0 {
			w.Begin = fmt.Sprintf("::group::%d", i)
		}
		if c.Rng.Intn(3) > 0 {
			w.End = fmt.Sprintf("::end::%d", i)
		}
		w.ErrorOnly = c.Rng.Intn(3) == 0
		w.Failed = c.Rng.Intn(2) == 0
	}
	return w
}

// genMulti: one wrapped writer fed by k producers.  Producer j writes letters of its own (so the order of the chunks in
// the interleaved stream can be read off the output) and newlines (shared: a line is completed by whoever writes the
// next newline); short chunks, about one newline every second chunk, so that lines are made of chunks of several producers.
func (c *Ctx) genMulti(kind string) outWriter {
	k := 2 + c.Rng.Intn(3)
	// one case in five is HEAVY: hundreds of chunks per producer, written without yielding — what a pipeline whose
	// stages print in loops does to the one buffer
	heavy := c.Rng.Intn(5) == 0 || (kind == "g" && c.Rng.Intn(3) == 0)
	if heavy {
		c.Hit("multi-producer:heavy")
	}
	mk := func(j int) []string {
		n := 4 + c.Rng.Intn(c.Pick(28, 60))
		if heavy {
			n = 300 + c.Rng.Intn(500)
		}
		var cs []string
		for i := 0; i < n; i++ {
			var sb strings.Builder
			nl := c.Rng.Intn(4)
			if j > 0 && nl == 0 {
				// only producer 0 writes chunks that BEGIN with a newline (the way echo writes a line: text, then "\n"):
				// every other chunk begins with a letter of its producer, so the first byte of a chunk names its producer
				// and the acceptor's search never has two candidates (with several producers writing bare newlines the
				// backtracking search is exponential in their number)
				nl = 1
			}
			for l := nl; l > 0; l-- {
				sb.WriteByte(byte('a' + 2*j + c.Rng.Intn(2)))
			}
			switch c.Rng.Intn(4) {
			case 0:
				sb.WriteString("\n")
			case 1:
				// a newline in the middle: the chunk completes a line and starts the next
				sb.WriteString("\n" + string(rune('a'+2*j)))
			}
			cs = append(cs, sb.String())
		}
		return cs
	}
	w := outWriter{Kind: kind, Chunks: mk(0)}
	for j := 1; j < k; j++ {
		w.Prods = append(w.Prods, mk(j))
	}
	if kind == "p" {
		w.Prefix = "m"
	} else {
		if c.Rng.Intn(2) == 0 {
			w.Begin = "::group::m"
		}
		if c.Rng.Intn(2) == 0 {
			w.End = "::end::m"
		}
		w.ErrorOnly = c.Rng.Intn(3) == 0
		w.Failed = c.Rng.Intn(2) == 0
	}
	return w
}

// genRaw: a writer that goes straight to the shared stream (interactive task / Task's own log lines): upper-case
// content, so that its writes cannot be taken for a prefixed line
func (c *Ctx) genRaw(j int) outWriter {
	n := 1 + c.Rng.Intn(6)
	var cs []string
	for i := 0; i < n; i++ {
		s := strings.Repeat(string(rune('R'+j%4)), 1+c.Rng.Intn(4))
		switch c.Rng.Intn(3) {
		case 0:
			cs = append(cs, s, "\n") // the way mvdan/sh's echo writes a line
		case 1:
			cs = append(cs, s+"\n")
		default:
			cs = append(cs, s)
		}
	}
	return outWriter{Kind: "r", Chunks: cs}
}

func runOutput(c *Ctx) {
	if c.Replay(func(raw []byte) (string, string) {
		var d outCase
		mustJSON(raw, &d)
		return evalOutput(d)
	}) {
		return
	}
	emit := func(d outCase) {
		cl, il := evalOutput(d)
		nontriv := len(d.Writers) > 1
		for _, w := range d.Writers {
			c.Hit("writer:" + w.Kind)
			if len(w.Chunks) > 1 {
				joined := strings.Join(w.Chunks, "")
				if strings.Contains(joined, "\n") {
					nontriv = true
				}
			}
			if len(w.Prods) > 0 {
				c.Hit("multi-producer:" + w.Kind)
				nontriv = true
			}
			if len(w.Chunks) == 0 || strings.Join(w.Chunks, "") == "" {
				c.Hit("empty-output")
			}
			if w.Kind == "g" && w.Begin != "" {
				c.Hit("group:begin")
			}
			if w.Kind == "g" && w.ErrorOnly {
				c.Hit("group:error_only")
			}
		}
		if len(d.Writers) > 1 {
			c.Hit("concurrent")
		}
		if nontriv {
			c.Distinct(cl)
		}
		c.Emit(cl, il, d)
	}
	// corpus
	emit(outCase{[]outWriter{{Kind: "p", Prefix: "t", Chunks: []string{"ab", "\nc", "d\ne"}}}})
	emit(outCase{[]outWriter{{Kind: "g", Begin: "B", End: "E", Chunks: []string{"a", "b\n"}}}})
	emit(outCase{[]outWriter{{Kind: "g", Begin: "B", End: "E", ErrorOnly: true, Chunks: []string{"x"}}}})
	// the two situations the repairs O8-1 / O8-2 are about
	emit(outCase{[]outWriter{{Kind: "p", Prefix: "m", Chunks: []string{"aa", "\n", "ab\na", "a", "\n"}, Prods: [][]string{{"cc", "\n", "d", "dc\n", "c"}, {"e\nf", "\n", "ee\n"}}}}})
	emit(outCase{[]outWriter{{Kind: "g", Begin: "B", End: "E", Chunks: []string{"aa", "\n", "ab\na"}, Prods: [][]string{{"cc", "\n", "d"}, {"e\nf", "\n"}}}}})
	emit(outCase{[]outWriter{{Kind: "p", Prefix: "b", Chunks: []string{"line 1\nline 2\n", "line 3\n"}}, {Kind: "r", Chunks: []string{"RAW", "\n", "RAW\n"}}}})
	mp := c.Pick(700, 8000)
	for i := 0; i < mp; i++ {
		emit(outCase{[]outWriter{c.genMulti([]string{"p", "g"}[c.Rng.Intn(2)])}})
	}
	n := c.Pick(3000, 40000)
	for i := 0; i < n; i++ {
		kind := []string{"p", "g"}[c.Rng.Intn(2)]
		emit(outCase{[]outWriter{c.genWriter(0, kind)}})
	}
	m := c.Pick(1500, 20000)
	for i := 0; i < m; i++ {
		k := 2 + c.Rng.Intn(3)
		var ws []outWriter
		// one output style per run, as in a Taskfile (the style is global)
		kind := []string{"p", "g"}[c.Rng.Intn(2)]
		// prefixed: a third of the runs give every writer the SAME prefix (two tasks with one `prefix:`, or one task
		// running twice in parallel): each command still has its own line buffer, so no line of one may be completed,
		// flushed or cut by another.  Their lines are non-empty and use writer-specific letters, so that the blocks of
		// different writers stay distinguishable for the acceptor.
		samePrefix := kind == "p" && c.Rng.Intn(3) == 0
		for j := 0; j < k; j++ {
			w := c.genWriter(j, kind)
			if samePrefix {
				var sb strings.Builder
				for l := 1 + c.Rng.Intn(4); l > 0; l-- {
					sb.WriteString(strings.Repeat(string(rune('a'+2*j+c.Rng.Intn(2))), 1+c.Rng.Intn(5)))
					if l > 1 || c.Rng.Intn(2) == 0 {
						sb.WriteString("\n")
					}
				}
				w = outWriter{Kind: "p", Prefix: "same", Chunks: c.chunk(sb.String())}
				if c.Rng.Intn(2) == 0 {
					w.Err = make([]bool, len(w.Chunks))
					for i := range w.Err {
						w.Err[i] = c.Rng.Intn(3) == 0
					}
				}
				c.Hit("same-prefix")
			}
			if kind == "g" && w.Begin == "" {
				// keep group blocks of different writers distinguishable
				w.Chunks = append([]string{fmt.Sprintf("<%d>", j)}, w.Chunks...)
			}
			ws = append(ws, w)
		}
		// prefixed: every other run has one or two raw writers among the prefixed ones (a task with `interactive: true`
		// gets output.Interleaved whatever the style; Task's own log lines go to the stream directly): their writes may
		// land between two prefixed lines, never inside one
		if kind == "p" && c.Rng.Intn(2) == 0 {
			for r := 1 + c.Rng.Intn(2); r > 0; r-- {
				ws = append(ws, c.genRaw(r))
			}
			c.Hit("raw-among-prefixed")
		}
		emit(outCase{ws})
	}
}
