package main

// Domain "load" (properties C08, C09): include trees are generated as abstract values,
// written to disk as YAML by this file's own serialiser, and the SAME abstract value is
// sent to the Lean model.  Every file written is parsed back with the repo's own
// decoder and compared with the abstract value (self-check), so the serialiser cannot
// make model and implementation talk about different trees without being noticed.
// Each tree is loaded repeatedly in this process through the public API
// (task.NewExecutor + Setup); all loads must give the same canonical dump (C09) and the
// dump must equal the model's Graph.merge under the canonical order (C08/C09).

import (
	"bytes"
	"encoding/json"
	stdcmp "cmp"
	stderrors "errors"
	"fmt"
	"os"
	"path/filepath"
	"runtime"
	"sort"
	"strconv"
	"strings"
	"sync"
	"sync/atomic"

	task "github.com/go-task/task/v3"
	"github.com/go-task/task/v3/errors"
	"github.com/go-task/task/v3/taskfile/ast"
	"gopkg.in/yaml.v3"
)

func init() {
	domains["loadrep"] = domain{runLoadRep,
		"wide shallow include trees (2..6 files, most of them siblings included by the root, one file under several " +
			"namespaces, diamonds, two variable names shared by all files), each loaded 40 (quick) / 200 (thorough) times in " +
			"one process; every load must give the same dump and the dump must equal the model's canonical merge; " +
			"distinct = tree shape with at least two sibling includes or one file included twice and a name defined at two sites"}
	domains["loaddeep"] = domain{runLoadDeep,
		"the include trees of domain load (depth <= 3 quick / 4 thorough, every include option), three variable names, " +
			"each loaded 25 (quick) / 100 (thorough) times in one process; all dumps equal and equal to the model; distinct as in load"}
	domains["loadresolve"] = domain{runLoadResolve,
		"non-trivial = distinct generated (tree, requests) with a request through >= 2 namespace levels that resolves"}
	domains["load"] = domain{runLoad,
		"include trees of 2..6 files (depth <= 3 quick / 4 thorough; diamonds, one file under several namespaces, " +
			"cycles, missing/optional files, version/dotenv errors, one key used twice in tasks / includes / vars / env / " +
			"task vars / include vars: must be the decode error) with every include option and task attribute drawn " +
			"independently and small shared pools of task, namespace, alias and variable names; dependencies and task: " +
			"targets are own names, ':'-prefixed root references (in the root file, at depth 1..3(4), inside and below " +
			"flattened includes; each such tree is also checked by the root-reference monitor load.refs), references " +
			"into includes and unknown names; each tree is loaded 20 " +
			"(quick) / 100 (thorough) times in one process; distinct = tree shape (include edges with options, task " +
			"names per file) having at least one include and one task or variable name defined at two sites"}
}

// ---------------------------------------------------------------- abstract trees

type ldVar struct {
	K int `json:"k"`
	V int `json:"v"`
}

type ldCmd struct {
	Task string `json:"task,omitempty"`
	Sh   int    `json:"sh,omitempty"`
}

type ldTask struct {
	Name     string   `json:"name"`
	Cmds     []ldCmd  `json:"cmds,omitempty"`
	Deps     []string `json:"deps,omitempty"`
	Aliases  []string `json:"aliases,omitempty"`
	Internal bool     `json:"internal,omitempty"`
	Dir      []int    `json:"dir,omitempty"`
	Attrs    []int    `json:"attrs"`
	Vars     []ldVar  `json:"vars,omitempty"`
}

type ldInclude struct {
	NS       string   `json:"ns"`
	File     int      `json:"file"`
	Dir      []int    `json:"dir,omitempty"`
	Optional bool     `json:"optional,omitempty"`
	Internal bool     `json:"internal,omitempty"`
	Flatten  bool     `json:"flatten,omitempty"`
	Advanced bool     `json:"advanced,omitempty"`
	Aliases  []string `json:"aliases,omitempty"`
	Excludes []string `json:"excludes,omitempty"`
	Vars     []ldVar  `json:"vars,omitempty"`
}

type ldFile struct {
	ID       int         `json:"id"`
	Base     string      `json:"base"`
	Dir      []int       `json:"dir,omitempty"`
	Version  int         `json:"version"` // 3 → '3', 31 → '3.1', 0 → no version key
	Dotenv   bool        `json:"dotenv,omitempty"`
	Silent   bool        `json:"silent,omitempty"` // file-level defaults for the tasks of the file …
	Method   int         `json:"method,omitempty"` // 0 = not declared, 1 checksum, 2 timestamp, 3 none
	Run      int         `json:"run,omitempty"`    // 0 = not declared, 1 always, 2 once, 3 when_changed
	Set      int         `json:"set,omitempty"`    // bit set over ldSetPool
	Shopt    int         `json:"shopt,omitempty"`  // bit set over ldShoptPool
	Output   int         `json:"output,omitempty"` // … and the output style: 0 = not set, 1 interleaved, 2 group, 3 prefixed
	Vars     []ldVar     `json:"vars,omitempty"`
	Env      []ldVar     `json:"env,omitempty"`
	Includes []ldInclude `json:"includes,omitempty"`
	Tasks    []ldTask    `json:"tasks,omitempty"`
}

type ldCase struct {
	Op    string   `json:"op"`              // "tree" | "refs"
	Probe int      `json:"probe,omitempty"` // k > 0: compile every k-th merged task on the first load
	Root  int      `json:"root"`
	Files []ldFile `json:"files"`
	Loads int      `json:"loads"`
	Note  string   `json:"note,omitempty"`
	Reqs  []string `json:"reqs,omitempty"` // op "resolve": names asked of the merged table (C15)
}

const nAttrs = 21

var attrNames = [nAttrs]string{"silent", "interactive", "ignore_error", "watch", "method", "run", "prefix", "label", "desc",
	"summary", "platforms", "sources", "generates", "status", "preconditions", "set", "shopt", "env", "dotenv", "prompt", "requires"}

// number of non-zero variants of each attribute
// (set and shopt are bit sets over their option pools: every non-empty subset is a variant)
var attrVariants = [nAttrs]int{1, 1, 1, 1, 3, 3, 3, 3, 3, 3, 3, 2, 2, 2, 2, 7, 3, 2, 2, 2, 2}

const (
	posSet   = 15
	posShopt = 16
)

var (
	ldSetPool    = []string{"errexit", "pipefail", "nounset"}
	ldShoptPool  = []string{"globstar", "nullglob"}
	ldMethods    = []string{"", "checksum", "timestamp", "none"}
	ldRuns       = []string{"", "always", "once", "when_changed"}
	ldOutputs    = []string{"", "interleaved", "group", "prefixed"}
)

func maskList(pool []string, mask int) string {
	var out []string
	for i, o := range pool {
		if mask&(1<<i) != 0 {
			out = append(out, o)
		}
	}
	return "[" + strings.Join(out, ", ") + "]"
}

// listMask: the bit set of a list of options (order and repetitions do not matter: UniqueJoin
// sorts and compacts); an option outside the pool gives 999
func listMask(pool []string, l []string) int {
	m := 0
	for _, o := range l {
		found := false
		for i, p := range pool {
			if o == p {
				m |= 1 << i
				found = true
			}
		}
		if !found {
			return 999
		}
	}
	return m
}

func nameIndex(pool []string, s string) int {
	for i, p := range pool {
		if p == s {
			return i
		}
	}
	return 999
}

func dirName(seg int) string { return "d" + strconv.Itoa(seg) }
func keyName(k int) string   { return "K" + strconv.Itoa(k) }
func valName(v int) string   { return "v" + strconv.Itoa(v) }

func segsPath(segs []int) string {
	parts := make([]string, len(segs))
	for i, s := range segs {
		parts[i] = dirName(s)
	}
	return filepath.Join(parts...)
}

func (f *ldFile) relPath() string { return filepath.Join(segsPath(f.Dir), f.Base) }

func missingBase(id int) string { return fmt.Sprintf("zz-missing%d.yml", id) }

// ---------------------------------------------------------------- YAML serialiser

func q(s string) string { return strconv.Quote(s) }

func attrYAML(i, k int) string {
	if k == 0 {
		return ""
	}
	n := attrNames[i]
	switch n {
	case "silent", "interactive", "ignore_error", "watch":
		return n + ": true"
	case "method":
		return "method: " + []string{"", "checksum", "timestamp", "none"}[k]
	case "run":
		return "run: " + []string{"", "always", "once", "when_changed"}[k]
	case "prefix", "label", "desc", "summary":
		return fmt.Sprintf("%s: %q", n, fmt.Sprintf("%s%d", n[:1], k))
	case "platforms":
		return "platforms: " + []string{"", "[linux]", "[linux, darwin/arm64]", "[windows/amd64]"}[k]
	case "sources":
		return []string{"", `sources: ["src1.txt"]`, `sources: ["src/**/*.go", {exclude: "src/x.go"}]`}[k]
	case "generates":
		return []string{"", `generates: ["gen1.txt"]`, `generates: ["out/a", "out/b"]`}[k]
	case "status":
		return []string{"", `status: ["test -f st1"]`, `status: ["test -f st2", "true"]`}[k]
	case "preconditions":
		return []string{"", `preconditions: [{sh: "test -f pc1", msg: "m1"}]`, `preconditions: ["true"]`}[k]
	case "set":
		return "set: " + maskList(ldSetPool, k)
	case "shopt":
		return "shopt: " + maskList(ldShoptPool, k)
	case "env":
		return []string{"", `env: {EK: "e1"}`, `env: {EK: "e2", EL: "x"}`}[k]
	case "dotenv":
		return []string{"", `dotenv: [".env1"]`, `dotenv: [".env2", ".env3"]`}[k]
	case "prompt":
		return []string{"", `prompt: "q1"`, `prompt: ["q2", "q3"]`}[k]
	case "requires":
		return []string{"", `requires: {vars: [RQ1]}`, `requires: {vars: [RQ2, {name: RQ3, enum: [x, y]}]}`}[k]
	}
	panic("attr")
}

func varsYAML(b *strings.Builder, indent, key string, vs []ldVar) {
	if len(vs) == 0 {
		return
	}
	fmt.Fprintf(b, "%s%s:\n", indent, key)
	for _, v := range vs {
		fmt.Fprintf(b, "%s  %s: %q\n", indent, keyName(v.K), valName(v.V))
	}
}

func strsYAML(ss []string) string {
	qs := make([]string, len(ss))
	for i, s := range ss {
		qs[i] = q(s)
	}
	return "[" + strings.Join(qs, ", ") + "]"
}

// fileYAML renders one abstract file; pathOf gives the path of an included file
// relative to the tree root.
func fileYAML(f *ldFile, pathOf func(id int) string) string {
	var b strings.Builder
	switch f.Version {
	case 0:
	case 31:
		b.WriteString("version: '3.1'\n")
	default:
		fmt.Fprintf(&b, "version: '%d'\n", f.Version)
	}
	if f.Dotenv {
		b.WriteString("dotenv: ['.env']\n")
	}
	if f.Silent {
		b.WriteString("silent: true\n")
	}
	if f.Method != 0 {
		b.WriteString("method: " + ldMethods[f.Method] + "\n")
	}
	if f.Run != 0 {
		b.WriteString("run: " + ldRuns[f.Run] + "\n")
	}
	if f.Set != 0 {
		b.WriteString("set: " + maskList(ldSetPool, f.Set) + "\n")
	}
	if f.Shopt != 0 {
		b.WriteString("shopt: " + maskList(ldShoptPool, f.Shopt) + "\n")
	}
	if f.Output != 0 {
		b.WriteString("output: " + ldOutputs[f.Output] + "\n")
	}
	varsYAML(&b, "", "vars", f.Vars)
	varsYAML(&b, "", "env", f.Env)
	if len(f.Includes) > 0 {
		b.WriteString("includes:\n")
		for _, inc := range f.Includes {
			rel, err := filepath.Rel(filepath.Join("/r", segsPath(f.Dir)), filepath.Join("/r", pathOf(inc.File)))
			if err != nil {
				panic(err)
			}
			if !strings.HasPrefix(rel, ".") {
				rel = "./" + rel
			}
			if !inc.Advanced {
				fmt.Fprintf(&b, "  %s: %s\n", q(inc.NS), q(rel))
				continue
			}
			fmt.Fprintf(&b, "  %s:\n    taskfile: %s\n", q(inc.NS), q(rel))
			if len(inc.Dir) > 0 {
				fmt.Fprintf(&b, "    dir: %s\n", q(segsPath(inc.Dir)))
			}
			if inc.Optional {
				b.WriteString("    optional: true\n")
			}
			if inc.Internal {
				b.WriteString("    internal: true\n")
			}
			if inc.Flatten {
				b.WriteString("    flatten: true\n")
			}
			if len(inc.Aliases) > 0 {
				fmt.Fprintf(&b, "    aliases: %s\n", strsYAML(inc.Aliases))
			}
			if len(inc.Excludes) > 0 {
				fmt.Fprintf(&b, "    excludes: %s\n", strsYAML(inc.Excludes))
			}
			varsYAML(&b, "    ", "vars", inc.Vars)
		}
	}
	b.WriteString("tasks:\n")
	if len(f.Tasks) == 0 {
		b.WriteString("  {}\n")
	}
	for _, t := range f.Tasks {
		fmt.Fprintf(&b, "  %s:\n", q(t.Name))
		b.WriteString("    cmds:")
		if len(t.Cmds) == 0 {
			b.WriteString(" []\n")
		} else {
			b.WriteString("\n")
			for _, c := range t.Cmds {
				if c.Task != "" {
					fmt.Fprintf(&b, "      - task: %s\n", q(c.Task))
				} else if c.Sh == ldMatchSh {
					fmt.Fprintf(&b, "      - %s\n", q(ldMatchCmd))
				} else {
					fmt.Fprintf(&b, "      - %s\n", q(fmt.Sprintf("echo c%d", c.Sh)))
				}
			}
		}
		if len(t.Deps) > 0 {
			fmt.Fprintf(&b, "    deps: %s\n", strsYAML(t.Deps))
		}
		if len(t.Aliases) > 0 {
			fmt.Fprintf(&b, "    aliases: %s\n", strsYAML(t.Aliases))
		}
		if t.Internal {
			b.WriteString("    internal: true\n")
		}
		if len(t.Dir) > 0 {
			fmt.Fprintf(&b, "    dir: %s\n", q(segsPath(t.Dir)))
		}
		for i, k := range t.Attrs {
			if y := attrYAML(i, k); y != "" {
				b.WriteString("    " + y + "\n")
			}
		}
		varsYAML(&b, "    ", "vars", t.Vars)
	}
	return b.String()
}

// ---------------------------------------------------------------- decoding what the repo loaded

// attrCanon renders every attribute of a loaded task as a canonical string.
func attrCanon(t *ast.Task) [nAttrs]string {
	js := func(v any) string { b, _ := json.Marshal(v); return string(b) }
	var env []string
	if t.Env != nil {
		for k, v := range t.Env.All() {
			env = append(env, fmt.Sprintf("%s=%v", k, v.Value))
		}
	}
	return [nAttrs]string{
		b2s(t.Silent), b2s(t.Interactive), b2s(t.IgnoreError), b2s(t.Watch), t.Method, t.Run, t.Prefix, t.Label, t.Desc,
		t.Summary, js(t.Platforms), js(t.Sources), js(t.Generates), js(t.Status), js(t.Preconditions), js(t.Set),
		js(t.Shopt), js(env), js(t.Dotenv), js(t.Prompt), js(t.Requires),
	}
}

// attrTable[i][k] = canonical string of attribute i in variant k, obtained by decoding
// the serialiser's own YAML for that variant with the repo's decoder.
var attrTable [nAttrs][]string

func parseTaskfile(src string) (*ast.Taskfile, error) {
	var tf ast.Taskfile
	if err := yaml.Unmarshal([]byte(src), &tf); err != nil {
		return nil, err
	}
	return &tf, nil
}

var attrOnce sync.Once

func initAttrTable() { attrOnce.Do(buildAttrTable) }

func buildAttrTable() {
	for i := 0; i < nAttrs; i++ {
		for k := 0; k <= attrVariants[i]; k++ {
			at := make([]int, nAttrs)
			at[i] = k
			f := ldFile{Version: 3, Tasks: []ldTask{{Name: "t", Attrs: at}}}
			tf, err := parseTaskfile(fileYAML(&f, nil))
			if err != nil {
				panic(fmt.Sprintf("attribute table: %s variant %d: %v", attrNames[i], k, err))
			}
			t, _ := tf.Tasks.Get("t")
			attrTable[i] = append(attrTable[i], attrCanon(t)[i])
		}
	}
}

func decodeAttrs(t *ast.Task) []int {
	c := attrCanon(t)
	out := make([]int, nAttrs)
	for i := 0; i < nAttrs; i++ {
		out[i] = 999
		if i == posSet {
			out[i] = listMask(ldSetPool, t.Set)
			continue
		}
		if i == posShopt {
			out[i] = listMask(ldShoptPool, t.Shopt)
			continue
		}
		for k, s := range attrTable[i] {
			if s == c[i] {
				out[i] = k
				break
			}
		}
	}
	return out
}

// the command that prints the wildcard values of the call ({{.MATCH}}), unambiguously; in the
// abstract tree it is the shell command number ldMatchSh
const ldMatchSh = 9000
const ldMatchPrefix = "echo c9000 "
const ldMatchCmd = ldMatchPrefix + "{{range .MATCH}}<{{.}}>{{end}}"

func decodeSh(cmd string) int {
	if cmd == ldMatchCmd {
		return ldMatchSh
	}
	return decodeNum(cmd, "echo c")
}

func decodeNum(s, prefix string) int {
	if strings.HasPrefix(s, prefix) {
		if n, err := strconv.Atoi(s[len(prefix):]); err == nil && n >= 0 {
			return n
		}
	}
	return 99999
}

// dirDump: "a|r <n> <seg>*" — absolute paths are shown relative to the tree root.
func dirDump(root, d string) string {
	kind := "r"
	if filepath.IsAbs(d) {
		kind = "a"
		rel, err := filepath.Rel(root, d)
		if err != nil || strings.HasPrefix(rel, "..") {
			return "a 1 99998"
		}
		d = rel
	}
	d = filepath.Clean(d)
	if d == "." || d == "" {
		return kind + " 0"
	}
	parts := strings.Split(d, string(filepath.Separator))
	out := []string{kind, strconv.Itoa(len(parts))}
	for _, p := range parts {
		out = append(out, strconv.Itoa(decodeNum(p, "d")))
	}
	return strings.Join(out, " ")
}

func varsDump(root string, vs *ast.Vars) string {
	if vs == nil {
		return "0"
	}
	out := []string{strconv.Itoa(vs.Len())}
	for k, v := range vs.All() {
		val := 99999
		if s, ok := v.Value.(string); ok {
			val = decodeNum(s, "v")
		}
		dir := "r 0"
		if v.Dir != "" {
			dir = dirDump(root, v.Dir)
		}
		out = append(out, strconv.Itoa(decodeNum(k, "K")), strconv.Itoa(val), dir)
	}
	return strings.Join(out, " ")
}

func namesDump(ns []string) string {
	out := []string{strconv.Itoa(len(ns))}
	for _, n := range ns {
		out = append(out, hx(n))
	}
	return strings.Join(out, " ")
}

func cmdsDump(cmds []*ast.Cmd) string {
	out := []string{strconv.Itoa(len(cmds))}
	for _, c := range cmds {
		if c == nil {
			out = append(out, "nil", "0")
			continue
		}
		if c.Task != "" {
			out = append(out, hx(c.Task), "0")
		} else {
			out = append(out, "-", strconv.Itoa(decodeSh(c.Cmd)))
		}
	}
	return strings.Join(out, " ")
}

func depNames(deps []*ast.Dep) []string {
	var out []string
	for _, d := range deps {
		if d == nil {
			out = append(out, "<nil>")
		} else {
			out = append(out, d.Task)
		}
	}
	return out
}

type ldLoaded struct {
	dump  string // canonical dump of the merged table (or "err …")
	refs  string // projection used by the root-reference monitor
	probe string // " PR <m> (<idx> <dir> <n> (<key> <val|->)*)*" when a probe was asked for
	ok    bool
}

func classifyErr(err error) string {
	code := 1
	var te errors.TaskError
	if stderrors.As(err, &te) {
		code = te.Code()
	}
	var cyc errors.TaskfileCycleError
	var cycp *errors.TaskfileCycleError
	var conf *errors.TaskNameFlattenConflictError
	var vc *errors.TaskfileVersionCheckError
	var dec *errors.TaskfileDecodeError
	class := "other"
	switch {
	case stderrors.As(err, &dec):
		class = "decode"
	case stderrors.As(err, &cyc), stderrors.As(err, &cycp):
		class = "cycle"
	case stderrors.As(err, &conf):
		class = "conflict"
	case stderrors.As(err, &vc):
		class = "versioncheck"
	case stderrors.Is(err, os.ErrNotExist):
		class = "missing"
	case stderrors.Is(err, ast.ErrIncludedTaskfilesCantHaveDotenvs):
		class = "dotenv"
	case strings.Contains(err.Error(), "versions should match"):
		class = "version"
	default:
		class = "other:" + hx(err.Error())
	}
	return fmt.Sprintf("err %s %d", class, code)
}

// resolveOnce loads the tree and asks the executor to resolve each requested name (C15 over a
// merged table): `found <name> <nw> <w>*` | `conflict <n> <name>*` (sorted) | `notfound`, joined by " | ".
func resolveOnce(root string, reqs []string) (res string) {
	defer func() {
		if r := recover(); r != nil {
			res = "panic"
		}
	}()
	var out, errb bytes.Buffer
	e := task.NewExecutor(task.WithDir(root), task.WithStdout(&out), task.WithStderr(&errb), task.WithVersionCheck(true))
	if err := e.Setup(); err != nil {
		return classifyErr(err)
	}
	parts := []string{"ok"}
	for _, rq := range reqs {
		call := &task.Call{Task: rq}
		t, err := e.GetTask(call)
		var nf *errors.TaskNotFoundError
		var cf *errors.TaskNameConflictError
		switch {
		case err == nil:
			ws := []string{}
			if call.Vars != nil {
				if m, ok := call.Vars.Get("MATCH"); ok {
					if l, ok := m.Value.([]string); ok {
						ws = l
					}
				}
			}
			// what a command of the task sees as {{.MATCH}}: compile the call and read the rendered text
			rendered := "-"
			for _, cm := range t.Cmds {
				if cm != nil && cm.Cmd == ldMatchCmd {
					rendered = "not-rendered"
					if ct, cerr := e.CompiledTask(call); cerr != nil {
						rendered = "compile-error:" + hx(cerr.Error())
					} else {
						for _, cc := range ct.Cmds {
							if cc != nil && strings.HasPrefix(cc.Cmd, ldMatchPrefix) {
								rendered = hx(strings.TrimPrefix(cc.Cmd, ldMatchPrefix))
							}
						}
					}
					break
				}
			}
			parts = append(parts, strings.TrimSpace(fmt.Sprintf("found %s %d %s", hx(t.Task), len(ws), hxs(ws)))+" R "+rendered)
		case errors.As(err, &nf):
			parts = append(parts, "notfound")
		case errors.As(err, &cf):
			ns := append([]string{}, cf.TaskNames...)
			sort.Strings(ns)
			parts = append(parts, strings.TrimSpace(fmt.Sprintf("conflict %d %s", len(ns), hxs(ns))))
		default:
			parts = append(parts, "error "+hx(err.Error()))
		}
	}
	return strings.Join(parts, " | ")
}

// ldCandidates: the names a user could try on the merged table of the abstract tree: every
// task name and task alias under every namespace / namespace-alias path, plus the bare
// namespace paths (default-task alias).  Bounded depth (generated trees may be cyclic).
func ldCandidates(d *ldCase) []string {
	byID := map[int]*ldFile{}
	for i := range d.Files {
		byID[d.Files[i].ID] = &d.Files[i]
	}
	seen := map[string]bool{}
	var out []string
	add := func(s string) {
		if s != "" && !seen[s] {
			seen[s] = true
			out = append(out, s)
		}
	}
	var walk func(id int, prefixes []string, depth int)
	walk = func(id int, prefixes []string, depth int) {
		f := byID[id]
		if f == nil || depth > 4 {
			return
		}
		for _, t := range f.Tasks {
			for _, n := range append([]string{t.Name}, t.Aliases...) {
				for _, p := range prefixes {
					add(p + n)
				}
			}
		}
		for _, inc := range f.Includes {
			next := prefixes
			if !inc.Flatten {
				next = nil
				for _, p := range prefixes {
					for _, x := range append([]string{inc.NS}, inc.Aliases...) {
						add(p + x)
						next = append(next, p+x+":")
					}
				}
			}
			if len(next) > 24 {
				next = next[:24]
			}
			walk(inc.File, next, depth+1)
		}
	}
	walk(d.Root, []string{""}, 0)
	sort.Strings(out)
	return out
}

// loadOnce loads the tree at root once through the public API and dumps it.
func loadOnce(root string, ids map[string]int, probe int, keys []int) (res ldLoaded) {
	defer func() {
		if r := recover(); r != nil {
			res = ldLoaded{dump: "panic", refs: "panic"}
		}
	}()
	var out, errb bytes.Buffer
	e := task.NewExecutor(
		task.WithDir(root),
		task.WithStdout(&out),
		task.WithStderr(&errb),
		task.WithVersionCheck(true),
	)
	if err := e.Setup(); err != nil {
		s := classifyErr(err)
		return ldLoaded{dump: s, refs: s}
	}
	tf := e.Taskfile
	var sb, rb, pb strings.Builder
	idx, probed := 0, 0
	fmt.Fprintf(&sb, "ok %d", tf.Tasks.Len())
	fmt.Fprintf(&rb, "ok %d", tf.Tasks.Len())
	locID := func(t *ast.Task) int {
		if t.Location == nil {
			return 99997
		}
		if id, ok := ids[t.Location.Taskfile]; ok {
			return id
		}
		return 99996
	}
	for name, t := range tf.Tasks.All(nil) {
		if t == nil {
			fmt.Fprintf(&sb, " T %s nil", hx(name))
			continue
		}
		key := hx(name)
		if t.Task != name {
			key = "keymismatch:" + hx(name) + ":" + hx(t.Task)
		}
		fmt.Fprintf(&sb, " T %s C %s D %s A %s %s %s N %s L %d AT %d", key, cmdsDump(t.Cmds), namesDump(depNames(t.Deps)),
			namesDump(t.Aliases), b2s(t.Internal), dirDump(root, t.Dir), hx(t.Namespace), locID(t), nAttrs)
		for _, a := range decodeAttrs(t) {
			fmt.Fprintf(&sb, " %d", a)
		}
		// what the task executes with: the executor's own lookups (task.go, hash.go, status.go)
		fmt.Fprintf(&sb, " EF %s %d %d %d %d", b2s(t.Silent || tf.Silent), nameIndex(ldMethods, stdcmp.Or(t.Method, tf.Method)),
			nameIndex(ldRuns, stdcmp.Or(t.Run, tf.Run)), listMask(ldSetPool, append(append([]string{}, tf.Set...), t.Set...)),
			listMask(ldShoptPool, append(append([]string{}, tf.Shopt...), t.Shopt...)))
		fmt.Fprintf(&sb, " TV %s IV %s XV %s", varsDump(root, t.Vars), varsDump(root, t.IncludeVars), varsDump(root, t.IncludedTaskfileVars))
		if probe > 0 && idx%probe == 0 {
			fmt.Fprintf(&pb, " %d %s", idx, probeTask(e, root, name, keys))
			probed++
		}
		idx++
		refs := depNames(t.Deps)
		for _, c := range t.Cmds {
			if c != nil && c.Task != "" {
				refs = append(refs, c.Task)
			}
		}
		fmt.Fprintf(&rb, " T %s L %d R %s", key, locID(t), namesDump(refs))
	}
	fmt.Fprintf(&sb, " V %s E %s", varsDump(root, tf.Vars), varsDump(root, tf.Env))
	fmt.Fprintf(&sb, " FD %s %d %d %d %d O %d", b2s(tf.Silent), nameIndex(ldMethods, tf.Method), nameIndex(ldRuns, tf.Run),
		listMask(ldSetPool, tf.Set), listMask(ldShoptPool, tf.Shopt), nameIndex(ldOutputs, tf.Output.Name))
	pr := ""
	if probe > 0 {
		pr = fmt.Sprintf(" PR %d%s", probed, pb.String())
	}
	return ldLoaded{dump: sb.String(), refs: rb.String(), probe: pr, ok: true}
}

// probeTask compiles the merged task as a call by its full name would and reports the
// working directory and the value of every variable name of the tree.
func probeTask(e *task.Executor, root, name string, keys []int) (out string) {
	defer func() {
		if r := recover(); r != nil {
			out = "panic"
		}
	}()
	call := &task.Call{Task: name}
	orig, err := e.GetTask(call)
	if err != nil || orig == nil || orig.Task != name {
		return "unresolved"
	}
	ct, err := e.CompiledTask(call)
	if err != nil {
		return "compile-error:" + hx(err.Error())
	}
	parts := []string{dirDump(root, ct.Dir), strconv.Itoa(len(keys))}
	for _, k := range keys {
		v := "-"
		if ct.Vars != nil {
			if x, ok := ct.Vars.Get(keyName(k)); ok {
				if s, ok := x.Value.(string); ok {
					v = strconv.Itoa(decodeNum(s, "v"))
				} else {
					v = "99995"
				}
			}
		}
		parts = append(parts, strconv.Itoa(k), v)
	}
	return strings.Join(parts, " ")
}

// ---------------------------------------------------------------- the line for the Lean driver

func natsTok(xs []int) string {
	out := []string{strconv.Itoa(len(xs))}
	for _, x := range xs {
		out = append(out, strconv.Itoa(x))
	}
	return strings.Join(out, " ")
}

func varsTok(vs []ldVar) string {
	out := []string{strconv.Itoa(len(vs))}
	for _, v := range vs {
		out = append(out, strconv.Itoa(v.K), strconv.Itoa(v.V))
	}
	return strings.Join(out, " ")
}

func loadCaseLine(d *ldCase) string {
	var b strings.Builder
	if d.Op == "refs" {
		fmt.Fprintf(&b, "load.refs %d %d", d.Root, len(d.Files))
	} else if d.Op == "resolve" {
		fmt.Fprintf(&b, "load.resolve %d %d", d.Root, len(d.Files))
	} else {
		fmt.Fprintf(&b, "load.tree %d %d %d", d.Probe, d.Root, len(d.Files))
	}
	for i := range d.Files {
		f := &d.Files[i]
		fmt.Fprintf(&b, " %d %d %s %s %d %d %d %d %d %s %s %s %d", f.ID, f.Version, b2s(f.Dotenv), b2s(f.Silent), f.Method, f.Run, f.Set, f.Shopt,
			f.Output, natsTok(f.Dir), varsTok(f.Vars), varsTok(f.Env), len(f.Includes))
		for _, inc := range f.Includes {
			fmt.Fprintf(&b, " %s %d %s %s %s %s %s %s %s %s", hx(inc.NS), inc.File, natsTok(inc.Dir), b2s(inc.Optional), b2s(inc.Internal),
				b2s(inc.Flatten), b2s(inc.Advanced), namesDump(inc.Aliases), namesDump(inc.Excludes), varsTok(inc.Vars))
		}
		fmt.Fprintf(&b, " %d", len(f.Tasks))
		for _, t := range f.Tasks {
			fmt.Fprintf(&b, " %s %d", hx(t.Name), len(t.Cmds))
			for _, c := range t.Cmds {
				if c.Task != "" {
					fmt.Fprintf(&b, " %s 0", hx(c.Task))
				} else {
					fmt.Fprintf(&b, " - %d", c.Sh)
				}
			}
			fmt.Fprintf(&b, " %s %s %s %s %s %s", namesDump(t.Deps), namesDump(t.Aliases), b2s(t.Internal), natsTok(t.Dir), natsTok(t.Attrs), varsTok(t.Vars))
		}
	}
	if d.Op == "resolve" {
		fmt.Fprintf(&b, " %d", len(d.Reqs))
		for _, r := range d.Reqs {
			fmt.Fprintf(&b, " %s", hx(r))
		}
	}
	return b.String()
}

// ---------------------------------------------------------------- self-check: YAML → abstract

func loadAbsVars(vs *ast.Vars) []ldVar {
	var out []ldVar
	if vs == nil {
		return nil
	}
	for k, v := range vs.All() {
		val := 99999
		if s, ok := v.Value.(string); ok {
			val = decodeNum(s, "v")
		}
		out = append(out, ldVar{decodeNum(k, "K"), val})
	}
	return out
}

func absSegs(d string) []int {
	if d == "" {
		return nil
	}
	var out []int
	for _, p := range strings.Split(filepath.Clean(d), string(filepath.Separator)) {
		out = append(out, decodeNum(p, "d"))
	}
	return out
}

// abstractFile maps a decoded Taskfile back to the abstract form; include targets are
// resolved through byPath (path relative to the tree root → id).
func abstractFile(f *ldFile, tf *ast.Taskfile, byPath map[string]int) ldFile {
	g := ldFile{ID: f.ID, Base: f.Base, Dir: f.Dir, Dotenv: len(tf.Dotenv) > 0, Vars: loadAbsVars(tf.Vars), Env: loadAbsVars(tf.Env),
		Silent: tf.Silent, Method: nameIndex(ldMethods, tf.Method), Run: nameIndex(ldRuns, tf.Run), Set: listMask(ldSetPool, tf.Set),
		Shopt: listMask(ldShoptPool, tf.Shopt), Output: nameIndex(ldOutputs, tf.Output.Name)}
	if tf.Version != nil {
		g.Version = int(tf.Version.Major())
		if tf.Version.Minor() != 0 {
			g.Version = g.Version*10 + int(tf.Version.Minor())
		}
	}
	for ns, inc := range tf.Includes.All() {
		p := filepath.Join(segsPath(f.Dir), inc.Taskfile)
		id, ok := byPath[p]
		if !ok {
			id = -1
		}
		g.Includes = append(g.Includes, ldInclude{NS: ns, File: id, Dir: absSegs(inc.Dir), Optional: inc.Optional, Internal: inc.Internal,
			Flatten: inc.Flatten, Advanced: inc.AdvancedImport, Aliases: inc.Aliases, Excludes: inc.Excludes, Vars: loadAbsVars(inc.Vars)})
	}
	for name, t := range tf.Tasks.All(nil) {
		at := ldTask{Name: name, Deps: depNames(t.Deps), Aliases: t.Aliases, Internal: t.Internal, Dir: absSegs(t.Dir),
			Attrs: decodeAttrs(t), Vars: loadAbsVars(t.Vars)}
		for _, c := range t.Cmds {
			if c.Task != "" {
				at.Cmds = append(at.Cmds, ldCmd{Task: c.Task})
			} else {
				at.Cmds = append(at.Cmds, ldCmd{Sh: decodeSh(c.Cmd)})
			}
		}
		g.Tasks = append(g.Tasks, at)
	}
	return g
}

func normFile(f ldFile) string {
	b, _ := json.Marshal(f)
	// nil and empty slices are the same thing
	s := strings.ReplaceAll(string(b), "null", "[]")
	return s
}

// ---------------------------------------------------------------- evaluation of one case

var ldCounter int64

func evalLoad(d ldCase) (string, string) {
	initAttrTable()
	scratch := os.Getenv("VERIF_SCRATCH")
	if scratch == "" {
		scratch = os.TempDir()
	}
	root := filepath.Join(scratch, "load", fmt.Sprintf("c%d-%d", os.Getpid(), atomic.AddInt64(&ldCounter, 1)))
	os.RemoveAll(root)
	if err := os.MkdirAll(root, 0o755); err != nil {
		panic(err)
	}
	defer os.RemoveAll(root)
	if r, err := filepath.EvalSymlinks(root); err == nil {
		root = r
	}
	paths := map[int]string{}
	byPath := map[string]int{}
	for i := range d.Files {
		paths[d.Files[i].ID] = d.Files[i].relPath()
		byPath[d.Files[i].relPath()] = d.Files[i].ID
	}
	pathOf := func(id int) string {
		if p, ok := paths[id]; ok {
			return p
		}
		byPath[missingBase(id)] = id
		return missingBase(id)
	}
	cl := loadCaseLine(&d)
	// ids must follow the order of the locations (the canonical merge order sorts by location)
	for i := range d.Files {
		for j := range d.Files {
			if (d.Files[i].ID < d.Files[j].ID) != (filepath.Join(root, d.Files[i].relPath()) < filepath.Join(root, d.Files[j].relPath())) && i != j {
				return cl, "selfcheck ids-not-in-location-order"
			}
		}
	}
	ids := map[string]int{}
	srcs := map[int]string{}
	for i := range d.Files {
		f := &d.Files[i]
		p := filepath.Join(root, f.relPath())
		os.MkdirAll(filepath.Dir(p), 0o755)
		src := fileYAML(f, pathOf)
		srcs[f.ID] = src
		if err := os.WriteFile(p, []byte(src), 0o644); err != nil {
			panic(err)
		}
		ids[p] = f.ID
	}
	// self-check: what the repo's decoder reads back is the abstract file
	for i := range d.Files {
		f := &d.Files[i]
		if f.hasDupKey() {
			// a key used twice cannot be read back (decode error; before the fix the
			// second definition silently replaced the first): the abstract file is the
			// list of pairs as written
			continue
		}
		tf, err := parseTaskfile(srcs[f.ID])
		if err != nil {
			return cl, fmt.Sprintf("selfcheck parse %d %s", f.ID, hx(err.Error()))
		}
		want := *f
		if !f.noNormalise() {
			return cl, fmt.Sprintf("selfcheck not-normal %d", f.ID)
		}
		if got := abstractFile(f, tf, byPath); normFile(got) != normFile(want) {
			return cl, fmt.Sprintf("selfcheck roundtrip %d %s", f.ID, hx(normFile(got)))
		}
	}
	var keys []int
	seen := map[int]bool{}
	addKeys := func(vs []ldVar) {
		for _, v := range vs {
			if !seen[v.K] {
				seen[v.K] = true
				keys = append(keys, v.K)
			}
		}
	}
	for i := range d.Files {
		addKeys(d.Files[i].Vars)
		addKeys(d.Files[i].Env)
		for _, t := range d.Files[i].Tasks {
			addKeys(t.Vars)
		}
		for _, inc := range d.Files[i].Includes {
			addKeys(inc.Vars)
		}
	}
	sort.Ints(keys)
	if d.Op == "resolve" {
		return cl, resolveOnce(root, d.Reqs)
	}
	loads := d.Loads
	if loads < 1 {
		loads = 1
	}
	variants := map[string]int{}
	var order []string
	probe := ""
	for i := 0; i < loads; i++ {
		pr := 0
		if i == 0 && d.Op != "refs" {
			pr = d.Probe
		}
		r := loadOnce(root, ids, pr, keys)
		if i == 0 {
			probe = r.probe
		}
		s := r.dump
		if d.Op == "refs" {
			s = r.refs
		}
		if variants[s] == 0 {
			order = append(order, s)
		}
		variants[s]++
	}
	if len(order) == 1 {
		return cl, order[0] + probe
	}
	// C09: repeated loads of the same tree differ
	sort.Strings(order)
	return cl, fmt.Sprintf("nondet %d | %s | %s", len(order), order[0], order[1])
}

func dupVarKeys(vs []ldVar) bool {
	seen := map[int]bool{}
	for _, v := range vs {
		if seen[v.K] {
			return true
		}
		seen[v.K] = true
	}
	return false
}

// hasDupKey: some mapping the repo decodes by hand (tasks, includes, vars / env at file,
// task and include level) has a key used twice.
func (f *ldFile) hasDupKey() bool {
	if dupVarKeys(f.Vars) || dupVarKeys(f.Env) {
		return true
	}
	seen := map[string]bool{}
	for _, t := range f.Tasks {
		if seen["t"+t.Name] || dupVarKeys(t.Vars) {
			return true
		}
		seen["t"+t.Name] = true
	}
	for _, inc := range f.Includes {
		if seen["i"+inc.NS] || dupVarKeys(inc.Vars) {
			return true
		}
		seen["i"+inc.NS] = true
	}
	return false
}

// noNormalise: the abstract file is in the normal form the serialiser can express
// (options only on advanced includes, attribute vector complete and in range).
func (f *ldFile) noNormalise() bool {
	for _, inc := range f.Includes {
		if !inc.Advanced && (len(inc.Dir) > 0 || inc.Optional || inc.Internal || inc.Flatten || len(inc.Aliases) > 0 || len(inc.Excludes) > 0 || len(inc.Vars) > 0) {
			return false
		}
	}
	for _, t := range f.Tasks {
		if len(t.Attrs) != nAttrs {
			return false
		}
		for i, k := range t.Attrs {
			if k < 0 || k > attrVariants[i] {
				return false
			}
		}
	}
	return true
}

// ---------------------------------------------------------------- generator

// task names with wildcards (domain loadresolve only): patterns that overlap with each other, with
// plain names and with names under a namespace, so that WHICH pattern comes first in the merged
// table (the parent file's before the included files') decides the answer
var ldPatterns = []string{"x-*", "x-a*", "*-b", "t*", "*:t", "n1:*", "*-*", "*:x-*", "*"}

var ldWild = false

var (
	ldTaskNames  = []string{"a", "b", "c", "default", "n1", "t", "u"}
	ldNamespaces = []string{"n1", "n2", "n3", "a", "b"}
	ldAliases    = []string{"al1", "al2", "a", "x", "n2"}
)

func b2i(b bool) int {
	if b {
		return 1
	}
	return 0
}

func (c *Ctx) chance(p int) bool { return c.Rng.Intn(100) < p }

func (c *Ctx) pickSome(pool []string, max int) []string {
	n := 1 + c.Rng.Intn(max)
	seen := map[string]bool{}
	var out []string
	for i := 0; i < n; i++ {
		s := pool[c.Rng.Intn(len(pool))]
		if !seen[s] {
			seen[s] = true
			out = append(out, s)
		}
	}
	return out
}

func (c *Ctx) genVars(max int) []ldVar {
	n := c.Rng.Intn(max + 1)
	seen := map[int]bool{}
	var out []ldVar
	for i := 0; i < n; i++ {
		k := 1 + c.Rng.Intn(ldKeyPool)
		if !seen[k] {
			seen[k] = true
			out = append(out, ldVar{k, 1 + c.Rng.Intn(40)})
		}
	}
	return out
}

type ldGenFile struct {
	f       ldFile
	depth   int
	parents []int
}

func (c *Ctx) genRef(own []string, rootTasks []string) string {
	r := c.Rng.Intn(100)
	switch {
	case r < 55 && len(own) > 0:
		return own[c.Rng.Intn(len(own))]
	case r < 78 && len(rootTasks) > 0:
		c.Hit("ref:root")
		return ":" + rootTasks[c.Rng.Intn(len(rootTasks))]
	case r < 83:
		c.Hit("ref:root-unknown")
		return ":" + ldTaskNames[c.Rng.Intn(len(ldTaskNames))]
	case r < 93:
		c.Hit("ref:into-include")
		return ldNamespaces[c.Rng.Intn(len(ldNamespaces))] + ":" + ldTaskNames[c.Rng.Intn(len(ldTaskNames))]
	default:
		return ldTaskNames[c.Rng.Intn(len(ldTaskNames))]
	}
}

// genTasks draws the tasks of one file.  rootTasks are the task names of the root file
// (targets of ':'-references); for the root file itself (isRoot) they are its own names:
// ':x' written in the root file is a reference to the root's x as well.
func (c *Ctx) genTasks(rootTasks []string, isRoot bool) []ldTask {
	names := c.pickSome(ldTaskNames, 4)
	if ldWild && c.chance(70) {
		seen := map[string]bool{}
		for _, n := range names {
			seen[n] = true
		}
		for _, p := range c.pickSome(ldPatterns[:len(ldPatterns)-1+c.Rng.Intn(2)], 3) {
			if !seen[p] {
				seen[p] = true
				at := c.Rng.Intn(len(names) + 1)
				names = append(names[:at:at], append([]string{p}, names[at:]...)...)
				c.Hit("wild:pattern-task")
			}
		}
	}
	if isRoot {
		rootTasks = names
	}
	var out []ldTask
	allAttrs := c.chance(8)
	for _, n := range names {
		t := ldTask{Name: n, Attrs: make([]int, nAttrs)}
		for i := c.Rng.Intn(4); i > 0; i-- {
			if c.chance(45) {
				t.Cmds = append(t.Cmds, ldCmd{Task: c.genRef(names, rootTasks)})
			} else {
				t.Cmds = append(t.Cmds, ldCmd{Sh: 1 + c.Rng.Intn(50)})
			}
		}
		for i := c.Rng.Intn(3); i > 0; i-- {
			t.Deps = append(t.Deps, c.genRef(names, rootTasks))
		}
		if c.chance(35) {
			t.Aliases = c.pickSome(ldAliases, 2)
		}
		t.Internal = c.chance(20)
		if c.chance(30) {
			t.Dir = []int{1 + c.Rng.Intn(3)}
			if c.chance(25) {
				t.Dir = append(t.Dir, 1+c.Rng.Intn(3))
			}
		}
		for i := 0; i < nAttrs; i++ {
			if allAttrs || c.chance(14) {
				t.Attrs[i] = 1 + c.Rng.Intn(attrVariants[i])
				c.Hit("attr:" + attrNames[i])
			}
		}
		if c.chance(30) {
			t.Vars = c.genVars(2)
		}
		if strings.Contains(n, "*") {
			t.Cmds = append(t.Cmds, ldCmd{Sh: ldMatchSh})
		}
		out = append(out, t)
	}
	return out
}

func (c *Ctx) genInclude(ns string, target int, childTasks []string) ldInclude {
	inc := ldInclude{NS: ns, File: target}
	if !c.chance(65) {
		return inc
	}
	inc.Advanced = true
	if c.chance(40) {
		inc.Dir = []int{1 + c.Rng.Intn(3)}
		c.Hit("inc:dir")
	}
	if c.chance(15) {
		inc.Optional = true
		c.Hit("inc:optional")
	}
	if c.chance(20) {
		inc.Internal = true
		c.Hit("inc:internal")
	}
	if c.chance(22) {
		inc.Flatten = true
		c.Hit("inc:flatten")
	}
	if c.chance(30) {
		inc.Aliases = c.pickSome(ldAliases, 2)
		c.Hit("inc:aliases")
	}
	if c.chance(30) {
		pool := append(append([]string{}, childTasks...), "default", "zz")
		inc.Excludes = c.pickSome(pool, 2)
		c.Hit("inc:excludes")
	}
	if c.chance(40) {
		inc.Vars = c.genVars(2)
		if len(inc.Vars) > 0 {
			c.Hit("inc:vars")
		}
	}
	return inc
}

// ldGenCfg biases the tree generator.
type ldGenCfg struct {
	maxDepth     int
	pRootParent  int  // chance (percent) that a file is included by the root itself
	pExtraParent int  // chance per candidate of an additional parent (diamonds)
	pTwice       int  // chance that an include statement is doubled under another namespace
	keyPool      int  // variable names are drawn from K1..K<keyPool>
	pInject      int  // percent of trees with an injected load error (scaled)
	refsMonitor  bool // also evaluate the root-reference monitor (property C08 only)
	wild         bool // wildcard task names (property C15 only)
	pMulti       int  // percent of the trees that get TWO OR THREE load errors of different kinds, in different files (property C09)
	pDup         int  // percent of the error-free trees that get one key used twice (property C08 only)
}

var ldKeyPool = 5

// genTree builds one abstract include tree.
func (c *Ctx) genTree(cfg ldGenCfg) ldCase {
	maxDepth := cfg.maxDepth
	ldKeyPool = cfg.keyPool
	ldWild = cfg.wild
	n := 2 + c.Rng.Intn(5)
	gf := make([]*ldGenFile, n)
	usedBase := map[string]bool{}
	for i := 0; i < n; i++ {
		g := &ldGenFile{}
		g.f.Version = 3
		if i == 0 {
			g.f.Base = "Taskfile.yml"
		} else {
			twin := false
			if i > 1 && c.Rng.Intn(3) == 0 {
				// a sibling whose path differs from an earlier file's only in letter case (same directory):
				// a merge order keyed case-insensitively would tie on the two
				pb := gf[i-1].f.Base
				fl := []rune(pb)
				if fl[0] >= 'a' && fl[0] <= 'z' {
					fl[0] -= 32
				} else if fl[0] >= 'A' && fl[0] <= 'Z' {
					fl[0] += 32
				}
				if b := string(fl); !usedBase[b] {
					usedBase[b] = true
					g.f.Base = b
					g.f.Dir = append([]int{}, gf[i-1].f.Dir...)
					twin = true
					c.Hit("case-twin-paths")
				}
			}
			for !twin {
				b := fmt.Sprintf("%c%c.yml", 'A'+rune(c.Rng.Intn(26))+rune(32*c.Rng.Intn(2)), 'a'+rune(c.Rng.Intn(26)))
				if !usedBase[b] {
					usedBase[b] = true
					g.f.Base = b
					break
				}
			}
			if !twin {
				switch c.Rng.Intn(4) {
				case 0:
					g.f.Dir = []int{1 + c.Rng.Intn(3)}
				case 1:
					g.f.Dir = []int{1 + c.Rng.Intn(3), 1 + c.Rng.Intn(3)}
				}
			}
		}
		g.f.Vars = c.genVars(3)
		g.f.Env = c.genVars(2)
		// file-level defaults for the tasks of the file, and the output style
		if c.chance(45) {
			if c.chance(40) {
				g.f.Silent = true
				c.Hit("filedefault:silent")
			}
			if c.chance(40) {
				g.f.Method = 1 + c.Rng.Intn(3)
				c.Hit("filedefault:method")
			}
			if c.chance(40) {
				g.f.Run = 1 + c.Rng.Intn(3)
				c.Hit("filedefault:run")
			}
			if c.chance(40) {
				g.f.Set = 1 + c.Rng.Intn(7)
				c.Hit("filedefault:set")
			}
			if c.chance(40) {
				g.f.Shopt = 1 + c.Rng.Intn(3)
				c.Hit("filedefault:shopt")
			}
			if i > 0 {
				c.Hit("filedefault:in-included-file")
			}
		}
		if c.chance(25) {
			g.f.Output = 1 + c.Rng.Intn(3)
			c.Hit("output:" + []string{"root", "included"}[b2i(i > 0)])
		}
		gf[i] = g
	}
	// structure: every file but the root has at least one parent among the earlier files
	for i := 1; i < n; i++ {
		var cands []int
		for j := 0; j < i; j++ {
			if gf[j].depth < maxDepth {
				cands = append(cands, j)
			}
		}
		p := cands[c.Rng.Intn(len(cands))]
		if c.chance(cfg.pRootParent) {
			p = 0
		}
		gf[i].parents = []int{p}
		gf[i].depth = gf[p].depth + 1
		for _, j := range cands {
			if j != p && c.chance(cfg.pExtraParent) {
				gf[i].parents = append(gf[i].parents, j)
				if gf[j].depth+1 > gf[i].depth {
					gf[i].depth = gf[j].depth + 1
				}
				c.Hit("shape:diamond-or-multi-parent")
			}
		}
	}
	// tasks (root first: its names feed ':'-references)
	var rootTasks []string
	for i := 0; i < n; i++ {
		gf[i].f.Tasks = c.genTasks(rootTasks, i == 0)
		if i == 0 {
			for _, t := range gf[0].f.Tasks {
				rootTasks = append(rootTasks, t.Name)
			}
		}
	}
	// ids follow the order of the locations
	order := make([]int, n)
	for i := range order {
		order[i] = i
	}
	sort.Slice(order, func(a, b int) bool { return gf[order[a]].f.relPath() < gf[order[b]].f.relPath() })
	for rank, i := range order {
		gf[i].f.ID = rank
	}
	// include statements, in the order the children were generated, shuffled
	nsUsed := make([]map[string]bool, n)
	for i := range nsUsed {
		nsUsed[i] = map[string]bool{}
	}
	freshNS := func(p int) string {
		for tries := 0; tries < 20; tries++ {
			ns := ldNamespaces[c.Rng.Intn(len(ldNamespaces))]
			if !nsUsed[p][ns] {
				nsUsed[p][ns] = true
				return ns
			}
		}
		ns := fmt.Sprintf("m%d", len(nsUsed[p]))
		nsUsed[p][ns] = true
		return ns
	}
	childTaskNames := func(i int) []string {
		var out []string
		for _, t := range gf[i].f.Tasks {
			out = append(out, t.Name)
		}
		return out
	}
	for i := 1; i < n; i++ {
		for _, p := range gf[i].parents {
			gf[p].f.Includes = append(gf[p].f.Includes, c.genInclude(freshNS(p), gf[i].f.ID, childTaskNames(i)))
			if c.chance(cfg.pTwice) {
				gf[p].f.Includes = append(gf[p].f.Includes, c.genInclude(freshNS(p), gf[i].f.ID, childTaskNames(i)))
				c.Hit("shape:same-file-twice")
			}
		}
	}
	for i := 0; i < n; i++ {
		incs := gf[i].f.Includes
		c.Rng.Shuffle(len(incs), func(a, b int) { incs[a], incs[b] = incs[b], incs[a] })
	}
	// where do ':'-references sit: in the root file, at which include depth, inside or below a flattened include
	idx := map[int]int{}
	for i := range gf {
		idx[gf[i].f.ID] = i
	}
	flatDirect := make([]bool, n) // some include statement naming the file is flattened
	flatAbove := make([]bool, n)  // some include path from the root to the file has a flattened level
	for p := 0; p < n; p++ {
		for _, inc := range gf[p].f.Includes {
			if ch, ok := idx[inc.File]; ok && ch > p {
				flatDirect[ch] = flatDirect[ch] || inc.Flatten
				flatAbove[ch] = flatAbove[ch] || inc.Flatten || flatAbove[p]
			}
		}
	}
	for i := 0; i < n; i++ {
		one := ldCase{Files: []ldFile{gf[i].f}}
		if !hasColonRef(&one) {
			continue
		}
		if i == 0 {
			c.Hit("rootref:in-root-file")
			continue
		}
		c.Hit(fmt.Sprintf("rootref:depth%d", gf[i].depth))
		if flatDirect[i] {
			c.Hit("rootref:in-flattened-include")
		}
		if flatAbove[i] && gf[i].depth >= 2 {
			c.Hit("rootref:depth>=2-with-flattened-level")
		}
	}
	// one injected load error at most
	note := ""
	switch r := c.Rng.Intn(100) * 26 / (cfg.pInject + 1); {
	case r < 6 && n > 2:
		// include cycle: a file includes one of its ancestors (or itself)
		i := 1 + c.Rng.Intn(n-1)
		anc := i
		for steps := c.Rng.Intn(3); steps > 0 && len(gf[anc].parents) > 0; steps-- {
			anc = gf[anc].parents[0]
		}
		gf[i].f.Includes = append(gf[i].f.Includes, c.genInclude(freshNS(i), gf[anc].f.ID, nil))
		note = "cycle"
	case r < 11:
		p := c.Rng.Intn(n)
		inc := c.genInclude(freshNS(p), 90+c.Rng.Intn(5), nil)
		inc.Optional = false
		gf[p].f.Includes = append(gf[p].f.Includes, inc)
		note = "missing"
	case r < 17:
		p := c.Rng.Intn(n)
		inc := c.genInclude(freshNS(p), 90+c.Rng.Intn(5), nil)
		inc.Advanced, inc.Optional = true, true
		gf[p].f.Includes = append(gf[p].f.Includes, inc)
		note = "missing-optional"
	case r < 21:
		gf[1+c.Rng.Intn(n-1)].f.Version = 31
		note = "version"
	case r < 24:
		gf[1+c.Rng.Intn(n-1)].f.Dotenv = true
		note = "dotenv"
	case r < 26:
		gf[c.Rng.Intn(n)].f.Version = 0
		note = "noversion"
	}
	if note == "" && cfg.pDup > 0 && c.chance(cfg.pDup) {
		note = c.injectDupKey(gf)
	}
	if note == "" && cfg.pMulti > 0 && c.chance(cfg.pMulti) {
		// several errors in one tree — in sibling includes of one file, nested below each other, in a file
		// reached along two paths: the error reported must be the one a sequential read in declaration
		// order meets first, on every load
		var kinds []string
		for j := 2 + c.Rng.Intn(2); j > 0; j-- {
			switch c.Rng.Intn(4) {
			case 0:
				p := c.Rng.Intn(n)
				inc := c.genInclude(freshNS(p), 90+c.Rng.Intn(5), nil)
				inc.Optional = false
				at := c.Rng.Intn(len(gf[p].f.Includes) + 1)
				gf[p].f.Includes = append(gf[p].f.Includes[:at:at], append([]ldInclude{inc}, gf[p].f.Includes[at:]...)...)
				kinds = append(kinds, "missing")
			case 1:
				gf[c.Rng.Intn(n)].f.Version = 0
				kinds = append(kinds, "noversion")
			case 2:
				if k := c.injectDupKey(gf); k != "" {
					kinds = append(kinds, "dupkey")
				}
			default:
				if n > 2 {
					i := 1 + c.Rng.Intn(n-1)
					anc := i
					for steps := c.Rng.Intn(3); steps > 0 && len(gf[anc].parents) > 0; steps-- {
						anc = gf[anc].parents[0]
					}
					gf[i].f.Includes = append(gf[i].f.Includes, c.genInclude(freshNS(i), gf[anc].f.ID, nil))
					kinds = append(kinds, "cycle")
				}
			}
		}
		sort.Strings(kinds)
		note = "multi:" + strings.Join(kinds, "+")
		c.Hit("inject:multi")
		for _, k := range kinds {
			c.Hit("multi:" + k)
		}
	}
	if note != "" && !strings.HasPrefix(note, "multi:") {
		c.Hit("inject:" + note)
	}
	d := ldCase{Op: "tree", Root: gf[0].f.ID, Note: note}
	for _, i := range order {
		d.Files = append(d.Files, gf[i].f)
	}
	return d
}

// injectDupKey makes one mapping of one file use a key twice: a second task of the same
// name (other commands), a second include statement under the same namespace (same or
// another file), a second definition of a variable (file vars / env, task vars, include
// vars).  Every file of the tree is reachable, so the load must end in the decode error.
func (c *Ctx) injectDupKey(gf []*ldGenFile) string {
	n := len(gf)
	for tries := 0; tries < 40; tries++ {
		f := &gf[c.Rng.Intn(n)].f
		dupVar := func(vs []ldVar) []ldVar {
			v := vs[c.Rng.Intn(len(vs))]
			return append(vs, ldVar{v.K, 41 + c.Rng.Intn(9)})
		}
		switch c.Rng.Intn(6) {
		case 0:
			if len(f.Tasks) > 0 {
				t := f.Tasks[c.Rng.Intn(len(f.Tasks))]
				t2 := ldTask{Name: t.Name, Attrs: make([]int, nAttrs), Cmds: []ldCmd{{Sh: 60 + c.Rng.Intn(9)}}}
				at := c.Rng.Intn(len(f.Tasks) + 1)
				f.Tasks = append(f.Tasks[:at:at], append([]ldTask{t2}, f.Tasks[at:]...)...)
				return "dupkey-tasks"
			}
		case 1:
			if len(f.Includes) > 0 {
				inc := f.Includes[c.Rng.Intn(len(f.Includes))]
				other := f.Includes[c.Rng.Intn(len(f.Includes))]
				f.Includes = append(f.Includes, ldInclude{NS: inc.NS, File: other.File, Advanced: c.chance(50)})
				return "dupkey-includes"
			}
		case 2:
			if len(f.Vars) > 0 {
				f.Vars = dupVar(f.Vars)
				return "dupkey-vars"
			}
		case 3:
			if len(f.Env) > 0 {
				f.Env = dupVar(f.Env)
				return "dupkey-env"
			}
		case 4:
			for i := range f.Tasks {
				if len(f.Tasks[i].Vars) > 0 {
					f.Tasks[i].Vars = dupVar(f.Tasks[i].Vars)
					return "dupkey-task-vars"
				}
			}
		case 5:
			for i := range f.Includes {
				if len(f.Includes[i].Vars) > 0 {
					f.Includes[i].Vars = dupVar(f.Includes[i].Vars)
					return "dupkey-include-vars"
				}
			}
		}
	}
	return ""
}

// shapeKey identifies a tree up to values: include edges with options and task names.
func shapeKey(d *ldCase) (key string, nontrivial bool) {
	var b strings.Builder
	names := map[string]int{}
	incs := 0
	for _, f := range d.Files {
		fmt.Fprintf(&b, "F%d:", f.ID)
		for _, inc := range f.Includes {
			incs++
			fmt.Fprintf(&b, "i%s>%d/%v%v%v%v%v/%v/%v/%d;", inc.NS, inc.File, inc.Dir, inc.Optional, inc.Internal, inc.Flatten, inc.Advanced, inc.Aliases, inc.Excludes, len(inc.Vars))
		}
		for _, t := range f.Tasks {
			fmt.Fprintf(&b, "t%s;", t.Name)
			names["t"+t.Name]++
		}
		for _, v := range f.Vars {
			names["v"+keyName(v.K)]++
		}
	}
	for _, k := range names {
		if k > 1 {
			nontrivial = true
		}
	}
	return b.String(), nontrivial && incs > 0
}

func hasColonRef(d *ldCase) bool {
	for _, f := range d.Files {
		for _, t := range f.Tasks {
			for _, x := range t.Deps {
				if strings.HasPrefix(x, ":") {
					return true
				}
			}
			for _, x := range t.Cmds {
				if strings.HasPrefix(x.Task, ":") {
					return true
				}
			}
		}
	}
	return false
}

func runLoad(c *Ctx) {
	runLoadWith(c, c.Pick(260, 2500), c.Pick(20, 100),
		ldGenCfg{maxDepth: c.Pick(3, 4), pRootParent: 0, pExtraParent: 22, pTwice: 18, keyPool: 5, pInject: 25, refsMonitor: true, pDup: 12})
}

// runLoadDeep (property C09): the trees of domain load, without the C08 reference monitor.
func runLoadDeep(c *Ctx) {
	runLoadWith(c, c.Pick(200, 1500), c.Pick(25, 100),
		ldGenCfg{maxDepth: c.Pick(3, 4), pRootParent: 0, pExtraParent: 25, pTwice: 22, keyPool: 3, pInject: 20, pMulti: 30})
}

// runLoadRep (property C09): wide, shallow trees — many sibling includes of one parent,
// one file under several namespaces, diamonds, few variable names — loaded more often.
func runLoadRep(c *Ctx) {
	runLoadWith(c, c.Pick(110, 800), c.Pick(40, 200),
		ldGenCfg{maxDepth: 2, pRootParent: 70, pExtraParent: 30, pTwice: 35, keyPool: 2, pInject: 8, pMulti: 30})
}

var ldStarWords = []string{"a", "b", "ab", "a-b", "x-a", "t", "x-a-b", "n1", "", "a:t"}

// runLoadResolve (property C15): name resolution over merged tables — the include trees of
// domain load, each asked for a sample of the names its namespaces, namespace aliases, task
// aliases and default tasks make available (plus near misses).
func runLoadResolve(c *Ctx) {
	if c.Replay(func(raw []byte) (string, string) {
		var d ldCase
		mustJSON(raw, &d)
		return evalLoad(d)
	}) {
		return
	}
	n := c.Pick(220, 2500)
	cfg := ldGenCfg{maxDepth: c.Pick(3, 4), pRootParent: 10, pExtraParent: 15, pTwice: 15, keyPool: 2, pInject: 0, wild: true}
	for i := 0; i < n; i++ {
		d := c.genTree(cfg)
		d.Op = "resolve"
		d.Loads = 1
		d.Probe = 0
		cands := ldCandidates(&d)
		k := 10
		for j := 0; j < k && len(cands) > 0; j++ {
			r := cands[c.Rng.Intn(len(cands))]
			if strings.Contains(r, "*") && c.chance(85) {
				// a name the pattern spells: every star replaced by a short word that other patterns match too
				var sb strings.Builder
				for _, ch := range r {
					if ch == '*' {
						sb.WriteString(ldStarWords[c.Rng.Intn(len(ldStarWords))])
					} else {
						sb.WriteRune(ch)
					}
				}
				r = sb.String()
				c.Hit("request:instantiated-pattern")
			}
			switch c.Rng.Intn(8) {
			case 0: // drop the first namespace segment
				if ix := strings.Index(r, ":"); ix >= 0 {
					r = r[ix+1:]
				}
			case 1: // drop a middle segment
				ps := strings.Split(r, ":")
				if len(ps) > 2 {
					r = strings.Join(append(ps[:1:1], ps[2:]...), ":")
				}
			case 2:
				r = r + "x"
			}
			d.Reqs = append(d.Reqs, r)
		}
		cl, il := evalLoad(d)
		c.Emit(cl, il, d)
		for _, part := range strings.Split(il, " | ") {
			c.Hit("answer:" + strings.Fields(part + " -")[0])
		}
		nested := 0
		for _, r := range d.Reqs {
			if strings.Count(r, ":") >= 2 {
				nested++
			}
		}
		if nested > 0 {
			c.Hit("nested-requests")
		}
		if strings.Contains(il, "found") && nested > 0 {
			c.Distinct(cl)
		}
		ldWildFeatures(c, &d, il)
	}
}

func runLoadWith(c *Ctx, n, loads int, cfg ldGenCfg) {
	if c.Replay(func(raw []byte) (string, string) {
		var d ldCase
		mustJSON(raw, &d)
		return evalLoad(d)
	}) {
		return
	}
	// generate first (all randomness from c.Rng, sequentially), evaluate on a worker
	// pool (independent directories; more scheduling variety for the reader's goroutines),
	// emit in generation order
	var cases []ldCase
	for i := 0; i < n; i++ {
		d := c.genTree(cfg)
		d.Loads = loads
		if i%3 == 0 {
			d.Probe = 1 + c.Rng.Intn(4)
			c.Hit("probe")
		}
		if key, nt := shapeKey(&d); nt {
			c.Distinct(key)
		}
		cases = append(cases, d)
		if cfg.refsMonitor && hasColonRef(&d) {
			r := d
			r.Op = "refs"
			r.Probe = 0
			r.Loads = 2
			cases = append(cases, r)
		}
	}
	type res struct{ cl, il string }
	out := make([]res, len(cases))
	workers := runtime.NumCPU()
	if workers > 8 {
		workers = 8
	}
	var wg sync.WaitGroup
	next := int64(-1)
	for w := 0; w < workers; w++ {
		wg.Add(1)
		go func() {
			defer wg.Done()
			for {
				i := int(atomic.AddInt64(&next, 1))
				if i >= len(cases) {
					return
				}
				out[i].cl, out[i].il = evalLoad(cases[i])
			}
		}()
	}
	wg.Wait()
	treeOK := false
	for i, d := range cases {
		kind := strings.SplitN(out[i].il, " ", 3)
		if d.Op == "refs" {
			// the monitor is only meaningful for trees that load
			if !treeOK {
				continue
			}
			c.Hit("refs-monitor")
		} else {
			treeOK = kind[0] == "ok"
			c.Hit("result:" + kind[0])
			if kind[0] == "err" && len(kind) > 1 {
				c.Hit("err:" + strings.SplitN(kind[1], ":", 2)[0])
			}
		}
		c.Emit(out[i].cl, out[i].il, d)
	}
}

// ldWildFeatures counts what the wildcard requests exercised: a request that patterns of SEVERAL
// files match (root and included, or included and flattened), answered by the root file's pattern;
// a rendered {{.MATCH}} with two or more values.
func ldWildFeatures(c *Ctx, d *ldCase, il string) {
	parts := strings.Split(il, " | ")
	if len(parts) != len(d.Reqs)+1 {
		return
	}
	rootPats := map[string]bool{}
	for _, f := range d.Files {
		if f.ID == d.Root {
			for _, t := range f.Tasks {
				if strings.Contains(t.Name, "*") {
					rootPats[t.Name] = true
				}
			}
		}
	}
	for i, rq := range d.Reqs {
		fs := strings.Fields(parts[i+1])
		if len(fs) < 3 || fs[0] != "found" {
			continue
		}
		nw, _ := strconv.Atoi(fs[2])
		if nw == 0 {
			continue
		}
		c.Hit("wild:resolved-through-pattern")
		if nw >= 2 {
			c.Hit("wild:two-or-more-values")
		}
		if fs[len(fs)-1] != "-" && fs[len(fs)-2] == "R" {
			c.Hit("wild:rendered-MATCH-compared")
		}
		name := unhx(fs[1])
		// how many tasks of the whole tree (under any namespace path) have a pattern matching the request?
		if rootPats[name] {
			c.Hit("wild:answered-by-root-file-pattern")
		} else if strings.Contains(name, ":") {
			c.Hit("wild:answered-by-included-pattern")
		} else {
			c.Hit("wild:answered-by-flattened-pattern")
		}
		_ = rq
	}
}

func unhx(h string) string {
	if h == "-" {
		return ""
	}
	b := make([]byte, len(h)/2)
	for i := range b {
		v, _ := strconv.ParseUint(h[2*i:2*i+2], 16, 8)
		b[i] = byte(v)
	}
	return string(b)
}
