package main

// Domain "resolverun" (property C15, clause "an unknown name ⇒ error 200 and nothing is
// run"): Executor.Run on real Taskfiles.  Besides the tasks of the table (each prints its
// index), the Taskfile carries tasks that cannot be compiled — a `dir:` whose template
// fails, a `dotenv:` file that does not parse — with a description, so that the list of
// available tasks Run prints for an unknown name cannot be built.  The requests are never
// those tasks.  Outcome: the error class of the first request that does not resolve and
// the tasks that ran (must be none), or the tasks that ran in order.

import (
	"bytes"
	"context"
	"fmt"
	"os"
	"path/filepath"
	"strconv"
	"strings"
	"sync/atomic"

	task "github.com/go-task/task/v3"
	"github.com/go-task/task/v3/errors"
)

func init() {
	domains["resolverun"] = domain{runResolveRun,
		"Executor.Run after a real Setup on generated Taskfiles: 1..5 tasks (names over letters, '-', ':', one wildcard " +
			"pattern, aliases, some with a description) that print their index, plus 0..2 described tasks that cannot be " +
			"fast-compiled (failing dir template / malformed dotenv file); 1..3 requests: known names, aliases, instantiated " +
			"patterns, unknown names (near misses and far); expected: the first request that does not resolve decides the " +
			"error (200 / 203) and NOTHING has run, else the resolved tasks ran in request order; " +
			"distinct = (table, broken kinds, requests) with an unknown request and at least one broken task"}
}

type rrCase struct {
	Table  []resEntry `json:"table"`
	Desc   []bool     `json:"desc"`   // which table tasks carry a description (are compiled for the listing)
	Broken []string   `json:"broken"` // "dir" | "dotenv": extra described tasks that do not compile
	Reqs   []string   `json:"reqs"`
}

var rrCounter int64

func rrTaskfile(d rrCase) string {
	var b strings.Builder
	b.WriteString("version: '3'\ntasks:\n")
	for i, e := range d.Table {
		fmt.Fprintf(&b, "  %s:\n", q(e.Name))
		if i < len(d.Desc) && d.Desc[i] {
			fmt.Fprintf(&b, "    desc: %s\n", q(fmt.Sprintf("task %d", i)))
		}
		if len(e.Aliases) > 0 {
			fmt.Fprintf(&b, "    aliases: %s\n", strsYAML(e.Aliases))
		}
		fmt.Fprintf(&b, "    cmds:\n      - %s\n", q(fmt.Sprintf("echo RAN%d", i)))
	}
	for j, k := range d.Broken {
		fmt.Fprintf(&b, "  %s:\n    desc: %s\n", q(fmt.Sprintf("zz-broken-%d", j)), q("cannot be compiled"))
		switch k {
		case "dir":
			b.WriteString("    dir: '{{fail \"no such directory\"}}'\n")
		case "dotenv":
			b.WriteString("    dotenv: ['bad.env']\n")
		}
		fmt.Fprintf(&b, "    cmds:\n      - %s\n", q(fmt.Sprintf("echo RANBROKEN%d", j)))
	}
	return b.String()
}

func evalResolveRun(d rrCase) (cl, il string) {
	var sb strings.Builder
	fmt.Fprintf(&sb, "resolve.run %d", len(d.Table))
	for _, e := range d.Table {
		fmt.Fprintf(&sb, " %s %d", hx(e.Name), len(e.Aliases))
		for _, a := range e.Aliases {
			sb.WriteString(" " + hx(a))
		}
	}
	fmt.Fprintf(&sb, " %d", len(d.Reqs))
	for _, r := range d.Reqs {
		sb.WriteString(" " + hx(r))
	}
	cl = sb.String()
	defer func() {
		if r := recover(); r != nil {
			il = "panic"
		}
	}()
	scratch := os.Getenv("VERIF_SCRATCH")
	if scratch == "" {
		scratch = os.TempDir()
	}
	root := filepath.Join(scratch, "resolverun", fmt.Sprintf("c%d-%d", os.Getpid(), atomic.AddInt64(&rrCounter, 1)))
	os.RemoveAll(root)
	if err := os.MkdirAll(root, 0o755); err != nil {
		panic(err)
	}
	defer os.RemoveAll(root)
	if err := os.WriteFile(filepath.Join(root, "Taskfile.yml"), []byte(rrTaskfile(d)), 0o644); err != nil {
		panic(err)
	}
	os.WriteFile(filepath.Join(root, "bad.env"), []byte("A=\"unterminated\n"), 0o644)
	var out, errb bytes.Buffer
	e := task.NewExecutor(task.WithDir(root), task.WithStdout(&out), task.WithStderr(&errb), task.WithSilent(true))
	if err := e.Setup(); err != nil {
		return cl, "setup-error " + hx(err.Error())
	}
	var calls []*task.Call
	for _, r := range d.Reqs {
		calls = append(calls, &task.Call{Task: r})
	}
	err := e.Run(context.Background(), calls...)
	var ran []string
	for _, ln := range strings.Split(out.String(), "\n") {
		if strings.HasPrefix(ln, "RAN") {
			ran = append(ran, strings.TrimPrefix(ln, "RAN"))
		}
	}
	ranS := "-"
	if len(ran) > 0 {
		ranS = strings.Join(ran, " ")
	}
	if err == nil {
		if len(ran) == 0 {
			return cl, "ok ran"
		}
		return cl, "ok ran " + strings.Join(ran, " ")
	}
	var nf *errors.TaskNotFoundError
	var cf *errors.TaskNameConflictError
	code := 1
	var te errors.TaskError
	if errors.As(err, &te) {
		code = te.Code()
	}
	switch {
	case errors.As(err, &nf), errors.As(err, &cf):
		return cl, fmt.Sprintf("refused %d ran %s", code, ranS)
	}
	return cl, fmt.Sprintf("error %d ran %s %s", code, ranS, hx(err.Error()))
}

var rrLetters = []string{"a", "b", "c", "d", "-", ":"}

func (c *Ctx) rrWord(maxLen int) string {
	n := 1 + c.Rng.Intn(maxLen)
	var sb strings.Builder
	for i := 0; i < n; i++ {
		if c.Rng.Intn(100) < 80 {
			sb.WriteString(rrLetters[c.Rng.Intn(4)])
		} else {
			sb.WriteString(rrLetters[c.Rng.Intn(len(rrLetters))])
		}
	}
	return sb.String()
}

func runResolveRun(c *Ctx) {
	if c.Replay(func(raw []byte) (string, string) {
		var d rrCase
		mustJSON(raw, &d)
		return evalResolveRun(d)
	}) {
		return
	}
	n := c.Pick(260, 3000)
	for i := 0; i < n; i++ {
		var d rrCase
		k := 1 + c.Rng.Intn(5)
		seen := map[string]bool{}
		var pool []string
		for len(d.Table) < k {
			nm := c.rrWord(4)
			if len(d.Table) == 1 && c.chance(50) {
				nm = c.rrWord(2) + "*"
			}
			if seen[nm] || strings.HasPrefix(nm, "zz") {
				continue
			}
			seen[nm] = true
			var al []string
			for j := c.Rng.Intn(3); j > 0; j-- {
				a := c.rrWord(3)
				if len(pool) > 0 && c.chance(25) {
					a = pool[c.Rng.Intn(len(pool))]
				}
				al = append(al, a)
				pool = append(pool, a)
			}
			d.Table = append(d.Table, resEntry{nm, al})
			d.Desc = append(d.Desc, c.chance(50))
		}
		for j := c.Rng.Intn(3); j > 0; j-- {
			d.Broken = append(d.Broken, []string{"dir", "dotenv"}[c.Rng.Intn(2)])
		}
		unknown := false
		for j := 1 + c.Rng.Intn(3); j > 0; j-- {
			var r string
			switch c.Rng.Intn(9) {
			case 0, 1, 2, 6, 7:
				r = c.instantiate(d.Table[c.Rng.Intn(k)].Name)
			case 8:
				if len(pool) > 0 {
					r = pool[c.Rng.Intn(len(pool))]
				} else {
					r = c.rrWord(3)
				}
			case 3:
				r = c.rrWord(4) + strconv.Itoa(c.Rng.Intn(10)) // no table name has a digit: unknown unless a pattern matches
			case 4:
				r = "nosuch"
			default:
				r = c.rrWord(4)
			}
			d.Reqs = append(d.Reqs, r)
		}
		cl, il := evalResolveRun(d)
		kind := strings.Join(strings.Fields(il + " - -")[:2], ":")
		c.Hit("run:" + kind)
		unknown = strings.HasPrefix(il, "refused 200")
		for _, b := range d.Broken {
			c.Hit("broken:" + b)
			if unknown {
				c.Hit("unknown-with-broken:" + b)
			}
		}
		if unknown && len(d.Reqs) > 1 {
			c.Hit("unknown-among-several")
		}
		if unknown && len(d.Broken) > 0 {
			c.Distinct(cl + "|" + strings.Join(d.Broken, ","))
		}
		c.Emit(cl, il, d)
	}
}
