package main

// C19 — command-line arguments reach their destination verbatim.
//
// Domain `quote` (in process): mvdan.cc/sh syntax.Quote(…, LangBash) — what args.Get and
// the shellQuote/q template functions call — against the model's `quote`; the shell's
// word splitting + quote removal (mvdan shell.Fields) against the model's `words`;
// args.Parse / splitVar / args.Get against the model.
//
// Domain `cliargs` (end to end, real CLI binary): argv recorded by a helper program that
// the generated Taskfile command starts with `{{.CLI_ARGS}}` resp. `{{shellQuote .X}}
// {{q .X}}`; `task --init [PATH]` on generated directory trees.
//
// Byte strings are carried as hex in the JSON case descriptions (JSON cannot hold
// invalid UTF-8).

import (
	"bytes"
	"context"
	"encoding/hex"
	"errors"
	"fmt"
	"os"
	"os/exec"
	"path/filepath"
	"sort"
	"strconv"
	"strings"
	"sync"
	"time"

	"github.com/spf13/pflag"
	"mvdan.cc/sh/v3/shell"
	"mvdan.cc/sh/v3/syntax"

	task "github.com/go-task/task/v3"
	"github.com/go-task/task/v3/args"
	"github.com/go-task/task/v3/taskfile/ast"
	"github.com/go-task/task/v3/verifhook/export"
)

func init() {
	// argv recorder: `<harness> __record <outfile> arg…` writes its arguments, one hex
	// token per line after a count line, and exits.  Started by the generated Taskfile.
	if len(os.Args) >= 3 && os.Args[1] == "__record" {
		var sb strings.Builder
		fmt.Fprintf(&sb, "%d\n", len(os.Args)-3)
		for _, a := range os.Args[3:] {
			sb.WriteString(hx(a) + "\n")
		}
		if err := os.WriteFile(os.Args[2], []byte(sb.String()), 0o644); err != nil {
			os.Exit(3)
		}
		os.Exit(0)
	}
	domains["quote"] = domain{runQuote,
		"byte strings of length 0..40 over shell/template/YAML-special bytes, letters and hex digits, control bytes, " +
			"raw bytes 0x80..0xFF and valid/invalid/non-printable UTF-8 sequences, keywords, plus a NUL stream; argument " +
			"vectors of 0..6 such strings; command lines generated from the word grammar (plain, '…', \"…\", $'…' with " +
			"every escape); NAME=value vectors with repeated names and several '='; non-trivial = a string that needs " +
			"quoting / a line with a quoted piece / a vector with an assignment; distinct by input bytes"}
	domains["cliargs"] = domain{runCliArgs,
		"real CLI: `task fwd -- args…` (command `REC {{.CLI_ARGS}}`) and `task var X=value` (command `REC {{shellQuote .X}} " +
			"{{q .X}}`) with argument vectors over the same byte alphabet (no NUL; `{{` only in a separate template stream), " +
			"argv recorded by a helper binary; the value also reaches the command through an included task, through a `task:` call that hands it on in " +
			"`vars:`, through a global alias; non-string values through shellQuote / q; `task --init [PATH]` on generated directory trees (no arg, " +
			"directory, `.` / `sub/.`, hidden directories, file name, extension only, nested, absolute, existing targets, missing parents, `--`, symbolic " +
			"links to directories / files / nowhere — the model gets the tree as os.Stat sees it), the expected target computed from the rule " +
			"(initRule); distinct by argv / (tree, args)"}
}

// ---------------------------------------------------------------- byte-string generator

var (
	qSpecial  = []byte(" \t\n\r'\"\\$`!#&|;<>()[]{}*?~=%^,:@+-/._")
	qLetters  = []byte("abcXYZ019fFx")
	qKeywords = []string{"!", "[[", "]]", "case", "coproc", "do", "done", "else", "esac", "fi", "for", "function", "if", "in",
		"select", "then", "time", "until", "while", "{", "}"}
	qRunes = []string{"é", "ß", "\u00a0", "\u0080", "\u00ad", "\u200b", "\u2028", "\ufffd", "\ufeff", "日本", "😀", "\U0010ffff", "\U000e0001",
		"\u0378", "\u07ff", "\u0800", "\uffff", "\U00010000",
		"\xed\xa0\x80", "\xc0\x80", "\xe0\x80\x80", "\xf4\x90\x80\x80", "\xf8\x88\x80\x80\x80", "\xc3", "\xe2\x82", "\xf0\x9f\x98", "\x80", "\xbf", "\xff", "\xfe"}
	qTemplate = []string{"{{", "}}", "{{.Y}}", "{{.NOPE}}", "{{\"a b\"}}", "{{print 1 2}}", "{{\"'\"}}", "{{/* c */}}", "{{end}}", "{{.CLI_ARGS}}", "{{`$`}}"}
)

const (
	noTmpl   = 0 // never contains "{{"
	withTmpl = 1 // a template action is inserted
	rawTmpl  = 2 // whatever the byte generator produces, sometimes an inserted action
)

func (c *Ctx) pick(s string) byte { return s[c.Rng.Intn(len(s))] }

// qBytes: one byte string (never contains NUL).
func (c *Ctx) qBytes(maxLen int, tmpl int) string {
	n := 0
	switch r := c.Rng.Intn(10); {
	case r < 1:
		n = 0
	case r < 6:
		n = 1 + c.Rng.Intn(6)
	default:
		n = 1 + c.Rng.Intn(maxLen)
	}
	if c.Rng.Intn(40) == 0 {
		return qKeywords[c.Rng.Intn(len(qKeywords))]
	}
	// a profile per string so that "all safe", "all printable" and hostile strings all occur
	prof := c.Rng.Intn(6)
	var sb []byte
	for len(sb) < n {
		r := c.Rng.Intn(100)
		switch {
		case prof == 0 || r < 35:
			sb = append(sb, qLetters[c.Rng.Intn(len(qLetters))])
		case prof == 1 && r < 70:
			sb = append(sb, c.pick("-_./:@%+,^]}"))
		case r < 70:
			sb = append(sb, qSpecial[c.Rng.Intn(len(qSpecial))])
		case prof >= 3 && r < 78:
			sb = append(sb, byte(1+c.Rng.Intn(31)))
		case prof >= 3 && r < 80:
			sb = append(sb, 0x7f)
		case prof >= 4 && r < 90:
			sb = append(sb, qRunes[c.Rng.Intn(len(qRunes))]...)
		case prof == 5 && r < 96:
			sb = append(sb, byte(0x80+c.Rng.Intn(0x80)))
		default:
			sb = append(sb, byte(0x20+c.Rng.Intn(0x5f)))
		}
	}
	s := string(sb)
	if tmpl == withTmpl || (tmpl == rawTmpl && c.Rng.Intn(12) == 0) {
		t := qTemplate[c.Rng.Intn(len(qTemplate))]
		i := c.Rng.Intn(len(s) + 1)
		s = s[:i] + t + s[i:]
	} else if tmpl == noTmpl {
		for strings.Contains(s, "{{") {
			s = strings.Replace(s, "{{", "{ {", 1)
		}
	}
	return s
}

func unhexAll(hs []string) []string {
	out := make([]string, len(hs))
	for i, h := range hs {
		b, err := hex.DecodeString(h)
		if err != nil {
			panic(err)
		}
		out[i] = string(b)
	}
	return out
}

func hexAll(ss []string) []string {
	out := make([]string, len(ss))
	for i, s := range ss {
		out[i] = hex.EncodeToString([]byte(s))
	}
	return out
}

func quoteAll(ss []string) []string {
	out := make([]string, len(ss))
	for i, s := range ss {
		out[i] = strconv.QuoteToASCII(s)
	}
	return out
}

// ---------------------------------------------------------------- domain quote

type quoteCase struct {
	Kind string   `json:"kind"`           // quote | roundtrip | words | parse | splitvar | get | inert
	Hex  []string `json:"hex"`            // the byte strings (hex)
	Dash int      `json:"dash,omitempty"` // get: position of "--" (-1 = none)
	Text []string `json:"text,omitempty"` // the same strings, Go-quoted, for the reader
}

func implQuote(s string) string {
	q, err := syntax.Quote(s, syntax.LangBash)
	if err != nil {
		var qe *syntax.QuoteError
		if errors.As(err, &qe) {
			return fmt.Sprintf("nul %d", qe.ByteOffset)
		}
		return "othererr"
	}
	return "ok " + hx(q)
}

func noEnv(string) string { return "" }

func showFields(s string) string {
	fs, err := shell.Fields(s, noEnv)
	if err != nil {
		return "none"
	}
	if len(fs) == 0 {
		return "some"
	}
	return "some " + hxs(fs)
}

func caseLine(op string, toks ...string) string {
	if len(toks) == 0 {
		return op
	}
	return op + " " + strings.Join(toks, " ")
}

func evalQuote(d quoteCase) (cl string, il string) {
	ss := unhexAll(d.Hex)
	hs := make([]string, len(ss))
	for i, s := range ss {
		hs[i] = hx(s)
	}
	defer func() {
		if r := recover(); r != nil {
			il = "panic"
		}
	}()
	switch d.Kind {
	case "quote":
		return caseLine("quote.quote", hs...), implQuote(ss[0])
	case "words":
		return caseLine("quote.words", hs...), showFields(ss[0])
	case "roundtrip":
		cl = caseLine("quote.roundtrip", hs...)
		qs := make([]string, len(ss))
		for i, s := range ss {
			q, err := syntax.Quote(s, syntax.LangBash)
			if err != nil {
				var qe *syntax.QuoteError
				if errors.As(err, &qe) {
					return cl, fmt.Sprintf("nul %d", qe.ByteOffset)
				}
				return cl, "othererr"
			}
			qs[i] = q
		}
		j := strings.Join(qs, " ")
		return cl, "ok " + hx(j) + " " + showFields(j)
	case "splitvar":
		cl = caseLine("quote.splitvar", hs...)
		_, g := args.Parse(ss[0])
		for k, v := range g.All() {
			return cl, hx(k) + " " + hx(fmt.Sprint(v.Value))
		}
		return cl, "novar"
	case "parse":
		cl = caseLine("quote.parse", hs...)
		calls, g := args.Parse(ss...)
		parts := []string{"calls", strconv.Itoa(len(calls))}
		for _, c := range calls {
			parts = append(parts, hx(c.Task))
		}
		parts = append(parts, "globals")
		for k, v := range g.All() {
			s, ok := v.Value.(string)
			if !ok {
				s = fmt.Sprintf("%T", v.Value)
			}
			parts = append(parts, hx(k), hx(s))
		}
		return cl, strings.Join(parts, " ")
	case "inert":
		cl = caseLine("quote.inert", hs...)
		if strings.Contains(ss[0], "{{") || strings.Contains(ss[0], "<no value>") {
			return cl, "special"
		}
		vars := ast.NewVars()
		vars.Set("Y", ast.Var{Value: "why"})
		cache := &export.TemplaterCache{Vars: vars}
		res := export.TemplaterReplace(ss[0], cache)
		if cache.Err() != nil {
			return cl, "ERROR"
		}
		if res != ss[0] {
			return cl, "CHANGED " + hx(res)
		}
		return cl, "inert"
	case "get":
		cl = caseLine("quote.get", append([]string{strconv.Itoa(d.Dash)}, hs...)...)
		argv := append([]string{}, ss...)
		if d.Dash >= 0 {
			argv = append(append(append([]string{}, ss[:d.Dash]...), "--"), ss[d.Dash:]...)
		}
		pflag.CommandLine = pflag.NewFlagSet("task", pflag.ContinueOnError)
		if err := pflag.CommandLine.Parse(argv); err != nil {
			return cl, "flagerr"
		}
		before, after, err := args.Get()
		if err != nil {
			var qe *syntax.QuoteError
			if errors.As(err, &qe) {
				return cl, fmt.Sprintf("nul %d", qe.ByteOffset)
			}
			return cl, "othererr"
		}
		parts := []string{"ok", strconv.Itoa(len(before))}
		for _, s := range before {
			parts = append(parts, hx(s))
		}
		for _, s := range after {
			parts = append(parts, hx(s))
		}
		return cl, strings.Join(parts, " ")
	}
	return "quote.unknown", "unknown-kind"
}

// one piece of a shell word in the sub-language of the model, with what it denotes
func (c *Ctx) qPiece() string {
	var sb strings.Builder
	switch c.Rng.Intn(4) {
	case 0: // plain
		c.Hit("words:plain")
		for i := 1 + c.Rng.Intn(4); i > 0; i-- {
			sb.WriteByte(c.pick("abcXYZ019-_./:@%+,^]}!"))
		}
	case 1: // '…'
		c.Hit("words:sq")
		sb.WriteByte('\'')
		s := c.qBytes(8, rawTmpl)
		sb.WriteString(strings.NewReplacer("'", "", "\x00", "").Replace(s))
		sb.WriteByte('\'')
	case 2: // "…"
		c.Hit("words:dq")
		sb.WriteByte('"')
		for i := c.Rng.Intn(8); i > 0; i-- {
			switch r := c.Rng.Intn(10); {
			case r < 2:
				sb.WriteString([]string{`\"`, `\\`, "\\`", `\$`}[c.Rng.Intn(4)])
			case r < 3:
				sb.WriteString([]string{`\a`, `\'`, `\ `, `\n`, `\!`}[c.Rng.Intn(5)])
			case r < 6:
				sb.WriteByte(c.pick(" \t\n'!#&|;<>()[]{}*?~=%"))
			case r < 7:
				sb.WriteString(qRunes[c.Rng.Intn(len(qRunes))])
			default:
				sb.WriteByte(qLetters[c.Rng.Intn(len(qLetters))])
			}
		}
		sb.WriteByte('"')
	default: // $'…'
		c.Hit("words:ansi")
		sb.WriteString("$'")
		for i := c.Rng.Intn(8); i > 0; i-- {
			switch r := c.Rng.Intn(12); {
			case r < 2:
				sb.WriteString([]string{`\\`, `\'`, `\"`, `\?`, `\a`, `\b`, `\e`, `\E`, `\f`, `\n`, `\r`, `\t`, `\v`}[c.Rng.Intn(13)])
			case r < 4:
				fmt.Fprintf(&sb, "\\x%02x", 1+c.Rng.Intn(255))
			case r < 5:
				fmt.Fprintf(&sb, "\\x%02X", 1+c.Rng.Intn(255))
			case r < 6:
				v := []int{1, 0x7f, 0x80, 0xa0, 0xe9, 0x7ff, 0x800, 0xd7ff, 0xe000, 0xfffd, 0xffff, 0x20ac}
				fmt.Fprintf(&sb, "\\u%04x", v[c.Rng.Intn(len(v))])
			case r < 7:
				v := []int{1, 0x41, 0xe9, 0xffff, 0x10000, 0x1f600, 0x10ffff}
				fmt.Fprintf(&sb, "\\U%08x", v[c.Rng.Intn(len(v))])
			case r < 9:
				sb.WriteByte(c.pick(" \t\n\"!#&|;<>()[]{}*?~=%$`"))
			case r < 10:
				sb.WriteString(qRunes[c.Rng.Intn(len(qRunes))])
			default:
				sb.WriteByte(qLetters[c.Rng.Intn(len(qLetters))])
			}
		}
		sb.WriteString("'")
	}
	return sb.String()
}

func mkQuoteCase(kind string, ss []string, dash int) quoteCase {
	return quoteCase{Kind: kind, Hex: hexAll(ss), Dash: dash, Text: quoteAll(ss)}
}

func runQuote(c *Ctx) {
	if c.Replay(func(raw []byte) (string, string) {
		var d quoteCase
		mustJSON(raw, &d)
		return evalQuote(d)
	}) {
		return
	}
	emit := func(d quoteCase) string {
		cl, il := evalQuote(d)
		c.Emit(cl, il, d)
		return il
	}
	// fixed corpus: every branch of Quote, keyword, hex digit after \x, multi-byte cases
	for _, s := range []string{"", "a", "a b", "it's", "it's \"$x\" `y` \\", "\x01", "\x01f", "a\nb", "\a\b\f\n\r\t\v", "\x7f", "é", "é'", "\u00a0", "\u0080",
		"\ufffd", "\xff", "\xffa", "😀", "\U0010ffff", "\U000e0001", "\xed\xa0\x80", "\xc0\x80", "if", "{", "}", "!", "a=b", "~", "#", "a#", "{{.X}}", "'", "\\", "\x00", "ab\x00c\x00", "\xe2\x82", "time", "[[", "-n", "%s"} {
		emit(mkQuoteCase("quote", []string{s}, 0))
		c.Hit("corpus")
	}
	nq := c.Pick(30000, 400000)
	for i := 0; i < nq; i++ {
		s := c.qBytes(40, rawTmpl)
		if c.Rng.Intn(50) == 0 { // malformed stream: NUL bytes
			k := c.Rng.Intn(len(s) + 1)
			s = s[:k] + "\x00" + s[k:]
		}
		il := emit(mkQuoteCase("quote", []string{s}, 0))
		switch {
		case strings.HasPrefix(il, "nul"):
			c.Hit("quote:nul")
		case il == "ok "+hx(s):
			c.Hit("quote:unchanged")
		default:
			q, _ := hex.DecodeString(strings.TrimPrefix(il, "ok "))
			switch {
			case bytes.HasPrefix(q, []byte("$'")):
				c.Hit("quote:ansi")
				for _, e := range []string{`\x`, `\u`, `\U`, `\n`, `\'`, `\\`} {
					if bytes.Contains(q, []byte(e)) {
						c.Hit("quote:ansi" + e)
					}
				}
			case bytes.HasPrefix(q, []byte("'")):
				c.Hit("quote:single")
			case bytes.HasPrefix(q, []byte("\"")):
				c.Hit("quote:double")
			}
			c.Distinct("q|" + s)
		}
	}
	// all single bytes and all pairs with a hex digit / quote after them
	for b := 1; b < 256; b++ {
		for _, suf := range []string{"", "a", "'", "\xbf"} {
			emit(mkQuoteCase("quote", []string{string([]byte{byte(b)}) + suf}, 0))
		}
	}
	c.Hit("quote:all-bytes")
	nr := c.Pick(8000, 120000)
	for i := 0; i < nr; i++ {
		k := c.Rng.Intn(7)
		ss := make([]string, k)
		for j := range ss {
			ss[j] = c.qBytes(20, rawTmpl)
		}
		if c.Rng.Intn(100) == 0 && k > 0 {
			ss[c.Rng.Intn(k)] += "\x00"
		}
		il := emit(mkQuoteCase("roundtrip", ss, 0))
		c.Hit(fmt.Sprintf("roundtrip:%d-args", k))
		if strings.Contains(il, " some") && k > 0 {
			c.Distinct("r|" + strings.Join(ss, "\x00"))
		}
	}
	nw := c.Pick(8000, 120000)
	for i := 0; i < nw; i++ {
		var sb strings.Builder
		for w := c.Rng.Intn(5); w > 0; w-- {
			for p := 1 + c.Rng.Intn(3); p > 0; p-- {
				sb.WriteString(c.qPiece())
			}
			if w > 1 {
				sb.WriteByte(' ')
			}
		}
		// mvdan's lexer rejects raw invalid UTF-8 and uses the runes U+0080 (utf8.RuneSelf,
		// end of input) and U+0081 (escaped newline) as internal sentinels, so raw
		// occurrences of them are misread, and it drops a raw CR before LF even inside
		// quotes; syntax.Quote never emits any of these raw.
		line := strings.NewReplacer("\u0080", "\u0082", "\u0081", "\u0083").Replace(strings.ToValidUTF8(sb.String(), "?"))
		for strings.Contains(line, "\r\n") {
			line = strings.ReplaceAll(line, "\r\n", "\n")
		}
		il := emit(mkQuoteCase("words", []string{line}, 0))
		if il != "none" {
			c.Distinct("w|" + line)
		}
	}
	// templater.Replace is the identity on text without "{{" and without "<no value>"
	nin := c.Pick(6000, 80000)
	for i := 0; i < nin; i++ {
		s := c.qBytes(30, rawTmpl)
		if c.Rng.Intn(6) == 0 {
			ins := []string{"<no value>", "<no  value>", "<No value>", "<no value", "no value>", "{ {", "{", "}}", "{%", "<no value><no value>", "{{"}
			k := c.Rng.Intn(len(s) + 1)
			s = s[:k] + ins[c.Rng.Intn(len(ins))] + s[k:]
		}
		if c.Rng.Intn(3) == 0 { // the text as it is forwarded: quoted
			if q, err := syntax.Quote(s, syntax.LangBash); err == nil {
				s = q
			}
		}
		il := emit(mkQuoteCase("inert", []string{s}, 0))
		c.Hit("inert:" + strings.SplitN(il, " ", 2)[0])
		if il == "inert" && len(s) > 0 {
			c.Distinct("t|" + s)
		}
	}
	np := c.Pick(6000, 80000)
	for i := 0; i < np; i++ {
		k := c.Rng.Intn(6)
		ss := make([]string, k)
		names := []string{"X", "Y", "X", "A_B", "", "x", "CLI_ARGS", "é"}
		assigns := 0
		for j := range ss {
			switch c.Rng.Intn(3) {
			case 0:
				ss[j] = strings.ReplaceAll(c.qBytes(8, rawTmpl), "=", "")
				if ss[j] == "" || strings.HasPrefix(ss[j], "-") {
					ss[j] = "t" + ss[j]
				}
			default:
				assigns++
				n := names[c.Rng.Intn(len(names))]
				if c.Rng.Intn(4) == 0 {
					n = strings.ReplaceAll(c.qBytes(5, rawTmpl), "=", "")
					if strings.HasPrefix(n, "-") {
						n = "n" + n
					}
				}
				ss[j] = n + "=" + c.qBytes(12, rawTmpl)
			}
		}
		switch c.Rng.Intn(3) {
		case 0:
			emit(mkQuoteCase("parse", ss, 0))
			c.Hit("parse")
			if assigns > 0 {
				c.Distinct("p|" + strings.Join(ss, "\x00"))
			}
		case 1:
			if k == 0 || !strings.Contains(ss[0], "=") {
				ss = []string{"X=" + c.qBytes(12, rawTmpl)}
			}
			emit(mkQuoteCase("splitvar", ss[:1], 0))
			c.Hit("splitvar")
			if strings.Count(ss[0], "=") > 1 {
				c.Hit("splitvar:several-eq")
			}
			c.Distinct("s|" + ss[0])
		default:
			dash := c.Rng.Intn(k+2) - 1
			// arguments after the dash may be anything (also flag-like)
			for j := range ss {
				if dash >= 0 && j >= dash && c.Rng.Intn(2) == 0 {
					ss[j] = c.qBytes(12, rawTmpl)
				}
			}
			emit(mkQuoteCase("get", ss, dash))
			c.Hit("get")
			if dash >= 0 && dash < k {
				c.Hit("get:with-dash-args")
				c.Distinct("g|" + strconv.Itoa(dash) + "|" + strings.Join(ss, "\x00"))
			}
		}
	}
}

// ---------------------------------------------------------------- domain cliargs

type cliCase struct {
	Kind string   `json:"kind"` // fwd | var | typed | init
	// fwd / var: the path on which the forwarded value reaches the recording command (the demand is the same on every path):
	// "" (the task itself) | inc (a task of an included Taskfile) | via (a `task:` call handing it on in `vars:`) | alias
	// (a GLOBAL variable defined as '{{.CLI_ARGS}}' / '{{.X}}')
	Path string `json:"path,omitempty"`
	Argv []string `json:"argv"` // hex; fwd/var: positional arguments of `task` (before and after --); init: positional arguments ({ROOT} = tree root)
	Dash int      `json:"dash"` // index in Argv where "--" is inserted, -1 = none
	Text []string `json:"text,omitempty"`
	// init only
	Flag string   `json:"flag,omitempty"` // --init | -i
	Tree []string `json:"tree,omitempty"` // pre-existing entries relative to the tree root, "d:" / "f:" prefix; the working directory is w/
	// filled in by the harness (not inputs): the monitors of the two open findings.  When
	// the forwarded text contains a template action ("template") or the literal <no value>
	// ("novalue"), what the helper receives if that text is passed through the real
	// templater.Replace (variable pass) and the command-level <no value> deletion.
	Reinterp string   `json:"reinterpreted,omitempty"`
	AsIfArgv []string `json:"argv_as_if,omitempty"`
	AsIfFail bool     `json:"fails_as_if,omitempty"`
}

type cliWorker struct {
	dir     string // contains Taskfile.yml
	outFile string
}

var (
	cliOnce    sync.Once
	cliWorkers chan *cliWorker
	cliBin     string
	cliRoot    string
	cliSeq     int64
	cliSeqMu   sync.Mutex
)

const cliTaskfileVarY = "why"

// non-string variable values of the workers' Taskfile: name, YAML text, what the template engine prints for it
// (`{{shellQuote .N}}`: "any variable value" — fix 0d1f4ef; before: `wrong type for value; expected string`)
var cliTyped = [][3]string{{"N1", "42", "42"}, {"N2", "-7", "-7"}, {"N3", "0", "0"}, {"B1", "true", "true"}, {"B2", "false", "false"},
	{"F1", "1.5", "1.5"}, {"L1", "[a, b c]", "[a b c]"}, {"S1", "'007'", "007"}, {"M1", "{map: {k: v}}", "map[k:v]"}}

func cliSetup() {
	cliBin = os.Getenv("VERIF_TASK_BIN")
	cliRoot = os.Getenv("VERIF_SCRATCH")
	if cliBin == "" || cliRoot == "" {
		panic("cliargs: VERIF_TASK_BIN and VERIF_SCRATCH must be set")
	}
	cliRoot = filepath.Join(cliRoot, fmt.Sprintf("cliargs-%d", os.Getpid()))
	self, err := os.Executable()
	if err != nil {
		panic(err)
	}
	const nw = 8
	cliWorkers = make(chan *cliWorker, nw)
	for i := 0; i < nw; i++ {
		w := &cliWorker{dir: filepath.Join(cliRoot, fmt.Sprintf("w%d", i))}
		w.outFile = filepath.Join(w.dir, "argv.out")
		os.MkdirAll(filepath.Join(w.dir, "home"), 0o755)
		rec, _ := syntax.Quote(self, syntax.LangBash)
		out, _ := syntax.Quote(w.outFile, syntax.LangBash)
		recFwd := func(v string) string { return strconv.Quote(rec + " __record " + out + " {{." + v + "}}") }
		recVar := func(v string) string { return strconv.Quote(rec + " __record " + out + " {{shellQuote ." + v + "}} {{q ." + v + "}}") }
		tf := "version: '3'\nsilent: true\nvars:\n  Y: " + cliTaskfileVarY + "\n  GARGS: '{{.CLI_ARGS}}'\n  GX: '{{.X}}'\n"
		for _, tv := range cliTyped {
			tf += "  " + tv[0] + ": " + tv[1] + "\n"
		}
		tf += "includes:\n  inc:\n    taskfile: ./inc/Taskfile.yml\n    dir: .\n" +
			"tasks:\n" +
			"  fwd:\n    cmds:\n      - " + recFwd("CLI_ARGS") + "\n" +
			"  var:\n    cmds:\n      - " + recVar("X") + "\n" +
			"  default:\n    cmds:\n      - " + recVar("X") + "\n" +
			// through a `task:` call that hands the value on in `vars:`
			"  viafwd:\n    cmds:\n      - task: getsA\n        vars: {A: '{{.CLI_ARGS}}'}\n" +
			"  getsA:\n    cmds:\n      - " + recFwd("A") + "\n" +
			"  viavar:\n    cmds:\n      - task: getsV\n        vars: {V: '{{.X}}'}\n" +
			"  getsV:\n    cmds:\n      - " + recVar("V") + "\n" +
			// through a global variable defined from it
			"  aliasfwd:\n    cmds:\n      - " + recFwd("GARGS") + "\n" +
			"  aliasvar:\n    cmds:\n      - " + recVar("GX") + "\n"
		for _, tv := range cliTyped {
			tf += "  ty-" + tv[0] + ":\n    cmds:\n      - " + recVar(tv[0]) + "\n"
		}
		inc := "version: '3'\nsilent: true\ntasks:\n" +
			"  fwd:\n    cmds:\n      - " + recFwd("CLI_ARGS") + "\n" +
			"  var:\n    cmds:\n      - " + recVar("X") + "\n"
		os.MkdirAll(filepath.Join(w.dir, "inc"), 0o755)
		if err := os.WriteFile(filepath.Join(w.dir, "inc", "Taskfile.yml"), []byte(inc), 0o644); err != nil {
			panic(err)
		}
		if err := os.WriteFile(filepath.Join(w.dir, "Taskfile.yml"), []byte(tf), 0o644); err != nil {
			panic(err)
		}
		cliWorkers <- w
	}
}

func runCLI(dir, home string, argv []string) (int, string) {
	ctx, cancel := context.WithTimeout(context.Background(), 20*time.Second)
	defer cancel()
	cmd := exec.CommandContext(ctx, cliBin, argv...) // default Cancel = Process.Kill (SIGKILL)
	cmd.Dir = dir
	cmd.Env = []string{"PATH=" + os.Getenv("PATH"), "HOME=" + home, "NO_COLOR=1"}
	cmd.Stdin = nil
	var buf bytes.Buffer
	cmd.Stdout = &buf
	cmd.Stderr = &buf
	err := cmd.Run()
	if ctx.Err() != nil {
		return -2, buf.String()
	}
	if err != nil {
		var ee *exec.ExitError
		if errors.As(err, &ee) {
			return ee.ExitCode(), buf.String()
		}
		return -1, err.Error()
	}
	return 0, buf.String()
}

func withDash(ss []string, dash int) []string {
	if dash < 0 || dash > len(ss) {
		return append([]string{}, ss...)
	}
	return append(append(append([]string{}, ss[:dash]...), "--"), ss[dash:]...)
}

func readRecorded(path string) (string, bool) {
	data, err := os.ReadFile(path)
	if err != nil {
		return "", false
	}
	lines := strings.Split(strings.TrimRight(string(data), "\n"), "\n")
	n, err := strconv.Atoi(lines[0])
	if err != nil || n != len(lines)-1 {
		return "", false
	}
	return strings.Join(append([]string{"argv"}, lines[1:]...), " "), true
}

// evalCli runs the real binary on one case.  The model line demands `argv <w>*`.
func evalCli(d *cliCase) (cl string, il string) {
	cliOnce.Do(cliSetup)
	ss := unhexAll(d.Argv)
	d.Text = quoteAll(ss)
	if d.Kind == "init" {
		return evalInit(d, ss)
	}
	hs := make([]string, len(ss))
	for i, s := range ss {
		hs[i] = hx(s)
	}
	cl = caseLine("quote.e2e", append([]string{d.Kind, strconv.Itoa(d.Dash)}, hs...)...)
	run := ss
	if d.Kind == "typed" {
		// `task ty-<NAME>`: the demand is that of `var` with X = what the engine prints for the value
		printed := ""
		for _, tv := range cliTyped {
			if len(ss) == 1 && tv[0] == ss[0] {
				printed = tv[2]
			}
		}
		cl = caseLine("quote.e2e", "var", "-1", hx("X="+printed))
		run = []string{"ty-" + ss[0]}
	} else if d.Path != "" {
		// the same arguments, the task name replaced by the one of the path
		name := map[string]string{"inc": "inc:" + d.Kind, "via": "via" + d.Kind, "alias": "alias" + d.Kind}[d.Path]
		run = append([]string{}, ss...)
		for i := range run {
			if run[i] == d.Kind && (d.Dash < 0 || i < d.Dash) {
				run[i] = name
				break
			}
		}
	}
	cliTemplated(d, ss)
	w := <-cliWorkers
	defer func() { cliWorkers <- w }()
	os.Remove(w.outFile)
	rc, out := runCLI(w.dir, filepath.Join(w.dir, "home"), withDash(run, d.Dash))
	if d.Path == "alias" {
		// monitor of the open finding C19-forwarded-value-empty-in-global-alias (one root with C10-cli-specials-defined-after-globals):
		// the global was rendered before the command-line layer existed — the helper gets nothing (fwd) / two empty arguments (var)
		rec, ok := readRecorded(w.outFile)
		want := cliDemanded(d, ss)
		if rc == 0 && ok && rec != want && (rec == "argv" || rec == "argv - -") {
			return cl, rec + " alias-empty"
		}
	}
	rec, ok := readRecorded(w.outFile)
	// monitors of the open findings: the outcome is exactly what the template passes give
	// → tagged `templated` (DESIGN §8 row 26) resp. `novalue` (<no value> deleted)
	tag := func(il string) string {
		t := map[string]string{"template": " templated", "novalue": " novalue"}[d.Reinterp]
		if t == "" {
			return il
		}
		if d.AsIfFail && strings.HasPrefix(il, "fail ") {
			return il + t
		}
		if !d.AsIfFail && il == strings.Join(append([]string{"argv"}, d.AsIfArgv...), " ") {
			return il + t
		}
		return il
	}
	switch {
	case rc == -2:
		return cl, "timeout"
	case rc != 0:
		return cl, tag(fmt.Sprintf("fail %d", rc))
	case !ok:
		return cl, "fail norecord " + hx(firstLine(out))
	}
	if rec == cliDemanded(d, ss) {
		return cl, rec
	}
	return cl, tag(rec)
}

// cliDemanded: what the property demands the helper to receive (the forwarded
// arguments themselves) — used only to decide whether a deviation gets the monitor tag.
func cliDemanded(d *cliCase, ss []string) string {
	var want []string
	switch d.Kind {
	case "fwd":
		if d.Dash >= 0 && d.Dash <= len(ss) {
			want = ss[d.Dash:]
		}
	case "var":
		before := ss
		if d.Dash >= 0 && d.Dash <= len(ss) {
			before = ss[:d.Dash]
		}
		_, g := args.Parse(before...)
		if v, ok := g.Get("X"); ok {
			x, _ := v.Value.(string)
			want = []string{x, x}
		}
	}
	parts := []string{"argv"}
	for _, w := range want {
		parts = append(parts, hx(w))
	}
	return strings.Join(parts, " ")
}

func firstLine(s string) string {
	if i := strings.IndexByte(s, '\n'); i >= 0 {
		s = s[:i]
	}
	if len(s) > 80 {
		s = s[:80]
	}
	return s
}

// cliTemplated computes, for the monitors of the open findings, what the helper would
// receive if the forwarded text went through the template passes of the real code.
func cliTemplated(d *cliCase, ss []string) {
	d.Reinterp, d.AsIfArgv, d.AsIfFail = "", nil, false
	var text string
	switch d.Kind {
	case "fwd":
		if d.Dash < 0 || d.Dash > len(ss) {
			return
		}
		qs := []string{}
		for _, s := range ss[d.Dash:] {
			q, err := syntax.Quote(s, syntax.LangBash)
			if err != nil {
				return
			}
			qs = append(qs, q)
		}
		text = strings.Join(qs, " ")
	case "var":
		before := ss
		if d.Dash >= 0 && d.Dash <= len(ss) {
			before = ss[:d.Dash]
		}
		_, g := args.Parse(before...)
		v, ok := g.Get("X")
		if !ok {
			return
		}
		text, _ = v.Value.(string)
	}
	switch {
	case strings.Contains(text, "{{"):
		d.Reinterp = "template"
	case strings.Contains(text, "<no value>"):
		d.Reinterp = "novalue"
	default:
		return
	}
	vars := ast.NewVars()
	vars.Set("Y", ast.Var{Value: cliTaskfileVarY})
	cache := &export.TemplaterCache{Vars: vars}
	res := export.TemplaterReplace(text, cache) // variable pass (Compiler.getVariables)
	if cache.Err() != nil {
		d.AsIfFail = true
		return
	}
	line := res
	if d.Kind == "var" {
		q, err := syntax.Quote(res, syntax.LangBash)
		if err != nil {
			d.AsIfFail = true
			return
		}
		line = q + " " + q
	}
	line = strings.ReplaceAll(line, "<no value>", "") // command pass (templater.Replace of the cmd)
	fs, err := shell.Fields(line, noEnv)
	if err != nil {
		d.AsIfFail = true
		return
	}
	d.AsIfArgv = []string{}
	for _, f := range fs {
		d.AsIfArgv = append(d.AsIfArgv, hx(f))
	}
}

// ---- task --init

func evalInit(d *cliCase, ss []string) (cl string, il string) {
	cliSeqMu.Lock()
	cliSeq++
	root := filepath.Join(cliRoot, fmt.Sprintf("init%d", cliSeq))
	cliSeqMu.Unlock()
	defer os.RemoveAll(root)
	wd := filepath.Join(root, "w")
	os.MkdirAll(wd, 0o755)
	os.MkdirAll(filepath.Join(root, "home"), 0o755)
	var links []string
	for _, e := range d.Tree {
		p := filepath.Join(root, e[2:])
		switch {
		case strings.HasPrefix(e, "d:"):
			os.MkdirAll(p, 0o755)
		case strings.HasPrefix(e, "l:"): // l:<path>=<target as written in the link>
			links = append(links, e[2:])
		default:
			os.MkdirAll(filepath.Dir(p), 0o755)
			os.WriteFile(p, []byte("# pre-existing "+e+"\n"), 0o644)
		}
	}
	for _, l := range links {
		kv := strings.SplitN(l, "=", 2)
		p := filepath.Join(root, kv[0])
		os.MkdirAll(filepath.Dir(p), 0o755)
		os.Symlink(strings.ReplaceAll(kv[1], "{ROOT}", root), p)
	}
	type ent struct {
		dir     bool
		content string
	}
	snap := func() map[string]ent {
		m := map[string]ent{}
		filepath.Walk(root, func(p string, fi os.FileInfo, err error) error {
			if err != nil {
				return nil
			}
			rel, _ := filepath.Rel(root, p)
			if rel == "home" || strings.HasPrefix(rel, "home/") {
				return nil
			}
			v := "/" + rel
			if rel == "." {
				v = "/"
			}
			if fi.IsDir() {
				m[v] = ent{dir: true}
			} else if fi.Mode()&os.ModeSymlink != 0 {
				t, _ := os.Readlink(p) // the link itself (writing THROUGH a dangling link creates its target, the link stays)
				m[v] = ent{content: "-> " + t}
			} else {
				b, _ := os.ReadFile(p)
				m[v] = ent{content: string(b)}
			}
			return nil
		})
		return m
	}
	before := snap()
	// Symbolic links: the model's file system has files and directories only, so it is given the tree AS os.Stat SEES IT — a link
	// to a directory is that directory (with its entries below the link's name), a link to a file is a file, a dangling link is
	// absent — and the file the run creates is mapped back to the name it was asked for (`viaLink`).
	statView := map[string]ent{}
	for k, v := range before {
		statView[k] = v
	}
	for _, l := range links {
		kv := strings.SplitN(l, "=", 2)
		v := "/" + kv[0]
		delete(statView, v)
		st, err := os.Stat(filepath.Join(root, kv[0]))
		switch {
		case err != nil: // dangling
		case st.IsDir():
			statView[v] = ent{dir: true}
			real, _ := filepath.EvalSymlinks(filepath.Join(root, kv[0]))
			rel, _ := filepath.Rel(root, real)
			for k2, v2 := range before {
				if strings.HasPrefix(k2, "/"+rel+"/") {
					statView[v+strings.TrimPrefix(k2, "/"+rel)] = v2
				}
			}
		default:
			statView[v] = ent{content: "via link"}
		}
	}
	snapBefore := before
	before = statView
	// model input: virtual root "/"
	virt := make([]string, len(ss))
	real := make([]string, len(ss))
	for i, s := range ss {
		virt[i] = strings.ReplaceAll(s, "{ROOT}", "")
		real[i] = strings.ReplaceAll(s, "{ROOT}", root)
	}
	isDirV := map[string]bool{}
	for k, v := range before {
		isDirV[k] = v.dir
	}
	toks := []string{initRule(isDirV, "/w", virt, d.Dash), hx("/w"), strconv.Itoa(d.Dash), strconv.Itoa(len(virt))}
	for _, s := range virt {
		toks = append(toks, hx(s))
	}
	keys := make([]string, 0, len(before))
	for k := range before {
		keys = append(keys, k)
	}
	sort.Strings(keys)
	for _, k := range keys {
		kind := "f"
		if before[k].dir {
			kind = "d"
		}
		toks = append(toks, hx(k), kind)
	}
	cl = caseLine("quote.init", toks...)
	flag := d.Flag
	if flag == "" {
		flag = "--init"
	}
	rc, _ := runCLI(wd, filepath.Join(root, "home"), append([]string{flag}, withDash(real, d.Dash)...))
	after := snap()
	before = snapBefore
	// the name under which the rule expects the new file, when that name leads (through links) to the file that was created
	viaLink := func(physical string) string {
		want := toks[0]
		if !strings.HasPrefix(want, "w") || len(links) == 0 {
			return physical
		}
		b, err := hex.DecodeString(want[1:])
		if err != nil {
			return physical
		}
		if real, err := filepath.EvalSymlinks(filepath.Join(root, string(b))); err == nil {
			if rel, err := filepath.Rel(root, real); err == nil && "/"+rel == physical {
				return string(b)
			}
		}
		return physical
	}
	var created, changed []string
	for k, v := range after {
		b, ok := before[k]
		if !ok {
			created = append(created, k)
		} else if b != v {
			changed = append(changed, k)
		}
	}
	for k := range before {
		if _, ok := after[k]; !ok {
			changed = append(changed, k)
		}
	}
	sort.Strings(created)
	sort.Strings(changed)
	switch {
	case rc == -2:
		return cl, "timeout"
	case len(changed) > 0:
		return cl, "overwrote " + hxs(changed)
	case rc == 0 && len(created) == 1 && !after[created[0]].dir && after[created[0]].content == task.DefaultTaskfile:
		return cl, "written " + hx(viaLink(created[0]))
	case rc == 0:
		return cl, "ok-but-created " + hxs(created)
	case len(created) > 0:
		return cl, fmt.Sprintf("fail %d created %s", rc, hxs(created))
	case rc == 101:
		return cl, "exists"
	default:
		return cl, "error"
	}
}

// initRule: where the RULE of the property says `task --init [PATH]` writes — computed from the tree the
// generator made, independently of the code's own predicates (and of the model's transcription of them):
// no argument → the working directory; an argument that names an existing directory → Taskfile.yml in it;
// a last component that is an extension only (".yml": a dot, then at least one byte, no further dot) →
// "Taskfile"+ext beside it; anything else → that file.  A target that is itself a directory takes
// Taskfile.yml inside; nothing that exists is ever overwritten; a missing parent is an error.
// Result token: w<hex path> | x (refused: exists) | e (error).
func initRule(isDir map[string]bool, wd string, args []string, dash int) string {
	pos := args
	if dash >= 0 && dash <= len(args) {
		pos = args[:dash]
	}
	resolve := func(x string) string {
		if strings.HasPrefix(x, "/") {
			return filepath.Clean(x)
		}
		return filepath.Join(wd, x)
	}
	exists := func(p string) bool { _, ok := isDir[p]; return ok }
	inDir := func(d string) string {
		t := filepath.Join(d, "Taskfile.yml")
		if exists(t) {
			return "x"
		}
		return "w" + hx(t)
	}
	if len(pos) == 0 {
		if isDir[wd] {
			return inDir(wd)
		}
		return "e"
	}
	a := pos[0]
	target := resolve(a)
	if !(exists(target) && isDir[target]) {
		last := a[strings.LastIndex(a, "/")+1:]
		if len(last) >= 2 && last[0] == '.' && !strings.Contains(last[1:], ".") {
			d := a[:len(a)-len(last)]
			if d == "" {
				d = "."
			}
			target = resolve(filepath.Join(d, "Taskfile"+last))
		}
	}
	switch {
	case exists(target) && isDir[target]:
		return inDir(target)
	case exists(target):
		return "x"
	case exists(filepath.Dir(target)) && isDir[filepath.Dir(target)]:
		return "w" + hx(target)
	default:
		return "e"
	}
}

func (c *Ctx) genInit() *cliCase {
	d := &cliCase{Kind: "init", Dash: -1, Flag: "--init"}
	if c.Rng.Intn(4) == 0 {
		d.Flag = "-i"
	}
	pool := []string{"d:w/sub", "d:w/deep/er", "f:w/Taskfile.yml", "f:w/sub/Taskfile.yml", "f:w/exist.yml", "f:w/sub/x.yml", "d:other",
		"f:other/Taskfile.yml", "f:w/Taskfile.yaml", "d:w/dir.yml", "f:w/sub/Taskfile.yaml", "f:Taskfile.yml", "d:w/sub/Taskfile.yml", "d:w/with space",
		"d:w/.hid", "d:w/sub/.cfg", "f:w/.hid/Taskfile.yml", "f:w/.dotfile", "f:w/Taskfile.hid", "f:w/Taskfile.",
		// symbolic links: to a directory, dangling, to a file
		"l:w/ldir=sub", "l:w/dangling.yml=nowhere.yml", "l:w/tolink.yml=exist.yml", "l:w/lother={ROOT}/other", "l:w/ldang=nodir"}
	for _, e := range pool {
		if c.Rng.Intn(3) == 0 {
			d.Tree = append(d.Tree, e)
		}
	}
	argPool := []string{"sub", "sub/", "new.yml", "exist.yml", ".yml", ".yaml", "sub/.yaml", "sub/new.yml", "missing/new.yml", "exist.yml/x",
		"{ROOT}/w/sub", "{ROOT}/other", "{ROOT}/other/a.yml", "{ROOT}/w/abs.yml", "..", "../up.yml", "./x.yml", "sub/../y.yml", ".", "./",
		"with space", "with space/t.yml", "a b.yml", "Taskfile.yaml", "Taskfile.yml", "dir.yml", "deep/er", "deep/er/.yml", "noext", "a.b.c",
		"sub//z.yml", "sub/./z.yml", "'q'.yml", "$HOME.yml", "*.yml", "x=y.yml", "é.yml",
		".", "sub/.", "deep/er/.", "../w/.", "{ROOT}/w/.", "sub/..", "./.", ".hid", ".hid/", "sub/.cfg", ".dotfile", "...", ".a.b", "missing/.", "exist.yml/.",
		"ldir", "ldir/x.yml", "ldir/.yaml", "dangling.yml", "tolink.yml", "lother", "lother/b.yml", "ldang", "ldang/x.yml"}
	var argv []string
	switch r := c.Rng.Intn(10); {
	case r < 2:
		c.Hit("init:no-arg")
	case r < 8:
		argv = []string{argPool[c.Rng.Intn(len(argPool))]}
		c.Hit("init:one-arg")
	default:
		argv = []string{argPool[c.Rng.Intn(len(argPool))], argPool[c.Rng.Intn(len(argPool))]}
		c.Hit("init:two-args")
	}
	if c.Rng.Intn(8) == 0 {
		d.Dash = c.Rng.Intn(len(argv) + 1)
		c.Hit("init:with-dash")
	}
	d.Argv = hexAll(argv)
	return d
}

func runCliArgs(c *Ctx) {
	if c.Replay(func(raw []byte) (string, string) {
		var d cliCase
		mustJSON(raw, &d)
		return evalCli(&d)
	}) {
		return
	}
	var cases []*cliCase
	add := func(kind string, argv []string, dash int) *cliCase {
		d := &cliCase{Kind: kind, Argv: hexAll(argv), Dash: dash}
		cases = append(cases, d)
		return d
	}
	// fixed corpus (the three defects of DESIGN §8 rows 25/27 and hostile classics)
	add("fwd", []string{"fwd", "a", "b c", "it's"}, 1)
	add("fwd", []string{"fwd"}, 1)
	add("fwd", []string{"fwd", ""}, 1)
	add("fwd", []string{"fwd", "$HOME", "`id`", "$(id)", "*", "~", "a;b", "x\ny", "\\", "\"", "#c", "-n", "--", "X=1"}, 1)
	add("fwd", []string{"Y=2", "fwd", "\xff\x01", "é", "\u00a0", "if", "{", "a=b"}, 2)
	add("var", []string{"var", "X=a b=c"}, -1)
	add("var", []string{"X=", "var"}, -1)
	add("var", []string{"var", "X=it's \"$HOME\" `id` \\ * ~ #"}, -1)
	add("var", []string{"var", "X=1", "X=\x01\xfe'"}, -1)
	add("var", []string{"var", "X=v", "ignored"}, 2)
	add("var", []string{"var", "X=a<no value>b"}, -1)
	add("var", []string{"X=only an assignment"}, -1)
	add("var", []string{"A=1", "X=two assignments, no task name"}, -1)
	add("var", []string{"X=v", "after the dash"}, 1)
	add("fwd", []string{"fwd", "{{.Y}}", "it's"}, 1)
	add("fwd", []string{"fwd", "a b", "it's", "$HOME"}, 1).Path = "inc"
	add("fwd", []string{"fwd", "a b", "it's", "$HOME"}, 1).Path = "via"
	add("fwd", []string{"fwd", "a b"}, 1).Path = "alias"
	add("var", []string{"var", "X=it's \"$HOME\" *"}, -1).Path = "inc"
	add("var", []string{"var", "X=it's \"$HOME\" *"}, -1).Path = "via"
	add("var", []string{"var", "X=v"}, -1).Path = "alias"
	add("typed", []string{"N1"}, -1)
	add("typed", []string{"B1"}, -1)
	// --init corpus: no argument, directory, file, extension only, existing file, after `--`
	for _, ic := range []struct {
		tree []string
		argv []string
		dash int
	}{
		{nil, nil, -1}, {[]string{"f:w/Taskfile.yml"}, nil, -1}, {[]string{"d:w/sub"}, []string{"sub"}, -1},
		{nil, []string{"custom.yml"}, -1}, {nil, []string{".yaml"}, -1}, {[]string{"f:w/exist.yml"}, []string{"exist.yml"}, -1},
		{[]string{"d:w/sub"}, []string{"sub/new.yml", "other.yml"}, -1}, {nil, []string{"x.yml"}, 0}, {nil, []string{"missing/x.yml"}, -1},
		{[]string{"d:other"}, []string{"{ROOT}/other/abs.yml"}, -1},
	} {
		cases = append(cases, &cliCase{Kind: "init", Flag: "--init", Tree: ic.tree, Argv: hexAll(ic.argv), Dash: ic.dash})
	}
	nCorpus := len(cases)
	nf := c.Pick(500, 4000)
	for i := 0; i < nf; i++ {
		k := c.Rng.Intn(6)
		argv := []string{"fwd"}
		if c.Rng.Intn(4) == 0 {
			argv = []string{"Z=" + strings.ReplaceAll(c.qBytes(6, noTmpl), "\x00", ""), "fwd"}
		}
		dash := len(argv)
		for j := 0; j < k; j++ {
			argv = append(argv, c.qBytes(16, noTmpl))
		}
		add("fwd", argv, dash)
		c.Hit(fmt.Sprintf("fwd:%d-args", k))
	}
	// option-shaped arguments: a plain prefix (-x, --opt=, +) followed by a few shell constructs with
	// plain text in between — what people really forward (`--exclude={a,b}`, `-p{1..3}`, `--glob=*.go`);
	// random bytes almost never produce an argument that is special in exactly one way
	cons := []string{"{a,b}", "{1..3}", "{x,y}z", "*", "?", "*.go", "~", "~/x", "$HOME", "${X}", "$(id)", "`id`", "[ab]", "!", "#c", "\\", "'", "\"", ";", "&", "|", ">o", "<i", "(", ")", " ", "a b", "=", "%", "^", ",", "{", "}", "{}"}
	pres := []string{"", "-", "--", "-p", "--opt=", "--exclude=", "+", "-D"}
	ns := c.Pick(300, 3000)
	for i := 0; i < ns; i++ {
		argv := []string{"fwd"}
		k := 1 + c.Rng.Intn(3)
		for j := 0; j < k; j++ {
			a := pres[c.Rng.Intn(len(pres))]
			for m := c.Rng.Intn(3); m >= 0; m-- {
				if c.Rng.Intn(3) == 0 {
					a += string(rune('a' + c.Rng.Intn(26)))
				}
				a += cons[c.Rng.Intn(len(cons))]
			}
			argv = append(argv, a)
		}
		add("fwd", argv, 1)
		c.Hit("fwd:option-shaped")
	}
	nv := c.Pick(400, 3200)
	for i := 0; i < nv; i++ {
		argv := []string{"var", "X=" + c.qBytes(24, noTmpl)}
		switch c.Rng.Intn(6) {
		case 0:
			argv = []string{argv[1], "var"}
		case 1:
			argv = []string{"var", "X=first", argv[1]}
			c.Hit("var:reassigned")
		case 2:
			// no task name at all: the assignment is not a task name, the `default` task (same command as `var`) runs
			argv = []string{argv[1]}
			if c.Rng.Intn(2) == 0 {
				argv = []string{"W=other", argv[0]}
			}
			c.Hit("var:no-task-name")
		}
		add("var", argv, -1)
		c.Hit("var")
	}
	// path coverage: the same demand when the value travels through an included task, through a `task:` call that hands it
	// on in `vars:`, through a global variable defined from it (that one arrives EMPTY: open finding)
	npth := c.Pick(240, 2000)
	for i := 0; i < npth; i++ {
		path := []string{"inc", "via", "alias"}[c.Rng.Intn(3)]
		var d *cliCase
		if c.Rng.Intn(2) == 0 {
			argv := []string{"fwd"}
			for j, k := 0, 1+c.Rng.Intn(4); j < k; j++ {
				argv = append(argv, c.qBytes(12, noTmpl))
			}
			d = add("fwd", argv, 1)
		} else {
			argv := []string{"var", "X=" + c.qBytes(16, noTmpl)}
			if c.Rng.Intn(3) == 0 {
				argv = []string{argv[1], "var"}
			}
			d = add("var", argv, -1)
		}
		d.Path = path
		c.Hit("path:" + d.Kind + ":" + path)
	}
	// non-string values through shellQuote / q
	for i := 0; i < c.Pick(3, 12); i++ {
		for _, tv := range cliTyped {
			add("typed", []string{tv[0]}, -1)
			c.Hit("typed:" + tv[0])
		}
	}
	// template stream (known finding: forwarded text is evaluated as a template)
	nt := c.Pick(40, 400)
	for i := 0; i < nt; i++ {
		if c.Rng.Intn(2) == 0 {
			add("fwd", []string{"fwd", c.qBytes(10, withTmpl), "z"}, 1)
		} else {
			add("var", []string{"var", "X=" + c.qBytes(10, withTmpl)}, -1)
		}
		c.Hit("template-stream")
	}
	// <no value> stream (known finding: the literal is deleted from every rendered text)
	nn := c.Pick(12, 120)
	for i := 0; i < nn; i++ {
		v := c.qBytes(8, noTmpl)
		k := c.Rng.Intn(len(v) + 1)
		v = v[:k] + "<no value>" + v[k:]
		if c.Rng.Intn(2) == 0 {
			add("fwd", []string{"fwd", v, "z"}, 1)
		} else {
			add("var", []string{"var", "X=" + v}, -1)
		}
		c.Hit("novalue-stream")
	}
	ni := c.Pick(300, 2400)
	for i := 0; i < ni; i++ {
		cases = append(cases, c.genInit())
	}
	// mix the streams (after the fixed corpus) so that the first reported disagreements
	// are of different kinds
	mixed := cases[nCorpus:]
	c.Rng.Shuffle(len(mixed), func(i, j int) { mixed[i], mixed[j] = mixed[j], mixed[i] })
	// evaluate in parallel (the CLI runs dominate), emit in generation order
	type res struct{ cl, il string }
	out := make([]res, len(cases))
	var wg sync.WaitGroup
	sem := make(chan struct{}, 8)
	for i := range cases {
		wg.Add(1)
		sem <- struct{}{}
		go func(i int) {
			defer wg.Done()
			defer func() { <-sem }()
			cl, il := evalCli(cases[i])
			out[i] = res{cl, il}
		}(i)
	}
	wg.Wait()
	for i, d := range cases {
		c.Emit(out[i].cl, out[i].il, d)
		switch {
		case d.Kind == "init":
			c.Hit("init:" + strings.SplitN(out[i].il, " ", 2)[0])
			c.Distinct("i|" + strings.Join(d.Tree, ",") + "|" + strings.Join(d.Argv, ",") + "|" + strconv.Itoa(d.Dash))
		default:
			c.Hit(d.Kind + ":" + strings.SplitN(out[i].il, " ", 2)[0])
			if len(d.Argv) > 1 || d.Kind == "typed" {
				c.Distinct(d.Kind + "|" + d.Path + "|" + strings.Join(d.Argv, ","))
			}
		}
	}
	os.RemoveAll(cliRoot)
}
