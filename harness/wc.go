package main

// Domain "wc" (C06, key half): which references of a run: once / when_changed / always task
// share an execution.  Generated Taskfiles call one deduplicated task W from dependencies and
// commands, directly and through pass-through tasks, with varying sets of variable values; W
// uses the variables in its command text, in env:, in the vars: of a sub-call and in the vars:
// of a dependency (any subset — including none).  The bodies print one line per execution; the
// sorted multiset of lines is compared with the model's (`execs` under the full hash).

import (
	"bytes"
	"context"
	"fmt"
	"os"
	"path/filepath"
	"sort"
	"strings"
	"sync"
	"time"

	"github.com/go-task/task/v3"
	"github.com/go-task/task/v3/verifhook"
)

func init() {
	domains["wc"] = domain{run: runWc,
		rule: "non-trivial = distinct generated (callee shape, run mode, reference list) whose references include at least two with equal and two with different sets of variable values"}
}

type wcCall struct {
	Via   string   `json:"via"` // dep | cmd | mdep | mcmd (through a pass-through task, as dependency / command)
	Binds [][2]int `json:"binds"`
}

type wcCase struct {
	Mode   string   `json:"mode"`
	Global bool     `json:"global"` // run mode set at Taskfile level instead of on the task
	Inc    bool     `json:"inc"`    // W lives in an included Taskfile
	Inc2   bool     `json:"inc2,omitempty"` // … which is included under TWO namespaces (run: once keys on file + local name: still one execution)
	NV     int      `json:"nv"`
	Cmd    []int    `json:"cmd"`
	Env    []int    `json:"env"`
	Sub    []int    `json:"sub"`
	Dep    []int    `json:"dep"`
	Calls  []wcCall `json:"calls"`
	Seed   int64    `json:"seed"`
	Jitter int      `json:"jitter"`
}

func wcLine(d wcCase) string {
	var b strings.Builder
	fmt.Fprintf(&b, "wc.run %s %d", d.Mode, d.NV)
	for _, l := range [][]int{d.Cmd, d.Env, d.Sub, d.Dep} {
		fmt.Fprintf(&b, " %d", len(l))
		for _, v := range l {
			fmt.Fprintf(&b, " %d", v)
		}
	}
	// arrival order only matters for `once`; there the generator makes every reference a command of root
	fmt.Fprintf(&b, " %d", len(d.Calls))
	for _, c := range d.Calls {
		fmt.Fprintf(&b, " %d", len(c.Binds))
		for _, bd := range c.Binds {
			fmt.Fprintf(&b, " %d %d", bd[0], bd[1])
		}
	}
	return b.String()
}

func wcRender(d wcCase) (string, string) {
	var root, inc strings.Builder
	ns := ""
	if d.Inc {
		ns = "inc:"
	}
	wName := "W"
	if d.Inc2 {
		// a local name whose first letter also occurs in one namespace but not in the other
		wName = "cW"
	}
	nsOf := func(i int) string {
		if d.Inc2 && i%2 == 1 {
			return "xyz:"
		}
		return ns
	}
	root.WriteString("version: '3'\n")
	if d.Global {
		fmt.Fprintf(&root, "run: %s\n", d.Mode)
	}
	if d.Inc {
		root.WriteString("includes:\n  inc: ./inc\n")
		if d.Inc2 {
			root.WriteString("  xyz: ./inc\n")
		}
	}
	root.WriteString("tasks:\n  root:\n")
	// `silent: true` on every other reference, starting with a bit of the case seed (rendering only: how loud a reference is
	// says nothing about which execution it belongs to)
	refNo := int(d.Seed & 1)
	ref := func(b *strings.Builder, ind string, target string, binds [][2]int, through bool) {
		fmt.Fprintf(b, "%s- task: %s\n", ind, target)
		refNo++
		if refNo%2 == 0 {
			fmt.Fprintf(b, "%s  silent: true\n", ind)
		}
		if len(binds) > 0 {
			fmt.Fprintf(b, "%s  vars:\n", ind)
			for _, bd := range binds {
				if through {
					fmt.Fprintf(b, "%s    V%d: '{{.P%d}}'\n", ind, bd[0], bd[0])
				} else {
					fmt.Fprintf(b, "%s    V%d: \"%d\"\n", ind, bd[0], bd[1])
				}
			}
		}
	}
	refMid := func(b *strings.Builder, ind string, i int, binds [][2]int) {
		fmt.Fprintf(b, "%s- task: m%d\n", ind, i)
		if len(binds) > 0 {
			fmt.Fprintf(b, "%s  vars:\n", ind)
			for _, bd := range binds {
				fmt.Fprintf(b, "%s    P%d: \"%d\"\n", ind, bd[0], bd[1])
			}
		}
	}
	var deps, cmds strings.Builder
	for i, c := range d.Calls {
		switch c.Via {
		case "dep":
			ref(&deps, "      ", nsOf(i)+wName, c.Binds, false)
		case "cmd":
			ref(&cmds, "      ", nsOf(i)+wName, c.Binds, false)
		case "mdep":
			refMid(&deps, "      ", i, c.Binds)
		case "mcmd":
			refMid(&cmds, "      ", i, c.Binds)
		}
	}
	if deps.Len() > 0 {
		root.WriteString("    deps:\n" + deps.String())
	}
	root.WriteString("    cmds:\n      - 'true'\n" + cmds.String())
	for i, c := range d.Calls {
		if c.Via != "mdep" && c.Via != "mcmd" {
			continue
		}
		fmt.Fprintf(&root, "  m%d:\n    run: always\n", i)
		if i%2 == 0 {
			root.WriteString("    deps:\n")
		} else {
			root.WriteString("    cmds:\n")
		}
		ref(&root, "      ", nsOf(i)+wName, c.Binds, true)
	}
	w := &root
	if d.Inc {
		w = &inc
		inc.WriteString("version: '3'\n")
		if d.Global {
			fmt.Fprintf(&inc, "run: %s\n", d.Mode)
		}
		inc.WriteString("tasks:\n")
	}
	fmt.Fprintf(w, "  %s:\n", wName)
	if !d.Global {
		fmt.Fprintf(w, "    run: %s\n", d.Mode)
	}
	if len(d.Dep) > 0 {
		w.WriteString("    deps:\n      - task: D\n        vars:\n")
		for i, v := range d.Dep {
			fmt.Fprintf(w, "          Q%d: '{{.V%d}}'\n", i, v)
		}
	}
	if len(d.Env) > 0 {
		w.WriteString("    env:\n")
		for i, v := range d.Env {
			fmt.Fprintf(w, "      E%d: '{{.V%d}}'\n", i, v)
		}
	}
	var cs, es []string
	for _, v := range d.Cmd {
		cs = append(cs, fmt.Sprintf("{{.V%d}}", v))
	}
	for i := range d.Env {
		es = append(es, fmt.Sprintf("$E%d", i))
	}
	fmt.Fprintf(w, "    cmds:\n      - printf '%%s\\n' \"W|c:%s|e:%s\"\n", strings.Join(cs, ","), strings.Join(es, ","))
	if len(d.Sub) > 0 {
		w.WriteString("      - task: S\n        vars:\n")
		for i, v := range d.Sub {
			fmt.Fprintf(w, "          Y%d: '{{.V%d}}'\n", i, v)
		}
	}
	var ys, qs []string
	for i := range d.Sub {
		ys = append(ys, fmt.Sprintf("{{.Y%d}}", i))
	}
	for i := range d.Dep {
		qs = append(qs, fmt.Sprintf("{{.Q%d}}", i))
	}
	fmt.Fprintf(w, "  S:\n    run: always\n    cmds:\n      - printf '%%s\\n' \"S|%s\"\n", strings.Join(ys, ","))
	fmt.Fprintf(w, "  D:\n    run: always\n    cmds:\n      - printf '%%s\\n' \"D|%s\"\n", strings.Join(qs, ","))
	return root.String(), inc.String()
}

type lockedBuf struct {
	mu sync.Mutex
	b  bytes.Buffer
}

func (l *lockedBuf) Write(p []byte) (int, error) {
	l.mu.Lock()
	defer l.mu.Unlock()
	return l.b.Write(p)
}

var wcNo int

func evalWc(d wcCase) (string, string) {
	wcNo++
	dir := filepath.Join(scratchDir(), fmt.Sprintf("wc-%d", wcNo))
	os.MkdirAll(filepath.Join(dir, "inc"), 0o755)
	defer os.RemoveAll(dir)
	rootY, incY := wcRender(d)
	os.WriteFile(filepath.Join(dir, "Taskfile.yml"), []byte(rootY), 0o644)
	if d.Inc {
		os.WriteFile(filepath.Join(dir, "inc", "Taskfile.yml"), []byte(incY), 0o644)
	}
	out := &lockedBuf{}
	errb := &lockedBuf{}
	devnull, _ := os.Open(os.DevNull)
	defer devnull.Close()
	e := task.NewExecutor(task.WithDir(dir), task.WithStdout(out), task.WithStderr(errb), task.WithStdin(devnull),
		task.WithSilent(true), task.WithTempDir(task.TempDir{Remote: filepath.Join(dir, ".task"), Fingerprint: filepath.Join(dir, ".task")}))
	if err := e.Setup(); err != nil {
		return wcLine(d), "setup-error " + hx(err.Error())
	}
	verifhook.Reset(d.Seed, int64(d.Jitter))
	done := make(chan error, 1)
	ctx, cancel := context.WithCancel(context.Background())
	defer cancel()
	go func() { done <- e.Run(ctx, &task.Call{Task: "root"}) }()
	select {
	case err := <-done:
		if err != nil {
			return wcLine(d), "run-error " + hx(err.Error())
		}
	case <-time.After(30 * time.Second):
		return wcLine(d), "hang"
	}
	out.mu.Lock()
	txt := out.b.String()
	out.mu.Unlock()
	var lines []string
	n := 0
	for _, ln := range strings.Split(txt, "\n") {
		ln = strings.TrimSpace(ln)
		if strings.HasPrefix(ln, "W|") {
			n++
		}
		if strings.HasPrefix(ln, "W|") || (strings.HasPrefix(ln, "S|") && len(d.Sub) > 0) || (strings.HasPrefix(ln, "D|") && len(d.Dep) > 0) {
			lines = append(lines, ln)
		}
	}
	sort.Strings(lines)
	return wcLine(d), strings.Join(append([]string{fmt.Sprint(n)}, lines...), " ")
}

func wcSubset(c *Ctx, nv int) []int {
	var s []int
	for v := 0; v < nv; v++ {
		if c.Rng.Intn(3) == 0 {
			s = append(s, v)
		}
	}
	return s
}

func genWc(c *Ctx) wcCase {
	r := c.Rng
	d := wcCase{NV: 1 + r.Intn(3), Seed: r.Int63(), Jitter: []int{0, 0, 200, 1500}[r.Intn(4)]}
	d.Mode = []string{"when_changed", "when_changed", "when_changed", "once", "always"}[r.Intn(5)]
	d.Global = r.Intn(4) == 0
	d.Inc = r.Intn(4) == 0
	d.Inc2 = d.Inc && d.Mode == "once"
	d.Cmd, d.Env, d.Sub, d.Dep = wcSubset(c, d.NV), wcSubset(c, d.NV), wcSubset(c, d.NV), wcSubset(c, d.NV)
	k := 2 + r.Intn(5)
	for i := 0; i < k; i++ {
		var cl wcCall
		if i > 0 && r.Intn(3) == 0 {
			// same set of values as an earlier reference (possibly listed in another order)
			prev := d.Calls[r.Intn(i)]
			cl.Binds = append([][2]int{}, prev.Binds...)
			if len(cl.Binds) > 1 && r.Intn(2) == 0 {
				cl.Binds[0], cl.Binds[len(cl.Binds)-1] = cl.Binds[len(cl.Binds)-1], cl.Binds[0]
			}
		} else {
			for v := 0; v < d.NV; v++ {
				if r.Intn(4) != 0 {
					cl.Binds = append(cl.Binds, [2]int{v, 1 + r.Intn(2)})
				}
			}
		}
		if d.Mode == "once" {
			cl.Via = []string{"cmd", "mcmd"}[r.Intn(2)]
			if cl.Via == "mcmd" && i%2 == 0 {
				cl.Via = "cmd" // even-numbered pass-through tasks reach W through deps; keep arrival order sequential
			}
		} else {
			cl.Via = []string{"dep", "cmd", "mdep", "mcmd"}[r.Intn(4)]
		}
		d.Calls = append(d.Calls, cl)
	}
	return d
}

func wcKey(b [][2]int, nv int) string {
	vals := make([]int, nv)
	for _, bd := range b {
		if vals[bd[0]] == 0 {
			vals[bd[0]] = bd[1]
		}
	}
	return fmt.Sprint(vals)
}

func runWc(c *Ctx) {
	if c.Replay(func(raw []byte) (string, string) {
		var d wcCase
		mustJSON(raw, &d)
		return evalWc(d)
	}) {
		return
	}
	n := c.Pick(250, 4000)
	hangs := 0
	for i := 0; i < n; i++ {
		d := genWc(c)
		cl, il := evalWc(d)
		c.Emit(cl, il, d)
		c.Hit("mode:" + d.Mode)
		if d.Global {
			c.Hit("global-run")
		}
		if d.Inc {
			c.Hit("included")
		}
		sets := map[string]int{}
		for _, cc := range d.Calls {
			sets[wcKey(cc.Binds, d.NV)]++
			c.Hit("via:" + cc.Via)
		}
		dup := false
		for _, m := range sets {
			if m > 1 {
				dup = true
			}
		}
		used := map[int]bool{}
		for _, v := range d.Cmd {
			used[v] = true
		}
		onlyHidden := len(d.Cmd) == 0 && (len(d.Env) > 0 || len(d.Sub) > 0 || len(d.Dep) > 0)
		if onlyHidden {
			c.Hit("vars-reach-only-env-or-subcalls")
		}
		if len(d.Cmd)+len(d.Env)+len(d.Sub)+len(d.Dep) == 0 {
			c.Hit("vars-unused")
		}
		if dup {
			c.Hit("equal-sets")
		}
		if len(sets) > 1 {
			c.Hit("different-sets")
		}
		if strings.HasPrefix(il, "run-error") || strings.HasPrefix(il, "setup-error") || il == "hang" {
			c.Hit("impl:" + strings.Fields(il)[0])
		}
		if dup && len(sets) > 1 {
			c.Distinct(cl)
		}
		if il == "hang" {
			if hangs++; hangs >= 3 {
				c.Hit("stopped-after-3-hangs")
				break
			}
		}
	}
}

func scratchDir() string {
	base := os.Getenv("VERIF_SCRATCH")
	if base == "" {
		base = os.TempDir()
	}
	return base
}
