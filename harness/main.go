// Correspondence harness: drives the real go-task code (built from the tree under
// test, with -tags verif) on generated inputs and writes, per case, the line the Lean
// model driver must answer and the answer the implementation gave.
package main

import (
	"flag"
	"fmt"
	"os"
)

type domain struct {
	run  func(*Ctx)
	rule string
}

var domains = map[string]domain{}

func main() {
	if len(os.Args) < 2 {
		fmt.Fprintln(os.Stderr, "usage: harness <domain> -seed N -tier quick|thorough -out DIR")
		os.Exit(2)
	}
	name := os.Args[1]
	if name == "decode-worker" {
		decodeWorkerMain()
		return
	}
	if name == "race-worker" { // evaluates race workloads (one JSON per line) under the race detector, see race_worker.go
		raceWorkerMain()
		return
	}
	if name == "race-corpus" { // prints corpus/C18/race.jsonl
		raceCorpusMain()
		return
	}
	fs := flag.NewFlagSet(name, flag.ExitOnError)
	seed := fs.Int64("seed", 1, "")
	tier := fs.String("tier", "quick", "")
	out := fs.String("out", ".", "")
	replay := fs.String("replay", "", "")
	fs.Parse(os.Args[2:])
	d, ok := domains[name]
	if !ok {
		fmt.Fprintln(os.Stderr, "unknown domain", name)
		os.Exit(2)
	}
	c := newCtx(*seed, *tier, *out)
	c.Extra["replay"] = *replay
	d.run(c)
	c.finish(name, d.rule)
}
