package main

import (
	"context"
	"fmt"
	"io"
	"os"
	"path/filepath"
	"regexp"
	"sort"
	"strings"

	task "github.com/go-task/task/v3"
	"github.com/go-task/task/v3/taskfile/ast"
	"github.com/go-task/task/v3/verifhook/export"
)

func init() {
	domains["vars"] = domain{runVars,
		"a variable name pool defined at random subsets of the definition sites (process env, global env, global vars, include-statement vars, " +
			"included-Taskfile vars, call vars, task vars) with distinct marker values of every kind (literal, template over other names, sh in the " +
			"site's directory, env-reading sh, ref), tasks in the root and in an included Taskfile with its own dir (also a templated dir); each case " +
			"compiles a random SEQUENCE of calls in one executor (so the dynamic-variable cache carries over) and every compile is compared with the " +
			"model run on an EMPTY cache; plus command-environment lookups (task env / dotenv files / global env / process env) and matrix loops. " +
			"The model is given the files AS WRITTEN (root / included / nested file vars, include statements' vars, call and task vars) plus the inputs of the " +
			"special variables (names, raw dir, file locations), never what Task loaded; tasks with aliases, wildcard names (MATCH) and sources (POST layer " +
			"CHECKSUM / TIMESTAMP); user definitions named like special variables at every site. non-trivial = the queried name is defined at >= 2 sites or the " +
			"call is not the first of its sequence; distinct by (files, call sequence prefix)"}
}

var vPool = []string{"VA", "VB", "VC", "VD", "VE", "VF", "VG"} // VG is only ever the global literal "sub" (templated dirs)

// The special variables: Task defines them itself (`Vars.special` in the model — the lowest layer together with the
// process environment); a definition of the same name at any site must win over the special value ("available unless
// overridden").  The ids are the model's reserved names (TaskModel/Vars/Compile.lean).
var vSpecialID = map[string]int{"TASK_EXE": 100, "ROOT_TASKFILE": 101, "ROOT_DIR": 102, "USER_WORKING_DIR": 103, "TASK_VERSION": 104, "TASK": 105,
	"TASK_DIR": 106, "TASKFILE": 107, "TASKFILE_DIR": 108, "ALIAS": 109, "MATCH": 110, "CHECKSUM": 111, "TIMESTAMP": 112}

// names a user definition may shadow in the generated cases
var vSpecial = []string{"TASK_DIR", "TASK", "ALIAS", "ROOT_DIR", "TASKFILE_DIR"}

// what every compile is asked for: the pool, then the special variables whose value does not depend on the build
var vQuery = append(append([]string{}, vPool...), "TASK", "TASK_DIR", "ROOT_DIR", "ROOT_TASKFILE", "TASKFILE", "TASKFILE_DIR", "USER_WORKING_DIR", "ALIAS", "MATCH", "CHECKSUM", "TIMESTAMP")

const vGen = 6 // names the generator draws from

func vID(name string) int {
	for i, n := range vPool {
		if n == name {
			return i
		}
	}
	if id, ok := vSpecialID[name]; ok {
		return id
	}
	return -1
}

type vDef struct {
	Name string `json:"name"`
	Kind string `json:"kind"` // lit | sh | envsh | ref
	Text string `json:"text"` // template text (lit, sh token) or referenced name (envsh, ref)
}

type vTask struct {
	Name   string   `json:"name"`
	Sub    bool     `json:"sub"`  // defined in the included Taskfile
	Leaf   bool     `json:"leaf"` // defined in the Taskfile included by the included Taskfile (depth 2)
	Dir    string   `json:"dir"`
	Vars   []vDef   `json:"vars"`
	Env    []vDef   `json:"env"` // literal only
	Dotenv []string `json:"dotenv"`
	Alias  string   `json:"alias,omitempty"`  // `aliases: [<alias>]`
	Method string   `json:"method,omitempty"` // "" | checksum | timestamp: the task has `sources: [src.txt]` (POST layer CHECKSUM / TIMESTAMP)
	DirVia string   `json:"dir_via,omitempty"` // dir is `{{.VG}}` and VG comes from: call | task | subfile (C11, directory clause)
}

type vCall struct {
	Task    int      `json:"task"`
	Vars    []vDef   `json:"vars"`
	ByAlias bool     `json:"by_alias,omitempty"` // asked for by its alias
	Wild    []string `json:"wild,omitempty"`     // the task's name contains `*`: what each star stands for in this call
}

type varsCase struct {
	Kind     string              `json:"kind"` // resolve | product
	OsEnv    [][2]string         `json:"os_env"`
	RootEnv  []vDef              `json:"root_env"`
	RootVars []vDef              `json:"root_vars"`
	Include  bool                `json:"include"`
	IncVars  []vDef              `json:"inc_vars"`
	SubVars  []vDef              `json:"sub_vars"`
	// Every layer the model gets is what the GENERATOR wrote (root / included / nested file variables, include
	// statements' vars), never what Task loaded — so a merge that drops, replaces or reorders a layer is noticed.
	// Deep adds a second include level.  (Indep: flag of older replay files, no longer used.)
	Indep       bool   `json:"indep"`
	Deep        bool   `json:"deep"`
	DeepIncVars []vDef `json:"deep_inc_vars"`
	LeafVars    []vDef `json:"leaf_vars"`
	Tasks    []vTask             `json:"tasks"`
	Seq      []vCall             `json:"seq"`
	Dotenvs  map[string][][2]string `json:"dotenvs"`
	Only     int                 `json:"only"`
	Matrix   [][]string          `json:"matrix,omitempty"` // product: rows: key, items...
	Loop     *vLoop              `json:"loop,omitempty"`   // kind loop
	Chain    *vChain             `json:"chain,omitempty"`  // kind envchain
	EnvPipe  *vEnvPipe           `json:"envpipe,omitempty"` // kind envpipe (harness/varsenv.go)
	FsHist   *vFsHist            `json:"fshist,omitempty"`  // kind fshist (harness/varsenv.go)
}

// vChain: `env:` entries given by `sh:` that read other env entries (global and task level) and
// names the process environment has: an `sh:` entry sees the process value first, else the
// entries that are static at that moment (C10).
type vChain struct {
	Os      [][2]string `json:"os"`      // process environment: name (one of the entry names or OX), value
	Entries []vChainEnt `json:"entries"` // in merged order: global entries first, then task entries
}

type vChainEnt struct {
	Name   string `json:"name"`   // EG<k> (global env) | ET<k> (task env)
	Lit    string `json:"lit"`    // literal value, or ""
	Reads  string `json:"reads"`  // name read by the sh: command, or ""
}

// vLoop: one task with a `for:` entry whose loop variable may collide with a variable that is
// already visible in the task (task / global variable of the same name): every iteration must
// see its own element (C02: one execution per element, with that element).
type vLoop struct {
	Form  string   `json:"form"`  // list (`for: [..]`, variable ITEM) | var (`for: {var: LST, as: NAME}`)
	Items []string `json:"items"` // non-empty words without spaces
	Stale string   `json:"stale"` // "" | task | global: where a variable named like the loop variable is defined
}

func evalVarsChain(d varsCase) []varsLine {
	ch := d.Chain
	varsCaseNo++
	base := os.Getenv("VERIF_SCRATCH")
	if base == "" {
		base = os.TempDir()
	}
	dir := filepath.Join(base, fmt.Sprintf("vx%d-%d", os.Getpid(), varsCaseNo))
	os.MkdirAll(dir, 0o755)
	defer os.RemoveAll(dir)
	ids := map[string]int{}
	idOf := func(n string) int {
		if _, ok := ids[n]; !ok {
			ids[n] = len(ids)
		}
		return ids[n]
	}
	render := func(w *strings.Builder, ind string, es []vChainEnt) {
		for _, e := range es {
			if e.Reads != "" {
				fmt.Fprintf(w, "%s%s: {sh: %s}\n", ind, e.Name, varsYamlQ(fmt.Sprintf("printf '%%s' \"$%s\" # %s", e.Reads, e.Name)))
			} else {
				fmt.Fprintf(w, "%s%s: %s\n", ind, e.Name, varsYamlQ(e.Lit))
			}
		}
	}
	var g, t []vChainEnt
	for _, e := range ch.Entries {
		if strings.HasPrefix(e.Name, "EG") {
			g = append(g, e)
		} else {
			t = append(t, e)
		}
	}
	var y strings.Builder
	y.WriteString("version: '3'\n")
	if len(g) > 0 {
		y.WriteString("env:\n")
		render(&y, "  ", g)
	}
	y.WriteString("tasks:\n  t:\n")
	if len(t) > 0 {
		y.WriteString("    env:\n")
		render(&y, "      ", t)
	}
	y.WriteString("    cmds: ['true']\n")
	os.WriteFile(filepath.Join(dir, "Taskfile.yml"), []byte(y.String()), 0o644)
	var cl strings.Builder
	fmt.Fprintf(&cl, "vars.envchain %d", len(ch.Os))
	for _, kv := range ch.Os {
		fmt.Fprintf(&cl, " %d %s", idOf(kv[0]), hx(kv[1]))
	}
	for _, grp := range [][]vChainEnt{g, t} {
		fmt.Fprintf(&cl, " %d", len(grp))
		for _, e := range grp {
			if e.Reads != "" {
				fmt.Fprintf(&cl, " %d r %d", idOf(e.Name), idOf(e.Reads))
			} else {
				fmt.Fprintf(&cl, " %d l %s", idOf(e.Name), hx(e.Lit))
			}
		}
	}
	for _, kv := range ch.Os {
		os.Setenv(kv[0], kv[1])
	}
	defer func() {
		for _, kv := range ch.Os {
			os.Unsetenv(kv[0])
		}
	}()
	e := task.NewExecutor(task.WithDir(dir), task.WithStdout(io.Discard), task.WithStderr(io.Discard), task.WithSilent(true),
		task.WithTempDir(task.TempDir{Remote: filepath.Join(dir, ".task"), Fingerprint: filepath.Join(dir, ".task")}))
	if err := e.Setup(); err != nil {
		return []varsLine{{cl.String(), "setup-error " + hx(err.Error())}}
	}
	ct, err := e.CompiledTask(&task.Call{Task: "t"})
	if err != nil {
		return []varsLine{{cl.String(), "error " + hx(err.Error())}}
	}
	var parts []string
	for _, en := range ch.Entries {
		v, ok := ct.Env.Get(en.Name)
		val := "?"
		if ok {
			val = hx(fmt.Sprint(v.Value))
		}
		parts = append(parts, fmt.Sprintf("%d=%s", idOf(en.Name), val))
	}
	return []varsLine{{cl.String(), strings.Join(parts, " ")}}
}

// evalVarsLoopMap: `for: {var: M}` over a map variable; every iteration prints KEY and ITEM.  The order of the iterations is
// the documented variation (sorted on both sides), the PAIRING of a key with its own value is not.
func evalVarsLoopMap(d varsCase) []varsLine {
	l := d.Loop
	varsCaseNo++
	base := os.Getenv("VERIF_SCRATCH")
	if base == "" {
		base = os.TempDir()
	}
	dir := filepath.Join(base, fmt.Sprintf("vm%d-%d", os.Getpid(), varsCaseNo))
	os.MkdirAll(dir, 0o755)
	defer os.RemoveAll(dir)
	var y, cl strings.Builder
	y.WriteString("version: '3'\nvars:\n  M:\n    map:\n")
	fmt.Fprintf(&cl, "vars.loopmap %d", len(l.Items))
	for i, k := range l.Items {
		v := fmt.Sprintf("val-%s-%d", k, (i*7+3)%len(l.Items))
		fmt.Fprintf(&y, "      %s: %s\n", k, v)
		fmt.Fprintf(&cl, " %s %s", hx(k), hx(v))
	}
	y.WriteString("tasks:\n  loop:\n    cmds:\n      - for: {var: M}\n        cmd: 'echo {{.KEY}}|{{.ITEM}}'\n")
	os.WriteFile(filepath.Join(dir, "Taskfile.yml"), []byte(y.String()), 0o644)
	e := task.NewExecutor(task.WithDir(dir), task.WithStdout(io.Discard), task.WithStderr(io.Discard), task.WithSilent(true),
		task.WithTempDir(task.TempDir{Remote: filepath.Join(dir, ".task"), Fingerprint: filepath.Join(dir, ".task")}))
	if err := e.Setup(); err != nil {
		return []varsLine{{cl.String(), "setup-error " + hx(err.Error())}}
	}
	t, err := e.CompiledTask(&task.Call{Task: "loop"})
	if err != nil {
		return []varsLine{{cl.String(), "error " + hx(err.Error())}}
	}
	var its []string
	for _, c := range t.Cmds {
		kv := strings.SplitN(strings.TrimPrefix(c.Cmd, "echo "), "|", 2)
		if len(kv) != 2 {
			kv = []string{c.Cmd, "?"}
		}
		its = append(its, hx(kv[0])+","+hx(kv[1]))
	}
	sort.Strings(its)
	return []varsLine{{cl.String(), strings.Join(append([]string{fmt.Sprint(len(t.Cmds))}, its...), " ")}}
}

func evalVarsLoop(d varsCase) []varsLine {
	l := d.Loop
	if l.Form == "map" {
		return evalVarsLoopMap(d)
	}
	varsCaseNo++
	base := os.Getenv("VERIF_SCRATCH")
	if base == "" {
		base = os.TempDir()
	}
	dir := filepath.Join(base, fmt.Sprintf("vl%d-%d", os.Getpid(), varsCaseNo))
	os.MkdirAll(dir, 0o755)
	defer os.RemoveAll(dir)
	lv := "ITEM"
	if l.Form == "var" {
		lv = "NAME"
	}
	var y strings.Builder
	y.WriteString("version: '3'\nvars:\n  G: gv\n")
	if l.Stale == "global" {
		fmt.Fprintf(&y, "  %s: stale\n", lv)
	}
	y.WriteString("tasks:\n  loop:\n    vars:\n      T: tv\n")
	if l.Form == "var" {
		fmt.Fprintf(&y, "      LST: %s\n", varsYamlQ(strings.Join(l.Items, " ")))
	}
	if l.Stale == "task" {
		fmt.Fprintf(&y, "      %s: stale\n", lv)
	}
	y.WriteString("    cmds:\n      - for: ")
	if l.Form == "var" {
		y.WriteString("{var: LST, as: NAME}\n")
	} else {
		y.WriteString("[" + strings.Join(l.Items, ", ") + "]\n")
	}
	fmt.Fprintf(&y, "        cmd: %s\n", varsYamlQ("echo {{."+lv+"}}|{{.T}}|{{.G}}"))
	os.WriteFile(filepath.Join(dir, "Taskfile.yml"), []byte(y.String()), 0o644)
	// model line: lv=1 T=2 G=3; the visible variables, then the items, then the referenced names
	var cl strings.Builder
	nv := 2
	if l.Stale != "" {
		nv = 3
	}
	fmt.Fprintf(&cl, "vars.loop 1 %d 2 %s 3 %s", nv, hx("tv"), hx("gv"))
	if l.Stale != "" {
		fmt.Fprintf(&cl, " 1 %s", hx("stale"))
	}
	fmt.Fprintf(&cl, " %d", len(l.Items))
	for _, it := range l.Items {
		cl.WriteString(" " + hx(it))
	}
	cl.WriteString(" 3 1 2 3")
	e := task.NewExecutor(task.WithDir(dir), task.WithStdout(io.Discard), task.WithStderr(io.Discard), task.WithSilent(true),
		task.WithTempDir(task.TempDir{Remote: filepath.Join(dir, ".task"), Fingerprint: filepath.Join(dir, ".task")}))
	if err := e.Setup(); err != nil {
		return []varsLine{{cl.String(), "setup-error " + hx(err.Error())}}
	}
	t, err := e.CompiledTask(&task.Call{Task: "loop"})
	if err != nil {
		return []varsLine{{cl.String(), "error " + hx(err.Error())}}
	}
	parts := []string{fmt.Sprint(len(t.Cmds))}
	for _, c := range t.Cmds {
		var vals []string
		for _, v := range strings.Split(strings.TrimPrefix(c.Cmd, "echo "), "|") {
			vals = append(vals, hx(v))
		}
		parts = append(parts, strings.Join(vals, ","))
	}
	return []varsLine{{cl.String(), strings.Join(parts, " ")}}
}

func varsYamlQ(s string) string { return "'" + strings.ReplaceAll(s, "'", "''") + "'" }

func shText(d vDef) string {
	if d.Kind == "envsh" {
		return fmt.Sprintf(`printf '%%s' "$%s"`, d.Text)
	}
	return fmt.Sprintf(`printf '%%s@%%s' '%s' "${PWD##*/}"`, d.Text)
}

func renderDefs(b *strings.Builder, indent string, key string, defs []vDef) {
	if len(defs) == 0 {
		return
	}
	fmt.Fprintf(b, "%s%s:\n", indent, key)
	for _, d := range defs {
		switch d.Kind {
		case "lit":
			fmt.Fprintf(b, "%s  %s: %s\n", indent, d.Name, varsYamlQ(d.Text))
		case "sh", "envsh":
			fmt.Fprintf(b, "%s  %s: {sh: %s}\n", indent, d.Name, varsYamlQ(shText(d)))
		case "ref":
			fmt.Fprintf(b, "%s  %s: {ref: %s}\n", indent, d.Name, varsYamlQ("."+d.Text))
		}
	}
}

var leafOut string

func renderVarsFiles(d varsCase) (root, sub string) {
	var b, s strings.Builder
	b.WriteString("version: '3'\nsilent: true\n")
	renderDefs(&b, "", "env", d.RootEnv)
	renderDefs(&b, "", "vars", d.RootVars)
	if d.Include {
		b.WriteString("includes:\n  inc:\n    taskfile: ./sub/Taskfile.yml\n    dir: ./sub\n")
		renderDefs(&b, "    ", "vars", d.IncVars)
	}
	s.WriteString("version: '3'\nsilent: true\n")
	renderDefs(&s, "", "vars", d.SubVars)
	var l strings.Builder
	l.WriteString("version: '3'\nsilent: true\n")
	renderDefs(&l, "", "vars", d.LeafVars)
	if d.Deep {
		s.WriteString("includes:\n  deep:\n    taskfile: ./deep/Taskfile.yml\n    dir: ./deep\n")
		renderDefs(&s, "    ", "vars", d.DeepIncVars)
	}
	b.WriteString("tasks:\n")
	s.WriteString("tasks:\n")
	l.WriteString("tasks:\n")
	leafOut = ""
	defer func() { leafOut = l.String() }()
	for _, t := range d.Tasks {
		w := &b
		if t.Sub {
			w = &s
		}
		if t.Leaf {
			w = &l
		}
		fmt.Fprintf(w, "  %s:\n", varsYamlQ(t.Name))
		if t.Alias != "" {
			fmt.Fprintf(w, "    aliases: [%s]\n", t.Alias)
		}
		if t.Method != "" {
			fmt.Fprintf(w, "    method: %s\n    sources: [src.txt]\n", t.Method)
		}
		if t.Dir != "" {
			fmt.Fprintf(w, "    dir: %s\n", varsYamlQ(t.Dir))
		}
		renderDefs(w, "    ", "vars", t.Vars)
		renderDefs(w, "    ", "env", t.Env)
		if len(t.Dotenv) > 0 {
			fmt.Fprintf(w, "    dotenv: [%s]\n", strings.Join(t.Dotenv, ", "))
		}
		if d.Kind == "product" && len(d.Matrix) > 0 {
			fmt.Fprintf(w, "    cmds:\n      - for:\n          matrix:\n")
			var it []string
			for _, row := range d.Matrix {
				fmt.Fprintf(w, "            %s: [%s]\n", row[0], strings.Join(row[1:], ", "))
				it = append(it, row[0]+"={{.ITEM."+row[0]+"}}")
			}
			fmt.Fprintf(w, "        cmd: %s\n", varsYamlQ("echo "+strings.Join(it, ",")))
		} else {
			// every variable of the pool, as the command and as a deferred command see it
			var refs []string
			for _, n := range vPool[:vGen] {
				refs = append(refs, "{{."+n+"}}")
			}
			fmt.Fprintf(w, "    cmds:\n      - %s\n      - defer: %s\n", varsYamlQ("echo 'C:"+t.Name+":"+strings.Join(refs, "|")+"'"), varsYamlQ("echo 'D:"+t.Name+":"+strings.Join(refs, "|")+"'"))
		}
	}
	return b.String(), s.String()
}

var (
	reShTok = regexp.MustCompile(`^printf '%s@%s' '(.*)' "\$\{PWD##\*/\}"$`)
	reShEnv = regexp.MustCompile(`^printf '%s' "\$(\w+)"$`)
	reRef   = regexp.MustCompile(`\{\{\.(\w+)\}\}`)
)

// partsTok encodes a template string over the pool as `<n> part*`; ok=false if it refers to a name outside the pool
func partsTok(tpl string) (string, bool) {
	var parts []string
	last := 0
	for _, m := range reRef.FindAllStringSubmatchIndex(tpl, -1) {
		if m[0] > last {
			parts = append(parts, "t"+hx(tpl[last:m[0]]))
		}
		id := vID(tpl[m[2]:m[3]])
		if id < 0 {
			return "", false
		}
		parts = append(parts, fmt.Sprintf("r%d", id))
		last = m[1]
	}
	if last < len(tpl) {
		parts = append(parts, "t"+hx(tpl[last:]))
	}
	if strings.Contains(strings.Join(parts, ""), "{{") {
		return "", false
	}
	return strings.TrimSpace(fmt.Sprintf("%d %s", len(parts), strings.Join(parts, " "))), true
}

// absVars turns loaded variables into the protocol's definition block: `<n> (name kind parts)*`
var absWhy string

func absVars(vars *ast.Vars) (string, bool) {
	var out []string
	n := 0
	ok := true
	if vars != nil {
		for k, v := range vars.All() {
			id := vID(k)
			if id < 0 {
				continue // names outside the pool are never queried nor referred to
			}
			switch {
			case v.Ref != "":
				rid := vID(strings.TrimPrefix(v.Ref, "."))
				if rid < 0 {
					ok = false
				}
				out = append(out, fmt.Sprintf("%d r 1 r%d", id, rid))
			case v.Sh != nil:
				var pt string
				var pok bool
				if m := reShTok.FindStringSubmatch(*v.Sh); m != nil {
					pt, pok = partsTok(m[1])
				} else if m := reShEnv.FindStringSubmatch(*v.Sh); m != nil {
					pt, pok = partsTok(fmt.Sprintf("$%d", vID(m[1])))
				}
				if !pok {
					ok = false
				}
				if v.Dir != "" {
					out = append(out, fmt.Sprintf("%d S %s %s", id, pt, hx(v.Dir)))
				} else {
					out = append(out, fmt.Sprintf("%d s %s", id, pt))
				}
			default:
				sv, isStr := v.Value.(string)
				if v.Value == nil {
					sv, isStr = "", true // e.g. an include-statement `ref:` that did not resolve at read time
				}
				if !isStr {
					ok = false
					absWhy = fmt.Sprintf("%s: value %T %v", k, v.Value, v.Value)
				}
				pt, pok := partsTok(sv)
				if !pok {
					ok = false
				}
				out = append(out, fmt.Sprintf("%d l %s", id, pt))
			}
			n++
		}
	}
	return strings.TrimSpace(fmt.Sprintf("%d %s", n, strings.Join(out, " "))), ok
}

func toAstVars(defs []vDef) *ast.Vars {
	vs := ast.NewVars()
	for _, d := range defs {
		switch d.Kind {
		case "lit":
			vs.Set(d.Name, ast.Var{Value: d.Text})
		case "sh", "envsh":
			s := shText(d)
			vs.Set(d.Name, ast.Var{Sh: &s})
		case "ref":
			vs.Set(d.Name, ast.Var{Ref: "." + d.Text})
		}
	}
	return vs
}

var varsCaseNo int

// the directories a task may end up in, with the suffix the dotenv files of that directory give their values
var vDotDirs = [][2]string{{".", ""}, {"sub", "@s"}, {"sub/deep", "@d"}, {"alt", "@a"}, {"sub/alt", "@sa"}, {"sub/sub", "@ss"}, {"sub/deep/alt", "@da"}, {"sub/deep/sub", "@ds"}}

type varsLine struct{ cl, il string }

func evalVarsAll(d varsCase) (lines []varsLine) {
	defer func() {
		if r := recover(); r != nil {
			lines = append(lines, varsLine{"vars.resolve panic", fmt.Sprintf("panic %v", r)})
		}
	}()
	if d.Kind == "loop" && d.Loop != nil {
		return evalVarsLoop(d)
	}
	if d.Kind == "envchain" && d.Chain != nil {
		return evalVarsChain(d)
	}
	if d.Kind == "fshist" && d.FsHist != nil {
		return evalFsHist(*d.FsHist)
	}
	if d.Kind == "envpipe" && d.EnvPipe != nil {
		cl, il := evalEnvPipe(*d.EnvPipe)
		if il == "skipped-no-cli" {
			return nil
		}
		return []varsLine{{cl, il}}
	}
	varsCaseNo++
	base := os.Getenv("VERIF_SCRATCH")
	if base == "" {
		base = os.TempDir()
	}
	dir := filepath.Join(base, fmt.Sprintf("vc%d-%d", os.Getpid(), varsCaseNo))
	os.MkdirAll(filepath.Join(dir, "sub"), 0o755)
	defer os.RemoveAll(dir)
	root, sub := renderVarsFiles(d)
	os.WriteFile(filepath.Join(dir, "Taskfile.yml"), []byte(root), 0o644)
	if d.Include {
		os.WriteFile(filepath.Join(dir, "sub", "Taskfile.yml"), []byte(sub), 0o644)
	}
	if d.Deep {
		os.MkdirAll(filepath.Join(dir, "sub", "deep"), 0o755)
		os.WriteFile(filepath.Join(dir, "sub", "deep", "Taskfile.yml"), []byte(leafOut), 0o644)
	}
	// the same dotenv file NAMES exist in every directory with different VALUES (suffix per directory):
	// a task must get the file of its own directory, whatever another task read before
	os.MkdirAll(filepath.Join(dir, "sub", "deep"), 0o755)
	for name, kvs := range d.Dotenvs {
		for _, where := range vDotDirs {
			os.MkdirAll(filepath.Join(dir, where[0]), 0o755)
			var b strings.Builder
			for _, kv := range kvs {
				fmt.Fprintf(&b, "%s=%s%s\n", kv[0], kv[1], where[1])
			}
			os.WriteFile(filepath.Join(dir, where[0], name), []byte(b.String()), 0o644)
		}
	}
	for _, where := range []string{".", "sub", filepath.Join("sub", "deep")} {
		os.WriteFile(filepath.Join(dir, where, "src.txt"), []byte("source\n"), 0o644)
		for _, v := range []string{"alt", "sub"} { // what a templated dir: may come out as
			os.MkdirAll(filepath.Join(dir, where, v), 0o755)
		}
	}
	os.MkdirAll(filepath.Join(dir, "home"), 0o755)
	oldHome := os.Getenv("HOME")
	os.Setenv("HOME", filepath.Join(dir, "home")) // `dir: '~'`
	defer os.Setenv("HOME", oldHome)
	for _, n := range vQuery {
		os.Unsetenv(n)
	}
	for _, kv := range d.OsEnv {
		os.Setenv(kv[0], kv[1])
	}
	defer func() {
		for _, kv := range d.OsEnv {
			os.Unsetenv(kv[0])
		}
	}()
	cwd, _ := os.Getwd()
	os.Chdir(dir)
	defer os.Chdir(cwd)
	e := task.NewExecutor(task.WithDir(dir), task.WithStdout(io.Discard), task.WithStderr(io.Discard), task.WithSilent(true),
		task.WithTempDir(task.TempDir{Remote: filepath.Join(dir, ".task"), Fingerprint: filepath.Join(dir, ".task")}))
	if err := e.Setup(); err != nil {
		return []varsLine{{"vars.resolve setup-error", "setup-error " + hx(err.Error())}}
	}
	rootBase := dir // absolute: directory strings are cache keys, the oracle prints their last component
	var baseTok []string
	for _, kv := range d.OsEnv {
		baseTok = append(baseTok, fmt.Sprintf("%d %s", vID(kv[0]), hx(kv[1])))
	}
	if d.Kind == "product" {
		t, err := e.CompiledTask(&task.Call{Task: d.Tasks[0].Name})
		if err != nil {
			return []varsLine{{"vars.product 0", "error " + hx(err.Error())}}
		}
		var cl strings.Builder
		fmt.Fprintf(&cl, "vars.product %d", len(d.Matrix))
		for i, row := range d.Matrix {
			fmt.Fprintf(&cl, " %d %d", i, len(row)-1)
			for _, it := range row[1:] {
				cl.WriteString(" " + hx(it))
			}
		}
		parts := []string{fmt.Sprint(len(t.Cmds))}
		for _, c := range t.Cmds {
			txt := strings.TrimPrefix(c.Cmd, "echo ")
			var kvs []string
			for _, kv := range strings.Split(txt, ",") {
				p := strings.SplitN(kv, "=", 2)
				idx := -1
				for i, row := range d.Matrix {
					if row[0] == p[0] {
						idx = i
					}
				}
				kvs = append(kvs, fmt.Sprintf("%d=%s", idx, hx(p[1])))
			}
			parts = append(parts, strings.Join(kvs, ","))
		}
		return []varsLine{{cl.String(), strings.Join(parts, " ")}}
	}
	var runExpect []string
	var runCalls []*task.Call
	home := os.Getenv("HOME")
	subDir, deepDir := filepath.Join(dir, "sub"), filepath.Join(dir, "sub", "deep")
	// the files AS WRITTEN: root first, then the include chain
	files := []string{fmt.Sprintf("- 0 %s", defsTok(d.RootVars))}
	if d.Include {
		files = append(files, fmt.Sprintf("%s %s %s", hx(subDir), defsTok(d.IncVars), defsTok(d.SubVars)))
		if d.Deep {
			files = append(files, fmt.Sprintf("%s %s %s", hx(deepDir), defsTok(d.DeepIncVars), defsTok(d.LeafVars)))
		}
	}
	for _, call := range d.Seq {
		vt := d.Tasks[call.Task]
		ns, level, rawDir, tfile := "", 0, vt.Dir, filepath.Join(dir, "Taskfile.yml")
		switch {
		case vt.Sub: // Tasks.Merge: task.Dir = SmartJoin(include.Dir, task.Dir)
			ns, level, rawDir, tfile = "inc:", 1, filepath.Join(subDir, vt.Dir), filepath.Join(subDir, "Taskfile.yml")
		case vt.Leaf:
			ns, level, rawDir, tfile = "inc:deep:", 2, filepath.Join(deepDir, vt.Dir), filepath.Join(deepDir, "Taskfile.yml")
		}
		name := ns + vt.Name // t.Task
		asked := name        // call.Task
		wild := "0" // found under its own name: GetTask binds MATCH to the (empty) list of wildcards
		if call.ByAlias && vt.Alias != "" {
			asked = ns + vt.Alias
			wild = "-1" // found through an alias: no MATCH
		}
		if strings.Contains(vt.Name, "*") {
			asked = vt.Name
			for _, w := range call.Wild {
				asked = strings.Replace(asked, "*", w, 1)
			}
			asked = ns + asked
			wild = strings.TrimSpace(fmt.Sprintf("%d %s", len(call.Wild), hxs(call.Wild)))
		}
		cv := toAstVars(call.Vars)
		t, err := e.CompiledTask(&task.Call{Task: asked, Vars: cv})
		tpl, tok := partsTok(rawDir)
		var q []string
		for _, n := range vQuery {
			q = append(q, fmt.Sprint(vID(n)))
		}
		fp := "0"
		switch vt.Method {
		case "checksum":
			fp = fmt.Sprintf("1 %d %s", vID("CHECKSUM"), hx("LIVE"))
		case "timestamp":
			fp = fmt.Sprintf("1 %d %s", vID("TIMESTAMP"), hx("LIVE"))
		}
		cl := fmt.Sprintf("vars.compile %s %s %s %s %s %s %s %s %s %d %s %s %d %s %d %s %s %s %s %d %s", hx(home), hx(rootBase), hx("") /* no entrypoint was given */, hx(dir),
			hx(name), hx(rawDir), tpl, hx(tfile), hx(asked), len(d.OsEnv), strings.Join(baseTok, " "), defsTok(d.RootEnv),
			len(files), strings.Join(files, " "), level, defsTok(call.Vars), wild, defsTok(vt.Vars), fp, len(q), strings.Join(q, " "))
		cl = strings.Join(strings.Fields(cl), " ")
		if !tok || !defsOK(d, call) {
			lines = append(lines, varsLine{cl, "harness-cannot-abstract"})
			continue
		}
		if err != nil {
			lines = append(lines, varsLine{cl, "error " + hx(err.Error())})
			continue
		}
		show := func(n string) string {
			v, _ := t.Vars.Get(n)
			switch {
			case v.Live != nil:
				return "LIVE" // the fingerprint value itself is the Finger domain's business; here: WHO wins
			case v.Value != nil:
				return fmt.Sprint(v.Value)
			}
			return ""
		}
		var vals []string
		for _, n := range vQuery {
			vals = append(vals, hx(show(n)))
		}
		vals = append(vals, "dir="+hx(t.Dir))
		lines = append(lines, varsLine{cl, strings.Join(vals, " ")})
		// the property's own reading of "special variables are available unless overridden" for the POST layer: a literal
		// definition of CHECKSUM / TIMESTAMP at exactly one site the call sees must be what the task gets
		if vt.Method != "" && os.Getenv("VERIF_VARS_POSTMON") != "0" { // the monitor belongs to C10 (C11 / C02 switch it off)
			fpName := strings.ToUpper(vt.Method)
			if want, ok := onlyLiteralDef(d, call, fpName); ok {
				il := hx(show(fpName))
				if show(fpName) == "LIVE" {
					il += " post-layer-wins"
				}
				lines = append(lines, varsLine{fmt.Sprintf("vars.postmon %d %s", vID(fpName), hx(want)), il})
			}
		}
		{
			var plain []string
			for _, n := range vPool[:vGen] {
				plain = append(plain, show(n))
			}
			runExpect = append(runExpect, "C:"+vt.Name+":"+strings.Join(plain, "|"), "D:"+vt.Name+":"+strings.Join(plain, "|"))
			runCalls = append(runCalls, &task.Call{Task: asked, Vars: toAstVars(call.Vars)})
		}

		// command environment: process env / global env / dotenv files / task env (literals only)
		if len(vt.Env) > 0 || len(vt.Dotenv) > 0 || len(d.RootEnv) > 0 {
			litOnly := true
			for _, x := range append(append([]vDef{}, d.RootEnv...), vt.Env...) {
				if x.Kind != "lit" || strings.Contains(x.Text, "{{") {
					litOnly = false
				}
			}
			if litOnly {
				enc := func(defs []vDef) string {
					var o []string
					for _, x := range defs {
						o = append(o, fmt.Sprintf("%d %s", vID(x.Name), hx(x.Text)))
					}
					return strings.TrimSpace(fmt.Sprintf("%d %s", len(defs), strings.Join(o, " ")))
				}
				// dotenv: first file wins, so later files only add missing keys
				var dot []vDef
				seen := map[string]bool{}
				dotSuffix := ""
				if rel, err := filepath.Rel(dir, t.Dir); err == nil {
					for _, w := range vDotDirs {
						if filepath.ToSlash(rel) == w[0] {
							dotSuffix = w[1]
						}
					}
				}
				for _, f := range vt.Dotenv {
					for _, kv := range d.Dotenvs[f] {
						if !seen[kv[0]] {
							seen[kv[0]] = true
							dot = append(dot, vDef{Name: kv[0], Kind: "lit", Text: kv[1] + dotSuffix})
						}
					}
				}
				var os_ []vDef
				for _, kv := range d.OsEnv {
					os_ = append(os_, vDef{Name: kv[0], Text: kv[1]})
				}
				var qe []string
				for i := range vPool {
					qe = append(qe, fmt.Sprint(i))
				}
				ecl := fmt.Sprintf("vars.env %s %s %s %s 0 %d %s", enc(os_), enc(d.RootEnv), enc(dot), enc(vt.Env), len(qe), strings.Join(qe, " "))
				ecl = strings.Join(strings.Fields(ecl), " ")
				environ := export.EnvGet(t)
				var evals []string
				for _, n := range vPool {
					val, found := "", false
					for _, kv := range environ {
						if strings.HasPrefix(kv, n+"=") {
							val, found = kv[len(n)+1:], true
						}
					}
					if found {
						evals = append(evals, hx(val))
					} else {
						evals = append(evals, "none")
					}
				}
				lines = append(lines, varsLine{ecl, strings.Join(evals, " ")})
			}
		}
	}
	// execution: the same calls, run in order in a fresh executor, must print what was resolved for
	// each call — also from the deferred command, and also when the same task is called again
	// with other variables (no call may observe another call's values)
	if len(runCalls) > 0 && len(runExpect) == 2*len(runCalls) && !hasEnvSh(d) && !hasSources(d) && os.Getenv("VERIF_VARS_RUN") != "0" {
		var buf strings.Builder
		e2 := task.NewExecutor(task.WithDir(dir), task.WithStdout(&buf), task.WithStderr(io.Discard), task.WithSilent(true),
			task.WithTempDir(task.TempDir{Remote: filepath.Join(dir, ".task"), Fingerprint: filepath.Join(dir, ".task")}))
		if err := e2.Setup(); err == nil {
			rerr := e2.Run(context.Background(), runCalls...)
			var got []string
			for _, ln := range strings.Split(strings.TrimRight(buf.String(), "\n"), "\n") {
				got = append(got, hx(ln))
			}
			if rerr != nil {
				got = append(got, hx("error: "+rerr.Error()))
			}
			var exp []string
			for _, ln := range runExpect {
				exp = append(exp, hx(ln))
			}
			lines = append(lines, varsLine{"vars.run " + strings.Join(exp, " "), strings.Join(got, " ")})
		}
	}
	return lines
}

func hasSources(d varsCase) bool {
	for _, t := range d.Tasks {
		if t.Method != "" {
			return true
		}
	}
	return false
}

// defsTok: a definition block of the protocol, from what the generator WROTE: `<n> (name kind parts)*`
func defsTok(defs []vDef) string {
	var out []string
	for _, d := range defs {
		id := vID(d.Name)
		switch d.Kind {
		case "ref":
			out = append(out, fmt.Sprintf("%d r 1 r%d", id, vID(d.Text)))
		case "sh":
			pt, _ := partsTok(d.Text)
			out = append(out, fmt.Sprintf("%d s %s", id, pt))
		case "envsh":
			pt, _ := partsTok(fmt.Sprintf("$%d", vID(d.Text)))
			out = append(out, fmt.Sprintf("%d s %s", id, pt))
		default:
			pt, _ := partsTok(d.Text)
			out = append(out, fmt.Sprintf("%d l %s", id, pt))
		}
	}
	return strings.TrimSpace(fmt.Sprintf("%d %s", len(defs), strings.Join(out, " ")))
}

// defsOK: every name and reference of the case is in the protocol's name space
func defsOK(d varsCase, call vCall) bool {
	ok := true
	chk := func(defs []vDef) {
		for _, x := range defs {
			if vID(x.Name) < 0 {
				ok = false
			}
			if x.Kind == "ref" || x.Kind == "envsh" {
				if vID(x.Text) < 0 {
					ok = false
				}
			} else if _, pok := partsTok(x.Text); !pok {
				ok = false
			}
		}
	}
	chk(d.RootEnv)
	chk(d.RootVars)
	chk(d.IncVars)
	chk(d.SubVars)
	chk(d.DeepIncVars)
	chk(d.LeafVars)
	chk(call.Vars)
	chk(d.Tasks[call.Task].Vars)
	return ok
}

// onlyLiteralDef: the sites at which the call sees a definition of `name`; ok when there is exactly one and it is a literal
func onlyLiteralDef(d varsCase, call vCall, name string) (string, bool) {
	t := d.Tasks[call.Task]
	lists := [][]vDef{d.RootEnv, d.RootVars, call.Vars, t.Vars}
	if d.Include {
		lists = append(lists, d.SubVars) // merged into the globals, whoever is called
		if t.Sub || t.Leaf {
			lists = append(lists, d.IncVars)
		}
	}
	if d.Deep {
		lists = append(lists, d.LeafVars)
		if t.Leaf {
			lists = append(lists, d.DeepIncVars)
		}
	}
	n, val, lit := 0, "", true
	for _, l := range lists {
		for _, x := range l {
			if x.Name == name {
				n++
				val = x.Text
				if x.Kind != "lit" || strings.Contains(x.Text, "{{") {
					lit = false
				}
			}
		}
	}
	return val, n == 1 && lit
}

func hasEnvSh(d varsCase) bool {
	chk := func(defs []vDef) bool {
		for _, x := range defs {
			if x.Kind == "envsh" {
				return true
			}
		}
		return false
	}
	if chk(d.RootVars) || chk(d.IncVars) || chk(d.SubVars) {
		return true
	}
	for _, t := range d.Tasks {
		if chk(t.Vars) {
			return true
		}
	}
	for _, c := range d.Seq {
		if chk(c.Vars) {
			return true
		}
	}
	return false
}

func (c *Ctx) vMarker(site string, i int) string { return fmt.Sprintf("%s%d", site, i) }

// vRefName: the name a template / ref refers to: mostly the pool, sometimes a special variable
func (c *Ctx) vRefName() string {
	if c.Rng.Intn(7) == 0 {
		sp := []string{"TASK", "TASK_DIR", "ROOT_DIR", "ALIAS", "TASKFILE_DIR", "USER_WORKING_DIR", "TASKFILE", "MATCH"}
		c.Hit("ref-to-special")
		return sp[c.Rng.Intn(len(sp))]
	}
	return vPool[c.Rng.Intn(vGen)]
}

func (c *Ctx) genDefs(site string, maxN int, allowSh bool, envdep bool) []vDef {
	r := c.Rng
	var out []vDef
	n := r.Intn(maxN + 1)
	for i := 0; i < n; i++ {
		name := vPool[r.Intn(vGen)]
		d := vDef{Name: name, Kind: "lit", Text: c.vMarker(site, i)}
		switch k := r.Intn(10); {
		case k < 4:
		case k < 6:
			d.Text = c.vMarker(site, i) + "-{{." + c.vRefName() + "}}"
		case k < 8 && allowSh:
			d.Kind = "sh"
			// few distinct tokens, so that the same command text occurs at several sites / in several tasks
			d.Text = fmt.Sprintf("K%d", r.Intn(3))
			if r.Intn(3) == 0 {
				d.Text += "{{." + vPool[r.Intn(vGen)] + "}}"
			}
		case k < 9:
			d.Kind = "ref"
			d.Text = c.vRefName()
		default:
			if envdep && allowSh {
				d.Kind = "envsh"
				d.Text = vPool[r.Intn(vGen)]
			}
		}
		out = append(out, d)
	}
	return out
}

func (c *Ctx) genVarsCase(envdep bool) varsCase {
	r := c.Rng
	d := varsCase{Kind: "resolve", Include: r.Intn(3) > 0, Dotenvs: map[string][][2]string{}}
	for _, n := range vPool[:vGen] {
		if r.Intn(5) == 0 {
			d.OsEnv = append(d.OsEnv, [2]string{n, "os" + n})
		}
	}
	for _, x := range c.genDefs("ge", 2, false, false) {
		x.Kind, x.Text = "lit", "ge"+x.Name
		d.RootEnv = append(d.RootEnv, x)
	}
	d.RootEnv = uniqDefs(d.RootEnv)
	d.RootVars = uniqDefs(c.genDefs("g", 3, true, envdep))
	if d.Include {
		d.IncVars = uniqDefs(c.genDefs("i", 2, true, envdep))
		d.SubVars = uniqDefs(c.genDefs("s", 3, true, envdep))
	}
	for _, f := range []string{".env1", ".env2"} {
		for _, n := range vPool[:vGen] {
			if r.Intn(4) == 0 {
				d.Dotenvs[f] = append(d.Dotenvs[f], [2]string{n, "d" + f[4:] + n})
			}
		}
	}
	if d.Include && r.Intn(2) == 0 {
		// a second level: the included file includes another one (its globals are merged upwards twice, its
		// include statement's vars are merged under the outer statement's)
		d.Deep = true
		d.DeepIncVars = uniqDefs(c.genDefs("j", 3, true, envdep))
		d.LeafVars = uniqDefs(c.genDefs("l", 3, true, envdep))
	}
	nt := 2 + r.Intn(3)
	for i := 0; i < nt; i++ {
		t := vTask{Name: fmt.Sprintf("t%d", i), Sub: d.Include && r.Intn(2) == 0}
		if d.Deep && r.Intn(2) == 0 {
			t.Sub, t.Leaf = false, true
		}
		if !t.Sub && !t.Leaf {
			switch r.Intn(5) {
			case 0:
				t.Dir = "sub"
			case 1:
				// a dir that refers to a global variable (resolved after the global layer)
				d.RootVars = uniqDefs(append(d.RootVars, vDef{Name: "VG", Kind: "lit", Text: "sub"}))
				t.Dir = "{{.VG}}"
			}
		}
		if !t.Sub && !t.Leaf && r.Intn(7) == 0 {
			t.Name = fmt.Sprintf("w%d-*", i) // a wildcard task: every call binds MATCH
			if r.Intn(3) == 0 {
				t.Name += "-*"
			}
			c.Hit("task:wildcard")
		} else if r.Intn(5) == 0 {
			t.Alias = fmt.Sprintf("al%d", i)
		}
		if r.Intn(8) == 0 {
			t.Method = []string{"checksum", "timestamp"}[r.Intn(2)]
			c.Hit("task:sources:" + t.Method)
		}
		t.Vars = uniqDefs(c.genDefs(fmt.Sprintf("t%d", i), 3, true, envdep))
		if r.Intn(3) == 0 {
			for _, x := range c.genDefs("te", 2, false, false) {
				x.Kind, x.Text = "lit", fmt.Sprintf("te%d%s", i, x.Name)
				t.Env = append(t.Env, x)
			}
			t.Env = uniqDefs(t.Env)
		}
		if r.Intn(3) == 0 {
			t.Dotenv = []string{".env1", ".env2"}[:1+r.Intn(2)]
		}
		// C11, directory clause: a dir: that depends on a call / task / included-file variable, or is `~` — the task's sh:
		// variables must run where its commands run (dotenv files exist in the plain directories only)
		if len(t.Dotenv) == 0 && r.Intn(4) == 0 {
			switch k := r.Intn(4); {
			case k == 0 && !t.Sub && !t.Leaf:
				t.Dir = "~"
			case k == 1:
				t.Dir, t.DirVia = "{{.VG}}", "call"
			case k == 2:
				t.Dir, t.DirVia = "{{.VG}}", "task"
				at := r.Intn(len(t.Vars) + 1) // before or after the task's sh: variables (after: circular, the model mirrors)
				t.Vars = uniqDefs(append(append(append([]vDef{}, t.Vars[:at]...), vDef{"VG", "lit", "alt"}), t.Vars[at:]...))
			case k == 3 && (t.Sub || t.Leaf):
				t.Dir, t.DirVia = "{{.VG}}", "subfile"
				d.SubVars = uniqDefs(append(d.SubVars, vDef{"VG", "lit", "alt"}))
			}
			if t.Dir != "" {
				c.Hit("dir-clause:" + t.Dir + ":" + t.DirVia)
			}
		}
		d.Tasks = append(d.Tasks, t)
	}
	if envdep && r.Intn(2) == 0 {
		// the same env-reading command in two tasks that give the variable it reads different values
		x, y := vPool[r.Intn(vGen)], vPool[r.Intn(vGen)]
		if x != y {
			for i := range d.Tasks {
				if !d.Tasks[i].Sub && d.Tasks[i].Dir == "" {
					d.Tasks[i].Vars = uniqDefs(append([]vDef{{x, "lit", fmt.Sprintf("e%d", i)}, {y, "envsh", x}}, d.Tasks[i].Vars...))
				}
			}
		}
	}
	ns := 2 + r.Intn(4)
	for i := 0; i < ns; i++ {
		cl := vCall{Task: r.Intn(nt)}
		if r.Intn(2) == 0 {
			cl.Vars = uniqDefs(c.genDefs(fmt.Sprintf("c%d", i), 2, true, envdep))
		}
		if d.Tasks[cl.Task].Alias != "" && r.Intn(2) == 0 {
			cl.ByAlias = true
			c.Hit("call:by-alias")
		}
		if d.Tasks[cl.Task].DirVia == "call" && r.Intn(3) > 0 {
			cl.Vars = uniqDefs(append(cl.Vars, vDef{"VG", "lit", "alt"}))
		}
		for k := strings.Count(d.Tasks[cl.Task].Name, "*"); k > 0; k-- {
			cl.Wild = append(cl.Wild, fmt.Sprintf("m%d", r.Intn(3)))
		}
		d.Seq = append(d.Seq, cl)
	}
	// a user definition named like a special variable, at one or two sites: it must win wherever it is visible
	spNames := append([]string{}, vSpecial...)
	if hasSources(d) {
		spNames = append(spNames, "CHECKSUM", "TIMESTAMP", "CHECKSUM", "TIMESTAMP")
	}
	for k := r.Intn(3); k > 0 && r.Intn(2) == 0; k-- {
		sp := vDef{Name: spNames[r.Intn(len(spNames))], Kind: "lit"}
		switch site := r.Intn(7); {
		case site == 0:
			sp.Text = "u-glob"
			d.RootVars = uniqDefs(append(d.RootVars, sp))
		case site == 1 && d.Include:
			sp.Text = "u-incl"
			d.IncVars = uniqDefs(append(d.IncVars, sp))
		case site == 2 && d.Include:
			sp.Text = "u-sub"
			d.SubVars = uniqDefs(append(d.SubVars, sp))
		case site == 3:
			sp.Text = "u-task"
			ti := r.Intn(nt)
			d.Tasks[ti].Vars = uniqDefs(append(d.Tasks[ti].Vars, sp))
		case site == 4 && len(d.Seq) > 0:
			sp.Text = "u-call"
			ci := r.Intn(len(d.Seq))
			d.Seq[ci].Vars = uniqDefs(append(d.Seq[ci].Vars, sp))
		case site == 5 && d.Deep:
			sp.Text = "u-leaf"
			d.LeafVars = uniqDefs(append(d.LeafVars, sp))
		case site == 6:
			sp.Text = "u-genv"
			d.RootEnv = uniqDefs(append(d.RootEnv, sp))
		default:
			continue
		}
		c.Hit("special-var-defined:" + sp.Name + ":" + sp.Text)
	}
	return d
}

// mergeDefs: Vars.Merge — b's entries override a's of the same name (keeping a's position), new names are appended
func mergeDefs(a, b []vDef) []vDef {
	out := append([]vDef{}, a...)
	for _, y := range b {
		found := false
		for i := range out {
			if out[i].Name == y.Name {
				out[i] = y
				found = true
			}
		}
		if !found {
			out = append(out, y)
		}
	}
	return out
}

func litDefs(defs []vDef, tag string) []vDef {
	out := []vDef{}
	for i, x := range defs {
		out = append(out, vDef{Name: x.Name, Kind: "lit", Text: fmt.Sprintf("%s%d", tag, i)})
	}
	return out
}

func uniqDefs(defs []vDef) []vDef {
	seen := map[string]bool{}
	out := []vDef{}
	for _, d := range defs {
		if seen[d.Name] {
			continue
		}
		seen[d.Name] = true
		out = append(out, d)
	}
	return out
}

func definedSites(d varsCase, call vCall, name string) int {
	n := 0
	has := func(defs []vDef) {
		for _, x := range defs {
			if x.Name == name {
				n++
				return
			}
		}
	}
	for _, kv := range d.OsEnv {
		if kv[0] == name {
			n++
		}
	}
	has(d.RootEnv)
	has(d.RootVars)
	t := d.Tasks[call.Task]
	if t.Sub || t.Leaf {
		has(d.IncVars)
		has(d.SubVars)
	}
	if t.Leaf {
		has(d.DeepIncVars)
		has(d.LeafVars)
	}
	has(call.Vars)
	has(t.Vars)
	return n
}

func runVars(c *Ctx) {
	if c.Replay(func(raw []byte) (string, string) {
		var d varsCase
		mustJSON(raw, &d)
		ls := evalVarsAll(d)
		if d.Only < len(ls) {
			return ls[d.Only].cl, ls[d.Only].il
		}
		return "vars.resolve replay-index", "replay-index"
	}) {
		return
	}
	emitAll := func(d varsCase) {
		ls := evalVarsAll(d)
		for i, l := range ls {
			dd := d
			dd.Only = i
			kind := strings.SplitN(l.cl, " ", 2)[0]
			c.Hit(kind)
			if strings.HasPrefix(l.il, "error") || strings.HasPrefix(l.il, "harness") || strings.HasPrefix(l.il, "setup") {
				c.Hit("impl:" + strings.SplitN(l.il, " ", 2)[0])
			}
			nontriv := i > 0
			if d.Kind == "resolve" && len(d.Seq) > 0 {
				for _, n := range vPool {
					ci := i
					if ci >= len(d.Seq) {
						ci = len(d.Seq) - 1
					}
					if definedSites(d, d.Seq[ci], n) >= 2 {
						nontriv = true
					}
				}
			}
			if nontriv {
				c.Distinct(l.cl)
			}
			c.Emit(l.cl, l.il, dd)
		}
	}
	// corpus: two tasks, same sh text, different dirs; templated dir
	emitAll(varsCase{Kind: "resolve", Dotenvs: map[string][][2]string{},
		RootVars: []vDef{{"VG", "lit", "sub"}},
		Tasks: []vTask{{Name: "t0", Vars: []vDef{{"VA", "sh", "K0"}}}, {Name: "t1", Dir: "{{.VG}}", Vars: []vDef{{"VA", "sh", "K0"}}}},
		Seq:   []vCall{{Task: 0}, {Task: 1}, {Task: 0}}})
	n := c.Pick(450, 6000)
	for i := 0; i < n; i++ {
		emitAll(c.genVarsCase(false))
	}
	// separate small stream: sh commands that read a variable from the environment they are handed
	// (the dynamic cache ignores that environment: open finding C11-dynamic-cache-ignores-env)
	for i := 0; i < c.Pick(80, 800) && os.Getenv("VERIF_VARS_ENVDEP") != "0"; i++ {
		c.Hit("stream:envdep")
		emitAll(c.genVarsCase(true))
	}
	nx := c.Pick(120, 1200)
	for i := 0; i < nx; i++ {
		r := c.Rng
		ch := &vChain{}
		ng, nt := r.Intn(3), 1+r.Intn(3)
		var names []string
		for k := 0; k < ng; k++ {
			names = append(names, fmt.Sprintf("EG%d", k))
		}
		for k := 0; k < nt; k++ {
			names = append(names, fmt.Sprintf("ET%d", k))
		}
		pool := append(append([]string{}, names...), "OX")
		for k, n := range names {
			e := vChainEnt{Name: n}
			if r.Intn(2) == 0 {
				e.Lit = fmt.Sprintf("v%d", k)
			} else {
				e.Reads = pool[r.Intn(len(pool))]
				// half of the time read an EARLIER `sh:` entry: the chain the property is about
				var shBefore []string
				for _, p := range ch.Entries {
					if p.Reads != "" {
						shBefore = append(shBefore, p.Name)
					}
				}
				if len(shBefore) > 0 && r.Intn(2) == 0 {
					e.Reads = shBefore[r.Intn(len(shBefore))]
				}
				if e.Reads == n {
					e.Reads = "OX"
				}
			}
			ch.Entries = append(ch.Entries, e)
		}
		for _, n := range pool {
			if r.Intn(4) == 0 {
				ch.Os = append(ch.Os, [2]string{n, "os-" + strings.ToLower(n)})
			}
		}
		c.Hit("envchain")
		emitAll(varsCase{Kind: "envchain", Chain: ch, Dotenvs: map[string][][2]string{}})
	}
	// the environment clause over the real pipeline: global env templated twice, sh: entries, both settings of the experiment
	for _, ep := range []vEnvPipe{
		{Genv: []vDef{{"EA", "lit", "e-{{.VA}}"}}, Gvars: []vDef{{"VA", "lit", "x"}}, Tvars: []vDef{{"VA", "lit", "y"}}},
		{Prec: true, Os: [][2]string{{"EA", "osea"}, {"VA", "osva"}}, Genv: []vDef{{"EA", "lit", "ge"}, {"EB", "envsh", "VA"}}, Gvars: []vDef{{"VA", "lit", "gv"}, {"VB", "envsh", "EA"}}},
		{Os: [][2]string{{"EA", "osea"}, {"VA", "osva"}}, Genv: []vDef{{"EA", "lit", "ge"}, {"EB", "envsh", "VA"}}, Gvars: []vDef{{"VA", "lit", "gv"}, {"VB", "envsh", "EA"}}},
		{Dir: "sub", Genv: []vDef{{"EA", "sh", "K0"}}, Tenv: []vDef{{"EB", "sh", "K0"}}},
	} {
		ep := ep
		emitAll(varsCase{Kind: "envpipe", EnvPipe: &ep, Dotenvs: map[string][][2]string{}})
	}
	np := c.Pick(300, 3000)
	for i := 0; i < np; i++ {
		ep := c.genEnvPipe()
		c.Hit(fmt.Sprintf("envpipe:prec=%v", ep.Prec))
		emitAll(varsCase{Kind: "envpipe", EnvPipe: &ep, Dotenvs: map[string][][2]string{}})
	}
	// C11, the file system: commands rewrite files that later `sh:` variables read (same stream switch as the env-reading one)
	if os.Getenv("VERIF_VARS_ENVDEP") != "0" {
		fh := vFsHist{Files: [][3]string{{"", "f0.txt", "old"}, {"", "g.txt", "ig"}},
			Tasks: []vFsTask{{Reads: "f0.txt", Writes: [][2]string{{"f0.txt", "new"}}}, {Reads: "f0.txt"}}, Seq: []int{0, 1}}
		emitAll(varsCase{Kind: "fshist", FsHist: &fh, Dotenvs: map[string][][2]string{}})
		for i := 0; i < c.Pick(120, 1200); i++ {
			fh := c.genFsHist()
			c.Hit("stream:fshist")
			emitAll(varsCase{Kind: "fshist", FsHist: &fh, Dotenvs: map[string][][2]string{}})
		}
	}
	nl := c.Pick(40, 400)
	for i := 0; i < nl; i++ {
		r := c.Rng
		l := &vLoop{Form: []string{"list", "var"}[r.Intn(2)], Stale: []string{"", "task", "global"}[r.Intn(3)]}
		for j := 0; j < 1+r.Intn(4); j++ {
			l.Items = append(l.Items, fmt.Sprintf("i%d%c", j, 'a'+rune(r.Intn(3))))
		}
		c.Hit("loop:" + l.Form + ":stale=" + l.Stale)
		emitAll(varsCase{Kind: "loop", Loop: l, Dotenvs: map[string][][2]string{}})
		if i%2 == 0 {
			// the same loop over a MAP variable with 2..8 entries (keys not in alphabetical order of declaration)
			ml := &vLoop{Form: "map"}
			for j, n := 0, 2+r.Intn(7); j < n; j++ {
				ml.Items = append(ml.Items, fmt.Sprintf("k%c%d", 'z'-rune(j*3%26), j))
			}
			c.Hit("loop:map")
			emitAll(varsCase{Kind: "loop", Loop: ml, Dotenvs: map[string][][2]string{}})
		}
	}
	m := c.Pick(60, 600)
	for i := 0; i < m; i++ {
		r := c.Rng
		d := varsCase{Kind: "product", Dotenvs: map[string][][2]string{}, Tasks: []vTask{{Name: "loop"}}}
		keys := []string{"A", "B", "C"}[:1+r.Intn(3)]
		r.Shuffle(len(keys), func(a, b int) { keys[a], keys[b] = keys[b], keys[a] })
		for _, k := range keys {
			row := []string{k}
			for j := 0; j < 1+r.Intn(3); j++ {
				row = append(row, fmt.Sprintf("%s%d", strings.ToLower(k), j))
			}
			d.Matrix = append(d.Matrix, row)
		}
		emitAll(d)
	}
	keys := make([]string, 0, len(c.Feat))
	for k := range c.Feat {
		keys = append(keys, k)
	}
	sort.Strings(keys)
}
