package main

// Domain `varscli` (C10): the command-line layer of the global variables, through the REAL CLI binary.
//
// cmd/task merges the NAME=value assignments and CLI_ARGS / CLI_FORCE / CLI_SILENT / CLI_VERBOSE /
// CLI_OFFLINE into the Taskfile's globals AFTER the declared ones (Vars.Merge: an assigned name that is
// also declared keeps the position of its declaration, a new name is appended).  The model
// (`Vars.taskfileVars declared (cliLayer …)`) is given what the generator WROTE (Taskfile text and argv),
// never what Task loaded; the values compared are what the task's commands print.
//
// Monitor of the open finding C10-cli-specials-defined-after-globals (`vars.climon`): a declared global /
// global env entry whose template refers to CLI_* names only must hold their values ("special variables
// are available"); when it holds the text with those references rendered EMPTY the outcome is tagged.

import (
	"bytes"
	"context"
	"errors"
	"fmt"
	"os"
	"os/exec"
	"path/filepath"
	"strings"
	"sync"
	"time"
)

func init() {
	domains["varscli"] = domain{runVarsCli,
		"real CLI: a Taskfile with declared globals (literals, templates over / refs to the names XA..XC GA..GC and CLI_ARGS/CLI_FORCE/CLI_OFFLINE/" +
			"CLI_VERBOSE, in random order, sometimes declaring an assignable or CLI_* name itself), a global env entry and a task variable referring to " +
			"those names; argv = flags, NAME=value assignments (repeated names, before and after the task name), `--` and plain arguments; process " +
			"environment values for some names; every name is printed by a command of the task and compared with the model's merged layer; " +
			"non-trivial = a declared entry refers to an assigned / CLI_* name; distinct by (Taskfile, argv)"}
}

var vcPool = []string{"XA", "XB", "XC", "GA", "GB", "GC", "EA", "TV"}
var vcSpecial = []string{"CLI_ARGS", "CLI_FORCE", "CLI_SILENT", "CLI_VERBOSE", "CLI_OFFLINE"}

func vcID(n string) int {
	for i, x := range vcPool {
		if x == n {
			return i
		}
	}
	for i, x := range vcSpecial {
		if x == n {
			return 200 + i
		}
	}
	return -1
}

type varsCliCase struct {
	OsEnv    [][2]string `json:"os_env"`
	Genv     []vDef      `json:"global_env"` // kind lit | ref
	Declared []vDef      `json:"declared"`
	TaskVars []vDef      `json:"task_vars"`
	Argv     []string    `json:"argv"` // everything after the binary name
	Only     int         `json:"only"`
}

func vcPartsTok(tpl string) string {
	var parts []string
	last := 0
	for _, m := range reRef.FindAllStringSubmatchIndex(tpl, -1) {
		if m[0] > last {
			parts = append(parts, "t"+hx(tpl[last:m[0]]))
		}
		parts = append(parts, fmt.Sprintf("r%d", vcID(tpl[m[2]:m[3]])))
		last = m[1]
	}
	if last < len(tpl) {
		parts = append(parts, "t"+hx(tpl[last:]))
	}
	return strings.TrimSpace(fmt.Sprintf("%d %s", len(parts), strings.Join(parts, " ")))
}

func vcBlock(defs []vDef) string {
	var out []string
	for _, d := range defs {
		if d.Kind == "ref" {
			out = append(out, fmt.Sprintf("%d r 1 r%d", vcID(d.Name), vcID(d.Text)))
		} else {
			out = append(out, fmt.Sprintf("%d l %s", vcID(d.Name), vcPartsTok(d.Text)))
		}
	}
	return strings.TrimSpace(fmt.Sprintf("%d %s", len(defs), strings.Join(out, " ")))
}

var (
	vcMu  sync.Mutex
	vcSeq int
)

func evalVarsCli(d varsCliCase) []varsLine {
	bin, scratch := os.Getenv("VERIF_TASK_BIN"), os.Getenv("VERIF_SCRATCH")
	if bin == "" || scratch == "" {
		panic("varscli: VERIF_TASK_BIN and VERIF_SCRATCH must be set")
	}
	vcMu.Lock()
	vcSeq++
	dir := filepath.Join(scratch, fmt.Sprintf("vcli%d-%d", os.Getpid(), vcSeq))
	vcMu.Unlock()
	os.MkdirAll(filepath.Join(dir, "home"), 0o755)
	defer os.RemoveAll(dir)
	var y strings.Builder
	y.WriteString("version: '3'\nsilent: true\n")
	renderDefs(&y, "", "env", d.Genv)
	renderDefs(&y, "", "vars", d.Declared)
	y.WriteString("tasks:\n  t:\n")
	renderDefs(&y, "    ", "vars", d.TaskVars)
	y.WriteString("    cmds:\n")
	all := append(append([]string{}, vcPool...), vcSpecial...)
	for _, n := range all {
		fmt.Fprintf(&y, "      - %s\n", varsYamlQ("echo '"+n+"={{."+n+"}}'"))
	}
	os.WriteFile(filepath.Join(dir, "Taskfile.yml"), []byte(y.String()), 0o644)

	// what the generator wrote on the command line
	var flags, before, after []string
	dash := false
	for _, a := range d.Argv {
		switch {
		case dash:
			after = append(after, a)
		case a == "--":
			dash = true
		case strings.HasPrefix(a, "-"):
			flags = append(flags, a)
		default:
			before = append(before, a)
		}
	}
	has := func(f string) bool {
		for _, x := range flags {
			if x == f {
				return true
			}
		}
		return false
	}
	var assigns []string
	nAssign := 0
	for _, a := range before {
		if i := strings.Index(a, "="); i >= 0 {
			assigns = append(assigns, fmt.Sprintf("%d %s", vcID(a[:i]), vcPartsTok(a[i+1:])))
			nAssign++
		}
	}
	var baseTok []string
	for _, kv := range d.OsEnv {
		baseTok = append(baseTok, fmt.Sprintf("%d %s", vcID(kv[0]), hx(kv[1])))
	}
	var q []string
	for _, n := range all {
		q = append(q, fmt.Sprint(vcID(n)))
	}
	cl := fmt.Sprintf("vars.cli %d %s %s %s %d %s %s %s %s %s %s %s %d %s", len(d.OsEnv), strings.Join(baseTok, " "), vcBlock(d.Genv), vcBlock(d.Declared),
		nAssign, strings.Join(assigns, " "), hx(strings.Join(after, " ")), b2s(has("--force")), b2s(has("--silent")), b2s(has("--verbose")), b2s(has("--offline")),
		vcBlock(d.TaskVars), len(q), strings.Join(q, " "))
	cl = strings.Join(strings.Fields(cl), " ")

	ctx, cancel := context.WithTimeout(context.Background(), 20*time.Second)
	defer cancel()
	cmd := exec.CommandContext(ctx, bin, d.Argv...)
	cmd.Dir = dir
	cmd.Env = []string{"PATH=" + os.Getenv("PATH"), "HOME=" + filepath.Join(dir, "home"), "NO_COLOR=1"}
	for _, kv := range d.OsEnv {
		cmd.Env = append(cmd.Env, kv[0]+"="+kv[1])
	}
	var stdout, stderr bytes.Buffer
	cmd.Stdout, cmd.Stderr = &stdout, &stderr
	err := cmd.Run()
	if ctx.Err() != nil {
		return []varsLine{{cl, "timeout"}}
	}
	if err != nil {
		var ee *exec.ExitError
		if errors.As(err, &ee) {
			return []varsLine{{cl, fmt.Sprintf("fail %d %s", ee.ExitCode(), hx(firstLine(stderr.String())))}}
		}
		return []varsLine{{cl, "fail -1"}}
	}
	got := map[string]string{}
	for _, ln := range strings.Split(strings.TrimRight(stdout.String(), "\n"), "\n") {
		if i := strings.Index(ln, "="); i >= 0 {
			got[ln[:i]] = ln[i+1:]
		}
	}
	var vals []string
	for _, n := range all {
		vals = append(vals, hx(got[n]))
	}
	lines := []varsLine{{cl, strings.Join(vals, " ")}}

	// monitor: "special variables are available" to the declared globals and the global env
	special := map[string]string{"CLI_ARGS": strings.Join(after, " "), "CLI_FORCE": fmt.Sprint(has("--force")), "CLI_SILENT": fmt.Sprint(has("--silent")),
		"CLI_VERBOSE": fmt.Sprint(has("--verbose")), "CLI_OFFLINE": fmt.Sprint(has("--offline"))}
	userDefined := false
	for _, x := range append(append([]vDef{}, d.Declared...), d.Genv...) {
		if _, ok := special[x.Name]; ok {
			userDefined = true
		}
	}
	for _, a := range before {
		if i := strings.Index(a, "="); i >= 0 {
			if _, ok := special[a[:i]]; ok {
				userDefined = true
			}
		}
	}
	if !userDefined {
		for _, x := range append(append([]vDef{}, d.Genv...), d.Declared...) {
			tpl := x.Text
			if x.Kind == "ref" {
				tpl = "{{." + x.Text + "}}"
			}
			refs := reRef.FindAllStringSubmatch(tpl, -1)
			onlySpecial := len(refs) > 0
			for _, m := range refs {
				if _, ok := special[m[1]]; !ok {
					onlySpecial = false
				}
			}
			// the entry must not be re-assigned on the command line
			for _, a := range before {
				if strings.HasPrefix(a, x.Name+"=") {
					onlySpecial = false
				}
			}
			if !onlySpecial {
				continue
			}
			want := reRef.ReplaceAllStringFunc(tpl, func(r string) string { return special[reRef.FindStringSubmatch(r)[1]] })
			asEmpty := reRef.ReplaceAllString(tpl, "")
			il := hx(got[x.Name])
			if got[x.Name] != want && got[x.Name] == asEmpty {
				il += " cli-special-empty"
			}
			lines = append(lines, varsLine{fmt.Sprintf("vars.climon %d %s", vcID(x.Name), hx(want)), il})
		}
	}
	return lines
}

func (c *Ctx) genVarsCli() varsCliCase {
	r := c.Rng
	d := varsCliCase{}
	assignable := []string{"XA", "XB", "XC"}
	refPool := []string{"XA", "XB", "XC", "GA", "GB", "GC", "XA", "XB", "CLI_ARGS", "CLI_ARGS", "CLI_FORCE", "CLI_OFFLINE", "CLI_VERBOSE"}
	mk := func(name, tag string) vDef {
		x := vDef{Name: name, Kind: "lit", Text: tag}
		switch k := r.Intn(10); {
		case k < 3:
		case k < 8:
			x.Text = tag + "-{{." + refPool[r.Intn(len(refPool))] + "}}"
			if r.Intn(4) == 0 {
				x.Text += "+{{." + refPool[r.Intn(len(refPool))] + "}}"
			}
		default:
			x.Kind, x.Text = "ref", refPool[r.Intn(len(refPool))]
		}
		return x
	}
	for _, n := range assignable {
		if r.Intn(4) == 0 {
			d.OsEnv = append(d.OsEnv, [2]string{n, "os" + strings.ToLower(n)})
		}
	}
	names := []string{"GA", "GB", "GC"}
	for _, n := range assignable {
		if r.Intn(2) == 0 {
			names = append(names, n) // an assignable name that is ALSO declared: the assignment keeps this position
		}
	}
	if r.Intn(8) == 0 {
		names = append(names, []string{"CLI_ARGS", "CLI_FORCE"}[r.Intn(2)])
	}
	r.Shuffle(len(names), func(i, j int) { names[i], names[j] = names[j], names[i] })
	names = names[:1+r.Intn(len(names))]
	for i, n := range names {
		d.Declared = append(d.Declared, mk(n, fmt.Sprintf("g%d", i)))
	}
	if r.Intn(2) == 0 {
		d.Genv = []vDef{mk("EA", "e")}
	}
	if r.Intn(2) == 0 {
		d.TaskVars = []vDef{mk("TV", "t")}
	}
	var argv []string
	for _, f := range []string{"--force", "--verbose", "--silent"} {
		if r.Intn(5) == 0 {
			argv = append(argv, f)
		}
	}
	var pos []string
	for i, k := 0, r.Intn(4); i < k; i++ {
		n := assignable[r.Intn(len(assignable))]
		if r.Intn(6) == 0 {
			n = "GA" // assigning a name that is only declared
		}
		if r.Intn(25) == 0 {
			n = "CLI_ARGS"
		}
		pos = append(pos, fmt.Sprintf("%s=c%d", n, i))
	}
	at := r.Intn(len(pos) + 1)
	pos = append(append(append([]string{}, pos[:at]...), "t"), pos[at:]...)
	argv = append(argv, pos...)
	if r.Intn(3) > 0 {
		argv = append(argv, "--")
		for i, k := 0, r.Intn(4); i < k; i++ {
			argv = append(argv, fmt.Sprintf("a%d", i))
		}
	}
	d.Argv = argv
	return d
}

func runVarsCli(c *Ctx) {
	if c.Replay(func(raw []byte) (string, string) {
		var d varsCliCase
		mustJSON(raw, &d)
		ls := evalVarsCli(d)
		if d.Only < len(ls) {
			return ls[d.Only].cl, ls[d.Only].il
		}
		return "vars.cli replay-index", "replay-index"
	}) {
		return
	}
	cases := []varsCliCase{
		// the audit's reproduction: Y sees nothing; with X declared before: the assigned value; declared after: nothing
		{Declared: []vDef{{"GA", "lit", "y-{{.XA}}"}}, Argv: []string{"t", "XA=1"}},
		{Declared: []vDef{{"XA", "lit", "decl"}, {"GA", "lit", "y-{{.XA}}"}}, Argv: []string{"t", "XA=1"}},
		{Declared: []vDef{{"GA", "lit", "y-{{.XA}}"}, {"XA", "lit", "decl"}}, Argv: []string{"XA=1", "t"}},
		{Declared: []vDef{{"GA", "lit", "{{.CLI_ARGS}}"}}, TaskVars: []vDef{{"TV", "lit", "{{.CLI_ARGS}}"}}, Argv: []string{"t", "--", "a", "b"}},
		{Genv: []vDef{{"EA", "lit", "e-{{.CLI_FORCE}}"}}, Declared: []vDef{{"GA", "ref", "CLI_ARGS"}}, Argv: []string{"--force", "t", "--", "z"}},
	}
	n := c.Pick(260, 2600)
	for i := 0; i < n; i++ {
		cases = append(cases, c.genVarsCli())
	}
	out := make([][]varsLine, len(cases))
	var wg sync.WaitGroup
	sem := make(chan struct{}, 8)
	for i := range cases {
		wg.Add(1)
		sem <- struct{}{}
		go func(i int) {
			defer wg.Done()
			defer func() { <-sem }()
			out[i] = evalVarsCli(cases[i])
		}(i)
	}
	wg.Wait()
	for i, d := range cases {
		nontriv := false
		assigned := map[string]bool{"CLI_ARGS": true, "CLI_FORCE": true, "CLI_OFFLINE": true, "CLI_VERBOSE": true, "CLI_SILENT": true}
		for _, a := range d.Argv {
			if k := strings.Index(a, "="); k >= 0 {
				assigned[a[:k]] = true
			}
		}
		for _, x := range append(append([]vDef{}, d.Declared...), d.Genv...) {
			for _, m := range reRef.FindAllStringSubmatch("{{."+x.Text+"}}"+x.Text, -1) {
				if assigned[m[1]] {
					nontriv = true
					if strings.HasPrefix(m[1], "CLI_") {
						c.Hit("global-refers-to:CLI_*")
					} else {
						c.Hit("global-refers-to:assigned-name")
					}
				}
			}
		}
		for j, l := range out[i] {
			dd := d
			dd.Only = j
			c.Hit(strings.SplitN(l.cl, " ", 2)[0])
			if strings.HasPrefix(l.il, "fail") || l.il == "timeout" {
				c.Hit("impl:" + strings.SplitN(l.il, " ", 2)[0])
			}
			if nontriv {
				c.Distinct(l.cl)
			}
			c.Emit(l.cl, l.il, dd)
		}
	}
}
