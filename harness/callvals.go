package main

// Domain `callvals` (C02: "Variables passed in a call are the ones the callee sees").
//
// A value handed to a callee — `task: inner, vars: {M: '{{.RAW}}'}` where RAW holds arbitrary text (it comes out of an
// `sh:` command, which is the one place a value is NOT templated), or `Call.Vars` through the API — must be what the callee
// sees, byte for byte.  The callee's `getVariables` templates every call variable AGAIN: a value containing a template
// action arrives evaluated (or the call fails), the literal `<no value>` is deleted — the root of the two open C19 findings,
// recorded for C02 as `C02-call-values-templated-again`.  Each case is one monitor line `vars.callmon <mode> <value>`: the
// rule's demand is the value itself (the model echoes it); the callee prints it with `printf '%s' {{shellQuote .M}}`.  Values without `{{` and without `<no value>` must arrive verbatim (any bytes but NUL).

import (
	"context"
	"fmt"
	"io"
	"os"
	"path/filepath"
	"strings"

	"mvdan.cc/sh/v3/syntax"

	task "github.com/go-task/task/v3"
	"github.com/go-task/task/v3/taskfile/ast"
	"github.com/go-task/task/v3/verifhook/export"
)

func init() {
	domains["callvals"] = domain{runCallVals,
		"a value (bytes special to the shell, to Go templates and to YAML; a separate stream with template actions and the literal <no value>) " +
			"handed to a callee through `task: inner, vars: {M: '{{.RAW}}'}` in cmds: and in deps: (RAW from an sh: command printing the bytes) and " +
			"through Call.Vars of the API; the callee prints {{shellQuote .M}}; non-trivial = the value needs quoting or contains a template action; " +
			"distinct by (mode, value)"}
}

type callValsCase struct {
	Mode  string `json:"mode"`  // cmd (task: in cmds) | dep (deps:) | api (Call.Vars)
	Value string `json:"value"` // hex
	Text  string `json:"text,omitempty"`
}

var cvSeq int

func octal(s string) string {
	var b strings.Builder
	for i := 0; i < len(s); i++ {
		fmt.Fprintf(&b, "\\%03o", s[i])
	}
	return b.String()
}

func evalCallVals(d callValsCase) (cl string, il string) {
	v := unhexAll([]string{d.Value})[0]
	printed := v
	if d.Mode != "api" {
		// RAW is the output of an sh: command: Task trims a trailing newline from it — what is handed over is what RAW holds
		v = strings.TrimSuffix(strings.TrimSuffix(v, "\r\n"), "\n") // HandleDynamicVar: first "\r\n", then "\n"
	}
	cl = fmt.Sprintf("vars.callmon %s %s", d.Mode, hx(v))
	defer func() {
		if r := recover(); r != nil {
			il = "panic"
		}
	}()
	base := os.Getenv("VERIF_SCRATCH")
	if base == "" {
		base = os.TempDir()
	}
	cvSeq++
	dir := filepath.Join(base, fmt.Sprintf("cv%d-%d", os.Getpid(), cvSeq))
	os.MkdirAll(dir, 0o755)
	defer os.RemoveAll(dir)
	raw := varsYamlQ("printf '" + octal(printed) + "'")
	tf := "version: '3'\nsilent: true\nvars:\n  Y: " + cliTaskfileVarY + "\ntasks:\n" +
		"  inner:\n    cmds:\n      - " + varsYamlQ("printf '%s' {{shellQuote .M}}") + "\n" +
		"  cmd:\n    vars:\n      RAW: {sh: " + raw + "}\n    cmds:\n      - task: inner\n        vars: {M: '{{.RAW}}'}\n" +
		"  dep:\n    vars:\n      RAW: {sh: " + raw + "}\n    deps:\n      - task: inner\n        vars: {M: '{{.RAW}}'}\n"
	os.WriteFile(filepath.Join(dir, "Taskfile.yml"), []byte(tf), 0o644)
	var buf strings.Builder
	e := task.NewExecutor(task.WithDir(dir), task.WithStdout(&buf), task.WithStderr(io.Discard), task.WithSilent(true),
		task.WithTempDir(task.TempDir{Remote: filepath.Join(dir, ".task"), Fingerprint: filepath.Join(dir, ".task")}))
	if err := e.Setup(); err != nil {
		return cl, "setup-error " + hx(err.Error())
	}
	call := &task.Call{Task: d.Mode}
	if d.Mode == "api" {
		vs := ast.NewVars()
		vs.Set("M", ast.Var{Value: v})
		call = &task.Call{Task: "inner", Vars: vs}
	}
	rerr := e.Run(context.Background(), call)
	// what one more pass of the real templater makes of the value (monitor of the open finding)
	vars := ast.NewVars()
	vars.Set("Y", ast.Var{Value: cliTaskfileVarY})
	cache := &export.TemplaterCache{Vars: vars}
	again := export.TemplaterReplace(v, cache)
	againFails := cache.Err() != nil
	special := strings.Contains(v, "{{") || strings.Contains(v, "<no value>")
	if rerr != nil {
		if special && againFails {
			return cl, "fail templated-again"
		}
		return cl, "fail " + hx(firstLine(rerr.Error()))
	}
	got := buf.String() // `printf '%s' <quoted value>`: exactly the bytes the callee holds (C19_shellQuote)
	if got != v && special && !againFails && got == again {
		return cl, hx(got) + " templated-again"
	}
	return cl, hx(got)
}

func runCallVals(c *Ctx) {
	if c.Replay(func(raw []byte) (string, string) {
		var d callValsCase
		mustJSON(raw, &d)
		return evalCallVals(d)
	}) {
		return
	}
	emit := func(mode, v string) {
		d := callValsCase{Mode: mode, Value: hexAll([]string{v})[0], Text: quoteAll([]string{v})[0]}
		cl, il := evalCallVals(d)
		c.Hit("mode:" + mode)
		if strings.HasSuffix(il, "templated-again") {
			c.Hit("templated-again")
		}
		if strings.HasPrefix(il, "fail") || strings.HasPrefix(il, "bad") {
			c.Hit("impl:" + strings.SplitN(il, " ", 2)[0])
		}
		if q, _ := syntax.Quote(v, syntax.LangBash); q != v || strings.Contains(v, "{{") {
			c.Distinct(mode + "|" + v)
		}
		c.Emit(cl, il, d)
	}
	modes := []string{"cmd", "dep", "api"}
	for _, m := range modes {
		for _, v := range []string{"plain", "a b", "it's \"$HOME\" `id` \\ * ~ #", "", "{{.Y}}", "x{{.Y}}y", "a<no value>b", "{{", "{{\"'\"}}", "\xff\x01é"} {
			emit(m, v)
		}
	}
	n := c.Pick(150, 1500)
	for i := 0; i < n; i++ {
		emit(modes[c.Rng.Intn(3)], strings.ReplaceAll(c.qBytes(16, noTmpl), "<no value>", "<novalue>"))
	}
	nt := c.Pick(40, 400)
	for i := 0; i < nt; i++ {
		v := c.qBytes(10, withTmpl)
		if c.Rng.Intn(4) == 0 {
			v = c.qBytes(6, noTmpl) + "<no value>"
		}
		emit(modes[c.Rng.Intn(3)], v)
	}
}
