package main

import (
	"encoding/json"
	"fmt"
	"math/rand"
	"os"
	"runtime"
	"sort"
	"strings"
	"sync"
	"time"
)

// Domain `race` (property C18): generated Taskfile workloads in which several activations
// that touch the same shared structure run concurrently, evaluated under the Go race
// detector.  The supervisor (this process) only generates workloads and collects verdicts;
// every evaluation happens in a child process:
//
//   - `harness race-worker` (this binary, built with -race -tags verif): runs the workload
//     in-process through task.Executor with seeded schedule jitter (verifhook.Reset);
//   - $VERIF_TASK_BIN_RACE (the real CLI built with -race and WITHOUT the verif tag, whose
//     hook mutex adds happens-before edges that can hide a race).
//
// race.go        supervisor: pool, verdicts, replay
// race_worker.go the two evaluators
// race_gen.go    the workload generator (features, arrangements, options)
// race_corpus.go the six fixed shapes of the first version of this domain (corpus/C18/race.jsonl)

func init() {
	domains["race"] = domain{runRace,
		"seeded generator of concurrent workloads: each one composes 2-5 features (concurrently reached unknown / near-miss / over-long task names; " +
			"fingerprinted tasks (checksum, timestamp, status, generates, shared not-yet-existing dir, same task with different vars); preconditions, requires, " +
			"platforms; sh: variables at global / include / task level with cache hits and first-use concurrency; dotenv and env with sh values; wildcard tasks " +
			"and aliases; label / prefix templates and interleaved / prefixed / group output; deferred commands and deferred task calls; run: once / when_changed " +
			"incl. reference cycles; nested / flattened / internal / aliased / optional / twice-included Taskfiles; for-loops over lists, sources, matrix refs in " +
			"cmds and deps; --dry, --force, ignore_error, set/shopt, silent, interactive, verbose, call vars) into one Taskfile tree and calls the registered " +
			"entry tasks concurrently (parallel deps, --parallel targets, parallel parents with nested calls, for-loops over deps), under GOMAXPROCS in " +
			"{1,2,4,16}, a concurrency limit in {0,1,2,N} and schedule jitter in {0,50,300,2000} µs. Every workload is evaluated in a worker process under " +
			"the race detector (in-process executor with -tags verif, and the real CLI built with -race without the tag); verdict ok / race / crash / timeout. " +
			"non-trivial = at least two entry activations run concurrently; distinct by sorted feature set + arrangement + options"}
}

type raceCall struct {
	Task string            `json:"task"`
	Vars map[string]string `json:"vars,omitempty"`
}

type raceOpts struct {
	Parallel       bool   `json:"parallel,omitempty"`
	Concurrency    int    `json:"concurrency,omitempty"`
	Dry            bool   `json:"dry,omitempty"`
	Force          bool   `json:"force,omitempty"`     // in-process: Executor.Force (gentle force); CLI: --force
	ForceAll       bool   `json:"force_all,omitempty"` // in-process: Executor.ForceAll; CLI: --force
	Silent         bool   `json:"silent,omitempty"`
	Verbose        bool   `json:"verbose,omitempty"`
	Output         string `json:"output,omitempty"` // output style given as an option (flag); the Taskfile may set its own
	GroupBegin     string `json:"group_begin,omitempty"`
	GroupEnd       string `json:"group_end,omitempty"`
	GroupErrorOnly bool   `json:"group_error_only,omitempty"`
	SplitStderr    bool   `json:"split_stderr,omitempty"` // in-process: stdout and stderr are two different writers
}

// raceWorkload is everything needed to evaluate one workload alone.
type raceWorkload struct {
	ID          string            `json:"id"`
	Via         string            `json:"via"` // inproc | cli
	Files       map[string]string `json:"files"`
	Calls       []raceCall        `json:"calls"`
	Opts        raceOpts          `json:"opts"`
	Procs       int               `json:"gomaxprocs"`
	JitterSeed  int64             `json:"jitter_seed"`
	JitterUs    int64             `json:"jitter_us"`
	Features    []string          `json:"features,omitempty"`
	Arrangement string            `json:"arrangement,omitempty"`
	RaceReport  string            `json:"race_report,omitempty"`
	CrashReport string            `json:"crash_report,omitempty"`
	Result      string            `json:"result,omitempty"` // error class of Run / exit code of the CLI (informative)
	Attempts    int               `json:"attempts,omitempty"`
}

type raceVerdict struct {
	Verdict string // ok | race | crash | timeout
	Report  string
	Result  string
	Millis  int64
}

// per-workload bound (a time-out is a verdict of its own); VERIF_RACE_BOUND_S overrides it for self-tests
var raceBound = func() time.Duration {
	var n int
	if fmt.Sscan(os.Getenv("VERIF_RACE_BOUND_S"), &n); n > 0 {
		return time.Duration(n) * time.Second
	}
	return 30 * time.Second
}()

func raceWorkers() int {
	n := runtime.NumCPU()
	if n > 8 {
		n = 8
	}
	if n < 1 {
		n = 1
	}
	return n
}

// racePool evaluates jobs with W evaluator slots; every slot owns one in-process worker
// (restarted when it dies) and starts CLI processes as needed.  Results keep job order.
// After `stopAfter` race verdicts no new job is started (stopAfter <= 0: never stop).
func racePool(jobs []raceWorkload, stopAfter int) []*raceVerdict {
	res := make([]*raceVerdict, len(jobs))
	var mu sync.Mutex
	next, races := 0, 0
	var retry []int
	take := func() int {
		mu.Lock()
		defer mu.Unlock()
		if next >= len(jobs) || (stopAfter > 0 && races >= stopAfter) {
			return -1
		}
		next++
		return next - 1
	}
	var wg sync.WaitGroup
	w := raceWorkers()
	if w > len(jobs) {
		w = len(jobs)
	}
	for k := 0; k < w; k++ {
		wg.Add(1)
		go func() {
			defer wg.Done()
			slot := &raceSlot{}
			defer slot.stop()
			for {
				i := take()
				if i < 0 {
					return
				}
				v := slot.eval(jobs[i], raceBound)
				mu.Lock()
				if v.Verdict == "timeout" {
					retry = append(retry, i)
				} else {
					res[i] = v
					if v.Verdict == "race" {
						races++
					}
				}
				mu.Unlock()
			}
		}()
	}
	wg.Wait()
	// a timed-out workload is run once more, alone, with twice the bound (the machine may be overloaded)
	sort.Ints(retry)
	slot := &raceSlot{}
	confirmed := 0
	for _, i := range retry {
		if stopAfter > 0 && confirmed >= stopAfter {
			break // enough evidence of a hang; the rest stays unevaluated
		}
		res[i] = slot.eval(jobs[i], 2*raceBound)
		if res[i].Verdict == "timeout" {
			confirmed++
		}
	}
	slot.stop()
	return res
}

func raceDesc(wl raceWorkload, v *raceVerdict) raceWorkload {
	wl.RaceReport, wl.CrashReport = "", ""
	switch v.Verdict {
	case "race":
		wl.RaceReport = v.Report
	case "crash", "timeout":
		wl.CrashReport = v.Report
	}
	wl.Result = v.Result
	return wl
}

func raceReplay(c *Ctx) bool {
	p, _ := c.Extra["replay"].(string)
	if p == "" {
		return false
	}
	data, err := os.ReadFile(p)
	if err != nil {
		panic(err)
	}
	var raws []json.RawMessage
	var one struct {
		Case json.RawMessage `json:"case"`
	}
	if json.Unmarshal(data, &one) == nil && len(one.Case) > 0 {
		raws = append(raws, one.Case)
	} else {
		for _, ln := range strings.Split(string(data), "\n") {
			if ln = strings.TrimSpace(ln); ln != "" {
				raws = append(raws, json.RawMessage(ln))
			}
		}
	}
	// a single case (a replay file) is evaluated up to 5 times, the cases of a corpus file twice each;
	// the verdict of a case is its first non-ok one
	reps := 5
	if len(raws) > 1 {
		reps = 2
	}
	var jobs []raceWorkload
	for _, raw := range raws {
		var wl raceWorkload
		mustJSON(raw, &wl)
		if wl.Via == "cli" && os.Getenv("VERIF_TASK_BIN_RACE") == "" {
			wl.Via = "inproc"
		}
		for k := 0; k < reps; k++ {
			j := wl
			j.JitterSeed = wl.JitterSeed + int64(k) // the first attempt is the recorded one
			j.Attempts = k + 1
			jobs = append(jobs, j)
		}
	}
	stop := 0
	if len(raws) == 1 {
		stop = 1 // one non-ok verdict decides a single case
	}
	res := racePool(jobs, stop)
	for i := range raws {
		var best *raceVerdict
		var job raceWorkload
		for k := 0; k < reps; k++ {
			v := res[i*reps+k]
			if v == nil {
				continue
			}
			if best == nil || v.Verdict != "ok" {
				best, job = v, jobs[i*reps+k]
			}
			if v.Verdict != "ok" {
				break
			}
		}
		if best == nil {
			panic("race replay: no attempt was evaluated")
		}
		c.Hit("via:" + job.Via)
		c.Hit("verdict:" + best.Verdict)
		c.Distinct(job.ID + "|" + job.Via)
		c.Emit("race.ok", best.Verdict, raceDesc(job, best))
	}
	return true
}

func runRace(c *Ctx) {
	if raceReplay(c) {
		return
	}
	n := c.Pick(200, 1300)
	if s := os.Getenv("VERIF_RACE_N"); s != "" {
		fmt.Sscan(s, &n)
	}
	cliBin := os.Getenv("VERIF_TASK_BIN_RACE")
	only := os.Getenv("VERIF_RACE_VIA") // development aid: restrict to one evaluator (inproc | cli)
	var jobs []raceWorkload
	for i := 0; i < n; i++ {
		wl := genRaceWorkload(rand.New(rand.NewSource(c.Rng.Int63())), fmt.Sprintf("s%d-%s-%d", c.Seed, c.Tier, i))
		wl.Via = "inproc"
		if only != "cli" || cliBin == "" {
			jobs = append(jobs, wl)
		}
		if cliBin != "" && only != "inproc" {
			w2 := wl
			w2.Via = "cli"
			jobs = append(jobs, w2)
		}
	}
	t0 := time.Now()
	res := racePool(jobs, 3)
	var totalMs, maxMs int64
	viaMs := map[string]int64{}
	evaluated := 0
	for i, v := range res {
		if v == nil {
			continue // not started: three race verdicts were enough
		}
		wl := jobs[i]
		evaluated++
		totalMs += v.Millis
		viaMs[wl.Via] += v.Millis
		if v.Millis > maxMs {
			maxMs = v.Millis
		}
		for _, f := range wl.Features {
			c.Hit("feat:" + f)
		}
		c.Hit("arr:" + wl.Arrangement)
		c.Hit("via:" + wl.Via)
		c.Hit("verdict:" + v.Verdict)
		c.Hit(fmt.Sprintf("gomaxprocs:%d", wl.Procs))
		c.Hit(fmt.Sprintf("jitter:%d", wl.JitterUs))
		c.Hit("concurrency:" + raceCapClass(wl.Opts.Concurrency))
		if v.Result != "" {
			c.Hit("result:" + v.Result)
		}
		c.Distinct(raceKey(wl))
		c.Emit("race.ok", v.Verdict, raceDesc(wl, v))
	}
	c.Extra["race_timing"] = map[string]any{"workloads": n, "evaluations": evaluated, "wall_s": time.Since(t0).Seconds(),
		"sum_eval_ms": totalMs, "sum_eval_ms_by_via": viaMs, "max_eval_ms": maxMs, "workers": raceWorkers(), "cli": cliBin != ""}
}

func raceCapClass(n int) string {
	switch {
	case n <= 2:
		return fmt.Sprint(n)
	default:
		return "N"
	}
}

func raceKey(wl raceWorkload) string {
	fs := append([]string(nil), wl.Features...)
	sort.Strings(fs)
	o := wl.Opts
	return fmt.Sprintf("%s|%s|%s|p%v c%s d%v f%v%v s%v v%v o%s|g%d j%d", strings.Join(fs, ","), wl.Arrangement, wl.Via,
		o.Parallel, raceCapClass(o.Concurrency), o.Dry, o.Force, o.ForceAll, o.Silent, o.Verbose, o.Output, wl.Procs, wl.JitterUs)
}
