package main

import (
	"context"
	"fmt"
	"io"
	"os"
	"path/filepath"
	"strings"
	"sync"

	task "github.com/go-task/task/v3"
)

func init() {
	domains["race"] = domain{runRace,
		"concurrent workloads run in-process under the Go race detector (the harness is built with -race for C18): parallel deps compiling one task " +
			"with a matrix ref, for-loops over deps, prefixed and grouped output of concurrent commands, dynamic variables, run: once / when_changed " +
			"shared tasks, included Taskfiles, --parallel targets, defers; a detected race aborts the process with exit code 66 and the report is the " +
			"replay. non-trivial = the workload ran at least two activations concurrently; distinct by workload shape"}
}

type raceCase struct {
	Shape  string `json:"shape"`
	Output string `json:"output"`
	N      int    `json:"n"`
	Cap    int    `json:"cap"`
	Par    bool   `json:"parallel"`
}

func raceTaskfile(d raceCase) (root, sub string) {
	var b strings.Builder
	b.WriteString("version: '3'\n")
	switch d.Output {
	case "prefixed":
		b.WriteString("output: prefixed\n")
	case "group":
		b.WriteString("output:\n  group:\n    begin: '::b {{.TASK}}'\n    end: '::e'\n")
	}
	b.WriteString("vars:\n  LIST: {map: {a: 1}}\n  ITEMS: [x, y, z]\n  DYN: {sh: 'echo dyn'}\nincludes:\n  inc:\n    taskfile: ./sub/Taskfile.yml\n    dir: ./sub\n    vars: {IV: iv}\ntasks:\n")
	deps := func(name string, n int) string {
		var s []string
		for i := 0; i < n; i++ {
			s = append(s, fmt.Sprintf("{task: %s, vars: {I: '%d'}}", name, i%2))
		}
		return "[" + strings.Join(s, ", ") + "]"
	}
	fmt.Fprintf(&b, "  top:\n    deps: %s\n    cmds: ['echo top']\n", deps(d.Shape, d.N))
	b.WriteString("  matrix:\n    cmds:\n      - for:\n          matrix:\n            A: {ref: .ITEMS}\n            B: [1, 2]\n        cmd: 'echo {{.ITEM.A}}{{.ITEM.B}} {{.I}}'\n")
	b.WriteString("  dyn:\n    vars:\n      D2: {sh: 'echo d2-{{.I}}'}\n      D3: {sh: 'echo same'}\n    cmds: ['echo {{.DYN}} {{.D2}} {{.D3}}', 'printf \"a\\nb\\n\"; printf c']\n")
	b.WriteString("  shared:\n    run: once\n    cmds: ['echo shared']\n")
	b.WriteString("  wc:\n    run: when_changed\n    cmds: ['echo wc {{.I}}']\n")
	b.WriteString("  dedup:\n    deps: [shared, {task: wc, vars: {I: '{{.I}}'}}]\n    cmds: ['echo dedup {{.I}}', {defer: 'echo deferred {{.I}}'}, {task: shared}]\n")
	b.WriteString("  fordeps:\n    deps:\n      - for: {var: ITEMS}\n        task: leaf\n        vars: {X: '{{.ITEM}}'}\n    cmds: ['echo fordeps']\n")
	b.WriteString("  leaf:\n    cmds: ['echo leaf {{.X}}']\n")
	b.WriteString("  incl:\n    deps: [{task: 'inc:it', vars: {I: '{{.I}}'}}, 'inc:it2']\n    cmds: ['echo incl']\n")
	b.WriteString("  failing:\n    deps: [leaf, bad, dyn]\n    ignore_error: true\n    cmds: ['echo after']\n  bad:\n    cmds: ['exit 3']\n")
	sub = "version: '3'\nvars:\n  SV: {sh: 'echo sv'}\ntasks:\n  it:\n    vars: {TV: {sh: 'echo tv'}}\n    cmds: ['echo it {{.SV}} {{.IV}} {{.TV}} {{.I}}']\n  it2:\n    cmds: ['echo it2 {{.SV}}']\n"
	return b.String(), sub
}

var raceNo int
var devNull, _ = os.Open(os.DevNull) // a real file, as os.Stdin is (a strings.Reader shared by concurrent commands would race in the harness itself)

func evalRace(d raceCase) (string, string) {
	raceNo++
	base := os.Getenv("VERIF_SCRATCH")
	if base == "" {
		base = os.TempDir()
	}
	dir := filepath.Join(base, fmt.Sprintf("race%d-%d", os.Getpid(), raceNo))
	os.MkdirAll(filepath.Join(dir, "sub"), 0o755)
	defer os.RemoveAll(dir)
	root, sub := raceTaskfile(d)
	os.WriteFile(filepath.Join(dir, "Taskfile.yml"), []byte(root), 0o644)
	os.WriteFile(filepath.Join(dir, "sub", "Taskfile.yml"), []byte(sub), 0o644)
	var mu sync.Mutex
	sink := writerFunc(func(p []byte) (int, error) { mu.Lock(); defer mu.Unlock(); return len(p), nil })
	e := task.NewExecutor(task.WithDir(dir), task.WithStdout(sink), task.WithStderr(sink), task.WithStdin(devNull),
		task.WithConcurrency(d.Cap), task.WithParallel(d.Par), task.WithSilent(false),
		task.WithTempDir(task.TempDir{Remote: filepath.Join(dir, ".task"), Fingerprint: filepath.Join(dir, ".task")}))
	if err := e.Setup(); err != nil {
		return "race.ok", "setup-error " + hx(err.Error())
	}
	calls := []*task.Call{{Task: "top"}}
	if d.Par {
		calls = append(calls, &task.Call{Task: d.Shape}, &task.Call{Task: "top"})
	}
	_ = e.Run(context.Background(), calls...)
	return "race.ok", "ok"
}

type writerFunc func(p []byte) (int, error)

func (f writerFunc) Write(p []byte) (int, error) { return f(p) }

var _ io.Writer = writerFunc(nil)

func runRace(c *Ctx) {
	if c.Replay(func(raw []byte) (string, string) {
		var d raceCase
		mustJSON(raw, &d)
		return evalRace(d)
	}) {
		return
	}
	shapes := []string{"matrix", "dyn", "dedup", "fordeps", "incl", "failing"}
	outs := []string{"", "prefixed", "group"}
	reps := c.Pick(1, 6)
	for r := 0; r < reps; r++ {
		for _, s := range shapes {
			for _, o := range outs {
				d := raceCase{Shape: s, Output: o, N: 3 + c.Rng.Intn(4), Cap: []int{0, 2, 0}[c.Rng.Intn(3)], Par: c.Rng.Intn(3) == 0}
				cl, il := evalRace(d)
				c.Hit("shape:" + s)
				c.Hit("output:" + o)
				c.Distinct(fmt.Sprintf("%s|%s|%d|%d|%v", s, o, d.N, d.Cap, d.Par))
				c.Emit(cl, il, d)
			}
		}
	}
}
