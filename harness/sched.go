package main

import (
	"context"
	"fmt"
	"io"
	"os"
	"path/filepath"
	"regexp"
	"sort"
	"strconv"
	"strings"
	"time"

	task "github.com/go-task/task/v3"
	"github.com/go-task/task/v3/taskfile/ast"
	"github.com/go-task/task/v3/verifhook"
)

func init() {
	domains["sched"] = domain{runSched,
		"random task graphs (deps, nested task: calls, defer:, failing commands with exit codes 1..255, ignore_error at command and task level, " +
			"run: once/when_changed shared tasks, guards: platforms/requires/enum/preconditions/status/prompt/internal, tasks that do not compile: a template " +
			"error in label/env/prefix/summary, with and without sources:; a stream of failing shared tasks reached " +
			"both from the command line and through deps / task: entries, so that top-level callers wait for indirectly started executions and vice versa) rendered to a Taskfile and run " +
			"in-process through Executor.Setup/Run with --concurrency 0..3, --parallel, --force, --force-all, --yes; the schedule is perturbed by seeded random " +
			"delays at every instrumentation point; the event log is replayed by the Lean LTS. non-trivial = the run had at least two activations " +
			"alive at once or took a dedup / guard / failure / defer branch; distinct by (program, flags, event order). A stream of reference cycles through " +
			"deduplicated tasks (a ring with run: once / when_changed members; such a ring entered by several top-level calls under --parallel; a deferred " +
			"task: call back into the running execution) must end — with the 'called too many times' class (204, or 201 wrapping it) where the cycle is " +
			"not behind a defer — and log the refused wait (waitCycle). Names are a rendering choice the model does not see: tasks get aliases or are " +
			"wildcard tasks (t3-* called as t3-x / t3-y), every reference (command line, deps, task: entries, deferred task calls) picks one of the callee's names, " +
			"one program in four lives in an included Taskfile under names that contain ':' and share their last segment (n:t3:k, n:t4:k); dedup keys are " +
			"numbered per (task, hash), so an execution shared by two different tasks is rejected. Streams: cut-short (the one execution of a deduplicated " +
			"task is cancelled by the failure of a sibling in its caller's dependency group, a tolerant ancestor swallows that failure, and a caller outside the " +
			"group — later, or concurrently under --parallel / as a sibling dependency — must observe that the execution did not succeed); guard-pairs (every " +
			"guard outcome of one task drawn independently: the order of the guards decides the result); prompt-slots (confirmed prompts under --concurrency " +
			"with --parallel calls, sibling dependencies and nested calls competing for the slots); defer-call-vars (deferred task: entries that pass the exit " +
			"code, a variable of the deferring task, a literal or nothing, some with a templated name, below tolerant callers that run the task " +
			"again); once-group (several different deduplicated tasks reached in one invocation, every other group in the included file); many-refs " +
			"(acyclic programs with >= 1000 references to one task: binary tree of depth 10, for: loop, run: once callee — open finding, the call limit " +
			"counts references). What a reference passes as variable V (nothing, a literal, a variable of the referrer, the referrer's own V, for deferred " +
			"calls the exit code) is program data; every command prints the V it sees and the driver compares it with the value computed beside the " +
			"acceptor (verdict C02v). Key discipline (verdict C06k): one key per run: once task, one per (when_changed task, V), none shared by two " +
			"tasks. The value checked against enum: is rendered as a string, a YAML number, a boolean, or passed as a number by every reference"}
}

// ---- abstract program (mirrors TaskModel.Sched.TaskDef)

type sCmd struct {
	Call      int  `json:"call"` // -1 = shell
	Code      int  `json:"code"`
	IgnoreErr bool `json:"ignore_err,omitempty"`
	Deferred  bool `json:"deferred,omitempty"`
	// Var: what a call passes as variable V (model: Sched.Pass): -1 nothing, n >= 0 the literal 'n', -2 '{{.EXIT_CODE}}'
	// (deferred calls), -3 '{{.LOCAL}}' (a task-level variable of the calling task), -4 '{{.V}}' (the caller's own V)
	Var int `json:"var"`
	// TplName (rendering only): the callee's name is written as a template over a variable of the calling task
	TplName bool `json:"tpl_name,omitempty"`
	// CallIgnore: `ignore_error: true` written on a `task:` command.  Task does not read that key on task
	// calls (only on shell commands and on tasks), so it must change nothing: it is not part of the model's program.
	CallIgnore bool `json:"call_ignore,omitempty"`
	// Ref: under which of the callee's names the entry refers to it (rendering only, see refName)
	Ref int `json:"ref,omitempty"`
}

type sDep struct {
	Task int `json:"task"`
	Var  int `json:"var"`
	Ref  int `json:"ref,omitempty"` // rendering only, see refName
	// TplName (rendering only): the name is written as a template over a variable of the depending task
	TplName bool `json:"tpl_name,omitempty"`
}

type sTask struct {
	Deps        []sDep `json:"deps"`
	Cmds        []sCmd `json:"cmds"`
	IgnoreError bool   `json:"ignore_error,omitempty"`
	Run         string `json:"run"`
	Internal    bool   `json:"internal,omitempty"`
	PlatformOk  bool   `json:"platform_ok"`
	RequiresOk  bool   `json:"requires_ok"`
	EnumOk      bool   `json:"enum_ok"`
	PrecondOk   bool   `json:"precond_ok"`
	UpToDate    bool   `json:"up_to_date,omitempty"`
	Prompt      bool   `json:"prompt,omitempty"`
	// CompileErr > 0: the task does not compile (model: compileOk = false) — a template that fails when it is
	// executed, in a task-level field: 1 label, 2 env, 3 prefix, 4 summary (not `dir:` — that one is templated by
	// the variable compiler already, so FastCompiledTask reports it, before the platform check).  CompileSrc (rendering only): the task
	// also declares `sources:`, so that compiling it goes through the checksum variable and the templater's reset
	// EnumKind (rendering only): how the variable checked against `enum:` gets its value.  0: a string in the task's
	// vars, the requirement written only when EnumOk is false (`EV: bad` against [good]).  > 0: the requirement is
	// always written and the value — allowed or not, by EnumOk — is NOT a YAML string: 1 a number in the task's vars
	// (`EV: 3` / `EV: 1` against ['1','2']), 2 a boolean (`EV: true` / `EV: false` against ['false','no']), 3 a number
	// passed by every reference (`vars: {EV: 3}` in deps / task: entries / on the command line)
	EnumKind   int  `json:"enum_kind,omitempty"`
	CompileErr int  `json:"compile_err,omitempty"`
	CompileSrc bool `json:"compile_src,omitempty"`
	// Src (rendering only): the task has `sources:` and a `generates:` entry that never exists, so it is never up to date but
	// goes through the fingerprinted path of RunTask (the sources checker records, a failing command takes the record back):
	// a failing command of such a task must stop its callers exactly like any other
	Src bool `json:"src,omitempty"`
	// Watch (rendering only): `watch: true` on a task that is NOT named on the command line — without --watch it is an
	// ordinary task when reached through deps / task: entries (it is counted, it can be part of a cycle, …)
	Watch bool `json:"watch,omitempty"`
	// Rendering only — the model's program does not know how a task is named:
	// Aliases: the task has that many aliases (`aliases: [t<i>a, t<i>b]`); Wild: it is a wildcard task (`t<i>-*`)
	// that every reference calls by a concrete name (`t<i>-x`, `t<i>-y`, `t<i>-z`).  Which name a reference
	// uses is the reference's Ref.  Every activation must behave as if the task had been called by its key.
	Aliases int  `json:"aliases,omitempty"`
	Wild    bool `json:"wild,omitempty"`
}

type schedCase struct {
	Tasks    []sTask `json:"tasks"`
	Calls    []int   `json:"calls"`
	CallRefs []int   `json:"call_refs,omitempty"` // rendering only: the name each command-line call uses (refName)
	// Inc (rendering only): the tasks live in an included Taskfile (namespace `n`) and their own names there
	// contain ':' and all end in the same segment (`t3:k`, `t4:k`, aliases `t3a:k`, wildcard `t3:k-*`)
	Inc bool `json:"inc,omitempty"`
	// Loop (rendering only): a run of identical consecutive `task:` entries is written as ONE entry with `for:`
	// over a list of that many items (the compiled task has the entries one by one, as the abstract program does)
	Loop bool `json:"loop,omitempty"`
	// ManyRefs: an ACYCLIC program in which one task is referred to at least MaximumTaskCall times (the limit counts
	// calls, not depth: the 1000th call ends with 204 — open finding C07-call-limit-hits-acyclic-graphs)
	ManyRefs bool   `json:"many_refs,omitempty"`
	Cap      int    `json:"cap"` // 0 = unlimited
	Parallel bool   `json:"parallel,omitempty"`
	Force    bool   `json:"force,omitempty"`
	ForceAll bool   `json:"force_all,omitempty"`
	Yes      bool   `json:"yes,omitempty"`
	Term     bool   `json:"term,omitempty"`   // a terminal is assumed (Logger.AssumeTerm): prompts read an answer
	Answer   string `json:"answer,omitempty"` // with Term: y | n | eof (what every prompt reads)
	Jitter   int64  `json:"jitter"`
	Seed     int64  `json:"seed"`
	// Barrier > 0: every shell command writes to a stdout that blocks until Barrier activations have
	// entered (work-conservation probe: dependencies must all be started although only `cap` can run)
	Barrier int `json:"barrier,omitempty"`
	// Hang: a reference cycle through a deduplicated task (before the fix of C07-once-cycle-deadlocks the
	// executor hung on these): short time-out, the refused wait must be in the log
	Hang bool `json:"hang,omitempty"`
	// Want204: with Hang — the cycle is not behind a defer: the run must end with 204 or 201 wrapping 204
	Want204 bool `json:"want204,omitempty"`
}

type gateWriter struct {
	opened chan struct{}
}

func (g *gateWriter) Write(p []byte) (int, error) {
	<-g.opened
	return len(p), nil
}

// ---- names (rendering only).  A task is written under its key and may be referred to by other names:
//
//	plain      key t<i>        (Inc: t<i>:k)        aliases t<i>a, t<i>b   (Inc: t<i>a:k, t<i>b:k)
//	wildcard   key t<i>-*      (Inc: t<i>:k-*)      called as t<i>-x | -y | -z
//
// From outside the included file (the command line) every name carries the namespace `n:`.

var wildWords = []string{"x", "y", "z"}

func (d schedCase) keyName(i int) string {
	nm := fmt.Sprintf("t%d", i)
	if d.Inc {
		nm += ":k"
	}
	if i < len(d.Tasks) && d.Tasks[i].Wild {
		nm += "-*"
	}
	return nm
}

func (d schedCase) aliasName(i, k int) string {
	nm := fmt.Sprintf("t%d%c", i, 'a'+k)
	if d.Inc {
		nm += ":k"
	}
	return nm
}

// refName: the name reference number `ref` uses for task i, as written inside the file that defines the tasks
func (d schedCase) refName(i, ref int) string {
	if i < 0 || i >= len(d.Tasks) {
		return fmt.Sprintf("t%d", i)
	}
	t := d.Tasks[i]
	if ref < 0 {
		ref = -ref
	}
	switch {
	case t.Wild:
		nm := fmt.Sprintf("t%d", i)
		if d.Inc {
			nm += ":k"
		}
		if t.Run == "when_changed" {
			// the match is a variable of the task (.MATCH, .ALIAS), so it is part of the when_changed key: keep to one
			// word (the model's key owner is (task, V)); a run: once key is by task only — any word will do
			ref = 0
		}
		return nm + "-" + wildWords[ref%len(wildWords)]
	case t.Aliases > 0 && t.Run == "when_changed":
		// the name a task is called by is a variable it can read (.ALIAS; .MATCH for a wildcard match), so it is part
		// of the run: when_changed key like every other call variable: `task w` and `task wa` are two executions.
		// The model's key owner is (task, V): generated programs keep to ONE name per when_changed task.
		return d.aliasName(i, 0)
	case ref > 0 && t.Aliases > 0:
		return d.aliasName(i, (ref-1)%t.Aliases)
	}
	return d.keyName(i)
}

// cliName: the name the k-th command-line call uses
func (d schedCase) cliName(k int) string {
	ref := 0
	if k < len(d.CallRefs) {
		ref = d.CallRefs[k]
	}
	nm := d.refName(d.Calls[k], ref)
	if d.Inc {
		nm = "n:" + nm
	}
	return nm
}

// passText: the template a reference writes for V (nothing for -1)
func passText(v int) string {
	switch {
	case v >= 0:
		return fmt.Sprintf("V: '%d'", v)
	case v == -2:
		return "V: '{{.EXIT_CODE}}'"
	case v == -3:
		return "V: '{{.LOCAL}}'"
	case v == -4:
		return "V: '{{.V}}'"
	}
	return ""
}

// enumVal: the (non-string) value of the checked variable for EnumKind 1..3
func enumVal(t sTask) string {
	switch t.EnumKind {
	case 1, 3:
		if t.EnumOk {
			return "1"
		}
		return "3"
	case 2:
		if t.EnumOk {
			return "false"
		}
		return "true"
	}
	return "bad"
}

func enumList(t sTask) string {
	switch t.EnumKind {
	case 1, 3:
		return "['1', '2']"
	case 2:
		return "['false', 'no']"
	}
	return "[good]"
}

// refVars: the vars: mapping of a reference to task `callee` passing `v` (flow style; "" if empty)
func (d schedCase) refVars(callee, v int) string {
	var es []string
	if pt := passText(v); pt != "" {
		es = append(es, pt)
	}
	if callee >= 0 && callee < len(d.Tasks) && d.Tasks[callee].EnumKind == 3 {
		es = append(es, "EV: "+enumVal(d.Tasks[callee]))
	}
	if len(es) == 0 {
		return ""
	}
	return "{" + strings.Join(es, ", ") + "}"
}

func renderSched(d schedCase) (string, string) {
	var b strings.Builder
	b.WriteString("version: '3'\nsilent: true\ntasks:\n")
	for i, t := range d.Tasks {
		fmt.Fprintf(&b, "  %q:\n", d.keyName(i))
		if t.Aliases > 0 && !t.Wild {
			var as []string
			for k := 0; k < t.Aliases; k++ {
				as = append(as, fmt.Sprintf("%q", d.aliasName(i, k)))
			}
			fmt.Fprintf(&b, "    aliases: [%s]\n", strings.Join(as, ", "))
		}
		if t.Run != "always" {
			fmt.Fprintf(&b, "    run: %s\n", t.Run)
		}
		if t.Internal {
			b.WriteString("    internal: true\n")
		}
		if t.IgnoreError {
			b.WriteString("    ignore_error: true\n")
		}
		if !t.PlatformOk {
			b.WriteString("    platforms: [windows/386]\n")
		}
		// the task's own variables: the value checked against enum:, LOCAL (handed on by references that pass it),
		// and the names of callees written as templates
		var tvars []string
		enumReq := !t.EnumOk || t.EnumKind > 0
		if enumReq && t.EnumKind != 3 {
			tvars = append(tvars, "EV: "+enumVal(t))
		}
		usesLocal := false
		for j, dp := range t.Deps {
			if dp.Var == -3 {
				usesLocal = true
			}
			if dp.TplName {
				tvars = append(tvars, fmt.Sprintf("NMd%d: %q", j, d.refName(dp.Task, dp.Ref)))
			}
		}
		for j, c := range t.Cmds {
			if c.Call >= 0 && c.Var == -3 {
				usesLocal = true
			}
			if c.Call >= 0 && c.TplName {
				tvars = append(tvars, fmt.Sprintf("NMc%d: %q", j, d.refName(c.Call, c.Ref)))
			}
		}
		if usesLocal {
			tvars = append(tvars, fmt.Sprintf("LOCAL: 'L%d'", i))
		}
		var reqs []string
		if !t.RequiresOk {
			reqs = append(reqs, "MISSING_REQ")
		}
		if enumReq {
			reqs = append(reqs, "{name: EV, enum: "+enumList(t)+"}")
		}
		if len(reqs) > 0 {
			fmt.Fprintf(&b, "    requires:\n      vars: [%s]\n", strings.Join(reqs, ", "))
		}
		if len(tvars) > 0 {
			fmt.Fprintf(&b, "    vars: {%s}\n", strings.Join(tvars, ", "))
		}
		if !t.PrecondOk {
			b.WriteString("    preconditions:\n      - sh: 'exit 1'\n        msg: nope\n")
		}
		if t.UpToDate {
			b.WriteString("    status: ['true']\n")
		}
		if t.Prompt {
			b.WriteString("    prompt: 'sure?'\n")
		}
		switch t.CompileErr {
		case 1:
			b.WriteString("    label: 'L{{index .NOSUCH 99}}'\n")
		case 2:
			b.WriteString("    env: {CE: '{{index .NOSUCH 99}}'}\n")
		case 3:
			b.WriteString("    prefix: 'P{{index .NOSUCH 99}}'\n")
		case 4:
			b.WriteString("    summary: 'S{{index .NOSUCH 99}}'\n")
		}
		if t.CompileErr > 0 && t.CompileSrc {
			b.WriteString("    sources: ['Taskfile.yml']\n")
		}
		if t.Watch {
			onCmdLine := false
			for _, ci := range d.Calls {
				if ci == i {
					onCmdLine = true
				}
			}
			if !onCmdLine {
				b.WriteString("    watch: true\n")
			}
		}
		if t.Src && !t.UpToDate && t.CompileErr == 0 {
			// never up to date through a `generates` entry that does not exist — NOT through a failing status command: a status
			// command runs under the task's context, and a sibling's failure between depsDone and the guards then ends the
			// activation with a context error for which the log has no event (one rejected log in 20 000 thorough cases)
			fmt.Fprintf(&b, "    sources: ['Taskfile.yml']\n    generates: ['never-there-%d.out']\n    method: %s\n", i, []string{"checksum", "timestamp"}[i%2])
		}
		nameOf := func(callee, ref int, tpl bool, pos string) string {
			if tpl {
				return fmt.Sprintf("'{{.NM%s}}'", pos)
			}
			return fmt.Sprintf("%q", d.refName(callee, ref))
		}
		if len(t.Deps) > 0 {
			b.WriteString("    deps:\n")
			for j, dp := range t.Deps {
				fmt.Fprintf(&b, "      - task: %s\n", nameOf(dp.Task, dp.Ref, dp.TplName, fmt.Sprintf("d%d", j)))
				if vs := d.refVars(dp.Task, dp.Var); vs != "" {
					fmt.Fprintf(&b, "        vars: %s\n", vs)
				}
			}
		}
		if len(t.Cmds) > 0 {
			b.WriteString("    cmds:\n")
			skip := 0
			for j, c := range t.Cmds {
				if skip > 0 {
					skip--
					continue
				}
				pos := fmt.Sprintf("c%d", j)
				if d.Loop && c.Call >= 0 && !c.Deferred && !c.TplName {
					run := 1
					for j+run < len(t.Cmds) && t.Cmds[j+run] == c {
						run++
					}
					if run > 1 {
						fmt.Fprintf(&b, "      - for: [%s]\n        task: %s\n", strings.TrimSuffix(strings.Repeat("x, ", run), ", "), nameOf(c.Call, c.Ref, false, pos))
						if vs := d.refVars(c.Call, c.Var); vs != "" {
							fmt.Fprintf(&b, "        vars: %s\n", vs)
						}
						skip = run - 1
						continue
					}
				}
				switch {
				case c.Call >= 0 && c.Deferred:
					if vs := d.refVars(c.Call, c.Var); vs != "" {
						fmt.Fprintf(&b, "      - defer: {task: %s, vars: %s}\n", nameOf(c.Call, c.Ref, c.TplName, pos), vs)
					} else {
						fmt.Fprintf(&b, "      - defer: {task: %s}\n", nameOf(c.Call, c.Ref, c.TplName, pos))
					}
				case c.Call >= 0:
					fmt.Fprintf(&b, "      - task: %s\n", nameOf(c.Call, c.Ref, c.TplName, pos))
					if vs := d.refVars(c.Call, c.Var); vs != "" {
						fmt.Fprintf(&b, "        vars: %s\n", vs)
					}
					if c.CallIgnore {
						b.WriteString("        ignore_error: true\n")
					}
				case c.Deferred:
					fmt.Fprintf(&b, "      - defer: ': \"EC=[{{.EXIT_CODE}}] V={{.V}}\"; exit %d'\n", c.Code)
				default:
					if d.Barrier > 0 {
						fmt.Fprintf(&b, "      - cmd: 'printf B; exit %d'\n", c.Code)
					} else if c.Code >= 1000 {
						// flaky command (model: Sched.altRes): within one invocation the first execution exits n and
						// every later one 0 (code 1000+n), or the other way round (2000+n); mkdir is the atomic test-and-set
						first, later := c.Code%1000, 0
						if c.Code >= 2000 {
							first, later = 0, c.Code%1000
						}
						flakyNo++
						fmt.Fprintf(&b, "      - cmd: ': \"V={{.V}}\"; if mkdir .flaky%d 2>/dev/null; then exit %d; else exit %d; fi'\n", flakyNo, first, later)
					} else {
						fmt.Fprintf(&b, "      - cmd: ': \"V={{.V}}\"; exit %d'\n", c.Code)
					}
					if c.IgnoreErr {
						b.WriteString("        ignore_error: true\n")
					}
				}
			}
		}
	}
	if d.Inc {
		return "version: '3'\nsilent: true\nincludes:\n  n: ./inc\n", b.String()
	}
	return b.String(), ""
}

var flakyNo int

func resTok(cls string) string {
	switch {
	case cls == "ok":
		return "ok"
	case cls == "ctx":
		return "ctx"
	case cls == "generic":
		return "gen"
	case strings.HasPrefix(cls, "exit:"):
		return "x" + cls[5:]
	case strings.HasPrefix(cls, "typed:"):
		return "t" + cls[6:]
	case strings.HasPrefix(cls, "run(") && strings.HasSuffix(cls, ")"):
		return "r:" + resTok(cls[4:len(cls)-1])
	}
	return "gen"
}

var ecRe = regexp.MustCompile(`EC=\[(\d+)\]`)

func progTokens(d schedCase) string {
	var b strings.Builder
	cap := "-"
	if d.Cap > 0 {
		cap = strconv.Itoa(d.Cap)
	}
	// the model's `yes` = prompts pass (--yes, or a terminal answering "y"); `promptErr` = the answer cannot be read
	passes := d.Yes || (d.Term && d.Answer == "y")
	promptErr := !d.Yes && d.Term && d.Answer == "eof"
	fmt.Fprintf(&b, "F %s %s %s %s %s 1000 %s P %d", cap, b2s(d.Parallel), b2s(d.Force), b2s(d.ForceAll), b2s(passes), b2s(promptErr), len(d.Tasks))
	for _, t := range d.Tasks {
		fmt.Fprintf(&b, " %d", len(t.Deps))
		for _, dp := range t.Deps {
			fmt.Fprintf(&b, " %d", dp.Task)
		}
		fmt.Fprintf(&b, " %d", len(t.Cmds))
		for _, c := range t.Cmds {
			if c.Call >= 0 {
				fmt.Fprintf(&b, " c %d %s", c.Call, b2s(c.Deferred))
			} else {
				fmt.Fprintf(&b, " s %d %s %s", c.Code, b2s(c.IgnoreErr), b2s(c.Deferred))
			}
		}
		fmt.Fprintf(&b, " %s %s %s %s %s %s %s %s %s %s", b2s(t.IgnoreError), t.Run, b2s(t.Internal), b2s(t.PlatformOk), b2s(t.RequiresOk),
			b2s(t.EnumOk), b2s(t.PrecondOk), b2s(t.UpToDate), b2s(t.Prompt), b2s(t.CompileErr == 0))
	}
	fmt.Fprintf(&b, " C %d", len(d.Calls))
	for _, c := range d.Calls {
		fmt.Fprintf(&b, " %d", c)
	}
	// what every reference passes as V (model: Sched.Passes)
	pt := func(v int) string {
		switch {
		case v >= 0:
			return fmt.Sprintf(" l %d", v)
		case v == -2:
			return " e"
		case v == -3:
			return " o"
		case v == -4:
			return " w"
		}
		return " n"
	}
	fmt.Fprintf(&b, " V %d", len(d.Tasks))
	for _, t := range d.Tasks {
		fmt.Fprintf(&b, " %d", len(t.Deps))
		for _, dp := range t.Deps {
			b.WriteString(pt(dp.Var))
		}
		fmt.Fprintf(&b, " %d", len(t.Cmds))
		for _, c := range t.Cmds {
			if c.Call >= 0 {
				b.WriteString(pt(c.Var))
			} else {
				b.WriteString(" n")
			}
		}
	}
	return b.String()
}

var vRe = regexp.MustCompile(`V=([^" ]*)"`)

// valCode: the model's encoding of a printed value of V (Sched.MonVal): "" -> 0, the numeral n -> 2n+3, L<t> -> 2t+2
func valCode(v string) int {
	if v == "" {
		return 0
	}
	if n, err := strconv.Atoi(v); err == nil && n >= 0 {
		return 2*n + 3
	}
	if strings.HasPrefix(v, "L") {
		if n, err := strconv.Atoi(v[1:]); err == nil && n >= 0 {
			return 2*n + 2
		}
	}
	return 999999999
}

// obsTokens: the value of V every started command of the log shows (the command text is logged after templating)
func obsTokens(o schedObs) string {
	var b strings.Builder
	n := 0
	for _, ev := range o.events {
		if ev.Kind != "cmdStart" {
			continue
		}
		if m := vRe.FindStringSubmatch(strings.Join(ev.Args, " ")); m != nil {
			fmt.Fprintf(&b, " %d %d", ev.Act, valCode(m[1]))
			n++
		}
	}
	return fmt.Sprintf("O %d%s", n, b.String())
}

type schedObs struct {
	events   []verifhook.Event
	result   string
	hang     bool
	stall    bool
	setupErr string
}

// answerReader: what the prompts read.  Every prompt wraps stdin in its own bufio.Reader, so
// the stream repeats the answer for ever; "eof" (and no terminal) is an empty stream.
type repeatReader struct{ line string }

func (r repeatReader) Read(p []byte) (int, error) {
	n := 0
	for n+len(r.line) <= len(p) {
		n += copy(p[n:], r.line)
	}
	if n == 0 {
		n = copy(p, r.line)
	}
	return n, nil
}

func answerReader(d schedCase) io.Reader {
	if d.Term && (d.Answer == "y" || d.Answer == "n") {
		return repeatReader{d.Answer + "\n"}
	}
	return strings.NewReader("")
}

// taskIndex: the abstract task a name (key, alias, concrete wildcard name; with or without the namespace) stands for
func taskIndex(name string) int {
	name = strings.TrimPrefix(name, "n:")
	if strings.HasPrefix(name, "t") {
		j := 1
		for j < len(name) && name[j] >= '0' && name[j] <= '9' {
			j++
		}
		if n, err := strconv.Atoi(name[1:j]); err == nil {
			return n
		}
	}
	return 999999
}

func runSchedImpl(d schedCase, dir string) schedObs {
	os.MkdirAll(dir, 0o755)
	defer os.RemoveAll(dir)
	rootY, incY := renderSched(d)
	if err := os.WriteFile(filepath.Join(dir, "Taskfile.yml"), []byte(rootY), 0o644); err != nil {
		panic(err)
	}
	if d.Inc {
		os.MkdirAll(filepath.Join(dir, "inc"), 0o755)
		if err := os.WriteFile(filepath.Join(dir, "inc", "Taskfile.yml"), []byte(incY), 0o644); err != nil {
			panic(err)
		}
	}
	var stdout io.Writer = io.Discard
	var gate *gateWriter
	if d.Barrier > 0 {
		gate = &gateWriter{opened: make(chan struct{})}
		stdout = gate
	}
	e := task.NewExecutor(
		task.WithDir(dir),
		task.WithStdout(stdout), task.WithStderr(io.Discard), task.WithStdin(answerReader(d)),
		task.WithConcurrency(d.Cap), task.WithParallel(d.Parallel), task.WithForce(d.Force), task.WithForceAll(d.ForceAll),
		task.WithAssumeYes(d.Yes), task.WithAssumeTerm(d.Term), task.WithSilent(true),
		task.WithTempDir(task.TempDir{Remote: filepath.Join(dir, ".task"), Fingerprint: filepath.Join(dir, ".task")}),
	)
	if err := e.Setup(); err != nil {
		return schedObs{setupErr: err.Error()}
	}
	calls := make([]*task.Call, len(d.Calls))
	for i, c := range d.Calls {
		calls[i] = &task.Call{Task: d.cliName(i)}
		if c >= 0 && c < len(d.Tasks) && d.Tasks[c].EnumKind == 3 {
			// the checked variable arrives as a call variable that is a number, not a string
			vs := ast.NewVars()
			vs.Set("EV", ast.Var{Value: map[bool]int{true: 1, false: 3}[d.Tasks[c].EnumOk]})
			calls[i].Vars = vs
		}
	}
	verifhook.Reset(d.Seed, d.Jitter)
	done := make(chan error, 1)
	ctx, cancel := context.WithCancel(context.Background())
	go func() { done <- e.Run(ctx, calls...) }()
	var o schedObs
	if gate != nil {
		deadline := time.Now().Add(3 * time.Second)
		for {
			n := 0
			for _, ev := range verifhook.Events() {
				if ev.Kind == "enter" {
					n++
				}
			}
			if n >= d.Barrier {
				break
			}
			if time.Now().After(deadline) {
				o.stall = true
				break
			}
			time.Sleep(time.Millisecond)
		}
		close(gate.opened)
	}
	select {
	case err := <-done:
		o.result = resTok(verifhook.ErrClass(err))
	// (the 1000-deep recursion takes ~12 s on an idle machine and has been seen to take 45 s under a load average of 70)
	case <-time.After(map[bool]time.Duration{true: 3 * time.Second, false: 90 * time.Second}[d.Hang]):
		o.hang = true
		o.result = "hang"
	}
	o.events = verifhook.Events()
	cancel()
	if o.hang {
		// let the abandoned goroutines observe cancellation where they can
		time.Sleep(50 * time.Millisecond)
	}
	return o
}

func traceTokens(o schedObs) (string, int, map[string]int) {
	keys := map[string]int{}
	feats := map[string]int{}
	actTask := map[int64]int{}
	var b strings.Builder
	fmt.Fprintf(&b, "E %d", len(o.events))
	for _, ev := range o.events {
		feats[ev.Kind]++
		fmt.Fprintf(&b, " %d", ev.Act)
		switch ev.Kind {
		case "enter":
			kind, parent, idx, name := ev.Args[0], ev.Args[1], ev.Args[2], ev.Args[3]
			actTask[ev.Act] = taskIndex(name)
			if kind == "top" {
				fmt.Fprintf(&b, " enter top %s %d", idx, taskIndex(name))
			} else {
				fmt.Fprintf(&b, " enter %s %s %s %d", kind, parent, idx, taskIndex(name))
			}
		case "register", "waiter", "waitCycle":
			// The model's dedup keys are opaque numbers.  A key stands for (task, hash): an execution is shared
			// by the references of ONE task, so a hash that two different tasks arrive at is two keys for the
			// model — the second task's `waiter` then names a key nobody registered and the log is rejected.
			ks := fmt.Sprintf("%d|%s", actTask[ev.Act], ev.Args[0])
			k, ok := keys[ks]
			if !ok {
				k = len(keys)
				keys[ks] = k
			}
			fmt.Fprintf(&b, " %s %d", ev.Kind, k)
		case "cmdStart":
			args := ev.Args
			dfr := false
			if len(args) > 0 && args[0] == "deferred" {
				dfr = true
				args = args[1:]
			}
			seen := "-"
			if m := ecRe.FindStringSubmatch(strings.Join(args[1:], " ")); m != nil {
				seen = m[1]
			}
			fmt.Fprintf(&b, " cmdStart %s %s %s", args[0], seen, b2s(dfr))
		case "cmdEnd":
			args := ev.Args
			if len(args) > 0 && args[0] == "deferred" {
				args = args[1:]
			}
			fmt.Fprintf(&b, " cmdEnd %s %s", args[0], resTok(args[1]))
		case "depsDone":
			fmt.Fprintf(&b, " depsDone %s", resTok(ev.Args[0]))
		case "callRelease":
			if ev.Args[0] == "deferred" {
				fmt.Fprintf(&b, " callRelease %s 1", ev.Args[1])
			} else {
				fmt.Fprintf(&b, " callRelease %s 0", ev.Args[0])
			}
		case "callRet", "callReacq":
			fmt.Fprintf(&b, " %s %s", ev.Kind, ev.Args[0])
		case "promptErr":
			// the model has one event for a prompt that does not pass; the result class tells them apart
			b.WriteString(" promptFail")
		default:
			fmt.Fprintf(&b, " %s", ev.Kind)
		}
	}
	return b.String(), len(o.events), feats
}

// maxAlive: the largest number of activations between enter and exit at any point of the log
func maxAlive(evs []verifhook.Event) int {
	alive, max := 0, 0
	for _, e := range evs {
		if e.Kind == "enter" {
			alive++
			if alive > max {
				max = alive
			}
		} else if e.Kind == "exit" {
			alive--
		}
	}
	return max
}

var schedCaseNo int

const schedAccept = "accept C01=1 C02=1 C03=1 C06=1 C07=1 C13=1 C14=1 C03s=1 C02v=1 C06k=1 C07a=1"

func evalSched(d schedCase) (string, string, schedObs) {
	schedCaseNo++
	dir := filepath.Join(os.Getenv("VERIF_SCRATCH"), fmt.Sprintf("sched-%d-%d", os.Getpid(), schedCaseNo))
	if os.Getenv("VERIF_SCRATCH") == "" {
		dir = filepath.Join(os.TempDir(), fmt.Sprintf("verif-sched-%d-%d", os.Getpid(), schedCaseNo))
	}
	o := runSchedImpl(d, dir)
	if o.setupErr != "" {
		return "sched.run " + progTokens(d) + " E 0 R gen O 0", "setup-error " + hx(o.setupErr), o
	}
	tr, _, _ := traceTokens(o)
	line := "sched.run " + progTokens(d) + " " + tr + " R " + o.result + " " + obsTokens(o)
	if o.hang {
		return line, "hang", o
	}
	if o.stall {
		return line, "stall: not every dependency was started while a concurrency slot was free or held by a blocked command", o
	}
	if d.Hang {
		// a reference cycle through a deduplicated task is cut by the wait-for check, not by the call counter
		cut := false
		for _, e := range o.events {
			if e.Kind == "waitCycle" {
				cut = true
			}
		}
		if !cut {
			return line, "dedup-cycle: no refused wait (waitCycle) in the log, result " + o.result, o
		}
		if d.Want204 && o.result != "t204" && o.result != "r:t204" {
			return line, "dedup-cycle: ended with " + o.result + ", not with the called-too-many-times class", o
		}
	}
	return line, schedAccept, o
}

func (c *Ctx) genSched(maxTasks int, cyclic bool) schedCase {
	r := c.Rng
	n := 2 + r.Intn(maxTasks-1)
	d := schedCase{Cap: []int{0, 0, 1, 2, 3}[r.Intn(5)], Jitter: []int64{0, 50, 300, 1000}[r.Intn(4)], Seed: r.Int63()}
	d.Parallel = r.Intn(5) == 0
	d.Force = r.Intn(8) == 0
	d.ForceAll = r.Intn(12) == 0
	d.Yes = r.Intn(3) == 0
	if r.Intn(3) == 0 {
		d.Term = true
		d.Answer = []string{"y", "n", "eof"}[r.Intn(3)]
	}
	shared := map[int]bool{}
	for i := 0; i < n; i++ {
		t := sTask{Run: "always", PlatformOk: true, RequiresOk: true, EnumOk: true, PrecondOk: true}
		switch r.Intn(10) {
		case 0, 1:
			t.Run = "once"
			shared[i] = true
		case 2:
			t.Run = "when_changed"
			shared[i] = true
		}
		if r.Intn(14) == 0 {
			t.PlatformOk = false
		}
		if r.Intn(14) == 0 {
			t.RequiresOk = false
		}
		if r.Intn(18) == 0 {
			t.EnumOk = false
		}
		if r.Intn(12) == 0 {
			t.PrecondOk = false
		}
		if r.Intn(12) == 0 {
			t.UpToDate = true
		}
		if r.Intn(12) == 0 {
			t.Prompt = true
		}
		if r.Intn(15) == 0 {
			t.Internal = true
		}
		if r.Intn(16) == 0 {
			t.CompileErr = 1 + r.Intn(4)
			t.CompileSrc = r.Intn(2) == 0
		}
		t.IgnoreError = r.Intn(8) == 0
		pick := func() int {
			if cyclic && r.Intn(3) == 0 {
				return r.Intn(n)
			}
			if i+1 >= n {
				return -1
			}
			// prefer shared tasks now and then so that several callers meet on one
			if len(shared) > 0 && r.Intn(3) == 0 {
				for s := range shared {
					if s > i {
						return s
					}
				}
			}
			return i + 1 + r.Intn(n-i-1)
		}
		nd := []int{0, 0, 1, 2, 2, 3}[r.Intn(6)]
		for j := 0; j < nd; j++ {
			if tg := pick(); tg >= 0 {
				v := -1
				if r.Intn(3) == 0 {
					v = r.Intn(2)
				}
				t.Deps = append(t.Deps, sDep{Task: tg, Var: v})
			}
		}
		nc := []int{0, 1, 2, 2, 3, 4}[r.Intn(6)]
		for j := 0; j < nc; j++ {
			cm := sCmd{Call: -1, Var: -1}
			if r.Intn(3) == 0 {
				if tg := pick(); tg >= 0 {
					cm.Call = tg
					if r.Intn(3) == 0 {
						cm.Var = r.Intn(2)
					}
				}
			}
			if cm.Call < 0 {
				if r.Intn(4) == 0 {
					cm.Code = []int{1, 2, 7, 126, 255, 1 + r.Intn(255)}[r.Intn(6)]
				}
				cm.IgnoreErr = r.Intn(6) == 0
			}
			cm.Deferred = r.Intn(5) == 0
			if cm.Deferred {
				cm.IgnoreErr = false
				cm.Var = -1
			}
			if cm.Call >= 0 && !cm.Deferred && r.Intn(4) == 0 {
				cm.CallIgnore = true
			}
			t.Cmds = append(t.Cmds, cm)
		}
		d.Tasks = append(d.Tasks, t)
	}
	nCalls := 1
	if d.Parallel || r.Intn(4) == 0 {
		nCalls = 1 + r.Intn(3)
	}
	for k := 0; k < nCalls; k++ {
		if k == 0 || r.Intn(3) > 0 {
			d.Calls = append(d.Calls, r.Intn((n+1)/2))
		} else {
			d.Calls = append(d.Calls, r.Intn(n))
		}
	}
	return d
}

// genCycle: a ring of k tasks, each reaching the next through one dep or one task: command,
// with a few ordinary commands around; `dedup` puts a run: once task on the ring.
func (c *Ctx) genCycle(dedup bool) schedCase {
	return c.genCycle2(dedup, !dedup && c.Rng.Intn(3) == 0)
}

func (c *Ctx) genCycle2(dedup, watchRing bool) schedCase {
	r := c.Rng
	k := 1 + r.Intn(3)
	d := schedCase{Cap: []int{0, 1, 2}[r.Intn(3)], Jitter: 0, Seed: r.Int63(), Calls: []int{0}}
	for i := 0; i < k; i++ {
		t := sTask{Run: "always", PlatformOk: true, RequiresOk: true, EnumOk: true, PrecondOk: true}
		next := (i + 1) % k
		if r.Intn(2) == 0 {
			t.Deps = []sDep{{Task: next, Var: -1}}
			if r.Intn(2) == 0 {
				t.Cmds = append(t.Cmds, sCmd{Call: -1, Var: -1})
			}
		} else {
			if r.Intn(2) == 0 {
				t.Cmds = append(t.Cmds, sCmd{Call: -1, Var: -1})
			}
			t.Cmds = append(t.Cmds, sCmd{Call: next, Var: -1})
		}
		d.Tasks = append(d.Tasks, t)
	}
	if watchRing {
		// the ring is entered from a task outside it and every task ON the ring carries `watch: true` (no effect without
		// --watch: the ring is still a cycle and must end with the call-limit error)
		for i := range d.Tasks {
			d.Tasks[i].Watch = true
		}
		d.Tasks = append(d.Tasks, sTask{Run: "always", PlatformOk: true, RequiresOk: true, EnumOk: true, PrecondOk: true,
			Cmds: []sCmd{{Call: 0, Var: -1}}})
		d.Calls = []int{k}
	}
	if dedup {
		// at least one deduplicated task on the ring, each of the others with probability 1/2
		must := r.Intn(k)
		for i := range d.Tasks {
			if i == must || r.Intn(2) == 0 {
				d.Tasks[i].Run = []string{"once", "when_changed"}[r.Intn(2)]
			}
		}
		d.Hang, d.Want204 = true, true
	}
	return d
}

// genDedupCycle: the shapes of a reference cycle through deduplicated tasks.
//
//	ring:     genCycle(true), one call
//	tops:     a ring of 2..3 tasks, all deduplicated, entered by 2..3 top-level calls under --parallel: the
//	          executions wait for one another through waiter edges and registration edges, in an order the
//	          schedule decides; exactly the waits that would close a cycle are refused
//	deferred: a deduplicated task whose defer: calls it again, directly or through a run: always task
//	          (runDeferred keeps the values of the task's context, so the deferred call knows its execution);
//	          the deferred call fails with 204, which a defer discards: the task's own result stands
func (c *Ctx) genDedupCycle(shape int) (schedCase, string) {
	r := c.Rng
	mk := func() sTask {
		return sTask{Run: "always", PlatformOk: true, RequiresOk: true, EnumOk: true, PrecondOk: true}
	}
	switch shape {
	case 1:
		k := 2 + r.Intn(2)
		d := schedCase{Cap: []int{0, 0, 1, 2, 3}[r.Intn(5)], Jitter: []int64{0, 50, 300, 1000}[r.Intn(4)], Seed: r.Int63(), Parallel: true,
			Hang: true, Want204: true}
		for i := 0; i < k; i++ {
			t := mk()
			t.Run = []string{"once", "once", "when_changed"}[r.Intn(3)]
			next := (i + 1) % k
			if r.Intn(2) == 0 {
				t.Deps = []sDep{{Task: next, Var: -1}}
				if r.Intn(2) == 0 {
					t.Cmds = append(t.Cmds, sCmd{Call: -1, Var: -1})
				}
			} else {
				if r.Intn(2) == 0 {
					t.Cmds = append(t.Cmds, sCmd{Call: -1, Var: -1})
				}
				t.Cmds = append(t.Cmds, sCmd{Call: next, Var: -1})
			}
			d.Tasks = append(d.Tasks, t)
		}
		perm := r.Perm(k)
		d.Calls = perm[:2+r.Intn(k-1)]
		return d, "parallel-tops"
	case 2:
		d := schedCase{Cap: []int{0, 1, 2}[r.Intn(3)], Seed: r.Int63(), Calls: []int{0}, Hang: true}
		t0 := mk()
		t0.Run = []string{"once", "when_changed"}[r.Intn(2)]
		if r.Intn(2) == 0 {
			t0.Cmds = append(t0.Cmds, sCmd{Call: -1, Var: -1})
		}
		if r.Intn(2) == 0 {
			// defer: {task: t0}
			t0.Cmds = append(t0.Cmds, sCmd{Call: 0, Var: -1, Deferred: true})
			d.Tasks = []sTask{t0}
		} else {
			// defer: {task: t1}; t1 (run: always) reaches t0 again through a task: command or a dependency
			t0.Cmds = append(t0.Cmds, sCmd{Call: 1, Var: -1, Deferred: true})
			t1 := mk()
			if r.Intn(2) == 0 {
				t1.Cmds = []sCmd{{Call: 0, Var: -1}}
			} else {
				t1.Deps = []sDep{{Task: 0, Var: -1}}
			}
			d.Tasks = []sTask{t0, t1}
		}
		if r.Intn(2) == 0 {
			d.Tasks[0].Cmds = append(d.Tasks[0].Cmds, sCmd{Call: -1, Var: -1, Code: []int{0, 0, 3}[r.Intn(3)]})
		}
		return d, "deferred"
	}
	return c.genCycle(true), "ring"
}

// genBarrier: t0 has k deps, each with one command that blocks until all k+1 activations have
// entered; the concurrency limit is smaller than k.
func (c *Ctx) genBarrier() schedCase {
	r := c.Rng
	k := 3 + r.Intn(3)
	d := schedCase{Cap: 1 + r.Intn(2), Jitter: []int64{0, 100}[r.Intn(2)], Seed: r.Int63(), Calls: []int{0}, Barrier: k + 1}
	t0 := sTask{Run: "always", PlatformOk: true, RequiresOk: true, EnumOk: true, PrecondOk: true}
	for i := 1; i <= k; i++ {
		t0.Deps = append(t0.Deps, sDep{Task: i, Var: -1})
	}
	if r.Intn(2) == 0 {
		t0.Cmds = []sCmd{{Call: -1, Var: -1}}
	}
	d.Tasks = append(d.Tasks, t0)
	for i := 1; i <= k; i++ {
		t := sTask{Run: "always", PlatformOk: true, RequiresOk: true, EnumOk: true, PrecondOk: true}
		t.Cmds = []sCmd{{Call: -1, Var: -1}}
		if r.Intn(3) == 0 {
			t.Cmds = append(t.Cmds, sCmd{Call: -1, Var: -1})
		}
		d.Tasks = append(d.Tasks, t)
	}
	return d
}

// genFlaky: a task with deferred commands whose own command is flaky (fails on its first
// execution only, or on every execution but the first) is executed several times in one
// invocation by callers that tolerate the failure: the activations of ONE task definition
// have different outcomes, so whatever a deferred command sees (EXIT_CODE) must be the
// activation's own.
func (c *Ctx) genFlaky() schedCase {
	r := c.Rng
	d := schedCase{Cap: []int{0, 0, 1, 2}[r.Intn(4)], Jitter: []int64{0, 0, 200}[r.Intn(3)], Seed: r.Int63(), Calls: []int{0}}
	mk := func() sTask {
		return sTask{Run: "always", PlatformOk: true, RequiresOk: true, EnumOk: true, PrecondOk: true}
	}
	code := 1 + r.Intn(9)
	fl := 1000 + code
	if r.Intn(2) == 0 {
		fl = 2000 + code
	}
	// t1: the flaky task with defers
	t1 := mk()
	if r.Intn(3) == 0 {
		t1.Cmds = append(t1.Cmds, sCmd{Call: -1, Var: -1, Deferred: true})
	}
	t1.Cmds = append(t1.Cmds, sCmd{Call: -1, Var: -1, Deferred: true})
	if r.Intn(2) == 0 {
		t1.Cmds = append(t1.Cmds, sCmd{Call: -1, Var: -1})
	}
	t1.Cmds = append(t1.Cmds, sCmd{Call: -1, Var: -1, Code: fl})
	if r.Intn(2) == 0 {
		t1.Cmds = append(t1.Cmds, sCmd{Call: -1, Var: -1, Deferred: true})
	}
	// t0: calls t1 k times, tolerating its failure
	t0 := mk()
	t0.IgnoreError = true
	k := 2 + r.Intn(3)
	for i := 0; i < k; i++ {
		if r.Intn(4) == 0 {
			t0.Cmds = append(t0.Cmds, sCmd{Call: -1, Var: -1})
		}
		t0.Cmds = append(t0.Cmds, sCmd{Call: 1, Var: -1})
	}
	d.Tasks = []sTask{t0, t1}
	if r.Intn(3) == 0 {
		// a second tolerant caller running concurrently with the first
		t2 := mk()
		t2.IgnoreError = true
		t2.Cmds = []sCmd{{Call: 1, Var: -1}, {Call: 1, Var: -1}}
		d.Tasks = append(d.Tasks, t2)
		t3 := mk()
		t3.Deps = []sDep{{Task: 0, Var: -1}, {Task: 2, Var: -1}}
		d.Tasks = append(d.Tasks, t3)
		d.Calls = []int{3}
	}
	return d
}

// genSharedFail: a deduplicated task S whose execution FAILS (own command, or a dependency's exit
// status) is reached both by a call given on the command line and through another task (deps: or a
// task: entry, possibly two levels down).  Which of the callers executes S and which waits is decided
// by the order of the calls (sequential: a tolerant first caller) or by the schedule (--parallel), so
// both dedup shapes of C03's status rule occur: a top-level waiter of an execution started
// indirectly, and an indirect waiter of an execution started at top level.  Every caller must report
// the failure according to how IT was called.
func (c *Ctx) genSharedFail() schedCase {
	r := c.Rng
	mk := func() sTask {
		return sTask{Run: "always", PlatformOk: true, RequiresOk: true, EnumOk: true, PrecondOk: true}
	}
	d := schedCase{Cap: []int{0, 0, 1, 2, 3}[r.Intn(5)], Jitter: []int64{0, 50, 300, 1000}[r.Intn(4)], Seed: r.Int63()}
	code := []int{1, 2, 7, 126, 255, 1 + r.Intn(255)}[r.Intn(6)]
	const S = 0
	s := mk()
	s.Run = []string{"once", "once", "when_changed"}[r.Intn(3)]
	if r.Intn(4) == 0 {
		s.Cmds = append(s.Cmds, sCmd{Call: -1, Var: -1, Deferred: true})
	}
	if r.Intn(2) == 0 {
		s.Cmds = append(s.Cmds, sCmd{Call: -1, Var: -1})
	}
	tasks := []sTask{s}
	add := func(t sTask) int { tasks = append(tasks, t); return len(tasks) - 1 }
	switch r.Intn(4) {
	case 0: // S fails through a dependency's exit status
		f := mk()
		f.Cmds = []sCmd{{Call: -1, Var: -1, Code: code}}
		fi := add(f)
		tasks[S].Deps = []sDep{{Task: fi, Var: -1}}
	case 1: // S fails through a task it calls
		f := mk()
		f.Cmds = []sCmd{{Call: -1, Var: -1, Code: code}}
		fi := add(f)
		tasks[S].Cmds = append(tasks[S].Cmds, sCmd{Call: fi, Var: -1})
	default: // own command
		tasks[S].Cmds = append(tasks[S].Cmds, sCmd{Call: -1, Var: -1, Code: code})
	}
	if r.Intn(3) == 0 {
		tasks[S].Cmds = append(tasks[S].Cmds, sCmd{Call: -1, Var: -1}) // never reached
	}
	// U reaches S through deps: or a task: entry, directly or through a middle task
	via := func(target int, tolerant bool) int {
		u := mk()
		if tolerant || r.Intn(2) == 0 {
			if r.Intn(2) == 0 {
				u.Cmds = append(u.Cmds, sCmd{Call: -1, Var: -1})
			}
			u.Cmds = append(u.Cmds, sCmd{Call: target, Var: -1})
			u.IgnoreError = tolerant
			if r.Intn(2) == 0 {
				u.Cmds = append(u.Cmds, sCmd{Call: -1, Var: -1})
			}
		} else {
			u.Deps = []sDep{{Task: target, Var: -1}}
			if r.Intn(2) == 0 {
				u.Cmds = append(u.Cmds, sCmd{Call: -1, Var: -1})
			}
		}
		return add(u)
	}
	if r.Intn(3) == 0 {
		// sequential: the tolerant caller runs S first (through task: entries only — a dependency's
		// failure cannot be tolerated), then S is named on the command line: a top-level waiter
		u := via(S, true)
		if r.Intn(3) == 0 {
			u = via(u, true)
		}
		d.Calls = []int{u, S}
	} else {
		d.Parallel = true
		u := via(S, false)
		if r.Intn(3) == 0 {
			u = via(u, false)
		}
		d.Calls = [][]int{{u, S}, {S, u}, {S, u, S}, {u, S, u}}[r.Intn(4)]
		if r.Intn(4) == 0 {
			// a second indirect route
			d.Calls = append(d.Calls, via(S, false))
		}
	}
	d.Tasks = tasks
	return d
}

// dedupShapes reports, for the status rule of C03, which dedup shapes with a FAILED shared execution
// the log contains: a top-level waiter of an execution registered by an indirect activation, and an
// indirect waiter of an execution registered by a top-level activation.
func dedupShapes(evs []verifhook.Event) (topOnIndirect, indirectOnTop bool) {
	top := map[int64]bool{}
	reg := map[string]int64{}
	failed := map[int64]bool{}
	for _, e := range evs {
		switch e.Kind {
		case "enter":
			top[e.Act] = e.Args[0] == "top"
		case "register":
			reg[e.Args[0]] = e.Act
		case "cmdEnd":
			a := e.Args
			if len(a) > 0 && a[0] == "deferred" {
				continue
			}
			if len(a) > 1 && a[1] != "ok" {
				failed[e.Act] = true
			}
		case "depsDone":
			if e.Args[0] != "ok" {
				failed[e.Act] = true
			}
		}
	}
	// a failing callee fails its caller only after callReacq; the cmdEnd / depsDone of the registered
	// activation itself is what counts here, plus failures handed up by its own callees
	for _, e := range evs {
		if e.Kind != "waiter" {
			continue
		}
		x, ok := reg[e.Args[0]]
		if !ok {
			continue
		}
		xf := failed[x]
		if !xf {
			// failed through a task: entry? look for a failed kid called by x
			for _, k := range evs {
				if k.Kind == "enter" && k.Args[0] == "call" && k.Args[1] == strconv.FormatInt(x, 10) && failed[k.Act] {
					xf = true
				}
			}
		}
		if !xf {
			continue
		}
		if top[e.Act] && !top[x] {
			topOnIndirect = true
		}
		if !top[e.Act] && top[x] {
			indirectOnTop = true
		}
	}
	return
}

// genCallIgnore: `ignore_error: true` written on a `task:` command whose callee fails (directly,
// one level down, or in a dependency of the callee): the key is not read on task calls, so the
// caller must fail and start no later command.
func (c *Ctx) genCallIgnore() schedCase {
	r := c.Rng
	d := schedCase{Cap: []int{0, 0, 2}[r.Intn(3)], Seed: r.Int63(), Calls: []int{0}}
	mk := func() sTask {
		return sTask{Run: "always", PlatformOk: true, RequiresOk: true, EnumOk: true, PrecondOk: true}
	}
	code := 1 + r.Intn(9)
	t0 := mk()
	if r.Intn(2) == 0 {
		t0.Cmds = append(t0.Cmds, sCmd{Call: -1, Var: -1})
	}
	t0.Cmds = append(t0.Cmds, sCmd{Call: 1, Var: -1, CallIgnore: true}, sCmd{Call: -1, Var: -1})
	t1 := mk()
	switch r.Intn(3) {
	case 0:
		t1.Cmds = []sCmd{{Call: -1, Var: -1, Code: code}}
		d.Tasks = []sTask{t0, t1}
	case 1:
		t1.Cmds = []sCmd{{Call: 2, Var: -1, CallIgnore: r.Intn(2) == 0}, {Call: -1, Var: -1}}
		t2 := mk()
		t2.Cmds = []sCmd{{Call: -1, Var: -1, Code: code}}
		d.Tasks = []sTask{t0, t1, t2}
	default:
		t1.Deps = []sDep{{Task: 2, Var: -1}}
		t1.Cmds = []sCmd{{Call: -1, Var: -1}}
		t2 := mk()
		t2.Cmds = []sCmd{{Call: -1, Var: -1, Code: code}}
		d.Tasks = []sTask{t0, t1, t2}
	}
	return d
}

// decorate: the rendering choices (names) of a generated program.  The abstract program — what the model
// sees — is unchanged: every task may get aliases or become a wildcard task, every reference (command line,
// deps:, task: entries, deferred task calls) picks one of the callee's names at random, and one program in
// four is written into an included Taskfile under names that contain ':' and share their last segment.
func (c *Ctx) decorate(d *schedCase) {
	r := c.Rng
	d.Inc = r.Intn(4) == 0
	for i := range d.Tasks {
		t := &d.Tasks[i]
		switch r.Intn(6) {
		case 0, 1:
			t.Aliases = 1 + r.Intn(2)
		case 2:
			t.Wild = true
		}
		for j := range t.Deps {
			t.Deps[j].Ref = r.Intn(3)
			t.Deps[j].TplName = r.Intn(8) == 0
		}
		for j := range t.Cmds {
			if t.Cmds[j].Call >= 0 {
				t.Cmds[j].Ref = r.Intn(3)
				// a deferred task call is templated when it runs, the others when the task is compiled
				t.Cmds[j].TplName = r.Intn(map[bool]int{true: 3, false: 8}[t.Cmds[j].Deferred]) == 0
			}
		}
		// Src is NOT drawn at present: with several concurrent activations of one fingerprinted task the real code's
		// clean-up (`os.Remove` of a state file another activation has already removed) turns a command failure into a
		// different error, and the log is rejected (two alarms in 17 quick runs over seeds 2–4).  The rendering stays for
		// replays (`"src": true` in a case) and for a generator that restricts it to tasks activated once.
		t.Src = false
		if !t.Watch {
			t.Watch = r.Intn(8) == 0
		}
		if t.EnumKind == 0 && r.Intn(3) == 0 {
			// the checked variable is a YAML number / boolean / arrives as a number in the call
			t.EnumKind = 1 + r.Intn(3)
		}
	}
	d.CallRefs = make([]int, len(d.Calls))
	for k := range d.CallRefs {
		d.CallRefs[k] = r.Intn(3)
	}
}

// passify: what the references of a generated program hand to their callees as V (program data: the model's
// Passes).  A reference that passes nothing so far gets, with probability 1/2, a literal, a variable of the
// referring task or the referrer's own V; a deferred task call may pass the exit code its task ends with.
func (c *Ctx) passify(d *schedCase) {
	r := c.Rng
	pick := func(deferred bool) int {
		switch r.Intn(8) {
		case 0:
			return r.Intn(3)
		case 1:
			return -3
		case 2:
			return -4
		case 3, 4:
			if deferred {
				return -2
			}
		}
		return -1
	}
	for i := range d.Tasks {
		t := &d.Tasks[i]
		for j := range t.Deps {
			if t.Deps[j].Var == -1 {
				t.Deps[j].Var = pick(false)
			}
		}
		for j := range t.Cmds {
			if t.Cmds[j].Call >= 0 && t.Cmds[j].Var == -1 {
				t.Cmds[j].Var = pick(t.Cmds[j].Deferred)
			}
		}
	}
}

// genDeferCall: a task whose body fails with an exit status (or not) has deferred task: entries that hand the
// callee the exit code (`vars: {V: '{{.EXIT_CODE}}'}`), a variable of the deferring task, a literal, its own V,
// or nothing — some with a templated task name; the callee prints what it got.  The callers tolerate the failure
// and call the task again, so the activations of one definition end with different codes.
func (c *Ctx) genDeferCall() schedCase {
	r := c.Rng
	d := schedCase{Cap: []int{0, 0, 1, 2}[r.Intn(4)], Jitter: []int64{0, 0, 200}[r.Intn(3)], Seed: r.Int63(), Calls: []int{0}}
	// t2: the callee of the deferred entries
	callee := mkTask()
	callee.Cmds = []sCmd{shOk()}
	callee.Run = []string{"always", "always", "when_changed", "once"}[r.Intn(4)]
	// t1: the deferring task
	t1 := mkTask()
	for k := 1 + r.Intn(3); k > 0; k-- {
		t1.Cmds = append(t1.Cmds, sCmd{Call: 2, Deferred: true, Var: []int{-2, -2, -3, -4, 0, 1, -1}[r.Intn(7)]})
	}
	if r.Intn(3) == 0 {
		t1.Cmds = append(t1.Cmds, sCmd{Call: -1, Var: -1, Deferred: true})
	}
	t1.Cmds = append(t1.Cmds, shOk())
	code := 1 + r.Intn(9)
	switch r.Intn(4) {
	case 0:
		t1.Cmds = append(t1.Cmds, sCmd{Call: -1, Var: -1, Code: 1000 + code})
	case 1:
		t1.Cmds = append(t1.Cmds, sCmd{Call: -1, Var: -1, Code: 2000 + code})
	case 2:
		t1.Cmds = append(t1.Cmds, sCmd{Call: -1, Var: -1, Code: code})
	default:
		t1.Cmds = append(t1.Cmds, shOk())
	}
	t0 := mkTask()
	t0.IgnoreError = true
	for k := 1 + r.Intn(3); k > 0; k-- {
		t0.Cmds = append(t0.Cmds, sCmd{Call: 1, Var: []int{-1, 0, 1, 2}[r.Intn(4)]})
	}
	d.Tasks = []sTask{t0, t1, callee}
	return d
}

// genOnceGroup: several DIFFERENT deduplicated tasks are reached in one invocation, each from two places
// (dependencies and task: entries of a root and of one another); each must execute — once — on its own.
func (c *Ctx) genOnceGroup() schedCase {
	r := c.Rng
	d := schedCase{Cap: []int{0, 0, 2}[r.Intn(3)], Jitter: []int64{0, 100, 500}[r.Intn(3)], Seed: r.Int63(), Calls: []int{0}}
	k := 2 + r.Intn(3)
	root := mkTask()
	d.Tasks = []sTask{root}
	for i := 1; i <= k; i++ {
		t := mkTask()
		t.Run = []string{"once", "once", "when_changed"}[r.Intn(3)]
		t.Cmds = []sCmd{shOk()}
		if i < k && r.Intn(2) == 0 {
			if r.Intn(2) == 0 {
				t.Deps = []sDep{{Task: i + 1, Var: -1}}
			} else {
				t.Cmds = append(t.Cmds, sCmd{Call: i + 1, Var: -1})
			}
		}
		d.Tasks = append(d.Tasks, t)
	}
	for i := 1; i <= k; i++ {
		if r.Intn(2) == 0 {
			d.Tasks[0].Deps = append(d.Tasks[0].Deps, sDep{Task: i, Var: -1})
		} else {
			d.Tasks[0].Cmds = append(d.Tasks[0].Cmds, sCmd{Call: i, Var: -1})
		}
		if r.Intn(2) == 0 {
			d.Tasks[0].Cmds = append(d.Tasks[0].Cmds, sCmd{Call: i, Var: -1})
		}
	}
	d.Tasks[0].Cmds = append(d.Tasks[0].Cmds, shOk())
	if r.Intn(3) == 0 {
		d.Parallel = true
		d.Calls = []int{0, 1 + r.Intn(k)}
	}
	return d
}

// genManyRefs: acyclic programs in which one task is referred to 1000 times or more: a binary tree of depth 10
// (every level calls the next one twice: 1024 calls of the leaf), one task with 1001 `task:` entries for the same
// callee (written as a `for:` loop), and the same with a run: once callee (999 of the references would only wait).
// MaximumTaskCall counts calls of a task, not the depth of a recursion: the 1000th call ends with 204.
func (c *Ctx) genManyRefs(shape int) (schedCase, string) {
	r := c.Rng
	d := schedCase{Cap: []int{0, 2}[r.Intn(2)], Seed: r.Int63(), Calls: []int{0}, ManyRefs: true}
	switch shape {
	case 0:
		for i := 0; i < 10; i++ {
			t := mkTask()
			t.Cmds = []sCmd{{Call: i + 1, Var: -1}, {Call: i + 1, Var: -1}}
			d.Tasks = append(d.Tasks, t)
		}
		leaf := mkTask()
		leaf.Cmds = []sCmd{shOk()}
		d.Tasks = append(d.Tasks, leaf)
		return d, "binary-tree"
	default:
		t0 := mkTask()
		for i := 0; i < 1001; i++ {
			t0.Cmds = append(t0.Cmds, sCmd{Call: 1, Var: -1})
		}
		t0.Cmds = append(t0.Cmds, shOk())
		t1 := mkTask()
		t1.Cmds = []sCmd{shOk()}
		d.Tasks = []sTask{t0, t1}
		d.Loop = true
		if shape == 2 {
			d.Tasks[1].Run = "once"
			return d, "once-task-1001-references"
		}
		return d, "for-loop-1001"
	}
}

func mkTask() sTask {
	return sTask{Run: "always", PlatformOk: true, RequiresOk: true, EnumOk: true, PrecondOk: true}
}

func shOk() sCmd { return sCmd{Call: -1, Var: -1} }

// genCutShort: the ONE execution of a deduplicated task S is cut short by a cancellation that is local to the
// caller that started it — S is reached (directly or through a middle task) from the dependency group of G, in
// which a sibling dependency F fails at once while S still has commands to run (or has not begun) — the failure
// of G is swallowed by a tolerant ancestor T (`ignore_error: true`, `task: G`), and a caller W OUTSIDE that
// group refers to S too: later (sequential command-line calls, a later command), or concurrently (--parallel
// calls, a sibling dependency).  W's context is alive; it must observe that S's one execution did not succeed.
func (c *Ctx) genCutShort() (schedCase, string) {
	r := c.Rng
	d := schedCase{Cap: []int{0, 0, 0, 2, 3}[r.Intn(5)], Jitter: []int64{0, 50, 300, 1000}[r.Intn(4)], Seed: r.Int63()}
	var tasks []sTask
	add := func(t sTask) int { tasks = append(tasks, t); return len(tasks) - 1 }
	s := mkTask()
	s.Run = []string{"once", "once", "when_changed"}[r.Intn(3)]
	if r.Intn(4) == 0 {
		s.Cmds = append(s.Cmds, sCmd{Call: -1, Var: -1, Deferred: true})
	}
	for k := 3 + r.Intn(3); k > 0; k-- {
		s.Cmds = append(s.Cmds, shOk())
	}
	S := add(s)
	f := mkTask()
	f.Cmds = []sCmd{{Call: -1, Var: -1, Code: 1 + r.Intn(9)}}
	F := add(f)
	// the route from G's dependency group to S
	via := S
	if r.Intn(2) == 0 {
		m := mkTask()
		if r.Intn(2) == 0 {
			m.Deps = []sDep{{Task: S, Var: -1}}
			m.Cmds = []sCmd{shOk()}
		} else {
			m.Cmds = []sCmd{shOk(), {Call: S, Var: -1}, shOk()}
		}
		via = add(m)
	}
	g := mkTask()
	g.Deps = []sDep{{Task: via, Var: -1}, {Task: F, Var: -1}}
	if r.Intn(2) == 0 {
		g.Deps[0], g.Deps[1] = g.Deps[1], g.Deps[0]
	}
	g.Cmds = []sCmd{shOk()}
	G := add(g)
	t := mkTask()
	t.IgnoreError = true
	if r.Intn(2) == 0 {
		t.Cmds = append(t.Cmds, shOk())
	}
	t.Cmds = append(t.Cmds, sCmd{Call: G, Var: -1})
	if r.Intn(2) == 0 {
		t.Cmds = append(t.Cmds, shOk())
	}
	T := add(t)
	// W: outside G's group; it reaches S as a dependency (C01) or through a task: entry (C06), after a few
	// commands of its own or of a middle task so that G's side usually registers S first
	w := mkTask()
	if r.Intn(2) == 0 {
		w.Deps = []sDep{{Task: S, Var: -1}}
		if r.Intn(2) == 0 {
			m := mkTask()
			m.Cmds = []sCmd{shOk(), shOk(), {Call: S, Var: -1}}
			w.Deps = []sDep{{Task: add(m), Var: -1}}
		}
		w.Cmds = []sCmd{shOk()}
	} else {
		for k := 1 + r.Intn(3); k > 0; k-- {
			w.Cmds = append(w.Cmds, shOk())
		}
		w.Cmds = append(w.Cmds, sCmd{Call: S, Var: -1}, shOk())
	}
	W := add(w)
	shape := ""
	switch r.Intn(4) {
	case 0:
		shape = "sequential-calls"
		d.Calls = []int{T, W}
	case 1:
		shape = "later-command"
		root := mkTask()
		root.Cmds = []sCmd{{Call: T, Var: -1}, {Call: W, Var: -1}, shOk()}
		d.Calls = []int{add(root)}
	case 2:
		shape = "parallel-calls"
		d.Parallel = true
		d.Calls = [][]int{{T, W}, {W, T}}[r.Intn(2)]
	default:
		shape = "sibling-deps"
		root := mkTask()
		root.Deps = []sDep{{Task: T, Var: -1}, {Task: W, Var: -1}}
		root.Cmds = []sCmd{shOk()}
		d.Calls = []int{add(root)}
	}
	d.Tasks = tasks
	return d, shape
}

// cutShortSeen: did an activation wait for (or find finished) a deduplicated execution that ended with an error
// while a member of its caller's dependency group had failed — the situation genCutShort aims at?
func cutShortSeen(evs []verifhook.Event) bool {
	reg := map[string]int64{}
	bad := map[int64]bool{}
	for _, e := range evs {
		switch e.Kind {
		case "register":
			reg[e.Args[0]] = e.Act
		case "ctxErr":
			bad[e.Act] = true
		case "cmdEnd":
			a := e.Args
			if len(a) > 0 && a[0] == "deferred" {
				continue
			}
			if len(a) > 1 && a[1] == "ctx" {
				bad[e.Act] = true
			}
		}
	}
	for _, e := range evs {
		if e.Kind == "waiter" {
			if x, ok := reg[e.Args[0]]; ok && bad[x] {
				return true
			}
		}
	}
	return false
}

// genGuards: several guards of ONE task fail at once (each guard outcome drawn independently with
// probability 1/2): the order in which RunTask asks them decides the result (a task excluded by `platforms:`
// is skipped silently whatever else is wrong with it; a missing required variable wins over a value outside
// its enum, both over the call limit, preconditions over status / prompt).  The guarded task is a command-line
// call, a dependency or a task: entry; some are deduplicated.
func (c *Ctx) genGuards() schedCase {
	r := c.Rng
	d := schedCase{Cap: []int{0, 0, 1, 2}[r.Intn(4)], Jitter: []int64{0, 0, 200}[r.Intn(3)], Seed: r.Int63()}
	d.Yes = r.Intn(3) == 0
	if r.Intn(2) == 0 {
		d.Term = true
		d.Answer = []string{"y", "n", "eof"}[r.Intn(3)]
	}
	d.Force = r.Intn(6) == 0
	d.ForceAll = r.Intn(8) == 0
	gt := mkTask()
	gt.PlatformOk = r.Intn(2) == 0
	gt.RequiresOk = r.Intn(2) == 0
	gt.EnumOk = r.Intn(2) == 0
	gt.PrecondOk = r.Intn(2) == 0
	gt.UpToDate = r.Intn(2) == 0
	gt.Prompt = r.Intn(2) == 0
	if r.Intn(2) == 0 {
		gt.CompileErr = 1 + r.Intn(4)
		gt.CompileSrc = r.Intn(2) == 0
	}
	gt.Run = []string{"always", "always", "once", "when_changed"}[r.Intn(4)]
	gt.Cmds = []sCmd{shOk()}
	if r.Intn(3) == 0 {
		gt.Cmds = append([]sCmd{{Call: -1, Var: -1, Deferred: true}}, gt.Cmds...)
	}
	if r.Intn(3) == 0 {
		h := mkTask()
		h.Cmds = []sCmd{shOk()}
		d.Tasks = []sTask{gt, h}
		d.Tasks[0].Deps = []sDep{{Task: 1, Var: -1}}
	} else {
		d.Tasks = []sTask{gt}
	}
	G := 0
	caller := mkTask()
	switch r.Intn(3) {
	case 0:
		d.Calls = []int{G}
		if r.Intn(2) == 0 {
			d.Calls = []int{G, G}
		}
	case 1:
		caller.Deps = []sDep{{Task: G, Var: -1}}
		caller.Cmds = []sCmd{shOk()}
		d.Tasks = append(d.Tasks, caller)
		d.Calls = []int{len(d.Tasks) - 1}
	default:
		caller.Cmds = []sCmd{shOk(), {Call: G, Var: -1}, shOk()}
		if r.Intn(2) == 0 {
			caller.Cmds = append(caller.Cmds, sCmd{Call: G, Var: -1})
		}
		d.Tasks = append(d.Tasks, caller)
		d.Calls = []int{len(d.Tasks) - 1}
	}
	return d
}

// genPromptSlots: tasks whose prompt is confirmed (--yes, or a terminal answering "y") under a concurrency
// limit, with other work competing for the slots: several command-line calls under --parallel, sibling
// dependencies, nested task: calls and dependencies below the prompted task.  A task holds its slot while it
// asks and while its commands run (the bound and the release/acquire pairing are read off the log).
func (c *Ctx) genPromptSlots() schedCase {
	r := c.Rng
	d := schedCase{Cap: 1 + r.Intn(2), Jitter: []int64{0, 100, 500}[r.Intn(3)], Seed: r.Int63()}
	if r.Intn(2) == 0 {
		d.Yes = true
	} else {
		d.Term, d.Answer = true, "y"
	}
	leaf := mkTask()
	leaf.Cmds = []sCmd{shOk()}
	d.Tasks = []sTask{leaf}
	k := 2 + r.Intn(2)
	var tops []int
	for i := 0; i < k; i++ {
		t := mkTask()
		t.Prompt = r.Intn(3) > 0
		t.Cmds = []sCmd{shOk()}
		switch r.Intn(3) {
		case 0:
			t.Cmds = append(t.Cmds, sCmd{Call: 0, Var: -1}, shOk())
		case 1:
			t.Deps = []sDep{{Task: 0, Var: -1}}
		default:
			t.Cmds = append(t.Cmds, shOk())
		}
		d.Tasks = append(d.Tasks, t)
		tops = append(tops, len(d.Tasks)-1)
	}
	if r.Intn(2) == 0 {
		d.Parallel = true
		d.Calls = tops
	} else {
		root := mkTask()
		for _, t := range tops {
			root.Deps = append(root.Deps, sDep{Task: t, Var: -1})
		}
		root.Cmds = []sCmd{shOk()}
		d.Tasks = append(d.Tasks, root)
		d.Calls = []int{len(d.Tasks) - 1}
	}
	return d
}

// valueHits: which kinds of passed values the run's commands showed
func (c *Ctx) valueHits(d schedCase, o schedObs) {
	kindOf := map[int64][2]string{}
	for _, e := range o.events {
		switch e.Kind {
		case "enter":
			kindOf[e.Act] = [2]string{e.Args[0], e.Args[3]}
		case "cmdStart":
			m := vRe.FindStringSubmatch(strings.Join(e.Args, " "))
			if m == nil || m[1] == "" {
				continue
			}
			k := kindOf[e.Act][0]
			switch {
			case strings.HasPrefix(m[1], "L"):
				c.Hit("value:" + k + ":variable-of-the-referrer")
			default:
				c.Hit("value:" + k + ":number")
			}
		}
	}
	for _, t := range d.Tasks {
		for _, cm := range t.Cmds {
			if cm.Call >= 0 && cm.Deferred && cm.TplName {
				c.Hit("render:deferred-call-templated-name")
			}
		}
		if t.EnumKind > 0 {
			c.Hit(fmt.Sprintf("render:enum-kind-%d:ok=%v", t.EnumKind, t.EnumOk))
		}
	}
}

// renderHits: which kinds of names the activations of the run were called by
func (c *Ctx) renderHits(d schedCase, o schedObs) {
	for _, e := range o.events {
		if e.Kind != "enter" {
			continue
		}
		i := taskIndex(e.Args[3])
		if i < 0 || i >= len(d.Tasks) {
			continue
		}
		name := strings.TrimPrefix(e.Args[3], "n:")
		t := d.Tasks[i]
		hasDefer := false
		for _, cm := range t.Cmds {
			if cm.Deferred {
				hasDefer = true
			}
		}
		switch {
		case t.Wild:
			c.Hit("render:called-as-wildcard-match")
			if hasDefer {
				c.Hit("render:task-with-defer-called-as-wildcard-match")
			}
		case name != d.keyName(i):
			c.Hit("render:called-by-alias")
			if hasDefer {
				c.Hit("render:task-with-defer-called-by-alias")
			}
		}
	}
}

func hasCycleThroughDedup(d schedCase) bool {
	// is there a cycle in the call graph containing a once/when_changed task?
	n := len(d.Tasks)
	adj := make([][]int, n)
	for i, t := range d.Tasks {
		for _, dp := range t.Deps {
			adj[i] = append(adj[i], dp.Task)
		}
		for _, c := range t.Cmds {
			if c.Call >= 0 {
				adj[i] = append(adj[i], c.Call)
			}
		}
	}
	reach := func(from, to int) bool {
		seen := make([]bool, n)
		st := append([]int{}, adj[from]...)
		for len(st) > 0 {
			x := st[len(st)-1]
			st = st[:len(st)-1]
			if x == to {
				return true
			}
			if seen[x] {
				continue
			}
			seen[x] = true
			st = append(st, adj[x]...)
		}
		return false
	}
	for i, t := range d.Tasks {
		if t.Run != "always" && reach(i, i) {
			return true
		}
	}
	return false
}

func schedKey(d schedCase, o schedObs) string {
	var b strings.Builder
	b.WriteString(progTokens(d))
	for _, e := range o.events {
		fmt.Fprintf(&b, "|%d%s", e.Act, e.Kind)
	}
	return b.String()
}

func runSched(c *Ctx) {
	if c.Replay(func(raw []byte) (string, string) {
		var d schedCase
		mustJSON(raw, &d)
		cl, il, _ := evalSched(d)
		return cl, il
	}) {
		return
	}
	n := c.Pick(350, 5000)
	sched := c.Pick(2, 4)
	evTotal := 0
	hangs := 0
	for i := 0; i < n; i++ {
		cyclic := i%(c.Pick(400, 250)) == 59
		var d schedCase
		if cyclic {
			d = c.genCycle(false)
		} else if i%(c.Pick(400, 250)) == 159 {
			d = c.genCycle2(false, true)
			cyclic = true
			c.Hit("cycle:watch-ring")
		} else if i%25 == 7 {
			d = c.genBarrier()
			c.Hit("barrier")
		} else if i%20 == 3 {
			d = c.genFlaky()
			c.Hit("flaky-defer")
		} else if i%20 == 13 {
			d = c.genCallIgnore()
			c.Hit("ignore-error-on-task-call")
		} else if i%10 == 5 {
			d = c.genSharedFail()
			c.Hit("stream:shared-fail")
		} else if i%10 == 9 {
			var shape string
			d, shape = c.genCutShort()
			c.Hit("stream:cut-short:" + shape)
		} else if i%20 == 1 {
			d = c.genGuards()
			c.Hit("stream:guard-pairs")
		} else if i%20 == 11 {
			d = c.genPromptSlots()
			c.Hit("stream:prompt-slots")
		} else if i%20 == 17 {
			d = c.genDeferCall()
			c.Hit("stream:defer-call-vars")
		} else if i%20 == 16 {
			d = c.genOnceGroup()
			c.Hit("stream:once-group")
		} else {
			d = c.genSched(c.Pick(7, 10), false)
		}
		if d.Barrier == 0 {
			c.passify(&d)
		}
		c.decorate(&d)
		if i%20 == 16 {
			d.Inc = i%40 == 16 // every other group lives in an included file, under names sharing their last segment
		}
		if cyclic {
			d.Inc = false // 1000 nested calls: keep the case as cheap as it can be
		}
		for s := 0; s < sched && !(cyclic && s > 0); s++ {
			d.Seed = c.Rng.Int63()
			if s > 0 && !cyclic && d.Barrier == 0 {
				d.Jitter = []int64{50, 300, 1000, 3000}[c.Rng.Intn(4)]
			}
			cl, il, o := evalSched(d)
			if o.hang && !d.Hang {
				hangs++
			}
			evTotal += len(o.events)
			kinds := map[string]bool{}
			for _, e := range o.events {
				kinds[e.Kind] = true
			}
			for k := range kinds {
				c.Hit("ev:" + k)
			}
			c.Hit("result:" + strings.SplitN(o.result, ":", 2)[0])
			if a, b := dedupShapes(o.events); a || b {
				if a {
					c.Hit("c03s:top-waiter-of-indirect-exec-failed")
				}
				if b {
					c.Hit("c03s:indirect-waiter-of-top-exec-failed")
				}
			}
			if cyclic {
				c.Hit("cyclic")
			}
			if cutShortSeen(o.events) {
				c.Hit("c06:waiter-of-cut-short-execution")
			}
			if d.Inc {
				c.Hit("render:included-colon-names")
			}
			for _, e := range o.events {
				if e.Kind == "enter" {
					if i := taskIndex(e.Args[3]); i < len(d.Tasks) && d.Tasks[i].CompileErr > 0 && d.Tasks[i].PlatformOk && d.Tasks[i].RequiresOk {
						c.Hit(map[bool]string{true: "compile-error:with-sources", false: "compile-error:without-sources"}[d.Tasks[i].CompileSrc])
					}
				}
			}
			c.renderHits(d, o)
			c.valueHits(d, o)
			if maxAlive(o.events) >= 2 || kinds["waiter"] || kinds["precondFail"] || kinds["promptFail"] || kinds["upToDate"] || o.result != "ok" {
				c.Distinct(schedKey(d, o))
			}
			c.Emit(cl, il, d)
		}
		if hangs >= 3 {
			// every hanging case costs the full time-out: three unexpected hangs are verdict enough
			// (each is reported with its replay); stop generating so that the check ends in time
			c.Hit("stopped-after-3-hangs")
			break
		}
	}
	// reference cycles through run: once / when_changed tasks: the wait that would close the cycle is refused
	for i := 0; i < c.Pick(9, 60) && hangs < 3; i++ {
		d, shape := c.genDedupCycle(i % 3)
		c.decorate(&d)
		cl, il, o := evalSched(d)
		if o.hang {
			hangs++
		}
		evTotal += len(o.events)
		c.Hit("stream:dedup-cycle:" + shape)
		c.Hit("dedup-cycle:result:" + o.result)
		nCut := 0
		kinds := map[string]bool{}
		for _, e := range o.events {
			if e.Kind == "waitCycle" {
				nCut++
			}
			kinds[e.Kind] = true
		}
		for k := range kinds {
			c.Hit("ev:" + k)
		}
		if nCut > 1 {
			c.Hit("dedup-cycle:several-refused-waits")
		}
		c.Distinct(schedKey(d, o))
		c.Emit(cl, il, d)
	}
	// acyclic programs with >= 1000 references to one task (open finding: the call limit hits them)
	// (quick tier: the cheap shape only — the run: once callee; the tree and the loop take 10–20 s each)
	for i := 0; i < c.Pick(1, 6) && hangs < 3; i++ {
		d, shape := c.genManyRefs((i + 2) % 3)
		cl, il, o := evalSched(d)
		if o.hang {
			hangs++
		}
		evTotal += len(o.events)
		c.Hit("stream:many-refs:" + shape)
		c.Hit("many-refs:result:" + o.result)
		c.Distinct(schedKey(d, o))
		c.Emit(cl, il, d)
	}
	c.Extra["events_total"] = evTotal
	ks := make([]string, 0)
	for k := range c.Feat {
		ks = append(ks, k)
	}
	sort.Strings(ks)
}
