package main

import (
	"bufio"
	"encoding/hex"
	"encoding/json"
	"fmt"
	"math/rand"
	"os"
	"path/filepath"
	"sort"
	"strings"
)

// Ctx is what every correspondence domain gets: one PRNG (all randomness derives
// from VERIF_SEED), the tier, an output directory, and counters for the evidence.
type Ctx struct {
	Rng     *rand.Rand
	Seed    int64
	Tier    string
	Out     string
	cases   *bufio.Writer
	impl    *bufio.Writer
	meta    *bufio.Writer
	N       int
	Feat    map[string]int
	distinct map[string]bool
	Samples []any
	Extra   map[string]any
}

func (c *Ctx) Thorough() bool { return c.Tier == "thorough" }

// Pick returns q for the quick tier and t for the thorough tier.
func (c *Ctx) Pick(q, t int) int {
	if c.Thorough() {
		return t
	}
	return q
}

// Emit records one case: the line for the Lean driver, what the implementation
// answered (same syntax as the driver's answer), and a human-readable description.
func (c *Ctx) Emit(caseLine, implLine string, desc any) {
	fmt.Fprintln(c.cases, caseLine)
	fmt.Fprintln(c.impl, implLine)
	b, _ := json.Marshal(desc)
	fmt.Fprintln(c.meta, string(b))
	c.N++
	if len(c.Samples) < 5 {
		c.Samples = append(c.Samples, map[string]any{"case": desc, "impl": implLine})
	}
}

func (c *Ctx) Hit(f string) { c.Feat[f]++ }

// Distinct marks a non-trivial case by its canonical key.
func (c *Ctx) Distinct(key string) { c.distinct[key] = true }

func hx(s string) string {
	if s == "" {
		return "-"
	}
	return hex.EncodeToString([]byte(s))
}

func b2s(b bool) string {
	if b {
		return "1"
	}
	return "0"
}

func hxs(ss []string) string {
	out := make([]string, len(ss))
	for i, s := range ss {
		out[i] = hx(s)
	}
	return strings.Join(out, " ")
}

func (c *Ctx) finish(domain string, rule string) {
	c.cases.Flush()
	c.impl.Flush()
	c.meta.Flush()
	feats := map[string]int{}
	keys := make([]string, 0, len(c.Feat))
	for k := range c.Feat {
		keys = append(keys, k)
	}
	sort.Strings(keys)
	for _, k := range keys {
		feats[k] = c.Feat[k]
	}
	st := map[string]any{
		"domain": domain, "seed": c.Seed, "tier": c.Tier,
		"evaluations": c.N, "distinct_nontrivial": len(c.distinct),
		"rule": rule, "features": feats, "samples": c.Samples,
	}
	for k, v := range c.Extra {
		st[k] = v
	}
	b, _ := json.MarshalIndent(st, "", " ")
	os.WriteFile(filepath.Join(c.Out, "stats.json"), b, 0o644)
}

func newCtx(seed int64, tier, out string) *Ctx {
	os.MkdirAll(out, 0o755)
	mk := func(n string) *bufio.Writer {
		f, err := os.Create(filepath.Join(out, n))
		if err != nil {
			panic(err)
		}
		return bufio.NewWriterSize(f, 1<<20)
	}
	return &Ctx{Rng: rand.New(rand.NewSource(seed)), Seed: seed, Tier: tier, Out: out,
		cases: mk("cases.txt"), impl: mk("impl.txt"), meta: mk("meta.jsonl"),
		Feat: map[string]int{}, distinct: map[string]bool{}, Extra: map[string]any{}}
}

func mustJSON(raw []byte, v any) {
	if err := json.Unmarshal(raw, v); err != nil {
		panic(err)
	}
}

// Replay: when -replay FILE is given, FILE holds JSON case descriptions (one per
// line, or a replay file with a "case" member); each is re-evaluated on the
// implementation instead of generating new cases.
func (c *Ctx) Replay(eval func(raw []byte) (string, string)) bool {
	p, _ := c.Extra["replay"].(string)
	if p == "" {
		return false
	}
	data, err := os.ReadFile(p)
	if err != nil {
		panic(err)
	}
	var one struct {
		Case json.RawMessage `json:"case"`
	}
	if json.Unmarshal(data, &one) == nil && len(one.Case) > 0 {
		cl, il := eval(one.Case)
		c.Emit(cl, il, json.RawMessage(one.Case))
		return true
	}
	for _, ln := range strings.Split(string(data), "\n") {
		ln = strings.TrimSpace(ln)
		if ln == "" {
			continue
		}
		cl, il := eval([]byte(ln))
		c.Emit(cl, il, json.RawMessage(ln))
	}
	return true
}
