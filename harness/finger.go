package main

// Finger domains (C04, C05, C12): the fingerprint / up-to-date machinery.
//
//	globs            fingerprint.Globs in-process: per-pattern match sets come from the real
//	                 function run on each pattern alone; the COMBINATION (order, excludes,
//	                 sorting) is compared with TaskModel.Finger.globs.
//	fingerhist-cXX   histories of file operations and CLI invocations driven through the real
//	                 `task` binary; per step the exit class, the commands that ran (trace
//	                 file), the up_to_date bits of --list --json and a snapshot of the project
//	                 tree including .task are compared with TaskModel.Finger.invoke; in
//	                 addition the property's own monitor (C04: skip ⇒ goodRun, C05: change ⇒
//	                 rerun / idempotence, C12: read-only ⇒ tree unchanged and H;R;K ≈ H;K) is
//	                 evaluated on the REAL observations and emitted as `finger.mon` lines, which
//	                 the model answers with `ok`.

import (
	"bytes"
	"context"
	"encoding/binary"
	"encoding/hex"
	"encoding/json"
	"fmt"
	"os"
	"os/exec"
	"path/filepath"
	"sort"
	"strconv"
	"strings"
	"sync"
	"syscall"
	"time"
	"unsafe"

	"github.com/zeebo/xxh3"

	"github.com/go-task/task/v3/taskfile/ast"
	"github.com/go-task/task/v3/verifhook/export"
)

func init() {
	domains["globs"] = domain{runGlobs,
		"random trees (3 directory levels, extensions .e/.x/.txt) and lists of 1–5 glob/exclude entries drawn from literal, " +
			"*.e, d/*, **/*.e, brace and malformed patterns; match set of each pattern = real Globs on that pattern alone; " +
			"non-trivial = at least one exclude entry removes or a later include re-adds a path; distinct by (tree, pattern list)"}
	rule := "task shapes (sources with excludes, generates, status, method checksum|timestamp|none, label, one include namespace, prompt, dir) × " +
		"histories of file operations (write/touch with explicit mtimes, delete, move between directories, rename, rmdir) and CLI invocations " +
		"(run, --force, --dry, --status, --list-all --json, --list-all, --summary; --yes or declined prompt; a command failing at position k; " +
		"a command that is a `task:` call of a helper with a `test -f` precondition, failing — also under --dry — while the file is missing; " +
		"SIGKILL at a command boundary); c04: twin tasks with the same display name (equal labels, a label equal to the other's name) run one after the other; " +
		"c05: boundary-shift pairs (a rename plus an edit that moves bytes between a file's name and the content next to it, also across two adjacent files) " +
		"between two runs; c04/c05: sources reached through SYMBOLIC LINKS (a matched path that is a link to a file outside the project, files below a directory " +
		"that is a link; edits and touches go to the target, the link keeps its old mtime), as a rendering choice of any case and as a directed stream; " +
		"c04: a run CANCELLED BY A FAILING SIBLING between the up-to-date check and the first command (parent with deps [failing task, this task], the task's " +
		"status command waits on a gate file until the sibling is about to fail); c04: a SECOND ACTIVATION of the same task in one invocation, checking while the " +
		"first is inside its first command; c04/c05: `ignore_error` on tasks and commands, brace patterns, dangling links next to the sources, generates entries " +
		"`${G:?}/…` with invocations that do not set G (an error of the check); all: `silent: true` on commands / task: calls / tasks / the Taskfile and " +
		"--silent on --dry / --status / --summary as rendering choices (silence never changes what runs); non-trivial = history with at least one skip, failure, kill or declined prompt; distinct by case"
	domains["fingerhist-c04"] = domain{func(c *Ctx) { runFingerHist(c, "c04") }, rule}
	domains["fingerhist-c05"] = domain{func(c *Ctx) { runFingerHist(c, "c05") }, rule}
	domains["fingerhist-c12"] = domain{func(c *Ctx) { runFingerHist(c, "c12") }, rule}
}

// ---------------------------------------------------------------------------- common

type fhGlob struct {
	Glob string `json:"glob"`
	Neg  bool   `json:"neg,omitempty"`
	// Tmpl: the entry is written as a template over a task variable holding the pattern
	// (`'{{.GVk}}'`): what counts is the compiled pattern, so the model is the same
	Tmpl bool `json:"tmpl,omitempty"`
}

func fingerWork() string {
	w := os.Getenv("VERIF_SCRATCH")
	if w == "" {
		w = filepath.Join(os.TempDir(), "verif-finger")
	}
	os.MkdirAll(w, 0o755)
	return w
}

// replayCases returns the JSON case descriptions of a -replay file (one per line, or a
// replay file with a "case" member), or nil when not replaying.
func replayCases(c *Ctx) ([]json.RawMessage, bool) {
	p, _ := c.Extra["replay"].(string)
	if p == "" {
		return nil, false
	}
	data, err := os.ReadFile(p)
	if err != nil {
		panic(err)
	}
	var one struct {
		Case json.RawMessage `json:"case"`
	}
	if json.Unmarshal(data, &one) == nil && len(one.Case) > 0 {
		return []json.RawMessage{one.Case}, true
	}
	var out []json.RawMessage
	for _, ln := range strings.Split(string(data), "\n") {
		ln = strings.TrimSpace(ln)
		if ln != "" {
			out = append(out, json.RawMessage(ln))
		}
	}
	return out, true
}

func realGlobs(dir string, gs []fhGlob) ([]string, error) {
	ag := make([]*ast.Glob, len(gs))
	for i, g := range gs {
		ag[i] = &ast.Glob{Glob: g.Glob, Negate: g.Neg}
	}
	return export.FingerprintGlobs(dir, ag)
}

func relTo(root, p string) string {
	r, err := filepath.Rel(root, p)
	if err != nil {
		return p
	}
	return filepath.ToSlash(r)
}

func idList(ids []int) string {
	ss := make([]string, len(ids))
	for i, x := range ids {
		ss[i] = strconv.Itoa(x)
	}
	return strings.Join(ss, " ")
}

// ---------------------------------------------------------------------------- globs

type globsCase struct {
	Files []string `json:"files"`
	Pats  []fhGlob `json:"pats"`
}

var globsSeq int64
var globsMu sync.Mutex

func evalGlobs(d globsCase) (cl, il string) {
	defer func() {
		if r := recover(); r != nil {
			il = "panic"
		}
	}()
	globsMu.Lock()
	globsSeq++
	root := filepath.Join(fingerWork(), fmt.Sprintf("g%d", globsSeq))
	globsMu.Unlock()
	os.RemoveAll(root)
	defer os.RemoveAll(root)
	files := append([]string{}, d.Files...)
	sort.Strings(files)
	id := map[string]int{}
	for i, f := range files {
		id[f] = i
		os.MkdirAll(filepath.Dir(filepath.Join(root, f)), 0o755)
		os.WriteFile(filepath.Join(root, f), []byte("x"), 0o644)
	}
	os.MkdirAll(root, 0o755)
	toIDs := func(ps []string) []int {
		out := make([]int, len(ps))
		for i, p := range ps {
			if v, ok := id[relTo(root, p)]; ok {
				out[i] = v
			} else {
				out[i] = 100000 + i // not a file of the tree: cannot agree with the model
			}
		}
		return out
	}
	var sb strings.Builder
	fmt.Fprintf(&sb, "finger.globs %d", len(d.Pats))
	for _, g := range d.Pats {
		ms, _ := realGlobs(root, []fhGlob{{Glob: g.Glob}})
		ids := toIDs(ms)
		fmt.Fprintf(&sb, " %s %d", b2s(g.Neg), len(ids))
		if len(ids) > 0 {
			sb.WriteString(" " + idList(ids))
		}
	}
	all, err := realGlobs(root, d.Pats)
	if err != nil {
		return sb.String(), "error"
	}
	if len(all) == 0 {
		return sb.String(), "-"
	}
	return sb.String(), idList(toIDs(all))
}

var globDirs = []string{"", "d/", "e/", "d/s/"}
var globNames = []string{"a.e", "b.e", "c.e", "a.x", "b.x", "n.txt", "ab.e"}
var globPats = []string{"a.e", "d/a.e", "*.e", "*.x", "d/*", "e/*", "**/*.e", "**/a.*", "{a,b}.e", "d/{a,c}.e", "*", "**/*", "d/s/*",
	"{*.e,*.x}", "?.e", "[ab].e", "d/**", "nope.e", "d", "[", "", "a*.e", "./a.e", "d/../a.e"}

func runGlobs(c *Ctx) {
	if cs, ok := replayCases(c); ok {
		for _, raw := range cs {
			var d globsCase
			mustJSON(raw, &d)
			cl, il := evalGlobs(d)
			c.Emit(cl, il, raw)
		}
		return
	}
	n := c.Pick(3000, 40000)
	for i := 0; i < n; i++ {
		var d globsCase
		seen := map[string]bool{}
		for k := 1 + c.Rng.Intn(7); k > 0; k-- {
			f := globDirs[c.Rng.Intn(len(globDirs))] + globNames[c.Rng.Intn(len(globNames))]
			if !seen[f] {
				seen[f] = true
				d.Files = append(d.Files, f)
			}
		}
		sort.Strings(d.Files)
		for k := 1 + c.Rng.Intn(5); k > 0; k-- {
			var g string
			if c.Rng.Intn(4) == 0 {
				g = d.Files[c.Rng.Intn(len(d.Files))]
			} else {
				g = globPats[c.Rng.Intn(len(globPats))]
			}
			d.Pats = append(d.Pats, fhGlob{Glob: g, Neg: len(d.Pats) > 0 && c.Rng.Intn(5) < 2 || c.Rng.Intn(12) == 0})
		}
		cl, il := evalGlobs(d)
		// non-trivial: some pattern's matches are not simply unioned
		hasNeg := false
		for _, g := range d.Pats {
			if g.Neg {
				hasNeg = true
			}
		}
		if hasNeg {
			c.Hit("globs:with-exclude")
			if il != "-" && il != "error" {
				c.Distinct(cl)
			}
		} else {
			c.Hit("globs:include-only")
		}
		if il == "-" {
			c.Hit("globs:empty-result")
		}
		c.Emit(cl, il, d)
	}
}

// ---------------------------------------------------------------------------- fingerhist: case description

type fhWrite struct {
	Path    string `json:"path"` // relative to the project root
	Content string `json:"content"`
}

type fhCmd struct {
	Writes []fhWrite `json:"writes,omitempty"`
	// Need != "": the command is a `task:` CALL of a helper task whose precondition is `test -f <Need>`
	// (path relative to the project root) and whose single command is this one.  The call fails before
	// anything runs when the file is missing — also under --dry, where preconditions are still evaluated.
	Need string `json:"need,omitempty"`
	// RENDERING only (no effect on what runs, not part of the case line): the command — or the `task:`
	// call — carries `silent: true`
	Silent bool `json:"silent,omitempty"`
	// `ignore_error: true` on the command (the code honours it for plain commands only, not for `task:` calls)
	IgnoreError bool `json:"ignore_error,omitempty"`
}

type fhTask struct {
	Name      string   `json:"name"`  // full name; "ns:x" = task x of the included file (namespace ns)
	Label     string   `json:"label,omitempty"`
	Method    string   `json:"method,omitempty"` // "", checksum, timestamp, none
	Dir       string   `json:"dir,omitempty"`
	Prompt    bool     `json:"prompt,omitempty"`
	Sources   []fhGlob `json:"sources,omitempty"`   // relative to the task dir
	Generates []fhGlob `json:"generates,omitempty"` // relative to the task dir
	Status    []string `json:"status,omitempty"`    // files tested with `test -f`, relative to the project root
	Cmds      []fhCmd  `json:"cmds"`
	Silent    bool     `json:"silent,omitempty"` // RENDERING only: `silent: true` on the task
	// `ignore_error: true` on the task: a command or call that ends with a failing exit status is skipped over
	IgnoreError bool `json:"ignore_error,omitempty"`
	// indices of the generates entries written `${G:?}/<glob>`: expanding them is an error while the
	// environment variable G is not set (step flag `no_g`); method checksum only
	GGuard []int `json:"gguard,omitempty"`
}

type fhStep struct {
	Kind    string `json:"kind"` // inv | write | touch | delete | move | rmdir
	Task    int    `json:"task,omitempty"`
	Mode    string `json:"mode,omitempty"` // run force dry status listjson list summary
	Now     int64  `json:"now,omitempty"`
	Yes     bool   `json:"yes,omitempty"`
	Fail    int    `json:"fail"` // command index, -1 = none
	Kill    int    `json:"kill"`
	Path    string `json:"path,omitempty"`
	To      string `json:"to,omitempty"`
	Content string `json:"content,omitempty"`
	Mtime   int64  `json:"mtime,omitempty"`
	Dir     string `json:"dir,omitempty"`
	Silent  bool   `json:"silent,omitempty"` // RENDERING only: the invocation gets `--silent`
	// Sib (mode run, a task with sources AND status): the task runs as a DEPENDENCY of a parent next to a
	// sibling that fails while this task's `status:` commands are running (they wait on a gate file the
	// sibling creates just before it exits 1): cancelled between the up-to-date check and the first command
	Sib bool `json:"sib,omitempty"`
	// NoG: the environment variable G is NOT set in this invocation (entries `${G:?}/…` cannot be expanded)
	NoG bool `json:"no_g,omitempty"`
	// Twin (mode run, a task with sources and WITHOUT status / generates): the task runs as a dependency of a
	// parent next to a sibling that CALLS THE SAME TASK again while the first activation is inside its first
	// command (no `run: once`): the second activation's up-to-date check sees what the first's check recorded
	Twin bool `json:"twin,omitempty"`
}

// The fields below `Steps` are RENDERING choices: they change how the abstract case is laid out on
// disk / written as YAML, never the case line the model sees.
//
//	LinkFiles  root-relative paths that exist as SYMBOLIC LINKS to regular files kept outside the project
//	           (<work>/shared/…): content and mtime of the path are those of the target; writes and touches
//	           go to the target, delete / move act on the link (whose own mtime is the logical time 0)
//	LinkDirs   root-relative directories created as symbolic links to directories outside the project
//	           (the real expander follows them, also below `**`)
//	SilentFile `silent: true` at the top of the root Taskfile
//	Dangling   root-relative paths OUTSIDE the universe of the case that exist, from the start, as symbolic
//	           links to nothing: a glob expands to them, but they are no files (not matched, not in the snapshot)
type fhCase struct {
	Tasks      []fhTask `json:"tasks"`
	Steps      []fhStep `json:"steps"`
	LinkFiles  []string `json:"link_files,omitempty"`
	LinkDirs   []string `json:"link_dirs,omitempty"`
	SilentFile bool     `json:"silent_file,omitempty"`
	Dangling   []string `json:"dangling,omitempty"`
}

var fhModes = map[string]int{"run": 0, "force": 1, "dry": 2, "status": 3, "listjson": 4, "list": 5, "summary": 6}

func fhReadOnly(m string) bool { return m != "run" && m != "force" }

const fhEpoch = int64(1_000_000_000) // logical time 0 = 2001-09-09; every explicit mtime is fhEpoch + logical

// ---------------------------------------------------------------------------- fingerhist: evaluation

type fhAttempt struct {
	task  int
	fp    string // hex of what the code hashes: the stream (names relative to the task dir + contents) and its length table
	ideal string // relative paths + contents
	flat  string // the names and contents back to back (the un-delimited stream)
	time  int64
	ok    bool
	step  int
	exit  string
}

type fhRun struct {
	d       fhCase
	root    string
	work    string
	bin     string
	paths   []string
	pid     map[string]int
	dirs    []string
	did     map[string]int
	dict    map[string]string // stored checksum → hex of the stream and the length table it is the hash of
	log     []fhAttempt
	writer  map[string]int // "C"+key / "M"+key → step that last changed it
	obsExit []string
	segs    []string
	skips   []bool
	rans    [][]int
	gbits   []bool
	viol    []fhViol
	err     string
	linkF   map[string]bool // root-relative paths rendered as symbolic links to files
	linkD   map[string]bool // root-relative directories rendered as symbolic links
	nShared int
	dangling map[string]bool // root-relative paths that are links to nothing (a rendering choice)
}

type fhViol struct {
	prop string
	step int
	task int
	text string
}

func (r *fhRun) taskDirAbs(t fhTask) string { return filepath.Join(r.root, t.Dir) }

func fhUniverse(d fhCase) (paths []string, dirs []string) {
	ps := map[string]bool{}
	ds := map[string]bool{}
	for _, t := range d.Tasks {
		if t.Dir != "" {
			ds[t.Dir] = true
		}
		for _, s := range t.Status {
			ps[s] = true
		}
		for _, c := range t.Cmds {
			for _, w := range c.Writes {
				ps[w.Path] = true
			}
			if c.Need != "" {
				ps[c.Need] = true
			}
		}
	}
	for _, s := range d.Steps {
		if s.Path != "" {
			ps[s.Path] = true
		}
		if s.To != "" {
			ps[s.To] = true
		}
		if s.Kind == "rmdir" && s.Dir != "" {
			ds[s.Dir] = true
		}
	}
	for p := range ps {
		paths = append(paths, p)
	}
	for x := range ds {
		dirs = append(dirs, x)
	}
	sort.Strings(paths)
	sort.Strings(dirs)
	return
}

func (r *fhRun) dirOf(p string) int {
	for i, d := range r.dirs {
		if strings.HasPrefix(p, d+"/") {
			return i
		}
	}
	return -1
}

func yamlQ(s string) string { return "'" + strings.ReplaceAll(s, "'", "''") + "'" }

func (r *fhRun) writeTaskfiles() {
	var rootB, incB strings.Builder
	rootB.WriteString("version: '3'\n")
	if r.d.SilentFile {
		rootB.WriteString("silent: true\n")
	}
	incB.WriteString("version: '3'\ntasks:\n")
	ns := ""
	for _, t := range r.d.Tasks {
		if i := strings.Index(t.Name, ":"); i > 0 {
			ns = t.Name[:i]
		}
	}
	if ns != "" {
		fmt.Fprintf(&rootB, "includes:\n  %s: ./Inc.yml\n", yamlQ(ns))
	}
	rootB.WriteString("tasks:\n")
	nRoot := 0
	for i, t := range r.d.Tasks {
		b := &rootB
		name := t.Name
		if j := strings.Index(t.Name, ":"); j > 0 {
			b = &incB
			name = t.Name[j+1:]
		} else {
			nRoot++
		}
		fmt.Fprintf(b, "  %s:\n    desc: 't%d'\n", yamlQ(name), i)
		if t.Label != "" {
			fmt.Fprintf(b, "    label: %s\n", yamlQ(t.Label))
		}
		if t.Method != "" {
			fmt.Fprintf(b, "    method: %s\n", t.Method)
		}
		if t.Dir != "" {
			fmt.Fprintf(b, "    dir: %s\n", yamlQ(t.Dir))
		}
		if t.Prompt {
			b.WriteString("    prompt: 'continue?'\n")
		}
		if t.Silent {
			b.WriteString("    silent: true\n")
		}
		if t.IgnoreError {
			b.WriteString("    ignore_error: true\n")
		}
		// patterns given through task variables
		nv := 0
		for _, gs := range [][]fhGlob{t.Sources, t.Generates} {
			for _, g := range gs {
				if g.Tmpl {
					if nv == 0 {
						b.WriteString("    vars:\n")
					}
					fmt.Fprintf(b, "      GV%d: %s\n", nv, yamlQ(g.Glob))
					nv++
				}
			}
		}
		nv = 0
		for _, kv := range []struct {
			k  string
			gs []fhGlob
		}{{"sources", t.Sources}, {"generates", t.Generates}} {
			if len(kv.gs) == 0 {
				continue
			}
			fmt.Fprintf(b, "    %s:\n", kv.k)
			for gi, g := range kv.gs {
				txt := yamlQ(g.Glob)
				if kv.k == "generates" && !g.Tmpl {
					for _, x := range t.GGuard {
						if x == gi {
							txt = yamlQ("${G:?}/" + g.Glob)
						}
					}
				}
				if g.Tmpl {
					txt = fmt.Sprintf("'{{.GV%d}}'", nv)
					nv++
				}
				if g.Neg {
					fmt.Fprintf(b, "      - exclude: %s\n", txt)
				} else {
					fmt.Fprintf(b, "      - %s\n", txt)
				}
			}
		}
		if len(t.Status) > 0 {
			b.WriteString("    status:\n")
			for k, s := range t.Status {
				if k == 0 {
					// with $GATE set (a `Sib` step): tell the sibling we are here, wait until it is about to fail,
					// then keep busy until the cancellation arrives
					fmt.Fprintf(b, "      - |\n        if [ -n \"$GATE\" ]; then : > \"$GATE.ready\"; while [ ! -f \"$GATE\" ]; do sleep 0.05; done; sleep 5; fi\n        test -f \"$R/%s\"\n", s)
					continue
				}
				fmt.Fprintf(b, "      - test -f \"$R/%s\"\n", s)
			}
		}
		b.WriteString("    cmds:\n")
		body := func(k int, c fhCmd, indent string) {
			switch {
			case c.Need == "" && c.Silent && c.IgnoreError:
				fmt.Fprintf(b, "%s- silent: true\n%s  ignore_error: true\n%s  cmd: |\n", indent, indent, indent)
				indent += "  "
			case c.Need == "" && c.Silent:
				fmt.Fprintf(b, "%s- silent: true\n%s  cmd: |\n", indent, indent)
				indent += "  "
			case c.Need == "" && c.IgnoreError:
				fmt.Fprintf(b, "%s- ignore_error: true\n%s  cmd: |\n", indent, indent)
				indent += "  "
			default:
				fmt.Fprintf(b, "%s- |\n", indent)
			}
			if k == 0 {
				// a `Twin` step ($TWIN set): the FIRST activation (it wins the mkdir) tells the sibling it is inside
				// its first command and waits until the second activation has come and gone
				fmt.Fprintf(b, "%s  if [ -n \"$TWIN\" ] && mkdir \"$TWIN.lock\" 2>/dev/null; then : > \"$TWIN.ready\"; n=0; while [ ! -f \"$TWIN.go\" ] && [ $n -lt 200 ]; do sleep 0.05; n=$((n+1)); done; fi\n", indent)
			}
			fmt.Fprintf(b, "%s  if [ \"$KILL_AT\" = \"%d\" ]; then sh -c 'kill -KILL $PPID'; sleep 30; fi\n", indent, k)
			fmt.Fprintf(b, "%s  printf '%%s\\n' %d >> \"$TRACE\"\n", indent, k)
			fmt.Fprintf(b, "%s  if [ \"$FAIL_AT\" = \"%d\" ]; then exit 1; fi\n", indent, k)
			for _, w := range c.Writes {
				fmt.Fprintf(b, "%s  printf '%%s' '%s' > \"$R/%s\"\n", indent, w.Content, w.Path)
			}
		}
		for k, c := range t.Cmds {
			if c.Need != "" {
				fmt.Fprintf(b, "      - task: zh%d-%d\n", i, k)
				if c.Silent {
					b.WriteString("        silent: true\n")
				}
				if c.IgnoreError {
					b.WriteString("        ignore_error: true\n")
				}
				continue
			}
			body(k, c, "      ")
		}
		// the parent and the failing sibling of a `Sib` step: same file as the task
		if len(t.Status) > 0 && len(t.Sources) > 0 {
			fmt.Fprintf(b, "  zs%d:\n    deps: [zf%d, %s]\n", i, i, yamlQ(name))
			fmt.Fprintf(b, "  zf%d:\n    cmds:\n      - |\n        n=0; while [ ! -f \"$GATE.ready\" ] && [ $n -lt 200 ]; do sleep 0.05; n=$((n+1)); done\n        : > \"$GATE\"; exit 1\n", i)
		}
		// the parent and the sibling of a `Twin` step: the sibling waits until the first activation is inside its
		// first command, calls the task again, and lets the first activation go on
		if len(t.Sources) > 0 && len(t.Status) == 0 && len(t.Generates) == 0 {
			fmt.Fprintf(b, "  zt%d:\n    deps: [%s, zd%d]\n", i, yamlQ(name), i)
			fmt.Fprintf(b, "  zd%d:\n    cmds:\n      - |\n        n=0; while [ ! -f \"$TWIN.ready\" ] && [ $n -lt 200 ]; do sleep 0.05; n=$((n+1)); done\n      - task: %s\n      - ': > \"$TWIN.go\"'\n", i, yamlQ(name))
		}
		// the helpers of the `task:` calls: same file (a call inside an included file names a task of
		// that file), internal, no sources / dir / prompt: precondition, then the command itself
		for k, c := range t.Cmds {
			if c.Need == "" {
				continue
			}
			fmt.Fprintf(b, "  zh%d-%d:\n    internal: true\n    preconditions:\n      - test -f \"$R/%s\"\n    cmds:\n", i, k, c.Need)
			body(k, c, "      ")
		}
	}
	if nRoot == 0 {
		rootB.WriteString("  zz-unused:\n    internal: true\n    cmds: ['true']\n")
	}
	os.WriteFile(filepath.Join(r.root, "Taskfile.yml"), []byte(rootB.String()), 0o644)
	if ns != "" {
		os.WriteFile(filepath.Join(r.root, "Inc.yml"), []byte(incB.String()), 0o644)
	}
}

// static match sets: every path of the universe exists in a shadow tree; the real expander
// is run on each pattern alone.
func (r *fhRun) staticMatches() (src, gen [][][]int) {
	shadow := filepath.Join(r.work, "shadow")
	for _, p := range r.paths {
		os.MkdirAll(filepath.Dir(filepath.Join(shadow, p)), 0o755)
		os.WriteFile(filepath.Join(shadow, p), nil, 0o644)
	}
	for _, d := range r.dirs {
		os.MkdirAll(filepath.Join(shadow, d), 0o755)
	}
	one := func(t fhTask, gs []fhGlob) [][]int {
		out := make([][]int, len(gs))
		for i, g := range gs {
			ms, _ := realGlobs(filepath.Join(shadow, t.Dir), []fhGlob{{Glob: g.Glob}})
			for _, m := range ms {
				if id, ok := r.pid[relTo(shadow, m)]; ok {
					out[i] = append(out[i], id)
				} else {
					r.err = "shadow match outside universe: " + m
				}
			}
		}
		return out
	}
	for _, t := range r.d.Tasks {
		src = append(src, one(t, t.Sources))
		gen = append(gen, one(t, t.Generates))
	}
	return
}

func (r *fhRun) caseLine(src, gen [][][]int) string {
	var sb strings.Builder
	fmt.Fprintf(&sb, "finger.hist %d", len(r.paths))
	for _, p := range r.paths {
		fmt.Fprintf(&sb, " %s %d", hx(p), r.dirOf(p)+1) // the slash path relative to the project root
	}
	fmt.Fprintf(&sb, " %d", len(r.dirs))
	for _, d := range r.dirs {
		fmt.Fprintf(&sb, " %d", len(d)+1) // length of the prefix "<dir>/" the name of a source of a task in <dir> loses
	}
	fmt.Fprintf(&sb, " %d", len(r.d.Tasks))
	pats := func(gs []fhGlob, ms [][]int) {
		fmt.Fprintf(&sb, " %d", len(gs))
		for i, g := range gs {
			fmt.Fprintf(&sb, " %s %d", b2s(g.Neg), len(ms[i]))
			for _, id := range ms[i] {
				fmt.Fprintf(&sb, " %d", id)
			}
		}
	}
	for i, t := range r.d.Tasks {
		m := 0
		switch t.Method {
		case "timestamp":
			m = 1
		case "none":
			m = 2
		}
		d := 0
		if t.Dir != "" {
			d = r.did[t.Dir] + 1
		}
		fmt.Fprintf(&sb, " %s %s %d %s %d %s", hx(t.Name), hx(t.Label), m, b2s(t.Prompt), d, b2s(t.IgnoreError))
		pats(t.Sources, src[i])
		pats(t.Generates, gen[i])
		fmt.Fprintf(&sb, " %d", len(t.GGuard))
		for _, x := range t.GGuard {
			fmt.Fprintf(&sb, " %d", x)
		}
		fmt.Fprintf(&sb, " %d", len(t.Status))
		for _, s := range t.Status {
			fmt.Fprintf(&sb, " %d", r.pid[s])
		}
		fmt.Fprintf(&sb, " %d", len(t.Cmds))
		for _, c := range t.Cmds {
			fmt.Fprintf(&sb, " %d", len(c.Writes))
			for _, w := range c.Writes {
				fmt.Fprintf(&sb, " %d %s", r.pid[w.Path], hx(w.Content))
			}
			if c.Need != "" {
				fmt.Fprintf(&sb, " %d", r.pid[c.Need]+1)
			} else {
				sb.WriteString(" 0")
			}
			sb.WriteString(" " + b2s(c.IgnoreError))
		}
	}
	fmt.Fprintf(&sb, " %d", len(r.d.Steps))
	for _, s := range r.d.Steps {
		switch s.Kind {
		case "inv":
			fmt.Fprintf(&sb, " I %d %d %d %s %d %d %s %s %s", s.Task, fhModes[s.Mode], s.Now, b2s(s.Yes), s.Fail+1, s.Kill+1, b2s(s.Sib), b2s(!s.NoG), b2s(s.Twin))
		case "write":
			fmt.Fprintf(&sb, " W %d %s %d", r.pid[s.Path], hx(s.Content), s.Mtime)
		case "touch":
			fmt.Fprintf(&sb, " T %d %d", r.pid[s.Path], s.Mtime)
		case "delete":
			fmt.Fprintf(&sb, " D %d", r.pid[s.Path])
		case "move":
			fmt.Fprintf(&sb, " M %d %d", r.pid[s.Path], r.pid[s.To])
		case "rmdir":
			fmt.Fprintf(&sb, " R %d", r.did[s.Dir])
		}
	}
	return sb.String()
}

type fhSnap struct {
	files []string          // "id=hex@mtime"
	extra []string          // unknown files
	dirs  []string          // ids
	sums  map[string]string // key → raw content (trimmed)
	marks map[string]int64  // key → logical mtime
}

func (r *fhRun) snapshot() fhSnap {
	s := fhSnap{sums: map[string]string{}, marks: map[string]int64{}}
	type fe struct {
		id  int
		txt string
	}
	var fs []fe
	r.walk(func(p string, info os.FileInfo) {
		rel := relTo(r.root, p)
		if rel == "Taskfile.yml" || rel == "Inc.yml" {
			return
		}
		lt := info.ModTime().Unix() - fhEpoch
		switch {
		case strings.HasPrefix(rel, ".task/checksum/") && strings.Count(rel, "/") == 2:
			b, _ := os.ReadFile(p)
			s.sums[filepath.Base(rel)] = strings.TrimSpace(string(b))
		case strings.HasPrefix(rel, ".task/timestamp/") && strings.Count(rel, "/") == 2:
			s.marks[filepath.Base(rel)] = lt
		default:
			if id, ok := r.pid[rel]; ok && info.Mode().IsRegular() {
				b, _ := os.ReadFile(p)
				fs = append(fs, fe{id, fmt.Sprintf("%d=%s@%d", id, hx(string(b)), lt)})
			} else {
				s.extra = append(s.extra, "X"+hx(rel))
			}
		}
	})
	sort.Slice(fs, func(i, j int) bool { return fs[i].id < fs[j].id })
	for _, f := range fs {
		s.files = append(s.files, f.txt)
	}
	sort.Strings(s.extra)
	for i, d := range r.dirs {
		if st, err := os.Stat(filepath.Join(r.root, d)); err == nil && st.IsDir() {
			s.dirs = append(s.dirs, strconv.Itoa(i))
		}
	}
	return s
}

func (r *fhRun) render(s fhSnap) string {
	out := []string{"F"}
	out = append(out, s.files...)
	out = append(out, s.extra...)
	out = append(out, ";", "D")
	out = append(out, s.dirs...)
	out = append(out, ";", "C")
	var cs, ms []string
	for k, v := range s.sums {
		if st, ok := r.dict[v]; ok {
			cs = append(cs, hx(r.modelKey(k))+"="+st)
		} else {
			cs = append(cs, hx(r.modelKey(k))+"=?"+v)
		}
	}
	sort.Strings(cs)
	out = append(out, cs...)
	out = append(out, ";", "M")
	for k, v := range s.marks {
		ms = append(ms, fmt.Sprintf("%s=%d", hx(r.modelKey(k)), v))
	}
	sort.Strings(ms)
	out = append(out, ms...)
	return strings.Join(out, " ")
}

// the checksum the code stores for a stream and its length table (fix F8B): `%x%x` of xxh3-128 of
// the stream, then `%016x` of xxh3-64 of the table
func fhChecksum(stream, lens []byte) string {
	h := xxh3.New()
	h.Write(stream)
	s := h.Sum128()
	return fmt.Sprintf("%x%x%016x", s.Hi, s.Lo, xxh3.Hash(lens))
}

// sourcesNow: the real Globs on the real tree; stream = name + content of each, the name being
// the slash path relative to the task directory (what the model's `stream (nameOf pr t)` is);
// lens = the model's `lenTable`: the length of each name and each content, 8 bytes big endian each;
// ideal = path relative to the project root + content, delimited.
func (r *fhRun) sourcesNow(t fhTask) (files []string, stream, lens []byte, ideal string) {
	ms, _ := realGlobs(r.taskDirAbs(t), t.Sources)
	var ib strings.Builder
	for _, m := range ms {
		b, _ := os.ReadFile(m)
		name := relTo(r.taskDirAbs(t), m)
		stream = append(stream, []byte(name)...)
		stream = append(stream, b...)
		lens = binary.BigEndian.AppendUint64(lens, uint64(len(name)))
		lens = binary.BigEndian.AppendUint64(lens, uint64(len(b)))
		fmt.Fprintf(&ib, "%s\x00%s\x00", relTo(r.root, m), b)
	}
	return ms, stream, lens, ib.String()
}

// what the model stores with both hashes the identity: the stream followed by the length table
func fhModelFp(stream, lens []byte) string { return hx(string(stream) + string(lens)) }

func (r *fhRun) learnStreams() {
	for _, t := range r.d.Tasks {
		if len(t.Sources) == 0 {
			continue
		}
		_, st, ln, _ := r.sourcesNow(t)
		r.dict[fhChecksum(st, ln)] = fhModelFp(st, ln)
	}
}

func (r *fhRun) gensOk(t fhTask) bool {
	for _, g := range t.Generates {
		if g.Neg {
			continue
		}
		ms, _ := realGlobs(r.taskDirAbs(t), []fhGlob{{Glob: g.Glob}})
		if len(ms) == 0 {
			return false
		}
	}
	return true
}

func (r *fhRun) statusOk(t fhTask) bool {
	for _, s := range t.Status {
		if st, err := os.Stat(filepath.Join(r.root, s)); err != nil || st.IsDir() {
			return false
		}
	}
	return true
}

func logicalMtime(p string) int64 {
	st, err := os.Stat(p)
	if err != nil {
		return 0
	}
	return st.ModTime().Unix() - fhEpoch
}

// goodRun evaluated on the harness's own ghost log (built from observations) and the real tree
func (r *fhRun) goodRun(i int) (good bool, matched *fhAttempt) {
	t := r.d.Tasks[i]
	files, st, ln, _ := r.sourcesNow(t)
	fp := fhModelFp(st, ln)
	switch t.Method {
	case "", "checksum":
		for k := len(r.log) - 1; k >= 0; k-- {
			if r.log[k].task == i && r.log[k].fp == fp {
				matched = &r.log[k]
				break
			}
		}
		return r.gensOk(t) && matched != nil && matched.ok, matched
	case "timestamp":
		for k := len(r.log) - 1; k >= 0; k-- {
			if r.log[k].task == i {
				matched = &r.log[k]
				break
			}
		}
		if matched == nil || !matched.ok || !r.gensOk(t) {
			return false, matched
		}
		for _, f := range files {
			if logicalMtime(f) > matched.time {
				return false, matched
			}
		}
		return true, matched
	}
	return false, nil
}

// walk visits every file below the project root, FOLLOWING symbolic links: a link to a regular file is
// reported with the target's FileInfo (the path stands for its target), a link to a directory is
// descended into; a dangling link is reported with its own (Lstat) info.
func (r *fhRun) walk(fn func(abs string, info os.FileInfo)) {
	var rec func(dir string, depth int)
	rec = func(dir string, depth int) {
		es, err := os.ReadDir(dir)
		if err != nil || depth > 12 {
			return
		}
		for _, e := range es {
			p := filepath.Join(dir, e.Name())
			li, err := os.Lstat(p)
			if err != nil {
				continue
			}
			info := li
			if li.Mode()&os.ModeSymlink != 0 {
				if st, err := os.Stat(p); err == nil {
					info = st
				} else if r.dangling[relTo(r.root, p)] {
					continue // a link to nothing that the case put there: no file
				}
			}
			if info.IsDir() {
				rec(p, depth+1)
				continue
			}
			fn(p, info)
		}
	}
	rec(r.root, 0)
}

// mkParents creates the directories above the root-relative path p; a directory listed in LinkDirs is
// created as a symbolic link to a fresh directory outside the project.
func (r *fhRun) mkParents(p string) {
	parts := strings.Split(filepath.ToSlash(filepath.Dir(p)), "/")
	cur := ""
	for _, part := range parts {
		if part == "." || part == "" {
			continue
		}
		if cur == "" {
			cur = part
		} else {
			cur = cur + "/" + part
		}
		abs := filepath.Join(r.root, cur)
		if _, err := os.Stat(abs); err == nil {
			continue
		}
		if r.linkD[cur] {
			r.nShared++
			target := filepath.Join(r.work, "shared", fmt.Sprintf("d%d", r.nShared))
			os.MkdirAll(target, 0o755)
			os.Remove(abs) // a dangling leftover
			os.Symlink(target, abs)
			continue
		}
		os.Mkdir(abs, 0o755)
	}
}

// lutimes sets the modification time of a symbolic link ITSELF (utimensat with AT_SYMLINK_NOFOLLOW)
func lutimes(path string, sec int64) {
	ts := [2]syscall.Timespec{{Sec: sec}, {Sec: sec}}
	b, err := syscall.BytePtrFromString(path)
	if err != nil {
		return
	}
	const atFdcwd, atSymlinkNofollow = -100, 0x100
	fd := atFdcwd
	syscall.Syscall6(syscall.SYS_UTIMENSAT, uintptr(fd), uintptr(unsafe.Pointer(b)), uintptr(unsafe.Pointer(&ts[0])), atSymlinkNofollow, 0, 0)
}

// ensureDangling (re)creates the links to nothing of the case — below a task directory only while that
// directory exists (the model tracks which task directories exist; the links must not create them)
func (r *fhRun) ensureDangling() {
	for _, p := range r.d.Dangling {
		ok := true
		for _, d := range r.dirs {
			if strings.HasPrefix(p, d+"/") {
				if st, err := os.Stat(filepath.Join(r.root, d)); err != nil || !st.IsDir() {
					ok = false
				}
			}
		}
		abs := filepath.Join(r.root, p)
		if _, err := os.Lstat(abs); err == nil || !ok {
			continue
		}
		r.mkParents(p)
		os.Symlink(filepath.Join(r.work, "nowhere"), abs)
	}
}

func (r *fhRun) applyOp(s fhStep) {
	p := filepath.Join(r.root, s.Path)
	switch s.Kind {
	case "write":
		r.mkParents(s.Path)
		if _, err := os.Lstat(p); err != nil && r.linkF[s.Path] {
			// a fresh symbolic link to a fresh file outside the project; its own mtime is logical time 0
			r.nShared++
			target := filepath.Join(r.work, "shared", fmt.Sprintf("f%d", r.nShared))
			os.MkdirAll(filepath.Dir(target), 0o755)
			os.WriteFile(target, nil, 0o644)
			os.Symlink(target, p)
			lutimes(p, fhEpoch)
		}
		os.WriteFile(p, []byte(s.Content), 0o644) // through the link, if it is one
		tm := time.Unix(fhEpoch+s.Mtime, 0)
		os.Chtimes(p, tm, tm)
	case "touch":
		if _, err := os.Stat(p); err == nil {
			tm := time.Unix(fhEpoch+s.Mtime, 0)
			os.Chtimes(p, tm, tm)
		}
	case "delete":
		os.Remove(p)
	case "move":
		if _, err := os.Stat(p); err == nil {
			q := filepath.Join(r.root, s.To)
			r.mkParents(s.To)
			os.Rename(p, q)
		}
	case "rmdir":
		os.RemoveAll(filepath.Join(r.root, s.Dir))
	}
}

func fileExists(p string) bool { _, err := os.Stat(p); return err == nil }

// invokeRaw runs the binary once, outside the history (a read-only probe); nil = exit status 0
func (r *fhRun) invokeRaw(args []string, fail, kill string) error {
	ctx, cancel := context.WithTimeout(context.Background(), 25*time.Second)
	defer cancel()
	cmd := exec.CommandContext(ctx, r.bin, args...)
	cmd.Dir = r.root
	cmd.Env = []string{"PATH=/usr/local/bin:/usr/bin:/bin", "HOME=" + filepath.Join(r.work, "home"), "NO_COLOR=1",
		"TRACE=" + filepath.Join(r.work, "trace-probe"), "R=" + r.root, "FAIL_AT=" + fail, "KILL_AT=" + kill, "G=."}
	cmd.WaitDelay = 2 * time.Second
	return cmd.Run()
}

type fhInv struct {
	exit    string
	skipped bool
	ran     []int
	bits    []string
}

func (r *fhRun) invoke(s fhStep) fhInv {
	t := r.d.Tasks[s.Task%len(r.d.Tasks)]
	var args []string
	if s.Yes {
		args = append(args, "--yes")
	}
	if s.Silent {
		args = append(args, "--silent")
	}
	// `silent` on the task / the Taskfile / the command line also suppresses `Task "x" is up to date`
	hidden := (s.Silent || t.Silent || r.d.SilentFile) && !s.Twin
	probe := false
	if hidden && s.Mode == "dry" {
		// what a silenced --dry decides is not printed: ask --status (the same check, also dry) first
		probe = r.invokeRaw([]string{"--status", t.Name}, "", "") == nil
	}
	gate, twin := "", ""
	switch s.Mode {
	case "run":
		if s.Sib {
			// the parent `zs<i>` lives in the file of the task: `ns:zs<i>` for an included one
			ti := s.Task % len(r.d.Tasks)
			parent := fmt.Sprintf("zs%d", ti)
			if j := strings.Index(t.Name, ":"); j > 0 {
				parent = t.Name[:j+1] + parent
			}
			gate = filepath.Join(r.work, "gate")
			os.Remove(gate)
			os.Remove(gate + ".ready")
			args = append(args, parent)
			break
		}
		if s.Twin {
			ti := s.Task % len(r.d.Tasks)
			parent := fmt.Sprintf("zt%d", ti)
			if j := strings.Index(t.Name, ":"); j > 0 {
				parent = t.Name[:j+1] + parent
			}
			twin = filepath.Join(r.work, "twin")
			os.RemoveAll(twin + ".lock")
			os.Remove(twin + ".ready")
			os.Remove(twin + ".go")
			args = append(args, parent)
			break
		}
		args = append(args, t.Name)
	case "force":
		args = append(args, "--force", t.Name)
	case "dry":
		args = append(args, "--dry", t.Name)
	case "status":
		args = append(args, "--status", t.Name)
	case "listjson":
		args = append(args, "--list-all", "--json")
	case "list":
		args = append(args, "--list-all")
	case "summary":
		args = append(args, "--summary", t.Name)
	}
	trace := filepath.Join(r.work, "trace")
	os.Remove(trace)
	ctx, cancel := context.WithTimeout(context.Background(), 25*time.Second)
	defer cancel()
	cmd := exec.CommandContext(ctx, r.bin, args...)
	cmd.Dir = r.root
	fail, kill := "", ""
	if s.Fail >= 0 {
		fail = strconv.Itoa(s.Fail)
	}
	if s.Kill >= 0 {
		kill = strconv.Itoa(s.Kill)
	}
	cmd.Env = []string{"PATH=/usr/local/bin:/usr/bin:/bin", "HOME=" + filepath.Join(r.work, "home"), "NO_COLOR=1",
		"TRACE=" + trace, "R=" + r.root, "FAIL_AT=" + fail, "KILL_AT=" + kill, "GATE=" + gate, "TWIN=" + twin}
	if !s.NoG {
		cmd.Env = append(cmd.Env, "G=.")
	}
	var so, se bytes.Buffer
	cmd.Stdout, cmd.Stderr = &so, &se
	cmd.WaitDelay = 2 * time.Second
	t0 := time.Now()
	err := cmd.Run()
	t1 := time.Now()
	var o fhInv
	switch {
	case ctx.Err() != nil:
		o.exit = "timeout"
	case err == nil:
		o.exit = "ok"
	default:
		o.exit = "error"
		if ee, ok := err.(*exec.ExitError); ok {
			ws, _ := ee.Sys().(syscall.WaitStatus)
			switch {
			case ws.Signaled():
				o.exit = "killed"
			case ee.ExitCode() == 201:
				o.exit = "failed"
			case ee.ExitCode() == 205:
				o.exit = "cancelled"
			case ee.ExitCode() == 1 && s.Mode == "status" && strings.Contains(se.String(), "is not up-to-date"):
				o.exit = "notuptodate"
			default:
				o.exit = fmt.Sprintf("code%d", ee.ExitCode())
			}
		}
	}
	o.skipped = strings.Contains(se.String(), "is up to date")
	if hidden {
		switch s.Mode {
		case "run":
			o.skipped = o.exit == "ok" && !fileExists(trace) // every task has a command, every command traces
		case "dry":
			o.skipped = o.exit == "ok" && probe
		}
	}
	if b, err := os.ReadFile(trace); err == nil {
		for _, ln := range strings.Fields(string(b)) {
			k, _ := strconv.Atoi(ln)
			o.ran = append(o.ran, k)
		}
	}
	if s.Mode == "listjson" && o.exit == "ok" {
		var out struct {
			Tasks []struct {
				Desc     string `json:"desc"`
				UpToDate bool   `json:"up_to_date"`
			} `json:"tasks"`
		}
		bits := make([]string, len(r.d.Tasks))
		for i := range bits {
			bits[i] = "?"
		}
		if json.Unmarshal(so.Bytes(), &out) == nil {
			for _, jt := range out.Tasks {
				if i, err := strconv.Atoi(strings.TrimPrefix(jt.Desc, "t")); err == nil && i < len(bits) {
					bits[i] = b2s(jt.UpToDate)
				}
			}
		}
		o.bits = bits
	}
	// rebase every mtime produced during the invocation to the logical time of the step
	lo, hi := t0.Unix()-1, t1.Unix()+1
	tm := time.Unix(fhEpoch+s.Now, 0)
	r.walk(func(p string, info os.FileInfo) {
		if u := info.ModTime().Unix(); u >= lo && u <= hi {
			os.Chtimes(p, tm, tm)
		}
	})
	return o
}

func joinOrDash(ss []string, sep string) string {
	if len(ss) == 0 {
		return "-"
	}
	return strings.Join(ss, sep)
}

// run evaluates the history on the real binary.  only != nil: evaluate only these step
// indices (used for the continuation check H;K versus H;R;K).
func (r *fhRun) run(only map[int]bool) {
	os.MkdirAll(r.root, 0o755)
	os.MkdirAll(filepath.Join(r.work, "home"), 0o755)
	r.writeTaskfiles()
	r.ensureDangling()
	prev := r.snapshot()
	for k, s := range r.d.Steps {
		if only != nil && !only[k] {
			r.segs = append(r.segs, "")
			r.obsExit = append(r.obsExit, "")
			r.skips = append(r.skips, false)
			r.rans = append(r.rans, nil)
			r.gbits = append(r.gbits, false)
			continue
		}
		if s.Kind != "inv" {
			r.applyOp(s)
			r.ensureDangling()
			r.learnStreams()
			snap := r.snapshot()
			r.segs = append(r.segs, r.render(snap))
			r.obsExit = append(r.obsExit, "")
			r.skips = append(r.skips, false)
			r.rans = append(r.rans, nil)
			r.gbits = append(r.gbits, false)
			prev = snap
			continue
		}
		ti := s.Task % len(r.d.Tasks)
		t := r.d.Tasks[ti]
		r.learnStreams()
		good, matched := r.goodRun(ti)
		_, stream, lens, ideal := r.sourcesNow(t)
		gens, stat := r.gensOk(t), r.statusOk(t)
		var newest int64
		files, _, _, _ := r.sourcesNow(t)
		for _, f := range files {
			if m := logicalMtime(f); m > newest {
				newest = m
			}
		}
		// method timestamp, before the invocation: does the marker exist, and what vouches for an
		// "up to date" verdict — an existing generates file at least as new as every source (`gen`),
		// else the marker (`marker`), else nothing (`none`)
		hasMarker, vouch := "0", "none"
		{
			mv, okm := prev.marks[fhStateName(t.Name)]
			if okm {
				hasMarker = "1"
			}
			gfiles, _ := realGlobs(r.taskDirAbs(t), t.Generates)
			genVouch := false
			for _, g := range gfiles {
				if logicalMtime(g) >= newest {
					genVouch = true
				}
			}
			switch {
			case genVouch:
				vouch = "gen"
			case okm && mv >= newest:
				vouch = "marker"
			}
		}
		pre := r.render(prev)
		o := r.invoke(s)
		r.ensureDangling()
		r.learnStreams()
		snap := r.snapshot()
		post := r.render(snap)
		ranS := make([]string, len(o.ran))
		for i, x := range o.ran {
			ranS[i] = strconv.Itoa(x)
		}
		seg := fmt.Sprintf("e=%s s=%s r=%s b=%s g=%s ; %s", o.exit, b2s(o.skipped), joinOrDash(ranS, ","), joinOrDash(o.bits, ","), b2s(good), post)
		r.segs = append(r.segs, seg)
		r.obsExit = append(r.obsExit, o.exit)
		r.skips = append(r.skips, o.skipped)
		r.rans = append(r.rans, o.ran)
		r.gbits = append(r.gbits, good)
		// who changed the stored fingerprints (wprev: the writer before this step)
		wprev := map[string]int{}
		for kk, vv := range r.writer {
			wprev[kk] = vv
		}
		for key, v := range snap.sums {
			if pv, ok := prev.sums[key]; !ok || pv != v {
				r.writer["C"+key] = k
			}
		}
		for key := range prev.sums {
			if _, ok := snap.sums[key]; !ok {
				r.writer["C"+key] = k
			}
		}
		for key, v := range snap.marks {
			// (a skipped run that MOVES the marker — what every check did before the fix of
			// C04-timestamp-marker-moved-by-every-check — is not its writer: the cause of a later skip
			// stays with whoever touched it before.  A skipped run that CREATES it is: `wskip=1`.)
			if pv, ok := prev.marks[key]; !ok || (pv != v && !(s.Mode == "run" && o.skipped)) {
				r.writer["M"+key] = k
			}
		}
		for key := range prev.marks {
			if _, ok := snap.marks[key]; !ok {
				r.writer["M"+key] = k // removed (TimestampChecker.OnError)
			}
		}
		// ---- monitors on the real observations
		method := t.Method
		if method == "" {
			method = "checksum"
		}
		facts := func(kind string) string {
			w, wmode, wexit, wtask, wskip := "-", "-", "-", "-", "0"
			wk := "C" + fhSumName(t)
			if method == "timestamp" {
				wk = "M" + fhStateName(t.Name)
			}
			if j, ok := wprev[wk]; ok {
				w, wmode, wexit, wtask = strconv.Itoa(j), r.d.Steps[j].Mode, r.obsExit[j], strconv.Itoa(r.d.Steps[j].Task%len(r.d.Tasks))
				if r.skips[j] {
					wskip = "1" // the store was last written by an invocation that reported "up to date"
				}
			}
			la, laexit := "-", "-"
			if matched != nil {
				la, laexit = strconv.Itoa(matched.step), matched.exit
			}
			newer := "0"
			if matched != nil && newest > matched.time {
				newer = "1" // some source is newer than the last attempt
			}
			tw := ""
			if s.Twin && len(o.ran) > 0 {
				tw = " twin=1" // "up to date" was said by a SECOND activation while the first ran its commands
			}
			return fmt.Sprintf("viol kind=%s method=%s gens=%s writer=%s wmode=%s wexit=%s wtask=%s lastatt=%s laexit=%s srcnewer=%s marker=%s vouch=%s wskip=%s%s",
				kind, method, b2s(gens), w, wmode, wexit, wtask, la, laexit, newer, hasMarker, vouch, wskip, tw)
		}
		// C04: skip ⇒ goodRun
		if s.Mode == "run" && o.skipped && len(t.Sources) > 0 && !good {
			r.viol = append(r.viol, fhViol{"c04", k, ti, facts("skip-not-good")})
		}
		// … and the same for the QUERIES (the verdict of the check does not depend on the mode:
		// `C04_partial_queries`): --status exiting 0, --dry reporting "up to date", `up_to_date: true`
		if len(t.Sources) > 0 && !good {
			switch {
			case s.Mode == "status" && o.exit == "ok":
				r.viol = append(r.viol, fhViol{"c04", k, ti, facts("status-not-good")})
			case s.Mode == "dry" && o.skipped:
				r.viol = append(r.viol, fhViol{"c04", k, ti, facts("dry-skip-not-good")})
			case s.Mode == "listjson" && ti < len(o.bits) && o.bits[ti] == "1":
				r.viol = append(r.viol, fhViol{"c04", k, ti, facts("list-not-good")})
			}
		}
		// C05
		if s.Mode == "force" && len(o.ran) == 0 && o.exit == "ok" {
			r.viol = append(r.viol, fhViol{"c05", k, ti, facts("force-did-not-run")})
		}
		if s.Mode == "run" && o.skipped {
			if !gens && len(t.Sources) > 0 {
				// (tasks without sources are governed by status alone: generates is not consulted)
				r.viol = append(r.viol, fhViol{"c05", k, ti, facts("missing-generates-skipped")})
			}
			if len(t.Status) > 0 && !stat {
				r.viol = append(r.viol, fhViol{"c05", k, ti, facts("status-fails-skipped")})
			}
			if good && method == "checksum" && matched != nil && matched.ideal != ideal {
				same := "0"
				if fhBaseBag(matched.ideal) == fhBaseBag(ideal) {
					same = "1"
				}
				r.viol = append(r.viol, fhViol{"c05", k, ti, facts("change-not-detected") + " samebases=" + same})
			}
			// the task's commands have been attempted, but never on the present list of (path, content):
			// whatever was edited, added, removed or renamed since went unnoticed (independent of how the
			// code encodes the list; `shift=1`: the name+content bytes of the present tree, back to back, are
			// those of an earlier attempt — the boundary-shift collision of the un-delimited stream)
			// (method timestamp as well: C05 demands a rerun after ANY edit, addition, removal or rename; what
			// the method cannot see — a change that leaves no source newer than the last attempt, `srcnewer=0` —
			// is the open finding C05-timestamp-misses-non-mtime-changes; `op=` names the class of the change
			// since the last attempt)
			if (method == "checksum" && !good || method == "timestamp") && len(t.Sources) > 0 {
				seen, any, shift := false, false, "0"
				last := ""
				for _, a := range r.log {
					if a.task == ti {
						any = true
						last = a.ideal
						if a.ideal == ideal {
							seen = true
						}
						if a.flat == string(stream) {
							shift = "1"
						}
					}
				}
				if any && !seen {
					r.viol = append(r.viol, fhViol{"c05", k, ti, facts("change-not-detected") + " samebases=0 shift=" + shift + " op=" + fhOpClass(last, ideal)})
				}
			}
		}
		if s.Mode == "run" && !o.skipped && k > 0 && len(t.Sources) > 0 && method != "none" && gens && (len(t.Status) == 0 || stat) {
			// idempotence: the previous step was a successful run of the same task — a normal one, or
			// (`first=force`: the open finding C05-force-records-no-fingerprint) a --force run
			ps := r.d.Steps[k-1]
			if ps.Kind == "inv" && (ps.Mode == "run" || ps.Mode == "force") && ps.Task%len(r.d.Tasks) == ti && r.obsExit[k-1] == "ok" &&
				(r.skips[k-1] || len(r.rans[k-1]) == len(t.Cmds)) && !(method == "timestamp" && newest > ps.Now) &&
				!ps.NoG && !s.NoG { // (the environment variable G is an input of the `${G:?}…` entries: both steps see it set)
				r.viol = append(r.viol, fhViol{"c05", k, ti, facts("not-idempotent") + " first=" + ps.Mode})
			}
		}
		// C12: read-only invocations change nothing and run nothing
		if fhReadOnly(s.Mode) {
			if pre != post {
				r.viol = append(r.viol, fhViol{"c12", k, ti, "viol kind=tree-changed mode=" + s.Mode + " exit=" + o.exit})
			}
			if len(o.ran) > 0 {
				r.viol = append(r.viol, fhViol{"c12", k, ti, "viol kind=body-ran mode=" + s.Mode})
			}
		}
		// ghost log
		// (a `task:` call whose precondition fails ends the command loop with `failed` before anything ran)
		if (s.Mode == "run" || s.Mode == "force") && (len(o.ran) > 0 || o.exit == "killed" || o.exit == "failed") {
			r.log = append(r.log, fhAttempt{task: ti, fp: fhModelFp(stream, lens), ideal: ideal, flat: string(stream), time: s.Now,
				ok: o.exit == "ok" && len(o.ran) == len(t.Cmds), step: k, exit: o.exit})
		}
		prev = snap
	}
}

func fhDisplay(t fhTask) string {
	if t.Label != "" {
		return t.Label
	}
	return t.Name
}

// the harness's own copy of normalizeFilename, only used to find which stored file belongs
// to a task when attributing a monitor violation
// the harness's own copy of stateFilename (fix N): the normalised name, plus — when normalisation
// changed the name — "-" and 16 hex digits of xxh3 of the original name
func fhStateName(n string) string {
	if nn := fhNorm(n); nn != n {
		return fmt.Sprintf("%s-%016x", nn, xxh3.HashString(n))
	}
	return n
}

// the harness's own copy of checksumFilename (fix F8A): the checksum file of a task without label is
// stateFilename(task name); that of a labelled task is the normalised label, ".", and 16 hex digits of
// xxh3 of the length-prefixed pair "<len(name)>:<name><label>"
func fhPairEnc(t fhTask) string { return fmt.Sprintf("%d:%s%s", len(t.Name), t.Name, t.Label) }

func fhSumName(t fhTask) string {
	if t.Label == "" {
		return fhStateName(t.Name)
	}
	return fmt.Sprintf("%s.%016x", fhNorm(t.Label), xxh3.HashString(fhPairEnc(t)))
}

// the MODEL's key for a state file: the model's tag is the hashed string itself (`stateKey`,
// `sumKey`: the hash is idealised as injective), so the file of a name the harness generated —
// recognised by recomputing xxh3 of every task name, label and (name, label) pair of the case — is
// rendered as "<normalised>-<name>", resp. "<normalised label>.<len>:<name><label>"; any other file
// name (a tree without fix N / F8A) is rendered as it is.
func (r *fhRun) modelKey(file string) string {
	for _, t := range r.d.Tasks {
		if t.Label != "" && fhSumName(t) == file {
			return fhNorm(t.Label) + "." + fhPairEnc(t)
		}
	}
	for _, t := range r.d.Tasks {
		for _, n := range []string{t.Name, t.Label} {
			if n != "" && fhNorm(n) != n && fhStateName(n) == file {
				return fhNorm(n) + "-" + n
			}
		}
	}
	return file
}

func fhNorm(s string) string {
	var sb strings.Builder
	for _, c := range s {
		if (c >= 'A' && c <= 'z') || (c >= '0' && c <= '9') {
			sb.WriteRune(c)
		} else {
			sb.WriteByte('-')
		}
	}
	return sb.String()
}

// fhOpClass: how the list of (path, content) changed between two ideal fingerprints: `removal` (paths
// gone, the rest unchanged), `addition`, `rename` (the same contents under other paths), `edit` (the same
// paths, other contents), `mixed`
func fhOpClass(old, now string) string {
	parse := func(s string) map[string]string {
		m := map[string]string{}
		parts := strings.Split(s, "\x00")
		for i := 0; i+1 < len(parts); i += 2 {
			m[parts[i]] = parts[i+1]
		}
		return m
	}
	a, b := parse(old), parse(now)
	gone, added, edited := 0, 0, 0
	var ca, cb []string
	for p, c := range a {
		ca = append(ca, c)
		if c2, ok := b[p]; !ok {
			gone++
		} else if c2 != c {
			edited++
		}
	}
	for p, c := range b {
		cb = append(cb, c)
		if _, ok := a[p]; !ok {
			added++
		}
	}
	sort.Strings(ca)
	sort.Strings(cb)
	switch {
	case edited == 0 && added == 0 && gone > 0:
		return "removal"
	case edited == 0 && gone == 0 && added > 0:
		return "addition"
	case edited > 0 && gone == 0 && added == 0:
		return "edit"
	case edited == 0 && gone > 0 && added > 0 && strings.Join(ca, "\x00") == strings.Join(cb, "\x00"):
		return "rename"
	}
	return "mixed"
}

// multiset of (base name, content) of an ideal fingerprint.  A change that keeps this multiset (a file
// moved to another directory) went unnoticed while the checksum hashed filepath.Base; the monitor
// keeps classifying it (samebases=1) so that a regression is recognised as that defect.
func fhBaseBag(ideal string) string {
	parts := strings.Split(ideal, "\x00")
	var bag []string
	for i := 0; i+1 < len(parts); i += 2 {
		bag = append(bag, filepath.Base(parts[i])+"\x00"+parts[i+1])
	}
	sort.Strings(bag)
	return strings.Join(bag, "\x01")
}

type fhLine struct{ cl, il string }

var fhSeq int64
var fhMu sync.Mutex

func newFhRun(d fhCase) *fhRun {
	fhMu.Lock()
	fhSeq++
	n := fhSeq
	fhMu.Unlock()
	work := filepath.Join(fingerWork(), fmt.Sprintf("h%d-%d", os.Getpid(), n))
	os.RemoveAll(work)
	r := &fhRun{d: d, work: work, root: filepath.Join(work, "proj"), bin: os.Getenv("VERIF_TASK_BIN"),
		pid: map[string]int{}, did: map[string]int{}, dict: map[string]string{}, writer: map[string]int{},
		linkF: map[string]bool{}, linkD: map[string]bool{}}
	for _, p := range d.LinkFiles {
		r.linkF[p] = true
	}
	for _, p := range d.LinkDirs {
		r.linkD[p] = true
	}
	r.dangling = map[string]bool{}
	for _, p := range d.Dangling {
		r.dangling[p] = true
	}
	r.paths, r.dirs = fhUniverse(d)
	for i, p := range r.paths {
		r.pid[p] = i
	}
	for i, x := range r.dirs {
		r.did[x] = i
	}
	return r
}

// evalHist runs one case and returns the lines to emit for property `prop`.  An invocation that
// hit the 25 s wall-clock limit (a starved machine: the binary needs milliseconds) is not an
// observation of the code under test: the whole case is evaluated again, at most twice; a hang
// of the binary itself reproduces and is still reported as `e=timeout`.
func evalHist(d fhCase, prop string) (lines []fhLine) {
	for attempt := 0; ; attempt++ {
		var timedOut bool
		lines, timedOut = evalHistOnce(d, prop)
		if !timedOut || attempt == 2 {
			return lines
		}
	}
}

func evalHistOnce(d fhCase, prop string) (lines []fhLine, timedOut bool) {
	defer func() {
		if rec := recover(); rec != nil {
			lines = []fhLine{{"finger.hist 0 0 0", fmt.Sprintf("panic %v", rec)}}
		}
	}()
	for i := range d.Steps {
		if d.Steps[i].Kind == "inv" && d.Steps[i].Now == 0 {
			d.Steps[i].Now = int64(1000 * (i + 1))
		}
	}
	r := newFhRun(d)
	defer os.RemoveAll(r.work)
	os.MkdirAll(r.root, 0o755)
	src, gen := r.staticMatches()
	cl := r.caseLine(src, gen)
	r.run(nil)
	for _, x := range r.obsExit {
		if x == "timeout" {
			timedOut = true
		}
	}
	il := strings.Join(r.segs, " | ")
	if r.err != "" {
		il = "harness-error " + r.err
	}
	lines = append(lines, fhLine{cl, il})
	// continuation equivalence for C12: drop the read-only invocations and compare
	if prop == "c12" {
		only := map[int]bool{}
		dropped := 0
		for k, s := range d.Steps {
			if s.Kind == "inv" && fhReadOnly(s.Mode) {
				dropped++
			} else {
				only[k] = true
			}
		}
		if dropped > 0 {
			r2 := newFhRun(d)
			defer os.RemoveAll(r2.work)
			r2.run(only)
			for _, x := range r2.obsExit {
				if x == "timeout" {
					timedOut = true
				}
			}
			for k := range d.Steps {
				if only[k] && r2.segs[k] != r.segs[k] {
					r.viol = append(r.viol, fhViol{"c12", k, d.Steps[k].Task, "viol kind=continuation-differs step=" + strconv.Itoa(k)})
					break
				}
			}
		}
	}
	n := 0
	for _, v := range r.viol {
		if v.prop == prop {
			lines = append(lines, fhLine{fmt.Sprintf("finger.mon %s %d %d", prop, v.step, v.task), v.text})
			n++
		}
	}
	if n == 0 {
		lines = append(lines, fhLine{fmt.Sprintf("finger.mon %s - -", prop), "ok"})
	}
	return lines, timedOut
}

// ---------------------------------------------------------------------------- fingerhist: generation

type fhGen struct {
	c    *Ctx
	prop string
}

func (g *fhGen) pick(ss []string) string { return ss[g.c.Rng.Intn(len(ss))] }
func (g *fhGen) chance(pct int) bool     { return g.c.Rng.Intn(100) < pct }

var fhNames = []string{"x", "y", "a-b", "a.b", "a:b", "a:c", "a-c", "a_b"}
var fhSrcPool = []string{"a.e", "b.e", "c.x", "d/a.e", "d/b.e", "e/a.e", "e/c.x"}
var fhSrcPats = []string{"a.e", "*.e", "d/*", "**/*.e", "e/*.e", "*.x", "**/a.*", "d/a.e", "**/*.x", "{a,b}.e", "d/{a,b}.e", "{a.e,c.x}"}

func (g *fhGen) content() string {
	n := 1 + g.c.Rng.Intn(3)
	b := make([]byte, n)
	for i := range b {
		b[i] = "abc"[g.c.Rng.Intn(3)]
	}
	return string(b)
}

// genShift: the BOUNDARY-SHIFT stream (c05).  One checksum task over `d/*`; between two runs a rename
// plus an edit moves bytes between a file's name and the content next to it, so that names and contents
// written back to back are the same bytes before and after:
//
//	own     file `ab` holding `c`   ⇄  file `a` holding `bc`         (a name ⇄ its own content)
//	next    files `a`=`x`, `ab`=`y`  ⇄  the single file `a`=`xd/aby`  (a content ⇄ the NEXT file's name)
//	second  files `a`=`x`, `bc`=`y`  ⇄  files `a`=`x`, `b`=`cy`       (the same, on the second of two files)
//
// The second run must execute the commands (the list of (path, content) changed); before fix F8B the
// checksum was the same and the task was reported up to date.
func (g *fhGen) genShift() fhCase {
	rng := g.c.Rng
	letters := func(n int) string {
		b := make([]byte, n)
		for i := range b {
			b[i] = "abc"[rng.Intn(3)]
		}
		return string(b)
	}
	t := fhTask{Name: g.pick([]string{"x", "y", "a-b", "a.b", "a_b"}), Sources: []fhGlob{{Glob: "d/*"}}, Cmds: []fhCmd{{}}}
	if g.chance(40) {
		t.Method = "checksum"
	}
	root := ""
	if g.chance(30) {
		t.Dir = "sub"
		root = "sub/"
	}
	if g.chance(20) {
		t.Label = g.pick([]string{"L", "lab el"})
	}
	if g.chance(30) {
		t.Cmds = append(t.Cmds, fhCmd{Writes: []fhWrite{{Path: root + "out0_1.o", Content: "o"}}})
	}
	type tree map[string]string // base name in d/ → content
	var a, b tree
	switch rng.Intn(3) {
	case 0: // own: name n, content c; k bytes move from the end of the name to the front of the content
		n, c := letters(2+rng.Intn(2)), letters(rng.Intn(3))
		k := 1 + rng.Intn(len(n)-1)
		a = tree{n: c}
		b = tree{n[:len(n)-k]: n[len(n)-k:] + c}
	case 1: // next: two files against one whose content swallows the second file's name and content
		n1 := g.pick([]string{"a", "ab"})
		n2 := n1 + g.pick([]string{"b", "c", "ca"}) // sorts after n1
		c1, c2 := letters(1+rng.Intn(2)), letters(rng.Intn(3))
		a = tree{n1: c1, n2: c2}
		b = tree{n1: c1 + "d/" + n2 + c2}
	default: // second: an own shift on the second of two adjacent files
		c1, c2 := letters(1+rng.Intn(2)), letters(1+rng.Intn(2))
		tail := g.pick([]string{"c", "cb"})
		a = tree{"a": c1, "b" + tail: c2}
		b = tree{"a": c1, "b": tail + c2}
	}
	if g.chance(50) {
		a, b = b, a
	}
	var d fhCase
	d.Tasks = []fhTask{t}
	add := func(st fhStep) {
		st.Fail, st.Kill = -1, -1
		switch st.Kind {
		case "inv":
			st.Yes, st.Now = true, int64(1000*(len(d.Steps)+1))
		case "write":
			st.Mtime = int64(1000*len(d.Steps) + 500)
		}
		d.Steps = append(d.Steps, st)
	}
	names := func(tr tree) []string {
		var out []string
		for n := range tr {
			out = append(out, n)
		}
		sort.Strings(out)
		return out
	}
	put := func(from, to tree) {
		for _, n := range names(from) {
			if _, ok := to[n]; !ok {
				add(fhStep{Kind: "delete", Path: root + "d/" + n})
			}
		}
		for _, n := range names(to) {
			if c, ok := from[n]; !ok || c != to[n] {
				add(fhStep{Kind: "write", Path: root + "d/" + n, Content: to[n]})
			}
		}
	}
	put(tree{}, a)
	add(fhStep{Kind: "inv", Mode: "run"})
	put(a, b)
	add(fhStep{Kind: "inv", Mode: "run"})
	switch rng.Intn(3) {
	case 0:
		put(b, a)
		add(fhStep{Kind: "inv", Mode: "run"})
	case 1:
		add(fhStep{Kind: "inv", Mode: g.pick([]string{"run", "status", "listjson"})})
	}
	return d
}

// genLinks: the SYMLINK stream (c04, c05).  One task of either method whose sources are reached through
// symbolic links — a matched path that is a link to a file outside the project, or a file below a
// directory that is a link —; after a successful run the TARGET is edited or merely touched (the link
// itself keeps its old mtime), then the task runs again: it must rebuild.  Renaming and deleting act on
// the link.
func (g *fhGen) genLinks() fhCase {
	rng := g.c.Rng
	t := fhTask{Name: g.pick([]string{"x", "y", "a-b", "a_b"}), Cmds: []fhCmd{{}}}
	switch rng.Intn(3) {
	case 0:
		t.Method = "timestamp"
	case 1:
		t.Method = "checksum"
	}
	root := ""
	if g.chance(25) {
		t.Dir = "sub"
		root = "sub/"
	}
	pat := g.pick([]string{"*.e", "**/*.e", "d/*", "d/*.e", "**/a.*"})
	t.Sources = []fhGlob{{Glob: pat}}
	var files []string
	switch pat {
	case "*.e":
		files = []string{"a.e", "b.e"}
	case "d/*", "d/*.e":
		files = []string{"d/a.e", "d/b.e"}
	default:
		files = []string{"a.e", "d/a.e", "e/a.e"}
	}
	if g.chance(40) {
		o := root + "out0_0.o"
		t.Cmds[0].Writes = []fhWrite{{Path: o, Content: "o"}}
		if g.chance(60) {
			t.Generates = []fhGlob{{Glob: "out0_0.o"}}
		}
	}
	var d fhCase
	d.Tasks = []fhTask{t}
	for _, f := range files {
		if g.chance(70) {
			d.LinkFiles = append(d.LinkFiles, root+f)
		}
	}
	for _, sub := range []string{"d", "e"} {
		if g.chance(35) {
			d.LinkDirs = append(d.LinkDirs, root+sub)
		}
	}
	if len(d.LinkFiles) == 0 && len(d.LinkDirs) == 0 {
		d.LinkFiles = []string{root + files[0]}
	}
	add := func(st fhStep) {
		st.Fail, st.Kill = -1, -1
		switch st.Kind {
		case "inv":
			st.Yes, st.Now = true, int64(1000*(len(d.Steps)+1))
		case "write", "touch":
			st.Mtime = int64(1000*len(d.Steps) + 500)
		}
		d.Steps = append(d.Steps, st)
	}
	for _, f := range files {
		if g.chance(75) || len(d.Steps) == 0 {
			add(fhStep{Kind: "write", Path: root + f, Content: g.content()})
		}
	}
	add(fhStep{Kind: "inv", Mode: "run"})
	for n := 1 + rng.Intn(2); n > 0; n-- {
		f := root + g.pick(files)
		switch r := rng.Intn(100); {
		case r < 40:
			add(fhStep{Kind: "write", Path: f, Content: g.content() + "z"})
		case r < 75:
			add(fhStep{Kind: "touch", Path: f})
		case r < 88:
			add(fhStep{Kind: "move", Path: f, To: root + g.pick(files)})
		default:
			add(fhStep{Kind: "delete", Path: f})
		}
		add(fhStep{Kind: "inv", Mode: g.pick([]string{"run", "run", "run", "status", "dry"})})
	}
	if g.chance(50) {
		add(fhStep{Kind: "inv", Mode: "run"})
	}
	return d
}

// genDirected4to6: three small directed streams for the repaired defects F8C–F8E.
//
//	ignore   (c05) a task with `ignore_error` (on the task, or on the failing command): the run whose
//	         command k fails with an ignored exit status exits ok and KEEPS its fingerprint: the next run
//	         is up to date (before F8C the task-level form lost it on every run)
//	drop     (c05) a sources pattern one of whose expanded fields does not exist — `{a,b}.e` with b.e
//	         absent, a glob next to a dangling symbolic link —: the other matches still count, an edit of
//	         a.e is noticed (before F8E the whole pattern was dropped)
//	checkerr (c04) a checksum task with a generates entry `${G:?}/…`: a run without G ends with the error
//	         of the check and leaves NO checksum; with G set and the generates file in place the next run
//	         executes the commands (before F8D it was "up to date")
func (g *fhGen) genDirected4to6(kind string) fhCase {
	rng := g.c.Rng
	t := fhTask{Name: g.pick([]string{"x", "y", "a-b", "a_b"}), Cmds: []fhCmd{{}, {}}}
	if g.chance(40) {
		t.Method = "checksum"
	}
	root := ""
	if g.chance(25) {
		t.Dir = "sub"
		root = "sub/"
	}
	var d fhCase
	add := func(st fhStep) {
		st.Fail, st.Kill = st.Fail-1, -1 // Fail is given 1-based here (0 = none)
		switch st.Kind {
		case "inv":
			st.Yes, st.Now = true, int64(1000*(len(d.Steps)+1))
		case "write", "touch":
			st.Mtime = int64(1000*len(d.Steps) + 500)
		}
		d.Steps = append(d.Steps, st)
	}
	src := root + "a.e"
	switch kind {
	case "ignore":
		if g.chance(35) {
			t.Method = "timestamp"
		}
		t.Sources = []fhGlob{{Glob: "*.e"}}
		k := rng.Intn(2)
		if g.chance(60) {
			t.IgnoreError = true
		} else {
			t.Cmds[k].IgnoreError = true
		}
		if g.chance(40) {
			t.Cmds[1-k].Writes = []fhWrite{{Path: root + "out0_0.o", Content: "o"}}
		}
		d.Tasks = []fhTask{t}
		add(fhStep{Kind: "write", Path: src, Content: g.content()})
		add(fhStep{Kind: "inv", Mode: g.pick([]string{"run", "run", "force"}), Fail: k + 1})
		add(fhStep{Kind: "inv", Mode: "run"})
		if g.chance(50) {
			add(fhStep{Kind: "write", Path: src, Content: g.content() + "i"})
			add(fhStep{Kind: "inv", Mode: "run", Fail: k + 1})
			add(fhStep{Kind: "inv", Mode: g.pick([]string{"run", "status", "listjson"})})
		}
	case "drop":
		if g.chance(35) {
			t.Method = "timestamp"
		}
		pat := g.pick([]string{"{a,b}.e", "{a.e,c.x}", "*.e", "d/*", "**/*.e"})
		t.Sources = []fhGlob{{Glob: pat}}
		switch pat {
		case "*.e":
			d.Dangling = []string{root + "zz.e"}
		case "d/*":
			d.Dangling = []string{root + "d/zz.e"}
			src = root + "d/a.e"
		case "**/*.e":
			d.Dangling = []string{root + g.pick([]string{"zz.e", "d/zz.e"})}
		}
		if g.chance(30) {
			t.Sources = append(t.Sources, fhGlob{Glob: "c.x"})
		}
		d.Tasks = []fhTask{t}
		add(fhStep{Kind: "write", Path: src, Content: g.content()})
		add(fhStep{Kind: "inv", Mode: "run"})
		add(fhStep{Kind: "write", Path: src, Content: g.content() + "d"})
		add(fhStep{Kind: "inv", Mode: g.pick([]string{"run", "run", "status"})})
		if g.chance(40) {
			add(fhStep{Kind: "inv", Mode: "run"})
		}
	default: // checkerr
		if t.Method == "" && g.chance(50) {
			t.Method = "checksum"
		}
		out := root + "out0_0.o"
		t.Sources = []fhGlob{{Glob: "a.e"}}
		t.Generates = []fhGlob{{Glob: "out0_0.o"}}
		t.GGuard = []int{0}
		t.Cmds[0].Writes = []fhWrite{{Path: out, Content: "o"}}
		d.Tasks = []fhTask{t}
		add(fhStep{Kind: "write", Path: src, Content: g.content()})
		if g.chance(70) {
			add(fhStep{Kind: "write", Path: out, Content: "x"})
		}
		add(fhStep{Kind: "inv", Mode: g.pick([]string{"run", "run", "run", "dry", "status", "listjson"}), NoG: true})
		add(fhStep{Kind: "inv", Mode: "run"})
		if g.chance(50) {
			add(fhStep{Kind: "write", Path: src, Content: g.content() + "g"})
			add(fhStep{Kind: "inv", Mode: "run", NoG: true})
			add(fhStep{Kind: "inv", Mode: g.pick([]string{"run", "status"})})
		}
	}
	return d
}

// genTwin: the CONCURRENT-ACTIVATION stream (c04).  One task with sources, without status / generates, of
// either method; the source is in place (optionally a first run and an edit); then the task is activated
// TWICE in one invocation — the second activation checks while the first is inside its first command.
func (g *fhGen) genTwin() fhCase {
	t := fhTask{Name: g.pick([]string{"x", "y", "a-b", "a:b", "a_b"}), Cmds: []fhCmd{{}}}
	switch g.c.Rng.Intn(3) {
	case 0:
		t.Method = "timestamp"
	case 1:
		t.Method = "checksum"
	}
	root := ""
	if !strings.Contains(t.Name, ":") && g.chance(25) {
		t.Dir = "sub"
		root = "sub/"
	}
	t.Sources = []fhGlob{{Glob: g.pick([]string{"a.e", "*.e", "**/*.e"})}}
	if g.chance(40) {
		t.Cmds = append(t.Cmds, fhCmd{Writes: []fhWrite{{Path: root + "out0_1.o", Content: "o"}}})
	}
	var d fhCase
	d.Tasks = []fhTask{t}
	add := func(st fhStep) {
		st.Fail, st.Kill = -1, -1
		switch st.Kind {
		case "inv":
			st.Yes, st.Now = true, int64(1000*(len(d.Steps)+1))
		case "write":
			st.Mtime = int64(1000*len(d.Steps) + 500)
		}
		d.Steps = append(d.Steps, st)
	}
	src := root + "a.e"
	add(fhStep{Kind: "write", Path: src, Content: g.content()})
	if g.chance(50) {
		add(fhStep{Kind: "inv", Mode: "run"})
		add(fhStep{Kind: "write", Path: src, Content: g.content() + "t"})
	}
	add(fhStep{Kind: "inv", Mode: "run", Twin: true})
	add(fhStep{Kind: "inv", Mode: g.pick([]string{"run", "status", "listjson"})})
	return d
}

// genSibling: the CANCELLED-BY-A-SIBLING stream (c04).  One task with sources and a `status:` file, of
// either method; the source and the status file are in place; optionally a first successful run and an
// edit; then the task runs as a dependency next to a sibling that fails while the task's status command
// is still running: the up-to-date check has recorded the new fingerprint, the first command is refused.
// The runs that follow must NOT report the task up to date on account of that attempt.
func (g *fhGen) genSibling() fhCase {
	rng := g.c.Rng
	t := fhTask{Name: g.pick([]string{"x", "y", "a-b", "a:b", "a_b"}), Cmds: []fhCmd{{}}}
	switch rng.Intn(3) {
	case 0:
		t.Method = "timestamp"
	case 1:
		t.Method = "checksum"
	}
	root := ""
	if !strings.Contains(t.Name, ":") && g.chance(25) {
		t.Dir = "sub"
		root = "sub/"
	}
	if g.chance(20) {
		t.Label = g.pick([]string{"L", "lab el"})
	}
	t.Prompt = g.chance(20)
	t.Sources = []fhGlob{{Glob: g.pick([]string{"a.e", "*.e", "**/*.e"})}}
	flag := root + "ok0.f"
	t.Status = []string{flag}
	if g.chance(50) {
		o := root + "out0_0.o"
		t.Cmds[0].Writes = []fhWrite{{Path: o, Content: "o"}}
		if g.chance(60) {
			t.Generates = []fhGlob{{Glob: "out0_0.o"}}
		}
	}
	if g.chance(40) {
		t.Cmds = append(t.Cmds, fhCmd{})
	}
	var d fhCase
	d.Tasks = []fhTask{t}
	add := func(st fhStep) {
		st.Fail, st.Kill = -1, -1
		switch st.Kind {
		case "inv":
			st.Yes, st.Now = true, int64(1000*(len(d.Steps)+1))
		case "write", "touch":
			st.Mtime = int64(1000*len(d.Steps) + 500)
		}
		d.Steps = append(d.Steps, st)
	}
	src := root + "a.e"
	add(fhStep{Kind: "write", Path: src, Content: g.content()})
	add(fhStep{Kind: "write", Path: flag, Content: "f"})
	if g.chance(55) {
		add(fhStep{Kind: "inv", Mode: g.pick([]string{"run", "run", "force"})})
		add(fhStep{Kind: "write", Path: src, Content: g.content() + "s"})
	}
	add(fhStep{Kind: "inv", Mode: "run", Sib: true})
	add(fhStep{Kind: "inv", Mode: g.pick([]string{"run", "run", "status", "listjson", "dry"})})
	if g.chance(50) {
		add(fhStep{Kind: "inv", Mode: "run"})
	}
	return d
}

func (g *fhGen) gen(maxLen int) fhCase {
	rng := g.c.Rng
	if g.prop == "c04" && g.chance(5) {
		return g.genSibling()
	}
	if g.prop == "c04" && g.chance(4) {
		return g.genDirected4to6("checkerr")
	}
	if g.prop == "c04" && g.chance(4) {
		return g.genTwin()
	}
	if g.prop == "c05" && g.chance(8) {
		return g.genDirected4to6(g.pick([]string{"ignore", "drop"}))
	}
	if g.prop == "c05" && g.chance(8) {
		return g.genShift()
	}
	if (g.prop == "c05" || g.prop == "c04") && g.chance(6) {
		return g.genLinks()
	}
	var d fhCase
	nt := 1 + rng.Intn(3)
	if g.chance(45) {
		nt = 1
	}
	used := map[string]bool{}
	type tinfo struct {
		root string
		pool []string
		outs []string
		flag string
		pre  string // the file a `task:` call of this task needs
	}
	var infos []tinfo
	twinMade := false
	for i := 0; i < nt; i++ {
		var t fhTask
		for {
			t.Name = g.pick(fhNames)
			if !used[t.Name] {
				used[t.Name] = true
				break
			}
		}
		included := strings.Contains(t.Name, ":")
		if g.chance(15) {
			t.Label = g.pick([]string{"L", "x", "a-b", "lab el"})
		}
		// directed stream (c04): the second task is a TWIN of the first — same directory, same sources,
		// method checksum — and the two have the same display name: equal labels, or the label of one is
		// the name of the other.  Before fix F8A they shared one checksum file.
		twin := g.prop == "c04" && i == 1 && len(d.Tasks[0].Sources) > 0 && (d.Tasks[0].Dir == "" || !included) && g.chance(12)
		switch r := rng.Intn(100); {
		case r < 45:
			t.Method = ""
		case r < 55:
			t.Method = "checksum"
		case r < 92:
			t.Method = "timestamp"
		default:
			t.Method = "none"
		}
		dirPct := 12
		if g.prop == "c12" {
			dirPct = 40
		}
		if !included && g.chance(dirPct) {
			t.Dir = g.pick([]string{"sub", "sub2"})
		}
		if twin {
			t0 := &d.Tasks[0]
			t.Dir = t0.Dir
			if t0.Method != "checksum" {
				t0.Method = ""
			}
			t.Method = t0.Method
			switch {
			case g.chance(50):
				if t0.Label == "" {
					t0.Label = g.pick([]string{"L", "a-b", "lab el"})
				}
				t.Label = t0.Label
			default:
				t0.Label, t.Label = "", t0.Name
			}
		}
		root := ""
		if t.Dir != "" {
			root = t.Dir + "/"
		}
		t.Prompt = g.chance(map[string]int{"c04": 35, "c05": 8, "c12": 20}[g.prop])
		info := tinfo{root: root}
		if g.chance(92) {
			for k := 1 + rng.Intn(3); k > 0; k-- {
				p := g.pick(fhSrcPats)
				if g.chance(30) {
					p = g.pick(fhSrcPool)
				}
				t.Sources = append(t.Sources, fhGlob{Glob: p, Neg: len(t.Sources) > 0 && g.chance(35), Tmpl: g.chance(20)})
			}
		}
		if twin {
			t.Sources = append([]fhGlob(nil), d.Tasks[0].Sources...)
			twinMade = true
		}
		for _, p := range fhSrcPool {
			if g.chance(60) {
				info.pool = append(info.pool, root+p)
			}
		}
		if len(info.pool) == 0 {
			info.pool = []string{root + "a.e"}
		}
		nc := 1 + rng.Intn(3)
		for k := 0; k < nc; k++ {
			var c fhCmd
			if g.chance(55) {
				o := fmt.Sprintf("%sout%d_%d.o", root, i, k)
				c.Writes = append(c.Writes, fhWrite{Path: o, Content: g.content()})
				info.outs = append(info.outs, o)
			}
			t.Cmds = append(t.Cmds, c)
		}
		// one of the commands is a `task:` call that fails (also under --dry) while its file is missing
		if g.chance(map[string]int{"c04": 15, "c05": 8, "c12": 35}[g.prop]) {
			info.pre = fmt.Sprintf("%spre%d.f", root, i)
			t.Cmds[rng.Intn(nc)].Need = info.pre
		}
		if g.chance(55) {
			for k := 1 + rng.Intn(2); k > 0; k-- {
				switch {
				case len(info.outs) > 0 && g.chance(70):
					t.Generates = append(t.Generates, fhGlob{Glob: strings.TrimPrefix(g.pick(info.outs), root), Neg: len(t.Generates) > 0 && g.chance(20)})
				case g.chance(50):
					t.Generates = append(t.Generates, fhGlob{Glob: "*.o", Neg: len(t.Generates) > 0 && g.chance(20)})
				default:
					o := fmt.Sprintf("%sextra%d.o", root, i)
					info.outs = append(info.outs, o)
					t.Generates = append(t.Generates, fhGlob{Glob: strings.TrimPrefix(o, root)})
				}
			}
		}
		if g.chance(25) {
			info.flag = fmt.Sprintf("%sok%d.f", root, i)
			t.Status = []string{info.flag}
		}
		// ignore_error on the task / on single commands: a failing exit status is skipped over
		if g.chance(12) {
			t.IgnoreError = true
		}
		for k := range t.Cmds {
			if g.chance(10) {
				t.Cmds[k].IgnoreError = true
			}
		}
		// a generates entry written `${G:?}/…` (method checksum): an error of the check while G is not set
		if (t.Method == "" || t.Method == "checksum") && len(t.Sources) > 0 && g.chance(15) {
			for gi, gg := range t.Generates {
				if !gg.Tmpl && !gg.Neg {
					t.GGuard = []int{gi}
					break
				}
			}
		}
		d.Tasks = append(d.Tasks, t)
		infos = append(infos, info)
	}
	// directed history for the twins: sources in place, the first task runs, then the second (which must
	// NOT be reported up to date: its own commands never ran), an edit, and both again
	if twinMade && g.chance(60) {
		t1 := &d.Tasks[1]
		t1.Generates, t1.Status = nil, nil
		for k := range t1.Cmds {
			t1.Cmds[k].Need = ""
		}
		add := func(st fhStep) {
			st.Fail, st.Kill = -1, -1
			if st.Kind == "inv" {
				st.Yes, st.Now = true, int64(1000*(len(d.Steps)+1))
			} else if st.Kind == "write" {
				st.Mtime = int64(1000*len(d.Steps) + 500)
			}
			d.Steps = append(d.Steps, st)
		}
		src := g.pick(infos[0].pool)
		add(fhStep{Kind: "write", Path: src, Content: g.content()})
		if infos[0].flag != "" {
			add(fhStep{Kind: "write", Path: infos[0].flag, Content: "f"})
		}
		if infos[0].pre != "" {
			add(fhStep{Kind: "write", Path: infos[0].pre, Content: "p"})
		}
		add(fhStep{Kind: "inv", Task: 0, Mode: "run"})
		add(fhStep{Kind: "inv", Task: 1, Mode: "run"})
		if g.chance(50) {
			add(fhStep{Kind: "write", Path: src, Content: g.content() + "y"})
			add(fhStep{Kind: "inv", Task: rng.Intn(2), Mode: "run"})
			add(fhStep{Kind: "inv", Task: rng.Intn(2), Mode: g.pick([]string{"run", "status", "listjson"})})
		}
		return d
	}
	// directed stream: a `task:` call that fails under --dry AFTER the task has stored a fingerprint —
	// run with the needed file present, remove it, edit a source, --dry (the call fails: nothing may
	// change), then look again with a run / --status / --list --json
	if g.chance(map[string]int{"c04": 4, "c05": 0, "c12": 15}[g.prop]) {
		ti := rng.Intn(nt)
		t, inf := &d.Tasks[ti], &infos[ti]
		if inf.pre == "" {
			inf.pre = fmt.Sprintf("%spre%d.f", inf.root, ti)
			t.Cmds[rng.Intn(len(t.Cmds))].Need = inf.pre
		}
		if t.Method == "none" {
			t.Method = ""
		}
		t.Sources = append(t.Sources, fhGlob{Glob: "a.e"})
		src := inf.root + "a.e"
		add := func(st fhStep) {
			st.Fail, st.Kill = -1, -1
			if st.Kind == "inv" {
				st.Task, st.Yes, st.Now = ti, true, int64(1000*(len(d.Steps)+1))
			} else if st.Kind == "write" {
				st.Mtime = int64(1000*len(d.Steps) + 500)
			}
			d.Steps = append(d.Steps, st)
		}
		add(fhStep{Kind: "write", Path: src, Content: g.content()})
		add(fhStep{Kind: "write", Path: inf.pre, Content: "p"})
		if inf.flag != "" && g.chance(50) {
			add(fhStep{Kind: "write", Path: inf.flag, Content: "f"})
		}
		add(fhStep{Kind: "inv", Mode: g.pick([]string{"run", "run", "force"})})
		add(fhStep{Kind: "delete", Path: inf.pre})
		if g.chance(85) {
			add(fhStep{Kind: "write", Path: src, Content: g.content() + "x"})
		}
		add(fhStep{Kind: "inv", Mode: "dry"})
		if g.chance(40) {
			add(fhStep{Kind: "write", Path: inf.pre, Content: "p"})
		}
		add(fhStep{Kind: "inv", Mode: g.pick([]string{"run", "status", "listjson", "dry"})})
		return d
	}
	// history
	n := 2 + rng.Intn(maxLen-1)
	// start with some sources in place
	for _, inf := range infos {
		for _, p := range inf.pool {
			if len(d.Steps) < n-1 && g.chance(55) {
				d.Steps = append(d.Steps, fhStep{Kind: "write", Path: p, Content: g.content(), Mtime: int64(1000*len(d.Steps) + 500), Fail: -1, Kill: -1})
			}
		}
		if inf.flag != "" && g.chance(70) && len(d.Steps) < n-1 {
			d.Steps = append(d.Steps, fhStep{Kind: "write", Path: inf.flag, Content: "f", Mtime: int64(1000*len(d.Steps) + 500), Fail: -1, Kill: -1})
		}
		if inf.pre != "" && g.chance(60) && len(d.Steps) < n-1 {
			d.Steps = append(d.Steps, fhStep{Kind: "write", Path: inf.pre, Content: "p", Mtime: int64(1000*len(d.Steps) + 500), Fail: -1, Kill: -1})
		}
	}
	if len(d.Steps) > maxLen/2 {
		d.Steps = d.Steps[:maxLen/2]
	}
	opPct := map[string]int{"c04": 25, "c05": 45, "c12": 25}[g.prop]
	if len(d.Steps) >= n {
		n = len(d.Steps) + 1
	}
	for len(d.Steps) < n {
		k := len(d.Steps)
		ti := rng.Intn(nt)
		inf := infos[ti]
		t := d.Tasks[ti]
		// the last step of a history without any invocation so far is an invocation
		if g.chance(opPct) && !(k == n-1 && !fhHasInv(d.Steps)) {
			mt := int64(1000*k + 500)
			switch r := rng.Intn(100); {
			case r < 10:
				mt = int64(1000 * k) // equal to the logical time of an invocation at step k-1
			case r < 20:
				mt = int64(3 + k)
			case r < 24:
				mt = 3_000_000_000 + int64(k)
			}
			s := fhStep{Fail: -1, Kill: -1, Mtime: mt}
			switch r := rng.Intn(100); {
			case inf.pre != "" && g.chance(30):
				if g.chance(55) {
					s.Kind, s.Path, s.Mtime = "delete", inf.pre, 0
				} else {
					s.Kind, s.Path, s.Content = "write", inf.pre, "p"
				}
			case r < 35:
				s.Kind, s.Path, s.Content = "write", g.pick(inf.pool), g.content()
			case r < 47:
				s.Kind, s.Path = "touch", g.pick(inf.pool)
			case r < 59:
				s.Kind, s.Path, s.Mtime = "delete", g.pick(inf.pool), 0
			case r < 75:
				s.Kind, s.Path, s.To, s.Mtime = "move", g.pick(inf.pool), inf.root+g.pick(fhSrcPool), 0
			case r < 83 && len(inf.outs) > 0:
				s.Kind, s.Path, s.Mtime = "delete", g.pick(inf.outs), 0
			case r < 91 && inf.flag != "":
				if g.chance(50) {
					s.Kind, s.Path, s.Mtime = "delete", inf.flag, 0
				} else {
					s.Kind, s.Path, s.Content = "write", inf.flag, "f"
				}
			case r < 96 && t.Dir != "":
				s.Kind, s.Dir, s.Mtime = "rmdir", t.Dir, 0
			default:
				s.Kind, s.Path, s.Content = "write", g.pick(inf.pool), g.content()
			}
			d.Steps = append(d.Steps, s)
			continue
		}
		s := fhStep{Kind: "inv", Task: ti, Now: int64(1000 * (k + 1)), Fail: -1, Kill: -1}
		var w []int // run force dry status listjson list summary
		switch g.prop {
		case "c04":
			w = []int{56, 8, 8, 8, 12, 4, 4}
		case "c05":
			w = []int{66, 12, 6, 6, 6, 2, 2}
		default:
			w = []int{30, 8, 18, 16, 16, 6, 6}
		}
		x := rng.Intn(100)
		for mi, name := range []string{"run", "force", "dry", "status", "listjson", "list", "summary"} {
			if x < w[mi] {
				s.Mode = name
				break
			}
			x -= w[mi]
		}
		if s.Mode == "" {
			s.Mode = "run"
		}
		s.Yes = !t.Prompt && g.chance(20) || t.Prompt && g.chance(60)
		for _, tt := range d.Tasks {
			if len(tt.GGuard) > 0 && g.chance(25) {
				s.NoG = true
			}
		}
		plainCmds := t.Method != "none"
		for _, cm := range t.Cmds {
			plainCmds = plainCmds && cm.Need == ""
		}
		if s.Mode == "run" && g.prop == "c04" && plainCmds && len(t.Status) == 0 && len(t.Generates) == 0 && len(t.Sources) > 0 && g.chance(10) {
			s.Twin, s.Yes, s.NoG = true, true, false
			d.Steps = append(d.Steps, s)
			continue
		}
		// (not for a task with a `dir:`: while that directory does not exist the status command cannot even
		// start, so there is nothing for the cancellation to interrupt)
		if s.Mode == "run" && g.prop == "c04" && t.Dir == "" && len(t.Status) > 0 && len(t.Sources) > 0 && g.chance(12) {
			s.Sib, s.Yes, s.NoG = true, true, false // (whose error the parent reports when both happen is a race)
			d.Steps = append(d.Steps, s)
			continue
		}
		if s.Mode == "run" || s.Mode == "force" {
			failPct, killPct := 18, 10
			if g.prop != "c04" {
				failPct, killPct = 10, 4
			}
			if g.chance(failPct) {
				s.Fail = rng.Intn(len(t.Cmds))
			} else if g.chance(killPct) {
				s.Kill = rng.Intn(len(t.Cmds))
			}
		}
		d.Steps = append(d.Steps, s)
	}
	return d
}

// decorate draws the RENDERING choices of a generated case (they never reach the case line):
//
//   - symbolic links: source files (`*.e`, `*.x` paths of the universe) that exist as links to files kept
//     outside the project, and the directories `d` / `e` of a task root as links to outside directories —
//     an edit or a touch then changes the TARGET, which is what both methods must look at;
//   - silence: `silent: true` on commands, `task:` calls, tasks, the root Taskfile, and `--silent` on
//     read-only invocations — silence changes what is printed, never what runs, in particular not under
//     --dry.
func (g *fhGen) decorate(d *fhCase) {
	rng := g.c.Rng
	hasTwinStep := false
	for _, st := range d.Steps {
		hasTwinStep = hasTwinStep || st.Twin
	}
	// (no links together with a twin step: a link's target is written outside the project, where a fresh mtime is not rebased
	// to the logical clock — the second activation of a timestamp task then sees a source "from the future" and runs: one
	// false alarm in 24 000 thorough cases before this restriction)
	if g.chance(30) && !hasTwinStep {
		paths, _ := fhUniverse(*d)
		roots := map[string]bool{"": true}
		for _, t := range d.Tasks {
			if t.Dir != "" {
				roots[t.Dir+"/"] = true
			}
		}
		for _, p := range paths {
			if (strings.HasSuffix(p, ".e") || strings.HasSuffix(p, ".x") || strings.Contains(p, "/d/") || strings.HasPrefix(p, "d/")) &&
				!strings.HasSuffix(p, ".o") && !strings.HasSuffix(p, ".f") && g.chance(45) {
				d.LinkFiles = append(d.LinkFiles, p)
			}
		}
		var rs []string
		for r := range roots {
			rs = append(rs, r)
		}
		sort.Strings(rs)
		for _, r := range rs {
			for _, sub := range []string{"d", "e"} {
				if g.chance(25) {
					d.LinkDirs = append(d.LinkDirs, r+sub)
				}
			}
		}
	}
	if len(d.Dangling) == 0 && g.chance(12) {
		// links to nothing next to the sources (names outside every universe)
		for _, t := range d.Tasks {
			root := ""
			if t.Dir != "" {
				root = t.Dir + "/"
			}
			d.Dangling = append(d.Dangling, root+g.pick([]string{"zz.e", "d/zz.e", "e/zz.x", "zz.x"}))
		}
	}
	hasTwin := false
	for _, st := range d.Steps {
		hasTwin = hasTwin || st.Twin
	}
	if g.chance(35) && !hasTwin { // (a twin step is observed through the "is up to date" message)
		for i := range d.Tasks {
			t := &d.Tasks[i]
			t.Silent = g.chance(25)
			for k := range t.Cmds {
				t.Cmds[k].Silent = g.chance(40)
			}
		}
		d.SilentFile = g.chance(15)
		for k := range d.Steps {
			// (`--list[-all] --silent` is another query — it prints the task names only — so the flag goes on
			// --dry / --status / --summary)
			if st := &d.Steps[k]; st.Kind == "inv" && (st.Mode == "dry" || st.Mode == "status" || st.Mode == "summary") {
				st.Silent = rng.Intn(100) < 30
			}
		}
	}
}

func fhHasInv(ss []fhStep) bool {
	for _, s := range ss {
		if s.Kind == "inv" {
			return true
		}
	}
	return false
}

func runFingerHist(c *Ctx, prop string) {
	if os.Getenv("VERIF_TASK_BIN") == "" {
		panic("fingerhist needs VERIF_TASK_BIN")
	}
	emit := func(lines []fhLine, desc any) {
		for _, l := range lines {
			c.Emit(l.cl, l.il, desc)
		}
	}
	if cs, ok := replayCases(c); ok {
		for _, raw := range cs {
			var d fhCase
			mustJSON(raw, &d)
			emit(evalHist(d, prop), raw)
		}
		return
	}
	maxLen := c.Pick(6, 10)
	n := c.Pick(map[string]int{"c04": 1500, "c05": 1500, "c12": 800}[prop], map[string]int{"c04": 12000, "c05": 12000, "c12": 6000}[prop])
	g := &fhGen{c: c, prop: prop}
	cases := make([]fhCase, n)
	for i := range cases {
		cases[i] = g.gen(maxLen)
		g.decorate(&cases[i])
	}
	results := make([][]fhLine, n)
	var wg sync.WaitGroup
	sem := make(chan struct{}, 10)
	for i := range cases {
		wg.Add(1)
		sem <- struct{}{}
		go func(i int) {
			defer wg.Done()
			defer func() { <-sem }()
			results[i] = evalHist(cases[i], prop)
		}(i)
	}
	wg.Wait()
	steps := 0
	for i, d := range cases {
		lines := results[i]
		interesting := false
		if len(d.LinkFiles) > 0 {
			c.Hit("render:symlinked-source-files")
		}
		if len(d.LinkDirs) > 0 {
			c.Hit("render:symlinked-directories")
		}
		if d.SilentFile {
			c.Hit("render:silent-taskfile")
		}
		if len(d.Dangling) > 0 {
			c.Hit("render:dangling-links")
		}
		for _, s := range d.Steps {
			steps++
			if s.Kind == "inv" {
				c.Hit("mode:" + s.Mode)
				if s.Silent {
					c.Hit("render:--silent")
				}
				if s.Sib {
					c.Hit("env:cancelled-by-sibling")
					interesting = true
				}
				if s.NoG {
					c.Hit("env:G-unset")
				}
				if s.Twin {
					c.Hit("env:second-activation")
					interesting = true
				}
				if s.Fail >= 0 {
					c.Hit("env:fail")
					interesting = true
				}
				if s.Kill >= 0 {
					c.Hit("env:kill")
					interesting = true
				}
			} else {
				c.Hit("op:" + s.Kind)
			}
		}
		for _, t := range d.Tasks {
			m := t.Method
			if m == "" {
				m = "default"
			}
			c.Hit("method:" + m)
			if t.Label != "" {
				c.Hit("shape:label")
			}
			if len(d.Tasks) == 1 && len(t.Sources) == 1 && t.Sources[0].Glob == "d/*" {
				c.Hit("shape:boundary-shift")
			}
			for _, u := range d.Tasks {
				if u.Name != t.Name && fhDisplay(u) == fhDisplay(t) {
					c.Hit("shape:equal-display-name")
				}
			}
			if strings.Contains(t.Name, ":") {
				c.Hit("shape:included")
			}
			if t.Silent {
				c.Hit("render:silent-task")
			}
			if t.IgnoreError {
				c.Hit("shape:ignore_error-task")
			}
			if len(t.GGuard) > 0 {
				c.Hit("shape:guarded-generates")
			}
			for _, gl := range t.Sources {
				if strings.Contains(gl.Glob, "{") {
					c.Hit("shape:brace-pattern")
				}
			}
			for _, cm := range t.Cmds {
				if cm.Silent && cm.Need == "" {
					c.Hit("render:silent-cmd")
				}
				if cm.Silent && cm.Need != "" {
					c.Hit("render:silent-call")
				}
			}
			if t.Dir != "" {
				c.Hit("shape:dir")
			}
			if t.Prompt {
				c.Hit("shape:prompt")
			}
			if len(t.Status) > 0 {
				c.Hit("shape:status")
			}
			if len(t.Generates) > 0 {
				c.Hit("shape:generates")
			}
			for _, cm := range t.Cmds {
				if cm.Need != "" {
					c.Hit("shape:call")
				}
			}
		}
		if len(lines) > 0 {
			il := lines[0].il
			if strings.Contains(il, " s=1 ") {
				c.Hit("obs:skip")
				interesting = true
			}
			if strings.Contains(il, "e=cancelled") {
				c.Hit("obs:cancelled")
				interesting = true
			}
			if strings.Contains(il, "e=killed") {
				c.Hit("obs:killed")
			}
			if strings.Contains(il, "e=failed") {
				c.Hit("obs:failed")
			}
			if strings.Contains(il, "e=notuptodate") {
				c.Hit("obs:notuptodate")
			}
		}
		for _, l := range lines[1:] {
			if l.il != "ok" {
				c.Hit("monitor:violation")
			}
		}
		if interesting {
			c.Distinct(lines[0].cl)
		}
		emit(lines, d)
	}
	c.Extra["steps"] = steps
}

var _ = hex.EncodeToString
