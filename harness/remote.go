package main

// Domain `remote` (C20): the real `task` binary against a loopback HTTP server owned by
// the harness, over sequences of (server state × flags × prompt answer).  Prompts are
// answered through a pseudo-terminal (Logger.Prompt wants stdin and stdout to be
// terminals); "none" runs with stdin closed and stdout on a pipe.

import (
	"bytes"
	"context"
	"crypto/sha256"
	"encoding/json"
	"fmt"
	"io"
	"net"
	"net/http"
	"os"
	"os/exec"
	"path/filepath"
	"sort"
	"strings"
	"sync"
	"syscall"
	"time"
	"unsafe"
)

func init() {
	domains["remote"] = domain{runRemote,
		"a case is a sequence (≤5 quick, ≤8 thorough) of invocations of the task binary on a remote Taskfile served by a " +
			"loopback server the harness owns: per step the server serves version k / refuses (listener closed) / resets / " +
			"404 / 500 / HEAD-ok-GET-500 / foreign content type / stalls past --timeout 300ms (on HEAD or on GET), the flags " +
			"--yes --download --offline --expiry 0|1h --insecure --timeout 300ms|10s --clear-cache vary, the cache is aged by 2h, " +
			"the prompt is answered y/yes/n/… through a pty or there is no terminal, root entrypoint or include, two http URLs " +
			"and one https URL, experiment on/off; observed: exit code, which version's marker ran, cache files (content version, " +
			"stored checksum, timestamp present) of every URL — compared with Remote.invoke over the same sequence; plus the " +
			"property monitor (a marker ran ⇒ that version was offered under --yes or an accepted prompt at or before the step). " +
			"non-trivial = a step gets past the flag/scheme gate; distinct by model case line"}
}

type remStep struct {
	Age        int    `json:"age,omitempty"` // hours the cache is aged before the step (model dt)
	URL        int    `json:"url"`           // 0 http /aa, 1 http /bb, 2 https /aa (TLS to a plain-http server: always fails)
	Via        string `json:"via"`           // root | include
	Yes        bool   `json:"yes,omitempty"`
	Download   bool   `json:"download,omitempty"`
	Offline    bool   `json:"offline,omitempty"`
	Insecure   bool   `json:"insecure,omitempty"`
	Expiry     int    `json:"expiry,omitempty"` // hours: 0 | 1
	ExpiryOmit bool   `json:"expiry_omit,omitempty"`
	Patient    bool   `json:"patient,omitempty"` // --timeout 10s instead of 300ms
	Clear      bool   `json:"clear,omitempty"`
	NoExp      bool   `json:"no_experiment,omitempty"`
	Server     string `json:"server"` // serve refuse reset 404 500 get500 ctype stall stallget
	V          int    `json:"v,omitempty"`
	Answer     string `json:"answer"` // accept | decline | none
	Text       string `json:"text,omitempty"`
}

type remCase struct {
	Steps []remStep `json:"steps"`
}

const remURLs = 3
const remStallDelay = 1200 * time.Millisecond

var remPaths = []string{"/aa/Taskfile.yml", "/bb/Taskfile.yml", "/aa/Taskfile.yml"}

func remContent(u, v int) []byte {
	return []byte(fmt.Sprintf("version: '3'\nsilent: true\ntasks:\n  probe:\n    cmds:\n      - echo u%dv%d >> \"$VERIF_TRACE\"\n", u, v))
}

func sha256hex(b []byte) string { return fmt.Sprintf("%x", sha256.Sum256(b)) }

// ---- normalisation shared by the case line and the CLI invocation

func (s remStep) norm() remStep {
	if s.NoExp { // the remote flags do not exist without the experiment
		s.Download, s.Offline, s.Clear, s.Expiry, s.ExpiryOmit, s.Patient = false, false, false, 0, true, true
	}
	if s.Expiry != 0 {
		s.Expiry, s.ExpiryOmit = 1, false
	}
	if s.Age != 0 {
		s.Age = 2
	}
	if s.URL < 0 || s.URL >= remURLs {
		s.URL = 0
	}
	if s.V < 1 {
		s.V = 1
	}
	if s.Via != "include" {
		s.Via = "root"
	}
	switch s.Answer {
	case "accept":
		if s.Text == "" {
			s.Text = "y"
		}
	case "decline":
	default:
		s.Answer = "none"
	}
	return s
}

func (s remStep) stalls() bool { return s.Server == "stall" || s.Server == "stallget" }

func remCaseLine(d remCase) string {
	var sb strings.Builder
	fmt.Fprintf(&sb, "remote.run %d %d", remURLs, len(d.Steps))
	for _, s := range d.Steps {
		s = s.norm()
		sk, sa := 0, s.V
		switch s.Server {
		case "serve":
		case "stall", "stallget":
			sk = 2
		case "refuse", "reset":
			sk, sa = 1, 0
		case "404", "500", "ctype":
			sk, sa = 1, 1
		case "get500":
			sk, sa = 1, 2
		default:
			sk, sa = 1, 0
		}
		if s.URL == 2 { // TLS handshake with a plain-http server (or no server): the fetch fails
			sk, sa = 1, 0
		}
		ans := map[string]int{"accept": 0, "decline": 1, "none": 2}[s.Answer]
		fmt.Fprintf(&sb, " %d %d %s %s %s %s %s %d %s %s %s %d %d %d", s.Age, s.URL, b2s(s.URL == 2),
			b2s(s.Yes), b2s(s.Download), b2s(s.Offline), b2s(s.Insecure), s.Expiry, b2s(s.Patient), b2s(s.Clear),
			b2s(!s.NoExp), sk, sa, ans)
	}
	return sb.String()
}

// ---- the loopback server

type remServer struct {
	mu    sync.Mutex
	ln    net.Listener
	srv   *http.Server
	port  int
	state remStep
}

func (rs *remServer) handler(w http.ResponseWriter, r *http.Request) {
	rs.mu.Lock()
	st := rs.state
	rs.mu.Unlock()
	u := -1
	for i, p := range remPaths[:2] {
		if r.URL.Path == p {
			u = i
		}
	}
	serve := func() {
		if u < 0 {
			http.NotFound(w, r)
			return
		}
		w.Header().Set("Content-Type", "text/yaml")
		w.WriteHeader(200)
		if r.Method != "HEAD" {
			w.Write(remContent(u, st.V))
		}
	}
	wait := func() {
		t := time.NewTimer(remStallDelay)
		defer t.Stop()
		select {
		case <-r.Context().Done():
		case <-t.C:
		}
	}
	switch st.Server {
	case "serve":
		serve()
	case "404":
		http.NotFound(w, r)
	case "500":
		http.Error(w, "boom", 500)
	case "get500":
		if r.Method == "HEAD" {
			serve()
		} else {
			http.Error(w, "boom", 500)
		}
	case "ctype":
		if u < 0 {
			http.NotFound(w, r)
			return
		}
		w.Header().Set("Content-Type", "application/octet-stream")
		w.WriteHeader(200)
		if r.Method != "HEAD" {
			w.Write(remContent(u, st.V))
		}
	case "stall":
		wait()
		serve()
	case "stallget":
		if r.Method != "HEAD" {
			wait()
		}
		serve()
	case "reset":
		if hj, ok := w.(http.Hijacker); ok {
			if conn, _, err := hj.Hijack(); err == nil {
				if tc, ok := conn.(*net.TCPConn); ok {
					tc.SetLinger(0)
				}
				conn.Close()
				return
			}
		}
		http.Error(w, "boom", 500)
	default:
		http.Error(w, "boom", 500)
	}
}

func (rs *remServer) listen() error {
	addr := fmt.Sprintf("127.0.0.1:%d", rs.port)
	var ln net.Listener
	var err error
	for i := 0; i < 40; i++ {
		ln, err = net.Listen("tcp", addr)
		if err == nil {
			break
		}
		time.Sleep(15 * time.Millisecond)
	}
	if err != nil {
		return err
	}
	rs.port = ln.Addr().(*net.TCPAddr).Port
	rs.ln = ln
	rs.srv = &http.Server{Handler: http.HandlerFunc(rs.handler)}
	go rs.srv.Serve(ln)
	return nil
}

func (rs *remServer) close() {
	if rs.srv != nil {
		rs.srv.Close()
		rs.srv, rs.ln = nil, nil
	}
}

// ---- pty

func openPty() (master, slave *os.File, err error) {
	master, err = os.OpenFile("/dev/ptmx", os.O_RDWR|syscall.O_NOCTTY, 0)
	if err != nil {
		return nil, nil, err
	}
	var n uint32
	var unlock int32
	if _, _, e := syscall.Syscall(syscall.SYS_IOCTL, master.Fd(), syscall.TIOCGPTN, uintptr(unsafe.Pointer(&n))); e != 0 {
		master.Close()
		return nil, nil, e
	}
	if _, _, e := syscall.Syscall(syscall.SYS_IOCTL, master.Fd(), syscall.TIOCSPTLCK, uintptr(unsafe.Pointer(&unlock))); e != 0 {
		master.Close()
		return nil, nil, e
	}
	slave, err = os.OpenFile(fmt.Sprintf("/dev/pts/%d", n), os.O_RDWR|syscall.O_NOCTTY, 0)
	if err != nil {
		master.Close()
		return nil, nil, err
	}
	return master, slave, nil
}

var (
	ptyOnce sync.Once
	ptyOK   bool
)

func havePty() bool {
	ptyOnce.Do(func() {
		m, s, err := openPty()
		if err == nil {
			m.Close()
			s.Close()
			ptyOK = true
		}
	})
	return ptyOK
}

// ---- one sequence on the real binary

type remRun struct {
	dir, cache, proj, trace string
	srv                     *remServer
	urls                    [remURLs]string
	keys                    [remURLs]string // sha256(url): part of every cache file name of that url
}

type errInconclusive struct{ why string }

func (e errInconclusive) Error() string { return e.why }

func (rr *remRun) runCLI(s remStep) (exit int, out string, err error) {
	bin := os.Getenv("VERIF_TASK_BIN")
	var args []string
	if s.Via == "include" {
		args = append(args, "-t", fmt.Sprintf("inc%d.yml", s.URL), "r:probe")
	} else {
		args = append(args, "-t", rr.urls[s.URL], "probe")
	}
	args = append(args, "-v")
	if s.Insecure {
		args = append(args, "--insecure")
	}
	if s.Yes {
		args = append(args, "--yes")
	}
	if !s.NoExp {
		if s.Download {
			args = append(args, "--download")
		}
		if s.Offline {
			args = append(args, "--offline")
		}
		if s.Clear {
			args = append(args, "--clear-cache")
		}
		if s.Expiry == 1 {
			args = append(args, "--expiry", "1h")
		} else if !s.ExpiryOmit {
			args = append(args, "--expiry", "0s")
		}
		if s.Patient {
			args = append(args, "--timeout", "10s")
		} else {
			args = append(args, "--timeout", "300ms")
		}
	}
	ctx, cancel := context.WithTimeout(context.Background(), 40*time.Second)
	defer cancel()
	cmd := exec.CommandContext(ctx, bin, args...) // cancelled by Process.Kill (SIGKILL)
	cmd.Dir = rr.proj
	cmd.Env = []string{"PATH=" + os.Getenv("PATH"), "HOME=" + filepath.Join(rr.dir, "home"), "NO_COLOR=1",
		"TASK_REMOTE_DIR=" + rr.cache, "VERIF_TRACE=" + rr.trace}
	if !s.NoExp {
		cmd.Env = append(cmd.Env, "TASK_X_REMOTE_TASKFILES=1")
	}
	var buf bytes.Buffer
	var mu sync.Mutex
	w := &lockedWriter{&mu, &buf}
	cmd.Stderr = w
	var master *os.File
	done := make(chan struct{})
	if s.Answer == "none" {
		cmd.Stdin = nil
		cmd.Stdout = w
		close(done)
	} else {
		m, sl, e := openPty()
		if e != nil {
			return 0, "", errInconclusive{"no pty: " + e.Error()}
		}
		master = m
		cmd.Stdin, cmd.Stdout = sl, sl
		// the answer is typed ahead; the line discipline keeps it until the prompt reads it
		if _, e := master.Write([]byte(s.Text + "\n")); e != nil {
			master.Close()
			sl.Close()
			return 0, "", errInconclusive{"pty write: " + e.Error()}
		}
		if e := cmd.Start(); e != nil {
			master.Close()
			sl.Close()
			return 0, "", e
		}
		sl.Close()
		go func() { io.Copy(w, master); close(done) }()
	}
	if master == nil {
		if e := cmd.Start(); e != nil {
			return 0, "", e
		}
	}
	werr := cmd.Wait()
	if master != nil {
		select {
		case <-done:
		case <-time.After(3 * time.Second):
		}
		master.Close()
		<-done
	}
	if ctx.Err() != nil {
		return 0, "", errInconclusive{"task binary hung (killed)"}
	}
	mu.Lock()
	out = buf.String()
	mu.Unlock()
	if werr != nil {
		if ee, ok := werr.(*exec.ExitError); ok {
			return ee.ExitCode(), out, nil
		}
		return 0, out, werr
	}
	return 0, out, nil
}

type lockedWriter struct {
	mu *sync.Mutex
	b  *bytes.Buffer
}

func (l *lockedWriter) Write(p []byte) (int, error) {
	l.mu.Lock()
	defer l.mu.Unlock()
	return l.b.Write(p)
}

func (rr *remRun) age(hours int) {
	ents, _ := os.ReadDir(filepath.Join(rr.cache, "remote"))
	for _, e := range ents {
		if !strings.HasSuffix(e.Name(), ".timestamp") {
			continue
		}
		p := filepath.Join(rr.cache, "remote", e.Name())
		b, err := os.ReadFile(p)
		if err != nil {
			continue
		}
		t, err := time.Parse(time.RFC3339, string(b))
		if err != nil {
			continue
		}
		os.WriteFile(p, []byte(t.Add(-time.Duration(hours)*time.Hour).Format(time.RFC3339)), 0o644)
	}
}

// cacheView: per URL `<content version|->,<checksum version|->,<timestamp present>`; foreign files are listed
func (rr *remRun) cacheView() string {
	type ent struct{ c, s, t string }
	v := [remURLs]ent{}
	for i := range v {
		v[i] = ent{"-", "-", "0"}
	}
	var unknown []string
	ents, _ := os.ReadDir(filepath.Join(rr.cache, "remote"))
	for _, e := range ents {
		name := e.Name()
		u := -1
		for i, k := range rr.keys {
			if strings.Contains(name, k) {
				u = i
			}
		}
		if u < 0 {
			unknown = append(unknown, "unknown:"+name)
			continue
		}
		b, _ := os.ReadFile(filepath.Join(rr.cache, "remote", name))
		cu := u
		if cu == 2 {
			cu = 0
		}
		switch {
		case strings.HasSuffix(name, ".yaml"):
			v[u].c = "?"
			for k := 1; k <= 9; k++ {
				if bytes.Equal(b, remContent(cu, k)) {
					v[u].c = fmt.Sprint(k)
				}
			}
		case strings.HasSuffix(name, ".checksum"):
			if len(b) == 0 {
				break
			}
			v[u].s = "?"
			for k := 1; k <= 9; k++ {
				if string(b) == sha256hex(remContent(cu, k)) {
					v[u].s = fmt.Sprint(k)
				}
			}
		case strings.HasSuffix(name, ".timestamp"):
			v[u].t = "1"
		default:
			unknown = append(unknown, "unknown:"+name)
		}
	}
	parts := make([]string, 0, remURLs+len(unknown))
	for _, e := range v {
		parts = append(parts, e.c+","+e.s+","+e.t)
	}
	sort.Strings(unknown)
	return strings.Join(append(parts, unknown...), " ")
}

func remEvalOnce(d remCase, work string) (impl string, err error) {
	if os.Getenv("VERIF_TASK_BIN") == "" {
		return "", fmt.Errorf("VERIF_TASK_BIN not set")
	}
	rr := &remRun{dir: work, cache: filepath.Join(work, "cache"), proj: filepath.Join(work, "proj"), trace: filepath.Join(work, "trace")}
	for _, p := range []string{rr.cache, rr.proj, filepath.Join(work, "home")} {
		if e := os.MkdirAll(p, 0o755); e != nil {
			return "", e
		}
	}
	defer os.RemoveAll(work)
	rr.srv = &remServer{}
	if e := rr.srv.listen(); e != nil {
		return "", errInconclusive{"listen: " + e.Error()}
	}
	defer rr.srv.close()
	for u := 0; u < remURLs; u++ {
		scheme := "http"
		if u == 2 {
			scheme = "https"
		}
		rr.urls[u] = fmt.Sprintf("%s://127.0.0.1:%d%s", scheme, rr.srv.port, remPaths[u])
		rr.keys[u] = sha256hex([]byte(rr.urls[u]))
		inc := fmt.Sprintf("version: '3'\nincludes:\n  r: %s\n", rr.urls[u])
		if e := os.WriteFile(filepath.Join(rr.proj, fmt.Sprintf("inc%d.yml", u)), []byte(inc), 0o644); e != nil {
			return "", e
		}
	}
	approved := map[[2]int]bool{} // (url, version) offered under --yes or an accepted prompt so far
	var outs []string
	for i, s := range d.Steps {
		s = s.norm()
		if s.Age > 0 {
			rr.age(s.Age)
		}
		// server state for this step
		if s.Server == "refuse" {
			rr.srv.close()
		} else {
			rr.srv.mu.Lock()
			rr.srv.state = s
			rr.srv.mu.Unlock()
			if rr.srv.srv == nil {
				if e := rr.srv.listen(); e != nil {
					return "", errInconclusive{"re-listen on the same port: " + e.Error()}
				}
			}
		}
		os.Remove(rr.trace)
		exit, out, e := rr.runCLI(s)
		if e != nil {
			return "", e
		}
		// a timeout although the server was not stalling: the machine was too slow for --timeout 300ms
		offered := s.Server == "serve" || (s.stalls() && s.Patient)
		if !(s.stalls() && !s.Patient) && (exit == 108 || strings.Contains(out, "deadline exceeded")) {
			return "", errInconclusive{fmt.Sprintf("spurious timeout: step %d", i)}
		}
		if offered && s.URL != 2 && (s.Yes || s.Answer == "accept") {
			approved[[2]int{s.URL, s.V}] = true
		}
		var ran []string
		if b, e := os.ReadFile(rr.trace); e == nil {
			ran = strings.Fields(string(b))
		}
		res := ""
		violation := false
		cu := s.URL
		if cu == 2 {
			cu = 0
		}
		for _, m := range ran {
			var mu, mv int
			if n, _ := fmt.Sscanf(m, "u%dv%d", &mu, &mv); n != 2 || mu != cu || !approved[[2]int{s.URL, mv}] {
				violation = true
			}
		}
		switch {
		case exit == 0 && len(ran) == 1:
			var mu, mv int
			if n, _ := fmt.Sscanf(ran[0], "u%dv%d", &mu, &mv); n == 2 && mu == cu {
				res = fmt.Sprintf("run:%d", mv)
			} else {
				res = "run:?" + ran[0]
			}
		case exit == 0 && len(ran) == 0 && s.Clear:
			res = "cleared"
		case exit == 0:
			res = "ok-ran:" + strings.Join(ran, "+")
		case len(ran) == 0:
			res = fmt.Sprintf("err:%d", exit)
		default:
			res = fmt.Sprintf("err:%d+ran:%s", exit, strings.Join(ran, "+"))
		}
		line := res + " " + rr.cacheView()
		if violation {
			line += " TRUST-VIOLATION"
		}
		outs = append(outs, line)
	}
	return strings.Join(outs, " ; "), nil
}

var remSeq struct {
	sync.Mutex
	n       int
	retries map[string]int
}

func evalRemote(d remCase) (string, string) {
	cl := remCaseLine(d)
	base := os.Getenv("VERIF_SCRATCH")
	if base == "" {
		base = os.TempDir()
	}
	var last error
	for attempt := 0; attempt < 4; attempt++ {
		remSeq.Lock()
		remSeq.n++
		work := filepath.Join(base, "remote", fmt.Sprintf("s%d", remSeq.n))
		remSeq.Unlock()
		impl, err := remEvalOnce(d, work)
		if err == nil {
			return cl, impl
		}
		last = err
		if _, ok := err.(errInconclusive); !ok {
			break
		}
		remSeq.Lock()
		if remSeq.retries == nil {
			remSeq.retries = map[string]int{}
		}
		remSeq.retries[strings.SplitN(err.Error(), ":", 2)[0]]++
		remSeq.Unlock()
	}
	return cl, "harness-error " + strings.ReplaceAll(last.Error(), "\n", " ")
}

// ---- generation

func (c *Ctx) remStep(prev *remStep, pty bool) remStep {
	r := c.Rng
	s := remStep{Via: "root", Answer: "none"}
	if r.Intn(100) < 30 {
		s.Via = "include"
	}
	switch x := r.Intn(100); {
	case x < 74:
		s.URL = 0
	case x < 94:
		s.URL = 1
	default:
		s.URL = 2
	}
	if r.Intn(100) < 15 {
		s.Age = 2
	}
	s.Insecure = r.Intn(100) < 88
	s.Yes = r.Intn(100) < 30
	s.NoExp = r.Intn(100) < 4
	dl, off := r.Intn(100) < 22, r.Intn(100) < 22
	if dl && off && r.Intn(100) < 75 {
		if r.Intn(2) == 0 {
			dl = false
		} else {
			off = false
		}
	}
	s.Download, s.Offline = dl, off
	if r.Intn(100) < 50 {
		s.Expiry = 1
	} else {
		s.ExpiryOmit = r.Intn(2) == 0
	}
	s.Clear = r.Intn(100) < 4
	// server
	s.V = 1 + r.Intn(3)
	if prev != nil && r.Intn(100) < 55 {
		s.V = prev.V
	}
	switch x := r.Intn(100); {
	case x < 52:
		s.Server = "serve"
	case x < 63:
		s.Server = "refuse"
	case x < 68:
		s.Server = "reset"
	case x < 73:
		s.Server = "404"
	case x < 76:
		s.Server = "500"
	case x < 80:
		s.Server = "get500"
	case x < 83:
		s.Server = "ctype"
	case x < 94:
		s.Server = "stall"
	default:
		s.Server = "stallget"
	}
	if s.stalls() {
		s.Patient = r.Intn(100) < 25
	} else {
		s.Patient = r.Intn(100) < 10
	}
	if pty {
		switch x := r.Intn(100); {
		case x < 35:
			s.Answer = "accept"
			s.Text = []string{"y", "yes", "Y", "YES", " y "}[r.Intn(5)]
		case x < 60:
			s.Answer = "decline"
			s.Text = []string{"n", "", "no", "x", "yes please", "N"}[r.Intn(6)]
		}
	}
	return s
}

func runRemote(c *Ctx) {
	if c.Replay(func(raw []byte) (string, string) {
		var d remCase
		mustJSON(raw, &d)
		return evalRemote(d)
	}) {
		return
	}
	pty := havePty()
	if !pty {
		c.Hit("pty-unavailable")
	}
	maxLen := c.Pick(5, 8)
	n := c.Pick(500, 6000)
	cases := make([]remCase, 0, n)
	for i := 0; i < n; i++ {
		k := 2 + c.Rng.Intn(maxLen-1)
		var d remCase
		var prev *remStep
		for j := 0; j < k; j++ {
			s := c.remStep(prev, pty)
			if j == 0 && c.Rng.Intn(100) < 60 { // most histories start by getting an approved copy
				s.Server, s.Yes, s.Insecure, s.NoExp, s.Offline, s.Clear, s.Patient = "serve", true, true, false, false, false, false
				if s.URL == 2 {
					s.URL = 0
				}
			}
			d.Steps = append(d.Steps, s)
			prev = &d.Steps[len(d.Steps)-1]
		}
		cases = append(cases, d)
	}
	type res struct{ cl, il string }
	out := make([]res, len(cases))
	workers := 12
	var wg sync.WaitGroup
	jobs := make(chan int)
	for w := 0; w < workers; w++ {
		wg.Add(1)
		go func() {
			defer wg.Done()
			for i := range jobs {
				cl, il := evalRemote(cases[i])
				out[i] = res{cl, il}
			}
		}()
	}
	for i := range cases {
		jobs <- i
	}
	close(jobs)
	wg.Wait()
	for i, d := range cases {
		steps := strings.Split(out[i].il, " ; ")
		open := false
		for j, s := range d.Steps {
			c.Hit("server:" + s.Server)
			c.Hit("answer:" + s.Answer)
			c.Hit("via:" + s.Via)
			if j < len(steps) {
				r := strings.SplitN(steps[j], " ", 2)[0]
				c.Hit("result:" + strings.SplitN(r, ":", 2)[0] + func() string {
					if strings.HasPrefix(r, "err:") {
						return ":" + strings.TrimPrefix(r, "err:")
					}
					return ""
				}())
				if r != "err:1" && r != "err:105" {
					open = true
				}
			}
		}
		if strings.HasPrefix(out[i].il, "harness-error") {
			c.Hit("harness-error")
		}
		if open {
			c.Distinct(out[i].cl)
		}
		c.Emit(out[i].cl, out[i].il, d)
	}
	b, _ := json.Marshal(map[string]any{"pty": pty, "workers": workers, "sequences_rerun": remSeq.retries})
	c.Extra["remote"] = json.RawMessage(b)
}
