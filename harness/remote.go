package main

// Domain `remote` (C20): the real `task` binary against a loopback HTTP server owned by
// the harness, over sequences of (server state × flags × prompt answer).  Prompts are
// answered through a pseudo-terminal (Logger.Prompt wants stdin and stdout to be
// terminals); "none" runs with stdin closed and stdout on a pipe.

import (
	"bytes"
	"context"
	"crypto/sha256"
	"encoding/json"
	"fmt"
	"io"
	"net"
	"net/http"
	"os"
	"os/exec"
	"path/filepath"
	"sort"
	"strings"
	"sync"
	"syscall"
	"time"
	"unsafe"
)

func init() {
	domains["remote"] = domain{runRemote,
		"a case is a sequence (≤5 quick, ≤8 thorough) of invocations of the task binary on a remote Taskfile served by a " +
			"loopback server the harness owns: per step the server serves version k / refuses (listener closed) / resets / " +
			"404 / 500 / HEAD-ok-GET-500 / foreign content type / stalls past --timeout 300ms (on HEAD or on GET), the flags " +
			"--yes --download --offline --expiry 0|1h --insecure --timeout 300ms|10s --clear-cache vary, the cache is aged by 2h, " +
			"the prompt is answered y/yes/n/… through a pty or there is no terminal, root entrypoint or include, two http URLs " +
			"on different paths, one https URL, and three http URLs that differ from the first only in the query (?v=2), in the letter " +
			"case of the path, in a doubled slash (each served its own content; successive steps of a sequence share the cache directory, " +
			"so a cache entry shared by two URLs shows as foreign content, a false 'has changed' prompt or a missing entry), experiment on/off; observed: exit code, which version's marker ran, cache files (content version, " +
			"stored checksum, timestamp present) of every URL — compared with Remote.invoke over the same sequence; plus the " +
			"property monitor (a marker ran ⇒ that version was offered under --yes or an accepted prompt at or before the step). " +
			"Second stream (op remote.chain, 250 quick / 3000 thorough sequences): CHAINS — per sequence A and B are the two paths, or (37%) " +
			"two URLs of one path that differ only in the query; A's served content (number v+10k) includes B by a relative (k=1,2,5) or " +
			"absolute (k=3,4,6) http reference, " +
			"rarely itself (cycle, 110) or nothing; A's probe task calls B's; per step the server behaves independently for A and for B " +
			"(serve version / reset / 404 / 500 / GET-500 / foreign content type / stall on HEAD or GET; refuse = listener closed for both), " +
			"both are read under the ONE --timeout 300ms|10s of the invocation (A stalling uses it up before B's read starts), flags as " +
			"above, prompts answered per URL through the pty (A's and B's answers vary independently), root or include-of-local-root; " +
			"most sequences first download and approve both; at most 150 (quick) steps with a stall past the timeout; compared with " +
			"Chain.invokeChain (exit code, markers of A and of B that ran, cache files of every URL) plus the same trust monitor for both. " +
			"non-trivial = a step gets past the flag/scheme gate; distinct by model case line"}
}

type remStep struct {
	Age        int    `json:"age,omitempty"` // hours the cache is aged before the step (model dt)
	URL        int    `json:"url"`           // see remPaths: 0 http /aa, 1 http /bb, 2 https /aa (always fails), 3 /aa…?v=2, 4 /aa/taskfile.yml, 5 /aa//Taskfile.yml
	Via        string `json:"via"`           // root | include
	Yes        bool   `json:"yes,omitempty"`
	Download   bool   `json:"download,omitempty"`
	Offline    bool   `json:"offline,omitempty"`
	Insecure   bool   `json:"insecure,omitempty"`
	Expiry     int    `json:"expiry,omitempty"` // hours: 0 | 1
	ExpiryOmit bool   `json:"expiry_omit,omitempty"`
	Patient    bool   `json:"patient,omitempty"` // --timeout 10s instead of 300ms
	Clear      bool   `json:"clear,omitempty"`
	NoExp      bool   `json:"no_experiment,omitempty"`
	Server     string `json:"server"` // serve refuse reset 404 500 get500 ctype stall stallget
	V          int    `json:"v,omitempty"`
	Answer     string `json:"answer"` // accept | decline | none
	Text       string `json:"text,omitempty"`
	// chains (remCase.Chain): the content served for this step's URL is number V+10*Inc and includes
	// (Inc 1,3: URL 0; Inc 2,4: URL 1; 1,2 by a relative, 3,4 by an absolute reference) the other http URL,
	// for which the server behaves as Server2/V2 and whose prompt is answered Answer2/Text2
	Inc     int    `json:"inc,omitempty"`
	Server2 string `json:"server2,omitempty"`
	V2      int    `json:"v2,omitempty"`
	Answer2 string `json:"answer2,omitempty"`
	Text2   string `json:"text2,omitempty"`
}

type remCase struct {
	Steps []remStep `json:"steps"`
	Chain bool      `json:"chain,omitempty"` // model op remote.chain; prompts answered per URL
}

// URL ids (the model's abstract, pairwise distinct cache keys): 0 http /aa/Taskfile.yml, 1 http /bb/Taskfile.yml,
// 2 https /aa/Taskfile.yml (TLS to a plain-http server: always fails), and three URLs that differ from URL 0 only
// 3 in the query (?v=2), 4 in the letter case of the path, 5 in a doubled slash.  Every http URL is served its
// own content (the marker names the URL), so two URLs sharing one cache entry show as a foreign content or prompt.
const remURLs = 6
const remStallDelay = 1200 * time.Millisecond

var remPaths = []string{"/aa/Taskfile.yml", "/bb/Taskfile.yml", "/aa/Taskfile.yml", "/aa/Taskfile.yml?v=2", "/aa/taskfile.yml", "/aa//Taskfile.yml"}

// remHTTP: the URL ids the loopback server answers
var remHTTP = []int{0, 1, 3, 4, 5}

// remIncTable: k = c/10 of a content number → (included URL, absolute reference?)
var remIncTable = map[int][2]int{1: {0, 0}, 2: {1, 0}, 3: {0, 1}, 4: {1, 1}, 5: {3, 0}, 6: {3, 1}}

// remIncFor: the k of a content that includes URL `target` (0, 1 or 3) by a relative or an absolute reference
func remIncFor(target int, abs bool) int {
	for k, e := range remIncTable {
		if e[0] == target && (e[1] == 1) == abs {
			return k
		}
	}
	return 0
}

// remOwner: which http URL a request is for — exactly (`exact`), or as that URL with a default Taskfile name
// appended to its path by RemoteExists (`owner`)
func remOwner(r *http.Request) (exact, owner int) {
	exact, owner = -1, -1
	for _, i := range remHTTP {
		p, q, _ := strings.Cut(remPaths[i], "?")
		if r.URL.RawQuery != q {
			continue
		}
		if r.URL.Path == p {
			exact, owner = i, i
		} else if strings.HasPrefix(r.URL.Path, p+"/") && owner < 0 {
			owner = i
		}
	}
	return
}

// remContent: content number c = v + 10k of URL u; k = 0 is the plain Taskfile; otherwise it includes the URL
// remIncTable[k] names (k = 1,3: URL 0; 2,4: URL 1; 5,6: URL 3; odd-even pairs 1,2,5 relative, 3,4,6 absolute — needs the port)
func remContent(u, c, port int) []byte {
	k := c / 10
	inc, ok := remIncTable[k]
	if !ok {
		return []byte(fmt.Sprintf("version: '3'\nsilent: true\ntasks:\n  probe:\n    cmds:\n      - echo u%dv%d >> \"$VERIF_TRACE\"\n", u, c))
	}
	target := inc[0]
	ref := "../" + strings.TrimPrefix(remPaths[target], "/")
	if inc[1] == 1 {
		ref = fmt.Sprintf("http://127.0.0.1:%d%s", port, remPaths[target])
	}
	return []byte(fmt.Sprintf("version: '3'\nsilent: true\nincludes:\n  b: %s\ntasks:\n  probe:\n    cmds:\n      - echo u%dv%d >> \"$VERIF_TRACE\"\n      - task: b:probe\n",
		ref, u, c))
}

// remIncTarget: the URL that content number c includes (-1: none)
func remIncTarget(c int) int {
	if e, ok := remIncTable[c/10]; ok {
		return e[0]
	}
	return -1
}

func sha256hex(b []byte) string { return fmt.Sprintf("%x", sha256.Sum256(b)) }

// ---- normalisation shared by the case line and the CLI invocation

func (s remStep) norm() remStep {
	if s.NoExp { // the remote flags do not exist without the experiment
		s.Download, s.Offline, s.Clear, s.Expiry, s.ExpiryOmit, s.Patient = false, false, false, 0, true, true
	}
	if s.Expiry != 0 {
		s.Expiry, s.ExpiryOmit = 1, false
	}
	if s.Age != 0 {
		s.Age = 2
	}
	if s.URL < 0 || s.URL >= remURLs {
		s.URL = 0
	}
	if s.V < 1 {
		s.V = 1
	}
	if s.Via != "include" {
		s.Via = "root"
	}
	switch s.Answer {
	case "accept":
		if s.Text == "" {
			s.Text = "y"
		}
	case "decline":
	default:
		s.Answer = "none"
	}
	if _, ok := remIncTable[s.Inc]; !ok {
		s.Inc = 0
	}
	if s.Server2 != "" {
		if s.V2 < 1 {
			s.V2 = 1
		}
		// the listener is closed for every URL or for none
		if s.Server == "refuse" {
			s.Server2 = "refuse"
		} else if s.Server2 == "refuse" {
			s.Server2 = "reset"
		}
		// there is a terminal for both prompts or for none
		switch {
		case s.Answer == "none":
			s.Answer2, s.Text2 = "none", ""
		case s.Answer2 == "accept":
			if s.Text2 == "" {
				s.Text2 = "y"
			}
		default:
			s.Answer2 = "decline"
		}
	}
	return s
}

func (s remStep) stalls() bool  { return s.Server == "stall" || s.Server == "stallget" }
func (s remStep) stalls2() bool { return s.Server2 == "stall" || s.Server2 == "stallget" }

// c1: the content number the server offers for the step's own URL
func (s remStep) c1() int { return s.V + 10*s.Inc }

// cu: index of the http path of a URL (URL 2 is https on path 0)
func remCu(u int) int {
	if u == 2 {
		return 0
	}
	return u
}

func remServerTokens(kind string, v int) (sk, sa int) {
	switch kind {
	case "serve":
		return 0, v
	case "stall", "stallget":
		return 2, v
	case "refuse", "reset":
		return 1, 0
	case "404", "500", "ctype":
		return 1, 1
	case "get500":
		return 1, 2
	}
	return 1, 0
}

func remCaseLine(d remCase) string {
	var sb strings.Builder
	op := "remote.run"
	if d.Chain {
		op = "remote.chain"
	}
	fmt.Fprintf(&sb, "%s %d %d", op, remURLs, len(d.Steps))
	answers := map[string]int{"accept": 0, "decline": 1, "none": 2}
	for _, s := range d.Steps {
		s = s.norm()
		sk, sa := remServerTokens(s.Server, s.c1())
		if s.URL == 2 { // TLS handshake with a plain-http server (or no server): the fetch fails
			sk, sa = 1, 0
		}
		fmt.Fprintf(&sb, " %d %d %s %s %s %s %s %d %s %s %s %d %d %d", s.Age, s.URL, b2s(s.URL == 2),
			b2s(s.Yes), b2s(s.Download), b2s(s.Offline), b2s(s.Insecure), s.Expiry, b2s(s.Patient), b2s(s.Clear),
			b2s(!s.NoExp), sk, sa, answers[s.Answer])
		if d.Chain {
			k2, v2, a2 := s.Server2, s.V2, s.Answer2
			if k2 == "" { // a step without an own description of node 2: the server treats every URL alike
				k2, v2, a2 = s.Server, s.V, s.Answer
				if a2 != "none" {
					a2 = "decline"
				}
			}
			sk2, sa2 := remServerTokens(k2, v2)
			fmt.Fprintf(&sb, " %d %d %d", sk2, sa2, answers[a2])
		}
	}
	return sb.String()
}

// ---- the loopback server

type remServer struct {
	mu    sync.Mutex
	ln    net.Listener
	srv   *http.Server
	port  int
	state remStep
	resv  int // while the listener is closed ("refuse"): a socket bound to the port but not listening (0 = none)
}

func (rs *remServer) handler(w http.ResponseWriter, r *http.Request) {
	rs.mu.Lock()
	st := rs.state
	rs.mu.Unlock()
	u, owner := remOwner(r)
	// which node of the step is asked for: the step's own URL (content V+10*Inc, behaviour Server), or —
	// when the step describes a second node — the other http URL (content V2, behaviour Server2)
	kind, cn := st.Server, st.c1()
	if st.Server2 != "" && owner >= 0 && owner != remCu(st.URL) {
		kind, cn = st.Server2, st.V2
	}
	rs.mu.Lock()
	port := rs.port
	rs.mu.Unlock()
	serve := func() {
		if u < 0 {
			http.NotFound(w, r)
			return
		}
		w.Header().Set("Content-Type", "text/yaml")
		w.WriteHeader(200)
		if r.Method != "HEAD" {
			w.Write(remContent(u, cn, port))
		}
	}
	wait := func() {
		t := time.NewTimer(remStallDelay)
		defer t.Stop()
		select {
		case <-r.Context().Done():
		case <-t.C:
		}
	}
	switch kind {
	case "serve":
		serve()
	case "404":
		http.NotFound(w, r)
	case "500":
		http.Error(w, "boom", 500)
	case "get500":
		if r.Method == "HEAD" {
			serve()
		} else {
			http.Error(w, "boom", 500)
		}
	case "ctype":
		if u < 0 {
			http.NotFound(w, r)
			return
		}
		w.Header().Set("Content-Type", "application/octet-stream")
		w.WriteHeader(200)
		if r.Method != "HEAD" {
			w.Write(remContent(u, cn, port))
		}
	case "stall":
		wait()
		serve()
	case "stallget":
		if r.Method != "HEAD" {
			wait()
		}
		serve()
	case "reset":
		if hj, ok := w.(http.Hijacker); ok {
			if conn, _, err := hj.Hijack(); err == nil {
				if tc, ok := conn.(*net.TCPConn); ok {
					tc.SetLinger(0)
				}
				conn.Close()
				return
			}
		}
		http.Error(w, "boom", 500)
	default:
		http.Error(w, "boom", 500)
	}
}

// reserve: bind (without listening) a socket to the server's port.  Connections to it are refused, and no
// other sequence's server — they run in parallel and ask the kernel for any free port — can be given the
// port while this sequence believes nobody listens there.
func (rs *remServer) reserve() {
	if rs.port == 0 || rs.resv != 0 {
		return
	}
	for i := 0; i < 40; i++ {
		fd, err := syscall.Socket(syscall.AF_INET, syscall.SOCK_STREAM, 0)
		if err != nil {
			return
		}
		syscall.SetsockoptInt(fd, syscall.SOL_SOCKET, syscall.SO_REUSEADDR, 1)
		if err = syscall.Bind(fd, &syscall.SockaddrInet4{Port: rs.port, Addr: [4]byte{127, 0, 0, 1}}); err == nil {
			rs.resv = fd
			return
		}
		syscall.Close(fd)
		time.Sleep(5 * time.Millisecond)
	}
}

func (rs *remServer) release() {
	if rs.resv != 0 {
		syscall.Close(rs.resv)
		rs.resv = 0
	}
}

func (rs *remServer) listen() error {
	rs.release()
	addr := fmt.Sprintf("127.0.0.1:%d", rs.port)
	var ln net.Listener
	var err error
	for i := 0; i < 40; i++ {
		ln, err = net.Listen("tcp", addr)
		if err == nil {
			break
		}
		time.Sleep(15 * time.Millisecond)
	}
	if err != nil {
		return err
	}
	rs.mu.Lock()
	rs.port = ln.Addr().(*net.TCPAddr).Port
	rs.mu.Unlock()
	rs.ln = ln
	rs.srv = &http.Server{Handler: http.HandlerFunc(rs.handler)}
	go rs.srv.Serve(ln)
	return nil
}

func (rs *remServer) close() {
	if rs.srv != nil {
		rs.srv.Close()
		rs.srv, rs.ln = nil, nil
		rs.reserve()
	}
}

// ---- pty

func openPty() (master, slave *os.File, err error) {
	master, err = os.OpenFile("/dev/ptmx", os.O_RDWR|syscall.O_NOCTTY, 0)
	if err != nil {
		return nil, nil, err
	}
	var n uint32
	var unlock int32
	if _, _, e := syscall.Syscall(syscall.SYS_IOCTL, master.Fd(), syscall.TIOCGPTN, uintptr(unsafe.Pointer(&n))); e != 0 {
		master.Close()
		return nil, nil, e
	}
	if _, _, e := syscall.Syscall(syscall.SYS_IOCTL, master.Fd(), syscall.TIOCSPTLCK, uintptr(unsafe.Pointer(&unlock))); e != 0 {
		master.Close()
		return nil, nil, e
	}
	slave, err = os.OpenFile(fmt.Sprintf("/dev/pts/%d", n), os.O_RDWR|syscall.O_NOCTTY, 0)
	if err != nil {
		master.Close()
		return nil, nil, err
	}
	return master, slave, nil
}

var (
	ptyOnce sync.Once
	ptyOK   bool
)

func havePty() bool {
	ptyOnce.Do(func() {
		m, s, err := openPty()
		if err == nil {
			m.Close()
			s.Close()
			ptyOK = true
		}
	})
	return ptyOK
}

// ---- one sequence on the real binary

type remRun struct {
	dir, cache, proj, trace string
	srv                     *remServer
	urls                    [remURLs]string
	keys                    [remURLs]string // sha256(url): part of every cache file name of that url
}

type errInconclusive struct{ why string }

func (e errInconclusive) Error() string { return e.why }

// promptResponder answers the trust prompts of one invocation as they appear on the pty: each
// `… Taskfile at "<url>" … Continue? [y/N]: ` gets the text chosen for that URL (an unknown URL: an
// empty line, i.e. "no")
type promptResponder struct {
	master  *os.File
	texts   map[string]string
	seen    int // bytes of output already scanned
	Prompts []string
}

func (pr *promptResponder) feed(all string) {
	const mark = "[y/N]: "
	for {
		i := strings.Index(all[pr.seen:], mark)
		if i < 0 {
			return
		}
		seg := all[:pr.seen+i]
		pr.seen += i + len(mark)
		url := ""
		if j := strings.LastIndex(seg, "Taskfile at \""); j >= 0 {
			rest := seg[j+len("Taskfile at \""):]
			if k := strings.Index(rest, "\""); k >= 0 {
				url = rest[:k]
			}
		}
		pr.Prompts = append(pr.Prompts, url)
		pr.master.Write([]byte(pr.texts[url] + "\n"))
	}
}

func (rr *remRun) runCLI(s remStep, chain bool) (exit int, out string, err error) {
	bin := os.Getenv("VERIF_TASK_BIN")
	var args []string
	if s.Via == "include" {
		args = append(args, "-t", fmt.Sprintf("inc%d.yml", s.URL), "r:probe")
	} else {
		args = append(args, "-t", rr.urls[s.URL], "probe")
	}
	args = append(args, "-v")
	if s.Insecure {
		args = append(args, "--insecure")
	}
	if s.Yes {
		args = append(args, "--yes")
	}
	if !s.NoExp {
		if s.Download {
			args = append(args, "--download")
		}
		if s.Offline {
			args = append(args, "--offline")
		}
		if s.Clear {
			args = append(args, "--clear-cache")
		}
		if s.Expiry == 1 {
			args = append(args, "--expiry", "1h")
		} else if !s.ExpiryOmit {
			args = append(args, "--expiry", "0s")
		}
		if s.Patient {
			args = append(args, "--timeout", "10s")
		} else {
			args = append(args, "--timeout", "300ms")
		}
	}
	ctx, cancel := context.WithTimeout(context.Background(), 40*time.Second)
	defer cancel()
	cmd := exec.CommandContext(ctx, bin, args...) // cancelled by Process.Kill (SIGKILL)
	cmd.Dir = rr.proj
	cmd.Env = []string{"PATH=" + os.Getenv("PATH"), "HOME=" + filepath.Join(rr.dir, "home"), "NO_COLOR=1",
		"TASK_REMOTE_DIR=" + rr.cache, "VERIF_TRACE=" + rr.trace}
	if !s.NoExp {
		cmd.Env = append(cmd.Env, "TASK_X_REMOTE_TASKFILES=1")
	}
	var buf bytes.Buffer
	var mu sync.Mutex
	w := &lockedWriter{&mu, &buf}
	cmd.Stderr = w
	var master *os.File
	done := make(chan struct{})
	if s.Answer == "none" {
		cmd.Stdin = nil
		cmd.Stdout = w
		close(done)
	} else if chain {
		// chains: up to two prompts, in an order that depends on the cache — answered by URL as they appear
		m, sl, e := openPty()
		if e != nil {
			return 0, "", errInconclusive{"no pty: " + e.Error()}
		}
		master = m
		cmd.Stdin, cmd.Stdout = sl, sl
		if e := cmd.Start(); e != nil {
			master.Close()
			sl.Close()
			return 0, "", e
		}
		sl.Close()
		pr := &promptResponder{master: m, texts: map[string]string{rr.urls[s.URL]: s.Text}}
		for _, o := range remHTTP {
			if o != remCu(s.URL) {
				pr.texts[rr.urls[o]] = s.Text2
			}
		}
		go func() {
			b := make([]byte, 4096)
			var ptyOut strings.Builder // what came over the pty alone (stderr goes to a pipe)
			for {
				n, e := m.Read(b)
				if n > 0 {
					w.Write(b[:n])
					ptyOut.Write(b[:n])
					pr.feed(ptyOut.String())
				}
				if e != nil {
					break
				}
			}
			close(done)
		}()
	} else {
		m, sl, e := openPty()
		if e != nil {
			return 0, "", errInconclusive{"no pty: " + e.Error()}
		}
		master = m
		cmd.Stdin, cmd.Stdout = sl, sl
		// the answer is typed ahead; the line discipline keeps it until the prompt reads it
		if _, e := master.Write([]byte(s.Text + "\n")); e != nil {
			master.Close()
			sl.Close()
			return 0, "", errInconclusive{"pty write: " + e.Error()}
		}
		if e := cmd.Start(); e != nil {
			master.Close()
			sl.Close()
			return 0, "", e
		}
		sl.Close()
		go func() { io.Copy(w, master); close(done) }()
	}
	if master == nil {
		if e := cmd.Start(); e != nil {
			return 0, "", e
		}
	}
	werr := cmd.Wait()
	if master != nil {
		select {
		case <-done:
		case <-time.After(3 * time.Second):
		}
		master.Close()
		<-done
	}
	if ctx.Err() != nil {
		return 0, "", errInconclusive{"task binary hung (killed)"}
	}
	mu.Lock()
	out = buf.String()
	mu.Unlock()
	if werr != nil {
		if ee, ok := werr.(*exec.ExitError); ok {
			return ee.ExitCode(), out, nil
		}
		return 0, out, werr
	}
	return 0, out, nil
}

type lockedWriter struct {
	mu *sync.Mutex
	b  *bytes.Buffer
}

func (l *lockedWriter) Write(p []byte) (int, error) {
	l.mu.Lock()
	defer l.mu.Unlock()
	return l.b.Write(p)
}

func (rr *remRun) age(hours int) {
	ents, _ := os.ReadDir(filepath.Join(rr.cache, "remote"))
	for _, e := range ents {
		if !strings.HasSuffix(e.Name(), ".timestamp") {
			continue
		}
		p := filepath.Join(rr.cache, "remote", e.Name())
		b, err := os.ReadFile(p)
		if err != nil {
			continue
		}
		t, err := time.Parse(time.RFC3339, string(b))
		if err != nil {
			continue
		}
		os.WriteFile(p, []byte(t.Add(-time.Duration(hours)*time.Hour).Format(time.RFC3339)), 0o644)
	}
}

// cacheView: per URL `<content version|->,<checksum version|->,<timestamp present>`; foreign files are listed
func (rr *remRun) cacheView() string {
	type ent struct{ c, s, t string }
	v := [remURLs]ent{}
	for i := range v {
		v[i] = ent{"-", "-", "0"}
	}
	var unknown []string
	ents, _ := os.ReadDir(filepath.Join(rr.cache, "remote"))
	for _, e := range ents {
		name := e.Name()
		u := -1
		for i, k := range rr.keys {
			if strings.Contains(name, k) {
				u = i
			}
		}
		if u < 0 {
			unknown = append(unknown, "unknown:"+name)
			continue
		}
		b, _ := os.ReadFile(filepath.Join(rr.cache, "remote", name))
		cu := u
		if cu == 2 {
			cu = 0
		}
		switch {
		case strings.HasSuffix(name, ".yaml"):
			v[u].c = "?"
			for _, uu := range remHTTP {
				for k := 1; k <= 69; k++ {
					if k%10 != 0 && bytes.Equal(b, remContent(uu, k, rr.srv.port)) {
						if uu == cu {
							v[u].c = fmt.Sprint(k)
						} else { // the content of another URL sits in this URL's cache file
							v[u].c = fmt.Sprintf("!u%dv%d", uu, k)
						}
					}
				}
			}
		case strings.HasSuffix(name, ".checksum"):
			if len(b) == 0 {
				break
			}
			v[u].s = "?"
			for _, uu := range remHTTP {
				for k := 1; k <= 69; k++ {
					if k%10 != 0 && string(b) == sha256hex(remContent(uu, k, rr.srv.port)) {
						if uu == cu {
							v[u].s = fmt.Sprint(k)
						} else {
							v[u].s = fmt.Sprintf("!u%dv%d", uu, k)
						}
					}
				}
			}
		case strings.HasSuffix(name, ".timestamp"):
			v[u].t = "1"
		default:
			unknown = append(unknown, "unknown:"+name)
		}
	}
	parts := make([]string, 0, remURLs+len(unknown))
	for _, e := range v {
		parts = append(parts, e.c+","+e.s+","+e.t)
	}
	sort.Strings(unknown)
	return strings.Join(append(parts, unknown...), " ")
}

func remEvalOnce(d remCase, work string) (impl string, err error) {
	if os.Getenv("VERIF_TASK_BIN") == "" {
		return "", fmt.Errorf("VERIF_TASK_BIN not set")
	}
	rr := &remRun{dir: work, cache: filepath.Join(work, "cache"), proj: filepath.Join(work, "proj"), trace: filepath.Join(work, "trace")}
	for _, p := range []string{rr.cache, rr.proj, filepath.Join(work, "home")} {
		if e := os.MkdirAll(p, 0o755); e != nil {
			return "", e
		}
	}
	defer os.RemoveAll(work)
	rr.srv = &remServer{}
	if e := rr.srv.listen(); e != nil {
		return "", errInconclusive{"listen: " + e.Error()}
	}
	defer func() { rr.srv.close(); rr.srv.release() }()
	for u := 0; u < remURLs; u++ {
		scheme := "http"
		if u == 2 {
			scheme = "https"
		}
		rr.urls[u] = fmt.Sprintf("%s://127.0.0.1:%d%s", scheme, rr.srv.port, remPaths[u])
		rr.keys[u] = sha256hex([]byte(rr.urls[u]))
		inc := fmt.Sprintf("version: '3'\nincludes:\n  r: %s\n", rr.urls[u])
		if e := os.WriteFile(filepath.Join(rr.proj, fmt.Sprintf("inc%d.yml", u)), []byte(inc), 0o644); e != nil {
			return "", e
		}
	}
	approved := map[[2]int]bool{} // (url, version) offered under --yes or an accepted prompt so far
	var outs []string
	for i, s := range d.Steps {
		s = s.norm()
		if s.Age > 0 {
			rr.age(s.Age)
		}
		// server state for this step
		if s.Server == "refuse" {
			rr.srv.close()
		} else {
			rr.srv.mu.Lock()
			rr.srv.state = s
			rr.srv.mu.Unlock()
			if rr.srv.srv == nil {
				if e := rr.srv.listen(); e != nil {
					return "", errInconclusive{"re-listen on the same port: " + e.Error()}
				}
			}
		}
		os.Remove(rr.trace)
		exit, out, e := rr.runCLI(s, d.Chain)
		if e != nil {
			return "", e
		}
		// a timeout although the server was not stalling: the machine was too slow for --timeout 300ms
		offered := s.Server == "serve" || (s.stalls() && s.Patient)
		if !((s.stalls() || s.stalls2()) && !s.Patient) && (exit == 108 || strings.Contains(out, "deadline exceeded")) {
			return "", errInconclusive{fmt.Sprintf("spurious timeout: step %d", i)}
		}
		if offered && s.URL != 2 && (s.Yes || s.Answer == "accept") {
			approved[[2]int{s.URL, s.c1()}] = true
		}
		cu := remCu(s.URL)
		// the same for one node of a step in which the *other* node stalls: a fetch of a serving URL was
		// begun ("downloading remote file: U") and did not end in "found remote file at U"
		lost := func(u string) bool {
			return strings.Contains(out, "downloading remote file: "+u+"\n") && !strings.Contains(out, "found remote file at \""+u+"\"")
		}
		if d.Chain && s.URL != 2 {
			if offered && lost(rr.urls[s.URL]) {
				return "", errInconclusive{fmt.Sprintf("spurious timeout: step %d node 1", i)}
			}
			spent := s.stalls() && !s.Patient
			for _, o := range remHTTP {
				if o != cu && !spent && (s.Server2 == "serve" || (s.stalls2() && s.Patient)) && lost(rr.urls[o]) {
					return "", errInconclusive{fmt.Sprintf("spurious timeout: step %d node 2", i)}
				}
			}
		}
		if s.Server2 != "" && (s.Server2 == "serve" || (s.stalls2() && s.Patient)) && (s.Yes || s.Answer2 == "accept") {
			for _, o := range remHTTP { // whichever other URL the step's content includes
				if o != cu {
					approved[[2]int{o, s.V2}] = true
				}
			}
		}
		var ran []string
		if b, e := os.ReadFile(rr.trace); e == nil {
			ran = strings.Fields(string(b))
		}
		res := ""
		violation := false
		for j, m := range ran {
			var mu, mv int
			n, _ := fmt.Sscanf(m, "u%dv%d", &mu, &mv)
			switch {
			case n == 2 && j == 0 && mu == cu && approved[[2]int{s.URL, mv}]:
			case n == 2 && j == 1 && d.Chain && mu != cu && approved[[2]int{mu, mv}]: // the included Taskfile's probe
			default:
				violation = true
			}
		}
		switch {
		case exit == 0 && len(ran) == 1:
			var mu, mv int
			if n, _ := fmt.Sscanf(ran[0], "u%dv%d", &mu, &mv); n == 2 && mu == cu {
				res = fmt.Sprintf("run:%d", mv)
			} else {
				res = "run:?" + ran[0]
			}
		case exit == 0 && len(ran) == 2 && d.Chain:
			var mu, mv, nu, nv int
			n1, _ := fmt.Sscanf(ran[0], "u%dv%d", &mu, &mv)
			n2, _ := fmt.Sscanf(ran[1], "u%dv%d", &nu, &nv)
			if n1 == 2 && n2 == 2 && mu == cu && nu != cu && nu == remIncTarget(mv) {
				res = fmt.Sprintf("run:%d+%d", mv, nv)
			} else {
				res = "run:?" + strings.Join(ran, "+")
			}
		case exit == 0 && len(ran) == 0 && s.Clear:
			res = "cleared"
		case exit == 0:
			res = "ok-ran:" + strings.Join(ran, "+")
		case len(ran) == 0:
			res = fmt.Sprintf("err:%d", exit)
		default:
			res = fmt.Sprintf("err:%d+ran:%s", exit, strings.Join(ran, "+"))
		}
		line := res + " " + rr.cacheView()
		if violation {
			line += " TRUST-VIOLATION"
		}
		outs = append(outs, line)
	}
	return strings.Join(outs, " ; "), nil
}

var remSeq struct {
	sync.Mutex
	n       int
	retries map[string]int
}

func evalRemote(d remCase) (string, string) {
	cl := remCaseLine(d)
	base := os.Getenv("VERIF_SCRATCH")
	if base == "" {
		base = os.TempDir()
	}
	var last error
	for attempt := 0; attempt < 4; attempt++ {
		remSeq.Lock()
		remSeq.n++
		work := filepath.Join(base, "remote", fmt.Sprintf("s%d", remSeq.n))
		remSeq.Unlock()
		impl, err := remEvalOnce(d, work)
		if err == nil {
			return cl, impl
		}
		last = err
		if _, ok := err.(errInconclusive); !ok {
			break
		}
		remSeq.Lock()
		if remSeq.retries == nil {
			remSeq.retries = map[string]int{}
		}
		remSeq.retries[strings.SplitN(err.Error(), ":", 2)[0]]++
		remSeq.Unlock()
	}
	return cl, "harness-error " + strings.ReplaceAll(last.Error(), "\n", " ")
}

// ---- generation

func (c *Ctx) remStep(prev *remStep, pty bool) remStep {
	r := c.Rng
	s := remStep{Via: "root", Answer: "none"}
	if r.Intn(100) < 30 {
		s.Via = "include"
	}
	switch x := r.Intn(100); {
	case x < 50:
		s.URL = 0
	case x < 64: // same host and path as URL 0, another query
		s.URL = 3
	case x < 70: // … another letter case of the path
		s.URL = 4
	case x < 76: // … a doubled slash in the path
		s.URL = 5
	case x < 94:
		s.URL = 1
	default:
		s.URL = 2
	}
	if r.Intn(100) < 15 {
		s.Age = 2
	}
	s.Insecure = r.Intn(100) < 88
	s.Yes = r.Intn(100) < 30
	s.NoExp = r.Intn(100) < 4
	dl, off := r.Intn(100) < 22, r.Intn(100) < 22
	if dl && off && r.Intn(100) < 75 {
		if r.Intn(2) == 0 {
			dl = false
		} else {
			off = false
		}
	}
	s.Download, s.Offline = dl, off
	if r.Intn(100) < 50 {
		s.Expiry = 1
	} else {
		s.ExpiryOmit = r.Intn(2) == 0
	}
	s.Clear = r.Intn(100) < 4
	// server
	s.V = 1 + r.Intn(3)
	if prev != nil && r.Intn(100) < 55 {
		s.V = prev.V
	}
	switch x := r.Intn(100); {
	case x < 52:
		s.Server = "serve"
	case x < 63:
		s.Server = "refuse"
	case x < 68:
		s.Server = "reset"
	case x < 73:
		s.Server = "404"
	case x < 76:
		s.Server = "500"
	case x < 80:
		s.Server = "get500"
	case x < 83:
		s.Server = "ctype"
	case x < 94:
		s.Server = "stall"
	default:
		s.Server = "stallget"
	}
	if s.stalls() {
		s.Patient = r.Intn(100) < 25
	} else {
		s.Patient = r.Intn(100) < 10
	}
	if pty {
		switch x := r.Intn(100); {
		case x < 35:
			s.Answer = "accept"
			s.Text = []string{"y", "yes", "Y", "YES", " y "}[r.Intn(5)]
		case x < 60:
			s.Answer = "decline"
			s.Text = []string{"n", "", "no", "x", "yes please", "N"}[r.Intn(6)]
		}
	}
	return s
}

func remServerKind(x int) string {
	switch {
	case x < 52:
		return "serve"
	case x < 63:
		return "refuse"
	case x < 68:
		return "reset"
	case x < 73:
		return "404"
	case x < 76:
		return "500"
	case x < 80:
		return "get500"
	case x < 83:
		return "ctype"
	case x < 94:
		return "stall"
	}
	return "stallget"
}

// remChainStep: a step of a chain sequence.  `au`, `bu` are the sequence's URLs A and B: only A is ever served
// content that includes B (or itself), so the cached content of every other URL is a plain Taskfile (the model reads
// chains of two).  The step reads A (as root or as the include of a local root) with probability 85%, else B or
// another http URL.
func (c *Ctx) remChainStep(prev *remStep, pty bool, au, bu int, stallBudget *int) remStep {
	r := c.Rng
	s := c.remStep(prev, pty)
	s.URL = au
	switch x := r.Intn(100); {
	case x < 10:
		s.URL = bu
	case x < 15: // some other plain URL sharing the cache directory (not URL 5: url.JoinPath cleans its doubled slash
		// away, so RemoteExists' probes for default Taskfile names under it are requests under URL 0, which a
		// chain step may serve differently from the step's own URL)
		s.URL = []int{0, 1, 3, 4}[r.Intn(4)]
	}
	s.Inc = 0
	if s.URL == au {
		switch x := r.Intn(100); {
		case x < 78: // includes B, by a relative or an absolute reference
			s.Inc = remIncFor(bu, r.Intn(2) == 1)
		case x < 83: // includes itself
			s.Inc = remIncFor(au, r.Intn(2) == 1)
		}
		if prev != nil && prev.URL == au && r.Intn(100) < 60 {
			s.V, s.Inc = prev.V, prev.Inc
		}
	}
	// server behaviour towards the two URLs: independent, a little more stalling of the step's own URL
	if r.Intn(100) < 12 {
		s.Server = "stall"
	}
	s.Server2 = remServerKind(r.Intn(100))
	s.V2 = 1 + r.Intn(3)
	if prev != nil && prev.Server2 != "" && r.Intn(100) < 60 {
		s.V2 = prev.V2
	}
	if s.stalls() || s.stalls2() {
		s.Patient = r.Intn(100) < 20
		if !s.Patient && !s.NoExp {
			if *stallBudget <= 0 { // bound the wall time: no more stalls past the timeout
				if s.stalls() {
					s.Server = "serve"
				}
				if s.stalls2() {
					s.Server2 = "serve"
				}
			} else {
				*stallBudget--
			}
		}
	}
	if s.Answer != "none" {
		if r.Intn(100) < 55 {
			s.Answer2 = "accept"
			s.Text2 = []string{"y", "yes", "Y", "YES", " y "}[r.Intn(5)]
		} else {
			s.Answer2 = "decline"
			s.Text2 = []string{"n", "", "no", "x", "yes please", "N"}[r.Intn(6)]
		}
	}
	return s.norm()
}

func runRemote(c *Ctx) {
	if c.Replay(func(raw []byte) (string, string) {
		var d remCase
		mustJSON(raw, &d)
		return evalRemote(d)
	}) {
		return
	}
	pty := havePty()
	if !pty {
		c.Hit("pty-unavailable")
	}
	maxLen := c.Pick(5, 8)
	n := c.Pick(500, 6000)
	cases := make([]remCase, 0, n)
	for i := 0; i < n; i++ {
		k := 2 + c.Rng.Intn(maxLen-1)
		var d remCase
		var prev *remStep
		for j := 0; j < k; j++ {
			s := c.remStep(prev, pty)
			if j == 0 && c.Rng.Intn(100) < 60 { // most histories start by getting an approved copy
				s.Server, s.Yes, s.Insecure, s.NoExp, s.Offline, s.Clear, s.Patient = "serve", true, true, false, false, false, false
				if s.URL == 2 {
					s.URL = 0
				}
			}
			d.Steps = append(d.Steps, s)
			prev = &d.Steps[len(d.Steps)-1]
		}
		cases = append(cases, d)
	}
	// chains: A includes B, both read under one --timeout
	nChain := c.Pick(250, 3000)
	stallBudget := c.Pick(150, 1<<30)
	for i := 0; i < nChain; i++ {
		k := 2 + c.Rng.Intn(maxLen-1)
		d := remCase{Chain: true}
		// A and B: the two paths, or two URLs of one path that differ only in the query
		au, bu := 0, 1
		switch x := c.Rng.Intn(100); {
		case x < 45:
		case x < 60:
			au, bu = 1, 0
		case x < 82:
			au, bu = 0, 3
		default:
			au, bu = 3, 0
		}
		var prev *remStep
		for j := 0; j < k; j++ {
			s := c.remChainStep(prev, pty, au, bu, &stallBudget)
			if j == 0 && c.Rng.Intn(100) < 70 { // most histories start by getting approved copies of A and of B
				wasStall := (s.stalls() || s.stalls2()) && !s.Patient && !s.NoExp
				s.URL, s.Server, s.Server2, s.Yes, s.Insecure, s.NoExp, s.Offline, s.Clear, s.Patient = au, "serve", "serve", true, true, false, false, false, false
				if wasStall {
					stallBudget++
				}
				if remIncTarget(s.c1()) != bu {
					s.Inc = remIncFor(bu, c.Rng.Intn(2) == 1)
				}
				s = s.norm()
			}
			d.Steps = append(d.Steps, s)
			prev = &d.Steps[len(d.Steps)-1]
		}
		cases = append(cases, d)
	}
	type res struct{ cl, il string }
	out := make([]res, len(cases))
	workers := 12
	var wg sync.WaitGroup
	jobs := make(chan int)
	for w := 0; w < workers; w++ {
		wg.Add(1)
		go func() {
			defer wg.Done()
			for i := range jobs {
				cl, il := evalRemote(cases[i])
				out[i] = res{cl, il}
			}
		}()
	}
	for i := range cases {
		jobs <- i
	}
	close(jobs)
	wg.Wait()
	for i, d := range cases {
		steps := strings.Split(out[i].il, " ; ")
		open := false
		for j, s := range d.Steps {
			c.Hit("server:" + s.Server)
			c.Hit("answer:" + s.Answer)
			c.Hit("via:" + s.Via)
			c.Hit(fmt.Sprintf("url:%d", s.URL))
			if d.Chain {
				c.Hit("chain:step")
				c.Hit("chain:server2:" + s.Server2)
				c.Hit("chain:answer2:" + s.Answer2)
				c.Hit("chain:inc:" + func() string {
					e, ok := remIncTable[s.Inc]
					switch {
					case !ok:
						return "none"
					case e[1] == 1:
						return "abs"
					}
					return "rel"
				}() + func() string {
					if t := remIncTarget(s.c1()); t == 3 || (t == 0 && remCu(s.URL) == 3) {
						return "-query-variant"
					}
					return ""
				}() + func() string {
					if t := remIncTarget(s.c1()); t >= 0 && t == remCu(s.URL) {
						return "-self"
					}
					return ""
				}())
				if j < len(steps) {
					r := strings.SplitN(steps[j], " ", 2)[0]
					both := strings.HasPrefix(r, "run:") && strings.Contains(r, "+")
					spent := s.stalls() && !s.Patient && !s.NoExp
					switch {
					case both && spent:
						c.Hit("chain:both-ran-after-node1-used-up-the-deadline")
					case both && !s.Patient && s.stalls2():
						c.Hit("chain:both-ran-node2-timed-out")
					case both && s.Server2 != "serve" && !s.stalls2():
						c.Hit("chain:both-ran-node2-fetch-failed")
					case both && s.Offline:
						c.Hit("chain:both-ran-offline")
					case both:
						c.Hit("chain:both-ran")
					case spent && r == "err:108":
						c.Hit("chain:deadline-108")
					case r == "err:110":
						c.Hit("chain:cycle-110")
					}
				}
			}
			if j < len(steps) {
				r := strings.SplitN(steps[j], " ", 2)[0]
				c.Hit("result:" + strings.SplitN(r, ":", 2)[0] + func() string {
					if strings.HasPrefix(r, "err:") {
						return ":" + strings.TrimPrefix(r, "err:")
					}
					return ""
				}())
				if r != "err:1" && r != "err:105" {
					open = true
				}
			}
		}
		if strings.HasPrefix(out[i].il, "harness-error") {
			c.Hit("harness-error")
		}
		if open {
			c.Distinct(out[i].cl)
		}
		c.Emit(out[i].cl, out[i].il, d)
	}
	b, _ := json.Marshal(map[string]any{"pty": pty, "workers": workers, "sequences_rerun": remSeq.retries})
	c.Extra["remote"] = json.RawMessage(b)
}
